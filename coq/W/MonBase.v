(** * Layer W: common ground of the monitor theorems.

    [XInv]: what a thread without a command in progress can be doing (only its exit sequence; never the main thread).
    [BRel st b]: the bookkeeping part [mbase] of every monitor, after the events of a run prefix, agrees with the
    model state reached by that prefix: commands in progress, unserved notification, number of threads, threads
    known to be inside their exit sequence.  Consequence: a monitor that sees a quiescent trace is looking at a
    quiescent model state ([mbq_quiescent]). *)
From Coq Require Import ZArith List Bool Arith Lia.
From Stk Require Import Lib.U Gen.SrcWaker W.Waker W.WakerArith W.WakerCore W.WakerSlab W.WakerPres W.WakerRefine
  W.WakerProofs W.WakerGhost W.WakerLock W.WakerDrop W.WakerSlot W.WakerWf W.Chan W.Pipe W.Monitors.
Import ListNotations.
Local Open Scope Z_scope.

(** ** which thread fields a component may change *)
Definition tframe (st st' : wstate) (t : tid) : Prop :=
  nthr st' = nthr st /\
  (forall u, tcur (thr st' u) = tcur (thr st u) /\ tscript (thr st' u) = tscript (thr st u) /\
             tfinal (thr st' u) = tfinal (thr st u) /\ tstarted (thr st' u) = tstarted (thr st u) /\
             tpipe (thr st' u) = tpipe (thr st u)) /\
  (forall u, u <> t -> tcont (thr st' u) = tcont (thr st u)).

Lemma tframe_trans : forall a b c t, tframe a b t -> tframe b c t -> tframe a c t.
Proof.
  intros a b c t [A1 [A2 A3]] [B1 [B2 B3]]. split; [congruence|]. split.
  - intro u. destruct (A2 u) as [X1 [X2 [X3 [X4 X5]]]]. destruct (B2 u) as [Y1 [Y2 [Y3 [Y4 Y5]]]]. repeat split; congruence.
  - intros u Hu. rewrite B3, A3; auto.
Qed.

Ltac tf := split; [reflexivity|split; [intro; repeat split; thr_simpl|thr_simpl]].

Lemma exec_lact_tf : forall st t a r st' ev, exec_lact st t a r = (st', ev) -> tframe st st' t.
Proof.
  intros st t a r st' ev H.
  destruct a; cbn [exec_lact] in H; unfold ghost_handler in H; destr_all H; inversion H; subst; clear H; tf.
Qed.
Lemma exec_uact_tf : forall st t a r st' ev, exec_uact st t a r = (st', ev) -> tframe st st' t.
Proof.
  intros st t a r st' ev H. destruct a; cbn [exec_uact] in H; inversion H; subst; clear H; tf.
Qed.

Lemma notify_fold_fields : forall us st,
  let st' := fold_left (fun s u => upd_th s u (set_twaiting (th s u) false)) us st in
  nthr st' = nthr st /\
  forall u, tcur (thr st' u) = tcur (thr st u) /\ tscript (thr st' u) = tscript (thr st u) /\
            tfinal (thr st' u) = tfinal (thr st u) /\ tstarted (thr st' u) = tstarted (thr st u) /\
            tpipe (thr st' u) = tpipe (thr st u) /\ tcont (thr st' u) = tcont (thr st u).
Proof.
  induction us as [|v us IH]; intro st; cbn zeta; [split; [reflexivity|intro; repeat split; reflexivity]|].
  cbn [fold_left]. destruct (IH (upd_th st v (set_twaiting (th st v) false))) as [A B]. cbn zeta in *.
  split; [rewrite A; reflexivity|]. intro u. destruct (B u) as [X1 [X2 [X3 [X4 [X5 X6]]]]].
  rewrite X1, X2, X3, X4, X5, X6. cbn. unfold updN, th. destruct (Nat.eqb_spec u v); subst; cbn; repeat split; reflexivity.
Qed.

Lemma exec_instr_tf : forall st t i r st' ev, exec_instr st t i r = (st', ev) -> tframe st st' t.
Proof.
  intros st t i r st' ev H. destruct i; cbn [exec_instr] in H.
  - destruct k; cbn [exec_climb] in H; inversion H; subst; clear H;
      try (destruct (bitmap_join a b (bmbase st bm)) as [x|]; [destruct (slab_get (sl st) x)|]); tf.
  - inversion H; subst; clear H. tf.
  - destruct bms; inversion H; subst; clear H; tf.
  - destruct ls; [inversion H; subst; tf|].
    destruct (collect (bmbase st bm) z (leaf st bm z)) as [bits ok].
    match type of H with context [ghost_collect ?S0 bits] =>
      destruct (ghost_collect_frame bits S0) as [A1 A2]; remember (ghost_collect S0 bits) as s3 eqn:Es3 end.
    inversion H; subst st' ev; clear H. split; [cbn; rewrite A1; reflexivity|]. split.
    + intro u. cbn -[Nat.eqb]. unfold updN, th. rewrite A2. cbn -[Nat.eqb]. unfold updN, th.
      destruct (Nat.eqb_spec u t); subst; rewrite ?Nat.eqb_refl; cbn; repeat split; reflexivity.
    + intros u Hu. cbn -[Nat.eqb]. unfold updN, th. rewrite A2. cbn -[Nat.eqb]. unfold updN, th.
      destruct (Nat.eqb_spec u t); [congruence|reflexivity].
  - inversion H; subst; tf.
  - inversion H; subst; tf.
  - inversion H; subst; tf.
  - match type of H with context [exec_lact ?S0 t ?aa ?rr] => destruct (exec_lact S0 t aa rr) as [s2 e2] eqn:E; set (s1 := S0) in * end.
    inversion H; subst; clear H. apply exec_lact_tf in E. eapply tframe_trans; [|exact E]. unfold s1. tf.
  - destruct (exec_uact st t a r) as [s1 e1] eqn:E. inversion H; subst; clear H.
    apply exec_uact_tf in E. eapply tframe_trans; [exact E|]. tf.
  - inversion H; subst; clear H. tf.
  - match type of H with context [exec_lact ?S0 t ?aa ?rr] => destruct (exec_lact S0 t aa rr) as [s2 e2] eqn:E; set (s1 := S0) in * end.
    inversion H; subst; clear H. apply exec_lact_tf in E. eapply tframe_trans; [|exact E]. unfold s1. tf.
  - inversion H; subst st' ev; clear H.
    match goal with |- tframe st (set_cont (fold_left ?f ?us st) t r) t => destruct (notify_fold_fields us st) as [A B]; set (s1 := fold_left f us st) in * end.
    cbn zeta in *. split; [cbn; exact A|]. split.
    + intro u. destruct (B u) as [X1 [X2 [X3 [X4 [X5 X6]]]]]. cbn. unfold updN, th.
      destruct (Nat.eqb_spec u t); subst; cbn; repeat split; auto.
    + intros u Hu. destruct (B u) as [_ [_ [_ [_ [_ X6]]]]]. cbn. unfold updN, th. destruct (Nat.eqb_spec u t); [congruence|exact X6].
  - unfold ghost_handler in H. inversion H; subst; clear H. destruct del; tf.
  - inversion H; subst; clear H. tf.
  - inversion H; subst; clear H. tf.
Qed.

(** ** threads without a command in progress *)
Record XInv (st : wstate) : Prop := {
  x_idle : forall t, tcur (thr st t) = None -> tcont (thr st t) <> [] ->
           tscript (thr st t) = [] /\ tfinal (thr st t) = [] /\ t <> main /\ tstarted (thr st t) = true;
  x_main : tfinal (thr st main) = [] /\ tpipe (thr st main) < 0;
  x_fresh : forall t, tstarted (thr st t) = false -> tcont (thr st t) = [] /\ tcur (thr st t) = None }.

Definition tfields (st st' : wstate) (u : tid) : Prop :=
  tcur (thr st' u) = tcur (thr st u) /\ tscript (thr st' u) = tscript (thr st u) /\
  tfinal (thr st' u) = tfinal (thr st u) /\ tstarted (thr st' u) = tstarted (thr st u) /\
  tpipe (thr st' u) = tpipe (thr st u).

(** only the continuation of [t] changes, and [t] is inside a command or keeps a non-empty continuation non-empty *)
Lemma x_cont : forall st st' t,
  XInv st -> (forall u, tfields st st' u) -> (forall u, u <> t -> tcont (thr st' u) = tcont (thr st u)) ->
  (tcur (thr st t) = None -> tcont (thr st' t) <> [] -> tcont (thr st t) <> []) ->
  (tstarted (thr st t) = false -> tcont (thr st' t) = []) ->
  XInv st'.
Proof.
  intros st st' t X Hf Ho Hc Hs. constructor.
  - intros u. destruct (Hf u) as [A [B [C [D E]]]]. rewrite A, B, C, D. destruct (Nat.eq_dec u t) as [->|Hu].
    + intros H1 H2. apply (x_idle st X t H1). auto.
    + rewrite (Ho u Hu). apply (x_idle st X u).
  - destruct (Hf main) as [_ [_ [C [_ E]]]]. rewrite C, E. apply (x_main st X).
  - intros u. destruct (Hf u) as [A [_ [_ [D _]]]]. rewrite A, D. intro H. destruct (x_fresh st X u H) as [P Q]. split; [|exact Q].
    destruct (Nat.eq_dec u t) as [->|Hu]; [apply Hs; exact H|rewrite (Ho u Hu); exact P].
Qed.

Lemma x_tframe : forall st st' t i r,
  XInv st -> tframe st st' t -> tcont (thr st t) = i :: r -> tstarted (thr st t) = true -> XInv st'.
Proof.
  intros st st' t i r X [_ [Hf Ho]] Hc Hs. apply (x_cont st st' t X); auto.
  - intros _ _. rewrite Hc. discriminate.
  - congruence.
Qed.

Lemma x_spawn : forall st t p f, XInv st -> pristine st -> XInv (spawn_thread st t p f).
Proof.
  intros st t p f X [P0 P]. set (st' := spawn_thread st t p f).
  assert (T : forall u, u <> nthr st -> thr st' u = thr st u).
  { intros u Hu. unfold st'. cbn. unfold updN. destruct (Nat.eqb_spec u (nthr st)); [congruence|reflexivity]. }
  assert (Tn : thr st' (nthr st) = mkThread false [] (scripts st (nthr st)) f None RUnit [] false p (tclk (th st t))).
  { unfold st'. cbn. unfold updN. rewrite Nat.eqb_refl. reflexivity. }
  assert (Hm : main <> nthr st) by (unfold main; lia).
  constructor.
  - intros u. destruct (Nat.eq_dec u (nthr st)) as [->|Hu]; [rewrite Tn; cbn; congruence|rewrite (T u Hu); apply (x_idle st X u)].
  - rewrite (T main Hm). apply (x_main st X).
  - intros u. destruct (Nat.eq_dec u (nthr st)) as [->|Hu]; [rewrite Tn; cbn; auto|rewrite (T u Hu); apply (x_fresh st X u)].
Qed.

Lemma x_same : forall st st', (forall u, tfields st st' u /\ tcont (thr st' u) = tcont (thr st u)) -> XInv st -> XInv st'.
Proof.
  intros st st' H X. constructor.
  - intros u. destruct (H u) as [[A [B [C [D E]]]] F]. rewrite A, B, C, D, F. apply (x_idle st X u).
  - destruct (H main) as [[_ [_ [C [_ E]]]] _]. rewrite C, E. apply (x_main st X).
  - intros u. destruct (H u) as [[A [_ [_ [D _]]]] F]. rewrite A, D, F. apply (x_fresh st X u).
Qed.

Ltac xs := let u := fresh "u" in intro u; split; [repeat split; thr_simpl|thr_simpl].
Ltac xc st t := apply (x_cont st _ t); [assumption|intro; repeat split; thr_simpl|thr_simpl|congruence|congruence].

Lemma begin_cmd_X : forall st t c st' ev done,
  XInv st -> pristine st -> (t < nthr st)%nat -> tcur (thr st t) <> None -> tstarted (thr st t) = true ->
  begin_cmd st t c = (st', ev, done) -> XInv st'.
Proof.
  intros st t c st' ev done X P Ht Hcur Hs H.
  assert (Add : forall h st1 wi, wh_add st h = Some (st1, wi) -> XInv st1 /\ pristine st1 /\ thr st1 = thr st).
  { intros h st1 wi E.
    destruct (wh_add_core _ _ _ _ E) as [c1 [A [B [C1 [C2 [C3 [C4 [C5 [C6 [C7 C8]]]]]]]]]].
    split; [|split; [|exact C1]].
    - apply (x_same st); auto. intro u. unfold tfields. rewrite C1. repeat split; reflexivity.
    - destruct P as [P0 P]. split; [lia|]. intros u Hu. rewrite C1. apply P. lia. }
  destruct c; cbn [begin_cmd] in H; destr_all H; inversion H; subst; clear H; auto;
    try (xc st t; fail).
  - match goal with E : wh_add _ _ = Some _ |- _ => destruct (Add _ _ _ E) as [X1 _] end. eapply x_same; [|exact X1]. xs.
  - match goal with E : fill_loop _ _ _ = _ |- _ => destruct (fill_loop_pps _ _ _ _ _ E) as [_ B] end.
    apply (x_same st); auto. intro u. unfold tfields. rewrite B. repeat split; reflexivity.
  - apply x_spawn; auto.
  - match goal with E : wh_add _ _ = Some _ |- _ => destruct (Add _ _ _ E) as [X1 [P1 T1]] end.
    eapply (x_cont _ _ t); [exact X1|intro; repeat split; thr_simpl|thr_simpl| |]; rewrite T1; congruence.
  - match goal with E : wh_add _ _ = Some _ |- _ => destruct (Add _ _ _ E) as [X1 [P1 T1]] end.
    apply x_spawn; auto. eapply x_same; [|exact X1]. xs.
  - (* CPanic *)
    match goal with E : (_ <? 0) = false |- _ => apply Z.ltb_ge in E; rename E into Heqb end.
    constructor.
    + intros u. cbn -[Nat.eqb]. unfold updN, th. destruct (Nat.eqb_spec u t); subst; cbn; [congruence|apply (x_idle st X u)].
    + cbn -[Nat.eqb]. unfold updN, th. destruct (Nat.eqb_spec main t) as [E|E]; [|apply (x_main st X)].
      subst t. destruct (x_main st X) as [_ Q]. unfold th in Heqb. lia.
    + intros u. cbn -[Nat.eqb]. unfold updN, th. destruct (Nat.eqb_spec u t); subst; cbn; [congruence|apply (x_fresh st X u)].
Qed.

Lemma settle_X : forall st t ev done st' ev',
  XInv st -> tstarted (thr st t) = true -> (done <> None -> tcont (thr st t) = []) ->
  settle st t ev done = (st', ev') -> XInv st'.
Proof.
  intros st t ev done st' ev' X Hs Hd H. unfold settle in H.
  destruct (norm (2 * (cont_size (tcont (th st t)) + length (tacc (th st t))) + 2) (sl st) (tacc (th st t)) (tcont (th st t)) ev)
    as [[[s1 acc1] k1] ev1] eqn:En.
  cbn zeta in H.
  pose proof (norm_nrel _ _ _ _ _ _ _ _ _ En) as N.
  set (st1 := set_sl (upd_th st t (set_tacc (set_tcont (th st t) k1) acc1)) s1) in *.
  assert (X1 : XInv st1).
  { apply (x_cont st st1 t X).
    - intro u. unfold st1. repeat split; thr_simpl.
    - unfold st1. thr_simpl.
    - intros _ Hne E. unfold st1 in Hne. cbn -[Nat.eqb] in Hne. unfold updN, th in Hne. rewrite Nat.eqb_refl in Hne. cbn in Hne.
      unfold th in N. rewrite E in N. apply nrel_nil in N. congruence.
    - congruence. }
  assert (T1 : tcont (thr st1 t) = k1) by (unfold st1; thr_simpl).
  assert (S1 : tstarted (thr st1 t) = true) by (unfold st1; cbn -[Nat.eqb]; unfold updN, th; rewrite Nat.eqb_refl; cbn; exact Hs).
  assert (Hd1 : done <> None -> k1 = []).
  { intro D. unfold th in N. rewrite (Hd D) in N. apply nrel_nil. exact N. }
  clearbody st1.
  match type of H with (let '(st2, ev2) := ?E in _) = _ => destruct E as [st2 ev2] eqn:E2 end.
  assert (Done : forall s, (forall u, u <> t -> thr s u = thr st1 u) -> thr s t = set_tcur (thr st1 t) None -> k1 = [] -> XInv s).
  { intros s A F G. constructor.
    - intros u. destruct (Nat.eq_dec u t) as [->|Hu]; [rewrite F; cbn; rewrite T1, G; congruence|rewrite (A u Hu); apply (x_idle st1 X1 u)].
    - destruct (Nat.eq_dec main t) as [<-|Hu]; [rewrite F; cbn|rewrite (A main Hu)]; apply (x_main st1 X1).
    - intros u. destruct (Nat.eq_dec u t) as [->|Hu]; [rewrite F; cbn; congruence|rewrite (A u Hu); apply (x_fresh st1 X1 u)]. }
  assert (X2 : XInv st2 /\ tstarted (thr st2 t) = true).
  { destruct done as [v|].
    - inversion E2; subst. split; [|thr_simpl]. apply Done; [thr_simpl|cbn; unfold updN, th; rewrite Nat.eqb_refl; reflexivity|apply Hd1; discriminate].
    - destruct k1.
      + destruct (tcur (th st1 t)) as [c|]; inversion E2; subst; [|auto].
        split; [|destruct c; thr_simpl]. apply Done; try reflexivity; destruct c; try thr_simpl; cbn; unfold updN, th; rewrite Nat.eqb_refl; reflexivity.
      + inversion E2; subst. auto. }
  destruct X2 as [X2 S2].
  destruct (tcont (th st2 t)) eqn:Ec; [|inversion H; subst; exact X2].
  destruct (tscript (th st2 t)) eqn:Es; [|inversion H; subst; exact X2].
  destruct (tcur (th st2 t)) eqn:Eu; [inversion H; subst; exact X2|].
  destruct (tfinal (th st2 t)) eqn:Ef; inversion H; subst; [exact X2|].
  unfold th in *.
  assert (Hm : t <> main).
  { intro E. subst t. destruct (x_main st2 X2) as [A _]. congruence. }
  constructor.
  - intros u. cbn -[Nat.eqb]. unfold updN, th. destruct (Nat.eqb_spec u t); subst; cbn; [auto|apply (x_idle st2 X2 u)].
  - cbn -[Nat.eqb]. unfold updN, th. destruct (Nat.eqb_spec main t); [congruence|apply (x_main st2 X2)].
  - intros u. cbn -[Nat.eqb]. unfold updN, th. destruct (Nat.eqb_spec u t); subst; cbn; [congruence|apply (x_fresh st2 X2 u)].
Qed.

Theorem wstep_X : forall st t st' ev, MInv st -> XInv st -> wstep st t = (st', ev) -> XInv st'.
Proof.
  intros st t st' ev [I [P Wf]] X H. unfold wstep in H.
  destruct (enabled st t) eqn:En; cbn [negb] in H; [|inversion H; subst; exact X].
  assert (Ht : (t < nthr st)%nat).
  { unfold enabled in En. apply andb_true_iff in En. destruct En as [En _]. apply Nat.ltb_lt in En. exact En. }
  assert (Pt : pristine (tick st t)) by (unfold tick; prist st t).
  assert (Xt : XInv (tick st t)) by (apply (x_same st); auto; unfold tick; xs).
  assert (Htt : (t < nthr (tick st t))%nat) by exact Ht.
  set (s0 := tick st t) in *. clearbody s0. clear En.
  destruct (tstarted (th s0 t)) eqn:Es0; cbn [negb] in H.
  - destruct (tcont (th s0 t)) as [|i r] eqn:Ec.
    + destruct (tscript (th s0 t)) as [|c0 cs] eqn:Es; [inversion H; subst; exact X|].
      match type of H with context [begin_cmd ?S0 t ?cc] =>
        destruct (begin_cmd S0 t cc) as [[st2 ev0] done] eqn:Eb; set (s1 := S0) in * end.
      assert (P1 : pristine s1) by (unfold s1; prist s0 t).
      assert (Hc1 : tcont (thr s1 t) = []) by (unfold s1; thr_simpl; exact Ec).
      assert (Ht1 : (t < nthr s1)%nat) by exact Htt.
      assert (Hcur : tcur (thr s1 t) <> None) by (unfold s1; thr_simpl).
      assert (Hs1 : tstarted (thr s1 t) = true) by (unfold s1; thr_simpl; exact Es0).
      assert (X1 : XInv s1).
      { constructor.
        - intros u. unfold s1. cbn -[Nat.eqb]. unfold updN, th. destruct (Nat.eqb_spec u t); subst; cbn; [congruence|apply (x_idle s0 Xt u)].
        - unfold s1. cbn -[Nat.eqb]. unfold updN, th. destruct (Nat.eqb_spec main t); subst; cbn; apply (x_main s0 Xt).
        - intros u. unfold s1. cbn -[Nat.eqb]. unfold updN, th. destruct (Nat.eqb_spec u t); subst; cbn; [unfold th in Es0; congruence|apply (x_fresh s0 Xt u)]. }
      pose proof (begin_cmd_X s1 t c0 st2 ev0 done X1 P1 Ht1 Hcur Hs1 Eb) as X2.
      assert (Hs2 : tstarted (thr st2 t) = true).
      { destruct (tstarted (thr st2 t)) eqn:E; auto. destruct (x_fresh st2 X2 t E) as [_ Q].
        exfalso. clearbody s1. clear - Eb Hcur Q Ht1.
        assert (G : tcur (thr st2 t) = tcur (thr s1 t)).
        { assert (Sp : forall s p f, thr s = thr s1 -> nthr s = nthr s1 -> tcur (thr (spawn_thread s t p f) t) = tcur (thr s1 t)).
          { intros s p f E1 E2. cbn. unfold updN, th. destruct (Nat.eqb_spec t (nthr s)); [lia|]. rewrite E1. reflexivity. }
          destruct c0; cbn [begin_cmd] in Eb; destr_all Eb; inversion Eb; subst; clear Eb; try reflexivity;
            repeat match goal with
                   | E : wh_add _ _ = Some _ |- _ => destruct (wh_add_core _ _ _ _ E) as [? [? [? [C1 [C2 _]]]]]; clear E
                   | E : fill_loop _ _ _ = _ |- _ => destruct (fill_loop_pps _ _ _ _ _ E) as [_ C1]; clear E
                   end;
            try (cbn; rewrite C1; reflexivity); try (apply Sp; auto; fail); try thr_simpl;
            try (cbn -[Nat.eqb]; unfold updN, th; rewrite Nat.eqb_refl; cbn; rewrite C1; reflexivity). }
        congruence. }
      eapply settle_X; [exact X2|exact Hs2| |exact H].
      intro D. destruct done as [v|]; [|congruence]. rewrite (begin_cmd_done s1 t c0 st2 ev0 v Ht1 Eb). exact Hc1.
    + destruct (exec_instr s0 t i r) as [st1 ev1] eqn:Ee.
      pose proof (exec_instr_tf _ _ _ _ _ _ Ee) as F.
      assert (X1 : XInv st1) by (eapply (x_tframe s0 st1 t i r); eauto).
      eapply settle_X; [exact X1| |intro D; exfalso; apply D; reflexivity|exact H].
      destruct F as [_ [F _]]. destruct (F t) as [_ [_ [_ [D _]]]]. rewrite D. exact Es0.
  - eapply settle_X; [| |intro D; exfalso; apply D; reflexivity|exact H].
    + destruct (x_fresh s0 Xt t Es0) as [Q1 Q2].
      constructor.
      * intros u. cbn -[Nat.eqb]. unfold updN, th. destruct (Nat.eqb_spec u t); subst; cbn; [congruence|apply (x_idle s0 Xt u)].
      * cbn -[Nat.eqb]. unfold updN, th. destruct (Nat.eqb_spec main t); subst; cbn; apply (x_main s0 Xt).
      * intros u. cbn -[Nat.eqb]. unfold updN, th. destruct (Nat.eqb_spec u t); subst; cbn; [congruence|apply (x_fresh s0 Xt u)].
    + thr_simpl.
Qed.

Lemma X_init : forall scr, XInv (winit scr).
Proof.
  intro scr. constructor; cbn.
  - intros t _ Hc. congruence.
  - split; [reflexivity|lia].
  - intros; split; reflexivity.
Qed.

Lemma wrun_X : forall sched st, MInv st -> XInv st -> XInv (fst (wrun st sched)).
Proof.
  induction sched as [|t rest IH]; intros st M X; cbn [wrun]; auto.
  destruct (wstep st t) as [st1 ev] eqn:E.
  specialize (IH st1 (wstep_inv _ _ _ _ M E) (wstep_X _ _ _ _ M X E)).
  destruct (wrun st1 rest) as [st2 tr]. exact IH.
Qed.

Theorem reachable_X : forall st, reachable st -> XInv st.
Proof. intros st [scr [sched ->]]. apply wrun_X; [apply MInv_init|apply X_init]. Qed.
