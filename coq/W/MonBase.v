(** * Layer W: common ground of the monitor theorems.

    [XInv]: what a thread without a command in progress can be doing (only its exit sequence; never the main thread).
    [BRel st b]: the bookkeeping part [mbase] of every monitor, after the events of a run prefix, agrees with the
    model state reached by that prefix: commands in progress, unserved notification, number of threads, threads
    known to be inside their exit sequence.  Consequence: a monitor that sees a quiescent trace is looking at a
    quiescent model state ([mbq_quiescent]). *)
From Coq Require Import ZArith List Bool Arith Lia.
From Stk Require Import Lib.U Gen.SrcWaker W.Waker W.WakerArith W.WakerCore W.WakerSlab W.WakerPres W.WakerRefine
  W.WakerProofs W.WakerGhost W.WakerLock W.WakerDrop W.WakerSlot W.WakerWf W.Chan W.Pipe W.Monitors.
Import ListNotations.
Local Open Scope Z_scope.

(** ** which thread fields a component may change *)
Definition tframe (st st' : wstate) (t : tid) : Prop :=
  nthr st' = nthr st /\
  (forall u, tcur (thr st' u) = tcur (thr st u) /\ tscript (thr st' u) = tscript (thr st u) /\
             tfinal (thr st' u) = tfinal (thr st u) /\ tstarted (thr st' u) = tstarted (thr st u) /\
             tpipe (thr st' u) = tpipe (thr st u)) /\
  (forall u, u <> t -> tcont (thr st' u) = tcont (thr st u)).

Lemma tframe_trans : forall a b c t, tframe a b t -> tframe b c t -> tframe a c t.
Proof.
  intros a b c t [A1 [A2 A3]] [B1 [B2 B3]]. split; [congruence|]. split.
  - intro u. destruct (A2 u) as [X1 [X2 [X3 [X4 X5]]]]. destruct (B2 u) as [Y1 [Y2 [Y3 [Y4 Y5]]]]. repeat split; congruence.
  - intros u Hu. rewrite B3, A3; auto.
Qed.

Ltac tf := split; [reflexivity|split; [intro; repeat split; thr_simpl|thr_simpl]].

Lemma exec_lact_tf : forall st t a r st' ev, exec_lact st t a r = (st', ev) -> tframe st st' t.
Proof.
  intros st t a r st' ev H.
  destruct a; cbn [exec_lact] in H; unfold ghost_handler in H; destr_all H; inversion H; subst; clear H; tf.
Qed.
Lemma exec_uact_tf : forall st t a r st' ev, exec_uact st t a r = (st', ev) -> tframe st st' t.
Proof.
  intros st t a r st' ev H. destruct a; cbn [exec_uact] in H; inversion H; subst; clear H; tf.
Qed.

Lemma notify_fold_fields : forall us st,
  let st' := fold_left (fun s u => upd_th s u (set_twaiting (th s u) false)) us st in
  nthr st' = nthr st /\
  forall u, tcur (thr st' u) = tcur (thr st u) /\ tscript (thr st' u) = tscript (thr st u) /\
            tfinal (thr st' u) = tfinal (thr st u) /\ tstarted (thr st' u) = tstarted (thr st u) /\
            tpipe (thr st' u) = tpipe (thr st u) /\ tcont (thr st' u) = tcont (thr st u).
Proof.
  induction us as [|v us IH]; intro st; cbn zeta; [split; [reflexivity|intro; repeat split; reflexivity]|].
  cbn [fold_left]. destruct (IH (upd_th st v (set_twaiting (th st v) false))) as [A B]. cbn zeta in *.
  split; [rewrite A; reflexivity|]. intro u. destruct (B u) as [X1 [X2 [X3 [X4 [X5 X6]]]]].
  rewrite X1, X2, X3, X4, X5, X6. cbn. unfold updN, th. destruct (Nat.eqb_spec u v); subst; cbn; repeat split; reflexivity.
Qed.

Lemma exec_instr_tf : forall st t i r st' ev, exec_instr st t i r = (st', ev) -> tframe st st' t.
Proof.
  intros st t i r st' ev H. destruct i; cbn [exec_instr] in H.
  - destruct k; cbn [exec_climb] in H; inversion H; subst; clear H;
      try (destruct (bitmap_join a b (bmbase st bm)) as [x|]; [destruct (slab_get (sl st) x)|]); tf.
  - inversion H; subst; clear H. tf.
  - destruct bms; inversion H; subst; clear H; tf.
  - destruct ls; [inversion H; subst; tf|].
    destruct (collect (bmbase st bm) z (leaf st bm z)) as [bits ok].
    match type of H with context [ghost_collect ?S0 bits] =>
      destruct (ghost_collect_frame bits S0) as [A1 A2]; remember (ghost_collect S0 bits) as s3 eqn:Es3 end.
    inversion H; subst st' ev; clear H. split; [cbn; rewrite A1; reflexivity|]. split.
    + intro u. cbn -[Nat.eqb]. unfold updN, th. rewrite A2. cbn -[Nat.eqb]. unfold updN, th.
      destruct (Nat.eqb_spec u t); subst; rewrite ?Nat.eqb_refl; cbn; repeat split; reflexivity.
    + intros u Hu. cbn -[Nat.eqb]. unfold updN, th. rewrite A2. cbn -[Nat.eqb]. unfold updN, th.
      destruct (Nat.eqb_spec u t); [congruence|reflexivity].
  - inversion H; subst; tf.
  - inversion H; subst; tf.
  - inversion H; subst; tf.
  - match type of H with context [exec_lact ?S0 t ?aa ?rr] => destruct (exec_lact S0 t aa rr) as [s2 e2] eqn:E; set (s1 := S0) in * end.
    inversion H; subst; clear H. apply exec_lact_tf in E. eapply tframe_trans; [|exact E]. unfold s1. tf.
  - destruct (exec_uact st t a r) as [s1 e1] eqn:E. inversion H; subst; clear H.
    apply exec_uact_tf in E. eapply tframe_trans; [exact E|]. tf.
  - inversion H; subst; clear H. tf.
  - match type of H with context [exec_lact ?S0 t ?aa ?rr] => destruct (exec_lact S0 t aa rr) as [s2 e2] eqn:E; set (s1 := S0) in * end.
    inversion H; subst; clear H. apply exec_lact_tf in E. eapply tframe_trans; [|exact E]. unfold s1. tf.
  - inversion H; subst st' ev; clear H.
    match goal with |- tframe st (set_cont (fold_left ?f ?us st) t r) t => destruct (notify_fold_fields us st) as [A B]; set (s1 := fold_left f us st) in * end.
    cbn zeta in *. split; [cbn; exact A|]. split.
    + intro u. destruct (B u) as [X1 [X2 [X3 [X4 [X5 X6]]]]]. cbn. unfold updN, th.
      destruct (Nat.eqb_spec u t); subst; cbn; repeat split; auto.
    + intros u Hu. destruct (B u) as [_ [_ [_ [_ [_ X6]]]]]. cbn. unfold updN, th. destruct (Nat.eqb_spec u t); [congruence|exact X6].
  - unfold ghost_handler in H. inversion H; subst; clear H. destruct del; tf.
  - inversion H; subst; clear H. tf.
  - inversion H; subst; clear H. tf.
Qed.

(** ** threads without a command in progress *)
Record XInv (st : wstate) : Prop := {
  x_idle : forall t, tcur (thr st t) = None -> tcont (thr st t) <> [] ->
           tscript (thr st t) = [] /\ tfinal (thr st t) = [] /\ t <> main /\ tstarted (thr st t) = true;
  x_main : tfinal (thr st main) = [] /\ tpipe (thr st main) < 0;
  x_fresh : forall t, tstarted (thr st t) = false -> tcont (thr st t) = [] /\ tcur (thr st t) = None }.

Definition tfields (st st' : wstate) (u : tid) : Prop :=
  tcur (thr st' u) = tcur (thr st u) /\ tscript (thr st' u) = tscript (thr st u) /\
  tfinal (thr st' u) = tfinal (thr st u) /\ tstarted (thr st' u) = tstarted (thr st u) /\
  tpipe (thr st' u) = tpipe (thr st u).

(** only the continuation of [t] changes, and [t] is inside a command or keeps a non-empty continuation non-empty *)
Lemma x_cont : forall st st' t,
  XInv st -> (forall u, tfields st st' u) -> (forall u, u <> t -> tcont (thr st' u) = tcont (thr st u)) ->
  (tcur (thr st t) = None -> tcont (thr st' t) <> [] -> tcont (thr st t) <> []) ->
  (tstarted (thr st t) = false -> tcont (thr st' t) = []) ->
  XInv st'.
Proof.
  intros st st' t X Hf Ho Hc Hs. constructor.
  - intros u. destruct (Hf u) as [A [B [C [D E]]]]. rewrite A, B, C, D. destruct (Nat.eq_dec u t) as [->|Hu].
    + intros H1 H2. apply (x_idle st X t H1). auto.
    + rewrite (Ho u Hu). apply (x_idle st X u).
  - destruct (Hf main) as [_ [_ [C [_ E]]]]. rewrite C, E. apply (x_main st X).
  - intros u. destruct (Hf u) as [A [_ [_ [D _]]]]. rewrite A, D. intro H. destruct (x_fresh st X u H) as [P Q]. split; [|exact Q].
    destruct (Nat.eq_dec u t) as [->|Hu]; [apply Hs; exact H|rewrite (Ho u Hu); exact P].
Qed.

Lemma x_tframe : forall st st' t i r,
  XInv st -> tframe st st' t -> tcont (thr st t) = i :: r -> tstarted (thr st t) = true -> XInv st'.
Proof.
  intros st st' t i r X [_ [Hf Ho]] Hc Hs. apply (x_cont st st' t X); auto.
  - intros _ _. rewrite Hc. discriminate.
  - congruence.
Qed.

Lemma x_spawn : forall st t p f, XInv st -> pristine st -> XInv (spawn_thread st t p f).
Proof.
  intros st t p f X [P0 P]. set (st' := spawn_thread st t p f).
  assert (T : forall u, u <> nthr st -> thr st' u = thr st u).
  { intros u Hu. unfold st'. cbn. unfold updN. destruct (Nat.eqb_spec u (nthr st)); [congruence|reflexivity]. }
  assert (Tn : thr st' (nthr st) = mkThread false [] (scripts st (nthr st)) f None RUnit [] false p (tclk (th st t))).
  { unfold st'. cbn. unfold updN. rewrite Nat.eqb_refl. reflexivity. }
  assert (Hm : main <> nthr st) by (unfold main; lia).
  constructor.
  - intros u. destruct (Nat.eq_dec u (nthr st)) as [->|Hu]; [rewrite Tn; cbn; congruence|rewrite (T u Hu); apply (x_idle st X u)].
  - rewrite (T main Hm). apply (x_main st X).
  - intros u. destruct (Nat.eq_dec u (nthr st)) as [->|Hu]; [rewrite Tn; cbn; auto|rewrite (T u Hu); apply (x_fresh st X u)].
Qed.

Lemma x_same : forall st st', (forall u, tfields st st' u /\ tcont (thr st' u) = tcont (thr st u)) -> XInv st -> XInv st'.
Proof.
  intros st st' H X. constructor.
  - intros u. destruct (H u) as [[A [B [C [D E]]]] F]. rewrite A, B, C, D, F. apply (x_idle st X u).
  - destruct (H main) as [[_ [_ [C [_ E]]]] _]. rewrite C, E. apply (x_main st X).
  - intros u. destruct (H u) as [[A [_ [_ [D _]]]] F]. rewrite A, D, F. apply (x_fresh st X u).
Qed.

Ltac xs := let u := fresh "u" in intro u; split; [repeat split; thr_simpl|thr_simpl].
Ltac xc st t := apply (x_cont st _ t); [assumption|intro; repeat split; thr_simpl|thr_simpl|congruence|congruence].

Lemma begin_cmd_X : forall st t c st' ev done,
  XInv st -> pristine st -> (t < nthr st)%nat -> tcur (thr st t) <> None -> tstarted (thr st t) = true ->
  begin_cmd st t c = (st', ev, done) -> XInv st'.
Proof.
  intros st t c st' ev done X P Ht Hcur Hs H.
  assert (Add : forall h st1 wi, wh_add st h = Some (st1, wi) -> XInv st1 /\ pristine st1 /\ thr st1 = thr st).
  { intros h st1 wi E.
    destruct (wh_add_core _ _ _ _ E) as [c1 [A [B [C1 [C2 [C3 [C4 [C5 [C6 [C7 C8]]]]]]]]]].
    split; [|split; [|exact C1]].
    - apply (x_same st); auto. intro u. unfold tfields. rewrite C1. repeat split; reflexivity.
    - destruct P as [P0 P]. split; [lia|]. intros u Hu. rewrite C1. apply P. lia. }
  destruct c; cbn [begin_cmd] in H; destr_all H; inversion H; subst; clear H; auto;
    try (xc st t; fail).
  - match goal with E : wh_add _ _ = Some _ |- _ => destruct (Add _ _ _ E) as [X1 _] end. eapply x_same; [|exact X1]. xs.
  - match goal with E : fill_loop _ _ _ = _ |- _ => destruct (fill_loop_pps _ _ _ _ _ E) as [_ B] end.
    apply (x_same st); auto. intro u. unfold tfields. rewrite B. repeat split; reflexivity.
  - apply x_spawn; auto.
  - match goal with E : wh_add _ _ = Some _ |- _ => destruct (Add _ _ _ E) as [X1 [P1 T1]] end.
    eapply (x_cont _ _ t); [exact X1|intro; repeat split; thr_simpl|thr_simpl| |]; rewrite T1; congruence.
  - match goal with E : wh_add _ _ = Some _ |- _ => destruct (Add _ _ _ E) as [X1 [P1 T1]] end.
    apply x_spawn; auto. eapply x_same; [|exact X1]. xs.
  - (* CPanic *)
    match goal with E : (_ <? 0) = false |- _ => apply Z.ltb_ge in E; rename E into Heqb end.
    constructor.
    + intros u. cbn -[Nat.eqb]. unfold updN, th. destruct (Nat.eqb_spec u t); subst; cbn; [congruence|apply (x_idle st X u)].
    + cbn -[Nat.eqb]. unfold updN, th. destruct (Nat.eqb_spec main t) as [E|E]; [|apply (x_main st X)].
      subst t. destruct (x_main st X) as [_ Q]. unfold th in Heqb. lia.
    + intros u. cbn -[Nat.eqb]. unfold updN, th. destruct (Nat.eqb_spec u t); subst; cbn; [congruence|apply (x_fresh st X u)].
Qed.

Lemma settle_X : forall st t ev done st' ev',
  XInv st -> tstarted (thr st t) = true -> (done <> None -> tcont (thr st t) = []) ->
  settle st t ev done = (st', ev') -> XInv st'.
Proof.
  intros st t ev done st' ev' X Hs Hd H. unfold settle in H.
  destruct (norm (2 * (cont_size (tcont (th st t)) + length (tacc (th st t))) + 2) (sl st) (tacc (th st t)) (tcont (th st t)) ev)
    as [[[s1 acc1] k1] ev1] eqn:En.
  cbn zeta in H.
  pose proof (norm_nrel _ _ _ _ _ _ _ _ _ En) as N.
  set (st1 := set_sl (upd_th st t (set_tacc (set_tcont (th st t) k1) acc1)) s1) in *.
  assert (X1 : XInv st1).
  { apply (x_cont st st1 t X).
    - intro u. unfold st1. repeat split; thr_simpl.
    - unfold st1. thr_simpl.
    - intros _ Hne E. unfold st1 in Hne. cbn -[Nat.eqb] in Hne. unfold updN, th in Hne. rewrite Nat.eqb_refl in Hne. cbn in Hne.
      unfold th in N. rewrite E in N. apply nrel_nil in N. congruence.
    - congruence. }
  assert (T1 : tcont (thr st1 t) = k1) by (unfold st1; thr_simpl).
  assert (S1 : tstarted (thr st1 t) = true) by (unfold st1; cbn -[Nat.eqb]; unfold updN, th; rewrite Nat.eqb_refl; cbn; exact Hs).
  assert (Hd1 : done <> None -> k1 = []).
  { intro D. unfold th in N. rewrite (Hd D) in N. apply nrel_nil. exact N. }
  clearbody st1.
  match type of H with (let '(st2, ev2) := ?E in _) = _ => destruct E as [st2 ev2] eqn:E2 end.
  assert (Done : forall s, (forall u, u <> t -> thr s u = thr st1 u) -> thr s t = set_tcur (thr st1 t) None -> k1 = [] -> XInv s).
  { intros s A F G. constructor.
    - intros u. destruct (Nat.eq_dec u t) as [->|Hu]; [rewrite F; cbn; rewrite T1, G; congruence|rewrite (A u Hu); apply (x_idle st1 X1 u)].
    - destruct (Nat.eq_dec main t) as [<-|Hu]; [rewrite F; cbn|rewrite (A main Hu)]; apply (x_main st1 X1).
    - intros u. destruct (Nat.eq_dec u t) as [->|Hu]; [rewrite F; cbn; congruence|rewrite (A u Hu); apply (x_fresh st1 X1 u)]. }
  assert (X2 : XInv st2 /\ tstarted (thr st2 t) = true).
  { destruct done as [v|].
    - inversion E2; subst. split; [|thr_simpl]. apply Done; [thr_simpl|cbn; unfold updN, th; rewrite Nat.eqb_refl; reflexivity|apply Hd1; discriminate].
    - destruct k1.
      + destruct (tcur (th st1 t)) as [c|]; inversion E2; subst; [|auto].
        split; [|destruct c; thr_simpl]. apply Done; try reflexivity; destruct c; try thr_simpl; cbn; unfold updN, th; rewrite Nat.eqb_refl; reflexivity.
      + inversion E2; subst. auto. }
  destruct X2 as [X2 S2].
  destruct (tcont (th st2 t)) eqn:Ec; [|inversion H; subst; exact X2].
  destruct (tscript (th st2 t)) eqn:Es; [|inversion H; subst; exact X2].
  destruct (tcur (th st2 t)) eqn:Eu; [inversion H; subst; exact X2|].
  destruct (tfinal (th st2 t)) eqn:Ef; inversion H; subst; [exact X2|].
  unfold th in *.
  assert (Hm : t <> main).
  { intro E. subst t. destruct (x_main st2 X2) as [A _]. congruence. }
  constructor.
  - intros u. cbn -[Nat.eqb]. unfold updN, th. destruct (Nat.eqb_spec u t); subst; cbn; [auto|apply (x_idle st2 X2 u)].
  - cbn -[Nat.eqb]. unfold updN, th. destruct (Nat.eqb_spec main t); [congruence|apply (x_main st2 X2)].
  - intros u. cbn -[Nat.eqb]. unfold updN, th. destruct (Nat.eqb_spec u t); subst; cbn; [congruence|apply (x_fresh st2 X2 u)].
Qed.

Theorem wstep_X : forall st t st' ev, MInv st -> XInv st -> wstep st t = (st', ev) -> XInv st'.
Proof.
  intros st t st' ev [I [P Wf]] X H. unfold wstep in H.
  destruct (enabled st t) eqn:En; cbn [negb] in H; [|inversion H; subst; exact X].
  assert (Ht : (t < nthr st)%nat).
  { unfold enabled in En. apply andb_true_iff in En. destruct En as [En _]. apply Nat.ltb_lt in En. exact En. }
  assert (Pt : pristine (tick st t)) by (unfold tick; prist st t).
  assert (Xt : XInv (tick st t)) by (apply (x_same st); auto; unfold tick; xs).
  assert (Htt : (t < nthr (tick st t))%nat) by exact Ht.
  set (s0 := tick st t) in *. clearbody s0. clear En.
  destruct (tstarted (th s0 t)) eqn:Es0; cbn [negb] in H.
  - destruct (tcont (th s0 t)) as [|i r] eqn:Ec.
    + destruct (tscript (th s0 t)) as [|c0 cs] eqn:Es; [inversion H; subst; exact X|].
      match type of H with context [begin_cmd ?S0 t ?cc] =>
        destruct (begin_cmd S0 t cc) as [[st2 ev0] done] eqn:Eb; set (s1 := S0) in * end.
      assert (P1 : pristine s1) by (unfold s1; prist s0 t).
      assert (Hc1 : tcont (thr s1 t) = []) by (unfold s1; thr_simpl; exact Ec).
      assert (Ht1 : (t < nthr s1)%nat) by exact Htt.
      assert (Hcur : tcur (thr s1 t) <> None) by (unfold s1; thr_simpl).
      assert (Hs1 : tstarted (thr s1 t) = true) by (unfold s1; thr_simpl; exact Es0).
      assert (X1 : XInv s1).
      { constructor.
        - intros u. unfold s1. cbn -[Nat.eqb]. unfold updN, th. destruct (Nat.eqb_spec u t); subst; cbn; [congruence|apply (x_idle s0 Xt u)].
        - unfold s1. cbn -[Nat.eqb]. unfold updN, th. destruct (Nat.eqb_spec main t); subst; cbn; apply (x_main s0 Xt).
        - intros u. unfold s1. cbn -[Nat.eqb]. unfold updN, th. destruct (Nat.eqb_spec u t); subst; cbn; [unfold th in Es0; congruence|apply (x_fresh s0 Xt u)]. }
      pose proof (begin_cmd_X s1 t c0 st2 ev0 done X1 P1 Ht1 Hcur Hs1 Eb) as X2.
      assert (Hs2 : tstarted (thr st2 t) = true).
      { destruct (tstarted (thr st2 t)) eqn:E; auto. destruct (x_fresh st2 X2 t E) as [_ Q].
        exfalso. clearbody s1. clear - Eb Hcur Q Ht1.
        assert (G : tcur (thr st2 t) = tcur (thr s1 t)).
        { assert (Sp : forall s p f, thr s = thr s1 -> nthr s = nthr s1 -> tcur (thr (spawn_thread s t p f) t) = tcur (thr s1 t)).
          { intros s p f E1 E2. cbn. unfold updN, th. destruct (Nat.eqb_spec t (nthr s)); [lia|]. rewrite E1. reflexivity. }
          destruct c0; cbn [begin_cmd] in Eb; destr_all Eb; inversion Eb; subst; clear Eb; try reflexivity;
            repeat match goal with
                   | E : wh_add _ _ = Some _ |- _ => destruct (wh_add_core _ _ _ _ E) as [? [? [? [C1 [C2 _]]]]]; clear E
                   | E : fill_loop _ _ _ = _ |- _ => destruct (fill_loop_pps _ _ _ _ _ E) as [_ C1]; clear E
                   end;
            try (cbn; rewrite C1; reflexivity); try (apply Sp; auto; fail); try thr_simpl;
            try (cbn -[Nat.eqb]; unfold updN, th; rewrite Nat.eqb_refl; cbn; rewrite C1; reflexivity). }
        congruence. }
      eapply settle_X; [exact X2|exact Hs2| |exact H].
      intro D. destruct done as [v|]; [|congruence]. rewrite (begin_cmd_done s1 t c0 st2 ev0 v Ht1 Eb). exact Hc1.
    + destruct (exec_instr s0 t i r) as [st1 ev1] eqn:Ee.
      pose proof (exec_instr_tf _ _ _ _ _ _ Ee) as F.
      assert (X1 : XInv st1) by (eapply (x_tframe s0 st1 t i r); eauto).
      eapply settle_X; [exact X1| |intro D; exfalso; apply D; reflexivity|exact H].
      destruct F as [_ [F _]]. destruct (F t) as [_ [_ [_ [D _]]]]. rewrite D. exact Es0.
  - eapply settle_X; [| |intro D; exfalso; apply D; reflexivity|exact H].
    + destruct (x_fresh s0 Xt t Es0) as [Q1 Q2].
      constructor.
      * intros u. cbn -[Nat.eqb]. unfold updN, th. destruct (Nat.eqb_spec u t); subst; cbn; [congruence|apply (x_idle s0 Xt u)].
      * cbn -[Nat.eqb]. unfold updN, th. destruct (Nat.eqb_spec main t); subst; cbn; apply (x_main s0 Xt).
      * intros u. cbn -[Nat.eqb]. unfold updN, th. destruct (Nat.eqb_spec u t); subst; cbn; [congruence|apply (x_fresh s0 Xt u)].
    + thr_simpl.
Qed.

Lemma X_init : forall scr, XInv (winit scr).
Proof.
  intro scr. constructor; cbn.
  - intros t _ Hc. congruence.
  - split; [reflexivity|lia].
  - intros; split; reflexivity.
Qed.

Lemma wrun_X : forall sched st, MInv st -> XInv st -> XInv (fst (wrun st sched)).
Proof.
  induction sched as [|t rest IH]; intros st M X; cbn [wrun]; auto.
  destruct (wstep st t) as [st1 ev] eqn:E.
  specialize (IH st1 (wstep_inv _ _ _ _ M E) (wstep_X _ _ _ _ M X E)).
  destruct (wrun st1 rest) as [st2 tr]. exact IH.
Qed.

Theorem reachable_X : forall st, reachable st -> XInv st.
Proof. intros st [scr [sched ->]]. apply wrun_X; [apply MInv_init|apply X_init]. Qed.

(** ** the bookkeeping of the monitors *)
Definition plain (e : wevent) : Prop :=
  match e with ECmd _ | ERet _ | ECallback | EExit | EStart => False | _ => True end.
Definition only_locks (k : list instr) : Prop := forall i, In i k -> exists m a, i = ILock m a.
Definition evs (t : tid) (ev : list wevent) : otrace := map (fun e => (t, e)) ev.

Record BRel (st : wstate) (b : mbase) : Prop := {
  br_cur : forall t, (t < nthr st)%nat -> get_tid t (b_cur b) = tcur (thr st t);
  br_dom : forall t, (nthr st <= t)%nat -> get_tid t (b_cur b) = None;
  br_nd : NoDup (map fst (b_cur b));
  br_notif : b_notif b = gnotified st;
  br_exit : forall t, tcur (thr st t) = None -> tcont (thr st t) <> [] ->
            memT t (b_exit b) = true \/ only_locks (tcont (thr st t)) }.

Lemma get_tid_none : forall A t (l : list (tid * A)), get_tid t l = None <-> ~ In t (map fst l).
Proof.
  induction l as [|[u x] l IH]; cbn; [tauto|]. destruct (Nat.eqb_spec u t) as [->|N].
  - split; [discriminate|]. intro H. exfalso. apply H. auto.
  - rewrite IH. split; [intros H [E|E]; auto|intros H E; apply H; auto].
Qed.
Lemma get_tid_rm_other : forall A t u (l : list (tid * A)), u <> t -> get_tid u (rm_tid t l) = get_tid u l.
Proof.
  induction l as [|[v x] l IH]; intros Hu; cbn; [reflexivity|]. destruct (Nat.eqb_spec v t) as [->|N].
  - destruct (Nat.eqb_spec t u); [congruence|reflexivity].
  - cbn. rewrite IH by auto. reflexivity.
Qed.
Lemma get_tid_rm_same : forall A t (l : list (tid * A)), NoDup (map fst l) -> get_tid t (rm_tid t l) = None.
Proof.
  induction l as [|[v x] l IH]; intros Hn; cbn; [reflexivity|]. inversion Hn; subst.
  destruct (Nat.eqb_spec v t) as [->|N]; [apply get_tid_none; auto|].
  cbn. destruct (Nat.eqb_spec v t); [congruence|]. apply IH; auto.
Qed.
Lemma rm_tid_incl : forall A t (l : list (tid * A)) x, In x (map fst (rm_tid t l)) -> In x (map fst l).
Proof.
  induction l as [|[v y] l IH]; intros x H; cbn in *; [exact H|]. destruct (Nat.eqb_spec v t); [right; exact H|].
  cbn in H. destruct H; auto.
Qed.
Lemma rm_tid_nd : forall A t (l : list (tid * A)), NoDup (map fst l) -> NoDup (map fst (rm_tid t l)).
Proof.
  induction l as [|[v y] l IH]; intros Hn; cbn; [constructor|]. inversion Hn; subst.
  destruct (Nat.eqb_spec v t); [assumption|]. cbn. constructor; [|apply IH; auto]. intro H. apply H1. eapply rm_tid_incl; eauto.
Qed.
Lemma memT_rmT : forall t u l, memT u (rmT t l) = negb (Nat.eqb u t) && memT u l.
Proof.
  intros t u l. unfold memT, rmT. induction l as [|v l IH]; cbn; [rewrite andb_false_r; reflexivity|].
  destruct (Nat.eqb_spec v t) as [->|N]; cbn; rewrite IH.
  - destruct (Nat.eqb_spec u t) as [->|M]; cbn; [reflexivity|]. destruct (Nat.eqb_spec t u); [congruence|reflexivity].
  - destruct (Nat.eqb_spec u t) as [->|M]; cbn; [|reflexivity]. destruct (Nat.eqb_spec v t); [congruence|reflexivity].
Qed.

Lemma mb_plain_eq : forall b t e, plain e ->
  mb_step b (t, e) =
  if is_ghost e then b
  else match get_tid t (b_cur b) with
       | Some _ => b
       | None => if memT t (b_exit b) then b else mkMB (b_cur b) (t :: b_exit b) (b_notif b) (b_nthr b)
       end.
Proof. intros b t e H. destruct e; cbn in *; try contradiction; try reflexivity; try (destruct h; reflexivity). Qed.

Lemma mb_fold_plain : forall t ev b,
  (forall e, In e ev -> plain e) ->
  let b' := fold_left mb_step (evs t ev) b in
  b_cur b' = b_cur b /\ b_notif b' = b_notif b /\ b_nthr b' = b_nthr b /\
  (forall u, memT u (b_exit b) = true -> memT u (b_exit b') = true) /\
  (forall u, u <> t -> memT u (b_exit b') = memT u (b_exit b)) /\
  (get_tid t (b_cur b) = None -> (exists e, In e ev /\ is_ghost e = false) -> memT t (b_exit b') = true) /\
  (forall c, get_tid t (b_cur b) = Some c -> b_exit b' = b_exit b).
Proof.
  induction ev as [|e ev IH]; intros b Hp; cbn zeta.
  - cbn. repeat split; auto. intros _ [e [[] _]].
  - cbn [evs map fold_left]. fold (evs t ev).
    assert (Hp' : forall e0, In e0 ev -> plain e0) by (intros; apply Hp; right; auto).
    specialize (IH (mb_step b (t, e)) Hp'). cbn zeta in IH.
    destruct IH as [A1 [A2 [A3 [A4 [A5 [A6 A7]]]]]].
    rewrite (mb_plain_eq b t e (Hp e (or_introl eq_refl))) in *.
    destruct (is_ghost e) eqn:Eg.
    + split; [exact A1|]. split; [exact A2|]. split; [exact A3|]. split; [exact A4|]. split; [exact A5|]. split; [|exact A7].
      intros Hn [e0 [[<-|Hin] Hg]]; [congruence|]. apply A6; eauto.
    + destruct (get_tid t (b_cur b)) eqn:Egt.
      * split; [exact A1|]. split; [exact A2|]. split; [exact A3|]. split; [exact A4|]. split; [exact A5|]. split; [intros; discriminate|].
        intros c0 _. apply (A7 c). exact Egt.
      * destruct (memT t (b_exit b)) eqn:Em.
        -- split; [exact A1|]. split; [exact A2|]. split; [exact A3|]. split; [exact A4|]. split; [exact A5|]. split; [|intros; discriminate].
           intros _ _. apply A4. exact Em.
        -- cbn [b_cur b_exit b_notif b_nthr] in *.
           split; [exact A1|]. split; [exact A2|]. split; [exact A3|]. split; [|split; [|split]].
           ++ intros u Hu. apply A4. cbn. unfold memT in Hu. rewrite Hu. apply orb_true_r.
           ++ intros u Hu. rewrite A5 by auto. cbn. destruct (Nat.eqb_spec t u); [congruence|reflexivity].
           ++ intros _ _. apply A4. cbn. rewrite Nat.eqb_refl. reflexivity.
           ++ intros; discriminate.
Qed.

(** a component of thread [t] that emits only plain events and leaves commands and the notification alone *)
Lemma br_plain : forall st st' b t ev,
  BRel st b -> nthr st' = nthr st ->
  (forall u, tcur (thr st' u) = tcur (thr st u)) ->
  (forall u, u <> t -> tcont (thr st' u) = tcont (thr st u)) ->
  gnotified st' = gnotified st ->
  (forall e, In e ev -> plain e) ->
  (tcur (thr st t) = None -> tcont (thr st' t) <> [] ->
   (tcont (thr st t) <> [] /\ (only_locks (tcont (thr st t)) -> exists e, In e ev /\ is_ghost e = false)) \/
   only_locks (tcont (thr st' t)) \/ tcont (thr st' t) = tcont (thr st t)) ->
  (t < nthr st)%nat ->
  BRel st' (fold_left mb_step (evs t ev) b).
Proof.
  intros st st' b t ev B Hn Hcur Ho Hg Hp Hex Ht.
  destruct (mb_fold_plain t ev b Hp) as [A1 [A2 [A3 [A4 [A5 [A6 A7]]]]]]. cbn zeta in *.
  constructor.
  - intros u Hu. rewrite A1, Hcur. apply (br_cur st b B). lia.
  - intros u Hu. rewrite A1. apply (br_dom st b B). lia.
  - rewrite A1. apply (br_nd st b B).
  - rewrite A2, Hg. apply (br_notif st b B).
  - intros u Hc Hne. rewrite Hcur in Hc. destruct (Nat.eq_dec u t) as [->|Hu].
    + destruct (Hex Hc Hne) as [[Hne0 Hl]|[Hl|Hl]]; [|right; exact Hl|].
      * destruct (br_exit st b B t Hc Hne0) as [M|L]; [left; apply A4; exact M|].
        left. apply A6; [rewrite (br_cur st b B t Ht); exact Hc|apply Hl; exact L].
      * rewrite Hl in *. destruct (br_exit st b B t Hc Hne) as [M|L]; [left; apply A4; exact M|right; exact L].
    + rewrite (Ho u Hu) in *. destruct (br_exit st b B u Hc Hne) as [M|L]; [left; apply A4; exact M|right; exact L].
Qed.

Lemma mbq_quiescent : forall st b, BRel st b -> XInv st -> pristine st -> mb_quiescent b = true -> quiescent st.
Proof.
  intros st b B X [P0 P] Hq. unfold mb_quiescent in Hq.
  destruct (b_cur b) eqn:Ec; [|discriminate]. destruct (b_exit b) eqn:Ee; [|discriminate].
  apply negb_true_iff in Hq.
  assert (Cur : forall t, (t < nthr st)%nat -> tcur (thr st t) = None).
  { intros t Hlt. rewrite <- (br_cur st b B t Hlt), Ec. reflexivity. }
  assert (Lt : forall t, tcont (thr st t) <> [] -> (t < nthr st)%nat).
  { intros t Hne. destruct (le_lt_dec (nthr st) t) as [Hge|Hlt]; [|exact Hlt]. destruct (P t Hge) as [E _]. congruence. }
  split; [|split].
  - intros t k [r Hc]. assert (Hne : tcont (thr st t) <> []) by (rewrite Hc; discriminate).
    destruct (br_exit st b B t (Cur t (Lt t Hne)) Hne) as [M|L]; [rewrite Ee in M; discriminate|].
    destruct (L (IClimb k)) as [m [a E]]; [rewrite Hc; left; reflexivity|discriminate].
  - unfold mcont. destruct (tcont (thr st main)) eqn:E; auto. exfalso.
    assert (Hne : tcont (thr st main) <> []) by (rewrite E; discriminate).
    destruct (x_idle st X main (Cur main (Lt main Hne)) Hne) as [_ [_ [N _]]]. congruence.
  - rewrite <- (br_notif st b B). exact Hq.
Qed.

(** ** events and notification flag of one yielding instruction *)
Ltac pl := let e := fresh "e" in let He := fresh "He" in intros e He; cbn in He; repeat (destruct He as [<-|He]); try contradiction; exact Logic.I.

Lemma exec_lact_evs : forall st t a r st' ev, exec_lact st t a r = (st', ev) ->
  (forall e, In e ev -> plain e) /\ gnotified st' = gnotified st.
Proof.
  intros st t a r st' ev H.
  destruct a; cbn [exec_lact] in H; unfold ghost_handler in H; destr_all H; inversion H; subst; clear H; (split; [pl|reflexivity]).
Qed.
Lemma in_map_plain : forall A (f : A -> wevent) l, (forall x, plain (f x)) -> forall e, In e (map f l) -> plain e.
Proof. intros A f l Hf e He. apply in_map_iff in He. destruct He as [x [<- _]]. apply Hf. Qed.
Lemma exec_uact_evs : forall st t a r st' ev, exec_uact st t a r = (st', ev) ->
  (forall e, In e ev -> plain e) /\ gnotified st' = gnotified st.
Proof.
  intros st t a r st' ev H.
  destruct a; cbn [exec_uact] in H; inversion H; subst; clear H; (split; [|reflexivity]); try pl.
  - apply in_map_plain. intro; exact Logic.I.
  - intros e He. apply in_app_or in He. destruct He as [He|He]; [revert e He; apply in_map_plain; intro; exact Logic.I|].
    destruct term; [destruct He as [<-|[]]; exact Logic.I|destruct He].
Qed.

Lemma notify_fold_notif : forall us st,
  gnotified (fold_left (fun s u => upd_th s u (set_twaiting (th s u) false)) us st) = gnotified st.
Proof. induction us as [|v us IH]; intro st; [reflexivity|]. cbn [fold_left]. rewrite IH. reflexivity. Qed.
Lemma ghost_collect_notif : forall bits st, gnotified (ghost_collect st bits) = gnotified st.
Proof.
  unfold ghost_collect. induction bits as [|b bits IH]; intro st; [reflexivity|]. cbn [fold_left].
  destruct (slab_get (sl st) b); rewrite IH; reflexivity.
Qed.

Lemma exec_instr_evs : forall st t i r st' ev, exec_instr st t i r = (st', ev) ->
  (i = IClimb KCb /\ ev = [ECallback] /\ gnotified st' = true) \/
  ((forall e, In e ev -> plain e) /\ gnotified st' = gnotified st /\
   (forall m a, i = ILock m a -> exists e, In e ev /\ is_ghost e = false)).
Proof.
  intros st t i r st' ev H. destruct i; cbn [exec_instr] in H.
  - destruct k; cbn [exec_climb] in H; inversion H; subst; clear H.
    + right. split; [pl|]. split; [|intros; discriminate].
      destruct (bitmap_join a b (bmbase st bm)) as [x|]; [destruct (slab_get (sl st) x)|]; reflexivity.
    + right. split; [pl|]. split; [reflexivity|intros; discriminate].
    + right. split; [pl|]. split; [reflexivity|intros; discriminate].
    + left. auto.
  - inversion H; subst; clear H. right. split; [pl|]. split; [reflexivity|intros; discriminate].
  - destruct bms; inversion H; subst; clear H; right; (split; [pl|]; split; [reflexivity|intros; discriminate]).
  - destruct ls; [inversion H; subst; right; split; [pl|]; split; [reflexivity|intros; discriminate]|].
    destruct (collect (bmbase st bm) z (leaf st bm z)) as [bits ok].
    match type of H with context [ghost_collect ?S0 bits] =>
      pose proof (ghost_collect_notif bits S0) as A; remember (ghost_collect S0 bits) as s3 eqn:Es3 end.
    inversion H; subst st' ev; clear H. right. split; [|split; [cbn; rewrite A; reflexivity|intros; discriminate]].
    destruct ok; pl.
  - inversion H; subst. right. split; [pl|]. split; [reflexivity|intros; discriminate].
  - inversion H; subst. right. split; [pl|]. split; [reflexivity|intros; discriminate].
  - inversion H; subst. right. split; [pl|]. split; [reflexivity|intros; discriminate].
  - match type of H with context [exec_lact ?S0 t ?aa ?rr] => destruct (exec_lact S0 t aa rr) as [s2 e2] eqn:E end.
    inversion H; subst; clear H. apply exec_lact_evs in E. destruct E as [E1 E2]. right. split; [|split].
    + intros e [<-|He]; [exact Logic.I|apply E1; exact He].
    + rewrite E2. reflexivity.
    + intros m0 a0 _. exists (ELock m). split; [left; reflexivity|reflexivity].
  - destruct (exec_uact st t a r) as [s1 e1] eqn:E. inversion H; subst; clear H.
    apply exec_uact_evs in E. destruct E as [E1 E2]. right. split; [|split; [cbn; exact E2|intros; discriminate]].
    intros e [<-|He]; [exact Logic.I|apply E1; exact He].
  - inversion H; subst; clear H. right. split; [pl|]. split; [reflexivity|intros; discriminate].
  - match type of H with context [exec_lact ?S0 t ?aa ?rr] => destruct (exec_lact S0 t aa rr) as [s2 e2] eqn:E end.
    inversion H; subst; clear H. apply exec_lact_evs in E. destruct E as [E1 E2]. right. split; [|split; [rewrite E2; reflexivity|intros; discriminate]].
    intros e [<-|He]; [exact Logic.I|apply E1; exact He].
  - inversion H; subst st' ev; clear H. right. split; [pl|]. split; [|intros; discriminate].
    cbn. apply notify_fold_notif.
  - unfold ghost_handler in H. inversion H; subst; clear H. right. split; [pl|]. split; [destruct del; reflexivity|intros; discriminate].
  - inversion H; subst; clear H. right. split; [pl|]. split; [reflexivity|intros; discriminate].
  - inversion H; subst; clear H. right. split; [pl|]. split; [reflexivity|intros; discriminate].
Qed.

Lemma exec_instr_B : forall st b t i r st' ev,
  BRel st b -> tcont (thr st t) = i :: r -> (t < nthr st)%nat ->
  exec_instr st t i r = (st', ev) -> BRel st' (fold_left mb_step (evs t ev) b).
Proof.
  intros st b t i r st' ev B Hc Ht H.
  destruct (exec_instr_tf _ _ _ _ _ _ H) as [Hn [Hf Ho]].
  assert (Hcur : forall u, tcur (thr st' u) = tcur (thr st u)) by (intro u; destruct (Hf u) as [A _]; exact A).
  destruct (exec_instr_evs _ _ _ _ _ _ H) as [[-> [-> Hg]]|[Hp [Hg Hl]]].
  - (* the poll-waker callback *)
    cbn. constructor; cbn [b_cur b_exit b_notif b_nthr].
    + intros u Hu. rewrite Hcur. apply (br_cur st b B). lia.
    + intros u Hu. apply (br_dom st b B). lia.
    + apply (br_nd st b B).
    + symmetry. exact Hg.
    + intros u Hc0 Hne. rewrite Hcur in Hc0. destruct (Nat.eq_dec u t) as [->|Hu].
      * left. destruct (br_exit st b B t Hc0) as [M|L]; [rewrite Hc; discriminate|exact M|].
        destruct (L (IClimb KCb)) as [m [a E]]; [rewrite Hc; left; reflexivity|discriminate].
      * rewrite (Ho u Hu) in *. apply (br_exit st b B u Hc0 Hne).
  - apply (br_plain st st' b t ev B Hn Hcur Ho Hg Hp); [|exact Ht].
    intros Hc0 Hne. left. split; [rewrite Hc; discriminate|]. intro L.
    destruct (L i) as [m [a E]]; [rewrite Hc; left; reflexivity|]. eapply Hl; eauto.
Qed.

(** ** the start of a command *)
Definition is_pollcmd (c : cmd) : bool := match c with CPoll | CPollIf => true | _ => false end.

Lemma fill_loop_ghostev : forall n st ev st' ev',
  fill_loop n st ev = (st', ev') -> (forall e, In e ev -> plain e /\ is_ghost e = true) ->
  (forall e, In e ev' -> plain e /\ is_ghost e = true) /\ gnotified st' = gnotified st.
Proof.
  induction n as [|n IH]; intros st ev st' ev' H Hp; cbn [fill_loop] in H.
  - inversion H; subst. auto.
  - destruct (wh_add st (HPlain (1000000 + nfill st))) as [[st1 wi]|] eqn:E.
    + apply IH in H.
      * destruct H as [A B]. split; [exact A|]. rewrite B. cbn.
        unfold wh_add in E. destruct (slab_insert (sl st) _) as [bit0 s0].
        destruct (add_loop 2 s0 _ bit0) as [[[bit base] s1]|]; [|discriminate].
        destruct (waker_vec_index bit); [|discriminate]. destruct (waker_slot bit); [|discriminate]. inversion E; subst. reflexivity.
      * intros e He. apply in_app_or in He. destruct He as [He|[<-|[]]]; [apply Hp; exact He|split; [exact Logic.I|reflexivity]].
    + inversion H; subst. split; [|reflexivity]. intros e He. apply in_app_or in He.
      destruct He as [He|[<-|[]]]; [apply Hp; exact He|split; [exact Logic.I|reflexivity]].
Qed.

Lemma wh_add_notif : forall st h st1 wi, wh_add st h = Some (st1, wi) -> gnotified st1 = gnotified st.
Proof.
  intros st h st1 wi E. unfold wh_add in E. destruct (slab_insert (sl st) h) as [bit0 s0].
  destruct (add_loop 2 s0 h bit0) as [[[bit base] s1]|]; [|discriminate].
  destruct (waker_vec_index bit); [|discriminate]. destruct (waker_slot bit); [|discriminate]. inversion E; subst. reflexivity.
Qed.

Lemma begin_cmd_sum : forall st t c st' ev done,
  pristine st -> (t < nthr st)%nat -> begin_cmd st t c = (st', ev, done) ->
  (forall e, In e ev -> plain e /\ is_ghost e = true) /\
  tcur (thr st' t) = tcur (thr st t) /\
  (forall u, u <> t -> (u <> nthr st \/ nthr st' = nthr st) -> thr st' u = thr st u) /\
  (nthr st' = nthr st \/
   (nthr st' = S (nthr st) /\ tcur (thr st' (nthr st)) = None /\ tcont (thr st' (nthr st)) = [])) /\
  gnotified st' = (if is_pollcmd c && is_main t then false else gnotified st).
Proof.
  intros st t c st' ev done [P0 P] Ht H.
  assert (Gh : forall l : list wevent, (forall e, In e l -> e = EErr \/ exists b h, e = EAdd b h) -> forall e, In e l -> plain e /\ is_ghost e = true).
  { intros l Hl e He. destruct (Hl e He) as [->|[b [h ->]]]; split; try exact Logic.I; reflexivity. }
  assert (Sp : forall s p f, thr s = thr st -> nthr s = nthr st -> gnotified s = gnotified st ->
    tcur (thr (spawn_thread s t p f) t) = tcur (thr st t) /\
    (forall u, u <> t -> (u <> nthr st \/ nthr (spawn_thread s t p f) = nthr st) -> thr (spawn_thread s t p f) u = thr st u) /\
    (nthr (spawn_thread s t p f) = nthr st \/
     (nthr (spawn_thread s t p f) = S (nthr st) /\ tcur (thr (spawn_thread s t p f) (nthr st)) = None /\
      tcont (thr (spawn_thread s t p f) (nthr st)) = []))).
  { intros s p f E1 E2 E3. cbn. unfold updN, th. rewrite E2, E1. split; [|split].
    - destruct (Nat.eqb_spec t (nthr st)); [lia|reflexivity].
    - intros u Hu [Hl|Hl]; [destruct (Nat.eqb_spec u (nthr st)); [congruence|reflexivity]|cbn in Hl; lia].
    - right. rewrite Nat.eqb_refl. cbn. auto. }
  destruct c; cbn [begin_cmd] in H; destr_all H; inversion H; subst; clear H; cbn [is_pollcmd andb];
    repeat match goal with
           | E : wh_add _ _ = Some _ |- _ =>
               pose proof (wh_add_notif _ _ _ _ E); destruct (wh_add_core _ _ _ _ E) as [? [? [? [C1 [C2 _]]]]]; clear E
           end;
    try (split; [apply Gh; intros e0 He0; cbn in He0; repeat (destruct He0 as [<-|He0]); try contradiction; eauto|];
         first [ split; [thr_simpl|split; [thr_simpl|split; [left; reflexivity|try reflexivity; try (destruct (is_main t); reflexivity)]]]
               | split; [cbn; rewrite ?C1; thr_simpl|split; [cbn; rewrite ?C1; thr_simpl|split; [left; cbn; congruence|cbn; congruence]]] ]; fail).
  all: try (destruct (Sp st (-1) [] eq_refl eq_refl eq_refl) as [S1 [S2 S3]];
            split; [intros e0 []|]; split; [exact S1|split; [exact S2|split; [exact S3|reflexivity]]]; fail).
  all: repeat match goal with
              | E : negb (is_main _) = true |- _ => apply negb_true_iff in E; rewrite ?E
              | E : negb (is_main _) = false |- _ => apply negb_false_iff in E; rewrite ?E
              end.
  all: try (split; [intros e0 []|]; split; [thr_simpl|split; [thr_simpl|split; [left; reflexivity|first [reflexivity|assumption]]]]; fail).
  - (* CFill *)
    match goal with E : fill_loop _ _ _ = _ |- _ =>
      destruct (fill_loop_ghostev _ _ _ _ _ E ltac:(intros e0 [])) as [G1 G2]; destruct (fill_loop_pps _ _ _ _ _ E) as [_ B];
      pose proof (fill_loop_nthr _ _ _ _ _ E) as N end.
    split; [exact G1|]. rewrite B. split; [reflexivity|]. split; [auto|]. split; [left; exact N|exact G2].
  - (* CPNew *)
    match goal with |- context [spawn_thread ?S _ ?pp ?F] => destruct (Sp S pp F) as [S1 [S2 S3]]; [exact C1|exact C2|cbn; assumption|] end.
    split; [apply Gh; intros e0 [<-|[]]; eauto|]. split; [exact S1|split; [exact S2|split; [exact S3|cbn; assumption]]].
Qed.

Lemma evs_app : forall t a b, evs t (a ++ b) = evs t a ++ evs t b.
Proof. intros. unfold evs. apply map_app. Qed.

Lemma begin_B : forall s0 b t c cs st2 ev0 done,
  BRel s0 b -> pristine s0 -> (t < nthr s0)%nat -> tcur (thr s0 t) = None -> tcont (thr s0 t) = [] ->
  let s1 := upd_th s0 t (set_tret (set_tcur (set_tscript (th s0 t) cs) (Some c)) RUnit) in
  begin_cmd s1 t c = (st2, ev0, done) ->
  BRel st2 (fold_left mb_step (evs t (ECmd c :: ev0)) b).
Proof.
  intros s0 b t c cs st2 ev0 done B P Ht Hcur Hc s1 Eb.
  assert (P1 : pristine s1) by (unfold s1; prist s0 t).
  destruct (begin_cmd_sum s1 t c st2 ev0 done P1 Ht Eb) as [Hp [Ht2 [Ho [Hn Hg]]]].
  change (evs t (ECmd c :: ev0)) with ((t, ECmd c) :: evs t ev0). cbn [fold_left].
  set (b1 := mb_step b (t, ECmd c)).
  assert (Eb1 : b1 = mkMB ((t, c) :: b_cur b) (b_exit b)
                      (if is_pollcmd c && is_main t then false else b_notif b) (b_nthr b)).
  { unfold b1. cbn. unfold is_main. destruct c; cbn; try reflexivity; destruct (Nat.eqb t 0); reflexivity. }
  destruct (mb_fold_plain t ev0 b1 (fun e He => proj1 (Hp e He))) as [A1 [A2 [A3 [A4 [A5 [A6 A7]]]]]]. cbn zeta in *.
  assert (G1 : get_tid t (b_cur b1) = Some c) by (rewrite Eb1; cbn; rewrite Nat.eqb_refl; reflexivity).
  pose proof (A7 c G1) as A8.
  assert (T1 : tcur (thr s1 t) = Some c) by (unfold s1; thr_simpl).
  assert (O1 : forall u, u <> t -> thr s1 u = thr s0 u) by (unfold s1; thr_simpl).
  assert (N1 : nthr s1 = nthr s0) by reflexivity.
  assert (Same : forall u, u <> t -> (u <> nthr s0 \/ nthr st2 = nthr s0) -> thr st2 u = thr s0 u).
  { intros u Hu Hd. rewrite (Ho u Hu); [apply O1; exact Hu|rewrite N1; exact Hd]. }
  assert (Gt : forall u, u <> t -> get_tid u (b_cur b1) = get_tid u (b_cur b)).
  { intros u Hu. rewrite Eb1. cbn. destruct (Nat.eqb_spec t u); [congruence|reflexivity]. }
  rewrite N1 in Hn.
  constructor.
  - intros u Hu. rewrite A1. destruct (Nat.eq_dec u t) as [->|Hn0]; [rewrite G1, Ht2, T1; reflexivity|].
    rewrite (Gt u Hn0). destruct (le_lt_dec (nthr s0) u) as [Hge|Hlt].
    + destruct Hn as [Hn|[Hn [Hn1 _]]]; [lia|]. assert (u = nthr s0) by lia. subst u. rewrite Hn1. apply (br_dom s0 b B). lia.
    + rewrite (Same u Hn0 ltac:(left; lia)). apply (br_cur s0 b B u Hlt).
  - intros u Hu. rewrite A1. assert (Hn0 : u <> t) by (destruct Hn as [Hn|[Hn _]]; lia).
    rewrite (Gt u Hn0). apply (br_dom s0 b B). destruct Hn as [Hn|[Hn _]]; lia.
  - rewrite A1, Eb1. cbn. constructor; [|apply (br_nd s0 b B)].
    apply get_tid_none. rewrite (br_cur s0 b B t Ht). exact Hcur.
  - rewrite A2, Eb1, Hg. cbn. rewrite (br_notif s0 b B). reflexivity.
  - intros u Hcu Hne. rewrite A8, Eb1. cbn [b_exit].
    destruct (Nat.eq_dec u t) as [->|Hn0]; [rewrite Ht2, T1 in Hcu; discriminate|].
    destruct (Nat.eq_dec u (nthr s0)) as [->|Hn1].
    + destruct Hn as [Hn|[Hn [_ Hn2]]]; [|congruence].
      rewrite (Same _ Hn0 (or_intror Hn)) in *. apply (br_exit s0 b B _ Hcu Hne).
    + rewrite (Same u Hn0 (or_introl Hn1)) in *. apply (br_exit s0 b B u Hcu Hne).
Qed.

(** ** the end of a step *)
Lemma norm_dels : forall fuel s acc k ev s1 acc1 k1 ev1,
  norm fuel s acc k ev = (s1, acc1, k1, ev1) ->
  exists dels, ev1 = ev ++ dels /\ forall e, In e dels -> exists b h, e = EDel b h.
Proof.
  induction fuel as [|f IH]; intros s acc k ev s1 acc1 k1 ev1 H; cbn [norm] in H.
  - inversion H; subst. exists []. rewrite app_nil_r. split; [reflexivity|intros e []].
  - assert (Z0 : exists dels, ev = ev ++ dels /\ forall e, In e dels -> exists b h, e = EDel b h)
      by (exists []; rewrite app_nil_r; split; [reflexivity|intros e []]).
    destruct k as [|i r]; [inversion H; subst; exact Z0|].
    destruct i as [c| |[|bm bms]|bm [|a ls]| |[|b bs]|[|b bs]| | | | | | | |];
      try (inversion H; subst; exact Z0); try (eapply IH; eauto; fail).
    + destruct (slab_get s b); [inversion H; subst; exact Z0|eapply IH; eauto].
    + destruct (wh_del s b) as [[h s']|]; [|eapply IH; eauto].
      inversion H; subst. exists [EDel b h]. split; [reflexivity|]. intros e [<-|[]]. eauto.
Qed.

Lemma br_same : forall st st' b,
  nthr st' = nthr st -> (forall u, tcur (thr st' u) = tcur (thr st u) /\ tcont (thr st' u) = tcont (thr st u)) ->
  gnotified st' = gnotified st -> BRel st b -> BRel st' b.
Proof.
  intros st st' b Hn Hf Hg B. constructor.
  - intros u Hu. destruct (Hf u) as [A _]. rewrite A. apply (br_cur st b B). lia.
  - intros u Hu. apply (br_dom st b B). lia.
  - apply (br_nd st b B).
  - rewrite Hg. apply (br_notif st b B).
  - intros u. destruct (Hf u) as [A C]. rewrite A, C. apply (br_exit st b B u).
Qed.

Lemma settle_B : forall st b t ev done st' ev',
  BRel st b -> XInv st -> CInv (core st) -> (t < nthr st)%nat ->
  (done <> None -> tcont (thr st t) = [] /\ tcur (thr st t) <> None) ->
  settle st t ev done = (st', ev') ->
  exists tail, ev' = ev ++ tail /\ BRel st' (fold_left mb_step (evs t tail) b).
Proof.
  intros st b t ev done st' ev' B X I Ht Hd H. unfold settle in H.
  destruct (norm (2 * (cont_size (tcont (th st t)) + length (tacc (th st t))) + 2) (sl st) (tacc (th st t)) (tcont (th st t)) ev)
    as [[[s1 acc1] k1] ev1] eqn:En.
  cbn zeta in H.
  destruct (norm_dels _ _ _ _ _ _ _ _ _ En) as [dels [Edels Hdels]].
  pose proof (norm_nrel _ _ _ _ _ _ _ _ _ En) as N.
  set (st1 := set_sl (upd_th st t (set_tacc (set_tcont (th st t) k1) acc1)) s1) in *.
  assert (Pd : forall e, In e dels -> plain e) by (intros e He; destruct (Hdels e He) as [x [h ->]]; exact Logic.I).
  assert (T1 : tcont (thr st1 t) = k1) by (unfold st1; thr_simpl).
  assert (B1 : BRel st1 (fold_left mb_step (evs t dels) b)).
  { assert (H1 : forall u, tcur (thr st1 u) = tcur (thr st u)).
    { intro u. unfold st1. cbn -[Nat.eqb]. unfold updN, th. destruct (Nat.eqb_spec u t) as [E|E]; [rewrite E|]; reflexivity. }
    assert (H2 : forall u, u <> t -> tcont (thr st1 u) = tcont (thr st u)).
    { intros u Hu. unfold st1. cbn -[Nat.eqb]. unfold updN, th. destruct (Nat.eqb_spec u t) as [E|E]; [congruence|reflexivity]. }
    apply (br_plain st st1 b t dels B eq_refl H1 H2 eq_refl Pd); [|exact Ht].
    intros Hc0 Hne. right; right. rewrite T1.
    destruct (tcont (thr st t)) eqn:Ek; [unfold th in N; rewrite Ek in N; apply nrel_nil; exact N|].
    assert (Hne0 : tcont (thr st t) <> []) by (rewrite Ek; discriminate).
    destruct (x_idle st X t Hc0 Hne0) as [_ [_ [Nm _]]].
    (* not the main thread: nothing to normalise *)
    rewrite norm_id in En; [|intros j Hj; apply (i_mainonly _ I t Nm); exact Hj].
    injection En as _ _ E3 _. unfold th in E3. rewrite Ek in E3. symmetry. exact E3. }
  assert (Hkd : done <> None -> k1 = []).
  { intro D. destruct (Hd D) as [E _]. unfold th in N. rewrite E in N. apply nrel_nil. exact N. }
  assert (Hcur1 : tcur (thr st1 t) = tcur (thr st t)) by (unfold st1; cbn -[Nat.eqb]; unfold updN, th; rewrite Nat.eqb_refl; reflexivity).
  assert (Hn1 : nthr st1 = nthr st) by reflexivity.
  assert (I1f : forall i, In i (tfinal (thr st1 t)) -> exists m a, i = ILock m a).
  { intros i Hi. assert (Hi' : In i (tfinal (thr st t))) by (revert Hi; unfold st1; cbn -[Nat.eqb]; unfold updN, th; rewrite Nat.eqb_refl; cbn; auto).
    apply (i_final _ I t) in Hi'. destruct i; cbn in Hi'; try contradiction. eauto. }
  set (b1 := fold_left mb_step (evs t dels) b) in *.
  clearbody st1.
  match type of H with (let '(st2, ev2) := ?E in _) = _ => destruct E as [st2 ev2] eqn:E2 end.
  (* command completion *)
  assert (Ret : forall s v, (forall u, u <> t -> thr s u = thr st1 u) -> thr s t = set_tcur (thr st1 t) None ->
                nthr s = nthr st1 -> gnotified s = gnotified st1 -> k1 = [] -> tcur (thr st1 t) <> None ->
                BRel s (mb_step b1 (t, ERet v))).
  { intros s v A F Hn Hg G Hc. destruct (tcur (thr st1 t)) as [c|] eqn:Ec; [|congruence].
    assert (Gt : get_tid t (b_cur b1) = Some c) by (rewrite (br_cur st1 b1 B1 t); [exact Ec|lia]).
    cbn [mb_step]. constructor; cbn [b_cur b_exit b_notif b_nthr].
    - intros u Hu. destruct (Nat.eq_dec u t) as [->|Hu0].
      + rewrite F. cbn. apply get_tid_rm_same. apply (br_nd st1 b1 B1).
      + rewrite get_tid_rm_other by auto. rewrite (A u Hu0). apply (br_cur st1 b1 B1). lia.
    - intros u Hu. assert (Hu0 : u <> t) by lia. rewrite get_tid_rm_other by auto. apply (br_dom st1 b1 B1). lia.
    - apply rm_tid_nd. apply (br_nd st1 b1 B1).
    - rewrite Hg. apply (br_notif st1 b1 B1).
    - intros u Hcu Hne. destruct (Nat.eq_dec u t) as [->|Hu0].
      + exfalso. apply Hne. rewrite F. cbn. rewrite T1. exact G.
      + rewrite (A u Hu0) in *. apply (br_exit st1 b1 B1 u Hcu Hne). }
  assert (B2 : exists tl2, ev2 = ev1 ++ tl2 /\ BRel st2 (fold_left mb_step (evs t tl2) b1) /\
                           tfinal (thr st2 t) = tfinal (thr st1 t) /\ nthr st2 = nthr st1).
  { destruct done as [v|].
    - inversion E2; subst st2 ev2. exists [ERet v]. split; [reflexivity|]. split; [|split; [thr_simpl|reflexivity]].
      cbn [evs map fold_left]. apply Ret; try reflexivity.
      + thr_simpl.
      + cbn. unfold updN, th. rewrite Nat.eqb_refl. reflexivity.
      + apply Hkd. discriminate.
      + rewrite Hcur1. apply Hd. discriminate.
    - destruct k1.
      + destruct (tcur (th st1 t)) as [c|] eqn:Ec.
        * inversion E2; subst st2 ev2. exists [ERet (tret (th st1 t))]. split; [reflexivity|].
          split; [|split; [destruct c; thr_simpl|destruct c; reflexivity]].
          cbn [evs map fold_left].
          apply Ret; [intros u Hu; destruct c; thr_simpl
                     |destruct c; cbn; unfold updN, th; rewrite Nat.eqb_refl; reflexivity
                     |destruct c; reflexivity|destruct c; reflexivity|reflexivity|unfold th in Ec; congruence].
        * inversion E2; subst st2 ev2. exists []. rewrite app_nil_r. split; [reflexivity|]. split; [exact B1|split; reflexivity].
      + inversion E2; subst st2 ev2. exists []. rewrite app_nil_r. split; [reflexivity|]. split; [exact B1|split; reflexivity]. }
  destruct B2 as [tl2 [E2' [B2 [F2 N2]]]].
  set (b2 := fold_left mb_step (evs t tl2) b1) in *.
  assert (Fin : exists tl3, ev' = ev2 ++ tl3 /\ BRel st' (fold_left mb_step (evs t tl3) b2)).
  { destruct (tcont (th st2 t)) eqn:Ec; [|inversion H; subst; exists []; rewrite app_nil_r; auto].
    destruct (tscript (th st2 t)) eqn:Es; [|inversion H; subst; exists []; rewrite app_nil_r; auto].
    destruct (tcur (th st2 t)) eqn:Eu; [inversion H; subst; exists []; rewrite app_nil_r; auto|].
    destruct (tfinal (th st2 t)) eqn:Ef; inversion H; subst st' ev'; clear H.
    - (* the thread has finished *)
      destruct (is_main t) eqn:Em; [exists []; rewrite app_nil_r; auto|].
      exists [EExit]. split; [reflexivity|]. cbn [evs map fold_left mb_step].
      constructor; cbn [b_cur b_exit b_notif b_nthr].
      + apply (br_cur st2 b2 B2).
      + apply (br_dom st2 b2 B2).
      + apply (br_nd st2 b2 B2).
      + apply (br_notif st2 b2 B2).
      + intros u Hcu Hne. rewrite memT_rmT. destruct (Nat.eqb_spec u t) as [->|Hu0]; [unfold th in Ec; congruence|].
        cbn. apply (br_exit st2 b2 B2 u Hcu Hne).
    - (* the exit sequence becomes the continuation *)
      exists []. rewrite app_nil_r. split; [reflexivity|]. cbn [evs map fold_left].
      constructor.
      + intros u Hu. cbn -[Nat.eqb]. unfold updN, th. destruct (Nat.eqb_spec u t); subst; cbn; apply (br_cur st2 b2 B2); exact Hu.
      + apply (br_dom st2 b2 B2).
      + apply (br_nd st2 b2 B2).
      + apply (br_notif st2 b2 B2).
      + intros u. cbn -[Nat.eqb]. unfold updN, th. destruct (Nat.eqb_spec u t) as [->|Hu0]; cbn; [|apply (br_exit st2 b2 B2 u)].
        intros _ _. right. intros j Hj. apply I1f. rewrite <- F2. unfold th in Ef. rewrite Ef. exact Hj. }
  destruct Fin as [tl3 [E3 B3]].
  exists (dels ++ tl2 ++ tl3). split.
  - rewrite E3, E2', Edels. rewrite <- !app_assoc. reflexivity.
  - rewrite !evs_app, !fold_left_app. exact B3.
Qed.

(** at step boundaries a command in progress has something left to do *)
Definition YInv (st : wstate) : Prop := forall t, tcur (thr st t) <> None -> tcont (thr st t) <> [].

Lemma settle_Y : forall st t ev done st' ev',
  settle st t ev done = (st', ev') ->
  (tcur (thr st' t) <> None -> tcont (thr st' t) <> []) /\ (forall u, u <> t -> thr st' u = thr st u).
Proof.
  intros st t ev done st' ev' H. unfold settle in H.
  destruct (norm (2 * (cont_size (tcont (th st t)) + length (tacc (th st t))) + 2) (sl st) (tacc (th st t)) (tcont (th st t)) ev)
    as [[[s1 acc1] k1] ev1] eqn:En.
  cbn zeta in H.
  set (st1 := set_sl (upd_th st t (set_tacc (set_tcont (th st t) k1) acc1)) s1) in *.
  assert (T1 : tcont (thr st1 t) = k1) by (unfold st1; cbn -[Nat.eqb]; unfold updN, th; rewrite Nat.eqb_refl; reflexivity).
  assert (O1 : forall u, u <> t -> thr st1 u = thr st u).
  { intros u Hu. unfold st1. cbn -[Nat.eqb]. unfold updN, th. destruct (Nat.eqb_spec u t); [congruence|reflexivity]. }
  clearbody st1.
  match type of H with (let '(st2, ev2) := ?E in _) = _ => destruct E as [st2 ev2] eqn:E2 end.
  assert (S2 : (tcur (thr st2 t) <> None -> tcont (thr st2 t) <> []) /\ (forall u, u <> t -> thr st2 u = thr st1 u)).
  { destruct done as [v|].
    - inversion E2; subst. split; [cbn; unfold updN, th; rewrite Nat.eqb_refl; cbn; congruence|thr_simpl].
    - destruct k1.
      + destruct (tcur (th st1 t)) as [c|] eqn:Ec; inversion E2; subst.
        * split; [destruct c; cbn; unfold updN, th; rewrite Nat.eqb_refl; cbn; congruence|destruct c; thr_simpl].
        * split; [unfold th in Ec; congruence|auto].
      + inversion E2; subst. split; [rewrite T1; discriminate|auto]. }
  destruct S2 as [S2 O2].
  assert (O : forall u, u <> t -> thr st2 u = thr st u) by (intros u Hu; rewrite O2, O1; auto).
  destruct (tcont (th st2 t)) eqn:Ec; [|inversion H; subst; auto].
  destruct (tscript (th st2 t)) eqn:Es; [|inversion H; subst; auto].
  destruct (tcur (th st2 t)) eqn:Eu; [inversion H; subst; auto|].
  destruct (tfinal (th st2 t)) eqn:Ef; inversion H; subst; [auto|].
  split.
  - cbn. unfold updN, th. rewrite Nat.eqb_refl. cbn. discriminate.
  - intros u Hu. cbn. unfold updN, th. destruct (Nat.eqb_spec u t); [congruence|]. apply O. exact Hu.
Qed.

Theorem wstep_Y : forall st t st' ev, MInv st -> YInv st -> wstep st t = (st', ev) -> YInv st'.
Proof.
  intros st t st' ev [I [P Wf]] Y H. unfold wstep in H.
  destruct (enabled st t) eqn:En; cbn [negb] in H; [|inversion H; subst; exact Y].
  assert (Ht : (t < nthr st)%nat).
  { unfold enabled in En. apply andb_true_iff in En. destruct En as [En _]. apply Nat.ltb_lt in En. exact En. }
  assert (Pt : pristine (tick st t)) by (unfold tick; prist st t).
  assert (Yt : YInv (tick st t)).
  { intro u. unfold tick. cbn -[Nat.eqb]. unfold updN, th. destruct (Nat.eqb_spec u t); subst; cbn; apply Y. }
  assert (Htt : (t < nthr (tick st t))%nat) by exact Ht.
  set (s0 := tick st t) in *. clearbody s0. clear En.
  assert (Fin : forall s ev0 done, (forall u, u <> t -> tcur (thr s u) <> None -> tcont (thr s u) <> []) ->
                                   settle s t ev0 done = (st', ev) -> YInv st').
  { intros s ev0 done Ho Hs. destruct (settle_Y _ _ _ _ _ _ Hs) as [A B]. intro u.
    destruct (Nat.eq_dec u t) as [->|Hu]; [exact A|rewrite (B u Hu); apply Ho; exact Hu]. }
  destruct (tstarted (th s0 t)) eqn:Es0; cbn [negb] in H.
  - destruct (tcont (th s0 t)) as [|i r] eqn:Ec.
    + destruct (tscript (th s0 t)) as [|c0 cs] eqn:Es; [inversion H; subst; exact Y|].
      match type of H with context [begin_cmd ?S0 t ?cc] =>
        destruct (begin_cmd S0 t cc) as [[st2 ev0] done] eqn:Eb; set (s1 := S0) in * end.
      assert (P1 : pristine s1) by (unfold s1; prist s0 t).
      destruct (begin_cmd_sum s1 t c0 st2 ev0 done P1 Htt Eb) as [_ [_ [Ho [Hn _]]]].
      apply (Fin st2 (ECmd c0 :: ev0) done); [|exact H].
      intros u Hu. change (nthr s1) with (nthr s0) in *.
      destruct (Nat.eq_dec u (nthr s0)) as [->|Hn0].
      * destruct Hn as [Hn|[_ [Hn1 _]]]; [|congruence].
        rewrite (Ho _ Hu (or_intror Hn)). unfold s1. cbn -[Nat.eqb]. unfold updN, th.
        destruct (Nat.eqb_spec (nthr s0) t); [congruence|]. apply Yt.
      * rewrite (Ho u Hu (or_introl Hn0)). unfold s1. cbn -[Nat.eqb]. unfold updN, th.
        destruct (Nat.eqb_spec u t); [congruence|]. apply Yt.
    + destruct (exec_instr s0 t i r) as [st1 ev1] eqn:Ee.
      destruct (exec_instr_tf _ _ _ _ _ _ Ee) as [_ [Hf Ho]].
      apply (Fin st1 ev1 None); [|exact H]. intros u Hu. destruct (Hf u) as [A _]. rewrite A, (Ho u Hu). apply Yt.
  - apply (Fin (upd_th s0 t (set_tstarted (th s0 t) true)) [EStart] None); [|exact H]. intros u Hu. cbn -[Nat.eqb]. unfold updN, th.
    destruct (Nat.eqb_spec u t); [congruence|]. apply Yt.
Qed.

Lemma Y_init : forall scr, YInv (winit scr).
Proof. intros scr t. cbn. congruence. Qed.

Lemma wrun_Y : forall sched st, MInv st -> YInv st -> YInv (fst (wrun st sched)).
Proof.
  induction sched as [|t rest IH]; intros st M X; cbn [wrun]; auto.
  destruct (wstep st t) as [st1 ev] eqn:E.
  specialize (IH st1 (wstep_inv _ _ _ _ M E) (wstep_Y _ _ _ _ M X E)).
  destruct (wrun st1 rest) as [st2 tr]. exact IH.
Qed.

Theorem reachable_Y : forall st, reachable st -> YInv st.
Proof. intros st [scr [sched ->]]. apply wrun_Y; [apply MInv_init|apply Y_init]. Qed.

Theorem wstep_B : forall st b t st' ev,
  MInv st -> XInv st -> YInv st -> BRel st b -> wstep st t = (st', ev) -> BRel st' (fold_left mb_step (evs t ev) b).
Proof.
  intros st b t st' ev [I [P Wf]] X Y B H. unfold wstep in H.
  destruct (enabled st t) eqn:En; cbn [negb] in H; [|inversion H; subst; cbn; exact B].
  assert (Ht : (t < nthr st)%nat).
  { unfold enabled in En. apply andb_true_iff in En. destruct En as [En _]. apply Nat.ltb_lt in En. exact En. }
  assert (It : CInv (core (tick st t))) by (eapply CInv_ceq; [|exact I]; unfold tick; same_core).
  assert (Pt : pristine (tick st t)) by (unfold tick; prist st t).
  assert (Wt : wfi (tick st t)) by (eapply wfi_eq; [| | |exact Wf]; reflexivity).
  assert (Xt : XInv (tick st t)) by (apply (x_same st); auto; unfold tick; xs).
  assert (Yt : YInv (tick st t)).
  { intro u. unfold tick. cbn -[Nat.eqb]. unfold updN, th. destruct (Nat.eqb_spec u t); subst; cbn; apply Y. }
  assert (Bt : BRel (tick st t) b) by (apply (br_same st); auto; intro u; unfold tick; split; thr_simpl).
  assert (Htt : (t < nthr (tick st t))%nat) by exact Ht.
  set (s0 := tick st t) in *. clearbody s0. clear En.
  destruct (tstarted (th s0 t)) eqn:Es0; cbn [negb] in H.
  - destruct (tcont (th s0 t)) as [|i r] eqn:Ec.
    + destruct (tscript (th s0 t)) as [|c0 cs] eqn:Es; [inversion H; subst; cbn; exact B|].
      match type of H with context [begin_cmd ?S0 t ?cc] =>
        destruct (begin_cmd S0 t cc) as [[st2 ev0] done] eqn:Eb; set (s1 := S0) in * end.
      assert (Hcur0 : tcur (thr s0 t) = None).
      { destruct (tcur (thr s0 t)) eqn:E; auto. exfalso. apply (Yt t); [congruence|exact Ec]. }
      pose proof (begin_B s0 b t c0 cs st2 ev0 done Bt Pt Htt Hcur0 Ec Eb) as B2.
      assert (I1 : CInv (core s1)) by (eapply CInv_ceq; [|exact It]; unfold s1; same_core).
      assert (P1 : pristine s1) by (unfold s1; prist s0 t).
      assert (W1 : wfi s1) by (eapply wfi_eq; [| | |exact Wt]; reflexivity).
      assert (Hc1 : tcont (thr s1 t) = []) by (unfold s1; thr_simpl; exact Ec).
      assert (Hcur1 : tcur (thr s1 t) <> None) by (unfold s1; thr_simpl).
      assert (Hs1 : tstarted (thr s1 t) = true) by (unfold s1; thr_simpl; exact Es0).
      assert (X1 : XInv s1).
      { constructor.
        - intros u. unfold s1. cbn -[Nat.eqb]. unfold updN, th. destruct (Nat.eqb_spec u t); subst; cbn; [congruence|apply (x_idle s0 Xt u)].
        - unfold s1. cbn -[Nat.eqb]. unfold updN, th. destruct (Nat.eqb_spec main t); subst; cbn; apply (x_main s0 Xt).
        - intros u. unfold s1. cbn -[Nat.eqb]. unfold updN, th. destruct (Nat.eqb_spec u t); subst; cbn; [unfold th in Es0; congruence|apply (x_fresh s0 Xt u)]. }
      destruct (begin_cmd_inv s1 t c0 st2 ev0 done I1 P1 W1 Hc1 Htt Eb) as [I2 _].
      pose proof (begin_cmd_X s1 t c0 st2 ev0 done X1 P1 Htt Hcur1 Hs1 Eb) as X2.
      destruct (begin_cmd_sum s1 t c0 st2 ev0 done P1 Htt Eb) as [_ [Ht2 [_ [Hn _]]]].
      assert (Ht2' : (t < nthr st2)%nat) by (change (nthr s1) with (nthr s0) in Hn; destruct Hn as [Hn|[Hn _]]; lia).
      destruct (settle_B st2 _ t (ECmd c0 :: ev0) done st' ev B2 X2 I2 Ht2') as [tail [Et Bf]]; [|exact H|].
      * intro D. destruct done as [v|]; [|congruence]. split; [rewrite (begin_cmd_done s1 t c0 st2 ev0 v Htt Eb); exact Hc1|congruence].
      * rewrite Et, evs_app, fold_left_app. exact Bf.
    + destruct (exec_instr s0 t i r) as [st1 ev1] eqn:Ee.
      pose proof (exec_instr_B s0 b t i r st1 ev1 Bt Ec Htt Ee) as B1.
      assert (I1 : CInv (core st1)) by (eapply exec_instr_inv; eauto).
      pose proof (exec_instr_tf _ _ _ _ _ _ Ee) as F.
      assert (X1 : XInv st1) by (eapply (x_tframe s0 st1 t i r); eauto).
      assert (Ht1 : (t < nthr st1)%nat) by (destruct F as [N _]; lia).
      destruct (settle_B st1 _ t ev1 None st' ev B1 X1 I1 Ht1) as [tail [Et Bf]]; [intro D; exfalso; apply D; reflexivity|exact H|].
      rewrite Et, evs_app, fold_left_app. exact Bf.
  - set (s1 := upd_th s0 t (set_tstarted (th s0 t) true)) in *.
    assert (B1 : BRel s1 b) by (apply (br_same s0); auto; intro u; unfold s1; split; thr_simpl).
    assert (I1 : CInv (core s1)) by (eapply CInv_ceq; [|exact It]; unfold s1; same_core).
    assert (X1 : XInv s1).
    { destruct (x_fresh s0 Xt t Es0) as [Q1 Q2]. constructor.
      - intros u. unfold s1. cbn -[Nat.eqb]. unfold updN, th. destruct (Nat.eqb_spec u t); subst; cbn; [congruence|apply (x_idle s0 Xt u)].
      - unfold s1. cbn -[Nat.eqb]. unfold updN, th. destruct (Nat.eqb_spec main t); subst; cbn; apply (x_main s0 Xt).
      - intros u. unfold s1. cbn -[Nat.eqb]. unfold updN, th. destruct (Nat.eqb_spec u t); subst; cbn; [congruence|apply (x_fresh s0 Xt u)]. }
    destruct (settle_B s1 b t [EStart] None st' ev B1 X1 I1 Htt) as [tail [Et Bf]]; [intro D; exfalso; apply D; reflexivity|exact H|].
    rewrite Et. change (evs t ([EStart] ++ tail)) with ((t, EStart) :: evs t tail). cbn [fold_left mb_step]. exact Bf.
Qed.

(** the monitors' bookkeeping after a whole run *)
Lemma flatten_cons : forall t ev tr, flatten ((t, ev) :: tr) = evs t ev ++ flatten tr.
Proof. reflexivity. Qed.

Lemma mb0_rel : forall scr, BRel (winit scr) mb0.
Proof.
  intro scr. constructor; cbn.
  - intros t Ht. reflexivity.
  - reflexivity.
  - constructor.
  - reflexivity.
  - intros t _ Hne. congruence.
Qed.

Theorem wrun_B : forall sched st b, MInv st -> XInv st -> YInv st -> BRel st b ->
  BRel (fst (wrun st sched)) (fold_left mb_step (flatten (snd (wrun st sched))) b).
Proof.
  induction sched as [|t rest IH]; intros st b M X Y B; cbn [wrun]; [exact B|].
  destruct (wstep st t) as [st1 ev] eqn:E.
  specialize (IH st1 _ (wstep_inv _ _ _ _ M E) (wstep_X _ _ _ _ M X E) (wstep_Y _ _ _ _ M Y E) (wstep_B _ _ _ _ _ M X Y B E)).
  destruct (wrun st1 rest) as [st2 tr]. cbn [fst snd] in *. rewrite flatten_cons, fold_left_app. exact IH.
Qed.

(** A run whose observable trace is quiescent for the monitors (every command has returned, no thread is inside
    its exit sequence, the last poll-waker callback has been served) ends in a quiescent model state. *)
Theorem trace_quiescent_state : forall scr sched,
  mb_quiescent (fold_left mb_step (flatten (wtrace scr sched)) mb0) = true ->
  quiescent (fst (wrun (winit scr) sched)).
Proof.
  intros scr sched Hq.
  assert (R : reachable (fst (wrun (winit scr) sched))) by (exists scr, sched; reflexivity).
  pose proof (wrun_B sched (winit scr) mb0 (MInv_init scr) (X_init scr) (Y_init scr) (mb0_rel scr)) as B.
  destruct (reachable_minv _ R) as [_ [P _]].
  exact (mbq_quiescent _ _ B (reachable_X _ R) P Hq).
Qed.
