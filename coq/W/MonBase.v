(** * Layer W: common ground of the monitor theorems.

    [XInv]: what a thread without a command in progress can be doing (only its exit sequence; never the main thread).
    [BRel st b]: the bookkeeping part [mbase] of every monitor, after the events of a run prefix, agrees with the
    model state reached by that prefix: commands in progress, unserved notification, number of threads, threads
    known to be inside their exit sequence.  Consequence: a monitor that sees a quiescent trace is looking at a
    quiescent model state ([mbq_quiescent]). *)
From Coq Require Import ZArith List Bool Arith Lia.
From Stk Require Import Lib.U Gen.SrcWaker W.Waker W.WakerArith W.WakerCore W.WakerSlab W.WakerPres W.WakerRefine
  W.WakerProofs W.WakerGhost W.WakerLock W.WakerDrop W.WakerSlot W.WakerWf W.Chan W.Pipe W.Monitors.
Import ListNotations.
Local Open Scope Z_scope.

(** ** which thread fields a component may change *)
Definition tframe (st st' : wstate) (t : tid) : Prop :=
  nthr st' = nthr st /\
  (forall u, tcur (thr st' u) = tcur (thr st u) /\ tscript (thr st' u) = tscript (thr st u) /\
             tfinal (thr st' u) = tfinal (thr st u) /\ tstarted (thr st' u) = tstarted (thr st u) /\
             tpipe (thr st' u) = tpipe (thr st u)) /\
  (forall u, u <> t -> tcont (thr st' u) = tcont (thr st u)).

Lemma tframe_trans : forall a b c t, tframe a b t -> tframe b c t -> tframe a c t.
Proof.
  intros a b c t [A1 [A2 A3]] [B1 [B2 B3]]. split; [congruence|]. split.
  - intro u. destruct (A2 u) as [X1 [X2 [X3 [X4 X5]]]]. destruct (B2 u) as [Y1 [Y2 [Y3 [Y4 Y5]]]]. repeat split; congruence.
  - intros u Hu. rewrite B3, A3; auto.
Qed.

Ltac tf := split; [reflexivity|split; [intro; repeat split; thr_simpl|thr_simpl]].

Lemma exec_lact_tf : forall st t a r st' ev, exec_lact st t a r = (st', ev) -> tframe st st' t.
Proof.
  intros st t a r st' ev H.
  destruct a; cbn [exec_lact] in H; unfold ghost_handler in H; destr_all H; inversion H; subst; clear H; tf.
Qed.
Lemma exec_uact_tf : forall st t a r st' ev, exec_uact st t a r = (st', ev) -> tframe st st' t.
Proof.
  intros st t a r st' ev H. destruct a; cbn [exec_uact] in H; inversion H; subst; clear H; tf.
Qed.

Lemma notify_fold_fields : forall us st,
  let st' := fold_left (fun s u => upd_th s u (set_twaiting (th s u) false)) us st in
  nthr st' = nthr st /\
  forall u, tcur (thr st' u) = tcur (thr st u) /\ tscript (thr st' u) = tscript (thr st u) /\
            tfinal (thr st' u) = tfinal (thr st u) /\ tstarted (thr st' u) = tstarted (thr st u) /\
            tpipe (thr st' u) = tpipe (thr st u) /\ tcont (thr st' u) = tcont (thr st u).
Proof.
  induction us as [|v us IH]; intro st; cbn zeta; [split; [reflexivity|intro; repeat split; reflexivity]|].
  cbn [fold_left]. destruct (IH (upd_th st v (set_twaiting (th st v) false))) as [A B]. cbn zeta in *.
  split; [rewrite A; reflexivity|]. intro u. destruct (B u) as [X1 [X2 [X3 [X4 [X5 X6]]]]].
  rewrite X1, X2, X3, X4, X5, X6. cbn. unfold updN, th. destruct (Nat.eqb_spec u v); subst; cbn; repeat split; reflexivity.
Qed.

Lemma exec_instr_tf : forall st t i r st' ev, exec_instr st t i r = (st', ev) -> tframe st st' t.
Proof.
  intros st t i r st' ev H. destruct i; cbn [exec_instr] in H.
  - destruct k; cbn [exec_climb] in H; inversion H; subst; clear H;
      try (destruct (bitmap_join a b (bmbase st bm)) as [x|]; [destruct (slab_get (sl st) x)|]); tf.
  - inversion H; subst; clear H. tf.
  - destruct bms; inversion H; subst; clear H; tf.
  - destruct ls; [inversion H; subst; tf|].
    destruct (collect (bmbase st bm) z (leaf st bm z)) as [bits ok].
    match type of H with context [ghost_collect ?S0 bits] =>
      destruct (ghost_collect_frame bits S0) as [A1 A2]; remember (ghost_collect S0 bits) as s3 eqn:Es3 end.
    inversion H; subst st' ev; clear H. split; [cbn; rewrite A1; reflexivity|]. split.
    + intro u. cbn -[Nat.eqb]. unfold updN, th. rewrite A2. cbn -[Nat.eqb]. unfold updN, th.
      destruct (Nat.eqb_spec u t); subst; rewrite ?Nat.eqb_refl; cbn; repeat split; reflexivity.
    + intros u Hu. cbn -[Nat.eqb]. unfold updN, th. rewrite A2. cbn -[Nat.eqb]. unfold updN, th.
      destruct (Nat.eqb_spec u t); [congruence|reflexivity].
  - inversion H; subst; tf.
  - inversion H; subst; tf.
  - inversion H; subst; tf.
  - match type of H with context [exec_lact ?S0 t ?aa ?rr] => destruct (exec_lact S0 t aa rr) as [s2 e2] eqn:E; set (s1 := S0) in * end.
    inversion H; subst; clear H. apply exec_lact_tf in E. eapply tframe_trans; [|exact E]. unfold s1. tf.
  - destruct (exec_uact st t a r) as [s1 e1] eqn:E. inversion H; subst; clear H.
    apply exec_uact_tf in E. eapply tframe_trans; [exact E|]. tf.
  - inversion H; subst; clear H. tf.
  - match type of H with context [exec_lact ?S0 t ?aa ?rr] => destruct (exec_lact S0 t aa rr) as [s2 e2] eqn:E; set (s1 := S0) in * end.
    inversion H; subst; clear H. apply exec_lact_tf in E. eapply tframe_trans; [|exact E]. unfold s1. tf.
  - inversion H; subst st' ev; clear H.
    match goal with |- tframe st (set_cont (fold_left ?f ?us st) t r) t => destruct (notify_fold_fields us st) as [A B]; set (s1 := fold_left f us st) in * end.
    cbn zeta in *. split; [cbn; exact A|]. split.
    + intro u. destruct (B u) as [X1 [X2 [X3 [X4 [X5 X6]]]]]. cbn. unfold updN, th.
      destruct (Nat.eqb_spec u t); subst; cbn; repeat split; auto.
    + intros u Hu. destruct (B u) as [_ [_ [_ [_ [_ X6]]]]]. cbn. unfold updN, th. destruct (Nat.eqb_spec u t); [congruence|exact X6].
  - unfold ghost_handler in H. inversion H; subst; clear H. destruct del; tf.
  - inversion H; subst; clear H. tf.
  - inversion H; subst; clear H. tf.
Qed.

(** ** threads without a command in progress *)
Record XInv (st : wstate) : Prop := {
  x_idle : forall t, tcur (thr st t) = None -> tcont (thr st t) <> [] ->
           tscript (thr st t) = [] /\ tfinal (thr st t) = [] /\ t <> main /\ tstarted (thr st t) = true;
  x_main : tfinal (thr st main) = [] /\ tpipe (thr st main) < 0;
  x_fresh : forall t, tstarted (thr st t) = false -> tcont (thr st t) = [] /\ tcur (thr st t) = None }.

Definition tfields (st st' : wstate) (u : tid) : Prop :=
  tcur (thr st' u) = tcur (thr st u) /\ tscript (thr st' u) = tscript (thr st u) /\
  tfinal (thr st' u) = tfinal (thr st u) /\ tstarted (thr st' u) = tstarted (thr st u) /\
  tpipe (thr st' u) = tpipe (thr st u).

(** only the continuation of [t] changes, and [t] is inside a command or keeps a non-empty continuation non-empty *)
Lemma x_cont : forall st st' t,
  XInv st -> (forall u, tfields st st' u) -> (forall u, u <> t -> tcont (thr st' u) = tcont (thr st u)) ->
  (tcur (thr st t) = None -> tcont (thr st' t) <> [] -> tcont (thr st t) <> []) ->
  (tstarted (thr st t) = false -> tcont (thr st' t) = []) ->
  XInv st'.
Proof.
  intros st st' t X Hf Ho Hc Hs. constructor.
  - intros u. destruct (Hf u) as [A [B [C [D E]]]]. rewrite A, B, C, D. destruct (Nat.eq_dec u t) as [->|Hu].
    + intros H1 H2. apply (x_idle st X t H1). auto.
    + rewrite (Ho u Hu). apply (x_idle st X u).
  - destruct (Hf main) as [_ [_ [C [_ E]]]]. rewrite C, E. apply (x_main st X).
  - intros u. destruct (Hf u) as [A [_ [_ [D _]]]]. rewrite A, D. intro H. destruct (x_fresh st X u H) as [P Q]. split; [|exact Q].
    destruct (Nat.eq_dec u t) as [->|Hu]; [apply Hs; exact H|rewrite (Ho u Hu); exact P].
Qed.

Lemma x_tframe : forall st st' t i r,
  XInv st -> tframe st st' t -> tcont (thr st t) = i :: r -> tstarted (thr st t) = true -> XInv st'.
Proof.
  intros st st' t i r X [_ [Hf Ho]] Hc Hs. apply (x_cont st st' t X); auto.
  - intros _ _. rewrite Hc. discriminate.
  - congruence.
Qed.

Lemma x_spawn : forall st t p f, XInv st -> pristine st -> XInv (spawn_thread st t p f).
Proof.
  intros st t p f X [P0 P]. set (st' := spawn_thread st t p f).
  assert (T : forall u, u <> nthr st -> thr st' u = thr st u).
  { intros u Hu. unfold st'. cbn. unfold updN. destruct (Nat.eqb_spec u (nthr st)); [congruence|reflexivity]. }
  assert (Tn : thr st' (nthr st) = mkThread false [] (scripts st (nthr st)) f None RUnit [] false p (tclk (th st t))).
  { unfold st'. cbn. unfold updN. rewrite Nat.eqb_refl. reflexivity. }
  assert (Hm : main <> nthr st) by (unfold main; lia).
  constructor.
  - intros u. destruct (Nat.eq_dec u (nthr st)) as [->|Hu]; [rewrite Tn; cbn; congruence|rewrite (T u Hu); apply (x_idle st X u)].
  - rewrite (T main Hm). apply (x_main st X).
  - intros u. destruct (Nat.eq_dec u (nthr st)) as [->|Hu]; [rewrite Tn; cbn; auto|rewrite (T u Hu); apply (x_fresh st X u)].
Qed.

Lemma x_same : forall st st', (forall u, tfields st st' u /\ tcont (thr st' u) = tcont (thr st u)) -> XInv st -> XInv st'.
Proof.
  intros st st' H X. constructor.
  - intros u. destruct (H u) as [[A [B [C [D E]]]] F]. rewrite A, B, C, D, F. apply (x_idle st X u).
  - destruct (H main) as [[_ [_ [C [_ E]]]] _]. rewrite C, E. apply (x_main st X).
  - intros u. destruct (H u) as [[A [_ [_ [D _]]]] F]. rewrite A, D, F. apply (x_fresh st X u).
Qed.

Ltac xs := let u := fresh "u" in intro u; split; [repeat split; thr_simpl|thr_simpl].
Ltac xc st t := apply (x_cont st _ t); [assumption|intro; repeat split; thr_simpl|thr_simpl|congruence|congruence].

Lemma begin_cmd_X : forall st t c st' ev done,
  XInv st -> pristine st -> (t < nthr st)%nat -> tcur (thr st t) <> None -> tstarted (thr st t) = true ->
  begin_cmd st t c = (st', ev, done) -> XInv st'.
Proof.
  intros st t c st' ev done X P Ht Hcur Hs H.
  assert (Add : forall h st1 wi, wh_add st h = Some (st1, wi) -> XInv st1 /\ pristine st1 /\ thr st1 = thr st).
  { intros h st1 wi E.
    destruct (wh_add_core _ _ _ _ E) as [c1 [A [B [C1 [C2 [C3 [C4 [C5 [C6 [C7 C8]]]]]]]]]].
    split; [|split; [|exact C1]].
    - apply (x_same st); auto. intro u. unfold tfields. rewrite C1. repeat split; reflexivity.
    - destruct P as [P0 P]. split; [lia|]. intros u Hu. rewrite C1. apply P. lia. }
  destruct c; cbn [begin_cmd] in H; destr_all H; inversion H; subst; clear H; auto;
    try (xc st t; fail).
  - match goal with E : wh_add _ _ = Some _ |- _ => destruct (Add _ _ _ E) as [X1 _] end. eapply x_same; [|exact X1]. xs.
  - match goal with E : fill_loop _ _ _ = _ |- _ => destruct (fill_loop_pps _ _ _ _ _ E) as [_ B] end.
    apply (x_same st); auto. intro u. unfold tfields. rewrite B. repeat split; reflexivity.
  - apply x_spawn; auto.
  - match goal with E : wh_add _ _ = Some _ |- _ => destruct (Add _ _ _ E) as [X1 [P1 T1]] end.
    eapply (x_cont _ _ t); [exact X1|intro; repeat split; thr_simpl|thr_simpl| |]; rewrite T1; congruence.
  - match goal with E : wh_add _ _ = Some _ |- _ => destruct (Add _ _ _ E) as [X1 [P1 T1]] end.
    apply x_spawn; auto. eapply x_same; [|exact X1]. xs.
  - (* CPanic *)
    match goal with E : (_ <? 0) = false |- _ => apply Z.ltb_ge in E; rename E into Heqb end.
    constructor.
    + intros u. cbn -[Nat.eqb]. unfold updN, th. destruct (Nat.eqb_spec u t); subst; cbn; [congruence|apply (x_idle st X u)].
    + cbn -[Nat.eqb]. unfold updN, th. destruct (Nat.eqb_spec main t) as [E|E]; [|apply (x_main st X)].
      subst t. destruct (x_main st X) as [_ Q]. unfold th in Heqb. lia.
    + intros u. cbn -[Nat.eqb]. unfold updN, th. destruct (Nat.eqb_spec u t); subst; cbn; [congruence|apply (x_fresh st X u)].
Qed.

Lemma settle_X : forall st t ev done st' ev',
  XInv st -> tstarted (thr st t) = true -> (done <> None -> tcont (thr st t) = []) ->
  settle st t ev done = (st', ev') -> XInv st'.
Proof.
  intros st t ev done st' ev' X Hs Hd H. unfold settle in H.
  destruct (norm (2 * (cont_size (tcont (th st t)) + length (tacc (th st t))) + 2) (sl st) (tacc (th st t)) (tcont (th st t)) ev)
    as [[[s1 acc1] k1] ev1] eqn:En.
  cbn zeta in H.
  pose proof (norm_nrel _ _ _ _ _ _ _ _ _ En) as N.
  set (st1 := set_sl (upd_th st t (set_tacc (set_tcont (th st t) k1) acc1)) s1) in *.
  assert (X1 : XInv st1).
  { apply (x_cont st st1 t X).
    - intro u. unfold st1. repeat split; thr_simpl.
    - unfold st1. thr_simpl.
    - intros _ Hne E. unfold st1 in Hne. cbn -[Nat.eqb] in Hne. unfold updN, th in Hne. rewrite Nat.eqb_refl in Hne. cbn in Hne.
      unfold th in N. rewrite E in N. apply nrel_nil in N. congruence.
    - congruence. }
  assert (T1 : tcont (thr st1 t) = k1) by (unfold st1; thr_simpl).
  assert (S1 : tstarted (thr st1 t) = true) by (unfold st1; cbn -[Nat.eqb]; unfold updN, th; rewrite Nat.eqb_refl; cbn; exact Hs).
  assert (Hd1 : done <> None -> k1 = []).
  { intro D. unfold th in N. rewrite (Hd D) in N. apply nrel_nil. exact N. }
  clearbody st1.
  match type of H with (let '(st2, ev2) := ?E in _) = _ => destruct E as [st2 ev2] eqn:E2 end.
  assert (Done : forall s, (forall u, u <> t -> thr s u = thr st1 u) -> thr s t = set_tcur (thr st1 t) None -> k1 = [] -> XInv s).
  { intros s A F G. constructor.
    - intros u. destruct (Nat.eq_dec u t) as [->|Hu]; [rewrite F; cbn; rewrite T1, G; congruence|rewrite (A u Hu); apply (x_idle st1 X1 u)].
    - destruct (Nat.eq_dec main t) as [<-|Hu]; [rewrite F; cbn|rewrite (A main Hu)]; apply (x_main st1 X1).
    - intros u. destruct (Nat.eq_dec u t) as [->|Hu]; [rewrite F; cbn; congruence|rewrite (A u Hu); apply (x_fresh st1 X1 u)]. }
  assert (X2 : XInv st2 /\ tstarted (thr st2 t) = true).
  { destruct done as [v|].
    - inversion E2; subst. split; [|thr_simpl]. apply Done; [thr_simpl|cbn; unfold updN, th; rewrite Nat.eqb_refl; reflexivity|apply Hd1; discriminate].
    - destruct k1.
      + destruct (tcur (th st1 t)) as [c|]; inversion E2; subst; [|auto].
        split; [|destruct c; thr_simpl]. apply Done; try reflexivity; destruct c; try thr_simpl; cbn; unfold updN, th; rewrite Nat.eqb_refl; reflexivity.
      + inversion E2; subst. auto. }
  destruct X2 as [X2 S2].
  destruct (tcont (th st2 t)) eqn:Ec; [|inversion H; subst; exact X2].
  destruct (tscript (th st2 t)) eqn:Es; [|inversion H; subst; exact X2].
  destruct (tcur (th st2 t)) eqn:Eu; [inversion H; subst; exact X2|].
  destruct (tfinal (th st2 t)) eqn:Ef; inversion H; subst; [exact X2|].
  unfold th in *.
  assert (Hm : t <> main).
  { intro E. subst t. destruct (x_main st2 X2) as [A _]. congruence. }
  constructor.
  - intros u. cbn -[Nat.eqb]. unfold updN, th. destruct (Nat.eqb_spec u t); subst; cbn; [auto|apply (x_idle st2 X2 u)].
  - cbn -[Nat.eqb]. unfold updN, th. destruct (Nat.eqb_spec main t); [congruence|apply (x_main st2 X2)].
  - intros u. cbn -[Nat.eqb]. unfold updN, th. destruct (Nat.eqb_spec u t); subst; cbn; [congruence|apply (x_fresh st2 X2 u)].
Qed.

Theorem wstep_X : forall st t st' ev, MInv st -> XInv st -> wstep st t = (st', ev) -> XInv st'.
Proof.
  intros st t st' ev [I [P Wf]] X H. unfold wstep in H.
  destruct (enabled st t) eqn:En; cbn [negb] in H; [|inversion H; subst; exact X].
  assert (Ht : (t < nthr st)%nat).
  { unfold enabled in En. apply andb_true_iff in En. destruct En as [En _]. apply Nat.ltb_lt in En. exact En. }
  assert (Pt : pristine (tick st t)) by (unfold tick; prist st t).
  assert (Xt : XInv (tick st t)) by (apply (x_same st); auto; unfold tick; xs).
  assert (Htt : (t < nthr (tick st t))%nat) by exact Ht.
  set (s0 := tick st t) in *. clearbody s0. clear En.
  destruct (tstarted (th s0 t)) eqn:Es0; cbn [negb] in H.
  - destruct (tcont (th s0 t)) as [|i r] eqn:Ec.
    + destruct (tscript (th s0 t)) as [|c0 cs] eqn:Es; [inversion H; subst; exact X|].
      match type of H with context [begin_cmd ?S0 t ?cc] =>
        destruct (begin_cmd S0 t cc) as [[st2 ev0] done] eqn:Eb; set (s1 := S0) in * end.
      assert (P1 : pristine s1) by (unfold s1; prist s0 t).
      assert (Hc1 : tcont (thr s1 t) = []) by (unfold s1; thr_simpl; exact Ec).
      assert (Ht1 : (t < nthr s1)%nat) by exact Htt.
      assert (Hcur : tcur (thr s1 t) <> None) by (unfold s1; thr_simpl).
      assert (Hs1 : tstarted (thr s1 t) = true) by (unfold s1; thr_simpl; exact Es0).
      assert (X1 : XInv s1).
      { constructor.
        - intros u. unfold s1. cbn -[Nat.eqb]. unfold updN, th. destruct (Nat.eqb_spec u t); subst; cbn; [congruence|apply (x_idle s0 Xt u)].
        - unfold s1. cbn -[Nat.eqb]. unfold updN, th. destruct (Nat.eqb_spec main t); subst; cbn; apply (x_main s0 Xt).
        - intros u. unfold s1. cbn -[Nat.eqb]. unfold updN, th. destruct (Nat.eqb_spec u t); subst; cbn; [unfold th in Es0; congruence|apply (x_fresh s0 Xt u)]. }
      pose proof (begin_cmd_X s1 t c0 st2 ev0 done X1 P1 Ht1 Hcur Hs1 Eb) as X2.
      assert (Hs2 : tstarted (thr st2 t) = true).
      { destruct (tstarted (thr st2 t)) eqn:E; auto. destruct (x_fresh st2 X2 t E) as [_ Q].
        exfalso. clearbody s1. clear - Eb Hcur Q Ht1.
        assert (G : tcur (thr st2 t) = tcur (thr s1 t)).
        { assert (Sp : forall s p f, thr s = thr s1 -> nthr s = nthr s1 -> tcur (thr (spawn_thread s t p f) t) = tcur (thr s1 t)).
          { intros s p f E1 E2. cbn. unfold updN, th. destruct (Nat.eqb_spec t (nthr s)); [lia|]. rewrite E1. reflexivity. }
          destruct c0; cbn [begin_cmd] in Eb; destr_all Eb; inversion Eb; subst; clear Eb; try reflexivity;
            repeat match goal with
                   | E : wh_add _ _ = Some _ |- _ => destruct (wh_add_core _ _ _ _ E) as [? [? [? [C1 [C2 _]]]]]; clear E
                   | E : fill_loop _ _ _ = _ |- _ => destruct (fill_loop_pps _ _ _ _ _ E) as [_ C1]; clear E
                   end;
            try (cbn; rewrite C1; reflexivity); try (apply Sp; auto; fail); try thr_simpl;
            try (cbn -[Nat.eqb]; unfold updN, th; rewrite Nat.eqb_refl; cbn; rewrite C1; reflexivity). }
        congruence. }
      eapply settle_X; [exact X2|exact Hs2| |exact H].
      intro D. destruct done as [v|]; [|congruence]. rewrite (begin_cmd_done s1 t c0 st2 ev0 v Ht1 Eb). exact Hc1.
    + destruct (exec_instr s0 t i r) as [st1 ev1] eqn:Ee.
      pose proof (exec_instr_tf _ _ _ _ _ _ Ee) as F.
      assert (X1 : XInv st1) by (eapply (x_tframe s0 st1 t i r); eauto).
      eapply settle_X; [exact X1| |intro D; exfalso; apply D; reflexivity|exact H].
      destruct F as [_ [F _]]. destruct (F t) as [_ [_ [_ [D _]]]]. rewrite D. exact Es0.
  - eapply settle_X; [| |intro D; exfalso; apply D; reflexivity|exact H].
    + destruct (x_fresh s0 Xt t Es0) as [Q1 Q2].
      constructor.
      * intros u. cbn -[Nat.eqb]. unfold updN, th. destruct (Nat.eqb_spec u t); subst; cbn; [congruence|apply (x_idle s0 Xt u)].
      * cbn -[Nat.eqb]. unfold updN, th. destruct (Nat.eqb_spec main t); subst; cbn; apply (x_main s0 Xt).
      * intros u. cbn -[Nat.eqb]. unfold updN, th. destruct (Nat.eqb_spec u t); subst; cbn; [congruence|apply (x_fresh s0 Xt u)].
    + thr_simpl.
Qed.

Lemma X_init : forall scr, XInv (winit scr).
Proof.
  intro scr. constructor; cbn.
  - intros t _ Hc. congruence.
  - split; [reflexivity|lia].
  - intros; split; reflexivity.
Qed.

Lemma wrun_X : forall sched st, MInv st -> XInv st -> XInv (fst (wrun st sched)).
Proof.
  induction sched as [|t rest IH]; intros st M X; cbn [wrun]; auto.
  destruct (wstep st t) as [st1 ev] eqn:E.
  specialize (IH st1 (wstep_inv _ _ _ _ M E) (wstep_X _ _ _ _ M X E)).
  destruct (wrun st1 rest) as [st2 tr]. exact IH.
Qed.

Theorem reachable_X : forall st, reachable st -> XInv st.
Proof. intros st [scr [sched ->]]. apply wrun_X; [apply MInv_init|apply X_init]. Qed.

(** ** the bookkeeping of the monitors *)
Definition plain (e : wevent) : Prop :=
  match e with ECmd _ | ERet _ | ECallback | EExit | EStart => False | _ => True end.
Definition only_locks (k : list instr) : Prop := forall i, In i k -> exists m a, i = ILock m a.
Definition evs (t : tid) (ev : list wevent) : otrace := map (fun e => (t, e)) ev.

Record BRel (st : wstate) (b : mbase) : Prop := {
  br_cur : forall t, (t < nthr st)%nat -> get_tid t (b_cur b) = tcur (thr st t);
  br_dom : forall t, (nthr st <= t)%nat -> get_tid t (b_cur b) = None;
  br_nd : NoDup (map fst (b_cur b));
  br_notif : b_notif b = gnotified st;
  br_exit : forall t, tcur (thr st t) = None -> tcont (thr st t) <> [] ->
            memT t (b_exit b) = true \/ only_locks (tcont (thr st t)) }.

Lemma get_tid_none : forall A t (l : list (tid * A)), get_tid t l = None <-> ~ In t (map fst l).
Proof.
  induction l as [|[u x] l IH]; cbn; [tauto|]. destruct (Nat.eqb_spec u t) as [->|N].
  - split; [discriminate|]. intro H. exfalso. apply H. auto.
  - rewrite IH. split; [intros H [E|E]; auto|intros H E; apply H; auto].
Qed.
Lemma get_tid_rm_other : forall A t u (l : list (tid * A)), u <> t -> get_tid u (rm_tid t l) = get_tid u l.
Proof.
  induction l as [|[v x] l IH]; intros Hu; cbn; [reflexivity|]. destruct (Nat.eqb_spec v t) as [->|N].
  - destruct (Nat.eqb_spec t u); [congruence|reflexivity].
  - cbn. rewrite IH by auto. reflexivity.
Qed.
Lemma get_tid_rm_same : forall A t (l : list (tid * A)), NoDup (map fst l) -> get_tid t (rm_tid t l) = None.
Proof.
  induction l as [|[v x] l IH]; intros Hn; cbn; [reflexivity|]. inversion Hn; subst.
  destruct (Nat.eqb_spec v t) as [->|N]; [apply get_tid_none; auto|].
  cbn. destruct (Nat.eqb_spec v t); [congruence|]. apply IH; auto.
Qed.
Lemma rm_tid_incl : forall A t (l : list (tid * A)) x, In x (map fst (rm_tid t l)) -> In x (map fst l).
Proof.
  induction l as [|[v y] l IH]; intros x H; cbn in *; [exact H|]. destruct (Nat.eqb_spec v t); [right; exact H|].
  cbn in H. destruct H; auto.
Qed.
Lemma rm_tid_nd : forall A t (l : list (tid * A)), NoDup (map fst l) -> NoDup (map fst (rm_tid t l)).
Proof.
  induction l as [|[v y] l IH]; intros Hn; cbn; [constructor|]. inversion Hn; subst.
  destruct (Nat.eqb_spec v t); [assumption|]. cbn. constructor; [|apply IH; auto]. intro H. apply H1. eapply rm_tid_incl; eauto.
Qed.
Lemma memT_rmT : forall t u l, memT u (rmT t l) = negb (Nat.eqb u t) && memT u l.
Proof.
  intros t u l. unfold memT, rmT. induction l as [|v l IH]; cbn; [rewrite andb_false_r; reflexivity|].
  destruct (Nat.eqb_spec v t) as [->|N]; cbn; rewrite IH.
  - destruct (Nat.eqb_spec u t) as [->|M]; cbn; [reflexivity|]. destruct (Nat.eqb_spec t u); [congruence|reflexivity].
  - destruct (Nat.eqb_spec u t) as [->|M]; cbn; [|reflexivity]. destruct (Nat.eqb_spec v t); [congruence|reflexivity].
Qed.

Lemma mb_plain_eq : forall b t e, plain e ->
  mb_step b (t, e) =
  if is_ghost e then b
  else match get_tid t (b_cur b) with
       | Some _ => b
       | None => if memT t (b_exit b) then b else mkMB (b_cur b) (t :: b_exit b) (b_notif b) (b_nthr b)
       end.
Proof. intros b t e H. destruct e; cbn in *; try contradiction; try reflexivity; try (destruct h; reflexivity). Qed.

Lemma mb_fold_plain : forall t ev b,
  (forall e, In e ev -> plain e) ->
  let b' := fold_left mb_step (evs t ev) b in
  b_cur b' = b_cur b /\ b_notif b' = b_notif b /\ b_nthr b' = b_nthr b /\
  (forall u, memT u (b_exit b) = true -> memT u (b_exit b') = true) /\
  (forall u, u <> t -> memT u (b_exit b') = memT u (b_exit b)) /\
  (get_tid t (b_cur b) = None -> (exists e, In e ev /\ is_ghost e = false) -> memT t (b_exit b') = true) /\
  (forall c, get_tid t (b_cur b) = Some c -> b_exit b' = b_exit b).
Proof.
  induction ev as [|e ev IH]; intros b Hp; cbn zeta.
  - cbn. repeat split; auto. intros _ [e [[] _]].
  - cbn [evs map fold_left]. fold (evs t ev).
    assert (Hp' : forall e0, In e0 ev -> plain e0) by (intros; apply Hp; right; auto).
    specialize (IH (mb_step b (t, e)) Hp'). cbn zeta in IH.
    destruct IH as [A1 [A2 [A3 [A4 [A5 [A6 A7]]]]]].
    rewrite (mb_plain_eq b t e (Hp e (or_introl eq_refl))) in *.
    destruct (is_ghost e) eqn:Eg.
    + split; [exact A1|]. split; [exact A2|]. split; [exact A3|]. split; [exact A4|]. split; [exact A5|]. split; [|exact A7].
      intros Hn [e0 [[<-|Hin] Hg]]; [congruence|]. apply A6; eauto.
    + destruct (get_tid t (b_cur b)) eqn:Egt.
      * split; [exact A1|]. split; [exact A2|]. split; [exact A3|]. split; [exact A4|]. split; [exact A5|]. split; [intros; discriminate|].
        intros c0 _. apply (A7 c). exact Egt.
      * destruct (memT t (b_exit b)) eqn:Em.
        -- split; [exact A1|]. split; [exact A2|]. split; [exact A3|]. split; [exact A4|]. split; [exact A5|]. split; [|intros; discriminate].
           intros _ _. apply A4. exact Em.
        -- cbn [b_cur b_exit b_notif b_nthr] in *.
           split; [exact A1|]. split; [exact A2|]. split; [exact A3|]. split; [|split; [|split]].
           ++ intros u Hu. apply A4. cbn. unfold memT in Hu. rewrite Hu. apply orb_true_r.
           ++ intros u Hu. rewrite A5 by auto. cbn. destruct (Nat.eqb_spec t u); [congruence|reflexivity].
           ++ intros _ _. apply A4. cbn. rewrite Nat.eqb_refl. reflexivity.
           ++ intros; discriminate.
Qed.

(** a component of thread [t] that emits only plain events and leaves commands and the notification alone *)
Lemma br_plain : forall st st' b t ev,
  BRel st b -> nthr st' = nthr st ->
  (forall u, tcur (thr st' u) = tcur (thr st u)) ->
  (forall u, u <> t -> tcont (thr st' u) = tcont (thr st u)) ->
  gnotified st' = gnotified st ->
  (forall e, In e ev -> plain e) ->
  (tcur (thr st t) = None -> tcont (thr st' t) <> [] ->
   (tcont (thr st t) <> [] /\ (only_locks (tcont (thr st t)) -> exists e, In e ev /\ is_ghost e = false)) \/
   only_locks (tcont (thr st' t))) ->
  (t < nthr st)%nat ->
  BRel st' (fold_left mb_step (evs t ev) b).
Proof.
  intros st st' b t ev B Hn Hcur Ho Hg Hp Hex Ht.
  destruct (mb_fold_plain t ev b Hp) as [A1 [A2 [A3 [A4 [A5 [A6 A7]]]]]]. cbn zeta in *.
  constructor.
  - intros u Hu. rewrite A1, Hcur. apply (br_cur st b B). lia.
  - intros u Hu. rewrite A1. apply (br_dom st b B). lia.
  - rewrite A1. apply (br_nd st b B).
  - rewrite A2, Hg. apply (br_notif st b B).
  - intros u Hc Hne. rewrite Hcur in Hc. destruct (Nat.eq_dec u t) as [->|Hu].
    + destruct (Hex Hc Hne) as [[Hne0 Hl]|Hl]; [|right; exact Hl].
      destruct (br_exit st b B t Hc Hne0) as [M|L]; [left; apply A4; exact M|].
      left. apply A6; [rewrite (br_cur st b B t Ht); exact Hc|apply Hl; exact L].
    + rewrite (Ho u Hu) in *. destruct (br_exit st b B u Hc Hne) as [M|L]; [left; apply A4; exact M|right; exact L].
Qed.

Lemma mbq_quiescent : forall st b, BRel st b -> XInv st -> pristine st -> mb_quiescent b = true -> quiescent st.
Proof.
  intros st b B X [P0 P] Hq. unfold mb_quiescent in Hq.
  destruct (b_cur b) eqn:Ec; [|discriminate]. destruct (b_exit b) eqn:Ee; [|discriminate].
  apply negb_true_iff in Hq.
  assert (Cur : forall t, (t < nthr st)%nat -> tcur (thr st t) = None).
  { intros t Hlt. rewrite <- (br_cur st b B t Hlt), Ec. reflexivity. }
  assert (Lt : forall t, tcont (thr st t) <> [] -> (t < nthr st)%nat).
  { intros t Hne. destruct (le_lt_dec (nthr st) t) as [Hge|Hlt]; [|exact Hlt]. destruct (P t Hge) as [E _]. congruence. }
  split; [|split].
  - intros t k [r Hc]. assert (Hne : tcont (thr st t) <> []) by (rewrite Hc; discriminate).
    destruct (br_exit st b B t (Cur t (Lt t Hne)) Hne) as [M|L]; [rewrite Ee in M; discriminate|].
    destruct (L (IClimb k)) as [m [a E]]; [rewrite Hc; left; reflexivity|discriminate].
  - unfold mcont. destruct (tcont (thr st main)) eqn:E; auto. exfalso.
    assert (Hne : tcont (thr st main) <> []) by (rewrite E; discriminate).
    destruct (x_idle st X main (Cur main (Lt main Hne)) Hne) as [_ [_ [N _]]]. congruence.
  - rewrite <- (br_notif st b B). exact Hq.
Qed.

(** ** events and notification flag of one yielding instruction *)
Ltac pl := let e := fresh "e" in let He := fresh "He" in intros e He; cbn in He; repeat (destruct He as [<-|He]); try contradiction; exact Logic.I.

Lemma exec_lact_evs : forall st t a r st' ev, exec_lact st t a r = (st', ev) ->
  (forall e, In e ev -> plain e) /\ gnotified st' = gnotified st.
Proof.
  intros st t a r st' ev H.
  destruct a; cbn [exec_lact] in H; unfold ghost_handler in H; destr_all H; inversion H; subst; clear H; (split; [pl|reflexivity]).
Qed.
Lemma in_map_plain : forall A (f : A -> wevent) l, (forall x, plain (f x)) -> forall e, In e (map f l) -> plain e.
Proof. intros A f l Hf e He. apply in_map_iff in He. destruct He as [x [<- _]]. apply Hf. Qed.
Lemma exec_uact_evs : forall st t a r st' ev, exec_uact st t a r = (st', ev) ->
  (forall e, In e ev -> plain e) /\ gnotified st' = gnotified st.
Proof.
  intros st t a r st' ev H.
  destruct a; cbn [exec_uact] in H; inversion H; subst; clear H; (split; [|reflexivity]); try pl.
  - apply in_map_plain. intro; exact Logic.I.
  - intros e He. apply in_app_or in He. destruct He as [He|He]; [revert e He; apply in_map_plain; intro; exact Logic.I|].
    destruct term; [destruct He as [<-|[]]; exact Logic.I|destruct He].
Qed.

Lemma notify_fold_notif : forall us st,
  gnotified (fold_left (fun s u => upd_th s u (set_twaiting (th s u) false)) us st) = gnotified st.
Proof. induction us as [|v us IH]; intro st; [reflexivity|]. cbn [fold_left]. rewrite IH. reflexivity. Qed.
Lemma ghost_collect_notif : forall bits st, gnotified (ghost_collect st bits) = gnotified st.
Proof.
  unfold ghost_collect. induction bits as [|b bits IH]; intro st; [reflexivity|]. cbn [fold_left].
  destruct (slab_get (sl st) b); rewrite IH; reflexivity.
Qed.

Lemma exec_instr_evs : forall st t i r st' ev, exec_instr st t i r = (st', ev) ->
  (i = IClimb KCb /\ ev = [ECallback] /\ gnotified st' = true) \/
  ((forall e, In e ev -> plain e) /\ gnotified st' = gnotified st /\
   (forall m a, i = ILock m a -> exists e, In e ev /\ is_ghost e = false)).
Proof.
  intros st t i r st' ev H. destruct i; cbn [exec_instr] in H.
  - destruct k; cbn [exec_climb] in H; inversion H; subst; clear H.
    + right. split; [pl|]. split; [|intros; discriminate].
      destruct (bitmap_join a b (bmbase st bm)) as [x|]; [destruct (slab_get (sl st) x)|]; reflexivity.
    + right. split; [pl|]. split; [reflexivity|intros; discriminate].
    + right. split; [pl|]. split; [reflexivity|intros; discriminate].
    + left. auto.
  - inversion H; subst; clear H. right. split; [pl|]. split; [reflexivity|intros; discriminate].
  - destruct bms; inversion H; subst; clear H; right; (split; [pl|]; split; [reflexivity|intros; discriminate]).
  - destruct ls; [inversion H; subst; right; split; [pl|]; split; [reflexivity|intros; discriminate]|].
    destruct (collect (bmbase st bm) z (leaf st bm z)) as [bits ok].
    match type of H with context [ghost_collect ?S0 bits] =>
      pose proof (ghost_collect_notif bits S0) as A; remember (ghost_collect S0 bits) as s3 eqn:Es3 end.
    inversion H; subst st' ev; clear H. right. split; [|split; [cbn; rewrite A; reflexivity|intros; discriminate]].
    destruct ok; pl.
  - inversion H; subst. right. split; [pl|]. split; [reflexivity|intros; discriminate].
  - inversion H; subst. right. split; [pl|]. split; [reflexivity|intros; discriminate].
  - inversion H; subst. right. split; [pl|]. split; [reflexivity|intros; discriminate].
  - match type of H with context [exec_lact ?S0 t ?aa ?rr] => destruct (exec_lact S0 t aa rr) as [s2 e2] eqn:E end.
    inversion H; subst; clear H. apply exec_lact_evs in E. destruct E as [E1 E2]. right. split; [|split].
    + intros e [<-|He]; [exact Logic.I|apply E1; exact He].
    + rewrite E2. reflexivity.
    + intros m0 a0 _. exists (ELock m). split; [left; reflexivity|reflexivity].
  - destruct (exec_uact st t a r) as [s1 e1] eqn:E. inversion H; subst; clear H.
    apply exec_uact_evs in E. destruct E as [E1 E2]. right. split; [|split; [cbn; exact E2|intros; discriminate]].
    intros e [<-|He]; [exact Logic.I|apply E1; exact He].
  - inversion H; subst; clear H. right. split; [pl|]. split; [reflexivity|intros; discriminate].
  - match type of H with context [exec_lact ?S0 t ?aa ?rr] => destruct (exec_lact S0 t aa rr) as [s2 e2] eqn:E end.
    inversion H; subst; clear H. apply exec_lact_evs in E. destruct E as [E1 E2]. right. split; [|split; [rewrite E2; reflexivity|intros; discriminate]].
    intros e [<-|He]; [exact Logic.I|apply E1; exact He].
  - inversion H; subst st' ev; clear H. right. split; [pl|]. split; [|intros; discriminate].
    cbn. apply notify_fold_notif.
  - unfold ghost_handler in H. inversion H; subst; clear H. right. split; [pl|]. split; [destruct del; reflexivity|intros; discriminate].
  - inversion H; subst; clear H. right. split; [pl|]. split; [reflexivity|intros; discriminate].
  - inversion H; subst; clear H. right. split; [pl|]. split; [reflexivity|intros; discriminate].
Qed.

Lemma exec_instr_B : forall st b t i r st' ev,
  BRel st b -> tcont (thr st t) = i :: r -> (t < nthr st)%nat ->
  exec_instr st t i r = (st', ev) -> BRel st' (fold_left mb_step (evs t ev) b).
Proof.
  intros st b t i r st' ev B Hc Ht H.
  destruct (exec_instr_tf _ _ _ _ _ _ H) as [Hn [Hf Ho]].
  assert (Hcur : forall u, tcur (thr st' u) = tcur (thr st u)) by (intro u; destruct (Hf u) as [A _]; exact A).
  destruct (exec_instr_evs _ _ _ _ _ _ H) as [[-> [-> Hg]]|[Hp [Hg Hl]]].
  - (* the poll-waker callback *)
    cbn. constructor; cbn [b_cur b_exit b_notif b_nthr].
    + intros u Hu. rewrite Hcur. apply (br_cur st b B). lia.
    + intros u Hu. apply (br_dom st b B). lia.
    + apply (br_nd st b B).
    + symmetry. exact Hg.
    + intros u Hc0 Hne. rewrite Hcur in Hc0. destruct (Nat.eq_dec u t) as [->|Hu].
      * left. destruct (br_exit st b B t Hc0) as [M|L]; [rewrite Hc; discriminate|exact M|].
        destruct (L (IClimb KCb)) as [m [a E]]; [rewrite Hc; left; reflexivity|discriminate].
      * rewrite (Ho u Hu) in *. apply (br_exit st b B u Hc0 Hne).
  - apply (br_plain st st' b t ev B Hn Hcur Ho Hg Hp); [|exact Ht].
    intros Hc0 Hne. left. split; [rewrite Hc; discriminate|]. intro L.
    destruct (L i) as [m [a E]]; [rewrite Hc; left; reflexivity|]. eapply Hl; eauto.
Qed.

(** ** the start of a command *)
Definition is_pollcmd (c : cmd) : bool := match c with CPoll | CPollIf => true | _ => false end.

Lemma fill_loop_ghostev : forall n st ev st' ev',
  fill_loop n st ev = (st', ev') -> (forall e, In e ev -> plain e /\ is_ghost e = true) ->
  (forall e, In e ev' -> plain e /\ is_ghost e = true) /\ gnotified st' = gnotified st.
Proof.
  induction n as [|n IH]; intros st ev st' ev' H Hp; cbn [fill_loop] in H.
  - inversion H; subst. auto.
  - destruct (wh_add st (HPlain (1000000 + nfill st))) as [[st1 wi]|] eqn:E.
    + apply IH in H.
      * destruct H as [A B]. split; [exact A|]. rewrite B. cbn.
        unfold wh_add in E. destruct (slab_insert (sl st) _) as [bit0 s0].
        destruct (add_loop 2 s0 _ bit0) as [[[bit base] s1]|]; [|discriminate].
        destruct (waker_vec_index bit); [|discriminate]. destruct (waker_slot bit); [|discriminate]. inversion E; subst. reflexivity.
      * intros e He. apply in_app_or in He. destruct He as [He|[<-|[]]]; [apply Hp; exact He|split; [exact Logic.I|reflexivity]].
    + inversion H; subst. split; [|reflexivity]. intros e He. apply in_app_or in He.
      destruct He as [He|[<-|[]]]; [apply Hp; exact He|split; [exact Logic.I|reflexivity]].
Qed.

Lemma wh_add_notif : forall st h st1 wi, wh_add st h = Some (st1, wi) -> gnotified st1 = gnotified st.
Proof.
  intros st h st1 wi E. unfold wh_add in E. destruct (slab_insert (sl st) h) as [bit0 s0].
  destruct (add_loop 2 s0 h bit0) as [[[bit base] s1]|]; [|discriminate].
  destruct (waker_vec_index bit); [|discriminate]. destruct (waker_slot bit); [|discriminate]. inversion E; subst. reflexivity.
Qed.

Lemma begin_cmd_sum : forall st t c st' ev done,
  pristine st -> (t < nthr st)%nat -> begin_cmd st t c = (st', ev, done) ->
  (forall e, In e ev -> plain e /\ is_ghost e = true) /\
  tcur (thr st' t) = tcur (thr st t) /\
  (forall u, u <> t -> (u < nthr st)%nat -> thr st' u = thr st u) /\
  (nthr st' = nthr st \/
   (nthr st' = S (nthr st) /\ tcur (thr st' (nthr st)) = None /\ tcont (thr st' (nthr st)) = [])) /\
  gnotified st' = (if is_pollcmd c && is_main t then false else gnotified st).
Proof.
  intros st t c st' ev done [P0 P] Ht H.
  assert (Gh : forall l : list wevent, (forall e, In e l -> e = EErr \/ exists b h, e = EAdd b h) -> forall e, In e l -> plain e /\ is_ghost e = true).
  { intros l Hl e He. destruct (Hl e He) as [->|[b [h ->]]]; split; try exact Logic.I; reflexivity. }
  assert (Sp : forall s p f, thr s = thr st -> nthr s = nthr st -> gnotified s = gnotified st ->
    tcur (thr (spawn_thread s t p f) t) = tcur (thr st t) /\
    (forall u, u <> t -> (u < nthr st)%nat -> thr (spawn_thread s t p f) u = thr st u) /\
    (nthr (spawn_thread s t p f) = nthr st \/
     (nthr (spawn_thread s t p f) = S (nthr st) /\ tcur (thr (spawn_thread s t p f) (nthr st)) = None /\
      tcont (thr (spawn_thread s t p f) (nthr st)) = []))).
  { intros s p f E1 E2 E3. cbn. unfold updN, th. rewrite E2, E1. split; [|split].
    - destruct (Nat.eqb_spec t (nthr st)); [lia|reflexivity].
    - intros u Hu Hl. destruct (Nat.eqb_spec u (nthr st)); [lia|reflexivity].
    - right. rewrite Nat.eqb_refl. cbn. auto. }
  destruct c; cbn [begin_cmd] in H; destr_all H; inversion H; subst; clear H; cbn [is_pollcmd andb];
    repeat match goal with
           | E : wh_add _ _ = Some _ |- _ =>
               pose proof (wh_add_notif _ _ _ _ E); destruct (wh_add_core _ _ _ _ E) as [? [? [? [C1 [C2 _]]]]]; clear E
           end;
    try (split; [apply Gh; intros e0 He0; cbn in He0; repeat (destruct He0 as [<-|He0]); try contradiction; eauto|];
         first [ split; [thr_simpl|split; [thr_simpl|split; [left; reflexivity|try reflexivity; try (destruct (is_main t); reflexivity)]]]
               | split; [cbn; rewrite ?C1; thr_simpl|split; [cbn; rewrite ?C1; thr_simpl|split; [left; cbn; congruence|cbn; congruence]]] ]; fail).
  all: try (destruct (Sp st (-1) [] eq_refl eq_refl eq_refl) as [S1 [S2 S3]];
            split; [intros e0 []|]; split; [exact S1|split; [exact S2|split; [exact S3|reflexivity]]]; fail).
  all: repeat match goal with
              | E : negb (is_main _) = true |- _ => apply negb_true_iff in E; rewrite ?E
              | E : negb (is_main _) = false |- _ => apply negb_false_iff in E; rewrite ?E
              end.
  all: try (split; [intros e0 []|]; split; [thr_simpl|split; [thr_simpl|split; [left; reflexivity|reflexivity]]]; fail).
  - (* CFill *)
    match goal with E : fill_loop _ _ _ = _ |- _ =>
      destruct (fill_loop_ghostev _ _ _ _ _ E ltac:(intros e0 [])) as [G1 G2]; destruct (fill_loop_pps _ _ _ _ _ E) as [_ B];
      pose proof (fill_loop_nthr _ _ _ _ _ E) as N end.
    split; [exact G1|]. rewrite B. split; [reflexivity|]. split; [auto|]. split; [left; exact N|exact G2].
  - (* CPNew *)
    match goal with |- context [spawn_thread ?S _ ?pp ?F] => destruct (Sp S pp F) as [S1 [S2 S3]]; [exact C1|exact C2|cbn; assumption|] end.
    split; [apply Gh; intros e0 [<-|[]]; eauto|]. split; [exact S1|split; [exact S2|split; [exact S3|cbn; assumption]]].
Qed.
