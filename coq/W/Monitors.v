(** * Layer W: executable monitors for C11..C14 over observable traces.

    A trace is the list of (thread, event) pairs in execution order.  The monitors only read events
    that the harness can observe on the REAL code: command starts/returns, poll-waker callback,
    plain handler invocations, forwarded messages, termination notices, thread start/exit; every
    other event of a thread outside a command only marks the thread as running its exit sequence.
    [aborted] = the run ended in a deadlock.  The same functions are evaluated on model traces
    (theorems) and, extracted, on the real traces (check). *)
From Coq Require Import ZArith List Bool Arith.
From Stk Require Import W.Waker.
Import ListNotations.
Local Open Scope Z_scope.

Definition otrace := list (tid * wevent).

Definition flatten (tr : list (tid * list wevent)) : otrace :=
  flat_map (fun te => map (fun e => (fst te, e)) (snd te)) tr.

Fixpoint rm_tid {A} (t : tid) (l : list (tid * A)) : list (tid * A) :=
  match l with [] => [] | (u, x) :: r => if Nat.eqb u t then r else (u, x) :: rm_tid t r end.
Fixpoint get_tid {A} (t : tid) (l : list (tid * A)) : option A :=
  match l with [] => None | (u, x) :: r => if Nat.eqb u t then Some x else get_tid t r end.
Fixpoint rm_one (w : Z) (l : list Z) : list Z :=
  match l with [] => [] | x :: r => if x =? w then r else x :: rm_one w r end.
Definition rm_all (w : Z) (l : list Z) : list Z := filter (fun x => negb (x =? w)) l.
Definition memZ (w : Z) (l : list Z) : bool := existsb (fun x => x =? w) l.
Definition memT (t : tid) (l : list tid) : bool := existsb (fun x => Nat.eqb x t) l.
Definition rmT (t : tid) (l : list tid) : list tid := filter (fun x => negb (Nat.eqb x t)) l.

(** ** common bookkeeping: who is inside a command / exit sequence, is a notification unserved *)
Record mbase := mkMB {
  b_cur : list (tid * cmd);        (* commands in progress *)
  b_exit : list tid;               (* threads inside their exit sequence *)
  b_notif : bool;                  (* poll-waker callback since the last start of poll_wake *)
  b_nthr : nat                     (* number of threads spawned so far (thread ids are spawn order) *) }.
Definition mb0 := mkMB [] [] false 1.

Definition is_ghost (e : wevent) : bool :=
  match e with EPub _ _ | EDel _ _ | EAdd _ _ | EStutter | EErr => true
             | EHandler (HPlain _) _ => false | EHandler _ _ => true | _ => false end.

Definition mb_step (m : mbase) (te : tid * wevent) : mbase :=
  let '(t, e) := te in
  match e with
  | ECmd c =>
      mkMB ((t, c) :: b_cur m) (b_exit m)
           (match c with CPoll | CPollIf => if Nat.eqb t 0 then false else b_notif m | _ => b_notif m end)
           (b_nthr m)
  | ERet v =>
      let spawned := match get_tid t (b_cur m), v with
                     | Some CSpawn, RUnit | Some (CPNew _), RUnit => true
                     | _, _ => false end in
      mkMB (rm_tid t (b_cur m)) (b_exit m) (b_notif m) (if spawned then S (b_nthr m) else b_nthr m)
  | ECallback => mkMB (b_cur m) (b_exit m) true (b_nthr m)
  | EExit => mkMB (b_cur m) (rmT t (b_exit m)) (b_notif m) (b_nthr m)
  | EStart => m
  | _ => if is_ghost e then m
         else match get_tid t (b_cur m) with
              | Some _ => m
              | None => if memT t (b_exit m) then m else mkMB (b_cur m) (t :: b_exit m) (b_notif m) (b_nthr m)
              end
  end.

Definition mb_quiescent (m : mbase) : bool :=
  match b_cur m, b_exit m with [], [] => negb (b_notif m) | _, _ => false end.

(** ** C11: every wake() that began is followed by a call of that waker's handler *)
Record m11 := mkM11 { m11_b : mbase; m11_pend : list Z }.
Definition m11_step (m : m11) (te : tid * wevent) : m11 :=
  let '(t, e) := te in
  let b' := mb_step (m11_b m) te in
  match e with
  | ECmd (CWake w) => mkM11 b' (w :: m11_pend m)
  | ERet RBad => match get_tid t (b_cur (m11_b m)) with
                 | Some (CWake w) => mkM11 b' (rm_one w (m11_pend m))
                 | _ => mkM11 b' (m11_pend m)
                 end
  | EHandler (HPlain w) _ => mkM11 b' (rm_all w (m11_pend m))
  | _ => mkM11 b' (m11_pend m)
  end.
Definition C11_ok (tr : otrace) (aborted : bool) : bool :=
  let m := fold_left m11_step tr (mkM11 mb0 []) in
  if mb_quiescent (m11_b m) && negb aborted then match m11_pend m with [] => true | _ => false end else true.

(** ** C12: deleted=true exactly once, last, only for dropped wakers *)
Record m12 := mkM12 { m12_b : mbase; m12_begun : list Z; m12_done : list Z; m12_dead : list Z; m12_bad : bool }.
Definition m12_step (m : m12) (te : tid * wevent) : m12 :=
  let '(t, e) := te in
  let b' := mb_step (m12_b m) te in
  match e with
  | ECmd (CDropW w) => mkM12 b' (w :: m12_begun m) (m12_done m) (m12_dead m) (m12_bad m)
  | ERet v => match get_tid t (b_cur (m12_b m)), v with
              | Some (CDropW w), RUnit => mkM12 b' (m12_begun m) (w :: m12_done m) (m12_dead m) (m12_bad m)
              | Some (CDropW w), _ => mkM12 b' (rm_one w (m12_begun m)) (m12_done m) (m12_dead m) (m12_bad m)
              | _, _ => mkM12 b' (m12_begun m) (m12_done m) (m12_dead m) (m12_bad m)
              end
  | EHandler (HPlain w) d =>
      let bad := memZ w (m12_dead m) || (d && negb (memZ w (m12_begun m))) in
      mkM12 b' (m12_begun m) (m12_done m) (if d then w :: m12_dead m else m12_dead m) (m12_bad m || bad)
  | _ => mkM12 b' (m12_begun m) (m12_done m) (m12_dead m) (m12_bad m)
  end.
Definition C12_ok (tr : otrace) (aborted : bool) : bool :=
  let m := fold_left m12_step tr (mkM12 mb0 [] [] [] false) in
  negb (m12_bad m) &&
  (if mb_quiescent (m12_b m) && negb aborted then forallb (fun w => memZ w (m12_dead m)) (m12_done m) else true).

(** ** C13: channel *)
Record csend := mkCS { cs_tid : tid; cs_c : Z; cs_m : Z; cs_late : bool (* began after the close completed *) }.
Record m13 := mkM13 {
  m13_b : mbase;
  m13_sends : list csend;             (* sends begun, newest first *)
  m13_acc : list (tid * (Z * Z));     (* accepted (sender, (channel, message)), newest first *)
  m13_fwd : list (Z * Z);             (* forwarded (channel, message) *)
  m13_cbegun : list Z; m13_cdone : list Z;
  m13_late : list (tid * bool);       (* command in progress began after close of its channel *)
  m13_bad : bool }.
Definition pairZ_eqb (x y : Z * Z) : bool := (fst x =? fst y) && (snd x =? snd y).
Definition mem_pair (x : Z * Z) (l : list (Z * Z)) : bool := existsb (pairZ_eqb x) l.
(** the sends that began before the send of [(c, m)] (the list is newest first), with its sender *)
Fixpoint sends_before (c m : Z) (l : list csend) : option (tid * list csend) :=
  match l with
  | [] => None
  | s :: r => if (cs_c s =? c) && (cs_m s =? m) then Some (cs_tid s, r) else sends_before c m r
  end.
Definition mem_acc (t : tid) (x : Z * Z) (l : list (tid * (Z * Z))) : bool :=
  existsb (fun a => Nat.eqb (fst a) t && pairZ_eqb (snd a) x) l.
Definition m13_step (m : m13) (te : tid * wevent) : m13 :=
  let '(t, e) := te in
  let b' := mb_step (m13_b m) te in
  let same := mkM13 b' (m13_sends m) (m13_acc m) (m13_fwd m) (m13_cbegun m) (m13_cdone m) (m13_late m) (m13_bad m) in
  match e with
  | ECmd (CSend c x) =>
      let late := memZ c (m13_cdone m) in
      mkM13 b' (mkCS t c x late :: m13_sends m) (m13_acc m) (m13_fwd m) (m13_cbegun m) (m13_cdone m)
            ((t, late) :: m13_late m) (m13_bad m)
  | ECmd (CClosed c) =>
      mkM13 b' (m13_sends m) (m13_acc m) (m13_fwd m) (m13_cbegun m) (m13_cdone m)
            ((t, memZ c (m13_cdone m)) :: m13_late m) (m13_bad m)
  | ECmd (CCDrop c) =>
      mkM13 b' (m13_sends m) (m13_acc m) (m13_fwd m) (c :: m13_cbegun m) (m13_cdone m) (m13_late m) (m13_bad m)
  | ERet v =>
      let late := match get_tid t (m13_late m) with Some b => b | None => false end in
      let lt := rm_tid t (m13_late m) in
      match get_tid t (b_cur (m13_b m)), v with
      | Some (CSend c x), RBool true =>
          mkM13 b' (m13_sends m) ((t, (c, x)) :: m13_acc m) (m13_fwd m) (m13_cbegun m) (m13_cdone m) lt (m13_bad m || late)
      | Some (CSend c x), RBool false =>
          mkM13 b' (m13_sends m) (m13_acc m) (m13_fwd m) (m13_cbegun m) (m13_cdone m) lt (m13_bad m)
      | Some (CClosed c), RBool b =>
          mkM13 b' (m13_sends m) (m13_acc m) (m13_fwd m) (m13_cbegun m) (m13_cdone m) lt (m13_bad m || (late && negb b))
      | Some (CCDrop c), RUnit =>
          mkM13 b' (m13_sends m) (m13_acc m) (m13_fwd m) (m13_cbegun m) (c :: m13_cdone m) lt (m13_bad m)
      | Some (CCDrop c), _ =>
          mkM13 b' (m13_sends m) (m13_acc m) (m13_fwd m) (rm_one c (m13_cbegun m)) (m13_cdone m) lt (m13_bad m)
      | _, _ => mkM13 b' (m13_sends m) (m13_acc m) (m13_fwd m) (m13_cbegun m) (m13_cdone m) lt (m13_bad m)
      end
  | EFwd c x =>
      let dup := mem_pair (c, x) (m13_fwd m) in
      let afterclose := memZ c (m13_cdone m) in
      let bad :=
        match sends_before c x (m13_sends m) with
        | None => true                                   (* never sent *)
        | Some (s, earlier) =>
            (* every earlier accepted message of the same sender on this channel has been forwarded *)
            negb (forallb (fun e => negb (Nat.eqb (cs_tid e) s) || negb (cs_c e =? c) ||
                                    negb (mem_acc s (c, cs_m e) (m13_acc m)) || mem_pair (c, cs_m e) (m13_fwd m)) earlier)
        end in
      mkM13 b' (m13_sends m) (m13_acc m) ((c, x) :: m13_fwd m) (m13_cbegun m) (m13_cdone m) (m13_late m)
            (m13_bad m || dup || afterclose || bad)
  | _ => same
  end.
Definition C13_ok (tr : otrace) (aborted : bool) : bool :=
  let m := fold_left m13_step tr (mkM13 mb0 [] [] [] [] [] [] false) in
  negb (m13_bad m) &&
  (if mb_quiescent (m13_b m) && negb aborted
   then forallb (fun a => mem_pair (snd a) (m13_fwd m) || memZ (fst (snd a)) (m13_cbegun m)) (m13_acc m)
   else true).

(** ** C14: piped thread *)
Record m14 := mkM14 {
  m14_b : mbase;
  m14_owner : list (tid * Z);          (* worker thread -> pipe *)
  m14_psend : list (Z * Z);            (* (pipe, message) sent by main, oldest first *)
  m14_recvd : list (Z * Z);            (* (pipe, message) returned by recv, oldest first *)
  m14_lsend : list (Z * Z);            (* (pipe, message) lsend begun, oldest first *)
  m14_lsdone : list (Z * Z);           (* lsend completed *)
  m14_fwd : list (Z * Z);              (* forwarded to fwd_recv, oldest first *)
  m14_term : list Z;                   (* pipes whose fwd_term was called *)
  m14_panic : list Z;                  (* pipes whose worker panicked *)
  m14_dropped : list Z;                (* PipedThread drop completed *)
  m14_exited : list Z;                 (* pipes whose worker thread has exited *)
  m14_late : list (tid * bool);        (* worker command began after the drop completed *)
  m14_bad : bool }.
Fixpoint on_pipe (p : Z) (l : list (Z * Z)) : list Z :=
  match l with [] => [] | (q, x) :: r => if q =? p then x :: on_pipe p r else on_pipe p r end.
Fixpoint prefixZ (a b : list Z) : bool :=
  match a, b with [], _ => true | x :: a', y :: b' => (x =? y) && prefixZ a' b' | _, [] => false end.
Definition m14_set_b (m : m14) (b : mbase) : m14 :=
  mkM14 b (m14_owner m) (m14_psend m) (m14_recvd m) (m14_lsend m) (m14_lsdone m) (m14_fwd m) (m14_term m)
        (m14_panic m) (m14_dropped m) (m14_exited m) (m14_late m) (m14_bad m).
Definition m14_flag (m : m14) (b : bool) : m14 :=
  mkM14 (m14_b m) (m14_owner m) (m14_psend m) (m14_recvd m) (m14_lsend m) (m14_lsdone m) (m14_fwd m) (m14_term m)
        (m14_panic m) (m14_dropped m) (m14_exited m) (m14_late m) (m14_bad m || b).
Definition m14_step (m : m14) (te : tid * wevent) : m14 :=
  let '(t, e) := te in
  let b0 := m14_b m in
  let b' := mb_step b0 te in
  let m' := m14_set_b m b' in
  let pipe_of := get_tid t (m14_owner m) in
  match e with
  | ECmd (CPSend p x) =>
      mkM14 b' (m14_owner m) (m14_psend m ++ [(p, x)]) (m14_recvd m) (m14_lsend m) (m14_lsdone m) (m14_fwd m)
            (m14_term m) (m14_panic m) (m14_dropped m) (m14_exited m) (m14_late m) (m14_bad m)
  | ECmd (CLSend x) =>
      match pipe_of with
      | Some p => mkM14 b' (m14_owner m) (m14_psend m) (m14_recvd m) (m14_lsend m ++ [(p, x)]) (m14_lsdone m) (m14_fwd m)
                        (m14_term m) (m14_panic m) (m14_dropped m) (m14_exited m)
                        ((t, memZ p (m14_dropped m)) :: m14_late m) (m14_bad m)
      | None => m'
      end
  | ECmd CRecv | ECmd CCancel =>
      match pipe_of with
      | Some p => mkM14 b' (m14_owner m) (m14_psend m) (m14_recvd m) (m14_lsend m) (m14_lsdone m) (m14_fwd m)
                        (m14_term m) (m14_panic m) (m14_dropped m) (m14_exited m)
                        ((t, memZ p (m14_dropped m)) :: m14_late m) (m14_bad m)
      | None => m'
      end
  | ECmd CPanic =>
      match pipe_of with
      | Some p => mkM14 b' (m14_owner m) (m14_psend m) (m14_recvd m) (m14_lsend m) (m14_lsdone m) (m14_fwd m)
                        (m14_term m) (p :: m14_panic m) (m14_dropped m) (m14_exited m) (m14_late m) (m14_bad m)
      | None => m'
      end
  | ERet v =>
      let late := match get_tid t (m14_late m) with Some b => b | None => false end in
      let lt := rm_tid t (m14_late m) in
      match get_tid t (b_cur b0), v with
      | Some (CPNew p), RUnit =>
          mkM14 b' ((b_nthr b0, p) :: m14_owner m) (m14_psend m) (m14_recvd m) (m14_lsend m) (m14_lsdone m) (m14_fwd m)
                (m14_term m) (m14_panic m) (m14_dropped m) (m14_exited m) lt (m14_bad m)
      | Some (CPSend p x), RBad =>      (* handle gone: the message was never sent *)
          mkM14 b' (m14_owner m) (removelast (m14_psend m)) (m14_recvd m) (m14_lsend m) (m14_lsdone m) (m14_fwd m)
                (m14_term m) (m14_panic m) (m14_dropped m) (m14_exited m) lt (m14_bad m)
      | Some (CPDrop p), RUnit =>
          mkM14 b' (m14_owner m) (m14_psend m) (m14_recvd m) (m14_lsend m) (m14_lsdone m) (m14_fwd m)
                (m14_term m) (m14_panic m) (p :: m14_dropped m) (m14_exited m) lt (m14_bad m)
      | Some CRecv, RVal x =>
          match pipe_of with
          | Some p =>
              let r' := m14_recvd m ++ [(p, x)] in
              mkM14 b' (m14_owner m) (m14_psend m) r' (m14_lsend m) (m14_lsdone m) (m14_fwd m)
                    (m14_term m) (m14_panic m) (m14_dropped m) (m14_exited m) lt
                    (m14_bad m || late || negb (prefixZ (on_pipe p r') (on_pipe p (m14_psend m))))
          | None => m'
          end
      | Some CRecv, RNoneV =>
          mkM14 b' (m14_owner m) (m14_psend m) (m14_recvd m) (m14_lsend m) (m14_lsdone m) (m14_fwd m)
                (m14_term m) (m14_panic m) (m14_dropped m) (m14_exited m) lt (m14_bad m)
      | Some (CLSend x), RBool b =>
          match pipe_of with
          | Some p => mkM14 b' (m14_owner m) (m14_psend m) (m14_recvd m) (m14_lsend m) (m14_lsdone m ++ [(p, x)]) (m14_fwd m)
                            (m14_term m) (m14_panic m) (m14_dropped m) (m14_exited m) lt (m14_bad m || (late && b))
          | None => m'
          end
      | Some CCancel, RBool b =>
          mkM14 b' (m14_owner m) (m14_psend m) (m14_recvd m) (m14_lsend m) (m14_lsdone m) (m14_fwd m)
                (m14_term m) (m14_panic m) (m14_dropped m) (m14_exited m) lt (m14_bad m || (late && negb b))
      | _, _ => mkM14 b' (m14_owner m) (m14_psend m) (m14_recvd m) (m14_lsend m) (m14_lsdone m) (m14_fwd m)
                      (m14_term m) (m14_panic m) (m14_dropped m) (m14_exited m) lt (m14_bad m)
      end
  | EFwdRecv p x =>
      let f' := m14_fwd m ++ [(p, x)] in
      mkM14 b' (m14_owner m) (m14_psend m) (m14_recvd m) (m14_lsend m) (m14_lsdone m) f'
            (m14_term m) (m14_panic m) (m14_dropped m) (m14_exited m) (m14_late m)
            (m14_bad m || memZ p (m14_term m) || negb (prefixZ (on_pipe p f') (on_pipe p (m14_lsend m))))
  | ETerm p b =>
      mkM14 b' (m14_owner m) (m14_psend m) (m14_recvd m) (m14_lsend m) (m14_lsdone m) (m14_fwd m)
            (p :: m14_term m) (m14_panic m) (m14_dropped m) (m14_exited m) (m14_late m)
            (m14_bad m || memZ p (m14_term m) || negb (Bool.eqb b (memZ p (m14_panic m))))
  | EExit =>
      match pipe_of with
      | Some p => mkM14 b' (m14_owner m) (m14_psend m) (m14_recvd m) (m14_lsend m) (m14_lsdone m) (m14_fwd m)
                        (m14_term m) (m14_panic m) (m14_dropped m) (p :: m14_exited m) (m14_late m) (m14_bad m)
      | None => m'
      end
  | _ => m'
  end.
Definition len_pipe (p : Z) (l : list (Z * Z)) : nat := length (on_pipe p l).
Definition C14_ok (tr : otrace) (aborted : bool) : bool :=
  let m := fold_left m14_step tr
             (mkM14 mb0 [] [] [] [] [] [] [] [] [] [] [] false) in
  negb (m14_bad m) &&
  (* a deadlock with a recv in progress although a message or the cancellation is available *)
  negb (aborted && existsb (fun tc => match snd tc, get_tid (fst tc) (m14_owner m) with
                                     | CRecv, Some p => memZ p (m14_dropped m) ||
                                                        (len_pipe p (m14_recvd m) <? len_pipe p (m14_psend m))%nat
                                     | _, _ => false end) (b_cur (m14_b m))) &&
  (* nothing can run any more and no notification is unserved: either every command has returned, or the
     run ended in a deadlock in which the only commands in progress are blocked [recv]s *)
  (if (match b_exit (m14_b m) with [] => true | _ => false end) && negb (b_notif (m14_b m)) &&
      (if aborted then forallb (fun tc => match snd tc with CRecv => true | _ => false end) (b_cur (m14_b m))
       else match b_cur (m14_b m) with [] => true | _ => false end)
   then forallb (fun pq => memZ (snd pq) (on_pipe (fst pq) (m14_fwd m))) (m14_lsdone m) &&
        forallb (fun p => memZ p (m14_term m)) (m14_exited m)
   else true).
