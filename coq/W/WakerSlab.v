(** * Layer W: the handler slab ([slab] crate key policy) and the bitmaps pushed by [WakeHandlers::add]:
    [SInv] is preserved by [add] and [del]; exactly one bitmap is pushed per new range of 4096 keys;
    [del] never removes a reserved or vacant slot. *)
From Coq Require Import ZArith List Bool Arith Lia.
From Stk Require Import Lib.U Gen.SrcWaker W.Waker W.WakerArith W.WakerCore.
Import ListNotations.
Local Open Scope Z_scope.
Ltac Zify.zify_post_hook ::= Z.div_mod_to_equations.

Lemma updZ_same : forall A (f : Z -> A) k v, updZ f k v k = v.
Proof. intros. unfold updZ. rewrite Z.eqb_refl. reflexivity. Qed.
Lemma updZ_other : forall A (f : Z -> A) k v x, x <> k -> updZ f k v x = f x.
Proof. intros. unfold updZ. destruct (Z.eqb_spec x k); congruence. Qed.

Lemma chain_ext : forall se se' l hd e,
  (forall k, In k l -> se' k = se k) -> chain se hd l e -> chain se' hd l e.
Proof.
  induction l as [|k l IH]; simpl; intros hd e Hx H; auto.
  destruct H as [-> [n [Hn Hc]]]. split; auto. exists n. split.
  - rewrite Hx; auto.
  - apply IH; auto.
Qed.

Lemma chain_range : forall se l hd e, chain se hd l e -> l <> [] -> In hd l.
Proof. destruct l; simpl; intros; [congruence|]. destruct H; subst; auto. Qed.

(** [del]: the guard and the occupancy test *)
Lemma wh_del_some : forall s b h s',
  wh_del s b = Some (h, s') -> b mod 4096 <> 0 /\ slab_get s b = Some h /\ s' = slab_remove s b.
Proof.
  intros s b h s' H. unfold wh_del in H. rewrite waker_del_guard_spec in H.
  destruct (b mod 4096 =? 0) eqn:E; simpl in H; try discriminate.
  apply Z.eqb_neq in E. destruct (slab_get s b) eqn:G; try discriminate. inversion H; subst. auto.
Qed.

Lemma slab_get_some : forall s x h, slab_get s x = Some h -> 0 <= x < slen s /\ sent s x = SOcc h.
Proof.
  intros s x h H. unfold slab_get in H. destruct ((0 <=? x) && (x <? slen s)) eqn:E; try discriminate.
  apply andb_true_iff in E. destruct E as [E1 E2]. apply Z.leb_le in E1. apply Z.ltb_lt in E2.
  destruct (sent s x); inversion H; subst; auto.
Qed.

Lemma slab_get_remove_other : forall s b x, x <> b -> slab_get (slab_remove s b) x = slab_get s x.
Proof. intros. unfold slab_get, slab_remove. simpl. rewrite updZ_other by auto. reflexivity. Qed.

Lemma SInv_remove : forall c c' b h,
  SInv c -> slab_get (c_sl c) b = Some h -> b mod 4096 <> 0 ->
  c_sl c' = slab_remove (c_sl c) b -> (forall s, c_vlen c' s = c_vlen c s) -> (forall bm, c_base c' bm = c_base c bm) ->
  SInv c'.
Proof.
  intros c c' b h [Hlen [l [Hch [Hnd Hl]]] Hres Hbm Hbase Hvp] Hg Hb Hs Hv Hba.
  apply slab_get_some in Hg. destruct Hg as [Hr Ho].
  assert (Hreg : forall bm, creg c' bm = creg c bm) by (intro; unfold creg; rewrite Hv; reflexivity).
  assert (Hnb : ~ In b l).
  { intro P. apply (proj1 (Hl b)) in P. destruct P as [_ [n P]]. congruence. }
  constructor; rewrite ?Hs; cbn [slab_remove sent slen snext].
  - auto.
  - exists (b :: l). split; [|split].
    + simpl. split; auto. exists (snext (c_sl c)). rewrite updZ_same. split; auto.
      apply chain_ext with (se := sent (c_sl c)); [|exact Hch].
      intros k Hk. apply updZ_other. intro; subst; auto.
    + constructor; auto.
    + intros k. simpl. split.
      * intros [<-|P]; [rewrite updZ_same; eauto|].
        rewrite updZ_other by (intro; subst; auto). apply (proj1 (Hl k)); auto.
      * intros [Hk [n P]]. destruct (Z.eq_dec k b) as [->|Hn]; auto.
        rewrite updZ_other in P by auto. right. apply (proj2 (Hl k)); eauto.
  - intros k Hk. destruct (Z.eq_dec k b) as [->|Hn].
    + rewrite updZ_same. split; [intro; contradiction|discriminate].
    + rewrite updZ_other by auto. auto.
  - intros. rewrite Hv. auto.
  - intros bm Hrg. rewrite Hreg in Hrg. rewrite Hba. auto.
  - intros. rewrite Hv. auto.
Qed.

(** an occupied non-reserved entry does not hold the reserved handler *)
Lemma occ_not_reserved : forall c b h, SInv c -> slab_get (c_sl c) b = Some h -> b mod 4096 <> 0 -> h <> HReserved.
Proof.
  intros c b h S Hg Hb E. subst. apply slab_get_some in Hg. destruct Hg as [Hr Ho].
  apply (s_res c S) in Ho; auto.
Qed.

Ltac zl := repeat match goal with x := _ : cst |- _ => clearbody x end; lia.

(** ** [slab.insert] *)
Lemma slab_insert_cases : forall c h, SInv c ->
  let s := c_sl c in
  (snext s = slen s /\ (forall k, 0 <= k < slen s -> exists h', sent s k = SOcc h') /\
   slab_insert s h = (slen s, mkSlab (updZ (sent s) (slen s) (SOcc h)) (slen s + 1) (slen s + 1)))
  \/ (exists n l', 0 <= snext s < slen s /\ sent s (snext s) = SVac n /\
        chain (sent s) n l' (slen s) /\ NoDup (snext s :: l') /\
        (forall k, In k (snext s :: l') <-> (0 <= k < slen s /\ exists m, sent s k = SVac m)) /\
        slab_insert s h = (snext s, mkSlab (updZ (sent s) (snext s) (SOcc h)) (slen s) n)).
Proof.
  intros c h [Hlen [l [Hch [Hnd Hl]]] Hres Hbm Hbase Hvp]. cbn zeta.
  destruct l as [|k l'].
  - left. simpl in Hch. split; auto. split.
    + intros k Hk. destruct (sent (c_sl c) k) as [h'|m] eqn:E; eauto.
      exfalso. apply (proj2 (Hl k)); eauto.
    + unfold slab_insert. rewrite Hch, Z.eqb_refl. reflexivity.
  - right. simpl in Hch. destruct Hch as [Hk [n [Hn Hc]]].
    assert (Hin : In k (k :: l')) by (left; auto). apply Hl in Hin. destruct Hin as [Hr _].
    exists n, l'. rewrite Hk. split; [lia|]. split; [auto|]. split; [auto|]. split; [auto|]. split; [exact Hl|].
    unfold slab_insert. rewrite Hk. destruct (Z.eqb_spec k (slen (c_sl c))); [lia|]. rewrite Hn. reflexivity.
Qed.

Lemma slab_get_upd_len : forall se ln nx k v x,
  slab_get (mkSlab (updZ se k v) ln nx) x =
  if (0 <=? x) && (x <? ln) then (if x =? k then match v with SOcc h => Some h | SVac _ => None end
                                   else match se x with SOcc h => Some h | SVac _ => None end) else None.
Proof. intros. unfold slab_get, updZ. simpl. destruct ((0 <=? x) && (x <? ln)); auto. destruct (x =? k); auto. Qed.

(** the arithmetic of one range of 4096 keys *)
Lemma range_of_slot : forall bit, 0 <= bit -> bit / 4096 = (bit / 4096) mod 64 + 64 * (bit / 262144).
Proof. intros. lia. Qed.

Lemma creg_iff : forall c bm, SInv c -> (creg c bm = true <-> 0 <= bm /\ 4096 * bm < slen (c_sl c)).
Proof.
  intros c bm S. unfold creg. rewrite usize_bits. rewrite andb_true_iff, Z.leb_le, Z.ltb_lt.
  split.
  - intros [H0 H1]. split; auto.
    assert (H2 : 4096 * (bm mod 64 + 64 * (bm / 64)) < slen (c_sl c)) by (apply (s_bm c S); lia).
    replace (bm mod 64 + 64 * (bm / 64)) with bm in H2 by lia. exact H2.
  - intros [H0 H1]. split; auto.
    apply (s_bm c S (bm mod 64) (bm / 64)); lia.
Qed.

(** ** [WakeHandlers::add]: the re-homing loop *)
Lemma add_loop_plain : forall f s h L,
  0 <= L -> L mod 4096 <> 0 ->
  add_loop f s h L = if 4294967296 <=? L then None else Some (L, 4096 * (L / 4096), s).
Proof.
  intros f s h L H0 Hm. destruct f; cbn [add_loop]; destruct (Z.leb_spec 4294967296 L); auto;
    rewrite waker_base_spec by lia; destruct (Z.eqb_spec (4096 * (L / 4096)) L); auto; lia.
Qed.

Lemma add_loop_reserved : forall f s h L,
  0 <= L -> L mod 4096 = 0 -> snext s = L + 1 -> slen s = L + 1 ->
  add_loop (S f) s h L =
  if 4294967296 <=? L + 1 then None
  else Some (L + 1, L, mkSlab (updZ (updZ (sent s) L (SOcc HReserved)) (L + 1) (SOcc h)) (L + 2) (L + 2)).
Proof.
  intros f s h L H0 Hm Hn Hl. cbn [add_loop].
  destruct (Z.leb_spec 4294967296 L).
  - destruct (Z.leb_spec 4294967296 (L + 1)); auto; lia.
  - rewrite waker_base_spec by lia. destruct (Z.eqb_spec (4096 * (L / 4096)) L); [|lia].
    unfold slab_insert, slab_set. cbn [snext slen sent]. rewrite Hn, Hl, Z.eqb_refl.
    rewrite add_loop_plain by lia.
    replace (L + 1 + 1) with (L + 2) by lia.
    destruct (Z.leb_spec 4294967296 (L + 1)); auto.
    f_equal. f_equal. f_equal. lia.
Qed.

Lemma push_bms_0 : forall len slot base bb, push_bms 0 len slot base bb = bb.
Proof. reflexivity. Qed.
Lemma push_bms_1 : forall len slot base bb, push_bms 1 len slot base bb = updZ bb (slot + USIZE_BITS * len) base.
Proof. reflexivity. Qed.

(** what [add] guarantees *)
Record add_post (c c' : cst) (h : hkind) (wi : winfo) : Prop := {
  ap_bit : 0 <= wbit wi < 4294967296 /\ wbit wi mod 4096 <> 0;
  ap_bm : wbm wi = wbit wi / 4096;
  ap_get : slab_get (c_sl c') (wbit wi) = Some h;
  ap_fresh : slab_get (c_sl c) (wbit wi) = None;
  ap_old : forall x h', slab_get (c_sl c) x = Some h' -> slab_get (c_sl c') x = Some h';
  ap_new : forall x h', slab_get (c_sl c') x = Some h' ->
           slab_get (c_sl c) x = Some h' \/ (x = wbit wi /\ h' = h) \/ h' = HReserved;
  ap_len : slen (c_sl c) <= slen (c_sl c');
  ap_inv : SInv c' }.

(** the bitmap part of [SInv] when the range of the new key already has its bitmap *)
Lemma bitmaps_same : forall c c' bit,
  SInv c -> 0 <= bit -> 4096 * (bit / 4096) < slen (c_sl c) ->
  (forall r, 4096 * r < slen (c_sl c') <-> 4096 * r < slen (c_sl c)) ->
  (forall s, c_vlen c' s = updZ (c_vlen c) ((bit / 4096) mod 64) (Z.max (c_vlen c ((bit / 4096) mod 64)) (bit / 262144 + 1)) s) ->
  (forall bm, c_base c' bm = push_bms (Z.to_nat (bit / 262144 + 1 - c_vlen c ((bit / 4096) mod 64)))
                                        (c_vlen c ((bit / 4096) mod 64)) ((bit / 4096) mod 64) (4096 * (bit / 4096)) (c_base c) bm) ->
  (forall s, c_vlen c' s = c_vlen c s) /\ (forall bm, c_base c' bm = c_base c bm).
Proof.
  intros c c' bit S Hb Hr Hlen Hv Hba.
  set (slot := (bit / 4096) mod 64) in *. set (vi := bit / 262144) in *.
  assert (Hvi : vi < c_vlen c slot).
  { apply (s_bm c S slot vi); unfold slot, vi; lia. }
  split.
  - intro s. rewrite Hv. unfold updZ. destruct (Z.eqb_spec s slot); subst; auto. lia.
  - intro bm. rewrite Hba. replace (Z.to_nat (vi + 1 - c_vlen c slot)) with O by lia. reflexivity.
Qed.

Lemma SInv_bitmaps_ext : forall c c',
  SInv c ->
  (forall r, 4096 * r < slen (c_sl c') <-> 4096 * r < slen (c_sl c)) ->
  (forall s, c_vlen c' s = c_vlen c s) -> (forall bm, c_base c' bm = c_base c bm) ->
  (forall s vi, 0 <= s < 64 -> 0 <= vi -> (vi < c_vlen c' s <-> 4096 * (s + 64 * vi) < slen (c_sl c'))) /\
  (forall bm, creg c' bm = true -> c_base c' bm = 4096 * bm) /\ (forall s, 0 <= c_vlen c' s).
Proof.
  intros c c' S Hlen Hv Hb.
  assert (Hreg : forall bm, creg c' bm = creg c bm) by (intro; unfold creg; rewrite Hv; reflexivity).
  split; [|split].
  - intros. rewrite Hv, Hlen. apply (s_bm c S); auto.
  - intros bm Hr. rewrite Hreg in Hr. rewrite Hb. apply (s_base c S); auto.
  - intros. rewrite Hv. apply (s_vpos c S).
Qed.

Lemma c_add_spec : forall c h c' wi,
  SInv c -> h <> HReserved -> c_add c h = Some (c', wi) -> add_post c c' h wi.
Proof.
  intros c h c' wi S Hh Hadd.
  pose proof S as [Hlen [l0 [Hch0 [Hnd0 Hl0]]] Hres Hbm Hbase Hvp].
  unfold c_add in Hadd.
  destruct (slab_insert_cases c h S) as [[Hn [Hocc Hins]]|[n [l' [Hk [Hvac [Hch [Hnd [Hl Hins]]]]]]]]; rewrite Hins in Hadd.
  - (* free list empty: push at L = slen *)
    set (L := slen (c_sl c)) in *.
    destruct (Z.eq_dec (L mod 4096) 0) as [Hm|Hm].
    + (* L starts a new range: the slot is reserved, the handler goes to L+1 *)
      rewrite add_loop_reserved in Hadd by (cbn [snext slen]; lia).
      destruct (Z.leb_spec 4294967296 (L + 1)) as [|Hlt]; [discriminate|].
      rewrite waker_vec_index_spec, waker_slot_spec in Hadd by lia.
      injection Hadd as Ec Ew; subst c' wi. cbn [wbit wbm sent].
      set (bit := L + 1). set (slot := (bit / 4096) mod 64). set (vi := bit / 262144).
      assert (HR : bit / 4096 = L / 4096) by (unfold bit; lia).
      assert (Hvl : c_vlen c slot = vi).
      { assert (A : ~ vi < c_vlen c slot).
        { intro A. pose proof (proj1 (s_bm c S slot vi ltac:(unfold slot; lia) ltac:(unfold vi, bit; lia)) A) as A'.
          unfold slot, vi, bit in A'. fold L in A'. lia. }
        destruct (Z.eq_dec vi 0) as [E|E].
        - pose proof (Hvp slot). lia.
        - assert (B : vi - 1 < c_vlen c slot).
          { apply (proj2 (s_bm c S slot (vi - 1) ltac:(unfold slot; lia) ltac:(unfold vi, bit in *; lia))).
            unfold slot, vi, bit in *. fold L. lia. }
          lia. }
      constructor; cbn [wbit wbm c_sl].
      * unfold bit. lia.
      * change (slot + 64 * vi = bit / 4096). unfold slot, vi. lia.
      * rewrite slab_get_upd_len. fold bit. rewrite Z.eqb_refl.
        replace ((0 <=? bit) && (bit <? L + 2)) with true by (symmetry; apply andb_true_iff; rewrite Z.leb_le, Z.ltb_lt; unfold bit; lia).
        reflexivity.
      * unfold slab_get. fold L. fold bit. replace (bit <? L) with false by (symmetry; apply Z.ltb_ge; unfold bit; lia).
        rewrite andb_false_r. reflexivity.
      * intros x h' Hg. apply slab_get_some in Hg. destruct Hg as [Hx Ho]. fold L in Hx.
        rewrite slab_get_upd_len.
        replace ((0 <=? x) && (x <? L + 2)) with true by (symmetry; apply andb_true_iff; rewrite Z.leb_le, Z.ltb_lt; lia).
        destruct (Z.eqb_spec x bit); [unfold bit in *; lia|]. cbn [sent]. rewrite !updZ_other by lia. rewrite Ho. reflexivity.
      * intros x h' Hg. rewrite slab_get_upd_len in Hg.
        destruct ((0 <=? x) && (x <? L + 2)) eqn:Er; [|discriminate].
        apply andb_true_iff in Er. rewrite Z.leb_le, Z.ltb_lt in Er.
        destruct (Z.eqb_spec x bit) as [->|Hne].
        -- inversion Hg; subst. right; left. auto.
        -- unfold bit in Hne. cbn [sent] in Hg. destruct (Z.eq_dec x L) as [->|HnL].
           ++ rewrite updZ_same in Hg. inversion Hg. auto.
           ++ rewrite !updZ_other in Hg by lia. left. unfold slab_get. fold L.
              replace ((0 <=? x) && (x <? L)) with true by (symmetry; apply andb_true_iff; rewrite Z.leb_le, Z.ltb_lt; lia).
              exact Hg.
      * cbn [slen]. fold L. lia.
      * (* SInv *)
        constructor; cbn [c_sl c_vlen c_base slen snext sent].
        -- fold L. lia.
        -- exists []. split; [reflexivity|]. split; [constructor|].
           intro k. split; [intros []|]. intros [Hk [m Hv]].
           destruct (Z.eq_dec k (L + 1)) as [->|]; [rewrite updZ_same in Hv; discriminate|].
           rewrite updZ_other in Hv by auto.
           destruct (Z.eq_dec k L) as [->|]; [rewrite updZ_same in Hv; discriminate|].
           rewrite !updZ_other in Hv by auto.
           destruct (Hocc k) as [h' Ho]; [fold L; lia|]. congruence.
        -- intros k Hk. destruct (Z.eq_dec k (L + 1)) as [->|].
           { rewrite updZ_same. split; [intro; lia|]. intro E. inversion E. congruence. }
           rewrite updZ_other by auto.
           destruct (Z.eq_dec k L) as [->|]; [rewrite updZ_same; tauto|].
           rewrite !updZ_other by auto. apply Hres. fold L. lia.
        -- intros s vi' Hs Hvi'. fold bit slot vi. rewrite Hvl.
           replace (Z.max vi (vi + 1)) with (vi + 1) by lia.
           unfold updZ. destruct (Z.eqb_spec s slot) as [->|Hns].
           ++ unfold slot, vi, bit in *. fold L. lia.
           ++ rewrite (s_bm c S s vi' Hs Hvi'). fold L.
              assert (s + 64 * vi' <> L / 4096).
              { intro E. apply Hns. unfold slot. rewrite HR, <- E. lia. }
              lia.
        -- intros bm Hr. fold bit slot vi in Hr |- *. rewrite Hvl in Hr |- *.
           replace (Z.to_nat (vi + 1 - vi)) with 1%nat by lia. rewrite push_bms_1, ?usize_bits.
           unfold creg in Hr. cbn [c_vlen] in Hr. rewrite ?usize_bits in Hr.
           apply andb_true_iff in Hr. rewrite Z.leb_le, Z.ltb_lt in Hr. destruct Hr as [Hr0 Hr1].
           replace (Z.max vi (vi + 1)) with (vi + 1) in Hr1 by lia.
           unfold updZ in *. destruct (Z.eqb_spec bm (slot + 64 * vi)) as [->|Hne].
           ++ unfold slot, vi, bit. lia.
           ++ apply Hbase. unfold creg. rewrite ?usize_bits. apply andb_true_iff. rewrite Z.leb_le, Z.ltb_lt. split; auto.
              destruct (Z.eqb_spec (bm mod 64) slot) as [E|E]; auto.
              assert (bm / 64 <> vi) by (intro; apply Hne; lia). rewrite E, Hvl. lia.
        -- intro s. fold bit slot vi. unfold updZ. destruct (Z.eqb_spec s slot); [|apply Hvp]. pose proof (Hvp slot). lia.
    + (* ordinary push *)
      rewrite add_loop_plain in Hadd by (unfold L; zl).
      destruct (Z.leb_spec 4294967296 L) as [|Hlt]; [discriminate|].
      rewrite waker_vec_index_spec, waker_slot_spec in Hadd by (unfold L; zl).
      injection Hadd as Ec Ew; subst c' wi. cbn [wbit wbm sent].
      assert (HL0 : 0 <= L) by (unfold L; zl).
      set (c1 := mkC (c_top c) (c_summ c) (c_leaf c) (mkSlab (updZ (sent (c_sl c)) L (SOcc h)) (L + 1) (L + 1))
                     (updZ (c_vlen c) ((L / 4096) mod 64) (Z.max (c_vlen c ((L / 4096) mod 64)) (L / 262144 + 1)))
                     (push_bms (Z.to_nat (L / 262144 + 1 - c_vlen c ((L / 4096) mod 64))) (c_vlen c ((L / 4096) mod 64))
                               ((L / 4096) mod 64) (4096 * (L / 4096)) (c_base c))
                     (c_notif c) (c_new c) (c_col c) (c_cont c) (c_acc c) (c_final c)).
      assert (Hsame : (forall s, c_vlen c1 s = c_vlen c s) /\ (forall bm, c_base c1 bm = c_base c bm)).
      { apply (bitmaps_same c c1 L);
          [exact S | zl | fold L; zl | intro r; cbn [c1 c_sl slen]; fold L; zl
           | reflexivity | reflexivity]. }
      destruct Hsame as [Hsv Hsb].
      constructor; cbn [wbit wbm c_sl].
      * zl.
      * change ((L / 4096) mod 64 + 64 * (L / 262144) = L / 4096). zl.
      * rewrite slab_get_upd_len. rewrite Z.eqb_refl.
        replace ((0 <=? L) && (L <? L + 1)) with true by (symmetry; apply andb_true_iff; rewrite Z.leb_le, Z.ltb_lt; zl).
        reflexivity.
      * unfold slab_get. fold L. rewrite Z.ltb_irrefl, andb_false_r. reflexivity.
      * intros x h' Hg. apply slab_get_some in Hg. destruct Hg as [Hx Ho]. fold L in Hx.
        rewrite slab_get_upd_len.
        replace ((0 <=? x) && (x <? L + 1)) with true by (symmetry; apply andb_true_iff; rewrite Z.leb_le, Z.ltb_lt; zl).
        destruct (Z.eqb_spec x L); [zl|]. rewrite Ho. reflexivity.
      * intros x h' Hg. rewrite slab_get_upd_len in Hg.
        destruct ((0 <=? x) && (x <? L + 1)) eqn:Er; [|discriminate].
        apply andb_true_iff in Er. rewrite Z.leb_le, Z.ltb_lt in Er.
        destruct (Z.eqb_spec x L) as [->|Hne].
        -- inversion Hg; subst. right; left. auto.
        -- left. unfold slab_get. fold L.
           replace ((0 <=? x) && (x <? L)) with true by (symmetry; apply andb_true_iff; rewrite Z.leb_le, Z.ltb_lt; zl).
           exact Hg.
      * cbn [slen]. fold L. zl.
      * change (SInv c1).
        destruct (SInv_bitmaps_ext c c1 S) as [B1 [B2 B3]]; auto.
        { intro r. cbn [c1 c_sl slen]. fold L. zl. }
        constructor; auto; cbn [c1 c_sl slen snext sent].
        -- zl.
        -- exists []. split; [reflexivity|]. split; [constructor|].
           intro k. split; [intros []|]. intros [Hk [m Hv]].
           destruct (Z.eq_dec k L) as [->|]; [rewrite updZ_same in Hv; discriminate|].
           rewrite updZ_other in Hv by auto.
           destruct (Hocc k) as [h' Ho]; [fold L; zl|]. congruence.
        -- intros k Hk. destruct (Z.eq_dec k L) as [->|].
           { rewrite updZ_same. split; [intro; zl|]. intro E. inversion E. congruence. }
           rewrite updZ_other by auto. apply Hres. fold L. zl.
  - (* reuse the head of the free list *)
    set (k := snext (c_sl c)) in *. set (L := slen (c_sl c)) in *.
    assert (Hkm : k mod 4096 <> 0).
    { intro E. apply (Hres k) in E; [|fold L; zl]. congruence. }
    rewrite add_loop_plain in Hadd by zl.
    destruct (Z.leb_spec 4294967296 k) as [|Hlt]; [zl|].
    rewrite waker_vec_index_spec, waker_slot_spec in Hadd by zl.
    injection Hadd as Ec Ew; subst c' wi. cbn [wbit wbm sent].
    set (c1 := mkC (c_top c) (c_summ c) (c_leaf c) (mkSlab (updZ (sent (c_sl c)) k (SOcc h)) L n)
                   (updZ (c_vlen c) ((k / 4096) mod 64) (Z.max (c_vlen c ((k / 4096) mod 64)) (k / 262144 + 1)))
                   (push_bms (Z.to_nat (k / 262144 + 1 - c_vlen c ((k / 4096) mod 64))) (c_vlen c ((k / 4096) mod 64))
                             ((k / 4096) mod 64) (4096 * (k / 4096)) (c_base c))
                   (c_notif c) (c_new c) (c_col c) (c_cont c) (c_acc c) (c_final c)).
    assert (Hsame : (forall s, c_vlen c1 s = c_vlen c s) /\ (forall bm, c_base c1 bm = c_base c bm)).
    { apply (bitmaps_same c c1 k);
        [exact S | zl | fold L; zl | intro r; cbn [c1 c_sl slen]; fold L; zl
         | reflexivity | reflexivity]. }
    destruct Hsame as [Hsv Hsb].
    constructor; cbn [wbit wbm c_sl].
    * zl.
    * change ((k / 4096) mod 64 + 64 * (k / 262144) = k / 4096). zl.
    * rewrite slab_get_upd_len. rewrite Z.eqb_refl.
      replace ((0 <=? k) && (k <? L)) with true by (symmetry; apply andb_true_iff; rewrite Z.leb_le, Z.ltb_lt; zl).
      reflexivity.
    * unfold slab_get. fold L. rewrite Hvac. destruct ((0 <=? k) && (k <? L)); reflexivity.
    * intros x h' Hg. apply slab_get_some in Hg. destruct Hg as [Hx Ho]. fold L in Hx.
      rewrite slab_get_upd_len.
      replace ((0 <=? x) && (x <? L)) with true by (symmetry; apply andb_true_iff; rewrite Z.leb_le, Z.ltb_lt; zl).
      destruct (Z.eqb_spec x k) as [->|]; [congruence|]. rewrite Ho. reflexivity.
    * intros x h' Hg. rewrite slab_get_upd_len in Hg.
      destruct ((0 <=? x) && (x <? L)) eqn:Er; [|discriminate].
      destruct (Z.eqb_spec x k) as [->|Hne].
      -- inversion Hg; subst. right; left. auto.
      -- left. unfold slab_get. fold L. rewrite Er. exact Hg.
    * cbn [slen]. fold L. zl.
    * change (SInv c1).
      destruct (SInv_bitmaps_ext c c1 S) as [B1 [B2 B3]]; auto.
      { intro r. cbn [c1 c_sl slen]. fold L. zl. }
      constructor; auto; cbn [c1 c_sl slen snext sent].
      -- exists l'. inversion Hnd; subst. split; [|split; auto].
         ++ apply chain_ext with (se := sent (c_sl c)); auto.
            intros x Hx. apply updZ_other. intro; subst; auto.
         ++ intro x. split.
            ** intro Hx. assert (Hx' : In x (k :: l')) by (right; auto). apply Hl in Hx'.
               destruct Hx' as [Hr [m Hm]]. split; auto. exists m. rewrite updZ_other; auto. intro; subst; auto.
            ** intros [Hr [m Hm]]. destruct (Z.eq_dec x k) as [->|Hne]; [rewrite updZ_same in Hm; discriminate|].
               rewrite updZ_other in Hm by auto.
               assert (Hx' : In x (k :: l')) by (apply Hl; eauto). destruct Hx'; [congruence|auto].
      -- intros x Hx. destruct (Z.eq_dec x k) as [->|].
         { rewrite updZ_same. split; [intro; zl|]. intro E. inversion E. congruence. }
         rewrite updZ_other by auto. apply Hres. fold L. zl.
Qed.
