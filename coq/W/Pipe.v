(** * Layer W: the piped thread (C14).

    Part 1, [RvInv] - a blocked [recv] is never left sleeping: a worker that waits on the condition variable
    (it found the send queue empty and no cancellation, under the mutex, and released the mutex atomically with
    starting to wait) either still has nothing to receive, or a [notify] for it is about to be executed.
    Part 2, [PqInv] - no reply is stranded: a non-empty reply queue has a wake-up owed to the pipe's handler, or the
    worker is about to execute the leaf [fetch_or] of the pipe's slot (which still holds the pipe's handler: the
    worker's own Waker is dropped only in its exit sequence). *)
From Coq Require Import ZArith List Bool Arith Lia.
From Stk Require Import Lib.U Gen.SrcWaker W.Waker W.WakerArith W.WakerCore W.WakerSlab W.WakerPres W.WakerRefine
  W.WakerProofs W.WakerGhost W.WakerLock W.WakerDrop W.WakerSlot W.WakerWf W.Chan.
Import ListNotations.
Local Open Scope Z_scope.

(** ** Part 1: blocked recv *)
Definition navail (st : wstate) (p : Z) : Prop := psendq (pps st p) = [] /\ pcancel (pps st p) = false.

(** every [Condvar::wait] in a continuation was decided under the mutex with nothing available, and is followed
    by the re-acquisition and re-check *)
Fixpoint wok (P : Z -> Prop) (k : list instr) : Prop :=
  match k with
  | [] => True
  | ICvWait p :: r0 => P p /\ (exists r1, r0 = ICvReacq p :: r1) /\ wok P r0
  | _ :: r0 => wok P r0
  end.

Record RvInv (st : wstate) : Prop := {
  rv_pre : forall t, wok (navail st) (tcont (thr st t));
  rv_wait : forall t p r0, tcont (thr st t) = ICvReacq p :: r0 -> twaiting (thr st t) = true ->
            navail st p \/ exists u, In (INotify p) (tcont (thr st u));
  rv_hd : forall t, twaiting (thr st t) = true -> exists p r0, tcont (thr st t) = ICvReacq p :: r0 }.

Lemma wok_app_r : forall P a b, wok P (a ++ b) -> wok P b.
Proof.
  induction a as [|i a IH]; intros b H; [exact H|]. cbn [app] in H. destruct i; cbn [wok] in H; try (apply IH; exact H).
  destruct H as [_ [_ H]]. apply IH. exact H.
Qed.
Lemma wok_app_nw : forall P a b, (forall p, ~ In (ICvWait p) a) -> wok P b -> wok P (a ++ b).
Proof.
  induction a as [|i a IH]; intros b Hn H; [exact H|]. cbn [app].
  assert (Hn' : forall p, ~ In (ICvWait p) a) by (intros p Hp; apply (Hn p); right; exact Hp).
  destruct i; cbn [wok]; try (apply IH; auto). exfalso. apply (Hn p). left. reflexivity.
Qed.
Lemma wok_change : forall (P P' : Z -> Prop) k, wok P k -> (forall p, In (ICvWait p) k -> P p -> P' p) -> wok P' k.
Proof.
  induction k as [|i k IH]; intros H Hc; [exact Logic.I|].
  assert (Hc' : forall p, In (ICvWait p) k -> P p -> P' p) by (intros p Hp; apply Hc; right; exact Hp).
  destruct i; cbn [wok] in *; try (apply IH; auto).
  destruct H as [A [B D]]. split; [apply Hc; [left; reflexivity|exact A]|]. split; [exact B|]. apply IH; auto.
Qed.
Lemma in_cvwait_nhold : forall k p, In (ICvWait p) k -> (0 < nhold k (MPq p))%nat.
Proof.
  induction k as [|i k IH]; intros p Hin; [destruct Hin|]. rewrite nhold_cons. destruct Hin as [->|Hin].
  - cbn [holdb]. rewrite mtx_eqb_refl. lia.
  - specialize (IH _ Hin). lia.
Qed.

Section RvStep.
  Variables (st st' : wstate) (t : tid) (pre r new : list instr) (chg : Z -> bool).
  Hypothesis R : RvInv st.
  Hypothesis Hc : tcont (thr st t) = pre ++ r.
  Hypothesis Hc' : tcont (thr st' t) = new ++ r.
  Hypothesis Ho : forall u, u <> t -> tcont (thr st' u) = tcont (thr st u) /\
                                     (twaiting (thr st' u) = true -> twaiting (thr st u) = true).
  Hypothesis Hwt : twaiting (thr st' t) = false.
  Hypothesis Hpp : forall p, chg p = false ->
     psendq (pps st' p) = psendq (pps st p) /\ pcancel (pps st' p) = pcancel (pps st p).
  Hypothesis Hlock : forall p, chg p = true ->
     navail st' p \/ ((forall u, u <> t -> ~ In (ICvWait p) (tcont (thr st u))) /\ ~ In (ICvWait p) r).
  Hypothesis Hnew : wok (navail st') r -> wok (navail st') (new ++ r).
  Hypothesis Hnot : forall p, In (INotify p) pre ->
     forall u r0, u <> t -> tcont (thr st u) = ICvReacq p :: r0 -> twaiting (thr st' u) = false.
  Hypothesis Hq : forall p, chg p = true -> navail st p -> navail st' p \/ In (INotify p) new.

  Lemma navail_same : forall p, chg p = false -> navail st p -> navail st' p.
  Proof. intros p E [A B]. destruct (Hpp p E) as [X Y]. split; congruence. Qed.

  Lemma rv_step : RvInv st'.
  Proof.
    constructor.
    - intro u. destruct (Nat.eq_dec u t) as [->|Hu].
      + rewrite Hc'. apply Hnew. pose proof (rv_pre st R t) as W. rewrite Hc in W. apply wok_app_r in W.
        apply (wok_change (navail st)); auto. intros p Hin Hp. destruct (chg p) eqn:E.
        * destruct (Hlock p E) as [X|X]; [exact X|exfalso; exact (proj2 X Hin)].
        * apply navail_same; auto.
      + destruct (Ho u Hu) as [E _]. rewrite E. apply (wok_change (navail st)); [apply (rv_pre st R u)|].
        intros p Hin Hp. destruct (chg p) eqn:Eg.
        * destruct (Hlock p Eg) as [X|X]; [exact X|exfalso; exact (proj1 X u Hu Hin)].
        * apply navail_same; auto.
    - intros u p r0 Hh Hw. destruct (Nat.eq_dec u t) as [->|Hu]; [congruence|].
      destruct (Ho u Hu) as [E Ew]. rewrite E in Hh.
      destruct (rv_wait st R u p r0 Hh (Ew Hw)) as [A|[v Hin]].
      + destruct (chg p) eqn:Eg.
        * destruct (Hq p Eg A) as [B|B]; [left; exact B|]. right. exists t. rewrite Hc'. apply in_or_app. auto.
        * left. apply navail_same; auto.
      + destruct (Nat.eq_dec v t) as [->|Hv].
        * rewrite Hc in Hin. apply in_app_or in Hin. destruct Hin as [Hin|Hin].
          -- rewrite (Hnot p Hin u r0 Hu Hh) in Hw. discriminate.
          -- right. exists t. rewrite Hc'. apply in_or_app. auto.
        * right. exists v. destruct (Ho v Hv) as [Ev _]. rewrite Ev. exact Hin.
    - intros u Hw. destruct (Nat.eq_dec u t) as [->|Hu]; [congruence|].
      destruct (Ho u Hu) as [E Ew]. rewrite E. apply (rv_hd st R u). auto.
  Qed.
End RvStep.

Lemma rv_eq : forall st st',
  (forall u, tcont (thr st' u) = tcont (thr st u) /\ (twaiting (thr st' u) = true -> twaiting (thr st u) = true)) ->
  pps st' = pps st -> RvInv st -> RvInv st'.
Proof.
  intros st st' Hc Hp R.
  assert (N : forall p, navail st' p <-> navail st p) by (intro p; unfold navail; rewrite Hp; tauto).
  constructor.
  - intro u. destruct (Hc u) as [E _]. rewrite E. apply (wok_change (navail st)); [apply (rv_pre st R u)|].
    intros p _ Hn. apply N. exact Hn.
  - intros u p r0. destruct (Hc u) as [E1 E2]. rewrite E1. intros A B.
    destruct (rv_wait st R u p r0 A (E2 B)) as [X|[v X]]; [left; apply N; exact X|]. right. exists v.
    destruct (Hc v) as [E3 _]. rewrite E3. exact X.
  - intros u B. destruct (Hc u) as [E1 E2]. rewrite E1. apply (rv_hd st R u). auto.
Qed.

(** thread [t] replaces its continuation [k] by [k1] (normalisation) *)
Lemma rv_replace : forall st st' t k1,
  RvInv st -> tcont (thr st' t) = k1 ->
  (forall u, u <> t -> tcont (thr st' u) = tcont (thr st u)) ->
  (forall u, twaiting (thr st' u) = twaiting (thr st u)) -> pps st' = pps st ->
  (forall P, wok P (tcont (thr st t)) -> wok P k1) ->
  (forall p, In (INotify p) (tcont (thr st t)) -> In (INotify p) k1) ->
  (forall p r0, tcont (thr st t) = ICvReacq p :: r0 -> k1 = tcont (thr st t)) ->
  RvInv st'.
Proof.
  intros st st' t k1 R Hc' Ho Hw Hp Hwok Hnot Hid.
  assert (N : forall p, navail st' p <-> navail st p) by (intro p; unfold navail; rewrite Hp; tauto).
  assert (Wit : forall p, (exists u, In (INotify p) (tcont (thr st u))) -> exists u, In (INotify p) (tcont (thr st' u))).
  { intros p [v X]. exists v. destruct (Nat.eq_dec v t) as [->|Hv]; [rewrite Hc'; apply Hnot; exact X|rewrite (Ho v Hv); exact X]. }
  assert (Same : forall u, twaiting (thr st u) = true -> tcont (thr st' u) = tcont (thr st u)).
  { intros u Hu. destruct (Nat.eq_dec u t) as [->|Hn]; [|apply Ho; auto].
    destruct (rv_hd st R t Hu) as [p [r0 E]]. rewrite Hc'. eapply Hid; eauto. }
  constructor.
  - intro u. apply (wok_change (navail st)); [|intros p _ Hn; apply N; exact Hn].
    destruct (Nat.eq_dec u t) as [->|Hu]; [rewrite Hc'; apply Hwok|rewrite (Ho u Hu)]; apply (rv_pre st R).
  - intros u p r0 A B. rewrite Hw in B. rewrite (Same u B) in A.
    destruct (rv_wait st R u p r0 A B) as [X|X]; [left; apply N; exact X|right; apply Wit; exact X].
  - intros u B. rewrite Hw in B. rewrite (Same u B). apply (rv_hd st R u B).
Qed.

Ltac rv_nw := let p0 := fresh "p0" in let Hj := fresh "Hj" in
  intros p0 Hj; cbn in Hj; repeat (destruct Hj as [Hj|Hj]); try discriminate Hj; try contradiction.
Ltac rv_new := let W := fresh "W" in intro W; apply wok_app_nw; [rv_nw|exact W].
Ltac rv_ho := let u := fresh "u" in let Hu := fresh "Hu" in
  intros u Hu; split; [thr_simpl|cbn -[Nat.eqb]; unfold updN, th; cbn -[Nat.eqb];
   repeat match goal with |- context [Nat.eqb ?a ?b] => destruct (Nat.eqb_spec a b); [congruence|] end; auto].
Ltac rv_not := let p0 := fresh "p0" in let Hj := fresh "Hj" in
  intros p0 Hj;
  first [ cbn in Hj; repeat (destruct Hj as [Hj|Hj]); try discriminate Hj; try contradiction; fail
        | exfalso; match goal with Hn : forall p, In (INotify p) _ -> False |- _ => exact (Hn _ Hj) end ].
Ltac rv_pps := intros ? _; cbn; unfold updZ;
  repeat match goal with |- context [?a =? ?b] => destruct (Z.eqb_spec a b); subst end; cbn; split; reflexivity.
Ltac rvn st t pre r new :=
  apply (rv_step st _ t pre r new (fun _ => false));
  [ assumption | eassumption | thr_simpl | rv_ho | thr_simpl | rv_pps | intros; discriminate | rv_new | rv_not
  | intros; discriminate ].

Lemma exec_lact_Rv : forall st t hd a r st' ev,
  RvInv st -> tcont (thr st t) = [hd] ++ r -> (forall p, hd <> INotify p) ->
  (forall u, u <> t -> nhold (tcont (thr st u)) (lact_mtx a) = O) -> nhold r (lact_mtx a) = O ->
  twaiting (thr st t) = false ->
  exec_lact st t a r = (st', ev) -> RvInv st'.
Proof.
  intros st t hd a r st' ev R Hc Hhd Hfree Hr Hw H.
  assert (Lk : forall p, lact_mtx a = MPq p ->
               (forall u, u <> t -> ~ In (ICvWait p) (tcont (thr st u))) /\ ~ In (ICvWait p) r).
  { intros p E. rewrite E in *. split.
    - intros u Hu Hin. apply in_cvwait_nhold in Hin. rewrite (Hfree u Hu) in Hin. lia.
    - intro Hin. apply in_cvwait_nhold in Hin. lia. }
  assert (Hn : forall p, In (INotify p) [hd] -> False) by (intros p [E|[]]; eapply Hhd; eauto).
  destruct a; cbn [exec_lact] in H.
  - destruct (climb_reserved st bm) as [i|] eqn:Ecl; inversion H; subst; clear H.
    + apply climb_at_climb in Ecl. destruct Ecl as [k ->]. rvn st t [hd] r [IClimb k; IUnlock MDL UNone].
    + rvn st t [hd] r [IUnlock MDL UNone].
  - unfold ghost_handler in H. inversion H; subst; clear H.
    rvn st t [hd] r [IUnlock MDL (UDels (dl st))].
  - inversion H; subst; clear H. rvn st t [hd] r [IUnlock (MCh c) (UChReg c)].
  - destr_all H; repeat match goal with E : climb_start _ _ _ = Some _ |- _ => apply climb_at_climb in E; destruct E as [? ->] end;
      inversion H; subst; clear H.
    + rvn st t [hd] r [IClimb x; IUnlock (MCh c) (UChPush c m)].
    + rvn st t [hd] r [IUnlock (MCh c) (UChPush c m)].
    + rvn st t [hd] r [IUnlock (MCh c) (UChPush c m)].
    + rvn st t [hd] r [IUnlock (MCh c) (URet (RBool false))].
  - inversion H; subst; clear H. rvn st t [hd] r [IUnlock (MCh c) (URet (RBool (negb (copen (chs st c)))))].
  - destruct (copen (chs st c)); inversion H; subst; clear H.
    + rvn st t [hd] r [ILock MDL (LPush (wbit (cw (chs st c))) (wbm (cw (chs st c))) (HChan c)); IUnlock (MCh c) (UChClear c)].
    + rvn st t [hd] r [IUnlock (MCh c) (UChClear c)].
  - unfold ghost_handler in H. inversion H; subst; clear H.
    destruct del; rvn st t [hd] r [IUnlock (MCh c) (UFwd c (if copen (chs st c) then cq (chs st c) else []))].
  - unfold ghost_handler in H. inversion H; subst; clear H.
    destruct del; [rvn st t [hd] r [IUnlock (MPq p) (UPqFwd p (precvq (pps st p)) (Some (ppanic (pps st p))))]
                  |rvn st t [hd] r [IUnlock (MPq p) (UPqFwd p (precvq (pps st p)) None)]].
  - (* LPqSend *)
    destruct (Lk p eq_refl) as [Lk1 Lk2].
    destruct (psendq (pps st p)) eqn:Eq; inversion H; subst; clear H.
    + match goal with |- RvInv ?S' => set (st' := S') end.
      apply (rv_step st st' t [hd] r [IUnlock (MPq p) UNone; INotify p] (fun p0 => p0 =? p) R Hc).
      * unfold st'. thr_simpl.
      * unfold st'. rv_ho.
      * unfold st'. thr_simpl.
      * intros p0 E. unfold st'. cbn. unfold updZ. rewrite E. split; reflexivity.
      * intros p0 E. apply Z.eqb_eq in E. subst p0. right. auto.
      * rv_new.
      * rv_not.
      * intros p0 E _. apply Z.eqb_eq in E. subst p0. right. right; left. reflexivity.
    + match goal with |- RvInv ?S' => set (st' := S') end.
      apply (rv_step st st' t [hd] r [IUnlock (MPq p) UNone] (fun p0 => p0 =? p) R Hc).
      * unfold st'. thr_simpl.
      * unfold st'. rv_ho.
      * unfold st'. thr_simpl.
      * intros p0 E. unfold st'. cbn. unfold updZ. rewrite E. split; reflexivity.
      * intros p0 E. apply Z.eqb_eq in E. subst p0. right. auto.
      * rv_new.
      * rv_not.
      * intros p0 E [A _]. apply Z.eqb_eq in E. subst p0. congruence.
  - (* LPqCancelSet *)
    destruct (Lk p eq_refl) as [Lk1 Lk2]. inversion H; subst; clear H.
    match goal with |- RvInv ?S' => set (st' := S') end.
    apply (rv_step st st' t [hd] r [IUnlock (MPq p) UNone; INotify p] (fun p0 => p0 =? p) R Hc).
    + unfold st'. thr_simpl.
    + unfold st'. rv_ho.
    + unfold st'. thr_simpl.
    + intros p0 E. unfold st'. cbn. unfold updZ. rewrite E. split; reflexivity.
    + intros p0 E. apply Z.eqb_eq in E. subst p0. right. auto.
    + rv_new.
    + rv_not.
    + intros p0 E _. apply Z.eqb_eq in E. subst p0. right. right; left. reflexivity.
  - (* LPqRecv *)
    destruct (Lk p eq_refl) as [Lk1 Lk2].
    destruct (pcancel (pps st p)) eqn:Ecn; [inversion H; subst; clear H|].
    { rvn st t [hd] r [IUnlock (MPq p) (URet RNoneV)]. }
    destruct (psendq (pps st p)) eqn:Eq; inversion H; subst; clear H.
    + apply (rv_step st _ t [hd] r [ICvWait p; ICvReacq p] (fun _ => false));
        [ assumption | eassumption | thr_simpl | rv_ho | thr_simpl | rv_pps | intros; discriminate | | | intros; discriminate ].
      * intro W. cbn [app wok]. split; [split; cbn; assumption|]. split; [eexists; reflexivity|exact W].
      * rv_not.
    + match goal with |- RvInv ?S' => set (st' := S') end.
      apply (rv_step st st' t [hd] r [IUnlock (MPq p) (URet (RVal z))] (fun p0 => p0 =? p) R Hc).
      * unfold st'. thr_simpl.
      * unfold st'. rv_ho.
      * unfold st'. thr_simpl.
      * intros p0 E. unfold st'. cbn. unfold updZ. rewrite E. split; reflexivity.
      * intros p0 E. apply Z.eqb_eq in E. subst p0. right. auto.
      * rv_new.
      * rv_not.
      * intros p0 E [A _]. apply Z.eqb_eq in E. subst p0. congruence.
  - inversion H; subst; clear H.
    destruct (precvq (pps st p)).
    + destruct (climb_start st (pw (pps st p)) (Some (HPipe p))) as [i|] eqn:E; cbn [olist app].
      * apply climb_at_climb in E. destruct E as [k ->].
        rvn st t [hd] r [IUnlock (MPq p) (URet (RBool (negb (pcancel (pps st p))))); IClimb k].
      * rvn st t [hd] r [IUnlock (MPq p) (URet (RBool (negb (pcancel (pps st p)))))].
    + rvn st t [hd] r [IUnlock (MPq p) (URet (RBool (negb (pcancel (pps st p)))))].
  - inversion H; subst; clear H. rvn st t [hd] r [IUnlock (MPq p) (URet (RBool (pcancel (pps st p))))].
  - inversion H; subst; clear H. rvn st t [hd] r [IUnlock (MPq p) UNone].
Qed.

Lemma exec_uact_Rv : forall st t m a r st' ev,
  RvInv st -> tcont (thr st t) = [IUnlock m a] ++ r -> twaiting (thr st t) = false ->
  exec_uact st t a r = (st', ev) -> RvInv st'.
Proof.
  intros st t m a r st' ev R Hc Hw H.
  destruct a; cbn [exec_uact] in H; inversion H; subst; clear H.
  - rvn st t [IUnlock m UNone] r (@nil instr).
  - rvn st t [IUnlock m (URet v)] r (@nil instr).
  - rvn st t [IUnlock m (UDels l)] r [IDels l].
  - rvn st t [IUnlock m (UChReg c)] r (@nil instr).
  - rvn st t [IUnlock m (UChPush c m0)] r (@nil instr).
  - rvn st t [IUnlock m (UChClear c)] r (@nil instr).
  - rvn st t [IUnlock m (UFwd c msgs)] r (@nil instr).
  - rvn st t [IUnlock m (UPqFwd p msgs term)] r (@nil instr).
Qed.

Lemma exec_climb_Rv : forall st t k r st' ev,
  RvInv st -> tcont (thr st t) = [IClimb k] ++ r -> twaiting (thr st t) = false ->
  exec_climb st t k r = (st', ev) -> RvInv st'.
Proof.
  intros st t k r st' ev R Hc Hw H.
  destruct k; cbn [exec_climb] in H; inversion H; subst; clear H.
  - destruct (bitmap_join a b (bmbase st bm)) as [x|]; [destruct (slab_get (sl st) x)|];
      (destruct (leaf st bm a =? 0); [rvn st t [IClimb (KLeaf bm a b who)] r [IClimb (KSum bm a)]|rvn st t [IClimb (KLeaf bm a b who)] r (@nil instr)]).
  - destruct (summ st bm =? 0); [rvn st t [IClimb (KSum bm a)] r [IClimb (KTop bm)]|rvn st t [IClimb (KSum bm a)] r (@nil instr)].
  - destruct (top st =? 0); [rvn st t [IClimb (KTop bm)] r [IClimb KCb]|rvn st t [IClimb (KTop bm)] r (@nil instr)].
  - rvn st t [IClimb KCb] r (@nil instr).
Qed.

(** ** what normalisation does to a continuation *)
Definition norm_new (j : instr) : Prop :=
  (exists h d, In j (hinstrs h d)) \/ (exists l, j = IHandlers l) \/ (exists l, j = IDels l).
Inductive nrel : list instr -> list instr -> Prop :=
| nrel_refl : forall k, nrel k k
| nrel_step : forall i r new k1, main_only i = true -> (forall j, In j new -> norm_new j) ->
              nrel (new ++ r) k1 -> nrel (i :: r) k1.

Lemma norm_nrel : forall fuel s acc k ev s1 acc1 k1 ev1,
  norm fuel s acc k ev = (s1, acc1, k1, ev1) -> nrel k k1.
Proof.
  induction fuel as [|f IH]; intros s acc k ev s1 acc1 k1 ev1 H; cbn [norm] in H.
  - inversion H; subst. apply nrel_refl.
  - destruct k as [|i r]; [inversion H; subst; apply nrel_refl|].
    destruct i; try (inversion H; subst; apply nrel_refl; fail).
    + destruct bms; [|inversion H; subst; apply nrel_refl].
      apply (nrel_step (IBms []) r []); [reflexivity|intros j []|]. eapply IH; exact H.
    + destruct ls; [|inversion H; subst; apply nrel_refl].
      apply (nrel_step (ILeaves bm []) r []); [reflexivity|intros j []|]. eapply IH; exact H.
    + apply (nrel_step IRun r [IHandlers acc]); [reflexivity| |eapply IH; exact H].
      intros j [<-|[]]. right; left. eexists; reflexivity.
    + destruct bits as [|b bs].
      * apply (nrel_step (IHandlers []) r []); [reflexivity|intros j []|]. eapply IH; exact H.
      * destruct (slab_get s b) as [h|].
        -- inversion H; subst.
           apply (nrel_step (IHandlers (b :: bs)) r (hinstrs h false ++ [IHandlers bs])); [reflexivity| |].
           ++ intros j Hj. apply in_app_or in Hj. destruct Hj as [Hj|[<-|[]]]; [left; eauto|right; left; eexists; reflexivity].
           ++ rewrite <- app_assoc. apply nrel_refl.
        -- apply (nrel_step (IHandlers (b :: bs)) r [IHandlers bs]); [reflexivity| |eapply IH; exact H].
           intros j [<-|[]]. right; left. eexists; reflexivity.
    + destruct bits as [|b bs].
      * apply (nrel_step (IDels []) r []); [reflexivity|intros j []|]. eapply IH; exact H.
      * destruct (wh_del s b) as [[h s']|].
        -- inversion H; subst.
           apply (nrel_step (IDels (b :: bs)) r (hinstrs h true ++ [IDels bs])); [reflexivity| |].
           ++ intros j Hj. apply in_app_or in Hj. destruct Hj as [Hj|[<-|[]]]; [left; eauto|right; right; eexists; reflexivity].
           ++ rewrite <- app_assoc. apply nrel_refl.
        -- apply (nrel_step (IDels (b :: bs)) r [IDels bs]); [reflexivity| |eapply IH; exact H].
           intros j [<-|[]]. right; right. eexists; reflexivity.
Qed.

Lemma norm_new_cases : forall j, norm_new j ->
  (exists w d, j = IYieldH (HPlain w) d) \/ (exists m a, j = ILock m a) \/ (exists l, j = IHandlers l) \/ (exists l, j = IDels l).
Proof.
  intros j [[h [d Hj]]|[H|H]]; auto.
  destruct h; cbn in Hj; destruct Hj as [<-|[]]; eauto.
Qed.

Lemma nrel_wok : forall k k1, nrel k k1 -> forall P, wok P k -> wok P k1.
Proof.
  induction 1 as [k|i r new k1 Hm Hn Hr IH]; intros P W; [exact W|]. apply IH.
  assert (Wr : wok P r) by (destruct i; cbn [wok] in W; try exact W; discriminate Hm).
  apply wok_app_nw; [|exact Wr]. intros p Hp. apply Hn in Hp. apply norm_new_cases in Hp.
  destruct Hp as [[? [? E]]|[[? [? E]]|[[? E]|[? E]]]]; discriminate E.
Qed.
Lemma nrel_keep : forall k k1, nrel k k1 -> forall j, In j k -> main_only j = false -> In j k1.
Proof.
  induction 1 as [k|i r new k1 Hm Hn Hr IH]; intros j Hj Hf; [exact Hj|]. apply IH; auto.
  destruct Hj as [<-|Hj]; [congruence|]. apply in_or_app. auto.
Qed.
Lemma nrel_id : forall k k1, nrel k k1 -> forall i r, k = i :: r -> main_only i = false -> k1 = k.
Proof.
  induction 1 as [k|i0 r0 new k1 Hm Hn Hr IH]; intros i r E Hf; [reflexivity|]. inversion E; subst. congruence.
Qed.

Lemma notify_fold_wait : forall us st,
  let st' := fold_left (fun s u => upd_th s u (set_twaiting (th s u) false)) us st in
  (forall u, twaiting (thr st' u) = true -> twaiting (thr st u) = true) /\
  (forall u, In u us -> twaiting (thr st' u) = false) /\ pps st' = pps st.
Proof.
  induction us as [|v us IH]; intro st; cbn zeta; [split; [auto|split; [intros u []|reflexivity]]|].
  cbn [fold_left]. destruct (IH (upd_th st v (set_twaiting (th st v) false))) as [A [B C]]. cbn zeta in *.
  split; [|split].
  - intros u Hu. apply A in Hu. revert Hu. cbn. unfold updN, th. destruct (Nat.eqb_spec u v); subst; cbn; [discriminate|auto].
  - intros u [->|Hu]; [|apply B; exact Hu].
    match goal with |- twaiting (thr ?S u) = false => destruct (twaiting (thr S u)) eqn:E; [|reflexivity] end.
    apply A in E. revert E. cbn. unfold updN, th. rewrite Nat.eqb_refl. cbn. auto.
  - rewrite C. reflexivity.
Qed.

Lemma exec_instr_Rv : forall st t i r st' ev,
  pristine st -> LKInv st -> RvInv st ->
  tcont (thr st t) = i :: r -> (forall m, wants i m -> owner st m = None) -> twaiting (thr st t) = false ->
  exec_instr st t i r = (st', ev) -> RvInv st'.
Proof.
  intros st t i r st' ev P L R Hc En Hw H.
  assert (Hc0 : tcont (thr st t) = [i] ++ r) by exact Hc.
  assert (Free : forall m, wants i m ->
            (forall u, u <> t -> nhold (tcont (thr st u)) m = O) /\ nhold r m = O).
  { intros m Wm. pose proof (En m Wm) as O. split.
    - intros u Hu. destruct (nhold (tcont (thr st u)) m) eqn:N; [reflexivity|].
      pose proof (lk_own st L u m ltac:(lia)) as O'. congruence.
    - destruct (nhold r m) eqn:N; [reflexivity|].
      assert (N' : (0 < nhold (tcont (thr st t)) m)%nat) by (rewrite Hc, nhold_cons; lia).
      pose proof (lk_own st L t m N') as O'. congruence. }
  destruct i; cbn [exec_instr] in H.
  - eapply exec_climb_Rv; eauto.
  - inversion H; subst; clear H. rvn st t [ITopSwap] r [IBms (flat_map (bms_of_slot st) (bits_of (top st)))].
  - destruct bms; inversion H; subst; clear H; [exact R|].
    rvn st t [IBms (z :: bms)] r [ILeaves z (bits_of (summ st z)); IBms bms].
  - destruct ls; [inversion H; subst; exact R|].
    destruct (collect (bmbase st bm) z (leaf st bm z)) as [bits ok].
    match type of H with context [ghost_collect ?S0 bits] =>
      destruct (ghost_collect_sl bits S0) as [_ [_ [_ [_ [_ [_ [A7 A8]]]]]]]; remember (ghost_collect S0 bits) as s3 eqn:Es3 end.
    cbn zeta in *. inversion H; subst st' ev; clear H.
    match goal with |- RvInv ?S' => set (st' := S') end.
    assert (C1 : tcont (thr st' t) = [ILeaves bm ls] ++ r).
    { unfold st'. cbn -[Nat.eqb]. unfold updN, th. rewrite A8. cbn -[Nat.eqb]. unfold updN, th. rewrite !Nat.eqb_refl. reflexivity. }
    assert (C3 : forall u, u <> t -> tcont (thr st' u) = tcont (thr st u) /\ (twaiting (thr st' u) = true -> twaiting (thr st u) = true)).
    { intros u Hu. unfold st'. cbn -[Nat.eqb]. unfold updN, th. rewrite A8. cbn -[Nat.eqb]. unfold updN, th.
      destruct (Nat.eqb_spec u t); [congruence|]. split; [reflexivity|auto]. }
    assert (C4 : twaiting (thr st' t) = false).
    { unfold st'. cbn -[Nat.eqb]. unfold updN, th. rewrite A8. cbn -[Nat.eqb]. unfold updN, th. rewrite !Nat.eqb_refl. cbn. exact Hw. }
    apply (rv_step st st' t [ILeaves bm (z :: ls)] r [ILeaves bm ls] (fun _ => false) R Hc0 C1 C3 C4).
    + intros p _. unfold st'. cbn. rewrite A7. split; reflexivity.
    + intros; discriminate.
    + rv_new.
    + rv_not.
    + intros; discriminate.
  - inversion H; subst; exact R.
  - inversion H; subst; exact R.
  - inversion H; subst; exact R.
  - (* lock *)
    match type of H with context [exec_lact ?S0 t ?aa ?rr] => destruct (exec_lact S0 t aa rr) as [s2 e2] eqn:E; set (s1 := S0) in * end.
    inversion H; subst; clear H.
    assert (T : forall u, tcont (thr s1 u) = tcont (thr st u) /\ (twaiting (thr s1 u) = true -> twaiting (thr st u) = true))
      by (intro u; unfold s1; split; [thr_simpl|cbn -[Nat.eqb]; unfold updN, th; cbn -[Nat.eqb]; destruct (Nat.eqb_spec u t); subst; cbn; auto]).
    assert (R1 : RvInv s1) by (apply (rv_eq st); auto).
    assert (Hm : m = lact_mtx a) by (apply (lk_wf st L t (ILock m a)); rewrite Hc; left; reflexivity).
    destruct (Free m eq_refl) as [F1 F2]. rewrite Hm in F1, F2.
    apply (exec_lact_Rv s1 t (ILock m a) a r st' e2 R1).
    + destruct (T t) as [E1 _]. rewrite E1. exact Hc.
    + intros; discriminate.
    + intros u Hu. destruct (T u) as [E1 _]. rewrite E1. apply F1; auto.
    + exact F2.
    + unfold s1. thr_simpl.
    + exact E.
  - (* unlock *)
    destruct (exec_uact st t a r) as [s1 e1] eqn:E. inversion H; subst; clear H.
    pose proof (exec_uact_Rv st t m a r s1 e1 R Hc0 Hw E) as R1.
    apply (rv_eq s1); auto.
  - (* Condvar::wait: release and start waiting, atomically *)
    inversion H; subst; clear H.
    pose proof (rv_pre st R t) as W. rewrite Hc in W. cbn [wok] in W. destruct W as [Na [[r1 Er] Wr]]. subst r.
    match goal with |- RvInv ?S' => set (st' := S') end.
    assert (T : forall u, thr st' u = if Nat.eqb u t then set_tcont (set_twaiting (thr st t) true) (ICvReacq p :: r1) else thr st u).
    { intro u. unfold st'. cbn -[Nat.eqb]. unfold updN, th. cbn -[Nat.eqb]. unfold updN, th.
      destruct (Nat.eqb_spec u t); subst; [rewrite ?Nat.eqb_refl|]; reflexivity. }
    assert (N : forall q, navail st' q <-> navail st q) by (intro q; unfold navail; tauto).
    constructor.
    + intro u. rewrite T. apply (wok_change (navail st)); [|intros q _ Hq; apply N; exact Hq].
      destruct (Nat.eqb_spec u t); [subst; exact Wr|apply (rv_pre st R u)].
    + intros u q r0. rewrite T. destruct (Nat.eqb_spec u t) as [->|Hu].
      * cbn. intros Eq _. inversion Eq; subst. left. apply N. exact Na.
      * intros A B. destruct (rv_wait st R u q r0 A B) as [X|[v X]]; [left; apply N; exact X|]. right.
        exists v. rewrite T. destruct (Nat.eqb_spec v t) as [->|Hv]; [|exact X].
        cbn. rewrite Hc in X. destruct X as [X|X]; [discriminate X|exact X].
    + intros u. rewrite T. destruct (Nat.eqb_spec u t) as [->|Hu]; [cbn; eauto|apply (rv_hd st R u)].
  - (* re-acquire and re-check *)
    match type of H with context [exec_lact ?S0 t ?aa ?rr] => destruct (exec_lact S0 t aa rr) as [s2 e2] eqn:E; set (s1 := S0) in * end.
    inversion H; subst; clear H.
    assert (T : forall u, tcont (thr s1 u) = tcont (thr st u) /\ (twaiting (thr s1 u) = true -> twaiting (thr st u) = true))
      by (intro u; unfold s1; split; [thr_simpl|cbn -[Nat.eqb]; unfold updN, th; cbn -[Nat.eqb]; destruct (Nat.eqb_spec u t); subst; cbn; auto]).
    assert (R1 : RvInv s1) by (apply (rv_eq st); auto).
    destruct (Free (MPq p) eq_refl) as [F1 F2].
    apply (exec_lact_Rv s1 t (ICvReacq p) (LPqRecv p) r st' e2 R1).
    + destruct (T t) as [E1 _]. rewrite E1. exact Hc.
    + intros; discriminate.
    + intros u Hu. destruct (T u) as [E1 _]. rewrite E1. apply F1; auto.
    + exact F2.
    + unfold s1. thr_simpl.
    + exact E.
  - (* notify_all *)
    inversion H; subst st' ev; clear H.
    match goal with |- RvInv (set_cont (fold_left ?f ?us st) t r) =>
      destruct (notify_fold_spec us st) as [_ [_ [_ [_ [_ [_ [_ [_ [_ [A10 _]]]]]]]]]];
      destruct (notify_fold_wait us st) as [B1 [B2 B3]]; set (us0 := us) in *; set (s1 := fold_left f us0 st) in * end.
    cbn zeta in *.
    apply (rv_step st (set_cont s1 t r) t [INotify p] r [] (fun _ => false) R Hc0).
    + thr_simpl.
    + intros u Hu. split; [cbn; unfold updN, th; destruct (Nat.eqb_spec u t); [congruence|]; apply A10|].
      cbn. unfold updN, th. destruct (Nat.eqb_spec u t); [congruence|]. apply B1.
    + cbn. unfold updN, th. rewrite Nat.eqb_refl. cbn. destruct (twaiting (thr s1 t)) eqn:E; [|reflexivity]. apply B1 in E. congruence.
    + intros q _. cbn. rewrite B3. split; reflexivity.
    + intros; discriminate.
    + intro W. exact W.
    + intros q [Eq|[]] u r0 Hu Hh. inversion Eq; subst q. cbn. unfold updN, th. destruct (Nat.eqb_spec u t); [congruence|].
      destruct (twaiting (thr st u)) eqn:Ew.
      * apply B2. unfold us0. apply filter_In. split.
        -- apply in_seq. destruct P as [_ P]. destruct (le_lt_dec (nthr st) u) as [Hge|Hlt]; [|lia].
           destruct (P u Hge) as [Pc _]. rewrite Pc in Hh. discriminate.
        -- unfold th. rewrite Ew, Hh. cbn. apply Z.eqb_refl.
      * destruct (twaiting (thr s1 u)) eqn:E; [|reflexivity]. apply B1 in E. congruence.
    + intros; discriminate.
  - unfold ghost_handler in H. inversion H; subst; clear H.
    destruct del; [rvn st t [IYieldH h true] r (@nil instr)|rvn st t [IYieldH h false] r (@nil instr)].
  - inversion H; subst; clear H. rvn st t [IJoin] r (@nil instr).
  - inversion H; subst; clear H. rvn st t [IIdle] r (@nil instr).
Qed.

Ltac rvb st t new :=
  apply (rv_step st _ t (@nil instr) (@nil instr) new (fun _ => false));
  [ assumption | eassumption | thr_simpl | rv_ho | thr_simpl | rv_pps | intros; discriminate | rv_new | rv_not
  | intros; discriminate ].

Lemma fill_loop_pps : forall n st ev st' ev', fill_loop n st ev = (st', ev') -> pps st' = pps st /\ thr st' = thr st.
Proof.
  induction n as [|n IH]; intros st ev st' ev' H; cbn [fill_loop] in H.
  - inversion H; subst; auto.
  - destruct (wh_add st (HPlain (1000000 + nfill st))) as [[st1 wi]|] eqn:E; [|inversion H; subst; auto].
    destruct (wh_add_core _ _ _ _ E) as [c1 [A [B [C1 [C2 [C3 [C4 [C5 [C6 [C7 C8]]]]]]]]]].
    apply IH in H. cbn in H. destruct H as [H1 H2]. split; congruence.
Qed.

Lemma begin_cmd_Rv : forall st t c st' ev done,
  pristine st -> RvInv st -> tcont (thr st t) = [] -> (t < nthr st)%nat ->
  begin_cmd st t c = (st', ev, done) -> RvInv st'.
Proof.
  intros st t c st' ev done P R Hc Ht H.
  assert (Hc0 : tcont (thr st t) = [] ++ []) by exact Hc.
  assert (Hw : twaiting (thr st t) = false).
  { destruct (twaiting (thr st t)) eqn:E; [|reflexivity]. destruct (rv_hd st R t E) as [p [r0 X]]. congruence. }
  assert (Sp : forall s1 p f, (forall u, thr s1 u = thr st u) -> nthr s1 = nthr st ->
                 forall u, tcont (thr (spawn_thread s1 t p f) u) = tcont (thr st u) /\
                           (twaiting (thr (spawn_thread s1 t p f) u) = true -> twaiting (thr st u) = true)).
  { intros s1 p f E1 E2 u. cbn. unfold updN, th. destruct (Nat.eqb_spec u (nthr s1)) as [->|]; [|rewrite E1; auto].
    cbn. split; [|discriminate]. symmetry. destruct P as [_ P]. apply P. lia. }
  destruct c; cbn [begin_cmd] in H.
  - destruct (wreg st w) as [wi|]; [|inversion H; subst; auto].
    destruct (climb_start st wi (Some (HPlain w))) as [i|] eqn:E; inversion H; subst; clear H; [|auto].
    apply climb_at_climb in E. destruct E as [k ->]. rvb st t [IClimb k].
  - destruct (wreg st w) as [wi|] eqn:Ew; [|inversion H; subst; auto].
    destruct (wbusy st w); inversion H; subst; clear H.
    + rvb st t [ILock MDL (LPush (wbit wi) (wbm wi) (HPlain w))].
    + apply (rv_eq st); auto.
  - destruct (Waker.creg (chs st c)); inversion H; subst; clear H; [|auto]. rvb st t [ILock (MCh c) (LChSend c m)].
  - destruct (Waker.creg (chs st c)); inversion H; subst; clear H; [|auto]. rvb st t [ILock (MCh c) (LChClosed c)].
  - destruct (negb (is_main t) || wused st w || (1000000 <=? w) || (w <? 0)); [inversion H; subst; auto|].
    destruct (wh_add st (HPlain w)) as [[st1 wi]|] eqn:E; inversion H; subst; clear H; [|auto].
    destruct (wh_add_core _ _ _ _ E) as [c1 [A [B [C1 [C2 [C3 [C4 [C5 [C6 [C7 C8]]]]]]]]]].
    apply (rv_eq st); cbn; auto. intro u. rewrite C1. auto.
  - destruct (negb (is_main t)); [inversion H; subst; auto|].
    destruct (fill_loop (Z.to_nat n) st []) as [st1 ev1] eqn:E. inversion H; subst; clear H.
    destruct (fill_loop_pps _ _ _ _ _ E) as [A B]. apply (rv_eq st); auto. intro u. rewrite B. auto.
  - destruct (negb (is_main t)); inversion H; subst; clear H; [auto|]. rvb st t [ITopSwap; IRun].
  - destruct (negb (is_main t)); [inversion H; subst; auto|].
    destruct (gnotified st); inversion H; subst; clear H; [|auto]. rvb st t [ITopSwap; IRun].
  - destruct (negb (is_main t)); inversion H; subst; clear H; [auto|].
    apply (rv_eq st); auto.
  - destruct (negb (is_main t)); inversion H; subst; clear H; [auto|]. rvb st t [IJoin].
  - destruct (negb (is_main t)); inversion H; subst; clear H; [auto|]. rvb st t [IIdle].
  - destruct (negb (is_main t) || cexists (chs st c)) eqn:Eg; [inversion H; subst; auto|].
    destruct (wh_add st (HChan c)) as [[st1 wi]|] eqn:E; inversion H; subst; clear H; [|auto].
    destruct (wh_add_core _ _ _ _ E) as [c1 [A [B [C1 [C2 [C3 [C4 [C5 [C6 [C7 C8]]]]]]]]]].
    assert (R1 : RvInv st1) by (apply (rv_eq st); auto; intro u; rewrite C1; auto).
    assert (Hc1 : tcont (thr st1 t) = [] ++ []) by (rewrite C1; exact Hc).
    assert (Hw1 : twaiting (thr st1 t) = false) by (rewrite C1; exact Hw).
    rvb st1 t [ILock (MCh c) (LChInit c)].
  - destruct (negb (is_main t) || negb (cguard (chs st c))); inversion H; subst; clear H; [auto|].
    rvb st t [ILock (MCh c) (LChClose c)].
  - (* CPNew: the new pipe has nothing to receive and no cancellation *)
    destruct (negb (is_main t) || pexists (pps st p)); [inversion H; subst; auto|].
    destruct (wh_add st (HPipe p)) as [[st1 wi]|] eqn:E; inversion H; subst; clear H; [|auto].
    destruct (wh_add_core _ _ _ _ E) as [c1 [A [B [C1 [C2 [C3 [C4 [C5 [C6 [C7 C8]]]]]]]]]].
    match goal with |- RvInv ?S' => set (st' := S') end.
    assert (T : forall u, tcont (thr st' u) = tcont (thr st u) /\ (twaiting (thr st' u) = true -> twaiting (thr st u) = true)).
    { intro u. unfold st'. apply Sp; [|exact C2]. intro v. cbn. rewrite C1. reflexivity. }
    apply (rv_step st st' t [] [] [] (fun p0 => p0 =? p) R Hc0).
    + destruct (T t) as [E1 _]. rewrite E1. exact Hc.
    + intros u _. apply T.
    + destruct (twaiting (thr st' t)) eqn:Ew; [|reflexivity]. destruct (T t) as [_ E2]. rewrite (E2 Ew) in Hw. discriminate.
    + intros p0 E0. unfold st'. cbn. unfold updZ. rewrite E0, C8. split; reflexivity.
    + intros p0 E0. apply Z.eqb_eq in E0. subst p0. left. unfold st', navail. cbn. unfold updZ. rewrite Z.eqb_refl. cbn. auto.
    + intro W. exact W.
    + intros p0 [].
    + intros p0 E0 _. apply Z.eqb_eq in E0. subst p0. left. unfold st', navail. cbn. unfold updZ. rewrite Z.eqb_refl. cbn. auto.
  - destruct (negb (is_main t) || negb (phandle (pps st p))); inversion H; subst; clear H; [auto|]. rvb st t [ILock (MPq p) (LPqSend p m)].
  - destruct (negb (is_main t) || negb (phandle (pps st p))); inversion H; subst; clear H; [auto|]. rvb st t [ILock (MPq p) (LPqCancelSet p)].
  - destruct (tpipe (th st t) <? 0); inversion H; subst; clear H; [auto|]. rvb st t [ILock (MPq (tpipe (th st t))) (LPqRecv (tpipe (th st t)))].
  - destruct (tpipe (th st t) <? 0); inversion H; subst; clear H; [auto|]. rvb st t [ILock (MPq (tpipe (th st t))) (LPqLSend (tpipe (th st t)) m)].
  - destruct (tpipe (th st t) <? 0); inversion H; subst; clear H; [auto|]. rvb st t [ILock (MPq (tpipe (th st t))) (LPqCancelGet (tpipe (th st t)))].
  - destruct (tpipe (th st t) <? 0); inversion H; subst; clear H; [auto|].
    apply (rv_eq st); auto. intro u.
    split; [thr_simpl|cbn -[Nat.eqb]; unfold updN, th; cbn -[Nat.eqb]; destruct (Nat.eqb_spec u t); subst; cbn; auto].
Qed.

Lemma settle_Rv : forall st t ev done st' ev',
  CInv (core st) -> RvInv st -> settle st t ev done = (st', ev') -> RvInv st'.
Proof.
  intros st t ev done st' ev' I R H. unfold settle in H.
  destruct (norm (2 * (cont_size (tcont (th st t)) + length (tacc (th st t))) + 2) (sl st) (tacc (th st t)) (tcont (th st t)) ev)
    as [[[s1 acc1] k1] ev1] eqn:En.
  cbn zeta in H.
  set (st1 := set_sl (upd_th st t (set_tacc (set_tcont (th st t) k1) acc1)) s1) in *.
  assert (R1 : RvInv st1).
  { pose proof (norm_nrel _ _ _ _ _ _ _ _ _ En) as N.
    apply (rv_replace st st1 t k1 R); try reflexivity.
    - unfold st1. thr_simpl.
    - unfold st1. thr_simpl.
    - intro u. unfold st1. thr_simpl.
    - intros Pp. apply (nrel_wok _ _ N).
    - intros p Hin. apply (nrel_keep _ _ N); auto.
    - intros p r0 E. eapply (nrel_id _ _ N); [exact E|reflexivity]. }
  assert (I1f : forall i, In i (tfinal (thr st1 t)) -> okfinal_c (core st) i).
  { intros i Hi. apply (i_final _ I t). revert Hi. unfold st1. cbn -[Nat.eqb]. unfold updN, th. rewrite Nat.eqb_refl. cbn. auto. }
  clearbody st1.
  match type of H with (let '(st2, ev2) := ?E in _) = _ => destruct E as [st2 ev2] eqn:E2 end.
  assert (R2 : RvInv st2 /\ tfinal (thr st2 t) = tfinal (thr st1 t)).
  { assert (G : forall s, (forall u, tcont (thr s u) = tcont (thr st1 u) /\ twaiting (thr s u) = twaiting (thr st1 u)) ->
                          pps s = pps st1 -> RvInv s).
    { intros s A B. apply (rv_eq st1); auto. intro u. destruct (A u) as [X Y]. split; [exact X|rewrite Y; auto]. }
    destruct done as [v|].
    - inversion E2; subst. split; [|thr_simpl]. apply G; [|reflexivity]. intro u. split; thr_simpl.
    - destruct k1.
      + destruct (tcur (th st1 t)) as [c|]; inversion E2; subst; [|auto].
        split; [|destruct c; thr_simpl]. apply G; [|destruct c; reflexivity]. intro u. destruct c; split; thr_simpl.
      + inversion E2; subst. auto. }
  destruct R2 as [R2 F2].
  destruct (tcont (th st2 t)) eqn:Ec; [|inversion H; subst; exact R2].
  destruct (tscript (th st2 t)); [|inversion H; subst; exact R2].
  destruct (tcur (th st2 t)); [inversion H; subst; exact R2|].
  destruct (tfinal (th st2 t)) eqn:Ef; inversion H; subst; [exact R2|].
  assert (Hc0 : tcont (thr st2 t) = [] ++ []) by exact Ec.
  assert (Hw : twaiting (thr st2 t) = false).
  { destruct (twaiting (thr st2 t)) eqn:E; [|reflexivity]. destruct (rv_hd st2 R2 t E) as [p [r0 X]]. unfold th in Ec. congruence. }
  apply (rv_step st2 _ t (@nil instr) (@nil instr) (i :: l) (fun _ => false));
    [ assumption | eassumption | | rv_ho | thr_simpl | rv_pps | intros; discriminate | | rv_not | intros; discriminate ].
  - cbn -[Nat.eqb]. unfold updN, th. rewrite Nat.eqb_refl. cbn. rewrite app_nil_r. reflexivity.
  - intro W. apply wok_app_nw; [|exact W]. intros p Hin. unfold th in Ef. rewrite <- Ef, F2 in Hin. apply I1f in Hin.
    exact Hin.
Qed.

Theorem wstep_Rv : forall st t st' ev,
  MInv st -> LKInv st -> RvInv st -> wstep st t = (st', ev) -> RvInv st'.
Proof.
  intros st t st' ev [I [P Wf]] L R H. unfold wstep in H.
  destruct (enabled st t) eqn:En; cbn [negb] in H; [|inversion H; subst; exact R].
  assert (Ht : (t < nthr st)%nat).
  { unfold enabled in En. apply andb_true_iff in En. destruct En as [En _]. apply Nat.ltb_lt in En. exact En. }
  assert (It : CInv (core (tick st t))) by (eapply CInv_ceq; [|exact I]; unfold tick; same_core).
  assert (Pt : pristine (tick st t)) by (unfold tick; prist st t).
  assert (Lt : LKInv (tick st t)) by (unfold tick; lk_same st).
  assert (Same : forall s, (forall u, tcont (thr s u) = tcont (thr st u) /\ twaiting (thr s u) = twaiting (thr st u)) ->
                           pps s = pps st -> RvInv s).
  { intros s A B. apply (rv_eq st); auto. intro u. destruct (A u) as [X Y]. split; [exact X|rewrite Y; auto]. }
  assert (Rt : RvInv (tick st t)) by (apply Same; [intro u; unfold tick; split; thr_simpl|reflexivity]).
  assert (Es' : tstarted (th (tick st t) t) = tstarted (th st t)) by (unfold tick; thr_simpl).
  assert (Ec' : tcont (th (tick st t) t) = tcont (th st t)) by (unfold tick; thr_simpl).
  assert (Sc' : tscript (th (tick st t) t) = tscript (th st t)) by (unfold tick; thr_simpl).
  assert (Wt' : twaiting (thr (tick st t) t) = twaiting (thr st t)) by (unfold tick; thr_simpl).
  assert (Ow : owner (tick st t) = owner st) by reflexivity.
  assert (Htt : (t < nthr (tick st t))%nat) by exact Ht.
  rewrite Es', Ec', Sc' in H.
  destruct (tstarted (th st t)) eqn:Es; cbn [negb] in H.
  - destruct (tcont (th st t)) as [|i r] eqn:Ec.
    + destruct (tscript (th st t)) as [|c0 cs]; [inversion H; subst; exact R|].
      match type of H with context [begin_cmd ?S0 t ?cc] =>
        destruct (begin_cmd S0 t cc) as [[st2 ev0] done] eqn:Eb; set (s1 := S0) in * end.
      assert (I1 : CInv (core s1)) by (eapply CInv_ceq; [|exact It]; unfold s1; same_core).
      assert (P1 : pristine s1) by (unfold s1; prist (tick st t) t).
      assert (W1 : wfi s1) by (eapply wfi_eq; [| | |exact Wf]; reflexivity).
      assert (R1 : RvInv s1) by (apply Same; [intro u; unfold s1, tick; split; thr_simpl|reflexivity]).
      assert (Hc1 : tcont (thr s1 t) = []).
      { unfold s1. cbn -[Nat.eqb]. unfold updN, th. rewrite Nat.eqb_refl. cbn. unfold th in Ec. first [exact Ec | rewrite Nat.eqb_refl; cbn; exact Ec]. }
      assert (Ht1 : (t < nthr s1)%nat) by exact Htt.
      destruct (begin_cmd_inv s1 t c0 st2 ev0 done I1 P1 W1 Hc1 Ht1 Eb) as [I2 _].
      eapply settle_Rv; [exact I2| |exact H].
      exact (begin_cmd_Rv s1 t c0 st2 ev0 done P1 R1 Hc1 Ht1 Eb).
    + destruct (exec_instr (tick st t) t i r) as [st1 ev1] eqn:Ee.
      assert (Ec1 : tcont (thr (tick st t) t) = i :: r) by (unfold th in Ec', Ec; first [exact Ec'|rewrite Ec'; exact Ec]).
      assert (I1 : CInv (core st1)) by (eapply exec_instr_inv; eauto).
      eapply settle_Rv; [exact I1| |exact H].
      unfold enabled in En. rewrite Es, Ec in En. cbn [negb] in En. apply andb_true_iff in En. destruct En as [_ En].
      apply (exec_instr_Rv (tick st t) t i r st1 ev1 Pt Lt Rt Ec1); [| |exact Ee].
      * intros m Hw. rewrite Ow. destruct i; cbn in Hw; try contradiction; subst; cbn in En.
        -- destruct (owner st m); [discriminate|reflexivity].
        -- apply andb_true_iff in En. destruct En as [_ En]. destruct (owner st (MPq p)); [discriminate|reflexivity].
      * rewrite Wt'. destruct (twaiting (thr st t)) eqn:Ew; [|reflexivity].
        destruct (rv_hd st R t Ew) as [p [r0 X]]. unfold th in Ec. rewrite Ec in X. inversion X; subst.
        cbn in En. unfold th in En. rewrite Ew in En. discriminate.
  - eapply settle_Rv; [| |exact H].
    + eapply CInv_ceq; [|exact It]. same_core.
    + apply Same; [intro u; unfold tick; split; thr_simpl|reflexivity].
Qed.

Lemma Rv_init : forall scr, RvInv (winit scr).
Proof.
  intro scr. constructor; cbn.
  - intro t. exact Logic.I.
  - intros; discriminate.
  - intros t E. unfold set_tstarted in E. cbn in E. discriminate.
Qed.

Lemma wrun_Rv : forall sched st, MInv st -> LKInv st -> RvInv st -> RvInv (fst (wrun st sched)).
Proof.
  induction sched as [|t rest IH]; intros st M L R; cbn [wrun]; auto.
  destruct (wstep st t) as [st1 ev] eqn:E.
  specialize (IH st1 (wstep_inv _ _ _ _ M E) (wstep_LK _ _ _ _ M L E) (wstep_Rv _ _ _ _ M L R E)).
  destruct (wrun st1 rest) as [st2 tr]. exact IH.
Qed.

Theorem reachable_Rv : forall st, reachable st -> RvInv st.
Proof.
  intros st [scr [sched ->]]. apply wrun_Rv; [apply MInv_init| |apply Rv_init].
  exact (reachable_LK (winit scr) (ex_intro _ scr (ex_intro _ [] eq_refl))).
Qed.

(** A blocked [recv] always wakes for a new message or for cancellation: a worker waiting on the condition
    variable of pipe [p] (its next operation is the re-acquisition of the mutex, and it has not been notified)
    has nothing to receive and is not cancelled - unless a [notify] for [p] is about to be executed. *)
Theorem recv_not_lost : forall st t p r0,
  reachable st -> tcont (thr st t) = ICvReacq p :: r0 -> twaiting (thr st t) = true ->
  (forall u, ~ In (INotify p) (tcont (thr st u))) ->
  psendq (pps st p) = [] /\ pcancel (pps st p) = false.
Proof.
  intros st t p r0 R Hc Hw Hn. destruct (rv_wait st (reachable_Rv st R) t p r0 Hc Hw) as [X|[u X]]; [exact X|].
  exfalso. exact (Hn u X).
Qed.

(** the decision to wait is taken, and the wait started, atomically with respect to the queue *)
Theorem recv_wait_decided : forall st t p r0,
  reachable st -> tcont (thr st t) = ICvWait p :: r0 ->
  psendq (pps st p) = [] /\ pcancel (pps st p) = false /\ owner st (MPq p) = Some t.
Proof.
  intros st t p r0 R Hc. pose proof (rv_pre st (reachable_Rv st R) t) as W. rewrite Hc in W. cbn [wok] in W.
  destruct W as [[A B] _]. split; [exact A|]. split; [exact B|].
  apply (lk_own st (reachable_LK st R) t (MPq p)). rewrite Hc, nhold_cons. cbn [holdb]. rewrite mtx_eqb_refl. lia.
Qed.

(** ** Part 2: replies *)
Definition pclaim (st : wstate) (p : Z) : Z * hkind := (wbit (pw (pps st p)), HPipe p).
Definition finok (j : instr) : Prop :=
  match j with ILock _ (LPqPanic _) | ILock _ (LPush _ _ _) => True | _ => False end.

Record PqInv (st : wstate) : Prop := {
  (* a worker that may still run commands has not dropped its Waker yet *)
  pk : forall t, (t < nthr st)%nat -> 0 <= tpipe (thr st t) ->
       (tcur (thr st t) <> None \/ tscript (thr st t) <> []) ->
       pexists (pps st (tpipe (thr st t))) = true /\ In (pclaim st (tpipe (thr st t))) (pushes (tfinal (thr st t)));
  pc : forall t m0 p m, In (ILock m0 (LPqLSend p m)) (tcont (thr st t)) ->
       p = tpipe (thr st t) /\ 0 <= p /\ tcur (thr st t) <> None;
  pc2 : forall t bm a b p, In (IClimb (KLeaf bm a b (Some (HPipe p)))) (tcont (thr st t)) ->
       p = tpipe (thr st t) /\ 0 <= p /\ tcur (thr st t) <> None /\ 4096 * bm + 64 * a + b = wbit (pw (pps st p));
  pq : forall p, precvq (pps st p) <> [] ->
       owed st (HPipe p) \/ exists t bm a b, In (IClimb (KLeaf bm a b (Some (HPipe p)))) (tcont (thr st t));
  pf : forall t j, In j (tfinal (thr st t)) -> finok j }.

Definition freshP (st : wstate) (t : tid) (j : instr) : Prop :=
  match j with
  | ILock _ (LPqLSend p _) => p = tpipe (thr st t) /\ 0 <= p /\ tcur (thr st t) <> None
  | IClimb (KLeaf bm a b (Some (HPipe p))) =>
      p = tpipe (thr st t) /\ 0 <= p /\ tcur (thr st t) <> None /\ 4096 * bm + 64 * a + b = wbit (pw (pps st p))
  | _ => True
  end.

Section PqStep.
  Variables (st st' : wstate) (t : tid) (pre r new : list instr) (chg : Z -> bool).
  Hypothesis Q : PqInv st.
  Hypothesis Hc : tcont (thr st t) = pre ++ r.
  Hypothesis Hc' : tcont (thr st' t) = new ++ r.
  Hypothesis Hn : nthr st' = nthr st.
  Hypothesis Ho : forall u, u <> t -> tcont (thr st' u) = tcont (thr st u).
  Hypothesis Hf : forall u, tfinal (thr st' u) = tfinal (thr st u) /\ tcur (thr st' u) = tcur (thr st u) /\
                            tscript (thr st' u) = tscript (thr st u) /\ tpipe (thr st' u) = tpipe (thr st u).
  Hypothesis Hpp : forall p, pexists (pps st' p) = pexists (pps st p) /\ pw (pps st' p) = pw (pps st p).
  Hypothesis Hpq : forall p, chg p = false -> precvq (pps st' p) = precvq (pps st p).
  Hypothesis How : forall p, chg p = false -> owed st (HPipe p) -> owed st' (HPipe p).
  Hypothesis Hnew : forall j, In j new -> freshP st t j.
  Hypothesis Hlh : forall bm a b p, In (IClimb (KLeaf bm a b (Some (HPipe p)))) pre -> chg p = false -> owed st' (HPipe p).
  Hypothesis Q0 : forall p, chg p = true -> precvq (pps st' p) <> [] ->
     owed st' (HPipe p) \/ exists u bm a b, In (IClimb (KLeaf bm a b (Some (HPipe p)))) (tcont (thr st' u)).

  Lemma pq_step : PqInv st'.
  Proof.
    constructor.
    - intros u. destruct (Hf u) as [A [B [C D]]]. rewrite Hn, A, B, C, D. unfold pclaim.
      destruct (Hpp (tpipe (thr st u))) as [X Y]. rewrite X, Y. apply (pk st Q u).
    - intros u m0 p m Hin. destruct (Hf u) as [_ [B [_ D]]]. rewrite B, D.
      destruct (Nat.eq_dec u t) as [->|Hu].
      + rewrite Hc' in Hin. apply in_app_or in Hin. destruct Hin as [Hin|Hin].
        * exact (Hnew _ Hin).
        * apply (pc st Q t m0 p m). rewrite Hc. apply in_or_app. auto.
      + rewrite (Ho u Hu) in Hin. apply (pc st Q u m0 p m Hin).
    - intros u bm a b p Hin. destruct (Hf u) as [_ [B [_ D]]]. rewrite B, D. destruct (Hpp p) as [_ Y]. rewrite Y.
      destruct (Nat.eq_dec u t) as [->|Hu].
      + rewrite Hc' in Hin. apply in_app_or in Hin. destruct Hin as [Hin|Hin].
        * exact (Hnew _ Hin).
        * apply (pc2 st Q t bm a b p). rewrite Hc. apply in_or_app. auto.
      + rewrite (Ho u Hu) in Hin. apply (pc2 st Q u bm a b p Hin).
    - intros p Hq. destruct (chg p) eqn:Eg; [apply Q0; auto|]. rewrite (Hpq p Eg) in Hq.
      destruct (pq st Q p Hq) as [O|[u [bm [a [b Hin]]]]]; [left; apply How; auto|].
      destruct (Nat.eq_dec u t) as [->|Hu].
      + rewrite Hc in Hin. apply in_app_or in Hin. destruct Hin as [Hin|Hin].
        * left. eapply Hlh; eauto.
        * right. exists t, bm, a, b. rewrite Hc'. apply in_or_app. auto.
      + right. exists u, bm, a, b. rewrite (Ho u Hu). exact Hin.
    - intros u j. destruct (Hf u) as [A _]. rewrite A. apply (pf st Q u).
  Qed.
End PqStep.

Lemma pq_same : forall st st',
  nthr st' = nthr st ->
  (forall u, tcont (thr st' u) = tcont (thr st u) /\ tfinal (thr st' u) = tfinal (thr st u) /\ tcur (thr st' u) = tcur (thr st u) /\
             tscript (thr st' u) = tscript (thr st u) /\ tpipe (thr st' u) = tpipe (thr st u)) ->
  pps st' = pps st -> (forall h, owed st h -> owed st' h) ->
  PqInv st -> PqInv st'.
Proof.
  intros st st' Hn Hf Hp Ow Q. constructor.
  - intros u. destruct (Hf u) as [_ [A [B [C D]]]]. rewrite Hn, A, B, C, D. unfold pclaim. rewrite Hp. apply (pk st Q u).
  - intros u m0 p m. destruct (Hf u) as [E [_ [B [_ D]]]]. rewrite E, B, D. apply (pc st Q u).
  - intros u bm a b p. destruct (Hf u) as [E [_ [B [_ D]]]]. rewrite E, B, D, Hp. apply (pc2 st Q u).
  - intros p. rewrite Hp. intro Hq. destruct (pq st Q p Hq) as [O|[u [bm [a [b Hin]]]]]; [left; auto|].
    right. exists u, bm, a, b. destruct (Hf u) as [E _]. rewrite E. exact Hin.
  - intros u j. destruct (Hf u) as [_ [A _]]. rewrite A. apply (pf st Q u).
Qed.

(** a thread with an empty continuation changes its command bookkeeping and installs [new] *)
Lemma pq_idle : forall st st' t new,
  PqInv st -> tcont (thr st t) = [] -> tcont (thr st' t) = new ->
  nthr st' = nthr st -> (forall u, u <> t -> thr st' u = thr st u) -> tpipe (thr st' t) = tpipe (thr st t) ->
  pps st' = pps st -> gnew st' = gnew st -> gcol st' = gcol st ->
  ((t < nthr st)%nat -> 0 <= tpipe (thr st t) -> (tcur (thr st' t) <> None \/ tscript (thr st' t) <> []) ->
   pexists (pps st (tpipe (thr st t))) = true /\ In (pclaim st (tpipe (thr st t))) (pushes (tfinal (thr st' t)))) ->
  (forall j, In j new -> freshP st' t j) ->
  (forall j, In j (tfinal (thr st' t)) -> finok j) ->
  PqInv st'.
Proof.
  intros st st' t new Q Hc Hc' Hn Ho Htp Hp Hgn Hgc Hk Hnew Hfin.
  assert (Ow : forall h, owed st' h <-> owed st h) by (intro h; unfold owed; rewrite Hgn, Hgc; tauto).
  constructor.
  - intros u. destruct (Nat.eq_dec u t) as [->|Hu].
    + rewrite Hn, Htp. unfold pclaim. rewrite Hp. apply Hk.
    + rewrite Hn, (Ho u Hu). unfold pclaim. rewrite Hp. apply (pk st Q u).
  - intros u m0 p m Hin. destruct (Nat.eq_dec u t) as [->|Hu].
    + rewrite Hc' in Hin. exact (Hnew _ Hin).
    + rewrite (Ho u Hu) in *. apply (pc st Q u m0 p m Hin).
  - intros u bm a b p Hin. destruct (Nat.eq_dec u t) as [->|Hu].
    + rewrite Hc' in Hin. exact (Hnew _ Hin).
    + rewrite (Ho u Hu) in *. rewrite Hp. apply (pc2 st Q u bm a b p Hin).
  - intros p. rewrite Hp, Ow. intro Hq. destruct (pq st Q p Hq) as [O|[u [bm [a [b Hin]]]]]; [left; auto|].
    right. exists u, bm, a, b. destruct (Nat.eq_dec u t) as [->|Hu]; [rewrite Hc in Hin; destruct Hin|rewrite (Ho u Hu); exact Hin].
  - intros u j. destruct (Nat.eq_dec u t) as [->|Hu]; [apply Hfin|rewrite (Ho u Hu); apply (pf st Q u)].
Qed.

Lemma leaf_join : forall st t bm a b who r x,
  CInv (core st) -> tcont (thr st t) = IClimb (KLeaf bm a b who) :: r -> 4096 * bm + 64 * a + b = x ->
  bitmap_join a b (bmbase st bm) = Some x.
Proof.
  intros st t bm a b who r x I Hc E. pose proof (i_slab _ I) as SI.
  pose proof (i_wf _ I t (IClimb (KLeaf bm a b who))) as W. cbn [core c_cont] in W. rewrite Hc in W.
  destruct (W (or_introl eq_refl)) as [Hreg [Ha Hb]].
  pose proof (s_base _ SI bm Hreg) as Hbase. cbn [core c_base] in Hbase.
  destruct (creg_bound _ bm SI Hreg) as [B0 B1].
  rewrite Hbase, bitmap_join_spec by lia. f_equal. lia.
Qed.

Lemma pristine_lt : forall st t, pristine st -> tcont (thr st t) <> [] -> (t < nthr st)%nat.
Proof.
  intros st t [_ P] Hne. destruct (le_lt_dec (nthr st) t) as [Hge|Hlt]; [|exact Hlt].
  destruct (P t Hge) as [E _]. congruence.
Qed.

(** the slot of a pipe whose worker is inside a command still holds the pipe's handler *)
Lemma pipe_slot : forall st t p,
  pristine st -> SlInv st -> PqInv st -> tcont (thr st t) <> [] ->
  p = tpipe (thr st t) -> 0 <= p -> tcur (thr st t) <> None ->
  slab_get (sl st) (wbit (pw (pps st p))) = Some (HPipe p) /\ pexists (pps st p) = true.
Proof.
  intros st t p P S Q Hne -> H0 Hcur.
  destruct (pk st Q t (pristine_lt st t P Hne) H0 (or_introl Hcur)) as [A B]. split; [|exact A].
  apply (sl_claim st S). right; right. exists t. unfold tpushes. apply in_or_app. right. exact B.
Qed.

Lemma climb_at_who : forall st bit bm w i, climb_at st bit bm w = Some i -> exists a b, i = IClimb (KLeaf bm a b w).
Proof.
  intros st bit bm w i H. unfold climb_at in H.
  destruct (bitmap_split bit (bmbase st bm)) as [[a b]|]; [|discriminate].
  destruct ((a <? USIZE_BITS) && registered st bm); inversion H; eauto.
Qed.

Lemma HPipe_neq : forall p0 p, (p0 =? p) = false -> HPipe p0 <> HPipe p.
Proof. intros p0 p E F. inversion F; subst. rewrite Z.eqb_refl in E. discriminate. Qed.

Ltac pq_hf := let u := fresh "u" in intro u; repeat split; thr_simpl.
Ltac pq_upd := cbn; unfold updZ;
  repeat match goal with |- context [?a =? ?b] => destruct (Z.eqb_spec a b); subst end; cbn.
Ltac pq_pps := intros ?; pq_upd; split; reflexivity.
Ltac pq_pq := intros ? _; pq_upd; reflexivity.
Ltac pq_owed := let Hw := fresh "Hw" in intros ? _ Hw; revert Hw; unfold owed; cbn; rewrite ?updH_other by discriminate; auto.
Ltac pq_new := let j := fresh "j" in let Hj := fresh "Hj" in intros j Hj; in_cases Hj; cbn; auto.
Ltac pq_nolh := let Hj := fresh "Hj" in
  intros ? ? ? ? Hj;
  first [ cbn in Hj; repeat (destruct Hj as [Hj|Hj]); try discriminate Hj; try contradiction; fail
        | exfalso; match goal with Hn : forall bm a b p, In (IClimb (KLeaf bm a b (Some (HPipe p)))) _ -> False |- _ => exact (Hn _ _ _ _ Hj) end ].
Ltac pqn st t pre r new :=
  apply (pq_step st _ t pre r new (fun _ => false));
  [ assumption | eassumption | thr_simpl | reflexivity | thr_simpl | pq_hf | pq_pps | pq_pq | pq_owed | pq_new | pq_nolh
  | intros; discriminate ].

Lemma exec_lact_Pq : forall st t hd a r st' ev,
  CInv (core st) -> WInv st -> pristine st -> PqInv st ->
  tcont (thr st t) = [hd] ++ r ->
  (forall bm a b p, hd <> IClimb (KLeaf bm a b (Some (HPipe p)))) ->
  (forall p m, a = LPqLSend p m -> exists m0, hd = ILock m0 a) ->
  exec_lact st t a r = (st', ev) -> PqInv st'.
Proof.
  intros st t hd a r st' ev I W P Q Hc Hhd Hls H.
  assert (Hn : forall bm a b p, In (IClimb (KLeaf bm a b (Some (HPipe p)))) [hd] -> False)
    by (intros bm a0 b p [E|[]]; eapply Hhd; eauto).
  destruct a; cbn [exec_lact] in H.
  - destruct (climb_reserved st bm) as [i|] eqn:Ecl; inversion H; subst; clear H.
    + apply climb_at_who in Ecl. destruct Ecl as [a [b ->]]. pqn st t [hd] r [IClimb (KLeaf bm a b None); IUnlock MDL UNone].
    + pqn st t [hd] r [IUnlock MDL UNone].
  - unfold ghost_handler in H. inversion H; subst; clear H. pqn st t [hd] r [IUnlock MDL (UDels (dl st))].
  - inversion H; subst; clear H. pqn st t [hd] r [IUnlock (MCh c) (UChReg c)].
  - destr_all H; repeat match goal with E : climb_start _ _ _ = Some _ |- _ => apply climb_at_who in E; destruct E as [? [? ->]] end;
      inversion H; subst; clear H.
    + pqn st t [hd] r [IClimb (KLeaf (wbm (cw (chs st c))) x x0 (Some (HChan c))); IUnlock (MCh c) (UChPush c m)].
    + pqn st t [hd] r [IUnlock (MCh c) (UChPush c m)].
    + pqn st t [hd] r [IUnlock (MCh c) (UChPush c m)].
    + pqn st t [hd] r [IUnlock (MCh c) (URet (RBool false))].
  - inversion H; subst; clear H. pqn st t [hd] r [IUnlock (MCh c) (URet (RBool (negb (copen (chs st c)))))].
  - destruct (copen (chs st c)); inversion H; subst; clear H.
    + pqn st t [hd] r [ILock MDL (LPush (wbit (cw (chs st c))) (wbm (cw (chs st c))) (HChan c)); IUnlock (MCh c) (UChClear c)].
    + pqn st t [hd] r [IUnlock (MCh c) (UChClear c)].
  - unfold ghost_handler in H. inversion H; subst; clear H.
    destruct del; pqn st t [hd] r [IUnlock (MCh c) (UFwd c (if copen (chs st c) then cq (chs st c) else []))].
  - (* LPqHandler: takes the whole reply queue *)
    unfold ghost_handler in H. inversion H; subst; clear H.
    match goal with |- PqInv ?S' => set (st' := S') end.
    apply (pq_step st st' t [hd] r [IUnlock (MPq p) (UPqFwd p (precvq (pps st p)) (if del then Some (ppanic (pps st p)) else None))]
             (fun p0 => p0 =? p) Q Hc).
    + unfold st'. destruct del; thr_simpl.
    + unfold st'. destruct del; reflexivity.
    + unfold st'. destruct del; thr_simpl.
    + unfold st'. destruct del; pq_hf.
    + unfold st'. destruct del; pq_pps.
    + intros p0 E. unfold st'. destruct del; cbn; unfold updZ; rewrite E; reflexivity.
    + intros p0 E Hw. pose proof (HPipe_neq _ _ E) as N. revert Hw. unfold st', owed. destruct del; cbn; rewrite ?updH_other by exact N; auto.
    + pq_new.
    + pq_nolh.
    + intros p0 E Hq. apply Z.eqb_eq in E. subst p0. exfalso. apply Hq. unfold st'. destruct del; cbn; unfold updZ; rewrite Z.eqb_refl; reflexivity.
  - destr_all H; inversion H; subst; clear H.
    + pqn st t [hd] r [IUnlock (MPq p) UNone; INotify p].
    + pqn st t [hd] r [IUnlock (MPq p) UNone].
  - inversion H; subst; clear H. pqn st t [hd] r [IUnlock (MPq p) UNone; INotify p].
  - destr_all H; inversion H; subst; clear H.
    + pqn st t [hd] r [IUnlock (MPq p) (URet RNoneV)].
    + pqn st t [hd] r [ICvWait p; ICvReacq p].
    + pqn st t [hd] r [IUnlock (MPq p) (URet (RVal z))].
  - (* LPqLSend *)
    destruct (Hls p m eq_refl) as [m0 Ehd]. subst hd.
    destruct (pc st Q t m0 p m) as [Ep [H0 Hcur]]; [rewrite Hc; left; reflexivity|].
    assert (Hne : tcont (thr st t) <> []) by (rewrite Hc; discriminate).
    pose proof (pristine_lt st t P Hne) as Ht.
    assert (Hex : pexists (pps st p) = true).
    { rewrite Ep. rewrite Ep in H0. exact (proj1 (pk st Q t Ht H0 (or_introl Hcur))). }
    destruct (precvq (pps st p)) eqn:Eq.
    + destruct (climb_start_ok st (pw (pps st p)) (Some (HPipe p)) I (ww_pp st W p Hex)) as [a [b [E [Ha [Hb Hx]]]]].
      rewrite E in H. cbn [olist app] in H. inversion H; subst st' ev; clear H.
      match goal with |- PqInv ?S' => set (st' := S') end.
      apply (pq_step st st' t [ILock m0 (LPqLSend p m)] r
               [IUnlock (MPq p) (URet (RBool (negb (pcancel (pps st p))))); IClimb (KLeaf (wbm (pw (pps st p))) a b (Some (HPipe p)))]
               (fun p0 => p0 =? p) Q Hc).
      * unfold st'. thr_simpl.
      * reflexivity.
      * unfold st'. thr_simpl.
      * unfold st'. pq_hf.
      * unfold st'. pq_pps.
      * intros p0 E0. unfold st'. cbn. unfold updZ. rewrite E0. reflexivity.
      * intros p0 _ Hw. exact Hw.
      * intros j Hj. in_cases Hj; cbn; auto.
      * pq_nolh.
      * intros p0 E0 _. apply Z.eqb_eq in E0. subst p0. right.
        exists t, (wbm (pw (pps st p))), a, b. unfold st'. cbn. unfold updN, th. rewrite Nat.eqb_refl. cbn. right; left. reflexivity.
    + inversion H; subst st' ev; clear H. cbn [app].
      match goal with |- PqInv ?S' => set (st' := S') end.
      assert (Hc' : tcont (thr st' t) = [IUnlock (MPq p) (URet (RBool (negb (pcancel (pps st p)))))] ++ r) by (unfold st'; thr_simpl).
      assert (Ho : forall u, u <> t -> tcont (thr st' u) = tcont (thr st u)) by (unfold st'; thr_simpl).
      apply (pq_step st st' t [ILock m0 (LPqLSend p m)] r _ (fun p0 => p0 =? p) Q Hc Hc' eq_refl Ho).
      * unfold st'. pq_hf.
      * unfold st'. pq_pps.
      * intros p0 E0. unfold st'. cbn. unfold updZ. rewrite E0. reflexivity.
      * intros p0 _ Hw. exact Hw.
      * pq_new.
      * pq_nolh.
      * intros p0 E0 _. apply Z.eqb_eq in E0. subst p0.
        destruct (pq st Q p) as [O|[u [bm [a [b Hin]]]]]; [rewrite Eq; discriminate|left; exact O|]. right.
        exists u, bm, a, b. destruct (Nat.eq_dec u t) as [->|Hu]; [|rewrite (Ho u Hu); exact Hin].
        rewrite Hc' . rewrite Hc in Hin. destruct Hin as [Hin|Hin]; [discriminate Hin|]. right. exact Hin.
  - inversion H; subst; clear H. pqn st t [hd] r [IUnlock (MPq p) (URet (RBool (pcancel (pps st p))))].
  - inversion H; subst; clear H. pqn st t [hd] r [IUnlock (MPq p) UNone].
Qed.

Lemma exec_uact_Pq : forall st t m a r st' ev,
  PqInv st -> tcont (thr st t) = [IUnlock m a] ++ r -> exec_uact st t a r = (st', ev) -> PqInv st'.
Proof.
  intros st t m a r st' ev Q Hc H.
  destruct a; cbn [exec_uact] in H; inversion H; subst; clear H.
  - pqn st t [IUnlock m UNone] r (@nil instr).
  - pqn st t [IUnlock m (URet v)] r (@nil instr).
  - pqn st t [IUnlock m (UDels l)] r [IDels l].
  - pqn st t [IUnlock m (UChReg c)] r (@nil instr).
  - pqn st t [IUnlock m (UChPush c m0)] r (@nil instr).
  - pqn st t [IUnlock m (UChClear c)] r (@nil instr).
  - pqn st t [IUnlock m (UFwd c msgs)] r (@nil instr).
  - pqn st t [IUnlock m (UPqFwd p msgs term)] r (@nil instr).
Qed.

Lemma exec_climb_Pq : forall st t k r st' ev,
  CInv (core st) -> pristine st -> SlInv st -> PqInv st -> tcont (thr st t) = [IClimb k] ++ r ->
  exec_climb st t k r = (st', ev) -> PqInv st'.
Proof.
  intros st t k r st' ev I P S Q Hc H.
  destruct k; cbn [exec_climb] in H; inversion H; subst; clear H.
  - match goal with |- PqInv ?S' => set (st' := S') end.
    assert (Gn : forall h, gnew st h <> None -> gnew st' h <> None).
    { intros h Hn. unfold st'. destruct (bitmap_join a b (bmbase st bm)); [destruct (slab_get (sl st) z)|]; cbn; auto.
      unfold updH. destruct (hkind_eqb h h0); auto. unfold ovjoin. destruct (gnew st h0); discriminate. }
    assert (Gc : gcol st' = gcol st).
    { unfold st'. destruct (bitmap_join a b (bmbase st bm)); [destruct (slab_get (sl st) z)|]; reflexivity. }
    assert (Hpp : pps st' = pps st).
    { unfold st'. destruct (bitmap_join a b (bmbase st bm)); [destruct (slab_get (sl st) z)|]; reflexivity. }
    assert (Hn : nthr st' = nthr st).
    { unfold st'. destruct (bitmap_join a b (bmbase st bm)); [destruct (slab_get (sl st) z)|]; reflexivity. }
    assert (Ho : forall u, u <> t -> tcont (thr st' u) = tcont (thr st u)).
    { unfold st'. destruct (bitmap_join a b (bmbase st bm)); [destruct (slab_get (sl st) z)|]; thr_simpl. }
    assert (Hf : forall u, tfinal (thr st' u) = tfinal (thr st u) /\ tcur (thr st' u) = tcur (thr st u) /\
                           tscript (thr st' u) = tscript (thr st u) /\ tpipe (thr st' u) = tpipe (thr st u)).
    { unfold st'. destruct (bitmap_join a b (bmbase st bm)); [destruct (slab_get (sl st) z)|]; pq_hf. }
    assert (Hc' : tcont (thr st' t) = (if leaf st bm a =? 0 then [IClimb (KSum bm a)] else []) ++ r).
    { unfold st'. destruct (bitmap_join a b (bmbase st bm)); [destruct (slab_get (sl st) z)|]; destruct (leaf st bm a =? 0); thr_simpl. }
    apply (pq_step st st' t [IClimb (KLeaf bm a b who)] r _ (fun _ => false) Q Hc Hc' Hn Ho Hf).
    + intro p. rewrite Hpp. split; reflexivity.
    + intros p _. rewrite Hpp. reflexivity.
    + intros p _ [Hw|Hw]; [left; apply Gn; exact Hw|right; rewrite Gc; exact Hw].
    + intros j Hj. destruct (leaf st bm a =? 0); in_cases Hj. exact Logic.I.
    + intros bm' a' b' p [E|[]] _. inversion E; subst bm' a' b' who.
      destruct (pc2 st Q t bm a b p) as [Ep [H0 [Hcur Hx]]]; [rewrite Hc; left; reflexivity|].
      assert (Hne : tcont (thr st t) <> []) by (rewrite Hc; discriminate).
      destruct (pipe_slot st t p P S Q Hne Ep H0 Hcur) as [Hs _].
      pose proof (leaf_join st t bm a b (Some (HPipe p)) r _ I Hc Hx) as Ej.
      left. unfold st'. rewrite Ej, Hs. cbn. rewrite updH_same. unfold ovjoin. destruct (gnew st (HPipe p)); discriminate.
    + intros; discriminate.
  - destruct (summ st bm =? 0); [pqn st t [IClimb (KSum bm a)] r [IClimb (KTop bm)]|pqn st t [IClimb (KSum bm a)] r (@nil instr)].
  - destruct (top st =? 0); [pqn st t [IClimb (KTop bm)] r [IClimb KCb]|pqn st t [IClimb (KTop bm)] r (@nil instr)].
  - pqn st t [IClimb KCb] r (@nil instr).
Qed.

Lemma exec_instr_Pq : forall st t i r st' ev,
  CInv (core st) -> WInv st -> pristine st -> SlInv st -> ChInv st -> PqInv st ->
  tcont (thr st t) = i :: r -> exec_instr st t i r = (st', ev) -> PqInv st'.
Proof.
  intros st t i r st' ev I W P S C Q Hc H.
  assert (Hc0 : tcont (thr st t) = [i] ++ r) by exact Hc.
  destruct i; cbn [exec_instr] in H.
  - eapply exec_climb_Pq; eauto.
  - inversion H; subst; clear H. pqn st t [ITopSwap] r [IBms (flat_map (bms_of_slot st) (bits_of (top st)))].
  - destruct bms; inversion H; subst; clear H; [exact Q|].
    pqn st t [IBms (z :: bms)] r [ILeaves z (bits_of (summ st z)); IBms bms].
  - destruct ls; [inversion H; subst; exact Q|].
    destruct (collect (bmbase st bm) z (leaf st bm z)) as [bits ok].
    match type of H with context [ghost_collect ?S0 bits] =>
      destruct (ghost_collect_sl bits S0) as [_ [_ [_ [_ [A5 [_ [A7 A8]]]]]]];
      pose proof (ghost_collect_owed bits S0) as A4; remember (ghost_collect S0 bits) as s3 eqn:Es3 end.
    cbn zeta in *. inversion H; subst st' ev; clear H.
    match goal with |- PqInv ?S' => set (st' := S') end.
    assert (C1 : tcont (thr st' t) = [ILeaves bm ls] ++ r).
    { unfold st'. cbn -[Nat.eqb]. unfold updN, th. rewrite A8. cbn -[Nat.eqb]. unfold updN, th. rewrite !Nat.eqb_refl. reflexivity. }
    assert (C3 : forall u, u <> t -> tcont (thr st' u) = tcont (thr st u)).
    { intros u Hu. unfold st'. cbn -[Nat.eqb]. unfold updN, th. rewrite A8. cbn -[Nat.eqb]. unfold updN, th.
      destruct (Nat.eqb_spec u t); [congruence|]. reflexivity. }
    assert (Hf : forall u, tfinal (thr st' u) = tfinal (thr st u) /\ tcur (thr st' u) = tcur (thr st u) /\
                           tscript (thr st' u) = tscript (thr st u) /\ tpipe (thr st' u) = tpipe (thr st u)).
    { intro u. unfold st'. cbn -[Nat.eqb]. unfold updN, th. rewrite A8. cbn -[Nat.eqb]. unfold updN, th.
      destruct (Nat.eqb_spec u t); subst; rewrite ?Nat.eqb_refl; cbn; repeat split; reflexivity. }
    assert (Hn : nthr st' = nthr st) by (unfold st'; cbn; rewrite A5; reflexivity).
    apply (pq_step st st' t [ILeaves bm (z :: ls)] r [ILeaves bm ls] (fun _ => false) Q Hc0 C1 Hn C3 Hf).
    + intro p. unfold st'. cbn. rewrite A7. split; reflexivity.
    + intros p _. unfold st'. cbn. rewrite A7. reflexivity.
    + intros p _ Hw. unfold st', owed. cbn. apply A4. unfold owed. cbn. exact Hw.
    + pq_new.
    + pq_nolh.
    + intros; discriminate.
  - inversion H; subst; exact Q.
  - inversion H; subst; exact Q.
  - inversion H; subst; exact Q.
  - (* lock *)
    match type of H with context [exec_lact ?S0 t ?aa ?rr] => destruct (exec_lact S0 t aa rr) as [s2 e2] eqn:E; set (s1 := S0) in * end.
    inversion H; subst; clear H.
    assert (I1 : CInv (core s1)) by (eapply CInv_ceq; [|exact I]; unfold s1; same_core).
    assert (Ww1 : WInv s1) by (unfold s1; ww_refl W).
    assert (P1 : pristine s1) by (unfold s1; destruct P as [P0 P]; split; [exact P0|]; intros u Hu; cbn -[Nat.eqb]; unfold updN, th;
                                   destruct (Nat.eqb_spec u t); subst; cbn; [|apply P; exact Hu];
                                   destruct (P t Hu) as [X _]; rewrite Hc in X; discriminate).
    assert (Q1 : PqInv s1).
    { apply (pq_same st); auto; try reflexivity. intro u. unfold s1. repeat split; thr_simpl. }
    apply (exec_lact_Pq s1 t (ILock m a) a r st' e2 I1 Ww1 P1 Q1); [| | |exact E].
    + unfold s1. thr_simpl.
    + intros; discriminate.
    + intros p m0 ->. eexists; reflexivity.
  - destruct (exec_uact st t a r) as [s1 e1] eqn:E. inversion H; subst; clear H.
    pose proof (exec_uact_Pq st t m a r s1 e1 Q Hc0 E) as Q1.
    apply (pq_same s1); auto; try reflexivity.
  - inversion H; subst; clear H. pqn st t [ICvWait p] r (@nil instr).
  - match type of H with context [exec_lact ?S0 t ?aa ?rr] => destruct (exec_lact S0 t aa rr) as [s2 e2] eqn:E; set (s1 := S0) in * end.
    inversion H; subst; clear H.
    assert (Q1 : PqInv s1).
    { apply (pq_same st); auto; try reflexivity. intro u. unfold s1. repeat split; thr_simpl. }
    assert (Hc1 : tcont (thr s1 t) = [ICvReacq p] ++ r) by (unfold s1; thr_simpl; exact Hc).
    clear - Q1 Hc1 E. cbn [exec_lact] in E. destr_all E; inversion E; subst; clear E.
    + pqn s1 t [ICvReacq p] r [IUnlock (MPq p) (URet RNoneV)].
    + pqn s1 t [ICvReacq p] r [ICvWait p; ICvReacq p].
    + pqn s1 t [ICvReacq p] r [IUnlock (MPq p) (URet (RVal z))].
  - inversion H; subst st' ev; clear H.
    match goal with |- PqInv (set_cont (fold_left ?f ?us st) t r) =>
      destruct (notify_fold_spec us st) as [_ [_ [_ [_ [_ [_ [_ [A8 [A9 [A10 [_ A12]]]]]]]]]]];
      destruct (notify_fold_frame us st) as [B1 _];
      destruct (notify_fold_wait us st) as [_ [_ B3]];
      assert (D : forall u, tcur (thr (fold_left f us st) u) = tcur (thr st u) /\ tscript (thr (fold_left f us st) u) = tscript (thr st u) /\
                            tpipe (thr (fold_left f us st) u) = tpipe (thr st u));
      [clear; generalize us; intro us0; revert st; induction us0 as [|v us0 IH]; intro st; [intro; repeat split; reflexivity|];
       cbn [fold_left]; intro u; destruct (IH (upd_th st v (set_twaiting (th st v) false)) u) as [X [Y Z]]; rewrite X, Y, Z;
       cbn; unfold updN, th; destruct (Nat.eqb_spec u v); subst; cbn; repeat split; reflexivity|];
      set (s1 := fold_left f us st) in * end.
    cbn zeta in *.
    assert (Q1 : PqInv s1).
    { apply (pq_same st); [exact B1| |exact B3| |exact Q].
      - intro u. destruct (D u) as [X [Y Z]]. repeat split; auto.
      - intro h. unfold owed. rewrite A8, A9. auto. }
    assert (Hc1 : tcont (thr s1 t) = [INotify p] ++ r) by (rewrite A10; exact Hc).
    pqn s1 t [INotify p] r (@nil instr).
  - assert (Hp : exists w, h = HPlain w).
    { apply (ch_wf st C t (IYieldH h del)). rewrite Hc. left. reflexivity. }
    destruct Hp as [w ->].
    unfold ghost_handler in H. inversion H; subst; clear H.
    destruct del; [pqn st t [IYieldH (HPlain w) true] r (@nil instr)|pqn st t [IYieldH (HPlain w) false] r (@nil instr)].
  - inversion H; subst; clear H. pqn st t [IJoin] r (@nil instr).
  - inversion H; subst; clear H. pqn st t [IIdle] r (@nil instr).
Qed.

Lemma pq_spawn : forall s t p f,
  PqInv s -> pristine s ->
  (0 <= p -> pexists (pps s p) = true /\ In (pclaim s p) (pushes f)) -> (forall j, In j f -> finok j) ->
  PqInv (spawn_thread s t p f).
Proof.
  intros s t p f Q [P0 P] Hk Hf.
  set (s' := spawn_thread s t p f).
  assert (T : forall u, u <> nthr s -> thr s' u = thr s u).
  { intros u Hu. unfold s'. cbn. unfold updN. destruct (Nat.eqb_spec u (nthr s)); [congruence|reflexivity]. }
  assert (Tn : thr s' (nthr s) = mkThread false [] (scripts s (nthr s)) f None RUnit [] false p (tclk (th s t))).
  { unfold s'. cbn. unfold updN. rewrite Nat.eqb_refl. reflexivity. }
  assert (Hp : pps s' = pps s) by reflexivity.
  assert (Ow : forall h, owed s' h <-> owed s h) by (intro h; unfold owed; tauto).
  constructor.
  - intros u Hu. destruct (Nat.eq_dec u (nthr s)) as [->|Hn].
    + rewrite Tn. cbn. intros H0 _. unfold pclaim. rewrite Hp. apply Hk. exact H0.
    + rewrite (T u Hn). unfold pclaim. rewrite Hp. apply (pk s Q u). unfold s' in Hu. cbn in Hu. lia.
  - intros u m0 q m. destruct (Nat.eq_dec u (nthr s)) as [->|Hn]; [rewrite Tn; intros []|rewrite (T u Hn); apply (pc s Q u)].
  - intros u bm a b q. destruct (Nat.eq_dec u (nthr s)) as [->|Hn]; [rewrite Tn; intros []|rewrite (T u Hn), Hp; apply (pc2 s Q u)].
  - intros q. rewrite Hp, Ow. intro Hq. destruct (pq s Q q Hq) as [O|[u [bm [a [b Hin]]]]]; [left; auto|].
    right. exists u, bm, a, b. destruct (Nat.eq_dec u (nthr s)) as [->|Hn]; [|rewrite (T u Hn); exact Hin].
    destruct (P (nthr s) (le_n _)) as [E _]. rewrite E in Hin. destruct Hin.
  - intros u j. destruct (Nat.eq_dec u (nthr s)) as [->|Hn]; [rewrite Tn; apply Hf|rewrite (T u Hn); apply (pf s Q u)].
Qed.

Lemma pq_newpipe : forall s p wi,
  PqInv s -> pristine s -> pexists (pps s p) = false ->
  PqInv (set_pipe s p (mkPipe true true false false [] [] wi)).
Proof.
  intros s p wi Q P Hex.
  set (s' := set_pipe s p (mkPipe true true false false [] [] wi)).
  assert (Hp : forall q, q <> p -> pps s' q = pps s q).
  { intros q Hq. unfold s'. cbn. unfold updZ. destruct (Z.eqb_spec q p); [congruence|reflexivity]. }
  assert (Ow : forall h, owed s' h <-> owed s h) by (intro h; unfold owed; tauto).
  assert (Act : forall u, (u < nthr s)%nat -> 0 <= tpipe (thr s u) -> (tcur (thr s u) <> None \/ tscript (thr s u) <> []) ->
                          tpipe (thr s u) <> p).
  { intros u Hu H0 Ha E. destruct (pk s Q u Hu H0 Ha) as [X _]. rewrite E in X. congruence. }
  constructor.
  - intros u Hu H0 Ha. change (thr s' u) with (thr s u) in *. change (nthr s') with (nthr s) in Hu.
    pose proof (Act u Hu H0 Ha) as N. unfold pclaim. rewrite (Hp _ N). apply (pk s Q u Hu H0 Ha).
  - intros u m0 q m. apply (pc s Q u).
  - intros u bm a b q Hin. change (thr s' u) with (thr s u) in *.
    destruct (pc2 s Q u bm a b q Hin) as [A [B [C D]]].
    assert (Hne : tcont (thr s u) <> []) by (intro E; rewrite E in Hin; destruct Hin).
    assert (N : q <> p) by (rewrite A; apply (Act u (pristine_lt s u P Hne)); [rewrite <- A; exact B|left; exact C]).
    rewrite (Hp q N). auto.
  - intros q Hq. destruct (Z.eq_dec q p) as [->|N].
    + exfalso. apply Hq. unfold s'. cbn. unfold updZ. rewrite Z.eqb_refl. reflexivity.
    + rewrite (Hp q N) in Hq. rewrite Ow. apply (pq s Q q Hq).
  - intros u j. apply (pf s Q u).
Qed.

Ltac pqb st t new :=
  apply (pq_step st _ t (@nil instr) (@nil instr) new (fun _ => false));
  [ assumption | eassumption | thr_simpl | reflexivity | thr_simpl | pq_hf | pq_pps | pq_pq | pq_owed | pq_new | pq_nolh
  | intros; discriminate ].

Lemma begin_cmd_Pq : forall st t c st' ev done,
  CInv (core st) -> pristine st -> PqInv st -> tcont (thr st t) = [] -> (t < nthr st)%nat ->
  tcur (thr st t) <> None ->
  begin_cmd st t c = (st', ev, done) -> PqInv st'.
Proof.
  intros st t c st' ev done I P Q Hc Ht Hcur H.
  assert (Hc0 : tcont (thr st t) = [] ++ []) by exact Hc.
  assert (Add : forall h st1 wi, wh_add st h = Some (st1, wi) -> PqInv st1 /\ pristine st1 /\ thr st1 = thr st /\ pps st1 = pps st /\ nthr st1 = nthr st).
  { intros h st1 wi E.
    destruct (wh_add_core _ _ _ _ E) as [c1 [A [B [C1 [C2 [C3 [C4 [C5 [C6 [C7 C8]]]]]]]]]].
    destruct (wh_add_ghost _ _ _ _ E) as [G1 G2].
    split; [|split; [|auto]].
    - apply (pq_same st); auto.
      + intro u. rewrite C1. repeat split; reflexivity.
      + intro h0. unfold owed. rewrite G1, G2. auto.
    - destruct P as [P0 P]. split; [lia|]. intros u Hu. rewrite C1. apply P. lia. }
  destruct c; cbn [begin_cmd] in H.
  - destruct (wreg st w) as [wi|]; [|inversion H; subst; auto].
    destruct (climb_start st wi (Some (HPlain w))) as [i|] eqn:E; inversion H; subst; clear H; [|auto].
    apply climb_at_who in E. destruct E as [a [b ->]]. pqb st t [IClimb (KLeaf (wbm wi) a b (Some (HPlain w)))].
  - destruct (wreg st w) as [wi|] eqn:Ew; [|inversion H; subst; auto].
    destruct (wbusy st w); inversion H; subst; clear H.
    + pqb st t [ILock MDL (LPush (wbit wi) (wbm wi) (HPlain w))].
    + apply (pq_same st); auto; try (intro u; repeat split; reflexivity).
  - destruct (Waker.creg (chs st c)); inversion H; subst; clear H; [|auto]. pqb st t [ILock (MCh c) (LChSend c m)].
  - destruct (Waker.creg (chs st c)); inversion H; subst; clear H; [|auto]. pqb st t [ILock (MCh c) (LChClosed c)].
  - destruct (negb (is_main t) || wused st w || (1000000 <=? w) || (w <? 0)); [inversion H; subst; auto|].
    destruct (wh_add st (HPlain w)) as [[st1 wi]|] eqn:E; inversion H; subst; clear H; [|auto].
    destruct (Add _ _ _ E) as [Q1 _]. apply (pq_same st1); auto; try (intro u; repeat split; reflexivity).
  - destruct (negb (is_main t)); [inversion H; subst; auto|].
    destruct (fill_loop (Z.to_nat n) st []) as [st1 ev1] eqn:E. inversion H; subst; clear H.
    destruct (fill_loop_pps _ _ _ _ _ E) as [A B]. destruct (fill_loop_ghost _ _ _ _ _ E) as [G1 G2].
    apply (pq_same st); auto.
    + eapply fill_loop_nthr; eauto.
    + intro u. rewrite B. repeat split; reflexivity.
    + intro h0. unfold owed. rewrite G1, G2. auto.
  - destruct (negb (is_main t)); inversion H; subst; clear H; [auto|]. pqb st t [ITopSwap; IRun].
  - destruct (negb (is_main t)); [inversion H; subst; auto|].
    destruct (gnotified st); inversion H; subst; clear H; [|auto]. pqb st t [ITopSwap; IRun].
  - destruct (negb (is_main t)); inversion H; subst; clear H; [auto|].
    apply pq_spawn; auto; [intro; lia|intros j []].
  - destruct (negb (is_main t)); inversion H; subst; clear H; [auto|]. pqb st t [IJoin].
  - destruct (negb (is_main t)); inversion H; subst; clear H; [auto|]. pqb st t [IIdle].
  - destruct (negb (is_main t) || cexists (chs st c)) eqn:Eg; [inversion H; subst; auto|].
    destruct (wh_add st (HChan c)) as [[st1 wi]|] eqn:E; inversion H; subst; clear H; [|auto].
    destruct (Add _ _ _ E) as [Q1 [P1 [T1 _]]].
    assert (Hc1 : tcont (thr st1 t) = [] ++ []) by (rewrite T1; exact Hc).
    pqb st1 t [ILock (MCh c) (LChInit c)].
  - destruct (negb (is_main t) || negb (cguard (chs st c))); inversion H; subst; clear H; [auto|].
    pqb st t [ILock (MCh c) (LChClose c)].
  - (* CPNew *)
    destruct (negb (is_main t) || pexists (pps st p)) eqn:Eg; [inversion H; subst; auto|].
    apply orb_false_iff in Eg. destruct Eg as [_ Eex].
    destruct (wh_add st (HPipe p)) as [[st1 wi]|] eqn:E; inversion H; subst; clear H; [|auto].
    destruct (Add _ _ _ E) as [Q1 [P1 [T1 [Pp1 N1]]]].
    assert (Q2 : PqInv (set_pipe st1 p (mkPipe true true false false [] [] wi))) by (apply pq_newpipe; auto; rewrite Pp1; exact Eex).
    apply pq_spawn; [exact Q2|exact P1| |].
    + intros _. unfold pclaim. cbn. unfold updZ. rewrite Z.eqb_refl. cbn. auto.
    + intros j [<-|[]]. exact Logic.I.
  - destruct (negb (is_main t) || negb (phandle (pps st p))); inversion H; subst; clear H; [auto|]. pqb st t [ILock (MPq p) (LPqSend p m)].
  - destruct (negb (is_main t) || negb (phandle (pps st p))); inversion H; subst; clear H; [auto|]. pqb st t [ILock (MPq p) (LPqCancelSet p)].
  - destruct (tpipe (th st t) <? 0); inversion H; subst; clear H; [auto|]. pqb st t [ILock (MPq (tpipe (th st t))) (LPqRecv (tpipe (th st t)))].
  - (* CLSend *)
    destruct (Z.ltb_spec (tpipe (th st t)) 0); inversion H; subst; clear H; [auto|].
    apply (pq_step st _ t (@nil instr) (@nil instr) [ILock (MPq (tpipe (th st t))) (LPqLSend (tpipe (th st t)) m)] (fun _ => false));
      [ assumption | eassumption | thr_simpl | reflexivity | thr_simpl | pq_hf | pq_pps | pq_pq | pq_owed | | pq_nolh
      | intros; discriminate ].
    intros j [<-|[]]. cbn. unfold th in *. auto.
  - destruct (tpipe (th st t) <? 0); inversion H; subst; clear H; [auto|]. pqb st t [ILock (MPq (tpipe (th st t))) (LPqCancelGet (tpipe (th st t)))].
  - (* CPanic *)
    destruct (tpipe (th st t) <? 0); inversion H; subst; clear H; [auto|].
    match goal with |- PqInv ?S' => set (st' := S') end.
    apply (pq_idle st st' t [] Q Hc); try reflexivity.
    + unfold st'. thr_simpl.
    + unfold st'. thr_simpl.
    + unfold st'. thr_simpl.
    + intros _ H0 _. unfold st'. cbn -[Nat.eqb]. unfold updN, th. rewrite Nat.eqb_refl. cbn.
      apply (pk st Q t Ht H0). left. exact Hcur.
    + intros j [].
    + intros j. unfold st'. cbn -[Nat.eqb]. unfold updN, th. rewrite Nat.eqb_refl. cbn.
      intros [<-|Hj]; [exact Logic.I|apply (pf st Q t j Hj)].
Qed.

Lemma nrel_in : forall k k1, nrel k k1 -> forall j, In j k1 -> In j k \/ norm_new j.
Proof.
  induction 1 as [k|i r new k1 Hm Hn Hr IH]; intros j Hj; [left; exact Hj|].
  destruct (IH j Hj) as [X|X]; [|right; exact X]. apply in_app_or in X. destruct X as [X|X]; [right; auto|left; right; exact X].
Qed.

Lemma norm_new_freshP : forall j, norm_new j -> forall s u, freshP s u j.
Proof.
  intros j [[h [d Hj]]|[[l ->]|[l ->]]] s u; try exact Logic.I.
  destruct h; cbn in Hj; destruct Hj as [<-|[]]; exact Logic.I.
Qed.

Lemma pq_replace : forall st st' t k1,
  PqInv st -> tcont (thr st' t) = k1 -> nthr st' = nthr st ->
  (forall u, u <> t -> thr st' u = thr st u) ->
  tfinal (thr st' t) = tfinal (thr st t) -> tcur (thr st' t) = tcur (thr st t) ->
  tscript (thr st' t) = tscript (thr st t) -> tpipe (thr st' t) = tpipe (thr st t) ->
  pps st' = pps st -> gnew st' = gnew st -> gcol st' = gcol st ->
  nrel (tcont (thr st t)) k1 -> PqInv st'.
Proof.
  intros st st' t k1 Q Hc' Hn Ho F1 F2 F3 F4 Hp Hgn Hgc N.
  assert (Ow : forall h, owed st' h <-> owed st h) by (intro h; unfold owed; rewrite Hgn, Hgc; tauto).
  constructor.
  - intros u. destruct (Nat.eq_dec u t) as [->|Hu].
    + rewrite Hn, F1, F2, F3, F4. unfold pclaim. rewrite Hp. apply (pk st Q t).
    + rewrite Hn, (Ho u Hu). unfold pclaim. rewrite Hp. apply (pk st Q u).
  - intros u m0 p m Hin. destruct (Nat.eq_dec u t) as [->|Hu].
    + rewrite F2, F4. rewrite Hc' in Hin. destruct (nrel_in _ _ N _ Hin) as [X|X]; [apply (pc st Q t m0 p m X)|].
      exact (norm_new_freshP _ X st t).
    + rewrite (Ho u Hu) in *. apply (pc st Q u m0 p m Hin).
  - intros u bm a b p Hin. rewrite Hp. destruct (Nat.eq_dec u t) as [->|Hu].
    + rewrite F2, F4. rewrite Hc' in Hin. destruct (nrel_in _ _ N _ Hin) as [X|X]; [apply (pc2 st Q t bm a b p X)|].
      exact (norm_new_freshP _ X st t).
    + rewrite (Ho u Hu) in *. apply (pc2 st Q u bm a b p Hin).
  - intros p. rewrite Hp, Ow. intro Hq. destruct (pq st Q p Hq) as [O|[u [bm [a [b Hin]]]]]; [left; auto|].
    right. exists u, bm, a, b. destruct (Nat.eq_dec u t) as [->|Hu]; [|rewrite (Ho u Hu); exact Hin].
    rewrite Hc'. apply (nrel_keep _ _ N); auto.
  - intros u j. destruct (Nat.eq_dec u t) as [->|Hu]; [rewrite F1|rewrite (Ho u Hu)]; apply (pf st Q).
Qed.

Lemma nrel_nil : forall k1, nrel [] k1 -> k1 = [].
Proof. intros k1 H. inversion H; subst. reflexivity. Qed.

Lemma settle_Pq : forall st t ev done st' ev',
  PqInv st -> (done <> None -> tcont (thr st t) = []) -> settle st t ev done = (st', ev') -> PqInv st'.
Proof.
  intros st t ev done st' ev' Q Hd H. unfold settle in H.
  destruct (norm (2 * (cont_size (tcont (th st t)) + length (tacc (th st t))) + 2) (sl st) (tacc (th st t)) (tcont (th st t)) ev)
    as [[[s1 acc1] k1] ev1] eqn:En.
  cbn zeta in H.
  pose proof (norm_nrel _ _ _ _ _ _ _ _ _ En) as N.
  set (st1 := set_sl (upd_th st t (set_tacc (set_tcont (th st t) k1) acc1)) s1) in *.
  assert (Q1 : PqInv st1).
  { apply (pq_replace st st1 t k1 Q); try reflexivity; try exact N; unfold st1; thr_simpl. }
  assert (T1 : tcont (thr st1 t) = k1) by (unfold st1; thr_simpl).
  assert (Hd1 : done <> None -> k1 = []).
  { intro D. unfold th in N. rewrite (Hd D) in N. apply nrel_nil. exact N. }
  clearbody st1.
  match type of H with (let '(st2, ev2) := ?E in _) = _ => destruct E as [st2 ev2] eqn:E2 end.
  assert (Done : forall s, (forall u, u <> t -> thr s u = thr st1 u) -> nthr s = nthr st1 -> pps s = pps st1 ->
                           gnew s = gnew st1 -> gcol s = gcol st1 ->
                           thr s t = set_tcur (thr st1 t) None -> k1 = [] -> PqInv s).
  { intros s A B C D E F G. rewrite G in T1.
    apply (pq_idle st1 s t [] Q1 T1); auto.
    - rewrite F. cbn. exact T1.
    - rewrite F. reflexivity.
    - rewrite F. cbn. intros Ht H0 [X|X]; [congruence|]. apply (pk st1 Q1 t Ht H0). right. exact X.
    - intros j [].
    - rewrite F. cbn. apply (pf st1 Q1 t). }
  assert (Q2 : PqInv st2).
  { destruct done as [v|].
    - inversion E2; subst. apply Done; try reflexivity; [thr_simpl|cbn; unfold updN, th; rewrite Nat.eqb_refl; reflexivity|apply Hd1; discriminate].
    - destruct k1.
      + destruct (tcur (th st1 t)) as [c|]; inversion E2; subst; [|exact Q1].
        apply Done; try reflexivity; destruct c; try reflexivity; try thr_simpl; cbn; unfold updN, th; rewrite Nat.eqb_refl; reflexivity.
      + inversion E2; subst. exact Q1. }
  destruct (tcont (th st2 t)) eqn:Ec; [|inversion H; subst; exact Q2].
  destruct (tscript (th st2 t)) eqn:Es; [|inversion H; subst; exact Q2].
  destruct (tcur (th st2 t)) eqn:Eu; [inversion H; subst; exact Q2|].
  destruct (tfinal (th st2 t)) eqn:Ef; inversion H; subst; [exact Q2|].
  unfold th in *.
  apply (pq_idle st2 _ t (i :: l) Q2 Ec); try reflexivity.
  - thr_simpl.
  - thr_simpl.
  - thr_simpl.
  - cbn -[Nat.eqb]. unfold updN, th. rewrite Nat.eqb_refl. cbn. rewrite Eu, Es. intros _ _ [X|X]; congruence.
  - intros j Hj. rewrite <- Ef in Hj. apply (pf st2 Q2 t) in Hj. destruct j; cbn in Hj; try contradiction.
    destruct a; cbn in Hj; try contradiction; exact Logic.I.
  - cbn -[Nat.eqb]. unfold updN, th. rewrite Nat.eqb_refl. cbn. intros j [].
Qed.

Lemma begin_cmd_done : forall st t c st' ev v,
  (t < nthr st)%nat -> begin_cmd st t c = (st', ev, Some v) -> tcont (thr st' t) = tcont (thr st t).
Proof.
  intros st t c st' ev v Ht H.
  assert (Sp : forall s1 p f, thr s1 = thr st -> nthr s1 = nthr st -> tcont (thr (spawn_thread s1 t p f) t) = tcont (thr st t)).
  { intros s1 p f E1 E2. cbn. unfold updN, th. destruct (Nat.eqb_spec t (nthr s1)); [lia|]. rewrite E1. reflexivity. }
  destruct c; cbn [begin_cmd] in H; destr_all H; inversion H; subst; clear H; try reflexivity;
    repeat match goal with
           | E : wh_add _ _ = Some _ |- _ => destruct (wh_add_core _ _ _ _ E) as [? [? [? [C1 [C2 _]]]]]; clear E
           | E : fill_loop _ _ _ = _ |- _ => destruct (fill_loop_pps _ _ _ _ _ E) as [_ C1]; clear E
           end;
    try (cbn; rewrite C1; reflexivity); try (apply Sp; auto; fail); try thr_simpl.
Qed.

Theorem wstep_Pq : forall st t st' ev,
  MInv st -> WInv st -> SlInv st -> ChInv st -> PqInv st -> wstep st t = (st', ev) -> PqInv st'.
Proof.
  intros st t st' ev [I [P Wf]] W S C Q H. unfold wstep in H.
  destruct (enabled st t) eqn:En; cbn [negb] in H; [|inversion H; subst; exact Q].
  assert (Ht : (t < nthr st)%nat).
  { unfold enabled in En. apply andb_true_iff in En. destruct En as [En _]. apply Nat.ltb_lt in En. exact En. }
  assert (It : CInv (core (tick st t))) by (eapply CInv_ceq; [|exact I]; unfold tick; same_core).
  assert (Pt : pristine (tick st t)) by (unfold tick; prist st t).
  assert (Wwt : WInv (tick st t)) by (unfold tick; ww_refl W).
  assert (St : SlInv (tick st t)) by (unfold tick; sl_irr st).
  assert (Ct : ChInv (tick st t)) by (eapply (ch_eq st); [| | | |exact C]; try reflexivity; unfold tick; thr_simpl).
  assert (Qt : PqInv (tick st t)).
  { apply (pq_same st); auto; try reflexivity. intro u. unfold tick. repeat split; thr_simpl. }
  assert (Htt : (t < nthr (tick st t))%nat) by exact Ht.
  set (s0 := tick st t) in *. clearbody s0. clear En.
  destruct (tstarted (th s0 t)); cbn [negb] in H.
  - destruct (tcont (th s0 t)) as [|i r] eqn:Ec.
    + destruct (tscript (th s0 t)) as [|c0 cs] eqn:Es; [inversion H; subst; exact Q|].
      match type of H with context [begin_cmd ?S0 t ?cc] =>
        destruct (begin_cmd S0 t cc) as [[st2 ev0] done] eqn:Eb; set (s1 := S0) in * end.
      assert (I1 : CInv (core s1)) by (eapply CInv_ceq; [|exact It]; unfold s1; same_core).
      assert (P1 : pristine s1) by (unfold s1; prist s0 t).
      assert (Hc1 : tcont (thr s1 t) = []) by (unfold s1; thr_simpl; exact Ec).
      assert (Ht1 : (t < nthr s1)%nat) by exact Htt.
      assert (Hcur : tcur (thr s1 t) <> None) by (unfold s1; thr_simpl).
      assert (Q1 : PqInv s1).
      { unfold th in Ec, Es. apply (pq_idle s0 s1 t [] Qt Ec); try reflexivity.
        - exact Hc1.
        - unfold s1. thr_simpl.
        - unfold s1. thr_simpl.
        - unfold s1. cbn -[Nat.eqb]. unfold updN, th. rewrite Nat.eqb_refl. cbn. intros _ H0 _.
          apply (pk s0 Qt t Htt H0). right. rewrite Es. discriminate.
        - intros j [].
        - unfold s1. cbn -[Nat.eqb]. unfold updN, th. rewrite Nat.eqb_refl. cbn. apply (pf s0 Qt t). }
      eapply settle_Pq; [| |exact H].
      * exact (begin_cmd_Pq s1 t c0 st2 ev0 done I1 P1 Q1 Hc1 Ht1 Hcur Eb).
      * intro D. destruct done as [v|]; [|congruence]. rewrite (begin_cmd_done s1 t c0 st2 ev0 v Ht1 Eb). exact Hc1.
    + destruct (exec_instr s0 t i r) as [st1 ev1] eqn:Ee.
      eapply settle_Pq; [| |exact H]; [|congruence].
      exact (exec_instr_Pq s0 t i r st1 ev1 It Wwt Pt St Ct Qt Ec Ee).
  - eapply settle_Pq; [| |exact H]; [|congruence].
    apply (pq_same s0); auto; try reflexivity. intro u. repeat split; thr_simpl.
Qed.

Lemma Pq_init : forall scr, PqInv (winit scr).
Proof.
  intro scr. constructor; cbn.
  - intros t Ht H0. unfold set_tstarted, thread0 in H0. cbn in H0. lia.
  - intros t m0 p m [].
  - intros t bm a b p [].
  - intros p Hq. exfalso. apply Hq. reflexivity.
  - intros t j [].
Qed.

Lemma wrun_Pq : forall sched st,
  MInv st -> WInv st -> SlInv st -> LKInv st -> ChInv st -> PqInv st -> PqInv (fst (wrun st sched)).
Proof.
  induction sched as [|t rest IH]; intros st M W S L C Q; cbn [wrun]; auto.
  destruct (wstep st t) as [st1 ev] eqn:E.
  specialize (IH st1 (wstep_inv _ _ _ _ M E) (wstep_ww _ _ _ _ M W E) (wstep_Sl _ _ _ _ M S E) (wstep_LK _ _ _ _ M L E)
                 (wstep_Ch _ _ _ _ M W S L C E) (wstep_Pq _ _ _ _ M W S C Q E)).
  destruct (wrun st1 rest) as [st2 tr]. exact IH.
Qed.

Theorem reachable_Pq : forall st, reachable st -> PqInv st.
Proof.
  intros st [scr [sched ->]].
  apply wrun_Pq; [apply MInv_init|apply WInv_init|apply Sl_init| |apply Ch_init|apply Pq_init].
  exact (reachable_LK (winit scr) (ex_intro _ scr (ex_intro _ [] eq_refl))).
Qed.

(** A non-empty reply queue always has a wake-up owed to the pipe's handler, or the worker is on its way to the
    leaf [fetch_or] of the pipe's slot. *)
Theorem reply_queue_owed : forall st p,
  reachable st -> precvq (pps st p) <> [] ->
  owed st (HPipe p) \/ exists t bm a b, In (IClimb (KLeaf bm a b (Some (HPipe p)))) (tcont (thr st t)).
Proof. intros st p R. apply (pq st (reachable_Pq st R)). Qed.

(** No reply is stranded: in a quiescent state in which no thread has a wake of pipe [p] left to do, every reply
    pushed with [PipedLink::send] has been taken by the pipe's handler. *)
Theorem replies_not_stranded : forall st p,
  reachable st -> quiescent st ->
  (forall t bm a b, ~ In (IClimb (KLeaf bm a b (Some (HPipe p)))) (tcont (thr st t))) ->
  precvq (pps st p) = [].
Proof.
  intros st p R Qs Hn. destruct (precvq (pps st p)) eqn:E; auto. exfalso.
  destruct (reply_queue_owed st p R) as [O|[t [bm [a [b Hin]]]]]; [rewrite E; discriminate| |].
  - exact (not_stranded st R Qs (HPipe p) O).
  - exact (Hn t bm a b Hin).
Qed.

(** the wake of a reply is aimed at the pipe's own slot, and that slot still holds the pipe's handler: the worker
    drops its Waker only in its exit sequence, after its last command *)
Theorem reply_wake_hits_handler : forall st t bm a b p,
  reachable st -> In (IClimb (KLeaf bm a b (Some (HPipe p)))) (tcont (thr st t)) ->
  4096 * bm + 64 * a + b = wbit (pw (pps st p)) /\ slab_get (sl st) (wbit (pw (pps st p))) = Some (HPipe p).
Proof.
  intros st t bm a b p R Hin. pose proof (reachable_Pq st R) as Q.
  destruct (pc2 st Q t bm a b p Hin) as [Ep [H0 [Hcur Hx]]]. split; [exact Hx|].
  assert (Hne : tcont (thr st t) <> []) by (intro E; rewrite E in Hin; destruct Hin).
  destruct (reachable_minv st R) as [_ [P _]].
  exact (proj1 (pipe_slot st t p P (reachable_Sl st R) Q Hne Ep H0 Hcur)).
Qed.
