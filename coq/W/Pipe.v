(** * Layer W: the piped thread (C14).

    Part 1, [RvInv] - a blocked [recv] is never left sleeping: a worker that waits on the condition variable
    (it found the send queue empty and no cancellation, under the mutex, and released the mutex atomically with
    starting to wait) either still has nothing to receive, or a [notify] for it is about to be executed.
    Part 2, [PqInv] - no reply is stranded: a non-empty reply queue has a wake-up owed to the pipe's handler, or the
    worker is about to execute the leaf [fetch_or] of the pipe's slot (which still holds the pipe's handler: the
    worker's own Waker is dropped only in its exit sequence). *)
From Coq Require Import ZArith List Bool Arith Lia.
From Stk Require Import Lib.U Gen.SrcWaker W.Waker W.WakerArith W.WakerCore W.WakerSlab W.WakerPres W.WakerRefine
  W.WakerProofs W.WakerGhost W.WakerLock W.WakerDrop W.WakerSlot W.WakerWf W.Chan.
Import ListNotations.
Local Open Scope Z_scope.

(** ** Part 1: blocked recv *)
Definition navail (st : wstate) (p : Z) : Prop := psendq (pps st p) = [] /\ pcancel (pps st p) = false.

(** every [Condvar::wait] in a continuation was decided under the mutex with nothing available, and is followed
    by the re-acquisition and re-check *)
Fixpoint wok (P : Z -> Prop) (k : list instr) : Prop :=
  match k with
  | [] => True
  | ICvWait p :: r0 => P p /\ (exists r1, r0 = ICvReacq p :: r1) /\ wok P r0
  | _ :: r0 => wok P r0
  end.

Record RvInv (st : wstate) : Prop := {
  rv_pre : forall t, wok (navail st) (tcont (thr st t));
  rv_wait : forall t p r0, tcont (thr st t) = ICvReacq p :: r0 -> twaiting (thr st t) = true ->
            navail st p \/ exists u, In (INotify p) (tcont (thr st u));
  rv_hd : forall t, twaiting (thr st t) = true -> exists p r0, tcont (thr st t) = ICvReacq p :: r0 }.

Lemma wok_app_r : forall P a b, wok P (a ++ b) -> wok P b.
Proof.
  induction a as [|i a IH]; intros b H; [exact H|]. cbn [app] in H. destruct i; cbn [wok] in H; try (apply IH; exact H).
  destruct H as [_ [_ H]]. apply IH. exact H.
Qed.
Lemma wok_app_nw : forall P a b, (forall p, ~ In (ICvWait p) a) -> wok P b -> wok P (a ++ b).
Proof.
  induction a as [|i a IH]; intros b Hn H; [exact H|]. cbn [app].
  assert (Hn' : forall p, ~ In (ICvWait p) a) by (intros p Hp; apply (Hn p); right; exact Hp).
  destruct i; cbn [wok]; try (apply IH; auto). exfalso. apply (Hn p). left. reflexivity.
Qed.
Lemma wok_change : forall (P P' : Z -> Prop) k, wok P k -> (forall p, In (ICvWait p) k -> P p -> P' p) -> wok P' k.
Proof.
  induction k as [|i k IH]; intros H Hc; [exact Logic.I|].
  assert (Hc' : forall p, In (ICvWait p) k -> P p -> P' p) by (intros p Hp; apply Hc; right; exact Hp).
  destruct i; cbn [wok] in *; try (apply IH; auto).
  destruct H as [A [B D]]. split; [apply Hc; [left; reflexivity|exact A]|]. split; [exact B|]. apply IH; auto.
Qed.
Lemma in_cvwait_nhold : forall k p, In (ICvWait p) k -> (0 < nhold k (MPq p))%nat.
Proof.
  induction k as [|i k IH]; intros p Hin; [destruct Hin|]. rewrite nhold_cons. destruct Hin as [->|Hin].
  - cbn [holdb]. rewrite mtx_eqb_refl. lia.
  - specialize (IH _ Hin). lia.
Qed.

Section RvStep.
  Variables (st st' : wstate) (t : tid) (pre r new : list instr) (chg : Z -> bool).
  Hypothesis R : RvInv st.
  Hypothesis Hc : tcont (thr st t) = pre ++ r.
  Hypothesis Hc' : tcont (thr st' t) = new ++ r.
  Hypothesis Ho : forall u, u <> t -> tcont (thr st' u) = tcont (thr st u) /\
                                     (twaiting (thr st' u) = true -> twaiting (thr st u) = true).
  Hypothesis Hwt : twaiting (thr st' t) = false.
  Hypothesis Hpp : forall p, chg p = false ->
     psendq (pps st' p) = psendq (pps st p) /\ pcancel (pps st' p) = pcancel (pps st p).
  Hypothesis Hlock : forall p, chg p = true ->
     (forall u, u <> t -> ~ In (ICvWait p) (tcont (thr st u))) /\ ~ In (ICvWait p) r.
  Hypothesis Hnew : wok (navail st') r -> wok (navail st') (new ++ r).
  Hypothesis Hnot : forall p, In (INotify p) pre ->
     forall u r0, u <> t -> tcont (thr st u) = ICvReacq p :: r0 -> twaiting (thr st' u) = false.
  Hypothesis Hq : forall p, chg p = true -> navail st p -> navail st' p \/ In (INotify p) new.

  Lemma navail_same : forall p, chg p = false -> navail st p -> navail st' p.
  Proof. intros p E [A B]. destruct (Hpp p E) as [X Y]. split; congruence. Qed.

  Lemma rv_step : RvInv st'.
  Proof.
    constructor.
    - intro u. destruct (Nat.eq_dec u t) as [->|Hu].
      + rewrite Hc'. apply Hnew. pose proof (rv_pre st R t) as W. rewrite Hc in W. apply wok_app_r in W.
        apply (wok_change (navail st)); auto. intros p Hin Hp. destruct (chg p) eqn:E.
        * exfalso. exact (proj2 (Hlock p E) Hin).
        * apply navail_same; auto.
      + destruct (Ho u Hu) as [E _]. rewrite E. apply (wok_change (navail st)); [apply (rv_pre st R u)|].
        intros p Hin Hp. destruct (chg p) eqn:Eg.
        * exfalso. exact (proj1 (Hlock p Eg) u Hu Hin).
        * apply navail_same; auto.
    - intros u p r0 Hh Hw. destruct (Nat.eq_dec u t) as [->|Hu]; [congruence|].
      destruct (Ho u Hu) as [E Ew]. rewrite E in Hh.
      destruct (rv_wait st R u p r0 Hh (Ew Hw)) as [A|[v Hin]].
      + destruct (chg p) eqn:Eg.
        * destruct (Hq p Eg A) as [B|B]; [left; exact B|]. right. exists t. rewrite Hc'. apply in_or_app. auto.
        * left. apply navail_same; auto.
      + destruct (Nat.eq_dec v t) as [->|Hv].
        * rewrite Hc in Hin. apply in_app_or in Hin. destruct Hin as [Hin|Hin].
          -- rewrite (Hnot p Hin u r0 Hu Hh) in Hw. discriminate.
          -- right. exists t. rewrite Hc'. apply in_or_app. auto.
        * right. exists v. destruct (Ho v Hv) as [Ev _]. rewrite Ev. exact Hin.
    - intros u Hw. destruct (Nat.eq_dec u t) as [->|Hu]; [congruence|].
      destruct (Ho u Hu) as [E Ew]. rewrite E. apply (rv_hd st R u). auto.
  Qed.
End RvStep.

Lemma rv_eq : forall st st',
  (forall u, tcont (thr st' u) = tcont (thr st u) /\ twaiting (thr st' u) = twaiting (thr st u)) -> pps st' = pps st ->
  RvInv st -> RvInv st'.
Proof.
  intros st st' Hc Hp R.
  assert (N : forall p, navail st' p <-> navail st p) by (intro p; unfold navail; rewrite Hp; tauto).
  constructor.
  - intro u. destruct (Hc u) as [E _]. rewrite E. apply (wok_change (navail st)); [apply (rv_pre st R u)|].
    intros p _ Hn. apply N. exact Hn.
  - intros u p r0. destruct (Hc u) as [E1 E2]. rewrite E1, E2. intros A B.
    destruct (rv_wait st R u p r0 A B) as [X|[v X]]; [left; apply N; exact X|]. right. exists v.
    destruct (Hc v) as [E3 _]. rewrite E3. exact X.
  - intros u. destruct (Hc u) as [E1 E2]. rewrite E1, E2. apply (rv_hd st R u).
Qed.

(** thread [t] replaces its continuation [k] by [k1] (normalisation) *)
Lemma rv_replace : forall st st' t k1,
  RvInv st -> tcont (thr st' t) = k1 ->
  (forall u, u <> t -> tcont (thr st' u) = tcont (thr st u)) ->
  (forall u, twaiting (thr st' u) = twaiting (thr st u)) -> pps st' = pps st ->
  (forall P, wok P (tcont (thr st t)) -> wok P k1) ->
  (forall p, In (INotify p) (tcont (thr st t)) -> In (INotify p) k1) ->
  (forall p r0, tcont (thr st t) = ICvReacq p :: r0 -> k1 = tcont (thr st t)) ->
  RvInv st'.
Proof.
  intros st st' t k1 R Hc' Ho Hw Hp Hwok Hnot Hid.
  assert (N : forall p, navail st' p <-> navail st p) by (intro p; unfold navail; rewrite Hp; tauto).
  assert (Wit : forall p, (exists u, In (INotify p) (tcont (thr st u))) -> exists u, In (INotify p) (tcont (thr st' u))).
  { intros p [v X]. exists v. destruct (Nat.eq_dec v t) as [->|Hv]; [rewrite Hc'; apply Hnot; exact X|rewrite (Ho v Hv); exact X]. }
  assert (Same : forall u, twaiting (thr st u) = true -> tcont (thr st' u) = tcont (thr st u)).
  { intros u Hu. destruct (Nat.eq_dec u t) as [->|Hn]; [|apply Ho; auto].
    destruct (rv_hd st R t Hu) as [p [r0 E]]. rewrite Hc'. eapply Hid; eauto. }
  constructor.
  - intro u. apply (wok_change (navail st)); [|intros p _ Hn; apply N; exact Hn].
    destruct (Nat.eq_dec u t) as [->|Hu]; [rewrite Hc'; apply Hwok|rewrite (Ho u Hu)]; apply (rv_pre st R).
  - intros u p r0 A B. rewrite Hw in B. rewrite (Same u B) in A.
    destruct (rv_wait st R u p r0 A B) as [X|X]; [left; apply N; exact X|right; apply Wit; exact X].
  - intros u B. rewrite Hw in B. rewrite (Same u B). apply (rv_hd st R u B).
Qed.
