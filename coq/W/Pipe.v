(** * Layer W: the piped thread (C14).

    Part 1, [RvInv] - a blocked [recv] is never left sleeping: a worker that waits on the condition variable
    (it found the send queue empty and no cancellation, under the mutex, and released the mutex atomically with
    starting to wait) either still has nothing to receive, or a [notify] for it is about to be executed.
    Part 2, [PqInv] - no reply is stranded: a non-empty reply queue has a wake-up owed to the pipe's handler, or the
    worker is about to execute the leaf [fetch_or] of the pipe's slot (which still holds the pipe's handler: the
    worker's own Waker is dropped only in its exit sequence). *)
From Coq Require Import ZArith List Bool Arith Lia.
From Stk Require Import Lib.U Gen.SrcWaker W.Waker W.WakerArith W.WakerCore W.WakerSlab W.WakerPres W.WakerRefine
  W.WakerProofs W.WakerGhost W.WakerLock W.WakerDrop W.WakerSlot W.WakerWf W.Chan.
Import ListNotations.
Local Open Scope Z_scope.

(** ** Part 1: blocked recv *)
Definition navail (st : wstate) (p : Z) : Prop := psendq (pps st p) = [] /\ pcancel (pps st p) = false.

(** every [Condvar::wait] in a continuation was decided under the mutex with nothing available, and is followed
    by the re-acquisition and re-check *)
Fixpoint wok (P : Z -> Prop) (k : list instr) : Prop :=
  match k with
  | [] => True
  | ICvWait p :: r0 => P p /\ (exists r1, r0 = ICvReacq p :: r1) /\ wok P r0
  | _ :: r0 => wok P r0
  end.

Record RvInv (st : wstate) : Prop := {
  rv_pre : forall t, wok (navail st) (tcont (thr st t));
  rv_wait : forall t p r0, tcont (thr st t) = ICvReacq p :: r0 -> twaiting (thr st t) = true ->
            navail st p \/ exists u, In (INotify p) (tcont (thr st u));
  rv_hd : forall t, twaiting (thr st t) = true -> exists p r0, tcont (thr st t) = ICvReacq p :: r0 }.

Lemma wok_app_r : forall P a b, wok P (a ++ b) -> wok P b.
Proof.
  induction a as [|i a IH]; intros b H; [exact H|]. cbn [app] in H. destruct i; cbn [wok] in H; try (apply IH; exact H).
  destruct H as [_ [_ H]]. apply IH. exact H.
Qed.
Lemma wok_app_nw : forall P a b, (forall p, ~ In (ICvWait p) a) -> wok P b -> wok P (a ++ b).
Proof.
  induction a as [|i a IH]; intros b Hn H; [exact H|]. cbn [app].
  assert (Hn' : forall p, ~ In (ICvWait p) a) by (intros p Hp; apply (Hn p); right; exact Hp).
  destruct i; cbn [wok]; try (apply IH; auto). exfalso. apply (Hn p). left. reflexivity.
Qed.
Lemma wok_change : forall (P P' : Z -> Prop) k, wok P k -> (forall p, In (ICvWait p) k -> P p -> P' p) -> wok P' k.
Proof.
  induction k as [|i k IH]; intros H Hc; [exact Logic.I|].
  assert (Hc' : forall p, In (ICvWait p) k -> P p -> P' p) by (intros p Hp; apply Hc; right; exact Hp).
  destruct i; cbn [wok] in *; try (apply IH; auto).
  destruct H as [A [B D]]. split; [apply Hc; [left; reflexivity|exact A]|]. split; [exact B|]. apply IH; auto.
Qed.
Lemma in_cvwait_nhold : forall k p, In (ICvWait p) k -> (0 < nhold k (MPq p))%nat.
Proof.
  induction k as [|i k IH]; intros p Hin; [destruct Hin|]. rewrite nhold_cons. destruct Hin as [->|Hin].
  - cbn [holdb]. rewrite mtx_eqb_refl. lia.
  - specialize (IH _ Hin). lia.
Qed.

Section RvStep.
  Variables (st st' : wstate) (t : tid) (pre r new : list instr) (chg : Z -> bool).
  Hypothesis R : RvInv st.
  Hypothesis Hc : tcont (thr st t) = pre ++ r.
  Hypothesis Hc' : tcont (thr st' t) = new ++ r.
  Hypothesis Ho : forall u, u <> t -> tcont (thr st' u) = tcont (thr st u) /\
                                     (twaiting (thr st' u) = true -> twaiting (thr st u) = true).
  Hypothesis Hwt : twaiting (thr st' t) = false.
  Hypothesis Hpp : forall p, chg p = false ->
     psendq (pps st' p) = psendq (pps st p) /\ pcancel (pps st' p) = pcancel (pps st p).
  Hypothesis Hlock : forall p, chg p = true ->
     navail st' p \/ ((forall u, u <> t -> ~ In (ICvWait p) (tcont (thr st u))) /\ ~ In (ICvWait p) r).
  Hypothesis Hnew : wok (navail st') r -> wok (navail st') (new ++ r).
  Hypothesis Hnot : forall p, In (INotify p) pre ->
     forall u r0, u <> t -> tcont (thr st u) = ICvReacq p :: r0 -> twaiting (thr st' u) = false.
  Hypothesis Hq : forall p, chg p = true -> navail st p -> navail st' p \/ In (INotify p) new.

  Lemma navail_same : forall p, chg p = false -> navail st p -> navail st' p.
  Proof. intros p E [A B]. destruct (Hpp p E) as [X Y]. split; congruence. Qed.

  Lemma rv_step : RvInv st'.
  Proof.
    constructor.
    - intro u. destruct (Nat.eq_dec u t) as [->|Hu].
      + rewrite Hc'. apply Hnew. pose proof (rv_pre st R t) as W. rewrite Hc in W. apply wok_app_r in W.
        apply (wok_change (navail st)); auto. intros p Hin Hp. destruct (chg p) eqn:E.
        * destruct (Hlock p E) as [X|X]; [exact X|exfalso; exact (proj2 X Hin)].
        * apply navail_same; auto.
      + destruct (Ho u Hu) as [E _]. rewrite E. apply (wok_change (navail st)); [apply (rv_pre st R u)|].
        intros p Hin Hp. destruct (chg p) eqn:Eg.
        * destruct (Hlock p Eg) as [X|X]; [exact X|exfalso; exact (proj1 X u Hu Hin)].
        * apply navail_same; auto.
    - intros u p r0 Hh Hw. destruct (Nat.eq_dec u t) as [->|Hu]; [congruence|].
      destruct (Ho u Hu) as [E Ew]. rewrite E in Hh.
      destruct (rv_wait st R u p r0 Hh (Ew Hw)) as [A|[v Hin]].
      + destruct (chg p) eqn:Eg.
        * destruct (Hq p Eg A) as [B|B]; [left; exact B|]. right. exists t. rewrite Hc'. apply in_or_app. auto.
        * left. apply navail_same; auto.
      + destruct (Nat.eq_dec v t) as [->|Hv].
        * rewrite Hc in Hin. apply in_app_or in Hin. destruct Hin as [Hin|Hin].
          -- rewrite (Hnot p Hin u r0 Hu Hh) in Hw. discriminate.
          -- right. exists t. rewrite Hc'. apply in_or_app. auto.
        * right. exists v. destruct (Ho v Hv) as [Ev _]. rewrite Ev. exact Hin.
    - intros u Hw. destruct (Nat.eq_dec u t) as [->|Hu]; [congruence|].
      destruct (Ho u Hu) as [E Ew]. rewrite E. apply (rv_hd st R u). auto.
  Qed.
End RvStep.

Lemma rv_eq : forall st st',
  (forall u, tcont (thr st' u) = tcont (thr st u) /\ (twaiting (thr st' u) = true -> twaiting (thr st u) = true)) ->
  pps st' = pps st -> RvInv st -> RvInv st'.
Proof.
  intros st st' Hc Hp R.
  assert (N : forall p, navail st' p <-> navail st p) by (intro p; unfold navail; rewrite Hp; tauto).
  constructor.
  - intro u. destruct (Hc u) as [E _]. rewrite E. apply (wok_change (navail st)); [apply (rv_pre st R u)|].
    intros p _ Hn. apply N. exact Hn.
  - intros u p r0. destruct (Hc u) as [E1 E2]. rewrite E1. intros A B.
    destruct (rv_wait st R u p r0 A (E2 B)) as [X|[v X]]; [left; apply N; exact X|]. right. exists v.
    destruct (Hc v) as [E3 _]. rewrite E3. exact X.
  - intros u B. destruct (Hc u) as [E1 E2]. rewrite E1. apply (rv_hd st R u). auto.
Qed.

(** thread [t] replaces its continuation [k] by [k1] (normalisation) *)
Lemma rv_replace : forall st st' t k1,
  RvInv st -> tcont (thr st' t) = k1 ->
  (forall u, u <> t -> tcont (thr st' u) = tcont (thr st u)) ->
  (forall u, twaiting (thr st' u) = twaiting (thr st u)) -> pps st' = pps st ->
  (forall P, wok P (tcont (thr st t)) -> wok P k1) ->
  (forall p, In (INotify p) (tcont (thr st t)) -> In (INotify p) k1) ->
  (forall p r0, tcont (thr st t) = ICvReacq p :: r0 -> k1 = tcont (thr st t)) ->
  RvInv st'.
Proof.
  intros st st' t k1 R Hc' Ho Hw Hp Hwok Hnot Hid.
  assert (N : forall p, navail st' p <-> navail st p) by (intro p; unfold navail; rewrite Hp; tauto).
  assert (Wit : forall p, (exists u, In (INotify p) (tcont (thr st u))) -> exists u, In (INotify p) (tcont (thr st' u))).
  { intros p [v X]. exists v. destruct (Nat.eq_dec v t) as [->|Hv]; [rewrite Hc'; apply Hnot; exact X|rewrite (Ho v Hv); exact X]. }
  assert (Same : forall u, twaiting (thr st u) = true -> tcont (thr st' u) = tcont (thr st u)).
  { intros u Hu. destruct (Nat.eq_dec u t) as [->|Hn]; [|apply Ho; auto].
    destruct (rv_hd st R t Hu) as [p [r0 E]]. rewrite Hc'. eapply Hid; eauto. }
  constructor.
  - intro u. apply (wok_change (navail st)); [|intros p _ Hn; apply N; exact Hn].
    destruct (Nat.eq_dec u t) as [->|Hu]; [rewrite Hc'; apply Hwok|rewrite (Ho u Hu)]; apply (rv_pre st R).
  - intros u p r0 A B. rewrite Hw in B. rewrite (Same u B) in A.
    destruct (rv_wait st R u p r0 A B) as [X|X]; [left; apply N; exact X|right; apply Wit; exact X].
  - intros u B. rewrite Hw in B. rewrite (Same u B). apply (rv_hd st R u B).
Qed.

Ltac rv_nw := let p0 := fresh "p0" in let Hj := fresh "Hj" in
  intros p0 Hj; cbn in Hj; repeat (destruct Hj as [Hj|Hj]); try discriminate Hj; try contradiction.
Ltac rv_new := let W := fresh "W" in intro W; apply wok_app_nw; [rv_nw|exact W].
Ltac rv_ho := let u := fresh "u" in let Hu := fresh "Hu" in
  intros u Hu; split; [thr_simpl|cbn -[Nat.eqb]; unfold updN, th; cbn -[Nat.eqb];
   repeat match goal with |- context [Nat.eqb ?a ?b] => destruct (Nat.eqb_spec a b); [congruence|] end; auto].
Ltac rv_not := let p0 := fresh "p0" in let Hj := fresh "Hj" in
  intros p0 Hj;
  first [ cbn in Hj; repeat (destruct Hj as [Hj|Hj]); try discriminate Hj; try contradiction; fail
        | exfalso; match goal with Hn : forall p, In (INotify p) _ -> False |- _ => exact (Hn _ Hj) end ].
Ltac rv_pps := intros ? _; cbn; unfold updZ;
  repeat match goal with |- context [?a =? ?b] => destruct (Z.eqb_spec a b); subst end; cbn; split; reflexivity.
Ltac rvn st t pre r new :=
  apply (rv_step st _ t pre r new (fun _ => false));
  [ assumption | eassumption | thr_simpl | rv_ho | thr_simpl | rv_pps | intros; discriminate | rv_new | rv_not
  | intros; discriminate ].

Lemma exec_lact_Rv : forall st t hd a r st' ev,
  RvInv st -> tcont (thr st t) = [hd] ++ r -> (forall p, hd <> INotify p) ->
  (forall u, u <> t -> nhold (tcont (thr st u)) (lact_mtx a) = O) -> nhold r (lact_mtx a) = O ->
  twaiting (thr st t) = false ->
  exec_lact st t a r = (st', ev) -> RvInv st'.
Proof.
  intros st t hd a r st' ev R Hc Hhd Hfree Hr Hw H.
  assert (Lk : forall p, lact_mtx a = MPq p ->
               (forall u, u <> t -> ~ In (ICvWait p) (tcont (thr st u))) /\ ~ In (ICvWait p) r).
  { intros p E. rewrite E in *. split.
    - intros u Hu Hin. apply in_cvwait_nhold in Hin. rewrite (Hfree u Hu) in Hin. lia.
    - intro Hin. apply in_cvwait_nhold in Hin. lia. }
  assert (Hn : forall p, In (INotify p) [hd] -> False) by (intros p [E|[]]; eapply Hhd; eauto).
  destruct a; cbn [exec_lact] in H.
  - destruct (climb_reserved st bm) as [i|] eqn:Ecl; inversion H; subst; clear H.
    + apply climb_at_climb in Ecl. destruct Ecl as [k ->]. rvn st t [hd] r [IClimb k; IUnlock MDL UNone].
    + rvn st t [hd] r [IUnlock MDL UNone].
  - unfold ghost_handler in H. inversion H; subst; clear H.
    rvn st t [hd] r [IUnlock MDL (UDels (dl st))].
  - inversion H; subst; clear H. rvn st t [hd] r [IUnlock (MCh c) (UChReg c)].
  - destr_all H; repeat match goal with E : climb_start _ _ _ = Some _ |- _ => apply climb_at_climb in E; destruct E as [? ->] end;
      inversion H; subst; clear H.
    + rvn st t [hd] r [IClimb x; IUnlock (MCh c) (UChPush c m)].
    + rvn st t [hd] r [IUnlock (MCh c) (UChPush c m)].
    + rvn st t [hd] r [IUnlock (MCh c) (UChPush c m)].
    + rvn st t [hd] r [IUnlock (MCh c) (URet (RBool false))].
  - inversion H; subst; clear H. rvn st t [hd] r [IUnlock (MCh c) (URet (RBool (negb (copen (chs st c)))))].
  - destruct (copen (chs st c)); inversion H; subst; clear H.
    + rvn st t [hd] r [ILock MDL (LPush (wbit (cw (chs st c))) (wbm (cw (chs st c))) (HChan c)); IUnlock (MCh c) (UChClear c)].
    + rvn st t [hd] r [IUnlock (MCh c) (UChClear c)].
  - unfold ghost_handler in H. inversion H; subst; clear H.
    destruct del; rvn st t [hd] r [IUnlock (MCh c) (UFwd c (if copen (chs st c) then cq (chs st c) else []))].
  - unfold ghost_handler in H. inversion H; subst; clear H.
    destruct del; [rvn st t [hd] r [IUnlock (MPq p) (UPqFwd p (precvq (pps st p)) (Some (ppanic (pps st p))))]
                  |rvn st t [hd] r [IUnlock (MPq p) (UPqFwd p (precvq (pps st p)) None)]].
  - (* LPqSend *)
    destruct (Lk p eq_refl) as [Lk1 Lk2].
    destruct (psendq (pps st p)) eqn:Eq; inversion H; subst; clear H.
    + match goal with |- RvInv ?S' => set (st' := S') end.
      apply (rv_step st st' t [hd] r [IUnlock (MPq p) UNone; INotify p] (fun p0 => p0 =? p) R Hc).
      * unfold st'. thr_simpl.
      * unfold st'. rv_ho.
      * unfold st'. thr_simpl.
      * intros p0 E. unfold st'. cbn. unfold updZ. rewrite E. split; reflexivity.
      * intros p0 E. apply Z.eqb_eq in E. subst p0. right. auto.
      * rv_new.
      * rv_not.
      * intros p0 E _. apply Z.eqb_eq in E. subst p0. right. right; left. reflexivity.
    + match goal with |- RvInv ?S' => set (st' := S') end.
      apply (rv_step st st' t [hd] r [IUnlock (MPq p) UNone] (fun p0 => p0 =? p) R Hc).
      * unfold st'. thr_simpl.
      * unfold st'. rv_ho.
      * unfold st'. thr_simpl.
      * intros p0 E. unfold st'. cbn. unfold updZ. rewrite E. split; reflexivity.
      * intros p0 E. apply Z.eqb_eq in E. subst p0. right. auto.
      * rv_new.
      * rv_not.
      * intros p0 E [A _]. apply Z.eqb_eq in E. subst p0. congruence.
  - (* LPqCancelSet *)
    destruct (Lk p eq_refl) as [Lk1 Lk2]. inversion H; subst; clear H.
    match goal with |- RvInv ?S' => set (st' := S') end.
    apply (rv_step st st' t [hd] r [IUnlock (MPq p) UNone; INotify p] (fun p0 => p0 =? p) R Hc).
    + unfold st'. thr_simpl.
    + unfold st'. rv_ho.
    + unfold st'. thr_simpl.
    + intros p0 E. unfold st'. cbn. unfold updZ. rewrite E. split; reflexivity.
    + intros p0 E. apply Z.eqb_eq in E. subst p0. right. auto.
    + rv_new.
    + rv_not.
    + intros p0 E _. apply Z.eqb_eq in E. subst p0. right. right; left. reflexivity.
  - (* LPqRecv *)
    destruct (Lk p eq_refl) as [Lk1 Lk2].
    destruct (pcancel (pps st p)) eqn:Ecn; [inversion H; subst; clear H|].
    { rvn st t [hd] r [IUnlock (MPq p) (URet RNoneV)]. }
    destruct (psendq (pps st p)) eqn:Eq; inversion H; subst; clear H.
    + apply (rv_step st _ t [hd] r [ICvWait p; ICvReacq p] (fun _ => false));
        [ assumption | eassumption | thr_simpl | rv_ho | thr_simpl | rv_pps | intros; discriminate | | | intros; discriminate ].
      * intro W. cbn [app wok]. split; [split; cbn; assumption|]. split; [eexists; reflexivity|exact W].
      * rv_not.
    + match goal with |- RvInv ?S' => set (st' := S') end.
      apply (rv_step st st' t [hd] r [IUnlock (MPq p) (URet (RVal z))] (fun p0 => p0 =? p) R Hc).
      * unfold st'. thr_simpl.
      * unfold st'. rv_ho.
      * unfold st'. thr_simpl.
      * intros p0 E. unfold st'. cbn. unfold updZ. rewrite E. split; reflexivity.
      * intros p0 E. apply Z.eqb_eq in E. subst p0. right. auto.
      * rv_new.
      * rv_not.
      * intros p0 E [A _]. apply Z.eqb_eq in E. subst p0. congruence.
  - inversion H; subst; clear H.
    destruct (precvq (pps st p)).
    + destruct (climb_start st (pw (pps st p)) (Some (HPipe p))) as [i|] eqn:E; cbn [olist app].
      * apply climb_at_climb in E. destruct E as [k ->].
        rvn st t [hd] r [IUnlock (MPq p) (URet (RBool (negb (pcancel (pps st p))))); IClimb k].
      * rvn st t [hd] r [IUnlock (MPq p) (URet (RBool (negb (pcancel (pps st p)))))].
    + rvn st t [hd] r [IUnlock (MPq p) (URet (RBool (negb (pcancel (pps st p)))))].
  - inversion H; subst; clear H. rvn st t [hd] r [IUnlock (MPq p) (URet (RBool (pcancel (pps st p))))].
  - inversion H; subst; clear H. rvn st t [hd] r [IUnlock (MPq p) UNone].
Qed.

Lemma exec_uact_Rv : forall st t m a r st' ev,
  RvInv st -> tcont (thr st t) = [IUnlock m a] ++ r -> twaiting (thr st t) = false ->
  exec_uact st t a r = (st', ev) -> RvInv st'.
Proof.
  intros st t m a r st' ev R Hc Hw H.
  destruct a; cbn [exec_uact] in H; inversion H; subst; clear H.
  - rvn st t [IUnlock m UNone] r (@nil instr).
  - rvn st t [IUnlock m (URet v)] r (@nil instr).
  - rvn st t [IUnlock m (UDels l)] r [IDels l].
  - rvn st t [IUnlock m (UChReg c)] r (@nil instr).
  - rvn st t [IUnlock m (UChPush c m0)] r (@nil instr).
  - rvn st t [IUnlock m (UChClear c)] r (@nil instr).
  - rvn st t [IUnlock m (UFwd c msgs)] r (@nil instr).
  - rvn st t [IUnlock m (UPqFwd p msgs term)] r (@nil instr).
Qed.

Lemma exec_climb_Rv : forall st t k r st' ev,
  RvInv st -> tcont (thr st t) = [IClimb k] ++ r -> twaiting (thr st t) = false ->
  exec_climb st t k r = (st', ev) -> RvInv st'.
Proof.
  intros st t k r st' ev R Hc Hw H.
  destruct k; cbn [exec_climb] in H; inversion H; subst; clear H.
  - destruct (bitmap_join a b (bmbase st bm)) as [x|]; [destruct (slab_get (sl st) x)|];
      (destruct (leaf st bm a =? 0); [rvn st t [IClimb (KLeaf bm a b who)] r [IClimb (KSum bm a)]|rvn st t [IClimb (KLeaf bm a b who)] r (@nil instr)]).
  - destruct (summ st bm =? 0); [rvn st t [IClimb (KSum bm a)] r [IClimb (KTop bm)]|rvn st t [IClimb (KSum bm a)] r (@nil instr)].
  - destruct (top st =? 0); [rvn st t [IClimb (KTop bm)] r [IClimb KCb]|rvn st t [IClimb (KTop bm)] r (@nil instr)].
  - rvn st t [IClimb KCb] r (@nil instr).
Qed.

(** ** what normalisation does to a continuation *)
Definition norm_new (j : instr) : Prop :=
  (exists h d, In j (hinstrs h d)) \/ (exists l, j = IHandlers l) \/ (exists l, j = IDels l).
Inductive nrel : list instr -> list instr -> Prop :=
| nrel_refl : forall k, nrel k k
| nrel_step : forall i r new k1, main_only i = true -> (forall j, In j new -> norm_new j) ->
              nrel (new ++ r) k1 -> nrel (i :: r) k1.

Lemma norm_nrel : forall fuel s acc k ev s1 acc1 k1 ev1,
  norm fuel s acc k ev = (s1, acc1, k1, ev1) -> nrel k k1.
Proof.
  induction fuel as [|f IH]; intros s acc k ev s1 acc1 k1 ev1 H; cbn [norm] in H.
  - inversion H; subst. apply nrel_refl.
  - destruct k as [|i r]; [inversion H; subst; apply nrel_refl|].
    destruct i; try (inversion H; subst; apply nrel_refl; fail).
    + destruct bms; [|inversion H; subst; apply nrel_refl].
      apply (nrel_step (IBms []) r []); [reflexivity|intros j []|]. eapply IH; exact H.
    + destruct ls; [|inversion H; subst; apply nrel_refl].
      apply (nrel_step (ILeaves bm []) r []); [reflexivity|intros j []|]. eapply IH; exact H.
    + apply (nrel_step IRun r [IHandlers acc]); [reflexivity| |eapply IH; exact H].
      intros j [<-|[]]. right; left. eexists; reflexivity.
    + destruct bits as [|b bs].
      * apply (nrel_step (IHandlers []) r []); [reflexivity|intros j []|]. eapply IH; exact H.
      * destruct (slab_get s b) as [h|].
        -- inversion H; subst.
           apply (nrel_step (IHandlers (b :: bs)) r (hinstrs h false ++ [IHandlers bs])); [reflexivity| |].
           ++ intros j Hj. apply in_app_or in Hj. destruct Hj as [Hj|[<-|[]]]; [left; eauto|right; left; eexists; reflexivity].
           ++ rewrite <- app_assoc. apply nrel_refl.
        -- apply (nrel_step (IHandlers (b :: bs)) r [IHandlers bs]); [reflexivity| |eapply IH; exact H].
           intros j [<-|[]]. right; left. eexists; reflexivity.
    + destruct bits as [|b bs].
      * apply (nrel_step (IDels []) r []); [reflexivity|intros j []|]. eapply IH; exact H.
      * destruct (wh_del s b) as [[h s']|].
        -- inversion H; subst.
           apply (nrel_step (IDels (b :: bs)) r (hinstrs h true ++ [IDels bs])); [reflexivity| |].
           ++ intros j Hj. apply in_app_or in Hj. destruct Hj as [Hj|[<-|[]]]; [left; eauto|right; right; eexists; reflexivity].
           ++ rewrite <- app_assoc. apply nrel_refl.
        -- apply (nrel_step (IDels (b :: bs)) r [IDels bs]); [reflexivity| |eapply IH; exact H].
           intros j [<-|[]]. right; right. eexists; reflexivity.
Qed.

Lemma norm_new_cases : forall j, norm_new j ->
  (exists w d, j = IYieldH (HPlain w) d) \/ (exists m a, j = ILock m a) \/ (exists l, j = IHandlers l) \/ (exists l, j = IDels l).
Proof.
  intros j [[h [d Hj]]|[H|H]]; auto.
  destruct h; cbn in Hj; destruct Hj as [<-|[]]; eauto.
Qed.

Lemma nrel_wok : forall k k1, nrel k k1 -> forall P, wok P k -> wok P k1.
Proof.
  induction 1 as [k|i r new k1 Hm Hn Hr IH]; intros P W; [exact W|]. apply IH.
  assert (Wr : wok P r) by (destruct i; cbn [wok] in W; try exact W; discriminate Hm).
  apply wok_app_nw; [|exact Wr]. intros p Hp. apply Hn in Hp. apply norm_new_cases in Hp.
  destruct Hp as [[? [? E]]|[[? [? E]]|[[? E]|[? E]]]]; discriminate E.
Qed.
Lemma nrel_keep : forall k k1, nrel k k1 -> forall j, In j k -> main_only j = false -> In j k1.
Proof.
  induction 1 as [k|i r new k1 Hm Hn Hr IH]; intros j Hj Hf; [exact Hj|]. apply IH; auto.
  destruct Hj as [<-|Hj]; [congruence|]. apply in_or_app. auto.
Qed.
Lemma nrel_id : forall k k1, nrel k k1 -> forall i r, k = i :: r -> main_only i = false -> k1 = k.
Proof.
  induction 1 as [k|i0 r0 new k1 Hm Hn Hr IH]; intros i r E Hf; [reflexivity|]. inversion E; subst. congruence.
Qed.

Lemma notify_fold_wait : forall us st,
  let st' := fold_left (fun s u => upd_th s u (set_twaiting (th s u) false)) us st in
  (forall u, twaiting (thr st' u) = true -> twaiting (thr st u) = true) /\
  (forall u, In u us -> twaiting (thr st' u) = false) /\ pps st' = pps st.
Proof.
  induction us as [|v us IH]; intro st; cbn zeta; [split; [auto|split; [intros u []|reflexivity]]|].
  cbn [fold_left]. destruct (IH (upd_th st v (set_twaiting (th st v) false))) as [A [B C]]. cbn zeta in *.
  split; [|split].
  - intros u Hu. apply A in Hu. revert Hu. cbn. unfold updN, th. destruct (Nat.eqb_spec u v); subst; cbn; [discriminate|auto].
  - intros u [->|Hu]; [|apply B; exact Hu].
    match goal with |- twaiting (thr ?S u) = false => destruct (twaiting (thr S u)) eqn:E; [|reflexivity] end.
    apply A in E. revert E. cbn. unfold updN, th. rewrite Nat.eqb_refl. cbn. auto.
  - rewrite C. reflexivity.
Qed.

Lemma exec_instr_Rv : forall st t i r st' ev,
  pristine st -> LKInv st -> RvInv st ->
  tcont (thr st t) = i :: r -> (forall m, wants i m -> owner st m = None) -> twaiting (thr st t) = false ->
  exec_instr st t i r = (st', ev) -> RvInv st'.
Proof.
  intros st t i r st' ev P L R Hc En Hw H.
  assert (Hc0 : tcont (thr st t) = [i] ++ r) by exact Hc.
  assert (Free : forall m, wants i m ->
            (forall u, u <> t -> nhold (tcont (thr st u)) m = O) /\ nhold r m = O).
  { intros m Wm. pose proof (En m Wm) as O. split.
    - intros u Hu. destruct (nhold (tcont (thr st u)) m) eqn:N; [reflexivity|].
      pose proof (lk_own st L u m ltac:(lia)) as O'. congruence.
    - destruct (nhold r m) eqn:N; [reflexivity|].
      assert (N' : (0 < nhold (tcont (thr st t)) m)%nat) by (rewrite Hc, nhold_cons; lia).
      pose proof (lk_own st L t m N') as O'. congruence. }
  destruct i; cbn [exec_instr] in H.
  - eapply exec_climb_Rv; eauto.
  - inversion H; subst; clear H. rvn st t [ITopSwap] r [IBms (flat_map (bms_of_slot st) (bits_of (top st)))].
  - destruct bms; inversion H; subst; clear H; [exact R|].
    rvn st t [IBms (z :: bms)] r [ILeaves z (bits_of (summ st z)); IBms bms].
  - destruct ls; [inversion H; subst; exact R|].
    destruct (collect (bmbase st bm) z (leaf st bm z)) as [bits ok].
    match type of H with context [ghost_collect ?S0 bits] =>
      destruct (ghost_collect_sl bits S0) as [_ [_ [_ [_ [_ [_ [A7 A8]]]]]]]; remember (ghost_collect S0 bits) as s3 eqn:Es3 end.
    cbn zeta in *. inversion H; subst st' ev; clear H.
    match goal with |- RvInv ?S' => set (st' := S') end.
    assert (C1 : tcont (thr st' t) = [ILeaves bm ls] ++ r).
    { unfold st'. cbn -[Nat.eqb]. unfold updN, th. rewrite A8. cbn -[Nat.eqb]. unfold updN, th. rewrite !Nat.eqb_refl. reflexivity. }
    assert (C3 : forall u, u <> t -> tcont (thr st' u) = tcont (thr st u) /\ (twaiting (thr st' u) = true -> twaiting (thr st u) = true)).
    { intros u Hu. unfold st'. cbn -[Nat.eqb]. unfold updN, th. rewrite A8. cbn -[Nat.eqb]. unfold updN, th.
      destruct (Nat.eqb_spec u t); [congruence|]. split; [reflexivity|auto]. }
    assert (C4 : twaiting (thr st' t) = false).
    { unfold st'. cbn -[Nat.eqb]. unfold updN, th. rewrite A8. cbn -[Nat.eqb]. unfold updN, th. rewrite !Nat.eqb_refl. cbn. exact Hw. }
    apply (rv_step st st' t [ILeaves bm (z :: ls)] r [ILeaves bm ls] (fun _ => false) R Hc0 C1 C3 C4).
    + intros p _. unfold st'. cbn. rewrite A7. split; reflexivity.
    + intros; discriminate.
    + rv_new.
    + rv_not.
    + intros; discriminate.
  - inversion H; subst; exact R.
  - inversion H; subst; exact R.
  - inversion H; subst; exact R.
  - (* lock *)
    match type of H with context [exec_lact ?S0 t ?aa ?rr] => destruct (exec_lact S0 t aa rr) as [s2 e2] eqn:E; set (s1 := S0) in * end.
    inversion H; subst; clear H.
    assert (T : forall u, tcont (thr s1 u) = tcont (thr st u) /\ (twaiting (thr s1 u) = true -> twaiting (thr st u) = true))
      by (intro u; unfold s1; split; [thr_simpl|cbn -[Nat.eqb]; unfold updN, th; cbn -[Nat.eqb]; destruct (Nat.eqb_spec u t); subst; cbn; auto]).
    assert (R1 : RvInv s1) by (apply (rv_eq st); auto).
    assert (Hm : m = lact_mtx a) by (apply (lk_wf st L t (ILock m a)); rewrite Hc; left; reflexivity).
    destruct (Free m eq_refl) as [F1 F2]. rewrite Hm in F1, F2.
    apply (exec_lact_Rv s1 t (ILock m a) a r st' e2 R1).
    + destruct (T t) as [E1 _]. rewrite E1. exact Hc.
    + intros; discriminate.
    + intros u Hu. destruct (T u) as [E1 _]. rewrite E1. apply F1; auto.
    + exact F2.
    + unfold s1. thr_simpl.
    + exact E.
  - (* unlock *)
    destruct (exec_uact st t a r) as [s1 e1] eqn:E. inversion H; subst; clear H.
    pose proof (exec_uact_Rv st t m a r s1 e1 R Hc0 Hw E) as R1.
    apply (rv_eq s1); auto.
  - (* Condvar::wait: release and start waiting, atomically *)
    inversion H; subst; clear H.
    pose proof (rv_pre st R t) as W. rewrite Hc in W. cbn [wok] in W. destruct W as [Na [[r1 Er] Wr]]. subst r.
    match goal with |- RvInv ?S' => set (st' := S') end.
    assert (T : forall u, thr st' u = if Nat.eqb u t then set_tcont (set_twaiting (thr st t) true) (ICvReacq p :: r1) else thr st u).
    { intro u. unfold st'. cbn -[Nat.eqb]. unfold updN, th. cbn -[Nat.eqb]. unfold updN, th.
      destruct (Nat.eqb_spec u t); subst; [rewrite ?Nat.eqb_refl|]; reflexivity. }
    assert (N : forall q, navail st' q <-> navail st q) by (intro q; unfold navail; tauto).
    constructor.
    + intro u. rewrite T. apply (wok_change (navail st)); [|intros q _ Hq; apply N; exact Hq].
      destruct (Nat.eqb_spec u t); [subst; exact Wr|apply (rv_pre st R u)].
    + intros u q r0. rewrite T. destruct (Nat.eqb_spec u t) as [->|Hu].
      * cbn. intros Eq _. inversion Eq; subst. left. apply N. exact Na.
      * intros A B. destruct (rv_wait st R u q r0 A B) as [X|[v X]]; [left; apply N; exact X|]. right.
        exists v. rewrite T. destruct (Nat.eqb_spec v t) as [->|Hv]; [|exact X].
        cbn. rewrite Hc in X. destruct X as [X|X]; [discriminate X|exact X].
    + intros u. rewrite T. destruct (Nat.eqb_spec u t) as [->|Hu]; [cbn; eauto|apply (rv_hd st R u)].
  - (* re-acquire and re-check *)
    match type of H with context [exec_lact ?S0 t ?aa ?rr] => destruct (exec_lact S0 t aa rr) as [s2 e2] eqn:E; set (s1 := S0) in * end.
    inversion H; subst; clear H.
    assert (T : forall u, tcont (thr s1 u) = tcont (thr st u) /\ (twaiting (thr s1 u) = true -> twaiting (thr st u) = true))
      by (intro u; unfold s1; split; [thr_simpl|cbn -[Nat.eqb]; unfold updN, th; cbn -[Nat.eqb]; destruct (Nat.eqb_spec u t); subst; cbn; auto]).
    assert (R1 : RvInv s1) by (apply (rv_eq st); auto).
    destruct (Free (MPq p) eq_refl) as [F1 F2].
    apply (exec_lact_Rv s1 t (ICvReacq p) (LPqRecv p) r st' e2 R1).
    + destruct (T t) as [E1 _]. rewrite E1. exact Hc.
    + intros; discriminate.
    + intros u Hu. destruct (T u) as [E1 _]. rewrite E1. apply F1; auto.
    + exact F2.
    + unfold s1. thr_simpl.
    + exact E.
  - (* notify_all *)
    inversion H; subst st' ev; clear H.
    match goal with |- RvInv (set_cont (fold_left ?f ?us st) t r) =>
      destruct (notify_fold_spec us st) as [_ [_ [_ [_ [_ [_ [_ [_ [_ [A10 _]]]]]]]]]];
      destruct (notify_fold_wait us st) as [B1 [B2 B3]]; set (us0 := us) in *; set (s1 := fold_left f us0 st) in * end.
    cbn zeta in *.
    apply (rv_step st (set_cont s1 t r) t [INotify p] r [] (fun _ => false) R Hc0).
    + thr_simpl.
    + intros u Hu. split; [cbn; unfold updN, th; destruct (Nat.eqb_spec u t); [congruence|]; apply A10|].
      cbn. unfold updN, th. destruct (Nat.eqb_spec u t); [congruence|]. apply B1.
    + cbn. unfold updN, th. rewrite Nat.eqb_refl. cbn. destruct (twaiting (thr s1 t)) eqn:E; [|reflexivity]. apply B1 in E. congruence.
    + intros q _. cbn. rewrite B3. split; reflexivity.
    + intros; discriminate.
    + intro W. exact W.
    + intros q [Eq|[]] u r0 Hu Hh. inversion Eq; subst q. cbn. unfold updN, th. destruct (Nat.eqb_spec u t); [congruence|].
      destruct (twaiting (thr st u)) eqn:Ew.
      * apply B2. unfold us0. apply filter_In. split.
        -- apply in_seq. destruct P as [_ P]. destruct (le_lt_dec (nthr st) u) as [Hge|Hlt]; [|lia].
           destruct (P u Hge) as [Pc _]. rewrite Pc in Hh. discriminate.
        -- unfold th. rewrite Ew, Hh. cbn. apply Z.eqb_refl.
      * destruct (twaiting (thr s1 u)) eqn:E; [|reflexivity]. apply B1 in E. congruence.
    + intros; discriminate.
  - unfold ghost_handler in H. inversion H; subst; clear H.
    destruct del; [rvn st t [IYieldH h true] r (@nil instr)|rvn st t [IYieldH h false] r (@nil instr)].
  - inversion H; subst; clear H. rvn st t [IJoin] r (@nil instr).
  - inversion H; subst; clear H. rvn st t [IIdle] r (@nil instr).
Qed.

Ltac rvb st t new :=
  apply (rv_step st _ t (@nil instr) (@nil instr) new (fun _ => false));
  [ assumption | eassumption | thr_simpl | rv_ho | thr_simpl | rv_pps | intros; discriminate | rv_new | rv_not
  | intros; discriminate ].

Lemma fill_loop_pps : forall n st ev st' ev', fill_loop n st ev = (st', ev') -> pps st' = pps st /\ thr st' = thr st.
Proof.
  induction n as [|n IH]; intros st ev st' ev' H; cbn [fill_loop] in H.
  - inversion H; subst; auto.
  - destruct (wh_add st (HPlain (1000000 + nfill st))) as [[st1 wi]|] eqn:E; [|inversion H; subst; auto].
    destruct (wh_add_core _ _ _ _ E) as [c1 [A [B [C1 [C2 [C3 [C4 [C5 [C6 [C7 C8]]]]]]]]]].
    apply IH in H. cbn in H. destruct H as [H1 H2]. split; congruence.
Qed.

Lemma begin_cmd_Rv : forall st t c st' ev done,
  pristine st -> RvInv st -> tcont (thr st t) = [] -> (t < nthr st)%nat ->
  begin_cmd st t c = (st', ev, done) -> RvInv st'.
Proof.
  intros st t c st' ev done P R Hc Ht H.
  assert (Hc0 : tcont (thr st t) = [] ++ []) by exact Hc.
  assert (Hw : twaiting (thr st t) = false).
  { destruct (twaiting (thr st t)) eqn:E; [|reflexivity]. destruct (rv_hd st R t E) as [p [r0 X]]. congruence. }
  assert (Sp : forall s1 p f, (forall u, thr s1 u = thr st u) -> nthr s1 = nthr st ->
                 forall u, tcont (thr (spawn_thread s1 t p f) u) = tcont (thr st u) /\
                           (twaiting (thr (spawn_thread s1 t p f) u) = true -> twaiting (thr st u) = true)).
  { intros s1 p f E1 E2 u. cbn. unfold updN, th. destruct (Nat.eqb_spec u (nthr s1)) as [->|]; [|rewrite E1; auto].
    cbn. split; [|discriminate]. symmetry. destruct P as [_ P]. apply P. lia. }
  destruct c; cbn [begin_cmd] in H.
  - destruct (wreg st w) as [wi|]; [|inversion H; subst; auto].
    destruct (climb_start st wi (Some (HPlain w))) as [i|] eqn:E; inversion H; subst; clear H; [|auto].
    apply climb_at_climb in E. destruct E as [k ->]. rvb st t [IClimb k].
  - destruct (wreg st w) as [wi|] eqn:Ew; [|inversion H; subst; auto].
    destruct (wbusy st w); inversion H; subst; clear H.
    + rvb st t [ILock MDL (LPush (wbit wi) (wbm wi) (HPlain w))].
    + apply (rv_eq st); auto.
  - destruct (Waker.creg (chs st c)); inversion H; subst; clear H; [|auto]. rvb st t [ILock (MCh c) (LChSend c m)].
  - destruct (Waker.creg (chs st c)); inversion H; subst; clear H; [|auto]. rvb st t [ILock (MCh c) (LChClosed c)].
  - destruct (negb (is_main t) || wused st w || (1000000 <=? w) || (w <? 0)); [inversion H; subst; auto|].
    destruct (wh_add st (HPlain w)) as [[st1 wi]|] eqn:E; inversion H; subst; clear H; [|auto].
    destruct (wh_add_core _ _ _ _ E) as [c1 [A [B [C1 [C2 [C3 [C4 [C5 [C6 [C7 C8]]]]]]]]]].
    apply (rv_eq st); cbn; auto. intro u. rewrite C1. auto.
  - destruct (negb (is_main t)); [inversion H; subst; auto|].
    destruct (fill_loop (Z.to_nat n) st []) as [st1 ev1] eqn:E. inversion H; subst; clear H.
    destruct (fill_loop_pps _ _ _ _ _ E) as [A B]. apply (rv_eq st); auto. intro u. rewrite B. auto.
  - destruct (negb (is_main t)); inversion H; subst; clear H; [auto|]. rvb st t [ITopSwap; IRun].
  - destruct (negb (is_main t)); [inversion H; subst; auto|].
    destruct (gnotified st); inversion H; subst; clear H; [|auto]. rvb st t [ITopSwap; IRun].
  - destruct (negb (is_main t)); inversion H; subst; clear H; [auto|].
    apply (rv_eq st); auto.
  - destruct (negb (is_main t)); inversion H; subst; clear H; [auto|]. rvb st t [IJoin].
  - destruct (negb (is_main t)); inversion H; subst; clear H; [auto|]. rvb st t [IIdle].
  - destruct (negb (is_main t) || cexists (chs st c)) eqn:Eg; [inversion H; subst; auto|].
    destruct (wh_add st (HChan c)) as [[st1 wi]|] eqn:E; inversion H; subst; clear H; [|auto].
    destruct (wh_add_core _ _ _ _ E) as [c1 [A [B [C1 [C2 [C3 [C4 [C5 [C6 [C7 C8]]]]]]]]]].
    assert (R1 : RvInv st1) by (apply (rv_eq st); auto; intro u; rewrite C1; auto).
    assert (Hc1 : tcont (thr st1 t) = [] ++ []) by (rewrite C1; exact Hc).
    assert (Hw1 : twaiting (thr st1 t) = false) by (rewrite C1; exact Hw).
    rvb st1 t [ILock (MCh c) (LChInit c)].
  - destruct (negb (is_main t) || negb (cguard (chs st c))); inversion H; subst; clear H; [auto|].
    rvb st t [ILock (MCh c) (LChClose c)].
  - (* CPNew: the new pipe has nothing to receive and no cancellation *)
    destruct (negb (is_main t) || pexists (pps st p)); [inversion H; subst; auto|].
    destruct (wh_add st (HPipe p)) as [[st1 wi]|] eqn:E; inversion H; subst; clear H; [|auto].
    destruct (wh_add_core _ _ _ _ E) as [c1 [A [B [C1 [C2 [C3 [C4 [C5 [C6 [C7 C8]]]]]]]]]].
    match goal with |- RvInv ?S' => set (st' := S') end.
    assert (T : forall u, tcont (thr st' u) = tcont (thr st u) /\ (twaiting (thr st' u) = true -> twaiting (thr st u) = true)).
    { intro u. unfold st'. apply Sp; [|exact C2]. intro v. cbn. rewrite C1. reflexivity. }
    apply (rv_step st st' t [] [] [] (fun p0 => p0 =? p) R Hc0).
    + destruct (T t) as [E1 _]. rewrite E1. exact Hc.
    + intros u _. apply T.
    + destruct (twaiting (thr st' t)) eqn:Ew; [|reflexivity]. destruct (T t) as [_ E2]. rewrite (E2 Ew) in Hw. discriminate.
    + intros p0 E0. unfold st'. cbn. unfold updZ. rewrite E0, C8. split; reflexivity.
    + intros p0 E0. apply Z.eqb_eq in E0. subst p0. left. unfold st', navail. cbn. unfold updZ. rewrite Z.eqb_refl. cbn. auto.
    + intro W. exact W.
    + intros p0 [].
    + intros p0 E0 _. apply Z.eqb_eq in E0. subst p0. left. unfold st', navail. cbn. unfold updZ. rewrite Z.eqb_refl. cbn. auto.
  - destruct (negb (is_main t) || negb (phandle (pps st p))); inversion H; subst; clear H; [auto|]. rvb st t [ILock (MPq p) (LPqSend p m)].
  - destruct (negb (is_main t) || negb (phandle (pps st p))); inversion H; subst; clear H; [auto|]. rvb st t [ILock (MPq p) (LPqCancelSet p)].
  - destruct (tpipe (th st t) <? 0); inversion H; subst; clear H; [auto|]. rvb st t [ILock (MPq (tpipe (th st t))) (LPqRecv (tpipe (th st t)))].
  - destruct (tpipe (th st t) <? 0); inversion H; subst; clear H; [auto|]. rvb st t [ILock (MPq (tpipe (th st t))) (LPqLSend (tpipe (th st t)) m)].
  - destruct (tpipe (th st t) <? 0); inversion H; subst; clear H; [auto|]. rvb st t [ILock (MPq (tpipe (th st t))) (LPqCancelGet (tpipe (th st t)))].
  - destruct (tpipe (th st t) <? 0); inversion H; subst; clear H; [auto|].
    apply (rv_eq st); auto. intro u.
    split; [thr_simpl|cbn -[Nat.eqb]; unfold updN, th; cbn -[Nat.eqb]; destruct (Nat.eqb_spec u t); subst; cbn; auto].
Qed.

Lemma settle_Rv : forall st t ev done st' ev',
  CInv (core st) -> RvInv st -> settle st t ev done = (st', ev') -> RvInv st'.
Proof.
  intros st t ev done st' ev' I R H. unfold settle in H.
  destruct (norm (2 * (cont_size (tcont (th st t)) + length (tacc (th st t))) + 2) (sl st) (tacc (th st t)) (tcont (th st t)) ev)
    as [[[s1 acc1] k1] ev1] eqn:En.
  cbn zeta in H.
  set (st1 := set_sl (upd_th st t (set_tacc (set_tcont (th st t) k1) acc1)) s1) in *.
  assert (R1 : RvInv st1).
  { pose proof (norm_nrel _ _ _ _ _ _ _ _ _ En) as N.
    apply (rv_replace st st1 t k1 R); try reflexivity.
    - unfold st1. thr_simpl.
    - unfold st1. thr_simpl.
    - intro u. unfold st1. thr_simpl.
    - intros Pp. apply (nrel_wok _ _ N).
    - intros p Hin. apply (nrel_keep _ _ N); auto.
    - intros p r0 E. eapply (nrel_id _ _ N); [exact E|reflexivity]. }
  assert (I1f : forall i, In i (tfinal (thr st1 t)) -> okfinal_c (core st) i).
  { intros i Hi. apply (i_final _ I t). revert Hi. unfold st1. cbn -[Nat.eqb]. unfold updN, th. rewrite Nat.eqb_refl. cbn. auto. }
  clearbody st1.
  match type of H with (let '(st2, ev2) := ?E in _) = _ => destruct E as [st2 ev2] eqn:E2 end.
  assert (R2 : RvInv st2 /\ tfinal (thr st2 t) = tfinal (thr st1 t)).
  { assert (G : forall s, (forall u, tcont (thr s u) = tcont (thr st1 u) /\ twaiting (thr s u) = twaiting (thr st1 u)) ->
                          pps s = pps st1 -> RvInv s).
    { intros s A B. apply (rv_eq st1); auto. intro u. destruct (A u) as [X Y]. split; [exact X|rewrite Y; auto]. }
    destruct done as [v|].
    - inversion E2; subst. split; [|thr_simpl]. apply G; [|reflexivity]. intro u. split; thr_simpl.
    - destruct k1.
      + destruct (tcur (th st1 t)) as [c|]; inversion E2; subst; [|auto].
        split; [|destruct c; thr_simpl]. apply G; [|destruct c; reflexivity]. intro u. destruct c; split; thr_simpl.
      + inversion E2; subst. auto. }
  destruct R2 as [R2 F2].
  destruct (tcont (th st2 t)) eqn:Ec; [|inversion H; subst; exact R2].
  destruct (tscript (th st2 t)); [|inversion H; subst; exact R2].
  destruct (tcur (th st2 t)); [inversion H; subst; exact R2|].
  destruct (tfinal (th st2 t)) eqn:Ef; inversion H; subst; [exact R2|].
  assert (Hc0 : tcont (thr st2 t) = [] ++ []) by exact Ec.
  assert (Hw : twaiting (thr st2 t) = false).
  { destruct (twaiting (thr st2 t)) eqn:E; [|reflexivity]. destruct (rv_hd st2 R2 t E) as [p [r0 X]]. unfold th in Ec. congruence. }
  apply (rv_step st2 _ t (@nil instr) (@nil instr) (i :: l) (fun _ => false));
    [ assumption | eassumption | | rv_ho | thr_simpl | rv_pps | intros; discriminate | | rv_not | intros; discriminate ].
  - cbn -[Nat.eqb]. unfold updN, th. rewrite Nat.eqb_refl. cbn. rewrite app_nil_r. reflexivity.
  - intro W. apply wok_app_nw; [|exact W]. intros p Hin. unfold th in Ef. rewrite <- Ef, F2 in Hin. apply I1f in Hin.
    exact Hin.
Qed.

Theorem wstep_Rv : forall st t st' ev,
  MInv st -> LKInv st -> RvInv st -> wstep st t = (st', ev) -> RvInv st'.
Proof.
  intros st t st' ev [I [P Wf]] L R H. unfold wstep in H.
  destruct (enabled st t) eqn:En; cbn [negb] in H; [|inversion H; subst; exact R].
  assert (Ht : (t < nthr st)%nat).
  { unfold enabled in En. apply andb_true_iff in En. destruct En as [En _]. apply Nat.ltb_lt in En. exact En. }
  assert (It : CInv (core (tick st t))) by (eapply CInv_ceq; [|exact I]; unfold tick; same_core).
  assert (Pt : pristine (tick st t)) by (unfold tick; prist st t).
  assert (Lt : LKInv (tick st t)) by (unfold tick; lk_same st).
  assert (Same : forall s, (forall u, tcont (thr s u) = tcont (thr st u) /\ twaiting (thr s u) = twaiting (thr st u)) ->
                           pps s = pps st -> RvInv s).
  { intros s A B. apply (rv_eq st); auto. intro u. destruct (A u) as [X Y]. split; [exact X|rewrite Y; auto]. }
  assert (Rt : RvInv (tick st t)) by (apply Same; [intro u; unfold tick; split; thr_simpl|reflexivity]).
  assert (Es' : tstarted (th (tick st t) t) = tstarted (th st t)) by (unfold tick; thr_simpl).
  assert (Ec' : tcont (th (tick st t) t) = tcont (th st t)) by (unfold tick; thr_simpl).
  assert (Sc' : tscript (th (tick st t) t) = tscript (th st t)) by (unfold tick; thr_simpl).
  assert (Wt' : twaiting (thr (tick st t) t) = twaiting (thr st t)) by (unfold tick; thr_simpl).
  assert (Ow : owner (tick st t) = owner st) by reflexivity.
  assert (Htt : (t < nthr (tick st t))%nat) by exact Ht.
  rewrite Es', Ec', Sc' in H.
  destruct (tstarted (th st t)) eqn:Es; cbn [negb] in H.
  - destruct (tcont (th st t)) as [|i r] eqn:Ec.
    + destruct (tscript (th st t)) as [|c0 cs]; [inversion H; subst; exact R|].
      match type of H with context [begin_cmd ?S0 t ?cc] =>
        destruct (begin_cmd S0 t cc) as [[st2 ev0] done] eqn:Eb; set (s1 := S0) in * end.
      assert (I1 : CInv (core s1)) by (eapply CInv_ceq; [|exact It]; unfold s1; same_core).
      assert (P1 : pristine s1) by (unfold s1; prist (tick st t) t).
      assert (W1 : wfi s1) by (eapply wfi_eq; [| | |exact Wf]; reflexivity).
      assert (R1 : RvInv s1) by (apply Same; [intro u; unfold s1, tick; split; thr_simpl|reflexivity]).
      assert (Hc1 : tcont (thr s1 t) = []).
      { unfold s1. cbn -[Nat.eqb]. unfold updN, th. rewrite Nat.eqb_refl. cbn. unfold th in Ec. first [exact Ec | rewrite Nat.eqb_refl; cbn; exact Ec]. }
      assert (Ht1 : (t < nthr s1)%nat) by exact Htt.
      destruct (begin_cmd_inv s1 t c0 st2 ev0 done I1 P1 W1 Hc1 Ht1 Eb) as [I2 _].
      eapply settle_Rv; [exact I2| |exact H].
      exact (begin_cmd_Rv s1 t c0 st2 ev0 done P1 R1 Hc1 Ht1 Eb).
    + destruct (exec_instr (tick st t) t i r) as [st1 ev1] eqn:Ee.
      assert (Ec1 : tcont (thr (tick st t) t) = i :: r) by (unfold th in Ec', Ec; first [exact Ec'|rewrite Ec'; exact Ec]).
      assert (I1 : CInv (core st1)) by (eapply exec_instr_inv; eauto).
      eapply settle_Rv; [exact I1| |exact H].
      unfold enabled in En. rewrite Es, Ec in En. cbn [negb] in En. apply andb_true_iff in En. destruct En as [_ En].
      apply (exec_instr_Rv (tick st t) t i r st1 ev1 Pt Lt Rt Ec1); [| |exact Ee].
      * intros m Hw. rewrite Ow. destruct i; cbn in Hw; try contradiction; subst; cbn in En.
        -- destruct (owner st m); [discriminate|reflexivity].
        -- apply andb_true_iff in En. destruct En as [_ En]. destruct (owner st (MPq p)); [discriminate|reflexivity].
      * rewrite Wt'. destruct (twaiting (thr st t)) eqn:Ew; [|reflexivity].
        destruct (rv_hd st R t Ew) as [p [r0 X]]. unfold th in Ec. rewrite Ec in X. inversion X; subst.
        cbn in En. unfold th in En. rewrite Ew in En. discriminate.
  - eapply settle_Rv; [| |exact H].
    + eapply CInv_ceq; [|exact It]. same_core.
    + apply Same; [intro u; unfold tick; split; thr_simpl|reflexivity].
Qed.

Lemma Rv_init : forall scr, RvInv (winit scr).
Proof.
  intro scr. constructor; cbn.
  - intro t. exact Logic.I.
  - intros; discriminate.
  - intros t E. unfold set_tstarted in E. cbn in E. discriminate.
Qed.

Lemma wrun_Rv : forall sched st, MInv st -> LKInv st -> RvInv st -> RvInv (fst (wrun st sched)).
Proof.
  induction sched as [|t rest IH]; intros st M L R; cbn [wrun]; auto.
  destruct (wstep st t) as [st1 ev] eqn:E.
  specialize (IH st1 (wstep_inv _ _ _ _ M E) (wstep_LK _ _ _ _ M L E) (wstep_Rv _ _ _ _ M L R E)).
  destruct (wrun st1 rest) as [st2 tr]. exact IH.
Qed.

Theorem reachable_Rv : forall st, reachable st -> RvInv st.
Proof.
  intros st [scr [sched ->]]. apply wrun_Rv; [apply MInv_init| |apply Rv_init].
  exact (reachable_LK (winit scr) (ex_intro _ scr (ex_intro _ [] eq_refl))).
Qed.

(** A blocked [recv] always wakes for a new message or for cancellation: a worker waiting on the condition
    variable of pipe [p] (its next operation is the re-acquisition of the mutex, and it has not been notified)
    has nothing to receive and is not cancelled - unless a [notify] for [p] is about to be executed. *)
Theorem recv_not_lost : forall st t p r0,
  reachable st -> tcont (thr st t) = ICvReacq p :: r0 -> twaiting (thr st t) = true ->
  (forall u, ~ In (INotify p) (tcont (thr st u))) ->
  psendq (pps st p) = [] /\ pcancel (pps st p) = false.
Proof.
  intros st t p r0 R Hc Hw Hn. destruct (rv_wait st (reachable_Rv st R) t p r0 Hc Hw) as [X|[u X]]; [exact X|].
  exfalso. exact (Hn u X).
Qed.

(** the decision to wait is taken, and the wait started, atomically with respect to the queue *)
Theorem recv_wait_decided : forall st t p r0,
  reachable st -> tcont (thr st t) = ICvWait p :: r0 ->
  psendq (pps st p) = [] /\ pcancel (pps st p) = false /\ owner st (MPq p) = Some t.
Proof.
  intros st t p r0 R Hc. pose proof (rv_pre st (reachable_Rv st R) t) as W. rewrite Hc in W. cbn [wok] in W.
  destruct W as [[A B] _]. split; [exact A|]. split; [exact B|].
  apply (lk_own st (reachable_LK st R) t (MPq p)). rewrite Hc, nhold_cons. cbn [holdb]. rewrite mtx_eqb_refl. lia.
Qed.
