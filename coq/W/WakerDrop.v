(** * Layer W: no drop notification is stranded (C12).

    [RInv]: whenever the drop list is non-empty, a wake-up is owed to the drop handler (the handler of
    the reserved slots, which runs [process_waker_drops]) - or the thread that pushed is still inside
    the drop-list critical section, about to set the reserved bit.  Together with C11 ([not_stranded])
    every pushed drop is processed before the system can become quiescent. *)
From Coq Require Import ZArith List Bool Arith Lia.
From Stk Require Import Lib.U Gen.SrcWaker W.Waker W.WakerArith W.WakerCore W.WakerSlab W.WakerPres W.WakerRefine W.WakerProofs W.WakerGhost.
Import ListNotations.
Local Open Scope Z_scope.

Definition rwitness (st : wstate) (t : tid) : Prop :=
  exists bm r, tcont (thr st t) = IClimb (KLeaf bm 0 0 None) :: r.
Definition Rw (st : wstate) : Prop := owed st HReserved \/ exists t, rwitness st t.
Definition RInv (st : wstate) : Prop := dl st <> [] -> Rw st.

(** a step component of thread [t] that leaves the drop list alone, does not discharge the wake-up owed
    to the drop handler, and does not touch the continuations of the other threads *)
Definition frameR (st st' : wstate) (t : tid) : Prop :=
  dl st' = dl st /\ (owed st HReserved -> owed st' HReserved) /\
  (forall u, u <> t -> tcont (thr st' u) = tcont (thr st u)).

Lemma frameR_Rw : forall st st' t, frameR st st' t -> ~ rwitness st t -> Rw st -> Rw st'.
Proof.
  intros st st' t [_ [Ho Hc]] Hn [O|[u [bm [r W]]]]; [left; auto|].
  right. exists u. destruct (Nat.eq_dec u t) as [->|Hu]; [exfalso; apply Hn; exists bm, r; auto|].
  exists bm, r. rewrite Hc; auto.
Qed.

Lemma frameR_trans : forall a b c t, frameR a b t -> frameR b c t -> frameR a c t.
Proof.
  intros a b c t [A1 [A2 A3]] [B1 [B2 B3]]. split; [congruence|]. split; [auto|].
  intros u Hu. rewrite B3, A3; auto.
Qed.

Lemma owed_same : forall st st', gnew st' = gnew st -> gcol st' = gcol st -> forall h, owed st h -> owed st' h.
Proof. intros st st' A B h. unfold owed. rewrite A, B. auto. Qed.

Ltac fR := split; [reflexivity|split; [try (apply owed_same; reflexivity)|thr_simpl]].

(** the reserved bit of a registered bitmap credits the drop handler *)
Lemma reserved_credit : forall st bm,
  CInv (core st) -> registered st bm = true ->
  bitmap_join 0 0 (bmbase st bm) = Some (4096 * bm) /\ slab_get (sl st) (4096 * bm) = Some HReserved.
Proof.
  intros st bm I Hr. pose proof (i_slab _ I) as S.
  assert (Hc : creg (core st) bm = true) by exact Hr.
  pose proof (s_base _ S bm Hc) as Hb. cbn [core c_base] in Hb.
  destruct (creg_bound _ bm S Hc) as [B0 B1].
  apply creg_iff in Hc; auto. destruct Hc as [_ Hl]. cbn [core c_sl] in Hl.
  split.
  - rewrite Hb, bitmap_join_spec by lia. reflexivity.
  - assert (Hres : sent (sl st) (4096 * bm) = SOcc HReserved).
    { apply (s_res _ S (4096 * bm)); cbn [core c_sl]; [lia|]. rewrite Z.mul_comm. apply Z.mod_mul. lia. }
    unfold slab_get. replace ((0 <=? 4096 * bm) && (4096 * bm <? slen (sl st))) with true
      by (symmetry; apply andb_true_iff; rewrite Z.leb_le, Z.ltb_lt; lia).
    rewrite Hres. reflexivity.
Qed.

Lemma climb_reserved_spec : forall st bm,
  CInv (core st) -> registered st bm = true ->
  climb_reserved st bm = Some (IClimb (KLeaf bm 0 0 None)).
Proof.
  intros st bm I Hr. pose proof (i_slab _ I) as S.
  assert (Hc : creg (core st) bm = true) by exact Hr.
  pose proof (s_base _ S bm Hc) as Hb. cbn [core c_base] in Hb.
  destruct (creg_bound _ bm S Hc) as [B0 B1].
  unfold climb_reserved, climb_at. rewrite Hb, bitmap_split_spec by lia.
  replace (4096 * bm - 4096 * bm) with 0 by lia. cbn [Z.div Z.modulo Z.div_eucl].
  rewrite usize_bits. cbn [Z.ltb Z.compare]. rewrite Hr. reflexivity.
Qed.

Definition RC (st st' : wstate) (t : tid) : Prop := frameR st st' t \/ dl st' = [] \/ Rw st'.

Lemma exec_lact_R : forall st t m a r st' ev,
  CInv (core st) -> tcont (thr st t) = ILock m a :: r ->
  exec_lact st t a r = (st', ev) -> RC st st' t.
Proof.
  intros st t m a r st' ev I Hc H.
  destruct a; cbn [exec_lact] in H.
  - (* LPush *)
    assert (Hreg : registered st bm = true).
    { pose proof (i_wf _ I t (ILock m (LPush bit bm who))) as W. cbn [core c_cont] in W. rewrite Hc in W.
      exact (W (or_introl eq_refl)). }
    rewrite (climb_reserved_spec st bm I Hreg) in H. inversion H; subst; clear H.
    right; right. right. exists t, bm, (IUnlock MDL UNone :: r). thr_simpl.
  - (* LTake *)
    unfold ghost_handler in H. inversion H; subst; clear H. right; left. reflexivity.
  - inversion H; subst; clear H. left. fR.
  - destr_all H; inversion H; subst; clear H; left; fR.
  - inversion H; subst; clear H. left. fR.
  - destr_all H; inversion H; subst; clear H; left; fR.
  - (* LChHandler *)
    unfold ghost_handler in H. inversion H; subst; clear H. left.
    destruct del; (split; [reflexivity|split; [|thr_simpl]]);
      unfold owed; cbn; rewrite ?updH_other by discriminate; auto.
  - (* LPqHandler *)
    unfold ghost_handler in H. inversion H; subst; clear H. left.
    destruct del; (split; [reflexivity|split; [|thr_simpl]]);
      unfold owed; cbn; rewrite ?updH_other by discriminate; auto.
  - destr_all H; inversion H; subst; clear H; left; fR.
  - inversion H; subst; clear H. left. fR.
  - destr_all H; inversion H; subst; clear H; left; fR.
  - destr_all H; inversion H; subst; clear H; left; fR.
  - inversion H; subst; clear H. left. fR.
  - inversion H; subst; clear H. left. fR.
Qed.

Lemma exec_uact_R : forall st t a r st' ev, exec_uact st t a r = (st', ev) -> frameR st st' t.
Proof.
  intros st t a r st' ev H. destruct a; cbn [exec_uact] in H; inversion H; subst; clear H; fR.
Qed.

Lemma exec_climb_R : forall st t k r st' ev,
  CInv (core st) -> tcont (thr st t) = IClimb k :: r ->
  exec_climb st t k r = (st', ev) ->
  frameR st st' t /\ (forall bm, k = KLeaf bm 0 0 None -> owed st' HReserved).
Proof.
  intros st t k r st' ev I Hc H.
  destruct k; cbn [exec_climb] in H; inversion H; subst; clear H.
  - split.
    + split; [|split].
      * destruct (bitmap_join a b (bmbase st bm)); [destruct (slab_get (sl st) z)|]; reflexivity.
      * unfold owed. destruct (bitmap_join a b (bmbase st bm)); [destruct (slab_get (sl st) z)|]; cbn; auto.
        unfold updH. destruct (hkind_eqb HReserved h); auto. intros _. left. unfold ovjoin. destruct (gnew st h); discriminate.
      * destruct (bitmap_join a b (bmbase st bm)); [destruct (slab_get (sl st) z)|]; thr_simpl.
    + intros bm0 E. inversion E; subst.
      pose proof (i_wf _ I t (IClimb (KLeaf bm0 0 0 None))) as W. cbn [core c_cont] in W. rewrite Hc in W.
      destruct (W (or_introl eq_refl)) as [Hreg _].
      destruct (reserved_credit st bm0 I Hreg) as [E1 E2]. rewrite E1, E2.
      left. cbn. unfold updH. cbn. unfold ovjoin. destruct (gnew st HReserved); discriminate.
  - split; [fR|intros; discriminate].
  - split; [fR|intros; discriminate].
  - split; [fR|intros; discriminate].
Qed.

Lemma ghost_collect_dl : forall bits st, dl (ghost_collect st bits) = dl st.
Proof.
  unfold ghost_collect. induction bits as [|b bits IH]; intro st; [reflexivity|]. cbn [fold_left].
  destruct (slab_get (sl st) b); rewrite IH; reflexivity.
Qed.

Lemma exec_instr_R : forall st t i r st' ev,
  CInv (core st) -> tcont (thr st t) = i :: r ->
  exec_instr st t i r = (st', ev) ->
  (RC st st' t) /\ (rwitness st t -> Rw st').
Proof.
  intros st t i r st' ev I Hc H.
  assert (NW : forall j, (forall k, j <> IClimb k) -> i = j -> ~ rwitness st t).
  { intros j Hj -> [bm [r' W]]. rewrite Hc in W. inversion W. eapply Hj; eauto. }
  destruct i; cbn [exec_instr] in H.
  - destruct (exec_climb_R st t k r st' ev I Hc H) as [F O]. split; [left; exact F|].
    intros [bm [r' W]]. rewrite Hc in W. inversion W; subst. left. eapply O; eauto.
  - inversion H; subst; clear H. split; [left; fR|intro W; exfalso; eapply NW; eauto; discriminate].
  - split; [|intro W; exfalso; eapply NW; eauto; discriminate].
    destruct bms; inversion H; subst; clear H; left; [split; [reflexivity|split; auto]|fR].
  - split; [|intro W; exfalso; eapply NW; eauto; discriminate].
    destruct ls; [inversion H; subst; left; split; [reflexivity|split; auto]|].
    destruct (collect (bmbase st bm) z (leaf st bm z)) as [bits ok].
    match type of H with context [ghost_collect ?S bits] =>
      pose proof (ghost_collect_dl bits S) as D; destruct (ghost_collect_frame bits S) as [A B];
      pose proof (ghost_collect_owed bits S HReserved) as O; remember (ghost_collect S bits) as s3 eqn:Es3 end.
    inversion H; subst st' ev; clear H. left. split; [|split].
    + cbn. rewrite D. reflexivity.
    + intro Ho. unfold owed. cbn. apply O. unfold owed in *. cbn. exact Ho.
    + intros u Hu. cbn. unfold updN, th. rewrite B. cbn -[Nat.eqb]. unfold updN, th.
      destruct (Nat.eqb_spec u t); [congruence|]. destruct (Nat.eqb_spec u t); [congruence|reflexivity].
  - inversion H; subst. split; [left; split; [reflexivity|split; auto]|intro W; exfalso; eapply NW; eauto; discriminate].
  - inversion H; subst. split; [left; split; [reflexivity|split; auto]|intro W; exfalso; eapply NW; eauto; discriminate].
  - inversion H; subst. split; [left; split; [reflexivity|split; auto]|intro W; exfalso; eapply NW; eauto; discriminate].
  - split; [|intro W; exfalso; eapply NW; eauto; discriminate].
    match type of H with context [exec_lact ?S t ?aa ?rr] => destruct (exec_lact S t aa rr) as [s2 e2] eqn:E; set (s1 := S) in * end.
    inversion H; subst; clear H.
    assert (I1 : CInv (core s1)) by (eapply CInv_ceq; [|exact I]; unfold s1; same_core).
    assert (Hc1 : tcont (thr s1 t) = ILock m a :: r) by (unfold s1; thr_simpl; exact Hc).
    destruct (exec_lact_R s1 t m a r st' e2 I1 Hc1 E) as [F|[D|W]]; [left|right; left; exact D|right; right; exact W].
    eapply frameR_trans; [|exact F]. unfold s1. fR.
  - split; [|intro W; exfalso; eapply NW; eauto; discriminate].
    destruct (exec_uact st t a r) as [s1 e1] eqn:E. inversion H; subst; clear H.
    apply exec_uact_R in E. left. eapply frameR_trans; [exact E|]. fR.
  - inversion H; subst; clear H. split; [left; fR|intro W; exfalso; eapply NW; eauto; discriminate].
  - split; [|intro W; exfalso; eapply NW; eauto; discriminate].
    match type of H with context [exec_lact ?S t ?aa ?rr] => destruct (exec_lact S t aa rr) as [s2 e2] eqn:E; set (s1 := S) in * end.
    inversion H; subst; clear H. left.
    assert (F : frameR s1 st' t).
    { clear - E. cbn [exec_lact] in E. destr_all E; inversion E; subst; clear E; fR. }
    eapply frameR_trans; [|exact F]. unfold s1. fR.
  - split; [|intro W; exfalso; eapply NW; eauto; discriminate].
    inversion H; subst st' ev; clear H. left.
    match goal with |- frameR st (set_cont (fold_left ?f ?us st) t r) t =>
      destruct (notify_fold_spec us st) as [A1 [A2 [A3 [A4 [A5 [A6 [A7 [A8 [A9 [A10 [A11 A12]]]]]]]]]]];
      assert (D : dl (fold_left f us st) = dl st) end.
    { clear. match goal with |- dl (fold_left ?f ?us st) = _ => generalize us end. intro us. revert st.
      induction us as [|v us IH]; intro st; [reflexivity|]. cbn [fold_left]. rewrite IH. reflexivity. }
    cbn zeta in *. split; [cbn; exact D|split].
    + unfold owed. cbn. rewrite A8, A9. auto.
    + intros u Hu. cbn. unfold updN, th. destruct (Nat.eqb_spec u t); [congruence|]. apply A10.
  - split; [|intro W; exfalso; eapply NW; eauto; discriminate].
    assert (Hh : h <> HReserved).
    { intro E. subst h. pose proof (i_wf _ I t (IYieldH HReserved del)) as W. cbn [core c_cont] in W. rewrite Hc in W.
      exact (W (or_introl eq_refl)). }
    unfold ghost_handler in H. inversion H; subst; clear H. left.
    destruct del; (split; [reflexivity|split; [|thr_simpl]]);
      unfold owed; cbn; rewrite ?updH_other by congruence; auto.
  - inversion H; subst; clear H. split; [left; fR|intro W; exfalso; eapply NW; eauto; discriminate].
  - inversion H; subst; clear H. split; [left; fR|intro W; exfalso; eapply NW; eauto; discriminate].
Qed.

Lemma wh_add_R : forall st h st1 wi, wh_add st h = Some (st1, wi) ->
  dl st1 = dl st /\ gnew st1 = gnew st /\ gcol st1 = gcol st /\ thr st1 = thr st.
Proof.
  intros st h st1 wi H. unfold wh_add in H.
  destruct (slab_insert (sl st) h) as [bit0 s0].
  destruct (add_loop 2 s0 h bit0) as [[[bit base] s1]|]; [|discriminate].
  destruct (waker_vec_index bit); [|discriminate]. destruct (waker_slot bit); [|discriminate].
  inversion H; subst. repeat split; reflexivity.
Qed.

Lemma fill_loop_R : forall n st ev st' ev', fill_loop n st ev = (st', ev') ->
  dl st' = dl st /\ gnew st' = gnew st /\ gcol st' = gcol st /\ thr st' = thr st.
Proof.
  induction n as [|n IH]; intros st ev st' ev' H; cbn [fill_loop] in H.
  - inversion H; subst; auto.
  - destruct (wh_add st (HPlain (1000000 + nfill st))) as [[st1 wi]|] eqn:E.
    + apply wh_add_R in E. destruct E as [E1 [E2 [E3 E4]]]. apply IH in H. cbn in H.
      destruct H as [H1 [H2 [H3 H4]]]. repeat split; congruence.
    + inversion H; subst; auto.
Qed.

Lemma frameR_eq : forall st st' t,
  dl st' = dl st -> gnew st' = gnew st -> gcol st' = gcol st ->
  (forall u, u <> t -> tcont (thr st' u) = tcont (thr st u)) -> frameR st st' t.
Proof. intros st st' t A B C D. split; auto. split; auto. apply owed_same; auto. Qed.

Lemma begin_cmd_R : forall st t c st' ev done,
  pristine st -> (t < nthr st)%nat -> begin_cmd st t c = (st', ev, done) -> frameR st st' t.
Proof.
  intros st t c st' ev done [P0 P] Ht H.
  assert (Sp : forall p f, frameR st (spawn_thread st t p f) t).
  { intros p f. apply frameR_eq; try reflexivity. intros u Hu. cbn. unfold updN, th.
    destruct (Nat.eqb_spec u (nthr st)) as [->|]; [|reflexivity]. cbn. symmetry. apply P. lia. }
  destruct c; cbn [begin_cmd] in H;
    try (destr_all H; inversion H; subst; clear H; first [fR | split; [reflexivity|split; auto]]; fail).
  - destruct (negb (is_main t) || wused st w || (1000000 <=? w) || (w <? 0)); [inversion H; subst; split; [reflexivity|split; auto]|].
    destruct (wh_add st (HPlain w)) as [[st1 wi]|] eqn:E; inversion H; subst; clear H; [|split; [reflexivity|split; auto]].
    apply wh_add_R in E. destruct E as [E1 [E2 [E3 E4]]]. apply frameR_eq; cbn; auto. intros u Hu. rewrite E4. reflexivity.
  - destruct (negb (is_main t)); [inversion H; subst; split; [reflexivity|split; auto]|].
    destruct (fill_loop (Z.to_nat n) st []) as [st1 ev1] eqn:E. inversion H; subst; clear H.
    apply fill_loop_R in E. destruct E as [E1 [E2 [E3 E4]]]. apply frameR_eq; auto. intros u Hu. rewrite E4. reflexivity.
  - destruct (negb (is_main t)); inversion H; subst; clear H; [split; [reflexivity|split; auto]|apply Sp].
  - destruct (negb (is_main t) || cexists (chs st c)); [inversion H; subst; split; [reflexivity|split; auto]|].
    destruct (wh_add st (HChan c)) as [[st1 wi]|] eqn:E; inversion H; subst; clear H; [|split; [reflexivity|split; auto]].
    apply wh_add_R in E. destruct E as [E1 [E2 [E3 E4]]]. apply frameR_eq; cbn; auto.
    intros u Hu. unfold updN, th. rewrite E4. destruct (Nat.eqb_spec u t); [congruence|reflexivity].
  - destruct (negb (is_main t) || pexists (pps st p)); [inversion H; subst; split; [reflexivity|split; auto]|].
    destruct (wh_add st (HPipe p)) as [[st1 wi]|] eqn:E; inversion H; subst; clear H; [|split; [reflexivity|split; auto]].
    assert (Hn : nthr st1 = nthr st) by (destruct (wh_add_core _ _ _ _ E) as [? [? [? [? [? ?]]]]]; auto).
    apply wh_add_R in E. destruct E as [E1 [E2 [E3 E4]]]. apply frameR_eq; cbn; auto.
    intros u Hu. unfold updN, th. rewrite E4. cbn. destruct (Nat.eqb_spec u (nthr st1)) as [->|]; [|reflexivity].
    cbn. symmetry. apply P. lia.
Qed.

Lemma classic_w : forall st t, rwitness st t \/ ~ rwitness st t.
Proof.
  intros st t. unfold rwitness. destruct (tcont (thr st t)) as [|i r].
  - right. intros [bm [r' W]]. discriminate.
  - destruct i as [[bm a b [w|]| | |]| | | | | | | | | | | | | |]; try (right; intros [bm' [r' W]]; discriminate).
    destruct (Z.eq_dec a 0) as [->|Ha]; [|right; intros [bm' [r' W]]; inversion W; congruence].
    destruct (Z.eq_dec b 0) as [->|Hb]; [|right; intros [bm' [r' W]]; inversion W; congruence].
    left. exists bm, r. reflexivity.
Qed.

Lemma norm_climb_head : forall fuel s acc k r ev, norm fuel s acc (IClimb k :: r) ev = (s, acc, IClimb k :: r, ev).
Proof. intros [|f] s acc k r ev; reflexivity. Qed.

Lemma settle_R : forall st t ev done st' ev',
  settle st t ev done = (st', ev') ->
  frameR st st' t /\ (rwitness st t -> rwitness st' t).
Proof.
  intros st t ev done st' ev' H. unfold settle in H.
  destruct (norm (2 * (cont_size (tcont (th st t)) + length (tacc (th st t))) + 2) (sl st) (tacc (th st t)) (tcont (th st t)) ev)
    as [[[s1 acc1] k1] ev1] eqn:En.
  cbn zeta in H.
  match type of H with (let '(st2, ev2) := ?E in _) = _ => destruct E as [st2 ev2] eqn:E2 end.
  set (st1 := set_sl (upd_th st t (set_tacc (set_tcont (th st t) k1) acc1)) s1) in *.
  assert (F1 : frameR st st1 t) by (unfold st1; fR).
  assert (W1 : rwitness st t -> rwitness st1 t /\ k1 = tcont (th st t)).
  { intros [bm [r W]]. unfold th in En. rewrite W in En. rewrite norm_climb_head in En. inversion En; subst.
    split; [|unfold th; auto]. exists bm, r. unfold st1. thr_simpl. }
  assert (F2 : frameR st1 st2 t /\ (rwitness st1 t -> k1 <> [] -> rwitness st2 t)).
  { destruct done as [v|].
    - inversion E2; subst. split; [fR|]. intros [bm [r W]] _. exists bm, r. unfold st1 in *. revert W. thr_simpl. auto.
    - destruct k1.
      + destruct (tcur (th st1 t)) as [c|]; inversion E2; subst.
        * split; [destruct c; fR|]. intros _ N. congruence.
        * split; [split; [reflexivity|split; auto]|]. intros _ N. congruence.
      + inversion E2; subst. split; [split; [reflexivity|split; auto]|auto]. }
  destruct F2 as [F2 W2].
  assert (F3 : frameR st2 st' t /\ (rwitness st2 t -> rwitness st' t)).
  { destruct (tcont (th st2 t)) eqn:Ec; [|inversion H; subst; split; [split; [reflexivity|split; auto]|auto]].
    assert (NW : ~ rwitness st2 t) by (intros [bm [r W]]; unfold th in Ec; congruence).
    destruct (tscript (th st2 t)); [|inversion H; subst; split; [split; [reflexivity|split; auto]|auto]].
    destruct (tcur (th st2 t)); [inversion H; subst; split; [split; [reflexivity|split; auto]|auto]|].
    destruct (tfinal (th st2 t)); inversion H; subst; (split; [|intro; contradiction]).
    - split; [reflexivity|split; auto].
    - fR. }
  destruct F3 as [F3 W3].
  split; [eapply frameR_trans; [exact F1|]; eapply frameR_trans; eauto|].
  intro W. destruct (W1 W) as [A B]. apply W3. apply W2; auto.
  destruct W as [bm [r W]]. unfold th in B. rewrite W in B. congruence.
Qed.

Theorem wstep_R : forall st t st' ev,
  MInv st -> RInv st -> wstep st t = (st', ev) -> RInv st'.
Proof.
  intros st t st' ev [I [P Wf]] R H. unfold wstep in H.
  destruct (enabled st t) eqn:En; cbn [negb] in H; [|inversion H; subst; exact R].
  assert (Ht : (t < nthr st)%nat).
  { unfold enabled in En. apply andb_true_iff in En. destruct En as [En _]. apply Nat.ltb_lt in En. exact En. }
  assert (It : CInv (core (tick st t))) by (eapply CInv_ceq; [|exact I]; unfold tick; same_core).
  assert (Pt : pristine (tick st t)) by (unfold tick; prist st t).
  assert (Rt : RInv (tick st t)).
  { intro D. destruct (R D) as [O|[u [bm [r W]]]]; [left; exact O|]. right. exists u, bm, r. unfold tick. revert W. thr_simpl. }
  assert (Htt : (t < nthr (tick st t))%nat) by exact Ht.
  set (s0 := tick st t) in *. clearbody s0. clear Ht En I P Wf.
  (* from a component summary to the invariant *)
  assert (Step : forall a b, RInv a -> RC a b t -> (rwitness a t -> Rw b) -> RInv b).
  { intros a b Ra [F|[D|W]] Hw Db; [|congruence|exact W].
    destruct (classic_w a t) as [Wa|Na]; [apply Hw; exact Wa|].
    eapply frameR_Rw; eauto. apply Ra. destruct F as [F _]. congruence. }
  destruct (tstarted (th s0 t)) eqn:Es; cbn [negb] in H.
  - destruct (tcont (th s0 t)) as [|i r] eqn:Ec.
    + destruct (tscript (th s0 t)) as [|c0 cs]; [inversion H; subst; exact R|].
      match type of H with context [begin_cmd ?S t ?cc] =>
        destruct (begin_cmd S t cc) as [[st2 ev0] done] eqn:Eb; set (s1 := S) in * end.
      assert (NW0 : ~ rwitness s0 t) by (intros [bm [r W]]; unfold th in Ec; congruence).
      assert (F1 : frameR s0 s1 t) by (unfold s1; fR).
      assert (P1 : pristine s1) by (unfold s1; prist s0 t).
      assert (NW1 : ~ rwitness s1 t).
      { intros [bm [r W]]. unfold s1 in W. cbn -[Nat.eqb] in W. unfold updN, th in W. rewrite Nat.eqb_refl in W. cbn in W.
        unfold th in Ec. congruence. }
      pose proof (begin_cmd_R s1 t c0 st2 ev0 done P1 Htt Eb) as F2.
      destruct (settle_R _ _ _ _ _ _ H) as [F3 _].
      assert (NW2 : ~ rwitness st2 t -> True) by auto.
      intro D.
      assert (R1 : RInv s1) by (eapply Step; [exact Rt|left; exact F1|intro; contradiction]).
      assert (R2 : RInv st2) by (eapply Step; [exact R1|left; exact F2|intro; contradiction]).
      (* settle: the thread's new continuation may start with a wake of a plain waker, never with a reserved climb *)
      destruct (classic_w st2 t) as [W2|N2].
      * right. exists t. apply (proj2 (settle_R _ _ _ _ _ _ H)). exact W2.
      * eapply frameR_Rw; [exact F3|exact N2|]. apply R2. destruct F3 as [F3 _]. congruence.
    + destruct (exec_instr s0 t i r) as [st1 ev1] eqn:Ee.
      destruct (exec_instr_R s0 t i r st1 ev1 It Ec Ee) as [RCe We].
      assert (R1 : RInv st1) by (eapply Step; eauto).
      destruct (settle_R _ _ _ _ _ _ H) as [F3 W3].
      intro D. destruct (classic_w st1 t) as [W1|N1].
      * right. exists t. apply W3. exact W1.
      * eapply frameR_Rw; [exact F3|exact N1|]. apply R1. destruct F3 as [F3 _]. congruence.
  - destruct (settle_R _ _ _ _ _ _ H) as [F3 W3].
    set (s1 := upd_th s0 t (set_tstarted (th s0 t) true)) in *.
    assert (F1 : frameR s0 s1 t) by (unfold s1; fR).
    intro D. destruct (classic_w s1 t) as [W1|N1].
    + right. exists t. apply W3. exact W1.
    + eapply frameR_Rw; [exact F3|exact N1|].
      destruct (classic_w s0 t) as [W0|N0].
      * exfalso. apply N1. destruct W0 as [bm [r W]]. exists bm, r. unfold s1. revert W. thr_simpl.
      * eapply frameR_Rw; [exact F1|exact N0|]. apply Rt. destruct F3 as [F3 _]. destruct F1 as [F1 _]. congruence.
Qed.

Lemma wrun_R : forall sched st, MInv st -> RInv st -> RInv (fst (wrun st sched)).
Proof.
  induction sched as [|t rest IH]; intros st M R; cbn [wrun]; auto.
  destruct (wstep st t) as [st1 ev] eqn:E.
  specialize (IH st1 (wstep_inv _ _ _ _ M E) (wstep_R _ _ _ _ M R E)).
  destruct (wrun st1 rest) as [st2 tr]. exact IH.
Qed.

Theorem reachable_R : forall st, reachable st -> RInv st.
Proof.
  intros st [scr [sched ->]]. apply wrun_R; [apply MInv_init|]. intro D. exfalso. apply D. reflexivity.
Qed.

(** ** No drop notification is stranded: in a quiescent state the drop list is empty (and, the main
    thread being outside [poll_wake], no taken drop is left unprocessed) *)
Theorem drops_not_stranded : forall st, reachable st -> quiescent st -> dl st = [].
Proof.
  intros st R Q. destruct (dl st) eqn:E; auto. exfalso.
  assert (D : dl st <> []) by congruence.
  destruct (reachable_R st R D) as [O|[t [bm [r W]]]].
  - exact (not_stranded st R Q HReserved O).
  - destruct Q as [Q _]. apply (Q t (KLeaf bm 0 0 None)). exists r. exact W.
Qed.
