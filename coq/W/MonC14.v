(** * Layer W: the replies / termination half of the piped-thread monitor holds on every run of the model (C14).

    [m14r_step] is the monitor step [m14_step] of coq/W/Monitors.v in which only the checks made at the events
    [EFwdRecv] and [ETerm] may raise the flag (the checks made at command returns - order of [recv], answers after the
    drop - keep the old flag); every other field is computed by [m14_step] itself.  [C14r_ok] is [C14_ok] over this
    step function.  Theorem [C14r_monitor]: [C14r_ok] is true on the trace of every run. *)
From Coq Require Import ZArith List Bool Arith Lia.
From Stk Require Import Lib.U Gen.SrcWaker W.Waker W.WakerArith W.WakerCore W.WakerSlab W.WakerPres W.WakerRefine W.WakerProofs W.WakerGhost W.WakerLock W.WakerDrop W.WakerSlot W.WakerWf W.Chan W.Pipe W.Monitors W.MonBase W.MonC13 W.MonC12.
Import ListNotations.
Local Open Scope Z_scope.

Definition is_reply (e : wevent) : bool := match e with EFwdRecv _ _ | ETerm _ _ => true | _ => false end.
Definition m14_setbad (m : m14) (b : bool) : m14 :=
  mkM14 (m14_b m) (m14_owner m) (m14_psend m) (m14_recvd m) (m14_lsend m) (m14_lsdone m) (m14_fwd m) (m14_term m)
        (m14_panic m) (m14_dropped m) (m14_exited m) (m14_late m) b.
Definition m14r_step (m : m14) (te : tid * wevent) : m14 :=
  let m' := m14_step m te in if is_reply (snd te) then m' else m14_setbad m' (m14_bad m).
Definition m14_0 : m14 := mkM14 mb0 [] [] [] [] [] [] [] [] [] [] [] false.
Definition C14r_ok (tr : otrace) : bool :=
  let m := fold_left m14r_step tr m14_0 in
  negb (m14_bad m) &&
  (if (match b_exit (m14_b m) with [] => true | _ => false end) && negb (b_notif (m14_b m)) &&
      (match b_cur (m14_b m) with [] => true | _ => false end)
   then forallb (fun pq => memZ (snd pq) (on_pipe (fst pq) (m14_fwd m))) (m14_lsdone m) &&
        forallb (fun p => memZ p (m14_term m)) (m14_exited m)
   else true).

(** ** projections of the monitor step *)
Lemma m14_b_step : forall m te, m14_b (m14_step m te) = mb_step (m14_b m) te.
Proof.
  intros m [t e]. unfold m14_step. destruct e; try reflexivity.
  - destruct c; try reflexivity; destruct (get_tid t (m14_owner m)); reflexivity.
  - destruct (get_tid t (b_cur (m14_b m))) as [c|]; [|reflexivity].
    destruct c; try reflexivity; destruct v; try reflexivity; destruct (get_tid t (m14_owner m)); reflexivity.
  - destruct (get_tid t (m14_owner m)); reflexivity.
Qed.
Lemma m14r_b_step : forall m te, m14_b (m14r_step m te) = mb_step (m14_b m) te.
Proof. intros m te. unfold m14r_step. destruct (is_reply (snd te)); [apply m14_b_step|cbn; apply m14_b_step]. Qed.
Lemma m14r_b_fold : forall tr m, m14_b (fold_left m14r_step tr m) = fold_left mb_step tr (m14_b m).
Proof. induction tr as [|te tr IH]; intro m; [reflexivity|]. cbn [fold_left]. rewrite IH, m14r_b_step. reflexivity. Qed.

(** the fields the replies half looks at *)
Record r14_same (m m' : m14) : Prop := {
  rs_owner : m14_owner m' = m14_owner m; rs_lsend : m14_lsend m' = m14_lsend m; rs_lsdone : m14_lsdone m' = m14_lsdone m;
  rs_fwd : m14_fwd m' = m14_fwd m; rs_term : m14_term m' = m14_term m; rs_panic : m14_panic m' = m14_panic m;
  rs_exited : m14_exited m' = m14_exited m; rs_bad : m14_bad m' = m14_bad m;
  rs_nthr : b_nthr (m14_b m') = b_nthr (m14_b m) }.
Lemma r14_same_refl : forall m, r14_same m m.
Proof. intro m. constructor; reflexivity. Qed.
Lemma r14_same_trans : forall a b c, r14_same a b -> r14_same b c -> r14_same a c.
Proof. intros a b c [A1 A2 A3 A4 A5 A6 A7 A8 A9] [B1 B2 B3 B4 B5 B6 B7 B8 B9]. constructor; congruence. Qed.

Definition c14_plain (e : wevent) : Prop :=
  match e with
  | ECmd (CLSend _) | ECmd CPanic | ERet _ | EFwdRecv _ _ | ETerm _ _ | EExit => False
  | _ => True
  end.
Lemma mb_nthr_nonret : forall b t e, (forall v, e <> ERet v) -> b_nthr (mb_step b (t, e)) = b_nthr b.
Proof.
  intros b t e Hn. destruct e; try reflexivity; try (exfalso; eapply Hn; reflexivity);
    cbn; try (destruct (get_tid t (b_cur b)); [reflexivity|destruct (memT t (b_exit b)); reflexivity]).
  destruct h; cbn; try reflexivity; destruct (get_tid t (b_cur b)); try reflexivity; destruct (memT t (b_exit b)); reflexivity.
Qed.
Lemma m14r_plain_step : forall m t e, c14_plain e -> r14_same m (m14r_step m (t, e)).
Proof.
  intros m t e H.
  assert (Nr : forall v, e <> ERet v) by (intros v E; subst e; exact H).
  assert (Nb : b_nthr (m14_b (m14r_step m (t, e))) = b_nthr (m14_b m)) by (rewrite m14r_b_step; apply mb_nthr_nonret; exact Nr).
  constructor; try exact Nb; clear Nb; unfold m14r_step, m14_step; destruct e; cbn in H; try contradiction; cbn; try reflexivity;
    try (destruct c; try contradiction; cbn; try reflexivity; destruct (get_tid t (m14_owner m)); reflexivity).
Qed.
Lemma m14r_plain_fold : forall t ev m, (forall e, In e ev -> c14_plain e) -> r14_same m (fold_left m14r_step (evs t ev) m).
Proof.
  induction ev as [|e ev IH]; intros m H; [apply r14_same_refl|]. cbn [evs map fold_left]. fold (evs t ev).
  eapply r14_same_trans; [apply (m14r_plain_step m t e); apply H; left; reflexivity|]. apply IH. intros; apply H; right; auto.
Qed.

(** ** the relation between the monitor and the model state *)
Definition lpend (p : Z) (k : list instr) : list Z :=
  flat_map (fun i => match i with ILock _ (LPqLSend q x) => if q =? p then [x] else [] | _ => [] end) k.
Definition ufw (p : Z) (k : list instr) : list Z :=
  flat_map (fun i => match i with IUnlock _ (UPqFwd q msgs _) => if q =? p then msgs else [] | _ => [] end) k.
Definition hasterm (p : Z) (k : list instr) : Prop := exists m0 msgs b, In (IUnlock m0 (UPqFwd p msgs (Some b))) k.
Definition panic_i (q : Z) : instr := ILock (MPq q) (LPqPanic q).
Definition hdel_i (q : Z) : instr := ILock (MPq q) (LPqHandler q true).

Definition prog14 (st : wstate) (m : m14) (q : Z) : Prop :=
  memZ q (m14_term m) = true \/
  (exists x, In x (pipeline st) /\ slab_get (sl st) x = Some (HPipe q)) \/
  In (hdel_i q) (mcont st) \/ hasterm q (mcont st).

(** not a call of a pipe's wake handler *)
Definition hq (j : instr) : Prop := match j with ILock _ (LPqHandler _ _) | IUnlock _ (UPqFwd _ _ _) => False | _ => True end.

Definition wkr (st : wstate) (u : tid) : Prop := (u < nthr st)%nat /\ 0 <= tpipe (thr st u).

Inductive epend := ENone | ESp (t : tid) (q : Z).

Record ERel (p : epend) (st : wstate) (m : m14) : Prop := {
  e_bad : m14_bad m = false;
  e_nthr : match p with ENone => b_nthr (m14_b m) = nthr st | ESp _ _ => S (b_nthr (m14_b m)) = nthr st end;
  e_sp : forall t q, p = ESp t q -> tpipe (thr st (b_nthr (m14_b m))) = q /\
         ((tcur (thr st t) = Some CSpawn /\ q < 0) \/ (tcur (thr st t) = Some (CPNew q) /\ 0 <= q)) /\ tcont (thr st t) = [];
  e_owner : forall u q, get_tid u (m14_owner m) = Some q <-> ((u < b_nthr (m14_b m))%nat /\ tpipe (thr st u) = q /\ 0 <= q);
  e_wuniq : forall u u', wkr st u -> wkr st u' -> tpipe (thr st u) = tpipe (thr st u') -> u = u';
  e_wex : forall u, wkr st u -> pexists (pps st (tpipe (thr st u))) = true;
  e_exw : forall q, pexists (pps st q) = true -> exists u, wkr st u /\ tpipe (thr st u) = q;
  e_noex : forall q, pexists (pps st q) = false ->
           (forall x, slab_get (sl st) x <> Some (HPipe q)) /\ on_pipe q (m14_lsend m) = [] /\ on_pipe q (m14_fwd m) = [] /\
           precvq (pps st q) = [] /\ ppanic (pps st q) = false /\ memZ q (m14_term m) = false /\ memZ q (m14_panic m) = false /\
           memZ q (m14_exited m) = false /\ (forall x, ~ In (q, x) (m14_lsdone m));
  e_ins : forall q, ((exists m0 msgs tm, In (IUnlock m0 (UPqFwd q msgs tm)) (mcont st)) \/
                     (exists m0 d, In (ILock m0 (LPqHandler q d)) (mcont st))) ->
          pexists (pps st q) = true;
  e_uniq : forall x y q, slab_get (sl st) x = Some (HPipe q) -> slab_get (sl st) y = Some (HPipe q) -> x = y;
  e_ls : forall u, wkr st u -> let q := tpipe (thr st u) in
         on_pipe q (m14_lsend m) = on_pipe q (m14_fwd m) ++ ufw q (mcont st) ++ precvq (pps st q) ++ lpend q (tcont (thr st u));
  e_lscur : forall u x, wkr st u -> tcur (thr st u) = Some (CLSend x) -> In x (on_pipe (tpipe (thr st u)) (m14_lsend m));
  e_lsdone : forall q x, In (q, x) (m14_lsdone m) -> In x (on_pipe q (m14_fwd m) ++ ufw q (mcont st) ++ precvq (pps st q));
  e_term : forall q, memZ q (m14_term m) = true ->
           (forall x, slab_get (sl st) x <> Some (HPipe q)) /\ (forall u x, ~ In (x, HPipe q) (tpushes (thr st u))) /\
           (forall m0 d, ~ In (ILock m0 (LPqHandler q d)) (mcont st)) /\
           (forall m0 msgs tm, ~ In (IUnlock m0 (UPqFwd q msgs tm)) (mcont st)) /\ precvq (pps st q) = [];
  e_hdel : forall m0 q, In (ILock m0 (LPqHandler q true)) (mcont st) ->
           m0 = MPq q /\ (forall x, slab_get (sl st) x <> Some (HPipe q)) /\ (forall u x, ~ In (x, HPipe q) (tpushes (thr st u)));
  e_hterm : forall q, hasterm q (mcont st) ->
           (forall x, slab_get (sl st) x <> Some (HPipe q)) /\ (forall u x, ~ In (x, HPipe q) (tpushes (thr st u))) /\
           precvq (pps st q) = [];
  e_hpos : forall i r0 j, mcont st = i :: r0 -> In j r0 -> hq j;
  e_hmain : forall u j, u <> main -> In j (tcont (thr st u)) -> hq j;
  e_panic : forall u, wkr st u -> let q := tpipe (thr st u) in
            memZ q (m14_term m) = false -> ~ hasterm q (mcont st) ->
            (memZ q (m14_panic m) = true <-> ppanic (pps st q) = true \/ In (panic_i q) (tcont (thr st u) ++ tfinal (thr st u)));
  e_porder : forall u q m0 a b, tcont (thr st u) ++ tfinal (thr st u) = a ++ ILock m0 (LPqPanic q) :: b ->
             m0 = MPq q /\ wkr st u /\ q = tpipe (thr st u) /\ exists x, In (x, HPipe q) (pushes b);
  e_ufterm : forall m0 q msgs b, In (IUnlock m0 (UPqFwd q msgs (Some b))) (mcont st) -> b = memZ q (m14_panic m);
  e_wprog : forall u, wkr st u -> (exists x, In (x, HPipe (tpipe (thr st u))) (tpushes (thr st u))) \/ prog14 st m (tpipe (thr st u));
  e_exited : forall q, memZ q (m14_exited m) = true -> prog14 st m q }.

(** instructions that are irrelevant for the relation *)
Definition eqi (j : instr) : Prop :=
  match j with
  | ILock _ (LPqHandler _ _) | IUnlock _ (UPqFwd _ _ _) | ILock _ (LPqLSend _ _) | ILock _ (LPqPanic _) => False
  | ILock _ (LPush _ _ (HPipe _)) => False
  | _ => True
  end.

Definition eqj (j : instr) : Prop :=
  match j with
  | ILock _ (LPqHandler _ _) | IUnlock _ (UPqFwd _ _ _) | ILock _ (LPqLSend _ _) | ILock _ (LPqPanic _) => False
  | _ => True
  end.
Lemma eqi_eqj : forall j, eqi j -> eqj j.
Proof. intros j H. destruct j; try exact Logic.I; destruct a; try exact Logic.I; exact H. Qed.
Lemma eqj_facts : forall j, eqj j -> hq j /\ (forall q, lpend q [j] = []) /\ (forall q, ufw q [j] = []) /\ (forall m0 q, j <> ILock m0 (LPqPanic q)).
Proof.
  intros j H. split; [|split; [|split]].
  - destruct j; try exact Logic.I; destruct a; try exact Logic.I; exact H.
  - intro q. destruct j; try reflexivity. destruct a; try reflexivity. destruct H.
  - intro q. destruct j; try reflexivity. destruct a; try reflexivity. destruct H.
  - intros m0 q E. subst j. exact H.
Qed.

Lemma eqi_facts : forall j, eqi j -> hq j /\ (forall q, lpend q [j] = []) /\ (forall q, ufw q [j] = []) /\
  (forall x q, ~ In (x, HPipe q) (push_of j)) /\ (forall m0 q, j <> ILock m0 (LPqPanic q)).
Proof.
  intros j H.
  assert (P4 : forall x q, ~ In (x, HPipe q) (push_of j)).
  { intros x q Hin. destruct j; cbn in Hin; try contradiction. destruct a; cbn in Hin; try contradiction.
    destruct Hin as [X|[]]. inversion X; subst. exact H. }
  split; [|split; [|split; [|split; [exact P4|]]]].
  - destruct j; try exact Logic.I; destruct a; try exact Logic.I; exact H.
  - intro q. destruct j; try reflexivity. destruct a; try reflexivity. destruct H.
  - intro q. destruct j; try reflexivity. destruct a; try reflexivity. destruct H.
  - intros m0 q E. subst j. exact H.
Qed.

Lemma lpend_app : forall q a b, lpend q (a ++ b) = lpend q a ++ lpend q b.
Proof. intros. unfold lpend. apply flat_map_app. Qed.
Lemma ufw_app : forall q a b, ufw q (a ++ b) = ufw q a ++ ufw q b.
Proof. intros. unfold ufw. apply flat_map_app. Qed.
Lemma lpend_cons : forall q i r, lpend q (i :: r) = lpend q [i] ++ lpend q r.
Proof. intros. change (i :: r) with ([i] ++ r). apply lpend_app. Qed.
Lemma ufw_cons : forall q i r, ufw q (i :: r) = ufw q [i] ++ ufw q r.
Proof. intros. change (i :: r) with ([i] ++ r). apply ufw_app. Qed.

Lemma eqi_list : forall k, (forall j, In j k -> eqi j) ->
  (forall q, lpend q k = []) /\ (forall q, ufw q k = []) /\ (forall x q, ~ In (x, HPipe q) (pushes k)) /\ (forall j, In j k -> hq j).
Proof.
  induction k as [|j k IH]; intro H; [split; [reflexivity|split; [reflexivity|split; [intros x q []|intros j []]]]|].
  destruct (eqi_facts j (H j (or_introl eq_refl))) as [A [B [C [D E]]]].
  destruct IH as [I1 [I2 [I3 I4]]]; [intros; apply H; right; assumption|].
  repeat split.
  - intro q. rewrite lpend_cons, B, I1. reflexivity.
  - intro q. rewrite ufw_cons, C, I2. reflexivity.
  - intros x q Hin. rewrite pushes_cons in Hin. apply in_app_or in Hin. destruct Hin as [Hin|Hin]; [exact (D x q Hin)|exact (I3 x q Hin)].
  - intros j0 [<-|Hin]; auto.
Qed.

Lemma tpushes_app_eq : forall x, tpushes x = pushes (tcont x ++ tfinal x).
Proof. intro x. unfold tpushes. rewrite pushes_app. reflexivity. Qed.

(** a list that starts with quiet instructions: where a panic instruction can be *)
Lemma split_quiet : forall new (rest a b : list instr) j,
  (forall i, In i new -> i <> j) -> new ++ rest = a ++ j :: b -> exists a', a = new ++ a' /\ rest = a' ++ j :: b.
Proof.
  induction new as [|n new IH]; intros rest a b j Hq E; [exists a; auto|].
  destruct a as [|a0 a].
  - cbn in E. inversion E; subst. exfalso. apply (Hq j); [left; reflexivity|reflexivity].
  - cbn in E. inversion E; subst a0. destruct (IH rest a b j) as [a' [E1 E2]]; [intros; apply Hq; right; assumption|assumption|].
    exists a'. subst a. auto.
Qed.

(** ** the generic step: thread [t] replaces the head [i] of its continuation by [new].  Covered: every instruction that
    is irrelevant for the relation, the push of a waker drop, and - executed by the worker of pipe [p0] - the queueing of
    the replies [xs] and the setting of the panic flag ([pn]). *)
Lemma nil_dec : forall l : list Z, l = [] \/ l <> [].
Proof. intros [|x l]; [left; reflexivity|right; discriminate]. Qed.

Section EFrame.
  Variables (p : epend) (st st' : wstate) (m m' : m14) (t : tid) (i : instr) (r new : list instr).
  Variables (p0 : Z) (xs : list Z) (pn : bool).
  Hypothesis R : ERel p st m.
  Hypothesis Q : PqInv st.
  Hypothesis Sm : r14_same m m'.
  Hypothesis F : tframe st st' t.
  Hypothesis Hc : tcont (thr st t) = i :: r.
  Hypothesis Hc' : tcont (thr st' t) = new ++ r.
  Hypothesis Esl : sl st' = sl st.
  Hypothesis Hpl : forall y, In y (pipeline st') <-> In y (pipeline st) \/ exists m0 bm h, i = ILock m0 (LPush y bm h).
  Hypothesis Hpp : forall q, pexists (pps st' q) = pexists (pps st q) /\
                             precvq (pps st' q) = precvq (pps st q) ++ (if q =? p0 then xs else []) /\
                             ppanic (pps st' q) = ppanic (pps st q) || ((q =? p0) && pn).
  Hypothesis Hi_hq : hq i.
  Hypothesis Hi_lp : forall q, lpend q [i] = if q =? p0 then xs else [].
  Hypothesis Hi_uf : forall q, ufw q [i] = [].
  Hypothesis Hi_pn : forall m0 q, i = ILock m0 (LPqPanic q) -> q = p0 /\ pn = true.
  Hypothesis Hpn : pn = true -> i = panic_i p0.
  Hypothesis Hsp : xs <> [] \/ pn = true ->
                   t <> main /\ wkr st t /\ tpipe (thr st t) = p0 /\ (xs <> [] -> tcur (thr st t) <> None).
  Hypothesis Hpush : forall m0 x bm q, i = ILock m0 (LPush x bm (HPipe q)) -> slab_get (sl st) x = Some (HPipe q).
  Hypothesis Hnew : forall j, In j new -> eqi j.

  Let Hn : nthr st' = nthr st := proj1 F.
  Let Hf := proj1 (proj2 F).
  Let Ho := proj2 (proj2 F).

  Lemma ef_fields : (forall u, tpipe (thr st' u) = tpipe (thr st u)) /\ (forall u, tcur (thr st' u) = tcur (thr st u)) /\
                    (forall u, tfinal (thr st' u) = tfinal (thr st u)).
  Proof. repeat split; intro u; destruct (Hf u) as [A [B [C [D E]]]]; auto. Qed.

  Lemma ef_wkr : forall u, wkr st' u <-> wkr st u.
  Proof. intro u. unfold wkr. rewrite Hn. destruct ef_fields as [A _]. rewrite A. tauto. Qed.

  (** the changed pipe belongs to [t] alone *)
  Lemma ef_other : forall u, wkr st u -> u <> t -> (if tpipe (thr st u) =? p0 then xs else []) = [] /\ ((tpipe (thr st u) =? p0) && pn) = false.
  Proof.
    intros u Hu Hne. destruct (Z.eqb_spec (tpipe (thr st u)) p0) as [E|E]; [|split; reflexivity].
    assert (Z0 : ~ (xs <> [] \/ pn = true)).
    { intro H. destruct (Hsp H) as [_ [W [T _]]]. apply Hne. apply (e_wuniq _ _ _ R u t Hu W). rewrite E, T. reflexivity. }
    destruct (nil_dec xs) as [Ex|Ex]; [|exfalso; apply Z0; left; exact Ex].
    destruct (Bool.bool_dec pn true) as [Ep|Ep]; [exfalso; apply Z0; right; exact Ep|].
    apply not_true_is_false in Ep. rewrite Ex, Ep. split; reflexivity.
  Qed.

  (** no new reply for a pipe whose Waker has been pushed *)
  Lemma ef_nopush : forall q, (forall u x, ~ In (x, HPipe q) (tpushes (thr st u))) -> (if q =? p0 then xs else []) = [].
  Proof.
    intros q Hq. destruct (Z.eqb_spec q p0) as [E|E]; [|reflexivity]. destruct (nil_dec xs) as [Ex|Ex]; [exact Ex|exfalso].
    destruct (Hsp (or_introl Ex)) as [_ [[W1 W2] [T Hcu]]].
    destruct (pk st Q t W1 W2 (or_introl (Hcu Ex))) as [_ Hin].
    apply (Hq t (wbit (pw (pps st (tpipe (thr st t)))))). unfold tpushes. apply in_or_app. right. unfold pclaim in Hin. rewrite T in Hin. rewrite T, E. exact Hin.
  Qed.

  Lemma ef_lpend : forall q, lpend q (tcont (thr st' t)) = lpend q r /\
                             lpend q (tcont (thr st t)) = (if q =? p0 then xs else []) ++ lpend q r.
  Proof.
    intro q. rewrite Hc, Hc', lpend_app, lpend_cons. destruct (eqi_list new Hnew) as [A _]. rewrite A, Hi_lp. split; reflexivity.
  Qed.

  Lemma ef_mcont : (forall q, ufw q (mcont st') = ufw q (mcont st)) /\
                   (forall j, ~ hq j -> (In j (mcont st') <-> In j (mcont st))).
  Proof.
    unfold mcont. destruct (Nat.eq_dec main t) as [E|E]; [|rewrite (Ho main E); split; [reflexivity|tauto]].
    rewrite E, Hc, Hc'. destruct (eqi_list new Hnew) as [_ [A [_ A4]]]. split.
    - intro q. rewrite ufw_app, ufw_cons, A, Hi_uf. reflexivity.
    - intros j Hj. split.
      + intro H. apply in_app_or in H. destruct H as [H|H]; [exfalso; apply Hj; apply A4; exact H|right; exact H].
      + intros [H|H]; [exfalso; apply Hj; subst j; exact Hi_hq|apply in_or_app; right; exact H].
  Qed.

  Lemma ef_hasterm : forall q, hasterm q (mcont st') <-> hasterm q (mcont st).
  Proof.
    intro q. destruct ef_mcont as [_ A]. unfold hasterm.
    split; intros [m0 [msgs [b H]]]; exists m0, msgs, b; apply (A (IUnlock m0 (UPqFwd q msgs (Some b))) (fun X => X)); exact H.
  Qed.

  Lemma ef_pushes : forall u x q, In (x, HPipe q) (tpushes (thr st' u)) -> In (x, HPipe q) (tpushes (thr st u)).
  Proof.
    intros u x q. destruct ef_fields as [_ [_ Fin]]. destruct (Nat.eq_dec u t) as [->|Hu].
    - unfold tpushes. rewrite Hc, Hc', Fin, pushes_app, pushes_cons. destruct (eqi_list new Hnew) as [_ [_ [A _]]].
      rewrite !in_app_iff. intros [[H|H]|H]; [exfalso; exact (A x q H)|auto|auto].
    - unfold tpushes. rewrite (Ho u Hu), Fin. tauto.
  Qed.
  Lemma ef_pushes_r : forall u x q, In (x, HPipe q) (tpushes (thr st u)) ->
    In (x, HPipe q) (tpushes (thr st' u)) \/ (In x (pipeline st') /\ slab_get (sl st') x = Some (HPipe q)).
  Proof.
    intros u x q. destruct ef_fields as [_ [_ Fin]]. destruct (Nat.eq_dec u t) as [->|Hu].
    - unfold tpushes. rewrite Hc, Hc', Fin, pushes_app, pushes_cons. rewrite !in_app_iff. intros [[H|H]|H]; auto.
      right. apply in_push_of in H. destruct H as [m0 [bm E]]. split; [apply Hpl; right; eauto|rewrite Esl; eapply Hpush; eauto].
    - unfold tpushes. rewrite (Ho u Hu), Fin. tauto.
  Qed.

  Lemma ef_prog : forall q, prog14 st m q -> prog14 st' m' q.
  Proof.
    intros q [A|[[x [A B]]|[A|A]]].
    - left. rewrite (rs_term _ _ Sm). exact A.
    - right; left. exists x. split; [apply Hpl; left; exact A|rewrite Esl; exact B].
    - right; right; left. destruct ef_mcont as [_ X]. apply (X (hdel_i q) (fun Y => Y)). exact A.
    - right; right; right. apply ef_hasterm. exact A.
  Qed.

  Lemma e_frame : ERel p st' m'.
  Proof.
    destruct Sm as [M1 M2 M3 M4 M5 M6 M7 M8 M9].
    destruct ef_fields as [Tp [Cu Fi]]. destruct ef_mcont as [Uf Mi].
    assert (Pe : forall q, pexists (pps st' q) = pexists (pps st q)) by (intro q; apply Hpp).
    assert (Pr : forall q, precvq (pps st' q) = precvq (pps st q) ++ (if q =? p0 then xs else [])) by (intro q; apply Hpp).
    assert (Pp : forall q, ppanic (pps st' q) = ppanic (pps st q) || ((q =? p0) && pn)) by (intro q; apply Hpp).
    assert (Nt : forall u, u <> t -> tcont (thr st' u) = tcont (thr st u)) by exact Ho.
    assert (Hdl : forall m0 q d, In (ILock m0 (LPqHandler q d)) (mcont st') <-> In (ILock m0 (LPqHandler q d)) (mcont st))
      by (intros m0 q d; apply (Mi (ILock m0 (LPqHandler q d))); intro X; exact X).
    assert (Huf : forall m0 q msgs tm, In (IUnlock m0 (UPqFwd q msgs tm)) (mcont st') <-> In (IUnlock m0 (UPqFwd q msgs tm)) (mcont st))
      by (intros m0 q msgs tm; apply (Mi (IUnlock m0 (UPqFwd q msgs tm))); intro X; exact X).
    assert (Ex0 : xs <> [] \/ pn = true -> pexists (pps st p0) = true).
    { intro H. destruct (Hsp H) as [_ [W [T _]]]. rewrite <- T. apply (e_wex _ _ _ R t W). }
    assert (NoEx : forall q, pexists (pps st q) = false -> (if q =? p0 then xs else []) = [] /\ ((q =? p0) && pn) = false).
    { intros q Hq. destruct (Z.eqb_spec q p0) as [->|Nq]; [|split; reflexivity].
      assert (Z0 : ~ (xs <> [] \/ pn = true)) by (intro H; rewrite (Ex0 H) in Hq; discriminate Hq).
      destruct (nil_dec xs) as [Ex|Ex]; [|exfalso; apply Z0; left; exact Ex].
      destruct (Bool.bool_dec pn true) as [Ep|Ep]; [exfalso; apply Z0; right; exact Ep|].
      apply not_true_is_false in Ep. rewrite Ex, Ep. split; reflexivity. }
    constructor.
    - rewrite M8. apply (e_bad _ _ _ R).
    - rewrite M9, Hn. apply (e_nthr _ _ _ R).
    - intros t0 q E. rewrite M9, Tp, !Cu. destruct (e_sp _ _ _ R t0 q E) as [A [B C]]. split; [exact A|]. split; [exact B|].
      destruct (Nat.eq_dec t0 t) as [->|Ht0]; [rewrite Hc in C; discriminate C|rewrite Nt; auto].
    - intros u q. rewrite M1, M9, Tp. apply (e_owner _ _ _ R).
    - intros u u'. rewrite !ef_wkr, !Tp. apply (e_wuniq _ _ _ R).
    - intros u. rewrite ef_wkr, Tp, Pe. apply (e_wex _ _ _ R).
    - intros q. rewrite Pe. intro H. destruct (e_exw _ _ _ R q H) as [u [A B]]. exists u. rewrite ef_wkr, Tp. auto.
    - intros q. rewrite Pe. intro Hq. destruct (NoEx q Hq) as [N1 N2].
      rewrite Esl, M2, M4, Pr, Pp, M5, M6, M7, M3, N1, N2, app_nil_r, orb_false_r. apply (e_noex _ _ _ R q Hq).
    - intros q H. rewrite Pe. apply (e_ins _ _ _ R q).
      destruct H as [[m0 [ms [tm H]]]|[m0 [d H]]]; [left; exists m0, ms, tm; apply Huf; exact H|right; exists m0, d; apply Hdl; exact H].
    - rewrite Esl. apply (e_uniq _ _ _ R).
    - intros u Hu. cbn zeta. rewrite Tp, M2, M4, Uf, Pr. apply ef_wkr in Hu. pose proof (e_ls _ _ _ R u Hu) as L. cbn zeta in L. rewrite L.
      destruct (Nat.eq_dec u t) as [->|Hne].
      + destruct (ef_lpend (tpipe (thr st t))) as [L1 L2]. rewrite L1, L2, <- !app_assoc. reflexivity.
      + destruct (ef_other u Hu Hne) as [O1 _]. rewrite O1, app_nil_r, (Nt u Hne). reflexivity.
    - intros u x Hu. rewrite Cu, Tp, M2. apply ef_wkr in Hu. apply (e_lscur _ _ _ R u x Hu).
    - intros q x. rewrite M3, M4, Uf, Pr. intro H. apply (e_lsdone _ _ _ R) in H.
      apply in_app_or in H. destruct H as [H|H]; [apply in_or_app; left; exact H|apply in_or_app; right].
      apply in_app_or in H. destruct H as [H|H]; [apply in_or_app; left; exact H|apply in_or_app; right].
      apply in_or_app. left. exact H.
    - intros q. rewrite M5, Esl, Pr. intro H. destruct (e_term _ _ _ R q H) as [A [B [C [D E]]]].
      split; [exact A|]. split; [intros u x Hin; apply (B u x); apply ef_pushes; exact Hin|].
      split; [intros m0 d Hin; apply (C m0 d); apply Hdl; exact Hin|]. split; [intros m0 msgs tm Hin; apply (D m0 msgs tm); apply Huf; exact Hin|].
      rewrite E, (ef_nopush q B). reflexivity.
    - intros m0 q Hin. rewrite Esl. apply Hdl in Hin. destruct (e_hdel _ _ _ R m0 q Hin) as [A [B C]].
      split; [exact A|]. split; [exact B|]. intros u x H. apply (C u x). apply ef_pushes. exact H.
    - intros q Hin. rewrite Esl, Pr. apply ef_hasterm in Hin. destruct (e_hterm _ _ _ R q Hin) as [A [B C]].
      split; [exact A|]. split; [|rewrite C, (ef_nopush q B); reflexivity]. intros u x H. apply (B u x). apply ef_pushes. exact H.
    - intros i0 r0 j Hm Hj. unfold mcont in *. destruct (Nat.eq_dec main t) as [E|E]; [|rewrite (Ho main E) in Hm; apply (e_hpos _ _ _ R i0 r0 j Hm Hj)].
      rewrite E, Hc' in Hm. destruct (eqi_list new Hnew) as [_ [_ [_ A4]]].
      assert (Rq : forall j0, In j0 r -> hq j0) by (intros j0 H0; apply (e_hpos _ _ _ R i r j0); [unfold mcont; rewrite E; exact Hc|exact H0]).
      destruct new as [|n0 new'].
      + cbn in Hm. apply Rq. rewrite Hm. right. exact Hj.
      + cbn in Hm. inversion Hm; subst. apply in_app_or in Hj. destruct Hj as [Hj|Hj]; [apply A4; right; exact Hj|apply Rq; exact Hj].
    - intros u j Hu Hj. destruct (Nat.eq_dec u t) as [->|Hn0]; [|rewrite (Ho u Hn0) in Hj; apply (e_hmain _ _ _ R u j Hu Hj)].
      rewrite Hc' in Hj. apply in_app_or in Hj. destruct (eqi_list new Hnew) as [_ [_ [_ A4]]].
      destruct Hj as [Hj|Hj]; [apply A4; exact Hj|apply (e_hmain _ _ _ R t j Hu); rewrite Hc; right; exact Hj].
    - intros u Hu. cbn zeta. rewrite Tp, M5, M6, Pp, Fi, ef_hasterm. apply ef_wkr in Hu. intros H1 H2.
      rewrite (e_panic _ _ _ R u Hu H1 H2). set (q := tpipe (thr st u)).
      destruct (Nat.eq_dec u t) as [->|Hne].
      + rewrite Hc, Hc'. rewrite orb_true_iff, andb_true_iff, !in_app_iff. cbn [In].
        assert (X : i = panic_i q <-> (q =? p0) = true /\ pn = true).
        { split.
          - intro E. destruct (Hi_pn _ _ E) as [E1 E2]. split; [apply Z.eqb_eq; exact E1|exact E2].
          - intros [E1 E2]. apply Z.eqb_eq in E1. rewrite E1. apply Hpn. exact E2. }
        split.
        * intros [H|[[H|H]|H]]; auto. left. right. apply X. exact H.
        * intros [[H|H]|[[H|H]|H]]; auto.
          -- right. left. left. apply X. exact H.
          -- exfalso. destruct (eqi_facts _ (Hnew _ H)) as [_ [_ [_ [_ Y]]]]. eapply Y. reflexivity.
      + destruct (ef_other u Hu Hne) as [_ O2]. fold q in O2. rewrite O2, orb_false_r, (Nt u Hne). split; intro X; exact X.
    - intros u q m0 a b E. rewrite Fi in E. rewrite ef_wkr, Tp.
      destruct (Nat.eq_dec u t) as [->|Hn0]; [|rewrite (Ho u Hn0) in E; apply (e_porder _ _ _ R u q m0 a b E)].
      rewrite Hc', <- app_assoc in E.
      destruct (split_quiet new _ a b _ (fun i0 H0 => proj2 (proj2 (proj2 (proj2 (eqi_facts i0 (Hnew i0 H0))))) m0 q) E) as [a' [E1 E2]].
      apply (e_porder _ _ _ R t q m0 (i :: a') b). rewrite Hc. cbn. rewrite E2. reflexivity.
    - intros m0 q msgs b Hin. rewrite M6. apply Huf in Hin. apply (e_ufterm _ _ _ R m0 q msgs b Hin).
    - intros u Hu. rewrite Tp. apply ef_wkr in Hu. destruct (e_wprog _ _ _ R u Hu) as [[x H]|H]; [|right; apply ef_prog; exact H].
      destruct (ef_pushes_r u x _ H) as [H'|H']; [left; exists x; exact H'|right; right; left; exists x; exact H'].
    - intros q. rewrite M7. intro H. apply ef_prog. apply (e_exited _ _ _ R q H).
  Qed.
End EFrame.


(** ** what an irrelevant instruction does to the pipes *)
Definition ppsame (st st' : wstate) : Prop :=
  forall q, pexists (pps st' q) = pexists (pps st q) /\ precvq (pps st' q) = precvq (pps st q) /\ ppanic (pps st' q) = ppanic (pps st q).

Record peff (st st' : wstate) (t : tid) (r : list instr) (ev : list wevent) : Prop := {
  pe_pp : ppsame st st';
  pe_new : exists new, tcont (thr st' t) = new ++ r /\ forall j, In j new -> eqi j;
  pe_ev : forall e, In e ev -> c14_plain e }.

Ltac pe_pp := let q := fresh "q" in let E := fresh "E" in
  intro q; cbn; unfold updZ; try (destruct (q =? _) eqn:E; [apply Z.eqb_eq in E; subst q|]); cbn; repeat split; reflexivity.
Ltac pe_q := let j := fresh "j" in let Hj := fresh "Hj" in
  intros j Hj; cbn in Hj; repeat (destruct Hj as [<-|Hj]); try contradiction; exact Logic.I.
Ltac pe_ev := let e := fresh "e" in let He := fresh "He" in
  intros e He; cbn in He; repeat (destruct He as [<-|He]); try contradiction; exact Logic.I.
Ltac pe NEW := constructor; [pe_pp | exists NEW; split; [thr_simpl|pe_q] | pe_ev].

Lemma ghost_collect_pps : forall bits st, pps (ghost_collect st bits) = pps st.
Proof. intros bits st. destruct (ghost_collect_sl bits st) as [_ [_ [_ [_ [_ [_ [A _]]]]]]]. exact A. Qed.

Lemma exec_instr_peff : forall st t i r st' ev,
  CInv (core st) -> tcont (thr st t) = i :: r -> eqj i -> exec_instr st t i r = (st', ev) -> peff st st' t r ev.
Proof.
  intros st t i r st' ev I Hc Hi H.
  destruct i; cbn [exec_instr] in H.
  - destruct k; cbn [exec_climb] in H; inversion H; subst; clear H.
    + destruct (bitmap_join a b (bmbase st bm)) as [x|]; [destruct (slab_get (sl st) x)|];
        (destruct (leaf st bm a =? 0); [pe [IClimb (KSum bm a)]|pe (@nil instr)]).
    + destruct (summ st bm =? 0); [pe [IClimb (KTop bm)]|pe (@nil instr)].
    + destruct (top st =? 0); [pe [IClimb KCb]|pe (@nil instr)].
    + pe (@nil instr).
  - inversion H; subst; clear H. pe [IBms (flat_map (bms_of_slot st) (bits_of (top st)))].
  - destruct bms; inversion H; subst; clear H.
    + pe [IBms []].
    + pe [ILeaves z (bits_of (summ st z)); IBms bms].
  - destruct ls; [inversion H; subst; clear H; pe [ILeaves bm []]|].
    destruct (collect (bmbase st bm) z (leaf st bm z)) as [bits ok].
    match type of H with context [ghost_collect ?S0 bits] =>
      destruct (ghost_collect_sl bits S0) as [A1 [A2 [A3 [A4 [A5 [A6 [A7 A8]]]]]]]; remember (ghost_collect S0 bits) as s3 eqn:Es3 end.
    cbn zeta in *. inversion H; subst st' ev; clear H.
    constructor.
    + intro q. cbn. rewrite A7. cbn. repeat split; reflexivity.
    + exists [ILeaves bm ls]. split; [|pe_q]. cbn -[Nat.eqb]. unfold updN, th. rewrite A8. cbn -[Nat.eqb]. unfold updN, th. rewrite !Nat.eqb_refl. reflexivity.
    + destruct ok; pe_ev.
  - inversion H; subst; clear H. pe [IRun].
  - inversion H; subst; clear H. pe [IHandlers bits].
  - inversion H; subst; clear H. pe [IDels bits].
  - (* lock *)
    match type of H with context [exec_lact ?S0 t ?aa ?rr] => destruct (exec_lact S0 t aa rr) as [s2 e2] eqn:E; set (s1 := S0) in * end.
    inversion H; subst st' ev; clear H.
    destruct a; cbn [exec_lact] in E; cbn in Hi; try contradiction.
    + (* LPush, not of a pipe *)
      destruct (climb_reserved s1 bm) as [i0|] eqn:Ecl; inversion E; subst s2 e2.
      * apply climb_at_climb in Ecl. destruct Ecl as [k ->]. unfold s1. pe [IClimb k; IUnlock MDL UNone].
      * unfold s1. pe [IUnlock MDL UNone].
    + unfold ghost_handler in E. inversion E; subst s2 e2. unfold s1. pe [IUnlock MDL (UDels (dl st))].
    + inversion E; subst s2 e2. unfold s1. pe [IUnlock (MCh c) (UChReg c)].
    + destr_all E; repeat match goal with E0 : climb_start _ _ _ = Some _ |- _ => apply climb_at_climb in E0; destruct E0 as [? ->] end;
        inversion E; subst s2 e2; unfold s1.
      * pe [IClimb x; IUnlock (MCh c) (UChPush c m0)].
      * pe [IUnlock (MCh c) (UChPush c m0)].
      * pe [IUnlock (MCh c) (UChPush c m0)].
      * pe [IUnlock (MCh c) (URet (RBool false))].
    + inversion E; subst s2 e2. unfold s1. pe [IUnlock (MCh c) (URet (RBool (negb (copen (chs st c)))))].
    + destruct (copen (chs s1 c)) eqn:Eo; inversion E; subst s2 e2; unfold s1.
      * pe [ILock MDL (LPush (wbit (cw (chs st c))) (wbm (cw (chs st c))) (HChan c)); IUnlock (MCh c) (UChClear c)].
      * pe [IUnlock (MCh c) (UChClear c)].
    + unfold ghost_handler in E. inversion E; subst s2 e2. unfold s1.
      destruct del; pe [IUnlock (MCh c) (UFwd c (if copen (chs st c) then cq (chs st c) else []))].
    + destr_all E; inversion E; subst s2 e2; unfold s1.
      * pe [IUnlock (MPq p) UNone; INotify p].
      * pe [IUnlock (MPq p) UNone].
    + inversion E; subst s2 e2. unfold s1. pe [IUnlock (MPq p) UNone; INotify p].
    + destr_all E; inversion E; subst s2 e2; unfold s1.
      * pe [IUnlock (MPq p) (URet RNoneV)].
      * pe [ICvWait p; ICvReacq p].
      * pe [IUnlock (MPq p) (URet (RVal z))].
    + inversion E; subst s2 e2. unfold s1. pe [IUnlock (MPq p) (URet (RBool (pcancel (pps st p))))].
  - (* unlock *)
    destruct (exec_uact st t a r) as [s1 e1] eqn:E. inversion H; subst st' ev; clear H.
    destruct a; cbn [exec_uact] in E; inversion E; subst s1 e1; clear E; cbn in Hi; try contradiction; try (pe (@nil instr); fail).
    + pe [IDels l].
    + constructor; [pe_pp|exists (@nil instr); split; [thr_simpl|pe_q]|].
      intros e [<-|X]; [exact Logic.I|]. apply in_map_iff in X. destruct X as [z [<- _]]. exact Logic.I.
  - inversion H; subst; clear H. pe (@nil instr).
  - match type of H with context [exec_lact ?S0 t ?aa ?rr] => destruct (exec_lact S0 t aa rr) as [s2 e2] eqn:E; set (s1 := S0) in * end.
    inversion H; subst st' ev; clear H. cbn [exec_lact] in E. destr_all E; inversion E; subst s2 e2; unfold s1.
    + pe [IUnlock (MPq p) (URet RNoneV)].
    + pe [ICvWait p; ICvReacq p].
    + pe [IUnlock (MPq p) (URet (RVal z))].
  - inversion H; subst st' ev; clear H.
    match goal with |- peff st (set_cont (fold_left ?f ?us st) t r) _ _ _ =>
      assert (D : pps (fold_left f us st) = pps st /\ thr (fold_left f us st) t = thr (fold_left f us st) t);
      [split; [|reflexivity]; clear; generalize us; intro us0; revert st; induction us0 as [|v us0 IH]; intro st; [reflexivity|];
       cbn [fold_left]; rewrite IH; reflexivity|];
      set (s1 := fold_left f us st) in * end.
    destruct D as [D1 _]. constructor.
    + intro q. cbn. rewrite D1. repeat split; reflexivity.
    + exists (@nil instr). split; [thr_simpl|pe_q].
    + pe_ev.
  - unfold ghost_handler in H. inversion H; subst st' ev; clear H.
    destruct del; constructor; try pe_pp; try (exists (@nil instr); split; [thr_simpl|pe_q]);
      intros e He; cbn in He; repeat (destruct He as [<-|He]); try contradiction; exact Logic.I.
  - inversion H; subst; clear H. pe (@nil instr).
  - inversion H; subst; clear H. pe (@nil instr).
Qed.

Lemma exec_instr_E_quiet : forall p st m t i r st' ev,
  CInv (core st) -> SlInv st -> PqInv st -> ERel p st m -> tcont (thr st t) = i :: r -> eqj i -> exec_instr st t i r = (st', ev) ->
  ERel p st' (fold_left m14r_step (evs t ev) m).
Proof.
  intros p st m t i r st' ev I S Q R Hc Hi H.
  destruct (exec_instr_peff _ _ _ _ _ _ I Hc Hi H) as [Pp [new [Hc' Hnew]] Pev].
  destruct (exec_instr_eff _ _ _ _ _ _ I Hc H) as [F _ [Esl _] Hpipe _ _ _].
  destruct (eqj_facts i Hi) as [J1 [J2 [J3 J4]]].
  apply (e_frame p st st' m _ t i r new 0 [] false R Q (m14r_plain_fold t ev m Pev) F Hc Hc' Esl Hpipe); auto.
  - intro q. destruct (Pp q) as [A [B C]]. rewrite A, B, C. destruct (q =? 0); rewrite app_nil_r, andb_false_r, orb_false_r; auto.
  - intro q. rewrite J2. destruct (q =? 0); reflexivity.
  - intros m0 q E. exfalso. exact (J4 m0 q E).
  - intro X. discriminate X.
  - intros [X|X]; [exfalso; apply X; reflexivity|discriminate X].
  - intros m0 x bm q E. apply (sl_claim st S). right; right. exists t. rewrite (tpushes_cons_cont _ _ _ Hc), E. left. reflexivity.
Qed.

(** ** the worker queues a reply / sets the panic flag *)
Lemma exec_lsend_E : forall pd st m t m0 p x r st' ev,
  CInv (core st) -> SlInv st -> PqInv st -> XInv st -> ERel pd st m -> (t < nthr st)%nat ->
  tcont (thr st t) = ILock m0 (LPqLSend p x) :: r -> exec_instr st t (ILock m0 (LPqLSend p x)) r = (st', ev) ->
  ERel pd st' (fold_left m14r_step (evs t ev) m).
Proof.
  intros pd st m t m0 p x r st' ev I S Q X R Ht Hc H.
  destruct (pc st Q t m0 p x) as [Ep [Hp0 Hcu]]; [rewrite Hc; left; reflexivity|].
  assert (Nm : t <> main) by (intro E; subst t; destruct (x_main _ X) as [_ Xm]; lia).
  destruct (exec_instr_eff _ _ _ _ _ _ I Hc H) as [F _ [Esl _] Hpipe _ _ _].
  cbn [exec_instr exec_lact] in H.
  set (s1 := acq_mtx (set_owner st (updM (owner st) m0 (Some t))) t m0) in *.
  set (wake := match precvq (pps s1 p) with [] => olist (climb_start s1 (pw (pps s1 p)) (Some (HPipe p))) | _ => [] end) in *.
  assert (Wk : forall j, In j wake -> eqi j).
  { unfold wake. destruct (precvq (pps s1 p)); [|intros j []].
    destruct (climb_start s1 (pw (pps s1 p)) (Some (HPipe p))) as [i0|] eqn:Ec; [|intros j []].
    apply climb_at_climb in Ec. destruct Ec as [k ->]. intros j [<-|[]]. exact Logic.I. }
  inversion H; subst st' ev; clear H.
  assert (Pl : forall e, In e [ELock m0] -> c14_plain e) by (intros e [<-|[]]; exact Logic.I).
  apply (e_frame pd st _ m _ t _ r (IUnlock (MPq p) (URet (RBool (negb (pcancel (pps s1 p))))) :: wake) p [x] false R Q (m14r_plain_fold t _ m Pl) F Hc); auto.
  - thr_simpl.
  - intro q. cbn. unfold updZ. destruct (Z.eqb_spec q p) as [->|Nq]; cbn; rewrite ?app_nil_r, ?andb_false_r, ?orb_false_r; repeat split; reflexivity.
  - exact Logic.I.
  - intro q. cbn. rewrite Z.eqb_sym. destruct (q =? p); reflexivity.
  - intros m1 q E. discriminate E.
  - intro E. discriminate E.
  - intros _. split; [exact Nm|]. split; [split; [exact Ht|rewrite <- Ep; exact Hp0]|]. split; [symmetry; exact Ep|intros _; exact Hcu].
  - intros m1 y bm q E. discriminate E.
  - intros j [<-|Hj]; [exact Logic.I|apply Wk; exact Hj].
Qed.

Lemma exec_panic_E : forall pd st m t m0 q r st' ev,
  CInv (core st) -> SlInv st -> PqInv st -> XInv st -> ERel pd st m ->
  tcont (thr st t) = ILock m0 (LPqPanic q) :: r -> exec_instr st t (ILock m0 (LPqPanic q)) r = (st', ev) ->
  ERel pd st' (fold_left m14r_step (evs t ev) m).
Proof.
  intros pd st m t m0 q r st' ev I S Q X R Hc H.
  destruct (e_porder _ _ _ R t q m0 [] (r ++ tfinal (thr st t))) as [Em [W [Eq _]]]; [rewrite Hc; reflexivity|].
  assert (Nm : t <> main) by (intro E; subst t; destruct (x_main _ X) as [_ Xm]; destruct W as [_ W]; lia).
  destruct (exec_instr_eff _ _ _ _ _ _ I Hc H) as [F _ [Esl _] Hpipe _ _ _].
  cbn [exec_instr exec_lact] in H.
  set (s1 := acq_mtx (set_owner st (updM (owner st) m0 (Some t))) t m0) in *.
  inversion H; subst st' ev; clear H.
  assert (Pl : forall e, In e [ELock m0] -> c14_plain e) by (intros e [<-|[]]; exact Logic.I).
  apply (e_frame pd st _ m _ t _ r [IUnlock (MPq q) UNone] q [] true R Q (m14r_plain_fold t _ m Pl) F Hc); auto.
  - thr_simpl.
  - intro q0. cbn. unfold updZ. destruct (Z.eqb_spec q0 q) as [->|Nq]; cbn; rewrite ?app_nil_r, ?andb_false_r, ?orb_false_r, ?orb_true_r; repeat split; reflexivity.
  - exact Logic.I.
  - intro q0. cbn. destruct (q0 =? q); reflexivity.
  - intros m1 q0 E. inversion E; subst. auto.
  - intros _. rewrite Em. reflexivity.
  - intros _. split; [exact Nm|]. split; [exact W|]. split; [symmetry; exact Eq|intro E; exfalso; apply E; reflexivity].
  - intros m1 y bm q0 E. discriminate E.
  - intros j [<-|[]]. exact Logic.I.
Qed.

(** ** the main thread runs the wake handler of a pipe *)
Lemma hq_list : forall k, (forall j, In j k -> hq j) ->
  (forall q, ufw q k = []) /\ (forall q, ~ hasterm q k) /\ (forall m0 q d, ~ In (ILock m0 (LPqHandler q d)) k) /\
  (forall m0 q msgs tm, ~ In (IUnlock m0 (UPqFwd q msgs tm)) k).
Proof.
  intros k H. split; [|split; [|split]].
  - intro q. induction k as [|j k IH]; [reflexivity|]. rewrite ufw_cons, IH by (intros; apply H; right; assumption). rewrite app_nil_r.
    pose proof (H j (or_introl eq_refl)) as Hj. destruct j; try reflexivity. destruct a; try reflexivity. destruct Hj.
  - intros q [m0 [msgs [b Hin]]]. exact (H _ Hin).
  - intros m0 q d Hin. exact (H _ Hin).
  - intros m0 q msgs tm Hin. exact (H _ Hin).
Qed.

Lemma on_pipe_app : forall q a b, on_pipe q (a ++ b) = on_pipe q a ++ on_pipe q b.
Proof.
  intros q a b. induction a as [|[q0 x] a IH]; [reflexivity|]. cbn. destruct (q0 =? q); [cbn; rewrite IH; reflexivity|exact IH].
Qed.
Lemma on_pipe_map_same : forall q l, on_pipe q (map (fun x => (q, x)) l) = l.
Proof. intros q l. induction l as [|x l IH]; [reflexivity|]. cbn. rewrite Z.eqb_refl, IH. reflexivity. Qed.
Lemma on_pipe_map_other : forall q q0 l, q0 <> q -> on_pipe q (map (fun x => (q0, x)) l) = [].
Proof. intros q q0 l Hn. induction l as [|x l IH]; [reflexivity|]. cbn. destruct (Z.eqb_spec q0 q); [congruence|exact IH]. Qed.

Lemma prefixZ_app : forall a c, prefixZ a (a ++ c) = true.
Proof. induction a as [|x a IH]; intro c; [reflexivity|]. cbn. rewrite Z.eqb_refl, IH. reflexivity. Qed.

Lemma wkr_not_main : forall st u, XInv st -> wkr st u -> u <> main.
Proof. intros st u X [_ W] E. subst u. destruct (x_main _ X) as [_ Xm]. lia. Qed.

Lemma exec_handler_E : forall pd st m t m0 q d r st' ev,
  CInv (core st) -> SlInv st -> PqInv st -> XInv st -> ERel pd st m ->
  tcont (thr st t) = ILock m0 (LPqHandler q d) :: r -> exec_instr st t (ILock m0 (LPqHandler q d)) r = (st', ev) ->
  ERel pd st' (fold_left m14r_step (evs t ev) m).
Proof.
  intros pd st m t m0 q d r st' ev I S Q X R Hc H.
  assert (Tm : t = main).
  { destruct (Nat.eq_dec t main) as [E|E]; [exact E|exfalso]. apply (e_hmain _ _ _ R t (ILock m0 (LPqHandler q d)) E); rewrite Hc; left; reflexivity. }
  subst t.
  assert (Hm : mcont st = ILock m0 (LPqHandler q d) :: r) by exact Hc.
  assert (Rq : forall j, In j r -> hq j) by (intros j Hj; apply (e_hpos _ _ _ R _ r j Hm Hj)).
  destruct (hq_list r Rq) as [Ru [Rt [Rh Rf]]].
  destruct (exec_instr_eff _ _ _ _ _ _ I Hc H) as [F _ [Esl _] Hpipe _ _ _].
  destruct F as [Hn [Hf Ho]].
  assert (Tp : forall u, tpipe (thr st' u) = tpipe (thr st u)) by (intro u; apply Hf).
  assert (Cu : forall u, tcur (thr st' u) = tcur (thr st u)) by (intro u; apply Hf).
  assert (Fi : forall u, tfinal (thr st' u) = tfinal (thr st u)) by (intro u; apply Hf).
  assert (Pl : forall y, In y (pipeline st') <-> In y (pipeline st)).
  { intro y. rewrite Hpipe. split; [intros [A|[m1 [bm [h A]]]]; [exact A|discriminate A]|auto]. }
  set (msgs := precvq (pps st q)). set (pb := ppanic (pps st q)).
  set (U := IUnlock (MPq q) (UPqFwd q msgs (if d then Some pb else None))).
  cbn [exec_instr exec_lact] in H. unfold ghost_handler in H.
  set (s1 := acq_mtx (set_owner st (updM (owner st) m0 (Some main))) main m0) in *.
  assert (Ev : exists e2, ev = ELock m0 :: [EHandler (HPipe q) d; e2] /\ c14_plain e2) by (inversion H; eexists; split; [reflexivity|exact Logic.I]).
  assert (Hc' : tcont (thr st' main) = U :: r) by (inversion H; subst st'; unfold U, msgs, pb, s1; destruct d; thr_simpl).
  assert (Pe : forall q', pexists (pps st' q') = pexists (pps st q')).
  { intro q'. inversion H; subst st'. unfold s1. destruct d; cbn; unfold updZ; destruct (Z.eqb_spec q' q) as [->|]; reflexivity. }
  assert (Pr : forall q', precvq (pps st' q') = if q' =? q then [] else precvq (pps st q')).
  { intro q'. inversion H; subst st'. unfold s1. destruct d; cbn; unfold updZ; destruct (q' =? q); reflexivity. }
  assert (Pp : forall q', ppanic (pps st' q') = if (q' =? q) && d then false else ppanic (pps st q')).
  { intro q'. inversion H; subst st'. unfold s1. destruct d; cbn; unfold updZ; destruct (Z.eqb_spec q' q) as [->|]; reflexivity. }
  clear H. clearbody s1.
  destruct Ev as [e2 [-> Pe2]].
  assert (Sm : r14_same m (fold_left m14r_step (evs main [ELock m0; EHandler (HPipe q) d; e2]) m)).
  { apply m14r_plain_fold. intros e [<-|[<-|[<-|[]]]]; try exact Logic.I. exact Pe2. }
  set (m' := fold_left m14r_step (evs main [ELock m0; EHandler (HPipe q) d; e2]) m) in *. clearbody m'.
  destruct Sm as [M1 M2 M3 M4 M5 M6 M7 M8 M9].
  assert (Hm' : mcont st' = U :: r) by exact Hc'.
  assert (Co : forall u, u <> main -> tcont (thr st' u) = tcont (thr st u)) by exact Ho.
  assert (Wk : forall u, wkr st' u <-> wkr st u) by (intro u; unfold wkr; rewrite Hn, Tp; tauto).
  assert (Tps : forall u, tpushes (thr st' u) = tpushes (thr st u)).
  { intro u. unfold tpushes. rewrite Fi. destruct (Nat.eq_dec u main) as [->|Hu]; [rewrite Hc, Hc'; reflexivity|rewrite (Co u Hu); reflexivity]. }
  assert (Qex : pexists (pps st q) = true).
  { apply (e_ins _ _ _ R q). right. exists m0, d. rewrite Hm. left. reflexivity. }
  assert (Qnt : memZ q (m14_term m) = false).
  { destruct (memZ q (m14_term m)) eqn:E; [|reflexivity]. exfalso. destruct (e_term _ _ _ R q E) as [_ [_ [C _]]]. apply (C m0 d). rewrite Hm. left. reflexivity. }
  assert (Ufq : forall q', ufw q' (mcont st') = (if q' =? q then msgs else []) /\ ufw q' (mcont st) = []).
  { intro q'. rewrite Hm, Hm', (ufw_cons q' U r), (ufw_cons q' (ILock m0 (LPqHandler q d)) r), Ru, !app_nil_r. split; [|reflexivity]. unfold U. cbn. rewrite Z.eqb_sym. destruct (q' =? q); [apply app_nil_r|reflexivity]. }
  assert (Htm : forall q', hasterm q' (mcont st') -> q' = q /\ d = true).
  { intros q' [m1 [ms [b Hin]]]. rewrite Hm' in Hin. destruct Hin as [E|Hin]; [|exfalso; exact (Rf _ _ _ _ Hin)].
    unfold U in E. destruct d; inversion E; auto. }
  assert (Pg : forall q', prog14 st m q' -> prog14 st' m' q').
  { intros q' [A|[[x [A B]]|[A|A]]].
    - left. rewrite M5. exact A.
    - right; left. exists x. rewrite Pl, Esl. auto.
    - rewrite Hm in A. destruct A as [A|A]; [|exfalso; exact (Rh _ _ _ A)]. inversion A; subst q' d.
      right; right; right. exists (MPq q), msgs, pb. rewrite Hm'. left. reflexivity.
    - exfalso. destruct A as [m1 [ms [b Hin]]]. rewrite Hm in Hin. destruct Hin as [E|Hin]; [discriminate E|exact (Rf _ _ _ _ Hin)]. }
  constructor.
  - rewrite M8. apply (e_bad _ _ _ R).
  - rewrite M9, Hn. apply (e_nthr _ _ _ R).
  - intros t0 q0 E. rewrite M9, Tp, !Cu. destruct (e_sp _ _ _ R t0 q0 E) as [A [B C]]. split; [exact A|]. split; [exact B|].
    destruct (Nat.eq_dec t0 main) as [->|Ht0]; [rewrite Hc in C; discriminate C|rewrite Co; auto].
  - intros u q0. rewrite M1, M9, Tp. apply (e_owner _ _ _ R).
  - intros u u'. rewrite !Wk, !Tp. apply (e_wuniq _ _ _ R).
  - intros u. rewrite Wk, Tp, Pe. apply (e_wex _ _ _ R).
  - intros q0. rewrite Pe. intro H. destruct (e_exw _ _ _ R q0 H) as [u [A B]]. exists u. rewrite Wk, Tp. auto.
  - intros q0. rewrite Pe. intro Hq. assert (Nq : q0 <> q) by (intro E; subst q0; rewrite Qex in Hq; discriminate Hq).
    rewrite Esl, M2, M4, Pr, Pp, M5, M6, M7, M3. destruct (Z.eqb_spec q0 q); [contradiction|]. cbn [andb]. apply (e_noex _ _ _ R q0 Hq).
  - intros q0 H. rewrite Pe. destruct (Z.eq_dec q0 q) as [->|Nq]; [exact Qex|]. exfalso.
    destruct H as [[m1 [ms [tm1 H]]]|[m1 [d1 H]]]; rewrite Hm' in H.
    + destruct H as [H|H]; [unfold U in H; inversion H; subst; apply Nq; reflexivity|exact (Rf _ _ _ _ H)].
    + destruct H as [H|H]; [discriminate H|exact (Rh _ _ _ H)].
  - rewrite Esl. apply (e_uniq _ _ _ R).
  - intros u Hu. cbn zeta. rewrite Tp, M2, M4, Pr. apply Wk in Hu. pose proof (e_ls _ _ _ R u Hu) as L. cbn zeta in L. rewrite L.
    rewrite (Co u (wkr_not_main _ _ X Hu)). destruct (Ufq (tpipe (thr st u))) as [U1 U2]. rewrite U1, U2.
    destruct (Z.eqb_spec (tpipe (thr st u)) q) as [E|E]; [rewrite E; reflexivity|reflexivity].
  - intros u x Hu. rewrite Cu, Tp, M2. apply Wk in Hu. apply (e_lscur _ _ _ R u x Hu).
  - intros q0 x. rewrite M3, M4, Pr. intro H. apply (e_lsdone _ _ _ R) in H. destruct (Ufq q0) as [U1 U2]. rewrite U1. rewrite U2 in H.
    destruct (Z.eqb_spec q0 q) as [->|E]; [|exact H]. cbn [app] in H. rewrite app_nil_r. exact H.
  - intros q0. rewrite M5. intro H. assert (Nq : q0 <> q) by (intro E; subst q0; rewrite Qnt in H; discriminate H).
    destruct (e_term _ _ _ R q0 H) as [A [B [C [D E]]]]. rewrite Esl, Pr. destruct (Z.eqb_spec q0 q); [contradiction|].
    split; [exact A|]. split; [intros u x; rewrite Tps; apply B|].
    split; [intros m1 d1 Hin; rewrite Hm' in Hin; destruct Hin as [Hin|Hin]; [discriminate Hin|exact (Rh _ _ _ Hin)]|].
    split; [|exact E]. intros m1 ms tm Hin. rewrite Hm' in Hin. destruct Hin as [Hin|Hin]; [inversion Hin; subst; apply Nq; reflexivity|exact (Rf _ _ _ _ Hin)].
  - intros m1 q0 Hin. exfalso. rewrite Hm' in Hin. destruct Hin as [Hin|Hin]; [discriminate Hin|exact (Rh _ _ _ Hin)].
  - intros q0 Hin. destruct (Htm _ Hin) as [-> ->]. rewrite Esl, Pr, Z.eqb_refl.
    destruct (e_hdel _ _ _ R m0 q) as [_ [A B]]; [rewrite Hm; left; reflexivity|].
    split; [exact A|]. split; [intros u x; rewrite Tps; apply B|reflexivity].
  - intros i0 r0 j E Hj. rewrite Hm' in E. inversion E; subst. apply Rq. exact Hj.
  - intros u j Hu Hj. rewrite (Co u Hu) in Hj. apply (e_hmain _ _ _ R u j Hu Hj).
  - intros u Hu. cbn zeta. rewrite Tp, M5, M6, Pp, Fi. apply Wk in Hu. rewrite (Co u (wkr_not_main _ _ X Hu)). intros H1 H2.
    assert (H2' : ~ hasterm (tpipe (thr st u)) (mcont st)).
    { intros [m1 [ms [b Hin]]]. rewrite Hm in Hin. destruct Hin as [E|Hin]; [discriminate E|exact (Rf _ _ _ _ Hin)]. }
    rewrite (e_panic _ _ _ R u Hu H1 H2').
    destruct (Z.eqb_spec (tpipe (thr st u)) q) as [E|E]; [|tauto].
    destruct d; [|tauto]. exfalso. apply H2. rewrite E. exists (MPq q), msgs, pb. rewrite Hm'. left. reflexivity.
  - intros u q0 m1 a b E. rewrite Fi in E. rewrite Wk, Tp.
    destruct (Nat.eq_dec u main) as [->|Hu]; [|rewrite (Co u Hu) in E; apply (e_porder _ _ _ R u q0 m1 a b E)].
    rewrite Hc' in E. destruct a as [|a0 a]; [cbn in E; inversion E|]. cbn in E. inversion E; subst a0.
    apply (e_porder _ _ _ R main q0 m1 (ILock m0 (LPqHandler q d) :: a) b). rewrite Hc. cbn. f_equal. assumption.
  - intros m1 q0 ms b Hin. rewrite M6. rewrite Hm' in Hin. destruct Hin as [Hin|Hin]; [|exfalso; exact (Rf _ _ _ _ Hin)].
    unfold U in Hin. destruct d; inversion Hin; subst q0 ms b. clear Hin.
    destruct (e_exw _ _ _ R q Qex) as [u [Wu Eu]].
    destruct (e_hdel _ _ _ R m0 q) as [_ [_ Np]]; [rewrite Hm; left; reflexivity|].
    assert (H2' : ~ hasterm q (mcont st)).
    { intros [m2 [ms [b Hin]]]. rewrite Hm in Hin. destruct Hin as [E|Hin]; [discriminate E|exact (Rf _ _ _ _ Hin)]. }
    pose proof (e_panic _ _ _ R u Wu) as Pn. cbn zeta in Pn. rewrite Eu in Pn. specialize (Pn Qnt H2').
    assert (NoP : ~ In (panic_i q) (tcont (thr st u) ++ tfinal (thr st u))).
    { intro Hin. apply in_split in Hin. destruct Hin as [a [b Hin]].
      destruct (e_porder _ _ _ R u q (MPq q) a b Hin) as [_ [_ [_ [x Hx]]]].
      apply (Np u x). rewrite tpushes_app_eq, Hin, pushes_app, pushes_cons. apply in_or_app. right. apply in_or_app. right. exact Hx. }
    unfold pb. destruct (memZ q (m14_panic m)) eqn:Em; destruct (ppanic (pps st q)) eqn:Epp; try reflexivity; exfalso.
    + destruct (proj1 Pn eq_refl) as [A|A]; [discriminate A|exact (NoP A)].
    + assert (A : false = true) by (apply Pn; left; reflexivity). discriminate A.
  - intros u Hu. rewrite Tp, Tps. apply Wk in Hu. destruct (e_wprog _ _ _ R u Hu) as [A|A]; [left; exact A|right; apply Pg; exact A].
  - intros q0. rewrite M7. intro H. apply Pg. apply (e_exited _ _ _ R q0 H).
Qed.

(** the monitor across the forwarding of a batch of replies *)
Record r14_fwd (q : Z) (msgs : list Z) (m m' : m14) : Prop := {
  rf_owner : m14_owner m' = m14_owner m; rf_lsend : m14_lsend m' = m14_lsend m; rf_lsdone : m14_lsdone m' = m14_lsdone m;
  rf_fwd : m14_fwd m' = m14_fwd m ++ map (fun x => (q, x)) msgs; rf_term : m14_term m' = m14_term m;
  rf_panic : m14_panic m' = m14_panic m; rf_exited : m14_exited m' = m14_exited m; rf_bad : m14_bad m' = false;
  rf_nthr : b_nthr (m14_b m') = b_nthr (m14_b m) }.

Lemma fwd_batch14 : forall msgs m q t c,
  m14_bad m = false -> memZ q (m14_term m) = false ->
  on_pipe q (m14_lsend m) = on_pipe q (m14_fwd m) ++ msgs ++ c ->
  r14_fwd q msgs m (fold_left m14r_step (evs t (map (EFwdRecv q) msgs)) m).
Proof.
  induction msgs as [|x msgs IH]; intros m q t c Hb Ht Hl.
  - cbn. constructor; try reflexivity; [rewrite app_nil_r; reflexivity|exact Hb].
  - cbn [map evs fold_left]. fold (evs t (map (EFwdRecv q) msgs)).
    set (m1 := m14r_step m (t, EFwdRecv q x)).
    assert (F1 : m14_fwd m1 = m14_fwd m ++ [(q, x)]) by reflexivity.
    assert (B1 : m14_bad m1 = false).
    { unfold m1, m14r_step, m14_step. cbn. rewrite Hb, Ht. cbn. rewrite on_pipe_app, Hl. cbn. rewrite Z.eqb_refl. cbn.
      replace (on_pipe q (m14_fwd m) ++ x :: msgs ++ c) with ((on_pipe q (m14_fwd m) ++ [x]) ++ msgs ++ c) by (rewrite <- app_assoc; reflexivity).
      rewrite prefixZ_app. reflexivity. }
    assert (N1 : b_nthr (m14_b m1) = b_nthr (m14_b m)).
    { unfold m1. rewrite m14r_b_step. apply mb_nthr_nonret. intros v E. discriminate E. }
    destruct (IH m1 q t c B1 Ht) as [A1 A2 A3 A4 A5 A6 A7 A8 A9].
    { change (m14_lsend m1) with (m14_lsend m). rewrite F1, on_pipe_app, Hl. cbn. rewrite Z.eqb_refl, <- app_assoc. reflexivity. }
    constructor; try (first [rewrite A1|rewrite A2|rewrite A3|rewrite A5|rewrite A6|rewrite A7]; reflexivity).
    + rewrite A4, F1, <- app_assoc. reflexivity.
    + exact A8.
    + rewrite A9. exact N1.
Qed.

Lemma memZ_cons_other : forall q a l, a <> q -> memZ q (a :: l) = memZ q l.
Proof. intros q a l H. unfold memZ. cbn. destruct (Z.eqb_spec a q); [contradiction|reflexivity]. Qed.
Lemma memZ_cons_same : forall q l, memZ q (q :: l) = true.
Proof. intros q l. unfold memZ. cbn. rewrite Z.eqb_refl. reflexivity. Qed.

Lemma exec_ufwd_E : forall pd st m t m0 q msgs tm r st' ev,
  CInv (core st) -> SlInv st -> PqInv st -> XInv st -> ERel pd st m ->
  tcont (thr st t) = IUnlock m0 (UPqFwd q msgs tm) :: r -> exec_instr st t (IUnlock m0 (UPqFwd q msgs tm)) r = (st', ev) ->
  ERel pd st' (fold_left m14r_step (evs t ev) m).
Proof.
  intros pd st m t m0 q msgs tm r st' ev I S Q X R Hc H.
  assert (Tm : t = main).
  { destruct (Nat.eq_dec t main) as [E|E]; [exact E|exfalso]. apply (e_hmain _ _ _ R t (IUnlock m0 (UPqFwd q msgs tm)) E); rewrite Hc; left; reflexivity. }
  subst t.
  assert (Hm : mcont st = IUnlock m0 (UPqFwd q msgs tm) :: r) by exact Hc.
  assert (Rq : forall j, In j r -> hq j) by (intros j Hj; apply (e_hpos _ _ _ R _ r j Hm Hj)).
  destruct (hq_list r Rq) as [Ru [Rt [Rh Rf]]].
  destruct (exec_instr_eff _ _ _ _ _ _ I Hc H) as [F _ [Esl _] Hpipe _ _ _].
  destruct F as [Hn [Hf Ho]].
  assert (Tp : forall u, tpipe (thr st' u) = tpipe (thr st u)) by (intro u; apply Hf).
  assert (Cu : forall u, tcur (thr st' u) = tcur (thr st u)) by (intro u; apply Hf).
  assert (Fi : forall u, tfinal (thr st' u) = tfinal (thr st u)) by (intro u; apply Hf).
  assert (Pl : forall y, In y (pipeline st') <-> In y (pipeline st)).
  { intro y. rewrite Hpipe. split; [intros [A|[m1 [bm [h A]]]]; [exact A|discriminate A]|auto]. }
  cbn [exec_instr exec_uact] in H.
  assert (Hc' : tcont (thr st' main) = r) by (inversion H; subst st'; thr_simpl).
  assert (Pps : pps st' = pps st) by (inversion H; subst st'; reflexivity).
  assert (Ev : ev = EUnlock m0 :: map (EFwdRecv q) msgs ++ match tm with Some b => [ETerm q b] | None => [] end) by (inversion H; reflexivity).
  clear H. subst ev.
  assert (Hm' : mcont st' = r) by exact Hc'.
  assert (Co : forall u, u <> main -> tcont (thr st' u) = tcont (thr st u)) by exact Ho.
  assert (Wk : forall u, wkr st' u <-> wkr st u) by (intro u; unfold wkr; rewrite Hn, Tp; tauto).
  assert (Tps : forall u, tpushes (thr st' u) = tpushes (thr st u)).
  { intro u. unfold tpushes. rewrite Fi. destruct (Nat.eq_dec u main) as [->|Hu]; [rewrite Hc, Hc'; reflexivity|rewrite (Co u Hu); reflexivity]. }
  assert (Qex : pexists (pps st q) = true).
  { apply (e_ins _ _ _ R q). left. exists m0, msgs, tm. rewrite Hm. left. reflexivity. }
  assert (Qnt : memZ q (m14_term m) = false).
  { destruct (memZ q (m14_term m)) eqn:E; [|reflexivity]. exfalso. destruct (e_term _ _ _ R q E) as [_ [_ [_ [D _]]]]. apply (D m0 msgs tm). rewrite Hm. left. reflexivity. }
  destruct (e_exw _ _ _ R q Qex) as [uq [Wq Eq]].
  assert (Ufq : ufw q (mcont st) = msgs).
  { rewrite Hm, (ufw_cons q _ r), Ru, app_nil_r. cbn. rewrite Z.eqb_refl. apply app_nil_r. }
  assert (Ufo : forall q', q' <> q -> ufw q' (mcont st) = []).
  { intros q' Nq. rewrite Hm, (ufw_cons q' _ r), Ru, app_nil_r. cbn. destruct (Z.eqb_spec q q'); [exfalso; apply Nq; auto|reflexivity]. }
  (* the monitor *)
  change (evs main (EUnlock m0 :: map (EFwdRecv q) msgs ++ match tm with Some b => [ETerm q b] | None => [] end))
    with ((main, EUnlock m0) :: evs main (map (EFwdRecv q) msgs ++ match tm with Some b => [ETerm q b] | None => [] end)).
  cbn [fold_left]. rewrite evs_app, fold_left_app.
  set (ma := m14r_step m (main, EUnlock m0)).
  assert (Sa : r14_same m ma) by (apply m14r_plain_step; exact Logic.I).
  destruct Sa as [A1 A2 A3 A4 A5 A6 A7 A8 A9].
  pose proof (e_ls _ _ _ R uq Wq) as Lq. cbn zeta in Lq. rewrite Eq, Ufq in Lq.
  destruct (fwd_batch14 msgs ma q main (precvq (pps st q) ++ lpend q (tcont (thr st uq)))) as [B1 B2 B3 B4 B5 B6 B7 B8 B9].
  { rewrite A8. apply (e_bad _ _ _ R). }
  { rewrite A5. exact Qnt. }
  { rewrite A2, A4. exact Lq. }
  set (mb := fold_left m14r_step (evs main (map (EFwdRecv q) msgs)) ma) in *.
  set (m' := fold_left m14r_step (evs main match tm with Some b => [ETerm q b] | None => [] end) mb).
  assert (Hterm : forall b, tm = Some b -> b = memZ q (m14_panic m)).
  { intros b ->. apply (e_ufterm _ _ _ R m0 q msgs b). rewrite Hm. left. reflexivity. }
  assert (M' : m14_owner m' = m14_owner m /\ m14_lsend m' = m14_lsend m /\ m14_lsdone m' = m14_lsdone m /\
               m14_fwd m' = m14_fwd m ++ map (fun x => (q, x)) msgs /\
               m14_term m' = (match tm with Some _ => [q] | None => [] end) ++ m14_term m /\
               m14_panic m' = m14_panic m /\ m14_exited m' = m14_exited m /\ m14_bad m' = false /\
               b_nthr (m14_b m') = b_nthr (m14_b m)).
  { unfold m'. destruct tm as [b|]; cbn [evs map fold_left].
    - unfold m14r_step, m14_step. cbn. rewrite B1, B2, B3, B4, B5, B6, B7, B8, A1, A2, A3, A4, A5, A6, A7, Qnt, (Hterm b eq_refl).
      rewrite Bool.eqb_reflx. cbn. repeat split; try reflexivity.
      rewrite <- A9, <- B9. destruct (get_tid main (b_cur (m14_b mb))); [reflexivity|destruct (memT main (b_exit (m14_b mb))); reflexivity].
    - rewrite B1, B2, B3, B4, B5, B6, B7, B8, B9, A1, A2, A3, A4, A5, A6, A7, A9. repeat split; reflexivity. }
  clearbody m'. clear B1 B2 B3 B4 B5 B6 B7 B8 B9 A1 A2 A3 A4 A5 A6 A7 A8 A9. clearbody mb ma.
  destruct M' as [M1 [M2 [M3 [M4 [M5 [M6 [M7 [M8 M9]]]]]]]].
  assert (Fq : on_pipe q (m14_fwd m') = on_pipe q (m14_fwd m) ++ msgs) by (rewrite M4, on_pipe_app, on_pipe_map_same; reflexivity).
  assert (Fo : forall q', q' <> q -> on_pipe q' (m14_fwd m') = on_pipe q' (m14_fwd m)).
  { intros q' Nq. rewrite M4, on_pipe_app, on_pipe_map_other, app_nil_r by (intro E; apply Nq; auto). reflexivity. }
  assert (Tq : forall q', q' <> q -> memZ q' (m14_term m') = memZ q' (m14_term m)).
  { intros q' Nq. rewrite M5. destruct tm; [apply memZ_cons_other; intro E; apply Nq; auto|reflexivity]. }
  assert (Tmono : forall q', memZ q' (m14_term m) = true -> memZ q' (m14_term m') = true).
  { intros q' H. rewrite M5. destruct tm; [cbn [app]; apply memZ_cons12; exact H|exact H]. }
  assert (Pg : forall q', prog14 st m q' -> prog14 st' m' q').
  { intros q' [A|[[x [A B]]|[A|A]]].
    - left. apply Tmono. exact A.
    - right; left. exists x. rewrite Pl, Esl. auto.
    - exfalso. rewrite Hm in A. destruct A as [A|A]; [discriminate A|exact (Rh _ _ _ A)].
    - destruct A as [m1 [ms [b Hin]]]. rewrite Hm in Hin. destruct Hin as [E|Hin]; [|exfalso; exact (Rf _ _ _ _ Hin)].
      inversion E; subst. left. rewrite M5. cbn [app]. apply memZ_cons_same. }
  constructor.
  - exact M8.
  - rewrite M9, Hn. apply (e_nthr _ _ _ R).
  - intros t0 q0 E. rewrite M9, Tp, !Cu. destruct (e_sp _ _ _ R t0 q0 E) as [A [B C]]. split; [exact A|]. split; [exact B|].
    destruct (Nat.eq_dec t0 main) as [->|Ht0]; [rewrite Hc in C; discriminate C|rewrite Co; auto].
  - intros u q0. rewrite M1, M9, Tp. apply (e_owner _ _ _ R).
  - intros u u'. rewrite !Wk, !Tp. apply (e_wuniq _ _ _ R).
  - intros u. rewrite Wk, Tp, Pps. apply (e_wex _ _ _ R).
  - intros q0. rewrite Pps. intro H. destruct (e_exw _ _ _ R q0 H) as [u [A B]]. exists u. rewrite Wk, Tp. auto.
  - intros q0. rewrite Pps. intro Hq. assert (Nq : q0 <> q) by (intro E; subst q0; rewrite Qex in Hq; discriminate Hq).
    rewrite Esl, M2, (Fo q0 Nq), (Tq q0 Nq), M6, M7, M3. apply (e_noex _ _ _ R q0 Hq).
  - intros q0 H. exfalso. rewrite Hm' in H. destruct H as [[m1 [ms [tm1 H]]]|[m1 [d1 H]]]; [exact (Rf _ _ _ _ H)|exact (Rh _ _ _ H)].
  - rewrite Esl. apply (e_uniq _ _ _ R).
  - intros u Hu. cbn zeta. rewrite Tp, M2, Pps, Hm', Ru. apply Wk in Hu. pose proof (e_ls _ _ _ R u Hu) as L. cbn zeta in L. rewrite L.
    rewrite (Co u (wkr_not_main _ _ X Hu)). destruct (Z.eq_dec (tpipe (thr st u)) q) as [E|E].
    + rewrite E, Fq, Ufq, <- !app_assoc. reflexivity.
    + rewrite (Fo _ E), (Ufo _ E). reflexivity.
  - intros u x Hu. rewrite Cu, Tp, M2. apply Wk in Hu. apply (e_lscur _ _ _ R u x Hu).
  - intros q0 x. rewrite M3, Pps, Hm', Ru. intro H. apply (e_lsdone _ _ _ R) in H. destruct (Z.eq_dec q0 q) as [->|E].
    + rewrite Fq, Ufq in *. rewrite <- app_assoc. exact H.
    + rewrite (Fo _ E). rewrite (Ufo _ E) in H. exact H.
  - intros q0 H. rewrite Esl, Pps, Hm'.
    assert (Z0 : (forall x, slab_get (sl st) x <> Some (HPipe q0)) /\ (forall u x, ~ In (x, HPipe q0) (tpushes (thr st u))) /\ precvq (pps st q0) = []).
    { destruct (Z.eq_dec q0 q) as [->|Nq].
      - destruct tm as [b|]; [|rewrite M5 in H; cbn [app] in H; rewrite Qnt in H; discriminate H].
        apply (e_hterm _ _ _ R q). exists m0, msgs, b. rewrite Hm. left. reflexivity.
      - rewrite (Tq q0 Nq) in H. destruct (e_term _ _ _ R q0 H) as [A [B [_ [_ E]]]]. auto. }
    destruct Z0 as [Z1 [Z2 Z3]]. split; [exact Z1|]. split; [intros u x; rewrite Tps; apply Z2|].
    split; [intros m1 d1 Hin; exact (Rh _ _ _ Hin)|]. split; [intros m1 ms tm1 Hin; exact (Rf _ _ _ _ Hin)|exact Z3].
  - intros m1 q0 Hin. exfalso. rewrite Hm' in Hin. exact (Rh _ _ _ Hin).
  - intros q0 Hin. exfalso. rewrite Hm' in Hin. exact (Rt _ Hin).
  - intros i0 r0 j E Hj. rewrite Hm' in E. apply Rq. rewrite E. right. exact Hj.
  - intros u j Hu Hj. rewrite (Co u Hu) in Hj. apply (e_hmain _ _ _ R u j Hu Hj).
  - intros u Hu. cbn zeta. rewrite Tp, M6, Pps, Fi, Hm'. apply Wk in Hu. rewrite (Co u (wkr_not_main _ _ X Hu)). intros H1 _.
    destruct (Z.eq_dec (tpipe (thr st u)) q) as [E|E].
    + rewrite E in *. destruct tm as [b|]; [rewrite M5 in H1; cbn [app] in H1; rewrite memZ_cons_same in H1; discriminate H1|].
      pose proof (e_panic _ _ _ R u Hu) as Pn. cbn zeta in Pn. rewrite E in Pn. apply Pn; [exact Qnt|].
      intros [m1 [ms [b Hin]]]. rewrite Hm in Hin. destruct Hin as [E0|Hin]; [discriminate E0|exact (Rf _ _ _ _ Hin)].
    + rewrite (Tq _ E) in H1. apply (e_panic _ _ _ R u Hu H1).
      intros [m1 [ms [b Hin]]]. rewrite Hm in Hin. destruct Hin as [E0|Hin]; [injection E0 as E1 E2 E3 E4; apply E; symmetry; exact E2|exact (Rf _ _ _ _ Hin)].
  - intros u q0 m1 a b E. rewrite Fi in E. rewrite Wk, Tp.
    destruct (Nat.eq_dec u main) as [->|Hu]; [|rewrite (Co u Hu) in E; apply (e_porder _ _ _ R u q0 m1 a b E)].
    rewrite Hc' in E. apply (e_porder _ _ _ R main q0 m1 (IUnlock m0 (UPqFwd q msgs tm) :: a) b). rewrite Hc. cbn. f_equal. exact E.
  - intros m1 q0 ms b Hin. exfalso. rewrite Hm' in Hin. exact (Rf _ _ _ _ Hin).
  - intros u Hu. rewrite Tp, Tps. apply Wk in Hu. destruct (e_wprog _ _ _ R u Hu) as [A|A]; [left; exact A|right; apply Pg; exact A].
  - intros q0. rewrite M7. intro H. apply Pg. apply (e_exited _ _ _ R q0 H).
Qed.

Lemma exec_instr_E : forall pd st m t i r st' ev,
  CInv (core st) -> SlInv st -> PqInv st -> XInv st -> ERel pd st m -> (t < nthr st)%nat ->
  tcont (thr st t) = i :: r -> exec_instr st t i r = (st', ev) ->
  ERel pd st' (fold_left m14r_step (evs t ev) m).
Proof.
  intros pd st m t i r st' ev I S Q X R Ht Hc H.
  assert (Dec : eqj i \/ (exists m0 q d, i = ILock m0 (LPqHandler q d)) \/ (exists m0 q x, i = ILock m0 (LPqLSend q x)) \/
                (exists m0 q, i = ILock m0 (LPqPanic q)) \/ (exists m0 q msgs tm, i = IUnlock m0 (UPqFwd q msgs tm))).
  { destruct i; try (left; exact Logic.I); destruct a; try (left; exact Logic.I); right; eauto 8. }
  destruct Dec as [D|[[m0 [q [d ->]]]|[[m0 [q [x ->]]]|[[m0 [q ->]]|[m0 [q [msgs [tm ->]]]]]]]].
  - eapply exec_instr_E_quiet; eauto.
  - eapply exec_handler_E; eauto.
  - eapply exec_lsend_E; eauto.
  - eapply exec_panic_E; eauto.
  - eapply exec_ufwd_E; eauto.
Qed.

(** ** normalisation at the end of a step of the main thread *)
Definition hd_handler (new : list instr) (q : Z) (d : bool) : Prop := exists m0, hd_error new = Some (ILock m0 (LPqHandler q d)).

Lemma e_NS_step : forall pd st s acc i r s' acc' new m,
  XInv st ->
  ERel pd (NS st s acc (i :: r)) m -> norm_head i ->
  pushes new = [] ->
  (forall j, In j (tl new) -> eqi j) ->
  (forall j, hd_error new = Some j -> eqi j \/ exists q d, j = ILock (MPq q) (LPqHandler q d)) ->
  (forall q d, hd_handler new q d -> pexists (pps st q) = true /\ memZ q (m14_term m) = false /\
     (d = true -> (forall x, slab_get s' x <> Some (HPipe q)) /\ (forall u x, ~ In (x, HPipe q) (tpushes (thr (NS st s acc (i :: r)) u))))) ->
  (forall y h, slab_get s' y = Some h -> slab_get s y = Some h) ->
  (forall y, In y (cont_dels new) -> In y (dels_of i)) ->
  (forall y q, In y (dl st ++ cont_dels (i :: r)) -> slab_get s y = Some (HPipe q) ->
     (In y (dl st ++ cont_dels (new ++ r)) /\ slab_get s' y = Some (HPipe q)) \/ hd_handler new q true) ->
  ERel pd (NS st s' acc' (new ++ r)) m.
Proof.
  intros pd st s acc i r s' acc' new m X R Hi Hpn Htl Hhd Hh Hs Hd Hp.
  destruct (NS_fields st s acc (i :: r)) as [A1 [A2 [A3 [A4 [A5 [A6 [A7 [A8 [A9 A10]]]]]]]]].
  destruct (NS_fields st s' acc' (new ++ r)) as [B1 [B2 [B3 [B4 [B5 [B6 [B7 [B8 [B9 B10]]]]]]]]].
  set (SA := NS st s acc (i :: r)) in *. set (SB := NS st s' acc' (new ++ r)) in *.
  assert (Th : forall u, u <> main -> thr SB u = thr SA u) by (intros u Hu; rewrite A10, B10; auto).
  assert (Tpm : tpipe (thr SB main) = tpipe (thr SA main)) by (unfold SA, SB, NS; thr_simpl).
  assert (Cum : tcur (thr SB main) = tcur (thr SA main)) by (unfold SA, SB, NS; thr_simpl).
  assert (Tp : forall u, tpipe (thr SB u) = tpipe (thr SA u)) by (intro u; destruct (Nat.eq_dec u main) as [->|E]; [exact Tpm|rewrite Th; auto]).
  assert (Cu : forall u, tcur (thr SB u) = tcur (thr SA u)) by (intro u; destruct (Nat.eq_dec u main) as [->|E]; [exact Cum|rewrite Th; auto]).
  assert (Hn : nthr SB = nthr SA) by (rewrite A5, B5; reflexivity).
  assert (Pps : pps SB = pps SA) by (rewrite A7, B7; reflexivity).
  assert (Wk : forall u, wkr SB u <-> wkr SA u) by (intro u; unfold wkr; rewrite Hn, Tp; tauto).
  assert (XA : forall u, wkr SA u -> u <> main).
  { intros u [_ W] E. subst u. assert (Z0 : tpipe (thr SA main) = tpipe (thr st main)) by (unfold SA, NS; thr_simpl).
    rewrite Z0 in W. destruct (x_main _ X) as [_ Xm]. lia. }
  assert (Ni : hq i /\ (forall q, ufw q [i] = []) /\ push_of i = [] /\ (forall m0 q, i <> ILock m0 (LPqPanic q)) /\ (forall m0 q d, i <> ILock m0 (LPqHandler q d)) /\
               (forall m0 q ms tm, i <> IUnlock m0 (UPqFwd q ms tm))).
  { destruct i; cbn in Hi; try contradiction; repeat split; try exact Logic.I; try reflexivity; intros; discriminate. }
  destruct Ni as [N1 [N2 [N3 [N4 [N5 N6]]]]].
  assert (MA : mcont SA = i :: r) by exact A8. assert (MB : mcont SB = new ++ r) by exact B8.
  assert (A7' : pps SA = pps st) by exact A7.
  clearbody SA SB.
  assert (Rq : forall j, In j r -> hq j) by (intros j Hj; apply (e_hpos _ _ _ R i r j MA Hj)).
  destruct (hq_list r Rq) as [Ru [Rt [Rh Rf]]].
  assert (NewQ : forall j, In j new -> eqi j \/ exists q d, j = ILock (MPq q) (LPqHandler q d) /\ hd_handler new q d).
  { intros j Hj. destruct new as [|n0 new']; [destruct Hj|]. destruct Hj as [<-|Hj]; [|left; apply Htl; exact Hj].
    destruct (Hhd n0 eq_refl) as [E|[q [d E]]]; [left; exact E|right; exists q, d; split; [exact E|exists (MPq q); rewrite E; reflexivity]]. }
  assert (NewU : forall q, ufw q new = []).
  { intro q. assert (Z0 : forall k, (forall j, In j k -> eqi j \/ exists q0 d, j = ILock (MPq q0) (LPqHandler q0 d) /\ hd_handler new q0 d) -> ufw q k = []).
    { induction k as [|j k IH]; intro Hk; [reflexivity|]. rewrite (ufw_cons q j k), IH by (intros; apply Hk; right; assumption). rewrite app_nil_r.
      destruct (Hk j (or_introl eq_refl)) as [E|[q0 [d [-> _]]]]; [apply (proj1 (proj2 (proj2 (eqi_facts j E))))|reflexivity]. }
    apply Z0. exact NewQ. }
  assert (NewF : forall m0 q ms tm, ~ In (IUnlock m0 (UPqFwd q ms tm)) new).
  { intros m0 q ms tm Hin. destruct (NewQ _ Hin) as [E|[q0 [d [E _]]]]; [exact E|discriminate E]. }
  assert (NewP : forall m0 q, ~ In (ILock m0 (LPqPanic q)) new).
  { intros m0 q Hin. destruct (NewQ _ Hin) as [E|[q0 [d [E _]]]]; [exact E|discriminate E]. }
  assert (Tps : forall u, tpushes (thr SB u) = tpushes (thr SA u)).
  { intro u. destruct (Nat.eq_dec u main) as [->|E]; [|rewrite Th; auto]. unfold tpushes. rewrite A8, B8, A9, B9, pushes_app, Hpn, pushes_cons, N3. reflexivity. }
  assert (Pk : pipeline SA = dl st ++ cont_dels (i :: r)) by (unfold pipeline; rewrite A2, A8; reflexivity).
  assert (Pk' : pipeline SB = dl st ++ cont_dels (new ++ r)) by (unfold pipeline; rewrite B2, B8; reflexivity).
  assert (Hsub : forall y, In y (pipeline SB) -> In y (pipeline SA)).
  { intros y Hin. rewrite Pk' in Hin. rewrite Pk. rewrite cont_dels_app in Hin. rewrite cont_dels_cons. rewrite !in_app_iff in *.
    destruct Hin as [Hin|[Hin|Hin]]; auto. }
  assert (Hdl : forall m0 q d, In (ILock m0 (LPqHandler q d)) (mcont SB) ->
                In (ILock m0 (LPqHandler q d)) (mcont SA) \/ (m0 = MPq q /\ hd_handler new q d)).
  { intros m0 q d Hin. rewrite MB in Hin. apply in_app_or in Hin. destruct Hin as [Hin|Hin]; [|left; rewrite MA; right; exact Hin].
    destruct (NewQ _ Hin) as [E|[q0 [d0 [E Hd0]]]]; [destruct E|]. inversion E; subst. right. auto. }
  assert (Huf : forall m0 q ms tm, In (IUnlock m0 (UPqFwd q ms tm)) (mcont SB) -> In (IUnlock m0 (UPqFwd q ms tm)) (mcont SA)).
  { intros m0 q ms tm Hin. rewrite MB in Hin. apply in_app_or in Hin. destruct Hin as [Hin|Hin]; [exfalso; exact (NewF _ _ _ _ Hin)|rewrite MA; right; exact Hin]. }
  assert (Uf : forall q, ufw q (mcont SB) = ufw q (mcont SA)).
  { intro q. rewrite MA, MB, ufw_app, (ufw_cons q i r), NewU, N2. reflexivity. }
  assert (Htm : forall q, hasterm q (mcont SB) <-> hasterm q (mcont SA)).
  { intro q. split; intros [m0 [ms [b Hin]]]; exists m0, ms, b; [apply Huf; exact Hin|].
    rewrite MA in Hin. rewrite MB. destruct Hin as [E|Hin]; [exfalso; exact (N6 _ _ _ _ E)|apply in_or_app; right; exact Hin]. }
  assert (Pg : forall q, prog14 SA m q -> prog14 SB m q).
  { intros q [A|[[x [A B]]|[A|A]]].
    - left. exact A.
    - rewrite Pk in A. rewrite A1 in B. destruct (Hp x q A B) as [[C1 C2]|[m0 C]].
      + right; left. exists x. rewrite Pk', B1. auto.
      + right; right; left. rewrite MB. destruct new as [|n0 new']; [discriminate C|]. cbn in C. inversion C; subst.
        destruct (Hhd _ eq_refl) as [E|[q0 [d0 E]]]; [destruct E|]. inversion E; subst. left. reflexivity.
    - right; right; left. rewrite MA in A. rewrite MB. destruct A as [A|A]; [exfalso; exact (N5 _ _ _ A)|apply in_or_app; right; exact A].
    - right; right; right. apply Htm. exact A. }
  constructor.
  - apply (e_bad _ _ _ R).
  - rewrite Hn. apply (e_nthr _ _ _ R).
  - intros t0 q E. rewrite Tp, !Cu. destruct (e_sp _ _ _ R t0 q E) as [A [B C]]. split; [exact A|]. split; [exact B|].
    destruct (Nat.eq_dec t0 main) as [->|Ht0]; [rewrite A8 in C; discriminate C|rewrite Th; auto].
  - intros u q. rewrite Tp. apply (e_owner _ _ _ R).
  - intros u u'. rewrite !Wk, !Tp. apply (e_wuniq _ _ _ R).
  - intros u. rewrite Wk, Tp, Pps. apply (e_wex _ _ _ R).
  - intros q. rewrite Pps. intro H. destruct (e_exw _ _ _ R q H) as [u [A B]]. exists u. rewrite Wk, Tp. auto.
  - intros q. rewrite Pps. intro Hq. destruct (e_noex _ _ _ R q Hq) as [E1 E2]. split; [|exact E2].
    intros x G. rewrite B1 in G. apply (E1 x). rewrite A1. apply Hs. exact G.
  - intros q H. rewrite Pps. destruct H as [[m0 [ms [tm H]]]|[m0 [d H]]].
    + apply (e_ins _ _ _ R q). left. exists m0, ms, tm. apply Huf. exact H.
    + destruct (Hdl _ _ _ H) as [H'|[_ H']]; [apply (e_ins _ _ _ R q); right; exists m0, d; exact H'|].
      rewrite A7'. apply (Hh q d H').
  - intros x y q. rewrite B1. intros G1 G2. apply (e_uniq _ _ _ R x y q); rewrite A1; apply Hs; assumption.
  - intros u Hu. cbn zeta. rewrite Tp, Uf, Pps. apply Wk in Hu. rewrite (Th u (XA u Hu)). apply (e_ls _ _ _ R u Hu).
  - intros u x Hu. rewrite Cu, Tp. apply Wk in Hu. apply (e_lscur _ _ _ R u x Hu).
  - intros q x. rewrite Uf, Pps. apply (e_lsdone _ _ _ R).
  - intros q H. destruct (e_term _ _ _ R q H) as [A [B [C [D E]]]]. rewrite B1, Pps.
    split; [intros x G; apply (A x); rewrite A1; apply Hs; exact G|]. split; [intros u x; rewrite Tps; apply B|].
    split; [|split; [intros m0 ms tm Hin; apply (D m0 ms tm); apply Huf; exact Hin|exact E]].
    intros m0 d Hin. destruct (Hdl _ _ _ Hin) as [H'|[_ H']]; [exact (C _ _ H')|]. destruct (Hh q d H') as [_ [T _]]. rewrite T in H. discriminate H.
  - intros m0 q Hin. rewrite B1. destruct (Hdl _ _ _ Hin) as [H'|[E H']].
    + destruct (e_hdel _ _ _ R m0 q H') as [A [B C]]. split; [exact A|]. split; [intros x G; apply (B x); rewrite A1; apply Hs; exact G|intros u x; rewrite Tps; apply C].
    + destruct (Hh q true H') as [_ [_ Z0]]. destruct (Z0 eq_refl) as [Z1 Z2]. split; [exact E|]. split; [exact Z1|intros u x; rewrite Tps; apply Z2].
  - intros q Hin. apply Htm in Hin. destruct (e_hterm _ _ _ R q Hin) as [A [B C]]. rewrite B1, Pps.
    split; [intros x G; apply (A x); rewrite A1; apply Hs; exact G|]. split; [intros u x; rewrite Tps; apply B|exact C].
  - intros i0 r0 j E Hj. rewrite MB in E. destruct new as [|n0 new'].
    + cbn in E. apply Rq. rewrite E. right. exact Hj.
    + cbn in E. inversion E; subst. apply in_app_or in Hj. destruct Hj as [Hj|Hj]; [apply (proj1 (eqi_facts j (Htl j Hj)))|apply Rq; exact Hj].
  - intros u j Hu Hj. rewrite (Th u Hu) in Hj. apply (e_hmain _ _ _ R u j Hu Hj).
  - intros u Hu. cbn zeta. rewrite Tp, Pps, Htm. apply Wk in Hu. rewrite (Th u (XA u Hu)). apply (e_panic _ _ _ R u Hu).
  - intros u q m0 a b E. rewrite Wk, Tp.
    destruct (Nat.eq_dec u main) as [->|Hu]; [|rewrite (Th u Hu) in E; apply (e_porder _ _ _ R u q m0 a b E)].
    rewrite B8, B9, <- app_assoc in E.
    destruct (split_quiet new _ a b _ (fun i0 H0 E0 => NewP m0 q (eq_ind _ (fun z => In z new) H0 _ E0)) E) as [a' [E1 E2]].
    apply (e_porder _ _ _ R main q m0 (i :: a') b). rewrite A8, A9. cbn. rewrite E2. reflexivity.
  - intros m0 q ms b Hin. apply Huf in Hin. apply (e_ufterm _ _ _ R m0 q ms b Hin).
  - intros u Hu. rewrite Tp, Tps. apply Wk in Hu. destruct (e_wprog _ _ _ R u Hu) as [A|A]; [left; exact A|right; apply Pg; exact A].
  - intros q H. apply Pg. apply (e_exited _ _ _ R q H).
Qed.

Lemma reserved_not_pipe : forall c b q, SInv c -> b mod 4096 = 0 -> slab_get (c_sl c) b <> Some (HPipe q).
Proof.
  intros c b q S Hb G. apply slab_get_some in G. destruct G as [R E].
  apply (s_res c S b R) in Hb. rewrite Hb in E. discriminate E.
Qed.

Lemma hinstrs_hd : forall h d, exists j, hinstrs h d = [j] /\ (eqi j \/ exists q, h = HPipe q /\ j = ILock (MPq q) (LPqHandler q d)).
Proof. intros [w| |c|q] d; eexists; (split; [reflexivity|]); try (left; exact Logic.I). right. eauto. Qed.

Lemma norm_E : forall fuel st s acc k ev s1 acc1 k1 ev1 m pd,
  XInv st -> CInv (core (NS st s acc k)) -> SlInv (NS st s acc k) -> ERel pd (NS st s acc k) m ->
  norm fuel s acc k ev = (s1, acc1, k1, ev1) -> ERel pd (NS st s1 acc1 k1) m.
Proof.
  induction fuel as [|f IH]; intros st s acc k ev s1 acc1 k1 ev1 m pd X I S R H; cbn [norm] in H.
  - inversion H; subst. exact R.
  - assert (StepI : forall s' acc' k', f_norm1 (core (NS st s acc k)) = Some (set_norm (core (NS st s acc k)) s' acc' k') ->
                                      CInv (core (NS st s' acc' k'))).
    { intros s' acc' k' E. eapply pres_norm1 in E; eauto.
      eapply CInv_ceq; [|exact E]. eapply ceq_trans; [apply NS_ceq|apply NS_NS]. }
    assert (Simple : forall i r new acc', k = i :: r -> norm_head i -> pushes new = [] -> (forall j, In j new -> eqi j) ->
              cont_dels new = dels_of i -> ERel pd (NS st s acc' (new ++ r)) m).
    { intros i r new acc' -> Hi Hp Hq Hd. apply (e_NS_step pd st s acc i r s acc' new m X R Hi Hp).
      - intros j Hj. apply Hq. destruct new; [destruct Hj|right; exact Hj].
      - intros j E. left. apply Hq. destruct new as [|n0 new']; [discriminate E|]. inversion E; subst. left. reflexivity.
      - intros q d [m0 E]. exfalso. destruct new as [|n0 new']; [discriminate E|]. inversion E; subst. exact (Hq _ (or_introl eq_refl)).
      - auto.
      - intros y Hin. rewrite Hd in Hin. exact Hin.
      - intros y q Hin G. left. split; [|exact G]. rewrite cont_dels_app, Hd. rewrite cont_dels_cons in Hin. exact Hin. }
    destruct k as [|i r]; [inversion H; subst; exact R|].
    destruct i as [c| |[|bm bms]|bm [|a ls]| |[|b bs]|[|b bs]| | | | | | | |];
      try (inversion H; subst; exact R).
    + eapply IH; [exact X| | | |exact H].
      * apply StepI. reflexivity.
      * eapply sl_NS_frame; [exact S| |]; reflexivity.
      * apply (Simple _ r (@nil instr) acc eq_refl Logic.I eq_refl); [intros j []|reflexivity].
    + eapply IH; [exact X| | | |exact H].
      * apply StepI. reflexivity.
      * eapply sl_NS_frame; [exact S| |]; reflexivity.
      * apply (Simple _ r (@nil instr) acc eq_refl Logic.I eq_refl); [intros j []|reflexivity].
    + eapply IH; [exact X| | | |exact H].
      * apply StepI. reflexivity.
      * eapply sl_NS_frame; [exact S| |]; reflexivity.
      * apply (Simple _ r [IHandlers acc] [] eq_refl Logic.I eq_refl); [|reflexivity].
        intros j [<-|[]]. exact Logic.I.
    + eapply IH; [exact X| | | |exact H].
      * apply StepI. reflexivity.
      * eapply sl_NS_frame; [exact S| |]; reflexivity.
      * apply (Simple _ r (@nil instr) acc eq_refl Logic.I eq_refl); [intros j []|reflexivity].
    + destruct (slab_get s b) as [h|] eqn:E.
      * inversion H; subst s1 acc1 k1 ev1. destruct (hinstrs_plain h false) as [Dh Ph].
        destruct (hinstrs_hd h false) as [j0 [Ej Hj0]].
        replace (hinstrs h false ++ IHandlers bs :: r) with ((hinstrs h false ++ [IHandlers bs]) ++ r) by (rewrite <- app_assoc; reflexivity).
        apply (e_NS_step pd st s acc _ r s acc _ m X R Logic.I).
        -- rewrite pushes_app, Ph. reflexivity.
        -- rewrite Ej. intros j [<-|[]]. exact Logic.I.
        -- rewrite Ej. intros j E0. inversion E0; subst j. destruct Hj0 as [A|[q [_ A]]]; [left; exact A|right; exists q, false; exact A].
        -- rewrite Ej. intros q d [m0 E0]. cbn in E0. injection E0 as E0. destruct Hj0 as [A|[q0 [Eh A]]]; [rewrite E0 in A; destruct A|].
           rewrite E0 in A. injection A as A1 A2 A3. subst q0 d. rewrite Eh in E.
           assert (Gb : slab_get (sl (NS st s acc (IHandlers (b :: bs) :: r))) b = Some (HPipe q)) by exact E.
           split; [|split; [|intro D; discriminate D]].
           ++ destruct (pexists (pps st q)) eqn:Ex; [reflexivity|exfalso]. destruct (e_noex _ _ _ R q Ex) as [Z0 _]. exact (Z0 b Gb).
           ++ destruct (memZ q (m14_term m)) eqn:Et; [exfalso|reflexivity]. destruct (e_term _ _ _ R q Et) as [Z0 _]. exact (Z0 b Gb).
        -- auto.
        -- intros y Hin. rewrite cont_dels_app, Dh in Hin. destruct Hin.
        -- intros y q Hin G. left. split; [|exact G]. rewrite cont_dels_app, cont_dels_app, Dh. rewrite cont_dels_cons in Hin. exact Hin.
      * eapply IH; [exact X| | | |exact H].
        -- apply StepI. cbn. unfold updN, th, main. cbn. rewrite E. reflexivity.
        -- eapply sl_NS_frame; [exact S| |]; reflexivity.
        -- apply (Simple _ r [IHandlers bs] acc eq_refl Logic.I eq_refl); [|reflexivity].
           intros j [<-|[]]. exact Logic.I.
    + eapply IH; [exact X| | | |exact H].
      * apply StepI. reflexivity.
      * eapply sl_NS_frame; [exact S| |]; reflexivity.
      * apply (Simple _ r (@nil instr) acc eq_refl Logic.I eq_refl); [intros j []|reflexivity].
    + destruct (wh_del s b) as [[h s']|] eqn:E.
      * inversion H; subst s1 acc1 k1 ev1. pose proof E as E0. apply wh_del_some in E0. destruct E0 as [Hb [Gb ->]].
        destruct (hinstrs_plain h true) as [Dh Ph]. destruct (hinstrs_hd h true) as [j0 [Ej Hj0]].
        assert (Pin : In b (pipeline (NS st s acc (IDels (b :: bs) :: r)))).
        { unfold pipeline. apply in_or_app. right. replace (tcont (thr (NS st s acc (IDels (b :: bs) :: r)) main)) with (IDels (b :: bs) :: r) by (unfold NS; thr_simpl).
          rewrite cont_dels_cons. left. reflexivity. }
        pose proof (sl_nodup _ S) as Nd. unfold pipeline in Nd.
        replace (tcont (thr (NS st s acc (IDels (b :: bs) :: r)) main)) with (IDels (b :: bs) :: r) in Nd by (unfold NS; thr_simpl).
        change (dl (NS st s acc (IDels (b :: bs) :: r))) with (dl st) in Nd. rewrite cont_dels_cons in Nd. cbn [dels_of] in Nd.
        replace (hinstrs h true ++ IDels bs :: r) with ((hinstrs h true ++ [IDels bs]) ++ r) by (rewrite <- app_assoc; reflexivity).
        apply (e_NS_step pd st s acc _ r (slab_remove s b) acc _ m X R Logic.I).
        -- rewrite pushes_app, Ph. reflexivity.
        -- rewrite Ej. intros j [<-|[]]. exact Logic.I.
        -- rewrite Ej. intros j E0. inversion E0; subst j. destruct Hj0 as [A|[q [_ A]]]; [left; exact A|right; exists q, true; exact A].
        -- rewrite Ej. intros q d [m0 E0]. cbn in E0. injection E0 as E0. destruct Hj0 as [A|[q0 [Eh A]]]; [rewrite E0 in A; destruct A|].
           rewrite E0 in A. injection A as A1 A2 A3. subst q0 d. rewrite Eh in Gb.
           assert (Gb' : slab_get (sl (NS st s acc (IDels (b :: bs) :: r))) b = Some (HPipe q)) by exact Gb.
           split; [|split].
           ++ destruct (pexists (pps st q)) eqn:Ex; [reflexivity|exfalso]. destruct (e_noex _ _ _ R q Ex) as [Z0 _]. exact (Z0 b Gb').
           ++ destruct (memZ q (m14_term m)) eqn:Et; [exfalso|reflexivity]. destruct (e_term _ _ _ R q Et) as [Z0 _]. exact (Z0 b Gb').
           ++ intros _. split.
              ** intros x Gx. destruct (Z.eq_dec x b) as [->|Nx]; [rewrite slab_get_remove_same in Gx; discriminate Gx|].
                 rewrite slab_get_remove_other in Gx by exact Nx. apply Nx. apply (e_uniq _ _ _ R x b q Gx Gb').
              ** intros u x Hin. destruct (sl_claim _ S x (HPipe q)) as [C1 C2]; [right; right; exists u; exact Hin|].
                 assert (x = b) by (apply (e_uniq _ _ _ R x b q C1 Gb')). subst x. exact (C2 Pin).
        -- intros y h0 G. destruct (Z.eq_dec y b) as [->|Ny]; [rewrite slab_get_remove_same in G; discriminate G|].
           rewrite slab_get_remove_other in G by exact Ny. exact G.
        -- intros y Hin. rewrite cont_dels_app, Dh in Hin. cbn in Hin. rewrite app_nil_r in Hin. right. exact Hin.
        -- intros y q Hin G. destruct (Z.eq_dec y b) as [->|Ny].
           ++ right. rewrite Gb in G. inversion G; subst h. destruct Hj0 as [A|[q0 [Eh A]]]; [|inversion Eh; subst q0; exists (MPq q); rewrite Ej, A; reflexivity].
              exfalso. destruct (hinstrs_hd (HPipe q) true) as [j1 [Ej1 _]]. cbn in Ej, Ej1. inversion Ej; subst j0. exact A.
           ++ left. split; [|rewrite slab_get_remove_other by exact Ny; exact G].
              rewrite cont_dels_app, cont_dels_app, Dh. cbn [app cont_dels flat_map dels_of]. rewrite app_nil_r.
              rewrite cont_dels_cons in Hin. cbn [dels_of] in Hin. rewrite !in_app_iff in *. cbn in Hin.
              destruct Hin as [Hin|[[Hin|Hin]|Hin]]; auto. exfalso. apply Ny. symmetry. exact Hin.
      * eapply IH; [exact X| | | |exact H].
        -- apply StepI. cbn. unfold updN, th, main. cbn. rewrite E. reflexivity.
        -- eapply (sl_NS_del st s acc b bs r); [exact S|left; reflexivity| |]; [rewrite cont_dels_cons; reflexivity|rewrite pushes_cons; reflexivity].
        -- replace (IDels bs :: r) with ([IDels bs] ++ r) by reflexivity.
           apply (e_NS_step pd st s acc _ r s acc _ m X R Logic.I).
           ++ reflexivity.
           ++ intros j [].
           ++ intros j E0. inversion E0; subst. left. exact Logic.I.
           ++ intros q d [m0 E0]. discriminate E0.
           ++ auto.
           ++ intros y Hin. cbn in Hin. rewrite app_nil_r in Hin. right. exact Hin.
           ++ intros y q Hin G. left. split; [|exact G].
              destruct (Z.eq_dec y b) as [->|Ny].
              ** exfalso. apply wh_del_none in E. destruct E as [E|E]; [|rewrite E in G; discriminate G].
                 eapply (reserved_not_pipe (core (NS st s acc (IDels (b :: bs) :: r))) b q (i_slab _ I) E). exact G.
              ** rewrite cont_dels_cons in Hin. cbn [dels_of] in Hin. cbn [app]. rewrite cont_dels_cons. cbn [dels_of]. rewrite !in_app_iff in *. cbn in Hin.
                 destruct Hin as [Hin|[[Hin|Hin]|Hin]]; auto. exfalso. apply Ny. symmetry. exact Hin.
Qed.

(** ** beginning a command *)
(** a thread with an empty continuation starts a command that the relation does not look at; the slab may gain
    entries that are not pipe handlers *)
Section EIdle.
  Variables (st st' : wstate) (m m' : m14) (t : tid) (new : list instr).
  Variables (p0 : Z) (xs : list Z) (pn : bool).
  Hypothesis R : ERel ENone st m.
  Hypothesis M1 : m14_owner m' = m14_owner m.
  Hypothesis M2 : forall q, on_pipe q (m14_lsend m') = on_pipe q (m14_lsend m) ++ (if q =? p0 then xs else []).
  Hypothesis M3 : m14_lsdone m' = m14_lsdone m.
  Hypothesis M4 : m14_fwd m' = m14_fwd m.
  Hypothesis M5 : m14_term m' = m14_term m.
  Hypothesis M6 : forall q, memZ q (m14_panic m') = memZ q (m14_panic m) || ((q =? p0) && pn).
  Hypothesis M7 : m14_exited m' = m14_exited m.
  Hypothesis M8 : m14_bad m' = m14_bad m.
  Hypothesis M9 : b_nthr (m14_b m') = b_nthr (m14_b m).
  Hypothesis Hn : nthr st' = nthr st.
  Hypothesis Ho : forall u, u <> t -> thr st' u = thr st u.
  Hypothesis Hc : tcont (thr st t) = [].
  Hypothesis Hc' : tcont (thr st' t) = new.
  Hypothesis Nl : forall q, lpend q new = if q =? p0 then xs else [].
  Hypothesis Nu : forall q, ufw q new = [].
  Hypothesis Np : forall x q, ~ In (x, HPipe q) (pushes new).
  Hypothesis Nh : forall j, In j new -> hq j.
  Hypothesis Npn : forall m0 q, ~ In (ILock m0 (LPqPanic q)) new.
  Hypothesis Hnd : cont_dels new = [].
  Hypothesis Htp : tpipe (thr st' t) = tpipe (thr st t).
  Hypothesis Hfin : tfinal (thr st' t) = (if pn then [panic_i p0] else []) ++ tfinal (thr st t).
  Hypothesis Hcur : wkr st t -> forall x, tcur (thr st' t) = Some (CLSend x) -> In x (on_pipe (tpipe (thr st t)) (m14_lsend m')).
  Hypothesis Hsp : xs <> [] \/ pn = true ->
                   wkr st t /\ tpipe (thr st t) = p0 /\ (pn = true -> exists x, In (x, HPipe p0) (pushes (tfinal (thr st t)))).
  Hypothesis Hdl : dl st' = dl st.
  Hypothesis Hold : forall x h, slab_get (sl st) x = Some h -> slab_get (sl st') x = Some h.
  Hypothesis Hpipe : forall x q, slab_get (sl st') x = Some (HPipe q) -> slab_get (sl st) x = Some (HPipe q).
  Hypothesis Hpp : ppsame st st'.

  Lemma ei_other : forall u, wkr st u -> u <> t -> (if tpipe (thr st u) =? p0 then xs else []) = [] /\ ((tpipe (thr st u) =? p0) && pn) = false.
  Proof.
    intros u Hu Hne. destruct (Z.eqb_spec (tpipe (thr st u)) p0) as [E|E]; [|split; reflexivity].
    assert (Z0 : ~ (xs <> [] \/ pn = true)).
    { intro H. destruct (Hsp H) as [W [T _]]. apply Hne. apply (e_wuniq _ _ _ R u t Hu W). rewrite E, T. reflexivity. }
    destruct (nil_dec xs) as [Ex|Ex]; [|exfalso; apply Z0; left; exact Ex].
    destruct (Bool.bool_dec pn true) as [Ep|Ep]; [exfalso; apply Z0; right; exact Ep|].
    apply not_true_is_false in Ep. rewrite Ex, Ep. split; reflexivity.
  Qed.

  Lemma e_idle : ERel ENone st' m'.
  Proof.
    assert (Pe : forall q, pexists (pps st' q) = pexists (pps st q)) by (intro q; apply Hpp).
    assert (Pr : forall q, precvq (pps st' q) = precvq (pps st q)) by (intro q; apply Hpp).
    assert (Pp : forall q, ppanic (pps st' q) = ppanic (pps st q)) by (intro q; apply Hpp).
    assert (Tp : forall u, tpipe (thr st' u) = tpipe (thr st u)) by (intro u; destruct (Nat.eq_dec u t) as [->|E]; [exact Htp|rewrite Ho; auto]).
    assert (Wk : forall u, wkr st' u <-> wkr st u) by (intro u; unfold wkr; rewrite Hn, Tp; tauto).
    assert (Mc : (forall q, ufw q (mcont st') = ufw q (mcont st)) /\ (forall j, ~ hq j -> (In j (mcont st') <-> In j (mcont st)))).
    { unfold mcont. destruct (Nat.eq_dec main t) as [E|E]; [|rewrite (Ho main E); split; [reflexivity|tauto]].
      rewrite E, Hc, Hc'. split; [intro q; rewrite Nu; reflexivity|]. intros j Hj. split; [intro H; exfalso; apply Hj; apply Nh; exact H|intros []]. }
    destruct Mc as [Uf Mi].
    assert (Hd : forall m0 q d, In (ILock m0 (LPqHandler q d)) (mcont st') <-> In (ILock m0 (LPqHandler q d)) (mcont st))
      by (intros m0 q d; apply (Mi (ILock m0 (LPqHandler q d))); intro Y; exact Y).
    assert (Huf : forall m0 q msgs tm, In (IUnlock m0 (UPqFwd q msgs tm)) (mcont st') <-> In (IUnlock m0 (UPqFwd q msgs tm)) (mcont st))
      by (intros m0 q msgs tm; apply (Mi (IUnlock m0 (UPqFwd q msgs tm))); intro Y; exact Y).
    assert (Htm : forall q, hasterm q (mcont st') <-> hasterm q (mcont st)).
    { intro q. unfold hasterm. split; intros [m0 [ms [b H]]]; exists m0, ms, b; apply Huf; exact H. }
    assert (Pf : forall x q, In (x, HPipe q) (pushes (tfinal (thr st' t))) <-> In (x, HPipe q) (pushes (tfinal (thr st t)))).
    { intros x q. rewrite Hfin, pushes_app. destruct pn; cbn; [|tauto]. tauto. }
    assert (Tps : forall u x q, In (x, HPipe q) (tpushes (thr st' u)) <-> In (x, HPipe q) (tpushes (thr st u))).
    { intros u x q. destruct (Nat.eq_dec u t) as [->|E]; [|rewrite Ho; tauto]. unfold tpushes. rewrite Hc, Hc', !in_app_iff, Pf.
      split; [intros [H|H]; [exfalso; exact (Np x q H)|right; exact H]|intros [[]|H]; right; exact H]. }
    assert (Pl : pipeline st' = pipeline st).
    { unfold pipeline. rewrite Hdl. destruct (Nat.eq_dec main t) as [E|E]; [rewrite E, Hc, Hc', Hnd; reflexivity|rewrite (Ho main E); reflexivity]. }
    assert (NoE : forall q, (forall x, slab_get (sl st) x <> Some (HPipe q)) -> forall x, slab_get (sl st') x <> Some (HPipe q)).
    { intros q H x G. exact (H x (Hpipe x q G)). }
    assert (Pg : forall q, prog14 st m q -> prog14 st' m' q).
    { intros q [A|[[x [A B]]|[A|A]]].
      - left. rewrite M5. exact A.
      - right; left. exists x. rewrite Pl. split; [exact A|apply Hold; exact B].
      - right; right; left. apply (Mi (hdel_i q) (fun Y => Y)). exact A.
      - right; right; right. apply Htm. exact A. }
    assert (Ex0 : xs <> [] \/ pn = true -> pexists (pps st p0) = true).
    { intro H. destruct (Hsp H) as [W [T _]]. rewrite <- T. apply (e_wex _ _ _ R t W). }
    assert (NoEx : forall q, pexists (pps st q) = false -> (if q =? p0 then xs else []) = [] /\ ((q =? p0) && pn) = false).
    { intros q Hq. destruct (Z.eqb_spec q p0) as [->|Nq]; [|split; reflexivity].
      assert (Z0 : ~ (xs <> [] \/ pn = true)) by (intro H; rewrite (Ex0 H) in Hq; discriminate Hq).
      destruct (nil_dec xs) as [Ex|Ex]; [|exfalso; apply Z0; left; exact Ex].
      destruct (Bool.bool_dec pn true) as [Ep|Ep]; [exfalso; apply Z0; right; exact Ep|].
      apply not_true_is_false in Ep. rewrite Ex, Ep. split; reflexivity. }
    constructor.
    - rewrite M8. apply (e_bad _ _ _ R).
    - rewrite M9, Hn. apply (e_nthr _ _ _ R).
    - intros t0 q E. discriminate E.
    - intros u q. rewrite M1, M9, Tp. apply (e_owner _ _ _ R).
    - intros u u'. rewrite !Wk, !Tp. apply (e_wuniq _ _ _ R).
    - intros u. rewrite Wk, Tp, Pe. apply (e_wex _ _ _ R).
    - intros q. rewrite Pe. intro H. destruct (e_exw _ _ _ R q H) as [u [A B]]. exists u. rewrite Wk, Tp. auto.
    - intros q. rewrite Pe. intro Hq. destruct (NoEx q Hq) as [N1 N2].
      rewrite M2, M4, Pr, Pp, M5, M6, M7, M3, N1, N2, app_nil_r, orb_false_r.
      destruct (e_noex _ _ _ R q Hq) as [E1 E2]. split; [apply NoE; exact E1|exact E2].
    - intros q H. rewrite Pe. apply (e_ins _ _ _ R q).
      destruct H as [[m0 [ms [tm H]]]|[m0 [d H]]]; [left; exists m0, ms, tm; apply Huf; exact H|right; exists m0, d; apply Hd; exact H].
    - intros x y q G1 G2. apply (e_uniq _ _ _ R x y q); apply Hpipe; assumption.
    - intros u Hu. cbn zeta. rewrite Tp, M2, M4, Uf, Pr. apply Wk in Hu. pose proof (e_ls _ _ _ R u Hu) as L. cbn zeta in L. rewrite L.
      destruct (Nat.eq_dec u t) as [->|Hne].
      + rewrite Hc, Hc', Nl. cbn [lpend flat_map]. rewrite <- !app_assoc. reflexivity.
      + destruct (ei_other u Hu Hne) as [O1 _]. rewrite O1, app_nil_r, (Ho u Hne). reflexivity.
    - intros u x Hu Hcu. rewrite Tp. apply Wk in Hu. destruct (Nat.eq_dec u t) as [->|E]; [exact (Hcur Hu x Hcu)|].
      rewrite (Ho u E) in Hcu. rewrite M2. apply in_or_app. left. apply (e_lscur _ _ _ R u x Hu Hcu).
    - intros q x. rewrite M3, M4, Uf, Pr. apply (e_lsdone _ _ _ R).
    - intros q. rewrite M5, Pr. intro H. destruct (e_term _ _ _ R q H) as [A [B [C [D E]]]].
      split; [apply NoE; exact A|]. split; [intros u x Hin; apply (B u x); apply Tps; exact Hin|].
      split; [intros m0 d Hin; apply (C m0 d); apply Hd; exact Hin|]. split; [intros m0 ms tm Hin; apply (D m0 ms tm); apply Huf; exact Hin|exact E].
    - intros m0 q Hin. apply Hd in Hin. destruct (e_hdel _ _ _ R m0 q Hin) as [A [B C]].
      split; [exact A|]. split; [apply NoE; exact B|]. intros u x H. apply (C u x). apply Tps. exact H.
    - intros q Hin. rewrite Pr. apply Htm in Hin. destruct (e_hterm _ _ _ R q Hin) as [A [B C]].
      split; [apply NoE; exact A|]. split; [|exact C]. intros u x H. apply (B u x). apply Tps. exact H.
    - intros i0 r0 j Hm Hj. unfold mcont in *. destruct (Nat.eq_dec main t) as [E|E]; [|rewrite (Ho main E) in Hm; apply (e_hpos _ _ _ R i0 r0 j Hm Hj)].
      rewrite E, Hc' in Hm. apply Nh. rewrite Hm. right. exact Hj.
    - intros u j Hu Hj. destruct (Nat.eq_dec u t) as [->|E]; [rewrite Hc' in Hj; apply Nh; exact Hj|rewrite (Ho u E) in Hj; apply (e_hmain _ _ _ R u j Hu Hj)].
    - intros u Hu. cbn zeta. rewrite Tp, M5, M6, Pp, Htm. apply Wk in Hu. intros H1 H2.
      pose proof (e_panic _ _ _ R u Hu H1 H2) as Pn. cbn zeta in Pn. set (q := tpipe (thr st u)) in *.
      destruct (Nat.eq_dec u t) as [->|Hne].
      + rewrite Hc', Hfin. rewrite Hc in Pn. cbn [app] in Pn. rewrite orb_true_iff, Pn, andb_true_iff, !in_app_iff.
        split.
        * intros [[H|H]|[H E]]; auto. right. right. left. apply Z.eqb_eq in H. rewrite E, H. left. reflexivity.
        * intros [H|[H|[H|H]]]; auto.
          -- exfalso. exact (Npn _ _ H).
          -- destruct pn eqn:Epn; [|destruct H]. destruct H as [H|[]]. unfold panic_i in H. injection H as _ E1.
             right. split; [rewrite E1; apply Z.eqb_refl|reflexivity].
      + destruct (ei_other u Hu Hne) as [_ O2]. fold q in O2. rewrite O2, orb_false_r, (Ho u Hne). exact Pn.
    - intros u q m0 a b E. rewrite Wk, Tp. destruct (Nat.eq_dec u t) as [->|Hne]; [|rewrite (Ho u Hne) in E; apply (e_porder _ _ _ R u q m0 a b E)].
      rewrite Hc', Hfin in E.
      destruct (split_quiet new _ a b _ (fun i0 H0 E0 => Npn m0 q (eq_ind _ (fun z => In z new) H0 _ E0)) E) as [a' [E1 E2]].
      destruct pn eqn:Epn.
      * destruct a' as [|a0 a''].
        -- cbn in E2. inversion E2; subst. destruct (Hsp (or_intror eq_refl)) as [W [T Hx]]. split; [reflexivity|]. split; [exact W|]. split; [symmetry; exact T|apply Hx; reflexivity].
        -- cbn in E2. inversion E2; subst a0. apply (e_porder _ _ _ R t q m0 a'' b). rewrite Hc. cbn. assumption.
      * cbn in E2. apply (e_porder _ _ _ R t q m0 a' b). rewrite Hc. exact E2.
    - intros m0 q ms b Hin. apply Huf in Hin. rewrite (e_ufterm _ _ _ R m0 q ms b Hin), M6.
      destruct (Z.eqb_spec q p0) as [->|Nq]; [|rewrite orb_false_r; reflexivity]. destruct pn eqn:Epn; [|rewrite orb_false_r; reflexivity].
      exfalso. destruct (Hsp (or_intror eq_refl)) as [W [T Hx]]. destruct (Hx eq_refl) as [x Hx'].
      destruct (e_hterm _ _ _ R p0) as [_ [B _]]; [exists m0, ms, b; exact Hin|]. apply (B t x). unfold tpushes. apply in_or_app. right. exact Hx'.
    - intros u Hu. rewrite Tp. apply Wk in Hu. destruct (e_wprog _ _ _ R u Hu) as [[x H]|H]; [left; exists x; apply Tps; exact H|right; apply Pg; exact H].
    - intros q. rewrite M7. intro H. apply Pg. apply (e_exited _ _ _ R q H).
  Qed.
End EIdle.

(** a thread is spawned; with [pp = true] it is the worker of the new pipe [q] *)
Section ESpawn.
  Variables (st st' : wstate) (m : m14) (t : tid) (q : Z) (pp : bool) (x0 bm0 : Z).
  Hypothesis R : ERel ENone st m.
  Hypothesis X : XInv st.
  Hypothesis Hn : nthr st' = S (nthr st).
  Hypothesis Ho : forall u, u <> nthr st -> thr st' u = thr st u.
  Hypothesis Hp0 : tcont (thr st (nthr st)) = [] /\ tfinal (thr st (nthr st)) = [].
  Hypothesis Hnc : tcont (thr st' (nthr st)) = [].
  Hypothesis Hnf : tfinal (thr st' (nthr st)) = if pp then [ILock MDL (LPush x0 bm0 (HPipe q))] else [].
  Hypothesis Hnp : tpipe (thr st' (nthr st)) = q.
  Hypothesis Hncu : tcur (thr st' (nthr st)) = None.
  Hypothesis Hq : 0 <= q <-> pp = true.
  Hypothesis Ht : (t < nthr st)%nat.
  Hypothesis Htc : (tcur (thr st t) = Some CSpawn /\ q < 0) \/ (tcur (thr st t) = Some (CPNew q) /\ 0 <= q).
  Hypothesis Hc : tcont (thr st t) = [].
  Hypothesis Hdl : dl st' = dl st.
  Hypothesis Hold : forall x h, slab_get (sl st) x = Some h -> slab_get (sl st') x = Some h.
  Hypothesis Hnewp : forall x q', slab_get (sl st') x = Some (HPipe q') -> slab_get (sl st) x = Some (HPipe q') \/ (pp = true /\ x = x0 /\ q' = q).
  Hypothesis Hpo : forall q', (pp = false \/ q' <> q) -> pps st' q' = pps st q'.
  Hypothesis Hpq : pp = true -> pexists (pps st q) = false /\ pexists (pps st' q) = true /\ precvq (pps st' q) = [] /\ ppanic (pps st' q) = false /\
                                slab_get (sl st') x0 = Some (HPipe q).

  Let u0 := nthr st.
  Ltac ppcase Ep := destruct (Bool.bool_dec pp true) as [Ep|Ep]; [|apply not_true_is_false in Ep].

  Lemma esp_wkr : forall u, wkr st' u <-> (u = u0 /\ pp = true) \/ (u <> u0 /\ wkr st u).
  Proof.
    intro u. unfold wkr. rewrite Hn. destruct (Nat.eq_dec u u0) as [->|E].
    - unfold u0. rewrite Hnp, Hq. split; [intros [_ H]; left; auto|intros [[_ H]|[H _]]; [split; [lia|exact H]|exfalso; apply H; reflexivity]].
    - rewrite (Ho u E). split; [intros [A B]; right; split; [exact E|split; [unfold u0 in E; lia|exact B]]|intros [[A _]|[_ [A B]]]; [contradiction|split; [lia|exact B]]].
  Qed.

  Lemma esp_pps : forall q', pexists (pps st q') = true -> pps st' q' = pps st q'.
  Proof.
    intros q' H. apply Hpo. ppcase Ep; [right|left; exact Ep]. intro E. subst q'. destruct (Hpq Ep) as [A _]. rewrite A in H. discriminate H.
  Qed.

  Lemma e_spawn : ERel (ESp t q) st' m.
  Proof.
    assert (Tne : t <> u0) by (unfold u0; lia).
    assert (Mne : main <> u0) by (unfold u0, main; destruct R as [_ _ _ _ _ _ _ _ _ _ _ _ _ _ _ _ _ _ _ _ _ _ _]; lia).
    assert (Mc : mcont st' = mcont st) by (unfold mcont; rewrite (Ho main Mne); reflexivity).
    assert (Pl : pipeline st' = pipeline st) by (unfold pipeline; rewrite Hdl; fold (mcont st') (mcont st); rewrite Mc; reflexivity).
    assert (Nb : b_nthr (m14_b m) = u0) by (apply (e_nthr _ _ _ R)).
    assert (Wold : forall u, wkr st u -> u <> u0) by (intros u [A _]; unfold u0; lia).
    assert (Tnew : tpushes (thr st' u0) = if pp then [(x0, HPipe q)] else []).
    { unfold tpushes, u0. rewrite Hnc, Hnf. ppcase Ep; rewrite Ep; reflexivity. }
    assert (NoQ : pp = true -> (forall x, slab_get (sl st) x <> Some (HPipe q)) /\ on_pipe q (m14_lsend m) = [] /\ on_pipe q (m14_fwd m) = [] /\
                  memZ q (m14_term m) = false /\ memZ q (m14_panic m) = false /\ memZ q (m14_exited m) = false /\ (forall x, ~ In (q, x) (m14_lsdone m))).
    { intro Ep. destruct (Hpq Ep) as [A _]. destruct (e_noex _ _ _ R q A) as [B1 [B2 [B3 [B4 [B5 [B6 [B7 [B8 B9]]]]]]]]. auto 10. }
    assert (Pg : forall q', prog14 st m q' -> prog14 st' m q').
    { intros q' [A|[[x [A B]]|[A|A]]]; [left; exact A|right; left; exists x; rewrite Pl; split; [exact A|apply Hold; exact B]
        |right; right; left; rewrite Mc; exact A|right; right; right; rewrite Mc; exact A]. }
    assert (NoE : forall q', pexists (pps st q') = true \/ pp = false \/ q' <> q -> (forall x, slab_get (sl st) x <> Some (HPipe q')) -> forall x, slab_get (sl st') x <> Some (HPipe q')).
    { intros q' Hq' H x G. destruct (Hnewp x q' G) as [G0|[Ep [_ Eq]]]; [exact (H x G0)|]. subst q'.
      destruct Hq' as [Hq'|[Hq'|Hq']]; [destruct (Hpq Ep) as [A _]; rewrite A in Hq'; discriminate Hq'|rewrite Ep in Hq'; discriminate Hq'|apply Hq'; reflexivity]. }
    assert (ExIns : forall q', ((exists m0 ms tm, In (IUnlock m0 (UPqFwd q' ms tm)) (mcont st)) \/ (exists m0 d, In (ILock m0 (LPqHandler q' d)) (mcont st))) ->
                    pexists (pps st q') = true) by (apply (e_ins _ _ _ R)).
    constructor.
    - apply (e_bad _ _ _ R).
    - rewrite Nb, Hn. reflexivity.
    - intros t0 q0 E. inversion E; subst t0 q0. rewrite Nb. unfold u0. split; [exact Hnp|]. rewrite (Ho t Tne). split; [exact Htc|exact Hc].
    - intros u q'. rewrite (e_owner _ _ _ R u q'), Nb. split; intros [A B]; (split; [exact A|]); (rewrite (Ho u) in * by (unfold u0 in A; lia)); exact B.
    - intros u u' Hu Hu' E. apply esp_wkr in Hu. apply esp_wkr in Hu'.
      destruct Hu as [[-> Ep]|[Nu Hu]]; destruct Hu' as [[-> Ep']|[Nu' Hu']]; [reflexivity| | |].
      + exfalso. unfold u0 in E. rewrite Hnp, (Ho u' Nu') in E. destruct (Hpq Ep) as [A _]. rewrite E, (e_wex _ _ _ R u' Hu') in A. discriminate A.
      + exfalso. unfold u0 in E. rewrite Hnp, (Ho u Nu) in E. destruct (Hpq Ep') as [A _]. rewrite <- E, (e_wex _ _ _ R u Hu) in A. discriminate A.
      + rewrite (Ho u Nu), (Ho u' Nu') in E. apply (e_wuniq _ _ _ R u u' Hu Hu' E).
    - intros u Hu. apply esp_wkr in Hu. destruct Hu as [[-> Ep]|[Nu Hu]].
      + unfold u0. rewrite Hnp. apply (Hpq Ep).
      + rewrite (Ho u Nu). pose proof (e_wex _ _ _ R u Hu) as A. rewrite (esp_pps _ A). exact A.
    - intros q' H. ppcase Ep.
      + destruct (Z.eq_dec q' q) as [->|Nq].
        * exists u0. split; [apply esp_wkr; left; auto|exact Hnp].
        * rewrite (Hpo q' (or_intror Nq)) in H. destruct (e_exw _ _ _ R q' H) as [u [A B]]. exists u. split; [apply esp_wkr; right; split; [apply Wold; exact A|exact A]|rewrite (Ho u (Wold u A)); exact B].
      + rewrite (Hpo q' (or_introl Ep)) in H. destruct (e_exw _ _ _ R q' H) as [u [A B]]. exists u. split; [apply esp_wkr; right; split; [apply Wold; exact A|exact A]|rewrite (Ho u (Wold u A)); exact B].
    - intros q' H.
      assert (Hc0 : pp = false \/ q' <> q).
      { ppcase Ep; [right|left; exact Ep]. intro E. subst q'. destruct (Hpq Ep) as [_ [A _]]. rewrite A in H. discriminate H. }
      rewrite (Hpo q' Hc0) in *. destruct (e_noex _ _ _ R q' H) as [E1 E2]. split; [|exact E2]. apply NoE; [right; exact Hc0|exact E1].
    - intros q' H. rewrite Mc in H. pose proof (ExIns q' H) as A. rewrite (esp_pps _ A). exact A.
    - intros x y q' G1 G2. destruct (Hnewp x q' G1) as [A|[Ep [E1 E2]]]; destruct (Hnewp y q' G2) as [B|[Ep' [F1 F2]]].
      + apply (e_uniq _ _ _ R x y q' A B).
      + exfalso. subst q'. destruct (NoQ Ep') as [Z0 _]. exact (Z0 x A).
      + exfalso. subst q'. destruct (NoQ Ep) as [Z0 _]. exact (Z0 y B).
      + subst. reflexivity.
    - intros u Hu. cbn zeta. apply esp_wkr in Hu. rewrite Mc. destruct Hu as [[-> Ep]|[Nu Hu]].
      + unfold u0. rewrite Hnp, Hnc. destruct (NoQ Ep) as [_ [A [B _]]]. destruct (Hpq Ep) as [Ex [_ [C _]]]. rewrite A, B, C. cbn [lpend flat_map app].
        destruct (ufw q (mcont st)) eqn:Eu; [reflexivity|exfalso].
        assert (Z0 : pexists (pps st q) = true).
        { apply ExIns. left. clear - Eu. induction (mcont st) as [|j k IH]; [discriminate Eu|].
          rewrite (ufw_cons q j k) in Eu. destruct (ufw q [j]) eqn:Ej.
          - destruct (IH Eu) as [m0 [ms [tm H]]]. exists m0, ms, tm. right. exact H.
          - destruct j; try discriminate Ej. destruct a; try discriminate Ej. cbn in Ej. destruct (Z.eqb_spec p q) as [->|]; [|discriminate Ej].
            exists m, msgs, term. left. reflexivity. }
        rewrite Z0 in Ex. discriminate Ex.
      + rewrite (Ho u Nu). pose proof (e_wex _ _ _ R u Hu) as A. rewrite (esp_pps _ A). apply (e_ls _ _ _ R u Hu).
    - intros u x Hu Hcu. apply esp_wkr in Hu. destruct Hu as [[-> Ep]|[Nu Hu]]; [unfold u0 in Hcu; rewrite Hncu in Hcu; discriminate Hcu|].
      rewrite (Ho u Nu) in *. apply (e_lscur _ _ _ R u x Hu Hcu).
    - intros q' x H. rewrite Mc. assert (Hc0 : pp = false \/ q' <> q).
      { ppcase Ep; [right|left; exact Ep]. intro E. subst q'. destruct (NoQ Ep) as [_ [_ [_ [_ [_ [_ Z0]]]]]]. exact (Z0 x H). }
      rewrite (Hpo q' Hc0). apply (e_lsdone _ _ _ R q' x H).
    - intros q' H. assert (Hc0 : pp = false \/ q' <> q).
      { ppcase Ep; [right|left; exact Ep]. intro E. subst q'. destruct (NoQ Ep) as [_ [_ [_ [Z0 _]]]]. rewrite Z0 in H. discriminate H. }
      destruct (e_term _ _ _ R q' H) as [A [B [C [D E]]]]. rewrite Mc, (Hpo q' Hc0).
      split; [apply NoE; [right; exact Hc0|exact A]|]. split; [|auto].
      intros u x Hin. destruct (Nat.eq_dec u u0) as [->|Nu]; [|rewrite (Ho u Nu) in Hin; exact (B u x Hin)].
      rewrite Tnew in Hin. ppcase Ep; rewrite Ep in Hin; [|destruct Hin]. destruct Hin as [Hin|[]]. injection Hin as _ Hin. destruct Hc0 as [Hc0|Hc0]; [rewrite Ep in Hc0; discriminate Hc0|apply Hc0; symmetry; exact Hin].
    - intros m0 q' Hin. rewrite Mc in Hin. destruct (e_hdel _ _ _ R m0 q' Hin) as [A [B C]].
      assert (Ex : pexists (pps st q') = true) by (apply ExIns; right; exists m0, true; exact Hin).
      split; [exact A|]. split; [apply NoE; [left; exact Ex|exact B]|].
      intros u x Hx. destruct (Nat.eq_dec u u0) as [->|Nu]; [|rewrite (Ho u Nu) in Hx; exact (C u x Hx)].
      rewrite Tnew in Hx. ppcase Ep; rewrite Ep in Hx; [|destruct Hx]. destruct Hx as [Hx|[]]. injection Hx as _ Hx. rewrite <- Hx in Ex. destruct (Hpq Ep) as [Z0 _]. rewrite Z0 in Ex. discriminate Ex.
    - intros q' Hin. rewrite Mc in Hin. destruct (e_hterm _ _ _ R q' Hin) as [A [B C]].
      assert (Ex : pexists (pps st q') = true) by (apply ExIns; left; destruct Hin as [m0 [ms [b H]]]; exists m0, ms, (Some b); exact H).
      rewrite (esp_pps _ Ex). split; [apply NoE; [left; exact Ex|exact A]|]. split; [|exact C].
      intros u x Hx. destruct (Nat.eq_dec u u0) as [->|Nu]; [|rewrite (Ho u Nu) in Hx; exact (B u x Hx)].
      rewrite Tnew in Hx. ppcase Ep; rewrite Ep in Hx; [|destruct Hx]. destruct Hx as [Hx|[]]. injection Hx as _ Hx. rewrite <- Hx in Ex. destruct (Hpq Ep) as [Z0 _]. rewrite Z0 in Ex. discriminate Ex.
    - rewrite Mc. apply (e_hpos _ _ _ R).
    - intros u j Hu Hj. destruct (Nat.eq_dec u u0) as [->|Nu]; [unfold u0 in Hj; rewrite Hnc in Hj; destruct Hj|rewrite (Ho u Nu) in Hj; apply (e_hmain _ _ _ R u j Hu Hj)].
    - intros u Hu. cbn zeta. apply esp_wkr in Hu. rewrite Mc. destruct Hu as [[-> Ep]|[Nu Hu]].
      + unfold u0. rewrite Hnp, Hnc, Hnf, Ep. destruct (NoQ Ep) as [_ [_ [_ [_ [Z0 _]]]]]. destruct (Hpq Ep) as [_ [_ [_ [Z1 _]]]]. rewrite Z0, Z1. intros _ _.
        split; [intro H; discriminate H|intros [H|H]; [discriminate H|]]. cbn in H. destruct H as [H|[]]. discriminate H.
      + rewrite (Ho u Nu). pose proof (e_wex _ _ _ R u Hu) as A. rewrite (esp_pps _ A). apply (e_panic _ _ _ R u Hu).
    - intros u q' m0 a b E. destruct (Nat.eq_dec u u0) as [->|Nu].
      + exfalso. unfold u0 in E. rewrite Hnc, Hnf in E. ppcase Ep; rewrite Ep in E; [|destruct a; discriminate E].
        destruct a as [|a0 [|a1 a]]; cbn in E; discriminate E.
      + rewrite (Ho u Nu) in *. destruct (e_porder _ _ _ R u q' m0 a b E) as [A [B [C D]]]. split; [exact A|]. split; [apply esp_wkr; right; auto|auto].
    - intros m0 q' ms b Hin. rewrite Mc in Hin. apply (e_ufterm _ _ _ R m0 q' ms b Hin).
    - intros u Hu. apply esp_wkr in Hu. destruct Hu as [[-> Ep]|[Nu Hu]].
      + left. exists x0. rewrite Tnew, Ep. unfold u0. rewrite Hnp. left. reflexivity.
      + rewrite (Ho u Nu). destruct (e_wprog _ _ _ R u Hu) as [A|A]; [left; exact A|right; apply Pg; exact A].
    - intros q' H. apply Pg. apply (e_exited _ _ _ R q' H).
  Qed.
End ESpawn.

Lemma e_msame : forall p st m m', ERel p st m -> r14_same m m' -> ERel p st m'.
Proof.
  intros p st m m' R [M1 M2 M3 M4 M5 M6 M7 M8 M9].
  assert (Pg : forall q, prog14 st m' q <-> prog14 st m q) by (intro q; unfold prog14; rewrite M5; tauto).
  constructor.
  - rewrite M8. apply (e_bad _ _ _ R).
  - rewrite M9. apply (e_nthr _ _ _ R).
  - rewrite M9. apply (e_sp _ _ _ R).
  - rewrite M1, M9. apply (e_owner _ _ _ R).
  - apply (e_wuniq _ _ _ R).
  - apply (e_wex _ _ _ R).
  - apply (e_exw _ _ _ R).
  - rewrite M2, M4, M5, M6, M7, M3. apply (e_noex _ _ _ R).
  - apply (e_ins _ _ _ R).
  - apply (e_uniq _ _ _ R).
  - rewrite M2, M4. apply (e_ls _ _ _ R).
  - rewrite M2. apply (e_lscur _ _ _ R).
  - rewrite M3, M4. apply (e_lsdone _ _ _ R).
  - rewrite M5. apply (e_term _ _ _ R).
  - apply (e_hdel _ _ _ R).
  - apply (e_hterm _ _ _ R).
  - apply (e_hpos _ _ _ R).
  - apply (e_hmain _ _ _ R).
  - rewrite M5, M6. apply (e_panic _ _ _ R).
  - apply (e_porder _ _ _ R).
  - rewrite M6. apply (e_ufterm _ _ _ R).
  - intros u Hu. destruct (e_wprog _ _ _ R u Hu) as [A|A]; [left; exact A|right; apply Pg; exact A].
  - rewrite M7. intros q H. apply Pg. apply (e_exited _ _ _ R q H).
Qed.

Lemma e_idle_same : forall st st' m m' t new,
  ERel ENone st m -> r14_same m m' -> nthr st' = nthr st -> (forall u, u <> t -> thr st' u = thr st u) ->
  tcont (thr st t) = [] -> tcont (thr st' t) = new -> (forall j, In j new -> eqi j) -> cont_dels new = [] ->
  tpipe (thr st' t) = tpipe (thr st t) -> tfinal (thr st' t) = tfinal (thr st t) ->
  (wkr st t -> forall x, tcur (thr st' t) <> Some (CLSend x)) -> dl st' = dl st ->
  (forall x h, slab_get (sl st) x = Some h -> slab_get (sl st') x = Some h) ->
  (forall x q, slab_get (sl st') x = Some (HPipe q) -> slab_get (sl st) x = Some (HPipe q)) ->
  ppsame st st' -> ERel ENone st' m'.
Proof.
  intros st st' m m' t new R [M1 M2 M3 M4 M5 M6 M7 M8 M9] Hn Ho Hc Hc' Hnew Hnd Htp Hfin Hcur Hdl Hold Hpipe Hpp.
  destruct (eqi_list new Hnew) as [Nl [Nu [Np Nh]]].
  apply (e_idle st st' m m' t new 0 [] false); auto.
  - intro q. rewrite M2. destruct (q =? 0); rewrite app_nil_r; reflexivity.
  - intro q. rewrite M6, andb_false_r, orb_false_r. reflexivity.
  - intro q. rewrite Nl. destruct (q =? 0); reflexivity.
  - intros m0 q Hin. exact (proj2 (proj2 (proj2 (proj2 (eqi_facts _ (Hnew _ Hin))))) m0 q eq_refl).
  - intros W x Hx. exfalso. exact (Hcur W x Hx).
  - intros [H|H]; [exfalso; apply H; reflexivity|discriminate H].
Qed.

(** bulk creation of plain wakers: no pipe handler appears *)
Lemma fill_loop_slab : forall n st ev st' ev',
  CInv (core st) -> fill_loop n st ev = (st', ev') ->
  (forall x h, slab_get (sl st) x = Some h -> slab_get (sl st') x = Some h) /\
  (forall x q, slab_get (sl st') x = Some (HPipe q) -> slab_get (sl st) x = Some (HPipe q)) /\
  thr st' = thr st /\ dl st' = dl st /\ pps st' = pps st /\ nthr st' = nthr st.
Proof.
  induction n as [|n IH]; intros st ev st' ev' I H; cbn [fill_loop] in H.
  - inversion H; subst. repeat split; auto.
  - destruct (wh_add st (HPlain (1000000 + nfill st))) as [[st1 wi]|] eqn:E; [|inversion H; subst; repeat split; auto].
    assert (Hh : HPlain (1000000 + nfill st) <> HReserved) by discriminate.
    destruct (wh_add_post st _ st1 wi I Hh E) as [Hfresh [Hget [Hold [Ed [Et [En [Ew [Eu [Ec Ep]]]]]]]]].
    pose proof (wh_add_new st _ st1 wi I Hh E) as Hnew.
    assert (I1 : CInv (core st1)) by (eapply (add_model st _ st1 wi I); [|exact E]; discriminate).
    assert (I2 : CInv (core (set_nfill st1 (nfill st + 1)))) by (eapply CInv_ceq; [|exact I1]; same_core).
    destruct (IH _ _ _ _ I2 H) as [A1 [A2 [A3 [A4 [A5 A6]]]]]. split; [|split; [|split; [|split; [|split]]]].
    + intros x h G. apply A1. apply Hold. exact G.
    + intros x q G. apply A2 in G. destruct (Hnew x _ G) as [G0|[[_ G0]|G0]]; [exact G0|discriminate G0|discriminate G0].
    + rewrite A3. exact Et.
    + rewrite A4. exact Ed.
    + rewrite A5. exact Ep.
    + rewrite A6. exact En.
Qed.

Definition cmd_ok (c : cmd) : Prop := match c with CPNew q => 0 <= q | _ => True end.
Definition pendE (t : tid) (c : cmd) (done : option retv) : epend :=
  match c, done with CSpawn, Some RUnit => ESp t (-1) | CPNew q, Some RUnit => ESp t q | _, _ => ENone end.

Lemma ghost_c14_plain : forall e, plain e -> is_ghost e = true -> c14_plain e.
Proof. intros e P G. destruct e; cbn in *; try contradiction; try discriminate; auto. Qed.

Lemma owner_of : forall st m u, ERel ENone st m -> (u < nthr st)%nat ->
  get_tid u (m14_owner m) = if 0 <=? tpipe (thr st u) then Some (tpipe (thr st u)) else None.
Proof.
  intros st m u R Hu. pose proof (e_nthr _ _ _ R) as Nb. cbn in Nb.
  destruct (Z.leb_spec 0 (tpipe (thr st u))) as [L|L].
  - apply (e_owner _ _ _ R). rewrite Nb. auto.
  - destruct (get_tid u (m14_owner m)) as [q|] eqn:E; [|reflexivity]. apply (e_owner _ _ _ R) in E. lia.
Qed.

Ltac eid s0 t R S1 Hc Hcu new :=
  apply (e_idle_same s0 _ _ _ t new R S1);
  [ reflexivity | intros ? ?; thr_simpl | exact Hc | thr_simpl | pe_q | reflexivity | thr_simpl | thr_simpl
  | intros _ ?; cbn -[Nat.eqb]; unfold updN, th; rewrite ?Nat.eqb_refl; cbn -[Nat.eqb]; unfold updN, th; rewrite ?Nat.eqb_refl; cbn -[Nat.eqb]; unfold th in Hcu; rewrite ?Hcu; discriminate
  | reflexivity | intros ? ? ?; assumption | intros ? ? ?; assumption | pe_pp ].

Lemma begin_E : forall s0 m t c cs st2 ev0 done,
  CInv (core s0) -> pristine s0 -> wfi s0 -> SlInv s0 -> PqInv s0 -> XInv s0 -> ERel ENone s0 m -> (t < nthr s0)%nat ->
  tcont (thr s0 t) = [] -> tscript (thr s0 t) = c :: cs -> cmd_ok c ->
  begin_cmd (upd_th s0 t (set_tret (set_tcur (set_tscript (th s0 t) cs) (Some c)) RUnit)) t c = (st2, ev0, done) ->
  ERel (pendE t c done) st2 (fold_left m14r_step (evs t (ECmd c :: ev0)) m).
Proof.
  intros s0 m t c cs st2 ev0 done I P Wf S Q X R Ht Hc Hs Hok H.
  set (s1 := upd_th s0 t (set_tret (set_tcur (set_tscript (th s0 t) cs) (Some c)) RUnit)) in *.
  assert (P1 : pristine s1) by (unfold s1; prist s0 t).
  assert (I1 : CInv (core s1)) by (eapply CInv_ceq; [|exact I]; unfold s1; same_core).
  destruct (begin_cmd_sum s1 t c st2 ev0 done P1 Ht H) as [Hpl _].
  assert (Pev : forall e, In e ev0 -> c14_plain e) by (intros e He; destruct (Hpl e He); apply ghost_c14_plain; assumption).
  change (evs t (ECmd c :: ev0)) with ((t, ECmd c) :: evs t ev0). cbn [fold_left].
  set (m1 := m14r_step m (t, ECmd c)).
  apply (e_msame _ _ m1); [|apply m14r_plain_fold; exact Pev].
  assert (Own : get_tid t (m14_owner m) = if 0 <=? tpipe (thr s0 t) then Some (tpipe (thr s0 t)) else None) by (apply owner_of; auto).
  assert (Tp1 : tpipe (th s1 t) = tpipe (thr s0 t)) by (unfold s1; thr_simpl).
  (* the install alone *)
  assert (Inst : (forall x, c <> CLSend x) -> c <> CPanic -> ERel ENone s1 m1).
  { intros N1 N2. assert (S1 : r14_same m m1) by (apply m14r_plain_step; destruct c; try exact Logic.I; [exfalso; eapply N1; reflexivity|exfalso; apply N2; reflexivity]).
    unfold s1. apply (e_idle_same s0 _ _ _ t [] R S1);
      [reflexivity|intros ? ?; thr_simpl|exact Hc|thr_simpl; exact Hc|intros ? []|reflexivity|thr_simpl|thr_simpl| |reflexivity
      |intros ? ? G; exact G|intros ? ? G; exact G|intro q; repeat split; reflexivity].
    intros _ x. cbn -[Nat.eqb]. unfold updN, th. rewrite Nat.eqb_refl. cbn. intro E. inversion E. eapply N1; eauto. }
  assert (Plain : forall new, (forall x, c <> CLSend x) -> c <> CPanic -> st2 = set_cont s1 t new \/ (st2 = s1 /\ new = []) ->
                  (forall j, In j new -> eqi j) -> cont_dels new = [] -> ERel ENone st2 m1).
  { intros new N1 N2 Est Hq Hd. pose proof (Inst N1 N2) as R1.
    destruct Est as [->|[-> ->]]; [|exact R1].
    apply (e_idle_same s1 _ m1 m1 t new R1 (r14_same_refl m1));
      [reflexivity|intros ? ?; thr_simpl|unfold s1; thr_simpl; exact Hc|thr_simpl|exact Hq|exact Hd|thr_simpl|thr_simpl| |reflexivity
      |intros ? ? G; exact G|intros ? ? G; exact G|intro q; repeat split; reflexivity].
    intros _ x. unfold s1. cbn -[Nat.eqb]. unfold updN, th. rewrite ?Nat.eqb_refl. cbn -[Nat.eqb]. unfold updN, th. rewrite ?Nat.eqb_refl. cbn -[Nat.eqb]. intro E. inversion E. eapply N1; eauto. }
  assert (Hc1 : tcont (thr s1 t) = []) by (unfold s1; thr_simpl; exact Hc).
  assert (Ht1 : (t < nthr s1)%nat) by exact Ht.
  assert (Hcu1 : tcur (thr s1 t) = Some c) by (unfold s1; thr_simpl).
  destruct c as [w|w|c0 x|c0|w|n| | | | | |c0|c0|p0|p0 x|p0| |x| | ]; cbn [begin_cmd pendE] in *.
  - (* CWake *)
    destruct (wreg s1 w) as [wi|]; [|inversion H; subst; apply (Plain []); auto; try (intros; discriminate); intros j []].
    destruct (climb_start s1 wi (Some (HPlain w))) as [i|] eqn:E; inversion H; subst; clear H;
      [|apply (Plain []); auto; try (intros; discriminate); intros j []].
    apply climb_at_climb in E. destruct E as [k ->].
    pose proof (Inst ltac:(intros; discriminate) ltac:(discriminate)) as R1.
    eid s1 t R1 (r14_same_refl m1) Hc1 Hcu1 [IClimb k].
  - (* CDropW *)
    pose proof (Inst ltac:(intros; discriminate) ltac:(discriminate)) as R1.
    destruct (wreg s1 w) as [wi|] eqn:Ew; [|inversion H; subst; exact R1].
    destruct (wbusy s1 w); inversion H; subst; clear H.
    + eid s1 t R1 (r14_same_refl m1) Hc1 Hcu1 [ILock MDL (LPush (wbit wi) (wbm wi) (HPlain w))].
    + eid s1 t R1 (r14_same_refl m1) Hc1 Hcu1 (@nil instr).
  - destruct (Waker.creg (chs s1 c0)); inversion H; subst; clear H;
      [apply (Plain [ILock (MCh c0) (LChSend c0 x)])|apply (Plain [])]; auto; try (intros; discriminate); try pe_q.
  - destruct (Waker.creg (chs s1 c0)); inversion H; subst; clear H;
      [apply (Plain [ILock (MCh c0) (LChClosed c0)])|apply (Plain [])]; auto; try (intros; discriminate); try pe_q.
  - (* CNew *)
    pose proof (Inst ltac:(intros; discriminate) ltac:(discriminate)) as R1.
    destruct (negb (is_main t) || wused s1 w || (1000000 <=? w) || (w <? 0)); [inversion H; subst; exact R1|].
    destruct (wh_add s1 (HPlain w)) as [[sa wi]|] eqn:E; inversion H; subst; clear H; [|exact R1].
    assert (Hh : HPlain w <> HReserved) by discriminate.
    destruct (wh_add_post s1 _ sa wi I1 Hh E) as [Hfresh [Hget [Hold [Ed [Et [En [Ew [Eu [Ec Ep]]]]]]]]].
    pose proof (wh_add_new s1 _ sa wi I1 Hh E) as Hnew.
    apply (e_idle_same s1 _ m1 m1 t [] R1 (r14_same_refl m1));
      [exact En|intros u Hu; cbn; rewrite Et; reflexivity|exact Hc1|cbn; rewrite Et; exact Hc1|intros ? []|reflexivity
      |cbn; rewrite Et; reflexivity|cbn; rewrite Et; reflexivity|intros _ x0; cbn; rewrite Et, Hcu1; discriminate|exact Ed
      |intros x0 h0 G; cbn; apply Hold; exact G| |intro q; cbn; rewrite Ep; repeat split; reflexivity].
    intros x0 q G. cbn in G. destruct (Hnew x0 _ G) as [G0|[[_ G0]|G0]]; [exact G0|discriminate G0|discriminate G0].
  - (* CFill *)
    pose proof (Inst ltac:(intros; discriminate) ltac:(discriminate)) as R1.
    destruct (negb (is_main t)); [inversion H; subst; exact R1|].
    destruct (fill_loop (Z.to_nat n) s1 []) as [sa ev1] eqn:E. inversion H; subst; clear H.
    destruct (fill_loop_slab _ _ _ _ _ I1 E) as [A1 [A2 [A3 [A4 [A5 A6]]]]].
    apply (e_idle_same s1 _ m1 m1 t [] R1 (r14_same_refl m1));
      [exact A6|intros u Hu; rewrite A3; reflexivity|exact Hc1|rewrite A3; exact Hc1|intros ? []|reflexivity
      |rewrite A3; reflexivity|rewrite A3; reflexivity|intros _ x0; rewrite A3, Hcu1; discriminate|exact A4
      |exact A1|exact A2|intro q; rewrite A5; repeat split; reflexivity].
  - pose proof (Inst ltac:(intros; discriminate) ltac:(discriminate)) as R1.
    destruct (negb (is_main t)); inversion H; subst; clear H; [exact R1|]. eid s1 t R1 (r14_same_refl m1) Hc1 Hcu1 [ITopSwap; IRun].
  - (* CPollIf *)
    pose proof (Inst ltac:(intros; discriminate) ltac:(discriminate)) as R1.
    destruct (negb (is_main t)); [inversion H; subst; exact R1|].
    destruct (gnotified s1); inversion H; subst; clear H; [|exact R1]. eid s1 t R1 (r14_same_refl m1) Hc1 Hcu1 [ITopSwap; IRun].
  - (* CSpawn *)
    pose proof (Inst ltac:(intros; discriminate) ltac:(discriminate)) as R1.
    destruct (negb (is_main t)); inversion H; subst; clear H; [exact R1|].
    apply (e_spawn s1 _ m1 t (-1) false 0 0 R1);
      [reflexivity
      |intros u Hu; cbn -[Nat.eqb]; unfold updN, th; match goal with |- context [Nat.eqb ?a ?b] => destruct (Nat.eqb_spec a b) as [Y|Y] end; [exfalso; apply Hu; exact Y|reflexivity]
      |cbn -[Nat.eqb]; unfold updN, th; rewrite Nat.eqb_refl; reflexivity
      |cbn -[Nat.eqb]; unfold updN, th; rewrite Nat.eqb_refl; reflexivity
      |cbn -[Nat.eqb]; unfold updN, th; rewrite Nat.eqb_refl; reflexivity
      |cbn -[Nat.eqb]; unfold updN, th; rewrite Nat.eqb_refl; reflexivity
      |split; [intro L; exfalso; lia|intro L; discriminate L]
      |exact Ht|left; split; [exact Hcu1|lia]|exact Hc1|reflexivity|intros ? ? G; exact G|intros ? ? G; left; exact G|intros; reflexivity|intro L; discriminate L].
  - pose proof (Inst ltac:(intros; discriminate) ltac:(discriminate)) as R1.
    destruct (negb (is_main t)); inversion H; subst; clear H; [exact R1|]. eid s1 t R1 (r14_same_refl m1) Hc1 Hcu1 [IJoin].
  - pose proof (Inst ltac:(intros; discriminate) ltac:(discriminate)) as R1.
    destruct (negb (is_main t)); inversion H; subst; clear H; [exact R1|]. eid s1 t R1 (r14_same_refl m1) Hc1 Hcu1 [IIdle].
  - (* CCNew *)
    pose proof (Inst ltac:(intros; discriminate) ltac:(discriminate)) as R1. clear Inst Plain. clearbody s1.
    destruct (negb (is_main t) || cexists (chs s1 c0)); [inversion H; subst; exact R1|].
    destruct (wh_add s1 (HChan c0)) as [[sa wi]|] eqn:E; inversion H; subst; clear H; [|exact R1].
    assert (Hh : HChan c0 <> HReserved) by discriminate.
    destruct (wh_add_post s1 _ sa wi I1 Hh E) as [Hfresh [Hget [Hold [Ed [Et [En [Ew [Eu [Ec Ep]]]]]]]]].
    pose proof (wh_add_new s1 _ sa wi I1 Hh E) as Hnew.
    apply (e_idle_same s1 _ m1 m1 t [ILock (MCh c0) (LChInit c0)] R1 (r14_same_refl m1));
      [exact En|intros u Hu; cbn -[Nat.eqb]; unfold updN, th; destruct (Nat.eqb_spec u t); [contradiction|]; cbn; rewrite Et; reflexivity|exact Hc1
      |cbn -[Nat.eqb]; unfold updN, th; rewrite Nat.eqb_refl; reflexivity|pe_q|reflexivity
      |cbn -[Nat.eqb]; unfold updN, th; rewrite Nat.eqb_refl; cbn; rewrite Et; reflexivity
      |cbn -[Nat.eqb]; unfold updN, th; rewrite Nat.eqb_refl; cbn; rewrite Et; reflexivity
      |intros _ x0; cbn -[Nat.eqb]; unfold updN, th; rewrite Nat.eqb_refl; cbn; rewrite Et; unfold th in Hcu1; rewrite Hcu1; discriminate|exact Ed
      |intros x0 h0 G; cbn; apply Hold; exact G| |intro q; cbn; rewrite Ep; repeat split; reflexivity].
    intros x0 q G. cbn in G. destruct (Hnew x0 _ G) as [G0|[[_ G0]|G0]]; [exact G0|discriminate G0|discriminate G0].
  - (* CCDrop *)
    pose proof (Inst ltac:(intros; discriminate) ltac:(discriminate)) as R1.
    destruct (negb (is_main t) || negb (cguard (chs s1 c0))); inversion H; subst; clear H; [exact R1|].
    eid s1 t R1 (r14_same_refl m1) Hc1 Hcu1 [ILock (MCh c0) (LChClose c0)].
  - (* CPNew *)
    pose proof (Inst ltac:(intros; discriminate) ltac:(discriminate)) as R1. clear Inst Plain. clearbody s1.
    destruct (negb (is_main t) || pexists (pps s1 p0)) eqn:Eg; [inversion H; subst; exact R1|].
    apply orb_false_iff in Eg. destruct Eg as [_ Eex].
    destruct (wh_add s1 (HPipe p0)) as [[sa wi]|] eqn:E; inversion H; subst; clear H; [|exact R1].
    assert (Hh : HPipe p0 <> HReserved) by discriminate.
    destruct (wh_add_post s1 _ sa wi I1 Hh E) as [Hfresh [Hget [Hold [Ed [Et [En [Ew [Eu [Ec Ep]]]]]]]]].
    pose proof (wh_add_new s1 _ sa wi I1 Hh E) as Hnew.
    apply (e_spawn s1 _ m1 t p0 true (wbit wi) (wbm wi) R1).
    + cbn. rewrite En. reflexivity.
    + intros u Hu. cbn -[Nat.eqb]. unfold updN, th. rewrite En. destruct (Nat.eqb_spec u (nthr s1)) as [Y|Y]; [exfalso; apply Hu; exact Y|]. cbn. rewrite Et. reflexivity.
    + cbn -[Nat.eqb]. unfold updN, th. rewrite En, Nat.eqb_refl. reflexivity.
    + cbn -[Nat.eqb]. unfold updN, th. rewrite En, Nat.eqb_refl. reflexivity.
    + cbn -[Nat.eqb]. unfold updN, th. rewrite En, Nat.eqb_refl. reflexivity.
    + cbn -[Nat.eqb]. unfold updN, th. rewrite En, Nat.eqb_refl. reflexivity.
    + split; [reflexivity|intros _; exact Hok].
    + exact Ht1.
    + right. split; [exact Hcu1|exact Hok].
    + exact Hc1.
    + cbn. exact Ed.
    + intros x0 h0 G. cbn. apply Hold. exact G.
    + intros x0 q' G. cbn in G. destruct (Hnew x0 _ G) as [G0|[[G1 G0]|G0]]; [left; exact G0| |discriminate G0].
      inversion G0; subst. right. auto.
    + intros q' [Y|Y]; [discriminate Y|]. cbn. unfold updZ. destruct (Z.eqb_spec q' p0); [contradiction|]. rewrite Ep. reflexivity.
    + intros _. split; [exact Eex|]. cbn. unfold updZ. rewrite Z.eqb_refl. cbn. repeat split; try reflexivity. exact Hget.
  - pose proof (Inst ltac:(intros; discriminate) ltac:(discriminate)) as R1.
    destruct (negb (is_main t) || negb (phandle (pps s1 p0))); inversion H; subst; clear H; [exact R1|].
    eid s1 t R1 (r14_same_refl m1) Hc1 Hcu1 [ILock (MPq p0) (LPqSend p0 x)].
  - pose proof (Inst ltac:(intros; discriminate) ltac:(discriminate)) as R1.
    destruct (negb (is_main t) || negb (phandle (pps s1 p0))); inversion H; subst; clear H; [exact R1|].
    eid s1 t R1 (r14_same_refl m1) Hc1 Hcu1 [ILock (MPq p0) (LPqCancelSet p0)].
  - pose proof (Inst ltac:(intros; discriminate) ltac:(discriminate)) as R1.
    destruct (tpipe (th s1 t) <? 0); inversion H; subst; clear H; [exact R1|].
    eid s1 t R1 (r14_same_refl m1) Hc1 Hcu1 [ILock (MPq (tpipe (th s1 t))) (LPqRecv (tpipe (th s1 t)))].
  - (* CLSend *)
    assert (Tf1 : tfinal (thr s1 t) = tfinal (thr s0 t)) by (unfold s1; thr_simpl).
    destruct (Z.ltb_spec (tpipe (th s1 t)) 0) as [L|L]; inversion H; subst st2 ev0 done; clear H.
    + (* not a worker: the monitor does not attribute the command to a pipe *)
      rewrite Tp1 in L. assert (Ow : get_tid t (m14_owner m) = None) by (rewrite Own; destruct (Z.leb_spec 0 (tpipe (thr s0 t))); [lia|reflexivity]).
      assert (S1 : r14_same m m1).
      { unfold m1, m14r_step, m14_step. cbn. rewrite Ow. constructor; reflexivity. }
      unfold s1. apply (e_idle_same s0 _ _ _ t [] R S1);
        [reflexivity|intros ? ?; thr_simpl|exact Hc|thr_simpl; exact Hc|intros ? []|reflexivity|thr_simpl|thr_simpl| |reflexivity
        |intros ? ? G; exact G|intros ? ? G; exact G|intro q; repeat split; reflexivity].
      intros [_ W]. lia.
    + rewrite Tp1 in *. set (p := tpipe (thr s0 t)) in *.
      assert (Ow : get_tid t (m14_owner m) = Some p) by (rewrite Own; destruct (Z.leb_spec 0 p); [reflexivity|lia]).
      assert (Em1 : m14_owner m1 = m14_owner m /\ m14_lsend m1 = m14_lsend m ++ [(p, x)] /\ m14_lsdone m1 = m14_lsdone m /\ m14_fwd m1 = m14_fwd m /\
                    m14_term m1 = m14_term m /\ m14_panic m1 = m14_panic m /\ m14_exited m1 = m14_exited m /\ m14_bad m1 = m14_bad m /\
                    b_nthr (m14_b m1) = b_nthr (m14_b m)).
      { unfold m1, m14r_step, m14_step. cbn. rewrite Ow. cbn. repeat split; reflexivity. }
      destruct Em1 as [E1 [E2 [E3 [E4 [E5 [E6 [E7 [E8 E9]]]]]]]].
      apply (e_idle s0 _ m m1 t [ILock (MPq p) (LPqLSend p x)] p [x] false R);
        [exact E1| |exact E3|exact E4|exact E5| |exact E7|exact E8|exact E9|reflexivity
        |intros u Hu; unfold s1; thr_simpl|exact Hc|unfold s1; thr_simpl| | | | | |reflexivity
        |unfold s1; thr_simpl| | | |reflexivity|intros ? ? G; exact G|intros ? ? G; exact G|intro q; repeat split; reflexivity].
      * intro q. rewrite E2, on_pipe_app. cbn. rewrite (Z.eqb_sym p q). destruct (q =? p); reflexivity.
      * intro q. rewrite E6, andb_false_r, orb_false_r. reflexivity.
      * intro q. cbn. rewrite (Z.eqb_sym p q). destruct (q =? p); reflexivity.
      * intro q. reflexivity.
      * intros x0 q [].
      * intros j [<-|[]]. exact Logic.I.
      * intros m0 q [X0|[]]. discriminate X0.
      * unfold s1. cbn -[Nat.eqb]. unfold updN, th. rewrite ?Nat.eqb_refl. cbn -[Nat.eqb]. unfold updN, th. rewrite ?Nat.eqb_refl. reflexivity.
      * intros _ x0 Hx. rewrite E2, on_pipe_app. apply in_or_app. right. cbn. rewrite Z.eqb_refl.
        revert Hx. unfold s1. cbn -[Nat.eqb]. unfold updN, th. rewrite ?Nat.eqb_refl. cbn -[Nat.eqb]. unfold updN, th. rewrite ?Nat.eqb_refl. cbn. intro Hx. inversion Hx. left. reflexivity.
      * intros _. split; [split; [exact Ht|exact L]|]. split; [reflexivity|intro Y; discriminate Y].
  - pose proof (Inst ltac:(intros; discriminate) ltac:(discriminate)) as R1.
    destruct (tpipe (th s1 t) <? 0); inversion H; subst; clear H; [exact R1|].
    eid s1 t R1 (r14_same_refl m1) Hc1 Hcu1 [ILock (MPq (tpipe (th s1 t))) (LPqCancelGet (tpipe (th s1 t)))].
  - (* CPanic *)
    destruct (Z.ltb_spec (tpipe (th s1 t)) 0) as [L|L]; inversion H; subst st2 ev0 done; clear H.
    + rewrite Tp1 in L. assert (Ow : get_tid t (m14_owner m) = None) by (rewrite Own; destruct (Z.leb_spec 0 (tpipe (thr s0 t))); [lia|reflexivity]).
      assert (S1 : r14_same m m1).
      { unfold m1, m14r_step, m14_step. cbn. rewrite Ow. constructor; reflexivity. }
      unfold s1. apply (e_idle_same s0 _ _ _ t [] R S1);
        [reflexivity|intros ? ?; thr_simpl|exact Hc|thr_simpl; exact Hc|intros ? []|reflexivity|thr_simpl|thr_simpl| |reflexivity
        |intros ? ? G; exact G|intros ? ? G; exact G|intro q; repeat split; reflexivity].
      intros _ x0. cbn -[Nat.eqb]. unfold updN, th. rewrite ?Nat.eqb_refl. cbn. discriminate.
    + rewrite Tp1 in *. set (p := tpipe (thr s0 t)) in *.
      assert (Ow : get_tid t (m14_owner m) = Some p) by (rewrite Own; destruct (Z.leb_spec 0 p); [reflexivity|lia]).
      assert (Em1 : m14_owner m1 = m14_owner m /\ m14_lsend m1 = m14_lsend m /\ m14_lsdone m1 = m14_lsdone m /\ m14_fwd m1 = m14_fwd m /\
                    m14_term m1 = m14_term m /\ m14_panic m1 = p :: m14_panic m /\ m14_exited m1 = m14_exited m /\ m14_bad m1 = m14_bad m /\
                    b_nthr (m14_b m1) = b_nthr (m14_b m)).
      { unfold m1, m14r_step, m14_step. cbn. rewrite Ow. cbn. repeat split; reflexivity. }
      destruct Em1 as [E1 [E2 [E3 [E4 [E5 [E6 [E7 [E8 E9]]]]]]]].
      destruct (pk s0 Q t Ht L) as [_ Hpush]; [right; unfold th in Hs; rewrite Hs; discriminate|].
      apply (e_idle s0 _ m m1 t [] p [] true R);
        [exact E1| |exact E3|exact E4|exact E5| |exact E7|exact E8|exact E9|reflexivity
        |intros u Hu; unfold s1; thr_simpl| exact Hc | | | | | | |reflexivity
        | | | | |reflexivity|intros ? ? G; exact G|intros ? ? G; exact G|intro q; repeat split; reflexivity].
      * intro q. rewrite E2. destruct (q =? p); rewrite app_nil_r; reflexivity.
      * intro q. rewrite E6. unfold memZ. cbn. rewrite andb_true_r, orb_comm, (Z.eqb_sym p q). reflexivity.
      * unfold s1. cbn -[Nat.eqb]. unfold updN, th. rewrite ?Nat.eqb_refl. cbn -[Nat.eqb]. unfold updN, th. rewrite ?Nat.eqb_refl. cbn. exact Hc.
      * intro q. destruct (q =? p); reflexivity.
      * intro q. reflexivity.
      * intros x0 q [].
      * intros j [].
      * intros m0 q [].
      * unfold s1. cbn -[Nat.eqb]. unfold updN, th. rewrite ?Nat.eqb_refl. cbn -[Nat.eqb]. unfold updN, th. rewrite ?Nat.eqb_refl. reflexivity.
      * unfold s1. cbn -[Nat.eqb]. unfold updN, th. rewrite ?Nat.eqb_refl. cbn -[Nat.eqb]. unfold updN, th. rewrite ?Nat.eqb_refl. reflexivity.
      * intros _ x0. unfold s1. cbn -[Nat.eqb]. unfold updN, th. rewrite ?Nat.eqb_refl. cbn -[Nat.eqb]. unfold updN, th. rewrite ?Nat.eqb_refl. cbn. intro Y. discriminate Y.
      * intros _. split; [split; [exact Ht|exact L]|]. split; [reflexivity|]. intros _. exists (wbit (pw (pps s0 p))). exact Hpush.
Qed.

(** ** the end of a step *)
Lemma e_steq : forall p st st' m,
  ERel p st m -> nthr st' = nthr st -> sl st' = sl st -> dl st' = dl st -> pps st' = pps st ->
  (forall u, tcont (thr st' u) = tcont (thr st u) /\ tfinal (thr st' u) = tfinal (thr st u) /\
             tcur (thr st' u) = tcur (thr st u) /\ tpipe (thr st' u) = tpipe (thr st u)) ->
  ERel p st' m.
Proof.
  intros p st st' m R Hn Esl Edl Epp Hu.
  assert (Co : forall u, tcont (thr st' u) = tcont (thr st u)) by (intro u; apply Hu).
  assert (Fi : forall u, tfinal (thr st' u) = tfinal (thr st u)) by (intro u; apply Hu).
  assert (Cu : forall u, tcur (thr st' u) = tcur (thr st u)) by (intro u; apply Hu).
  assert (Tp : forall u, tpipe (thr st' u) = tpipe (thr st u)) by (intro u; apply Hu).
  assert (Tps : forall u, tpushes (thr st' u) = tpushes (thr st u)) by (intro u; unfold tpushes; rewrite Co, Fi; reflexivity).
  assert (Mc : mcont st' = mcont st) by (unfold mcont; apply Co).
  assert (Pl : pipeline st' = pipeline st) by (unfold pipeline; rewrite Edl, Co; reflexivity).
  assert (Wk : forall u, wkr st' u <-> wkr st u) by (intro u; unfold wkr; rewrite Hn, Tp; tauto).
  assert (Pg : forall q, prog14 st' m q <-> prog14 st m q) by (intro q; unfold prog14; rewrite Pl, Esl, Mc; tauto).
  constructor.
  - apply (e_bad _ _ _ R).
  - rewrite Hn. apply (e_nthr _ _ _ R).
  - intros t q E. rewrite Tp, Cu, Co. apply (e_sp _ _ _ R t q E).
  - intros u q. rewrite Tp. apply (e_owner _ _ _ R).
  - intros u u'. rewrite !Wk, !Tp. apply (e_wuniq _ _ _ R).
  - intros u. rewrite Wk, Tp, Epp. apply (e_wex _ _ _ R).
  - intros q. rewrite Epp. intro H. destruct (e_exw _ _ _ R q H) as [u [A B]]. exists u. rewrite Wk, Tp. auto.
  - rewrite Epp, Esl. apply (e_noex _ _ _ R).
  - rewrite Epp, Mc. apply (e_ins _ _ _ R).
  - rewrite Esl. apply (e_uniq _ _ _ R).
  - intros u Hw. cbn zeta. rewrite Tp, Mc, Epp, Co. apply Wk in Hw. apply (e_ls _ _ _ R u Hw).
  - intros u x Hw. rewrite Cu, Tp. apply Wk in Hw. apply (e_lscur _ _ _ R u x Hw).
  - rewrite Mc, Epp. apply (e_lsdone _ _ _ R).
  - intros q H. rewrite Esl, Mc, Epp. destruct (e_term _ _ _ R q H) as [A [B C]]. split; [exact A|]. split; [intros u x; rewrite Tps; apply B|exact C].
  - intros m0 q. rewrite Mc, Esl. intro H. destruct (e_hdel _ _ _ R m0 q H) as [A [B C]]. split; [exact A|]. split; [exact B|intros u x; rewrite Tps; apply C].
  - intros q. rewrite Mc, Esl, Epp. intro H. destruct (e_hterm _ _ _ R q H) as [A [B C]]. split; [exact A|]. split; [intros u x; rewrite Tps; apply B|exact C].
  - rewrite Mc. apply (e_hpos _ _ _ R).
  - intros u j. rewrite Co. apply (e_hmain _ _ _ R).
  - intros u Hw. cbn zeta. rewrite Tp, Epp, Mc, Co, Fi. apply Wk in Hw. apply (e_panic _ _ _ R u Hw).
  - intros u q m0 a b. rewrite Co, Fi, Wk, Tp. apply (e_porder _ _ _ R).
  - rewrite Mc. apply (e_ufterm _ _ _ R).
  - intros u Hw. rewrite Tp, Tps. apply Wk in Hw. destruct (e_wprog _ _ _ R u Hw) as [A|A]; [left; exact A|right; apply Pg; exact A].
  - intros q H. apply Pg. apply (e_exited _ _ _ R q H).
Qed.

(** threads that spawn complete within the step in which they begin *)
Definition nsp (c : cmd) : Prop := match c with CSpawn | CPNew _ => False | _ => True end.

(** the command of [t] returns [v]: the monitor sees [ERet v]; [tcur] is cleared *)
Lemma e_ret : forall p st st2 m t c v,
  ERel p st m -> (t < nthr st)%nat ->
  tcur (thr st t) = Some c -> tcont (thr st t) = [] -> get_tid t (b_cur (m14_b m)) = Some c ->
  ((p = ENone /\ nsp c /\ v = tret (thr st t)) \/ p = pendE t c (Some v)) ->
  nthr st2 = nthr st -> sl st2 = sl st -> dl st2 = dl st -> pps st2 = pps st ->
  (forall u, u <> t -> thr st2 u = thr st u) ->
  tcont (thr st2 t) = [] -> tfinal (thr st2 t) = tfinal (thr st t) -> tpipe (thr st2 t) = tpipe (thr st t) -> tcur (thr st2 t) = None ->
  ERel ENone st2 (m14r_step m (t, ERet v)).
Proof.
  intros p st st2 m t c v R Ht Hcu Hc Hg Hp Hn Esl Edl Epp Ho Hc2 Hf2 Htp2 Hcu2.
  set (m' := m14r_step m (t, ERet v)).
  assert (Co : forall u, tcont (thr st2 u) = tcont (thr st u)) by (intro u; destruct (Nat.eq_dec u t) as [->|E]; [rewrite Hc, Hc2; reflexivity|rewrite Ho; auto]).
  assert (Fi : forall u, tfinal (thr st2 u) = tfinal (thr st u)) by (intro u; destruct (Nat.eq_dec u t) as [->|E]; [exact Hf2|rewrite Ho; auto]).
  assert (Tp : forall u, tpipe (thr st2 u) = tpipe (thr st u)) by (intro u; destruct (Nat.eq_dec u t) as [->|E]; [exact Htp2|rewrite Ho; auto]).
  assert (Tps : forall u, tpushes (thr st2 u) = tpushes (thr st u)) by (intro u; unfold tpushes; rewrite Co, Fi; reflexivity).
  assert (Mc : mcont st2 = mcont st) by (unfold mcont; apply Co).
  assert (Pl : pipeline st2 = pipeline st) by (unfold pipeline; rewrite Edl, Co; reflexivity).
  assert (Wk : forall u, wkr st2 u <-> wkr st u) by (intro u; unfold wkr; rewrite Hn, Tp; tauto).
  (* the monitor *)
  assert (Mf : m14_fwd m' = m14_fwd m /\ m14_term m' = m14_term m /\ m14_panic m' = m14_panic m /\ m14_exited m' = m14_exited m /\
               m14_lsend m' = m14_lsend m /\ m14_bad m' = m14_bad m).
  { unfold m', m14r_step, m14_step. cbn. rewrite Hg. destruct c; try (repeat split; reflexivity); destruct v; try (repeat split; reflexivity);
      destruct (get_tid t (m14_owner m)); repeat split; reflexivity. }
  destruct Mf as [M4 [M5 [M6 [M7 [M2 M8]]]]].
  assert (Pg : forall q, prog14 st m q -> prog14 st2 m' q).
  { intro q. unfold prog14. rewrite Pl, Esl, Mc, M5. tauto. }
  assert (Mo : (exists q, c = CPNew q /\ v = RUnit /\ m14_owner m' = (b_nthr (m14_b m), q) :: m14_owner m) \/
               ((forall q, ~ (c = CPNew q /\ v = RUnit)) /\ m14_owner m' = m14_owner m)).
  { unfold m', m14r_step, m14_step. cbn. rewrite Hg. destruct c as [w|w|c0 x0|c0|w|n| | | | | |c0|c0|p0|p0 x0|p0| |x| | ]; try (right; split; [intros q0 [E0 _]; discriminate E0|]; destruct v; try reflexivity; destruct (get_tid t (m14_owner m)); reflexivity).
    destruct v; try (right; split; [intros q0 [_ E0]; discriminate E0|reflexivity]). left. exists p0. auto. }
  assert (Mn : b_nthr (m14_b m') = if (match c, v with CSpawn, RUnit | CPNew _, RUnit => true | _, _ => false end) then S (b_nthr (m14_b m)) else b_nthr (m14_b m)).
  { unfold m'. rewrite m14r_b_step. cbn. rewrite Hg. destruct c; try reflexivity; destruct v; reflexivity. }
  assert (Md : (exists x b q, c = CLSend x /\ v = RBool b /\ get_tid t (m14_owner m) = Some q /\ m14_lsdone m' = m14_lsdone m ++ [(q, x)]) \/ m14_lsdone m' = m14_lsdone m).
  { unfold m', m14r_step, m14_step. cbn. rewrite Hg. destruct c as [w|w|c0 x0|c0|w|n| | | | | |c0|c0|p0|p0 x0|p0| |x| | ]; try (right; destruct v; try reflexivity; destruct (get_tid t (m14_owner m)); reflexivity).
    destruct v; try (right; reflexivity). destruct (get_tid t (m14_owner m)) as [q|] eqn:Eo; [left; exists x, b, q; auto|right; reflexivity]. }
  (* what the pending part says *)
  assert (Pd : (p = ENone /\ (match c, v with CSpawn, RUnit | CPNew _, RUnit => false | _, _ => true end) = true) \/
               (exists q, p = ESp t q /\ v = RUnit /\ ((c = CSpawn /\ q < 0) \/ (c = CPNew q /\ 0 <= q)))).
  { destruct Hp as [[-> [Nc _]] | ->].
    - left. split; [reflexivity|]. destruct c; try reflexivity; destruct Nc.
    - unfold pendE. destruct c as [w|w|c0 x0|c0|w|n| | | | | |c0|c0|p0|p0 x0|p0| |x| | ]; try (left; split; reflexivity).
      + destruct v; try (left; split; reflexivity). right. exists (-1). split; [reflexivity|]. split; [reflexivity|left; split; [reflexivity|lia]].
      + destruct v; try (left; split; reflexivity). right. exists p0. split; [reflexivity|]. split; [reflexivity|].
        pose proof (e_sp _ _ _ R t p0) as Z0. unfold pendE in Z0. destruct (Z0 eq_refl) as [_ [[[E0 _]|[_ E0]] _]]; [rewrite Hcu in E0; discriminate E0|right; auto]. }
  assert (Nb : b_nthr (m14_b m') = nthr st /\ (forall u q, get_tid u (m14_owner m') = Some q <-> ((u < nthr st)%nat /\ tpipe (thr st u) = q /\ 0 <= q))).
  { destruct Pd as [[-> Eb]|[q [-> [-> Hcq]]]].
    - pose proof (e_nthr _ _ _ R) as N0. cbn in N0. rewrite Mn.
      assert (Ec : (match c, v with CSpawn, RUnit | CPNew _, RUnit => true | _, _ => false end) = false) by (destruct c; try reflexivity; destruct v; try reflexivity; discriminate Eb).
      rewrite Ec. split; [exact N0|]. intros u q. destruct Mo as [[q0 [-> [-> _]]]|[_ ->]]; [discriminate Eb|]. rewrite <- N0. apply (e_owner _ _ _ R).
    - pose proof (e_nthr _ _ _ R) as N0. cbn in N0. destruct (e_sp _ _ _ R t q eq_refl) as [Sq _]. rewrite Mn.
      destruct Hcq as [[-> Lq]|[-> Lq]].
      + split; [exact N0|]. destruct Mo as [[q0 [E0 _]]|[_ ->]]; [discriminate E0|]. intros u q'. rewrite (e_owner _ _ _ R u q'), <- N0.
        split; [intros [A B]; split; [lia|exact B]|intros [A [B C]]; split; [|auto]].
        destruct (Nat.eq_dec u (b_nthr (m14_b m))) as [->|Nu]; [rewrite Sq in B; lia|lia].
      + split; [exact N0|]. destruct Mo as [[q0 [E0 [_ ->]]]|[Z0 _]]; [|exfalso; apply (Z0 q); auto]. inversion E0; subst q0.
        intros u q'. cbn. destruct (Nat.eqb_spec (b_nthr (m14_b m)) u) as [<-|Nu].
        * split; [intro E1; inversion E1; subst q'; split; [lia|split; [exact Sq|exact Lq]]|intros [_ [B _]]; rewrite Sq in B; rewrite B; reflexivity].
        * rewrite (e_owner _ _ _ R u q'), <- N0. split; [intros [A B]; split; [lia|exact B]|intros [A B]; split; [lia|exact B]]. }
  destruct Nb as [Nb Ow].
  constructor.
  - rewrite M8. apply (e_bad _ _ _ R).
  - rewrite Nb, Hn. reflexivity.
  - intros t0 q0 E0. discriminate E0.
  - intros u q. rewrite Nb, Tp. apply Ow.
  - intros u u'. rewrite !Wk, !Tp. apply (e_wuniq _ _ _ R).
  - intros u. rewrite Wk, Tp, Epp. apply (e_wex _ _ _ R).
  - intros q. rewrite Epp. intro H. destruct (e_exw _ _ _ R q H) as [u [A B]]. exists u. rewrite Wk, Tp. auto.
  - intros q. rewrite Epp, Esl, M2, M4, M5, M6, M7. intro Hq. destruct (e_noex _ _ _ R q Hq) as [A1 [A2 [A3 [A4 [A5 [A6 [A7 [A8 A9]]]]]]]].
    repeat split; auto. intros x Hin. destruct Md as [[x0 [b [q0 [-> [-> [Eo Ed]]]]]]|Ed]; rewrite Ed in Hin; [|exact (A9 x Hin)].
    apply in_app_or in Hin. destruct Hin as [Hin|[Hin|[]]]; [exact (A9 x Hin)|]. inversion Hin; subst q0 x0.
    assert (Wt : wkr st t) by (pose proof (owner_of st m t) as Z0; destruct p; [rewrite (Z0 R Ht) in Eo; destruct (Z.leb_spec 0 (tpipe (thr st t))); [split; auto|discriminate Eo]|];
      apply (e_owner _ _ _ R) in Eo; split; [exact Ht|destruct Eo as [_ [Z1 Z2]]; rewrite Z1; exact Z2]).
    assert (Eq : tpipe (thr st t) = q) by (apply (e_owner _ _ _ R) in Eo; apply Eo).
    rewrite <- Eq, (e_wex _ _ _ R t Wt) in Hq. discriminate Hq.
  - rewrite Epp, Mc. apply (e_ins _ _ _ R).
  - rewrite Esl. apply (e_uniq _ _ _ R).
  - intros u Hw. cbn zeta. rewrite Tp, Mc, Epp, Co, M2, M4. apply Wk in Hw. apply (e_ls _ _ _ R u Hw).
  - intros u x Hw Hcx. rewrite Tp, M2. apply Wk in Hw. destruct (Nat.eq_dec u t) as [->|E]; [rewrite Hcu2 in Hcx; discriminate Hcx|].
    rewrite (Ho u E) in Hcx. apply (e_lscur _ _ _ R u x Hw Hcx).
  - intros q x Hin. rewrite Mc, Epp, M4. destruct Md as [[x0 [b [q0 [-> [-> [Eo Ed]]]]]]|Ed]; rewrite Ed in Hin; [|apply (e_lsdone _ _ _ R q x Hin)].
    apply in_app_or in Hin. destruct Hin as [Hin|[Hin|[]]]; [apply (e_lsdone _ _ _ R q x Hin)|]. inversion Hin; subst q0 x0.
    apply (e_owner _ _ _ R) in Eo. destruct Eo as [Lt [Eq Lq]].
    assert (Wt : wkr st t) by (split; [exact Ht|rewrite Eq; exact Lq]).
    pose proof (e_lscur _ _ _ R t x Wt Hcu) as Lx. pose proof (e_ls _ _ _ R t Wt) as L. cbn zeta in L. rewrite Eq in *. rewrite L, Hc in Lx.
    cbn [lpend flat_map] in Lx. rewrite !app_nil_r in Lx. rewrite app_assoc in Lx. rewrite app_assoc. exact Lx.
  - intros q. rewrite M5. intro H. rewrite Esl, Mc, Epp. destruct (e_term _ _ _ R q H) as [A [B C]]. split; [exact A|]. split; [intros u x; rewrite Tps; apply B|exact C].
  - intros m0 q. rewrite Mc, Esl. intro H. destruct (e_hdel _ _ _ R m0 q H) as [A [B C]]. split; [exact A|]. split; [exact B|intros u x; rewrite Tps; apply C].
  - intros q. rewrite Mc, Esl, Epp. intro H. destruct (e_hterm _ _ _ R q H) as [A [B C]]. split; [exact A|]. split; [intros u x; rewrite Tps; apply B|exact C].
  - rewrite Mc. apply (e_hpos _ _ _ R).
  - intros u j. rewrite Co. apply (e_hmain _ _ _ R).
  - intros u Hw. cbn zeta. rewrite Tp, Epp, Mc, Co, Fi, M5, M6. apply Wk in Hw. apply (e_panic _ _ _ R u Hw).
  - intros u q m0 a b. rewrite Co, Fi, Wk, Tp. apply (e_porder _ _ _ R).
  - rewrite Mc, M6. apply (e_ufterm _ _ _ R).
  - intros u Hw. rewrite Tp, Tps. apply Wk in Hw. destruct (e_wprog _ _ _ R u Hw) as [A|A]; [left; exact A|right; apply Pg; exact A].
  - intros q. rewrite M7. intro H. apply Pg. apply (e_exited _ _ _ R q H).
Qed.

Lemma finok_facts : forall f, (forall j, In j f -> finok j) -> (forall q, lpend q f = []) /\ (forall j, In j f -> hq j).
Proof.
  induction f as [|j f IH]; intro H; [split; [reflexivity|intros j []]|].
  destruct IH as [A B]; [intros; apply H; right; assumption|]. pose proof (H j (or_introl eq_refl)) as Fj.
  split.
  - intro q. rewrite (lpend_cons q j f), A, app_nil_r. destruct j; cbn in Fj; try contradiction. destruct a; cbn in Fj; try contradiction; reflexivity.
  - intros j0 [<-|Hin]; [|apply B; exact Hin]. destruct j; cbn in Fj; try contradiction. destruct a; cbn in Fj; try contradiction; exact Logic.I.
Qed.

(** the exit sequence of a piped worker becomes its continuation *)
Lemma e_final : forall st m t,
  ERel ENone st m -> t <> main -> tcont (thr st t) = [] -> (forall j, In j (tfinal (thr st t)) -> finok j) ->
  ERel ENone (upd_th st t (set_tfinal (set_tcont (th st t) (tfinal (th st t))) [])) m.
Proof.
  intros st m t R Nm Hc Hfin.
  set (st' := upd_th st t (set_tfinal (set_tcont (th st t) (tfinal (th st t))) [])).
  destruct (finok_facts _ Hfin) as [Fl Fh].
  assert (Ho : forall u, u <> t -> thr st' u = thr st u) by (intros u Hu; unfold st'; thr_simpl).
  assert (Hc' : tcont (thr st' t) = tfinal (thr st t)) by (unfold st'; thr_simpl).
  assert (Hf' : tfinal (thr st' t) = []) by (unfold st'; thr_simpl).
  assert (Tp : forall u, tpipe (thr st' u) = tpipe (thr st u)) by (intro u; unfold st'; thr_simpl).
  assert (Cu : forall u, tcur (thr st' u) = tcur (thr st u)) by (intro u; unfold st'; thr_simpl).
  assert (Cat : forall u, tcont (thr st' u) ++ tfinal (thr st' u) = tcont (thr st u) ++ tfinal (thr st u)).
  { intro u. destruct (Nat.eq_dec u t) as [->|E]; [rewrite Hc', Hf', Hc, app_nil_r; reflexivity|rewrite Ho; auto]. }
  assert (Tps : forall u, tpushes (thr st' u) = tpushes (thr st u)) by (intro u; rewrite !tpushes_app_eq, Cat; reflexivity).
  assert (Mc : mcont st' = mcont st) by (unfold mcont; rewrite Ho; auto).
  assert (Pl : pipeline st' = pipeline st) by (unfold pipeline; fold (mcont st') (mcont st); rewrite Mc; reflexivity).
  assert (Wk : forall u, wkr st' u <-> wkr st u) by (intro u; unfold wkr; rewrite Tp; tauto).
  assert (Lp : forall u q, lpend q (tcont (thr st' u)) = lpend q (tcont (thr st u))).
  { intros u q. destruct (Nat.eq_dec u t) as [->|E]; [rewrite Hc', Hc, Fl; reflexivity|rewrite Ho; auto]. }
  assert (Pg : forall q, prog14 st' m q <-> prog14 st m q) by (intro q; unfold prog14; rewrite Pl, Mc; tauto).
  constructor.
  - apply (e_bad _ _ _ R).
  - apply (e_nthr _ _ _ R).
  - intros t0 q E. discriminate E.
  - intros u q. rewrite Tp. apply (e_owner _ _ _ R).
  - intros u u'. rewrite !Wk, !Tp. apply (e_wuniq _ _ _ R).
  - intros u. rewrite Wk, Tp. apply (e_wex _ _ _ R).
  - intros q H. destruct (e_exw _ _ _ R q H) as [u [A B]]. exists u. rewrite Wk, Tp. auto.
  - apply (e_noex _ _ _ R).
  - rewrite Mc. apply (e_ins _ _ _ R).
  - apply (e_uniq _ _ _ R).
  - intros u Hw. cbn zeta. rewrite Tp, Mc, Lp. apply Wk in Hw. apply (e_ls _ _ _ R u Hw).
  - intros u x Hw. rewrite Cu, Tp. apply Wk in Hw. apply (e_lscur _ _ _ R u x Hw).
  - rewrite Mc. apply (e_lsdone _ _ _ R).
  - intros q H. rewrite Mc. destruct (e_term _ _ _ R q H) as [A [B C]]. split; [exact A|]. split; [intros u x; rewrite Tps; apply B|exact C].
  - intros m0 q. rewrite Mc. intro H. destruct (e_hdel _ _ _ R m0 q H) as [A [B C]]. split; [exact A|]. split; [exact B|intros u x; rewrite Tps; apply C].
  - intros q. rewrite Mc. intro H. destruct (e_hterm _ _ _ R q H) as [A [B C]]. split; [exact A|]. split; [intros u x; rewrite Tps; apply B|exact C].
  - rewrite Mc. apply (e_hpos _ _ _ R).
  - intros u j Hu Hj. destruct (Nat.eq_dec u t) as [->|E]; [rewrite Hc' in Hj; apply Fh; exact Hj|rewrite (Ho u E) in Hj; apply (e_hmain _ _ _ R u j Hu Hj)].
  - intros u Hw. cbn zeta. rewrite Tp, Mc, Cat. apply Wk in Hw. apply (e_panic _ _ _ R u Hw).
  - intros u q m0 a b. rewrite Cat, Wk, Tp. apply (e_porder _ _ _ R).
  - rewrite Mc. apply (e_ufterm _ _ _ R).
  - intros u Hw. rewrite Tp, Tps. apply Wk in Hw. destruct (e_wprog _ _ _ R u Hw) as [A|A]; [left; exact A|right; apply Pg; exact A].
  - intros q H. apply Pg. apply (e_exited _ _ _ R q H).
Qed.

(** the thread has exited: the monitor sees [EExit] *)
Lemma e_exit : forall st m t,
  ERel ENone st m -> (t < nthr st)%nat -> tcont (thr st t) = [] -> tfinal (thr st t) = [] ->
  ERel ENone st (m14r_step m (t, EExit)).
Proof.
  intros st m t R Ht Hc Hf.
  set (m' := m14r_step m (t, EExit)).
  pose proof (owner_of st m t R Ht) as Ow.
  assert (Mx : (0 <= tpipe (thr st t) /\ m14_exited m' = tpipe (thr st t) :: m14_exited m) \/ m14_exited m' = m14_exited m).
  { unfold m', m14r_step, m14_step. cbn. rewrite Ow. destruct (Z.leb_spec 0 (tpipe (thr st t))); [left; split; [assumption|reflexivity]|right; reflexivity]. }
  assert (Mf : m14_owner m' = m14_owner m /\ m14_lsend m' = m14_lsend m /\ m14_lsdone m' = m14_lsdone m /\ m14_fwd m' = m14_fwd m /\
               m14_term m' = m14_term m /\ m14_panic m' = m14_panic m /\ m14_bad m' = m14_bad m /\ b_nthr (m14_b m') = b_nthr (m14_b m)).
  { unfold m'. split; [|split; [|split; [|split; [|split; [|split; [|split]]]]]];
      try (rewrite m14r_b_step; apply mb_nthr_nonret; intros v E; discriminate E);
      unfold m14r_step, m14_step; cbn; destruct (get_tid t (m14_owner m)); reflexivity. }
  destruct Mf as [M1 [M2 [M3 [M4 [M5 [M6 [M8 M9]]]]]]].
  assert (Pg : forall q, prog14 st m' q <-> prog14 st m q) by (intro q; unfold prog14; rewrite M5; tauto).
  constructor.
  - rewrite M8. apply (e_bad _ _ _ R).
  - rewrite M9. apply (e_nthr _ _ _ R).
  - intros t0 q E. discriminate E.
  - rewrite M1, M9. apply (e_owner _ _ _ R).
  - apply (e_wuniq _ _ _ R).
  - apply (e_wex _ _ _ R).
  - apply (e_exw _ _ _ R).
  - intros q Hq. rewrite M2, M4, M5, M6, M3. destruct (e_noex _ _ _ R q Hq) as [A1 [A2 [A3 [A4 [A5 [A6 [A7 [A8 A9]]]]]]]].
    repeat split; auto. destruct Mx as [[L ->]| ->]; [|exact A8]. rewrite memZ_cons_other; [exact A8|].
    intro E. rewrite <- E in Hq. rewrite (e_wex _ _ _ R t (conj Ht L)) in Hq. discriminate Hq.
  - apply (e_ins _ _ _ R).
  - apply (e_uniq _ _ _ R).
  - rewrite M2, M4. apply (e_ls _ _ _ R).
  - rewrite M2. apply (e_lscur _ _ _ R).
  - rewrite M3, M4. apply (e_lsdone _ _ _ R).
  - rewrite M5. apply (e_term _ _ _ R).
  - apply (e_hdel _ _ _ R).
  - apply (e_hterm _ _ _ R).
  - apply (e_hpos _ _ _ R).
  - apply (e_hmain _ _ _ R).
  - rewrite M5, M6. apply (e_panic _ _ _ R).
  - apply (e_porder _ _ _ R).
  - rewrite M6. apply (e_ufterm _ _ _ R).
  - intros u Hu. destruct (e_wprog _ _ _ R u Hu) as [A|A]; [left; exact A|right; apply Pg; exact A].
  - intros q H. apply Pg. destruct Mx as [[L E]|E]; rewrite E in H; [|apply (e_exited _ _ _ R q H)].
    unfold memZ in H. cbn in H. apply orb_true_iff in H. destruct H as [H|H]; [|apply (e_exited _ _ _ R q H)].
    apply Z.eqb_eq in H. subst q. destruct (e_wprog _ _ _ R t (conj Ht L)) as [[x Hx]|A]; [|exact A].
    exfalso. unfold tpushes in Hx. rewrite Hc, Hf in Hx. destruct Hx.
Qed.

(** ** a spawning command is never in progress between two steps *)
Definition SpInv (st : wstate) : Prop := forall u c, tcur (thr st u) = Some c -> nsp c.

Lemma settle_tcur : forall st t ev done st' ev',
  settle st t ev done = (st', ev') ->
  (forall u, u <> t -> thr st' u = thr st u) /\
  (tcur (thr st' t) = None \/ (done = None /\ tcur (thr st' t) = tcur (thr st t))).
Proof.
  intros st t ev done st' ev' H. destruct (settle_Y _ _ _ _ _ _ H) as [_ O]. split; [exact O|]. unfold settle in H.
  destruct (norm (2 * (cont_size (tcont (th st t)) + length (tacc (th st t))) + 2) (sl st) (tacc (th st t)) (tcont (th st t)) ev)
    as [[[s1 acc1] k1] ev1] eqn:En.
  cbn zeta in H.
  set (st1 := set_sl (upd_th st t (set_tacc (set_tcont (th st t) k1) acc1)) s1) in *.
  assert (C1 : tcur (thr st1 t) = tcur (thr st t)) by (unfold st1; cbn -[Nat.eqb]; unfold updN, th; rewrite Nat.eqb_refl; reflexivity).
  clearbody st1.
  match type of H with (let '(st2, ev2) := ?E in _) = _ => destruct E as [st2 ev2] eqn:E2 end.
  assert (S2 : tcur (thr st2 t) = None \/ (done = None /\ tcur (thr st2 t) = tcur (thr st t))).
  { destruct done as [v|].
    - inversion E2; subst. left. cbn. unfold updN, th. rewrite Nat.eqb_refl. reflexivity.
    - destruct k1.
      + destruct (tcur (th st1 t)) as [c|] eqn:Ec; inversion E2; subst.
        * left. destruct c; cbn; unfold updN, th; rewrite Nat.eqb_refl; reflexivity.
        * right. split; [reflexivity|exact C1].
      + inversion E2; subst. right. split; [reflexivity|exact C1]. }
  destruct (tcont (th st2 t)) eqn:Ec; [|inversion H; subst; exact S2].
  destruct (tscript (th st2 t)) eqn:Es; [|inversion H; subst; exact S2].
  destruct (tcur (th st2 t)) eqn:Eu; [inversion H; subst; exact S2|].
  destruct (tfinal (th st2 t)) eqn:Ef; inversion H; subst; [exact S2|].
  left. cbn. unfold updN, th. rewrite Nat.eqb_refl. cbn. exact Eu.
Qed.

Lemma begin_cmd_sp : forall st t c st' ev done, begin_cmd st t c = (st', ev, done) -> ~ nsp c -> done <> None.
Proof.
  intros st t c st' ev done H Hn. destruct c; cbn in Hn; try (exfalso; apply Hn; exact Logic.I); cbn [begin_cmd] in H; destr_all H; inversion H; discriminate.
Qed.

Theorem wstep_Sp : forall st t st' ev, pristine st -> SpInv st -> wstep st t = (st', ev) -> SpInv st'.
Proof.
  intros st t st' ev P Sp H. unfold wstep in H.
  destruct (enabled st t) eqn:En; cbn [negb] in H; [|inversion H; subst; exact Sp].
  assert (Ht : (t < nthr st)%nat).
  { unfold enabled in En. apply andb_true_iff in En. destruct En as [En _]. apply Nat.ltb_lt in En. exact En. }
  assert (Pt : pristine (tick st t)) by (unfold tick; prist st t).
  assert (Spt : SpInv (tick st t)).
  { intros u c. unfold tick. cbn -[Nat.eqb]. unfold updN, th. destruct (Nat.eqb_spec u t); subst; cbn; apply Sp. }
  assert (Htt : (t < nthr (tick st t))%nat) by exact Ht.
  set (s0 := tick st t) in *. clearbody s0. clear En.
  assert (Fin : forall s ev0 done, (forall u c, u <> t -> tcur (thr s u) = Some c -> nsp c) ->
                  (done = None -> forall c, tcur (thr s t) = Some c -> nsp c) ->
                  settle s t ev0 done = (st', ev) -> SpInv st').
  { intros s ev0 done Ho Hd Hs. destruct (settle_tcur _ _ _ _ _ _ Hs) as [B A]. intros u c Hu.
    destruct (Nat.eq_dec u t) as [->|Ne]; [|rewrite (B u Ne) in Hu; apply (Ho u c Ne Hu)].
    destruct A as [A|[A1 A2]]; [rewrite A in Hu; discriminate Hu|]. rewrite A2 in Hu. apply (Hd A1 c Hu). }
  destruct (tstarted (th s0 t)) eqn:Es0; cbn [negb] in H.
  - destruct (tcont (th s0 t)) as [|i r] eqn:Ec.
    + destruct (tscript (th s0 t)) as [|c0 cs] eqn:Es; [inversion H; subst; exact Sp|].
      match type of H with context [begin_cmd ?S0 t ?cc] =>
        destruct (begin_cmd S0 t cc) as [[st2 ev0] done] eqn:Eb; set (s1 := S0) in * end.
      assert (P1 : pristine s1) by (unfold s1; prist s0 t).
      destruct (begin_cmd_sum s1 t c0 st2 ev0 done P1 Htt Eb) as [_ [Hcu [Ho [Hn _]]]].
      apply (Fin st2 (ECmd c0 :: ev0) done); [| |exact H].
      * intros u c Hu. change (nthr s1) with (nthr s0) in *.
        destruct (Nat.eq_dec u (nthr s0)) as [->|Hn0].
        -- destruct Hn as [Hn|[_ [Hn1 _]]]; [|intro E; rewrite Hn1 in E; discriminate E].
           rewrite (Ho _ Hu (or_intror Hn)). unfold s1. cbn -[Nat.eqb]. unfold updN, th.
           destruct (Nat.eqb_spec (nthr s0) t); [contradiction|]. apply Spt.
        -- rewrite (Ho u Hu (or_introl Hn0)). unfold s1. cbn -[Nat.eqb]. unfold updN, th.
           destruct (Nat.eqb_spec u t); [contradiction|]. apply Spt.
      * intros D c. rewrite Hcu. unfold s1. cbn -[Nat.eqb]. unfold updN, th. rewrite Nat.eqb_refl. cbn. intro E. inversion E; subst c.
        destruct c0; try exact Logic.I; exfalso; (apply (begin_cmd_sp _ _ _ _ _ _ Eb); [intro Y; exact Y|exact D]).
    + destruct (exec_instr s0 t i r) as [st1 ev1] eqn:Ee.
      destruct (exec_instr_tf _ _ _ _ _ _ Ee) as [_ [Hf Ho]].
      apply (Fin st1 ev1 None); [| |exact H].
      * intros u c Hu. destruct (Hf u) as [A _]. rewrite A. apply Spt.
      * intros _ c. destruct (Hf t) as [A _]. rewrite A. apply Spt.
  - apply (Fin (upd_th s0 t (set_tstarted (th s0 t) true)) [EStart] None); [| |exact H].
    + intros u c Hu. cbn -[Nat.eqb]. unfold updN, th. destruct (Nat.eqb_spec u t); [contradiction|]. apply Spt.
    + intros _ c. cbn -[Nat.eqb]. unfold updN, th. rewrite Nat.eqb_refl. cbn. apply Spt.
Qed.

Lemma Sp_init : forall scr, SpInv (winit scr).
Proof. intros scr u c H. cbn in H. discriminate H. Qed.

Lemma settle_E : forall st m t ev done st' ev' p,
  CInv (core st) -> SlInv st -> XInv st -> ERel p st m -> BRel st (m14_b m) -> (t < nthr st)%nat ->
  (forall j, In j (tfinal (thr st t)) -> finok j) -> (t = main -> tfinal (thr st t) = []) ->
  (done = None -> p = ENone /\ forall c, tcur (thr st t) = Some c -> nsp c) ->
  (forall v, done = Some v -> tcont (thr st t) = [] /\ exists c, tcur (thr st t) = Some c /\ p = pendE t c (Some v)) ->
  settle st t ev done = (st', ev') ->
  exists tail, ev' = ev ++ tail /\ ERel ENone st' (fold_left m14r_step (evs t tail) m).
Proof.
  intros st m t ev done st' ev' p I S X R B Ht Hfin Hfm HdN HdS H. unfold settle in H.
  destruct (norm (2 * (cont_size (tcont (th st t)) + length (tacc (th st t))) + 2) (sl st) (tacc (th st t)) (tcont (th st t)) ev)
    as [[[s1 acc1] k1] ev1] eqn:En.
  cbn zeta in H.
  destruct (norm_dels _ _ _ _ _ _ _ _ _ En) as [dels [Edels Hdels]].
  assert (Pd : forall e, In e dels -> c14_plain e) by (intros e He; destruct (Hdels e He) as [x [h ->]]; exact Logic.I).
  assert (Pd' : forall e, In e dels -> plain e) by (intros e He; destruct (Hdels e He) as [x [h ->]]; exact Logic.I).
  set (m1 := fold_left m14r_step (evs t dels) m).
  assert (Sm : r14_same m m1) by (apply m14r_plain_fold; exact Pd).
  assert (Gt1 : get_tid t (b_cur (m14_b m1)) = tcur (thr st t)).
  { unfold m1. rewrite m14r_b_fold. destruct (mb_fold_plain t dels (m14_b m) Pd') as [A1 _]. cbn zeta in A1. rewrite A1.
    apply (br_cur st _ B t Ht). }
  set (st1 := set_sl (upd_th st t (set_tacc (set_tcont (th st t) k1) acc1)) s1) in *.
  assert (T1 : tcont (thr st1 t) = k1) by (unfold st1; cbn -[Nat.eqb]; unfold updN, th; rewrite Nat.eqb_refl; reflexivity).
  assert (Th1 : forall u, tcur (thr st1 u) = tcur (thr st u) /\ tret (thr st1 u) = tret (thr st u) /\ tfinal (thr st1 u) = tfinal (thr st u) /\ tpipe (thr st1 u) = tpipe (thr st u)).
  { intro u. unfold st1. cbn -[Nat.eqb]. unfold updN, th. destruct (Nat.eqb_spec u t) as [E|E]; [rewrite E|]; auto. }
  assert (To1 : forall u, u <> t -> tcont (thr st1 u) = tcont (thr st u)).
  { intros u Hu. unfold st1. cbn -[Nat.eqb]. unfold updN, th. destruct (Nat.eqb_spec u t); [contradiction|reflexivity]. }
  assert (N1 : nthr st1 = nthr st) by reflexivity.
  assert (Steq : s1 = sl st -> k1 = tcont (thr st t) -> ERel p st1 m1).
  { intros E1 E2. apply (e_msame _ _ m); [|exact Sm]. apply (e_steq _ st); auto; try (unfold st1; cbn; congruence).
    intro u. destruct (Th1 u) as [A [_ [C D]]]. split; [|auto].
    destruct (Nat.eq_dec u t) as [->|Hu]; [rewrite T1; exact E2|apply To1; exact Hu]. }
  assert (R1 : ERel p st1 m1).
  { destruct (tcont (thr st t)) as [|i0 r0] eqn:Ek.
    - unfold th in En. rewrite Ek, norm_nil in En. injection En as E1 _ E3 _. apply Steq; auto.
    - destruct (Nat.eq_dec t main) as [->|Hn].
      + apply (e_msame _ _ m); [|exact Sm]. change st1 with (NS st s1 acc1 k1). clear H Steq T1 Th1 To1. clearbody st1.
        eapply norm_E; [exact X| | | |exact En].
        * eapply CInv_ceq; [|exact I]. unfold NS. same_core.
        * unfold NS. sl_irr st.
        * apply (e_steq _ st); auto. intro u. unfold NS. repeat split; thr_simpl.
      + rewrite norm_id in En; [|intros j Hj; apply (i_mainonly _ I t Hn); exact Hj].
        injection En as E1 _ E3 _. apply Steq; auto. unfold th in E3. rewrite <- E3. exact Ek. }
  assert (Hk1 : done <> None -> k1 = []).
  { intro D. destruct done as [v|]; [|exfalso; apply D; reflexivity]. destruct (HdS v eq_refl) as [Y _]. unfold th in En. rewrite Y, norm_nil in En. injection En as _ _ E3 _. auto. }
  assert (F1 : tfinal (thr st1 t) = tfinal (thr st t)) by apply Th1.
  assert (C1 : tcur (thr st1 t) = tcur (thr st t)) by apply Th1.
  assert (Ht1 : (t < nthr st1)%nat) by exact Ht.
  clearbody st1.
  match type of H with (let '(st2, ev2) := ?E in _) = _ => destruct E as [st2 ev2] eqn:E2 end.
  assert (R2 : exists tl2, ev2 = ev1 ++ tl2 /\ ERel ENone st2 (fold_left m14r_step (evs t tl2) m1) /\
                           tfinal (thr st2 t) = tfinal (thr st t) /\ nthr st2 = nthr st).
  { destruct done as [v|].
    - inversion E2; subst st2 ev2. exists [ERet v]. split; [reflexivity|]. split; [|split; [rewrite <- F1; thr_simpl|exact N1]].
      destruct (HdS v eq_refl) as [_ [c [Hu Hp]]]. cbn [evs map fold_left].
      assert (K1 : tcont (thr st1 t) = []) by (rewrite T1; apply Hk1; discriminate).
      eapply (e_ret p st1 _ m1 t c v R1 Ht1);
        [rewrite C1; exact Hu|exact K1|rewrite Gt1; exact Hu|right; exact Hp|reflexivity|reflexivity|reflexivity|reflexivity|intros ? ?; thr_simpl
        |cbn -[Nat.eqb]; unfold updN, th; rewrite ?Nat.eqb_refl; cbn -[Nat.eqb]; unfold updN, th; rewrite ?Nat.eqb_refl; cbn -[Nat.eqb]; exact K1
        |thr_simpl|thr_simpl|thr_simpl].
    - destruct (HdN eq_refl) as [Pn Nsp]. subst p. destruct k1.
      + destruct (tcur (th st1 t)) as [c|] eqn:Ec.
        * inversion E2; subst st2 ev2. exists [ERet (tret (th st1 t))]. split; [reflexivity|].
          split; [|split; [rewrite <- F1; destruct c; thr_simpl|rewrite <- N1; destruct c; reflexivity]].
          cbn [evs map fold_left]. unfold th in Ec.
          assert (G1 : get_tid t (b_cur (m14_b m1)) = Some c) by (rewrite Gt1, <- C1; exact Ec).
          assert (Nc : nsp c) by (apply Nsp; rewrite <- C1; exact Ec).
          eapply (e_ret ENone st1 _ m1 t c _ R1 Ht1);
            [exact Ec|exact T1|exact G1|left; split; [reflexivity|split; [exact Nc|reflexivity]]
            |destruct c; reflexivity|destruct c; reflexivity|destruct c; reflexivity|destruct c; reflexivity
            |intros ? ?; destruct c; thr_simpl
            |destruct c; cbn -[Nat.eqb]; unfold updN, th; rewrite ?Nat.eqb_refl; cbn -[Nat.eqb]; unfold updN, th; rewrite ?Nat.eqb_refl; cbn -[Nat.eqb]; exact T1
            |destruct c; thr_simpl|destruct c; thr_simpl|destruct c; thr_simpl].
        * inversion E2; subst st2 ev2. exists []. rewrite app_nil_r. split; [reflexivity|]. cbn. split; [exact R1|split; [exact F1|exact N1]].
      + inversion E2; subst st2 ev2. exists []. rewrite app_nil_r. split; [reflexivity|]. cbn. split; [exact R1|split; [exact F1|exact N1]]. }
  destruct R2 as [tl2 [E2' [R2 [F2 N2]]]].
  set (m2 := fold_left m14r_step (evs t tl2) m1) in *.
  assert (Fin : exists tl3, ev' = ev2 ++ tl3 /\ ERel ENone st' (fold_left m14r_step (evs t tl3) m2)).
  { destruct (tcont (th st2 t)) eqn:Ec; [|inversion H; subst; exists []; rewrite app_nil_r; auto].
    destruct (tscript (th st2 t)) eqn:Es; [|inversion H; subst; exists []; rewrite app_nil_r; auto].
    destruct (tcur (th st2 t)) eqn:Eu; [inversion H; subst; exists []; rewrite app_nil_r; auto|].
    destruct (tfinal (th st2 t)) eqn:Ef; inversion H; subst st' ev'; clear H.
    - destruct (is_main t); [exists []; rewrite app_nil_r; auto|].
      exists [EExit]. split; [reflexivity|]. cbn [evs map fold_left]. apply e_exit; auto. rewrite N2. exact Ht.
    - exists []. rewrite app_nil_r. split; [reflexivity|]. cbn [evs map fold_left]. unfold th in *.
      assert (Nm : t <> main) by (intro E; apply Hfm in E; rewrite <- F2, Ef in E; discriminate E).
      rewrite <- Ef. apply e_final; auto. intros j Hj. apply Hfin. rewrite <- F2. exact Hj. }
  destruct Fin as [tl3 [E3 R3]].
  exists (dels ++ tl2 ++ tl3). split.
  - rewrite E3, E2', Edels. rewrite <- !app_assoc. reflexivity.
  - rewrite !evs_app, !fold_left_app. exact R3.
Qed.

(** ** one step of the model *)
Theorem wstep_E : forall st m t st' ev,
  AllInv st -> SpInv st -> BRel st (m14_b m) -> ERel ENone st m -> wstep st t = (st', ev) ->
  (forall q, In (ECmd (CPNew q)) ev -> 0 <= q) ->
  ERel ENone st' (fold_left m14r_step (evs t ev) m).
Proof.
  intros st m t st' ev A Sp B R H Hq.
  destruct A as [[I [P Wf]] W Sl L C Q X Y U S].
  unfold wstep in H.
  destruct (enabled st t) eqn:En; cbn [negb] in H;
    [|inversion H; subst; eapply e_msame; [exact R|apply m14r_plain_fold; intros e [<-|[]]; exact Logic.I]].
  assert (Ht : (t < nthr st)%nat).
  { unfold enabled in En. apply andb_true_iff in En. destruct En as [En _]. apply Nat.ltb_lt in En. exact En. }
  assert (It : CInv (core (tick st t))) by (eapply CInv_ceq; [|exact I]; unfold tick; same_core).
  assert (Pt : pristine (tick st t)) by (unfold tick; prist st t).
  assert (Wt : wfi (tick st t)) by (eapply wfi_eq; [| | |exact Wf]; reflexivity).
  assert (Qt : PqInv (tick st t)) by (apply (pq_same st); auto; try reflexivity; intro u; unfold tick; repeat split; thr_simpl).
  assert (Xt : XInv (tick st t)) by (apply (x_same st); auto; unfold tick; xs).
  assert (Yt : YInv (tick st t)).
  { intro u. unfold tick. cbn -[Nat.eqb]. unfold updN, th. destruct (Nat.eqb_spec u t); subst; cbn; apply Y. }
  assert (Spt : SpInv (tick st t)).
  { intros u c. unfold tick. cbn -[Nat.eqb]. unfold updN, th. destruct (Nat.eqb_spec u t); subst; cbn; apply Sp. }
  assert (Slt : SlInv (tick st t)) by (unfold tick; sl_irr st).
  assert (Bt : BRel (tick st t) (m14_b m)) by (apply (br_same st); auto; intro u; unfold tick; split; thr_simpl).
  assert (Rt : ERel ENone (tick st t) m).
  { apply (e_steq _ st); auto. intro u. unfold tick. repeat split; thr_simpl. }
  assert (Htt : (t < nthr (tick st t))%nat) by exact Ht.
  set (s0 := tick st t) in *. clearbody s0. clear En.
  destruct (tstarted (th s0 t)) eqn:Es0; cbn [negb] in H.
  - destruct (tcont (th s0 t)) as [|i r] eqn:Ec.
    + destruct (tscript (th s0 t)) as [|c0 cs] eqn:Es;
        [inversion H; subst; eapply e_msame; [exact R|apply m14r_plain_fold; intros e [<-|[]]; exact Logic.I]|].
      match type of H with context [begin_cmd ?S0 t ?cc] =>
        destruct (begin_cmd S0 t cc) as [[st2 ev0] done] eqn:Eb; set (s1 := S0) in * end.
      assert (Hcur0 : tcur (thr s0 t) = None).
      { destruct (tcur (thr s0 t)) eqn:E; auto. exfalso. apply (Yt t); [rewrite E; discriminate|exact Ec]. }
      assert (I1 : CInv (core s1)) by (eapply CInv_ceq; [|exact It]; unfold s1; same_core).
      assert (P1 : pristine s1) by (unfold s1; prist s0 t).
      assert (W1 : wfi s1) by (eapply wfi_eq; [| | |exact Wt]; reflexivity).
      assert (Hc1 : tcont (thr s1 t) = []) by (unfold s1; thr_simpl; exact Ec).
      assert (Hcur1 : tcur (thr s1 t) = Some c0) by (unfold s1; thr_simpl).
      assert (Sl1 : SlInv s1) by (unfold s1; sl_irr s0).
      assert (Hcur1' : tcur (thr s1 t) <> None) by (rewrite Hcur1; discriminate).
      assert (Q1 : PqInv s1).
      { unfold th in Ec, Es. apply (pq_idle s0 s1 t [] Qt Ec); try reflexivity.
        - exact Hc1.
        - unfold s1. thr_simpl.
        - unfold s1. thr_simpl.
        - unfold s1. cbn -[Nat.eqb]. unfold updN, th. rewrite Nat.eqb_refl. cbn. intros _ H0 _.
          apply (pk s0 Qt t Htt H0). right. rewrite Es. discriminate.
        - intros j [].
        - unfold s1. cbn -[Nat.eqb]. unfold updN, th. rewrite Nat.eqb_refl. cbn. apply (pf s0 Qt t). }
      pose proof (begin_cmd_Pq s1 t c0 st2 ev0 done I1 P1 Q1 Hc1 Htt Hcur1' Eb) as Q2.
      destruct (begin_cmd_inv s1 t c0 st2 ev0 done I1 P1 W1 Hc1 Htt Eb) as [I2 _].
      pose proof (begin_cmd_Sl s1 t c0 st2 ev0 done I1 P1 W1 Sl1 Hc1 Htt Eb) as Sl2.
      pose proof (begin_B s0 (m14_b m) t c0 cs st2 ev0 done Bt Pt Htt Hcur0 Ec Eb) as B2.
      destruct (begin_cmd_sum s1 t c0 st2 ev0 done P1 Htt Eb) as [_ [Ht2 [Ho2 [Hn _]]]].
      assert (Ht2' : (t < nthr st2)%nat) by (change (nthr s1) with (nthr s0) in Hn; destruct Hn as [Hn|[Hn _]]; lia).
      destruct (settle_B_events _ _ _ _ _ _ H) as [tail Et].
      assert (Hok : cmd_ok c0).
      { destruct c0; try exact Logic.I. cbn. apply Hq. rewrite Et. left. reflexivity. }
      unfold th in Ec, Es.
      pose proof (begin_E s0 m t c0 cs st2 ev0 done It Pt Wt Slt Qt Xt Rt Htt Ec Es Hok Eb) as R2.
      assert (X2 : XInv st2).
      { assert (Hs1 : tstarted (thr s1 t) = true) by (unfold s1; thr_simpl; exact Es0).
        assert (X1 : XInv s1).
        { constructor.
          - intros u. unfold s1. cbn -[Nat.eqb]. unfold updN, th. destruct (Nat.eqb_spec u t); subst; cbn; [intro E; discriminate E|apply (x_idle s0 Xt u)].
          - unfold s1. cbn -[Nat.eqb]. unfold updN, th. destruct (Nat.eqb_spec main t); subst; cbn; apply (x_main s0 Xt).
          - intros u. unfold s1. cbn -[Nat.eqb]. unfold updN, th. destruct (Nat.eqb_spec u t); subst; cbn; [unfold th in Es0; rewrite Es0; intro E; discriminate E|apply (x_fresh s0 Xt u)]. }
        exact (begin_cmd_X s1 t c0 st2 ev0 done X1 P1 Htt Hcur1' Hs1 Eb). }
      destruct (settle_E st2 _ t (ECmd c0 :: ev0) done st' ev (pendE t c0 done) I2 Sl2 X2 R2) as [tail' [Et' Rf]]; auto.
      * rewrite m14r_b_fold. exact B2.
      * apply (pf st2 Q2 t).
      * intros ->. apply (x_main _ X2).
      * intros ->. split; [destruct c0; reflexivity|]. intros c. rewrite Ht2, Hcur1. intro E. inversion E; subst c.
        destruct c0; try exact Logic.I; exfalso; (apply (begin_cmd_sp _ _ _ _ _ _ Eb); [intro Z0; exact Z0|reflexivity]).
      * intros v D. subst done. split; [rewrite (begin_cmd_done s1 t c0 st2 ev0 v Htt Eb); exact Hc1|].
        exists c0. split; [rewrite Ht2; exact Hcur1|reflexivity].
      * rewrite Et', evs_app, fold_left_app. exact Rf.
    + destruct (exec_instr s0 t i r) as [st1 ev1] eqn:Ee.
      unfold th in Ec.
      pose proof (exec_instr_E ENone s0 m t i r st1 ev1 It Slt Qt Xt Rt Htt Ec Ee) as R1.
      assert (I1 : CInv (core st1)) by (eapply exec_instr_inv; eauto).
      pose proof (exec_instr_Sl s0 t i r st1 ev1 It Pt Slt Htt Ec Ee) as Sl1.
      pose proof (exec_instr_B s0 (m14_b m) t i r st1 ev1 Bt Ec Htt Ee) as B1.
      pose proof (exec_instr_tf _ _ _ _ _ _ Ee) as F.
      assert (X1 : XInv st1) by (eapply (x_tframe s0 st1 t i r); eauto).
      destruct F as [Hn1 [Hf _]].
      destruct (settle_E st1 _ t ev1 None st' ev ENone I1 Sl1 X1 R1) as [tail' [Et' Rf]]; auto.
      * rewrite m14r_b_fold. exact B1.
      * lia.
      * destruct (Hf t) as [_ [_ [F0 _]]]. rewrite F0. apply (pf s0 Qt t).
      * intros ->. apply (x_main _ X1).
      * intros _. split; [reflexivity|]. intros c. destruct (Hf t) as [F0 _]. rewrite F0. apply Spt.
      * intros v D. discriminate D.
      * rewrite Et', evs_app, fold_left_app. exact Rf.
  - set (s1 := upd_th s0 t (set_tstarted (th s0 t) true)) in *.
    assert (I1 : CInv (core s1)) by (eapply CInv_ceq; [|exact It]; unfold s1; same_core).
    assert (Sl1 : SlInv s1) by (unfold s1; sl_irr s0).
    assert (B1 : BRel s1 (m14_b m)) by (apply (br_same s0); auto; intro u; unfold s1; split; thr_simpl).
    assert (X1 : XInv s1).
    { destruct (x_fresh s0 Xt t Es0) as [Q1 Q2]. constructor.
      - intros u. unfold s1. cbn -[Nat.eqb]. unfold updN, th. destruct (Nat.eqb_spec u t); subst; cbn; [unfold th in Q1; rewrite Q1; intros _ Z0; exfalso; apply Z0; reflexivity|apply (x_idle s0 Xt u)].
      - unfold s1. cbn -[Nat.eqb]. unfold updN, th. destruct (Nat.eqb_spec main t); subst; cbn; apply (x_main s0 Xt).
      - intros u. unfold s1. cbn -[Nat.eqb]. unfold updN, th. destruct (Nat.eqb_spec u t); subst; cbn; [intro Z0; discriminate Z0|apply (x_fresh s0 Xt u)]. }
    assert (R1 : ERel ENone s1 (m14r_step m (t, EStart))).
    { apply (e_msame _ _ m); [|apply m14r_plain_step; exact Logic.I]. apply (e_steq _ s0); auto. intro u. unfold s1. repeat split; thr_simpl. }
    destruct (settle_E s1 _ t [EStart] None st' ev ENone I1 Sl1 X1 R1) as [tail' [Et' Rf]]; auto;
      try (intros v D; discriminate D).
    + unfold s1. cbn -[Nat.eqb]. unfold updN, th. rewrite Nat.eqb_refl. cbn. apply (pf s0 Qt t).
    + intros ->. unfold s1. cbn -[Nat.eqb]. unfold updN, th. rewrite Nat.eqb_refl. cbn. apply (x_main _ Xt).
    + intros _. split; [reflexivity|]. intros c. unfold s1. cbn -[Nat.eqb]. unfold updN, th. rewrite Nat.eqb_refl. cbn. apply Spt.
    + rewrite Et'. change (evs t ([EStart] ++ tail')) with ((t, EStart) :: evs t tail'). cbn [fold_left]. exact Rf.
Qed.

Lemma E_init : forall scr, ERel ENone (winit scr) m14_0.
Proof.
  intro scr.
  assert (E : forall x, slab_get (mkSlab (fun _ => SVac 0) 0 0) x = None).
  { intro x. unfold slab_get. cbn. destruct ((0 <=? x) && (x <? 0)); reflexivity. }
  assert (Tp : forall u, tpipe (thr (winit scr) u) = -1) by (intro u; reflexivity).
  assert (Nw : forall u, ~ wkr (winit scr) u) by (intros u [_ W]; rewrite Tp in W; lia).
  constructor; cbn [m14_0 m14_bad m14_b m14_owner m14_lsend m14_lsdone m14_fwd m14_term m14_panic m14_exited mb0 b_nthr on_pipe memZ existsb get_tid].
  - reflexivity.
  - reflexivity.
  - intros t q H. discriminate H.
  - intros u q. split; [intro H; discriminate H|intros [_ [A B]]; rewrite Tp in A; lia].
  - intros u u' H. exfalso. exact (Nw u H).
  - intros u H. exfalso. exact (Nw u H).
  - intros q H. cbn in H. discriminate H.
  - intros q _. cbn. repeat split; auto. intros x G. change (sl (winit scr)) with (mkSlab (fun _ => SVac 0) 0 0) in G. rewrite E in G. discriminate G.
  - intros q [[m0 [ms [tm H]]]|[m0 [d H]]]; cbn in H; destruct H.
  - intros x y q G. change (sl (winit scr)) with (mkSlab (fun _ => SVac 0) 0 0) in G. rewrite E in G. discriminate G.
  - intros u H. exfalso. exact (Nw u H).
  - intros u x H. exfalso. exact (Nw u H).
  - intros q x [].
  - intros q H. discriminate H.
  - intros m0 q H. cbn in H. destruct H.
  - intros q [m0 [ms [b H]]]. cbn in H. destruct H.
  - intros i r0 j H. cbn in H. discriminate H.
  - intros u j _ H. cbn in H. destruct H.
  - intros u H. exfalso. exact (Nw u H).
  - intros u q m0 a b H. cbn in H. destruct a; discriminate H.
  - intros m0 q ms b H. cbn in H. destruct H.
  - intros u H. exfalso. exact (Nw u H).
  - intros q H. discriminate H.
Qed.

Definition pnew_ok (tr : otrace) : Prop := forall t q, In (t, ECmd (CPNew q)) tr -> 0 <= q.

Theorem wrun_E : forall sched st m,
  AllInv st -> SpInv st -> BRel st (m14_b m) -> ERel ENone st m -> pnew_ok (flatten (snd (wrun st sched))) ->
  AllInv (fst (wrun st sched)) /\
  BRel (fst (wrun st sched)) (m14_b (fold_left m14r_step (flatten (snd (wrun st sched))) m)) /\
  ERel ENone (fst (wrun st sched)) (fold_left m14r_step (flatten (snd (wrun st sched))) m).
Proof.
  induction sched as [|t rest IH]; intros st m A Sp B R Hok; [cbn; auto|].
  cbn [wrun] in *.
  destruct (wstep st t) as [st1 ev] eqn:E.
  destruct (wrun st1 rest) as [st2 tr] eqn:Er. cbn [fst snd] in *.
  rewrite flatten_cons in *. rewrite fold_left_app.
  assert (Hq : forall q, In (ECmd (CPNew q)) ev -> 0 <= q).
  { intros q Hin. apply (Hok t q). apply in_or_app. left. unfold evs. apply in_map_iff. exists (ECmd (CPNew q)). auto. }
  pose proof (wstep_E st m t st1 ev A Sp B R E Hq) as R1.
  pose proof (wstep_All st t st1 ev A E) as A1.
  assert (Sp1 : SpInv st1) by (destruct A as [[_ [P _]] _ _ _ _ _ _ _ _ _]; exact (wstep_Sp st t st1 ev P Sp E)).
  assert (B1 : BRel st1 (m14_b (fold_left m14r_step (evs t ev) m))).
  { rewrite m14r_b_fold. destruct A as [M _ _ _ _ _ X Y _ _]. exact (wstep_B st _ t st1 ev M X Y B E). }
  specialize (IH st1 _ A1 Sp1 B1 R1). rewrite Er in IH. cbn [fst snd] in IH. apply IH.
  intros u q Hin. apply (Hok u q). apply in_or_app. right. exact Hin.
Qed.

Lemma In_memZ : forall x l, In x l -> memZ x l = true.
Proof. intros x l H. unfold memZ. apply existsb_exists. exists x. split; [exact H|apply Z.eqb_refl]. Qed.

(** C14, replies / termination half, trace form.  On every run of the model whose [pnew] commands name
    non-negative pipes: [fwd_recv] gets exactly the replies that [send] queued, in order (a prefix of them at every
    moment), never after [fwd_term]; [fwd_term] is called at most once per pipe, with the panic flag of the worker;
    and at quiescence every [send] that returned has been forwarded and every worker that exited has had its
    [fwd_term]. *)
Theorem C14r_monitor : forall scr sched,
  pnew_ok (flatten (wtrace scr sched)) -> C14r_ok (flatten (wtrace scr sched)) = true.
Proof.
  intros scr sched Hok. unfold wtrace in *.
  destruct (wrun_E sched (winit scr) m14_0 (All_init scr) (Sp_init scr) (mb0_rel scr) (E_init scr) Hok) as [A [B R]].
  set (st := fst (wrun (winit scr) sched)) in *.
  set (m := fold_left m14r_step (flatten (snd (wrun (winit scr) sched))) m14_0) in *.
  unfold C14r_ok. fold m. cbn zeta.
  rewrite (e_bad _ st m R). cbn [negb andb].
  destruct (b_exit (m14_b m)) eqn:Ee; [|reflexivity]. destruct (b_notif (m14_b m)) eqn:En; [reflexivity|]. destruct (b_cur (m14_b m)) eqn:Ec; [|reflexivity].
  cbn [negb andb].
  assert (Eq : mb_quiescent (m14_b m) = true) by (unfold mb_quiescent; rewrite Ec, Ee, En; reflexivity).
  assert (Rs : reachable st) by (exists scr, sched; reflexivity).
  destruct A as [[I [P Wf]] _ _ _ _ Q X _ _ _].
  pose proof (mbq_quiescent st _ B X P Eq) as Qs.
  pose proof (drops_not_stranded st Rs Qs) as Dl.
  assert (Qm : mcont st = []) by (destruct Qs as [_ [Qm _]]; exact Qm).
  assert (Cur : forall t, (t < nthr st)%nat -> tcur (thr st t) = None).
  { intros t Ht. rewrite <- (br_cur st _ B t Ht), Ec. reflexivity. }
  apply andb_true_iff. split.
  - apply forallb_forall. intros [q x] Hin. cbn [fst snd].
    pose proof (e_lsdone _ st m R q x Hin) as L. rewrite Qm in L. cbn [ufw flat_map app] in L.
    assert (Pq : precvq (pps st q) = []).
    { apply (replies_not_stranded st q Rs Qs). intros t bm a b Hc.
      destruct (pc2 st Q t bm a b q Hc) as [_ [_ [Z0 _]]]. apply Z0.
      destruct (le_lt_dec (nthr st) t) as [Hge|Hlt]; [|apply Cur; exact Hlt].
      exfalso. destruct P as [_ P]. destruct (P t Hge) as [Z1 _]. rewrite Z1 in Hc. destruct Hc. }
    rewrite Pq, app_nil_r in L. apply In_memZ. exact L.
  - apply forallb_forall. intros q Hin. apply In_memZ in Hin.
    destruct (e_exited _ st m R q Hin) as [T|[[x [Hx _]]|[Hx|[m0 [ms [b Hx]]]]]]; [exact T| | |].
    + exfalso. unfold pipeline in Hx. fold (mcont st) in Hx. rewrite Dl, Qm in Hx. destruct Hx.
    + exfalso. rewrite Qm in Hx. destruct Hx.
    + exfalso. rewrite Qm in Hx. destruct Hx.
Qed.
Print Assumptions C14r_monitor.
