(** * Layer W: the channel (C13).

    [ChInv]: while a channel is open, a non-empty queue means that a wake-up is owed to the channel's handler
    ([ch_q]); a sender that has decided to push (it found the channel open) still holds the channel mutex, and
    either the queue was non-empty, or the wake-up is already owed, or the sender is about to execute the leaf
    [fetch_or] of exactly the channel's slot ([ch_push]); after the close, the queue is empty or the closing
    thread is about to clear it under the mutex ([ch_closed]).  The slot of an open channel holds the channel's
    handler ([SlInv]), so that leaf [fetch_or] credits the right handler.  With C11 ([not_stranded]):
    in a quiescent state every open channel's queue has been handed to its handler. *)
From Coq Require Import ZArith List Bool Arith Lia.
From Stk Require Import Lib.U Gen.SrcWaker W.Waker W.WakerArith W.WakerCore W.WakerSlab W.WakerPres W.WakerRefine
  W.WakerProofs W.WakerGhost W.WakerLock W.WakerDrop W.WakerSlot W.WakerWf.
Import ListNotations.
Local Open Scope Z_scope.

Definition leafhead (k : list instr) (x : Z) : Prop :=
  exists bm a b who r, k = IClimb (KLeaf bm a b who) :: r /\ 4096 * bm + 64 * a + b = x.

Definition chwf (j : instr) : Prop :=
  match j with
  | IYieldH h _ => exists w, h = HPlain w
  | IUnlock m (UChPush c _) => m = MCh c
  | IUnlock m (UChClear c) => m = MCh c
  | _ => True
  end.

Record ChInv (st : wstate) : Prop := {
  ch_q : forall c, copen (chs st c) = true -> cq (chs st c) <> [] -> owed st (HChan c);
  ch_push : forall t c m, In (IUnlock (MCh c) (UChPush c m)) (tcont (thr st t)) ->
            copen (chs st c) = true /\
            (cq (chs st c) <> [] \/ owed st (HChan c) \/ leafhead (tcont (thr st t)) (wbit (cw (chs st c))));
  ch_closed : forall c, copen (chs st c) = false ->
            cq (chs st c) = [] \/ exists t, In (IUnlock (MCh c) (UChClear c)) (tcont (thr st t));
  ch_wf : forall t j, In j (tcont (thr st t)) -> chwf j }.

(** instructions that may leave the head of a continuation without further obligation *)
Definition quiet (chg : Z -> bool) (j : instr) : Prop :=
  match j with
  | IUnlock _ (UChPush c _) | IUnlock _ (UChClear c) => chg c = true
  | _ => True
  end.

(** what a step may add to a continuation [k] *)
Definition fresh_ok (st : wstate) (k : list instr) (j : instr) : Prop :=
  match j with
  | IUnlock m0 (UChPush c _) =>
      m0 = MCh c /\ copen (chs st c) = true /\
      (cq (chs st c) <> [] \/ owed st (HChan c) \/ leafhead k (wbit (cw (chs st c))))
  | IUnlock m0 (UChClear c) => m0 = MCh c
  | IYieldH h _ => exists w, h = HPlain w
  | _ => True
  end.

Lemma fresh_chwf : forall st k j, fresh_ok st k j -> chwf j.
Proof. intros st k j H. destruct j; cbn in *; auto. destruct a; cbn in *; auto. destruct H; auto. Qed.

(** thread [t] replaces the prefix [pre] of its continuation by [new]; the channels in [chg] change *)
Section ChStep.
  Variables (st st' : wstate) (t : tid) (pre r new : list instr) (chg : Z -> bool).
  Hypothesis C : ChInv st.
  Hypothesis Hc : tcont (thr st t) = pre ++ r.
  Hypothesis Hc' : tcont (thr st' t) = new ++ r.
  Hypothesis Ho : forall u, u <> t -> tcont (thr st' u) = tcont (thr st u).
  Hypothesis Hch : forall c, chg c = false ->
     copen (chs st' c) = copen (chs st c) /\ cq (chs st' c) = cq (chs st c) /\ cw (chs st' c) = cw (chs st c).
  Hypothesis How : forall c, chg c = false -> owed st (HChan c) -> owed st' (HChan c).
  Hypothesis Hpre : forall j, In j pre -> quiet chg j.
  Hypothesis Hnew : forall j, In j new -> fresh_ok st (new ++ r) j.
  Hypothesis Hnp : forall c, chg c = true -> forall u m, ~ In (IUnlock (MCh c) (UChPush c m)) (tcont (thr st' u)).
  Hypothesis Hlh : forall c, chg c = false -> copen (chs st c) = true ->
     leafhead (pre ++ r) (wbit (cw (chs st c))) -> owed st' (HChan c).
  Hypothesis Q0 : forall c, chg c = true -> copen (chs st' c) = true -> cq (chs st' c) <> [] -> owed st' (HChan c).
  Hypothesis CL0 : forall c, chg c = true -> copen (chs st' c) = false ->
     cq (chs st' c) = [] \/ exists u, In (IUnlock (MCh c) (UChClear c)) (tcont (thr st' u)).

  Lemma ch_step : ChInv st'.
  Proof.
    constructor.
    - intros c Ho' Hq. destruct (chg c) eqn:Eg; [apply Q0; auto|].
      destruct (Hch c Eg) as [A [B _]]. rewrite A in Ho'. rewrite B in Hq. apply How; auto. apply (ch_q st C); auto.
    - intros u c m Hin. destruct (chg c) eqn:Eg; [exfalso; eapply Hnp; eauto|].
      destruct (Hch c Eg) as [A [B D]]. rewrite A, B, D.
      destruct (Nat.eq_dec u t) as [->|Hu].
      + rewrite Hc' in Hin. apply in_app_or in Hin. destruct Hin as [Hin|Hin].
        * specialize (Hnew _ Hin). cbn in Hnew. destruct Hnew as [_ [Op Alt]]. split; [exact Op|].
          destruct Alt as [Alt|[Alt|Alt]]; [left; exact Alt|right; left; apply How; auto|right; right; rewrite Hc'; exact Alt].
        * assert (Hin' : In (IUnlock (MCh c) (UChPush c m)) (tcont (thr st t))) by (rewrite Hc; apply in_or_app; auto).
          destruct (ch_push st C t c m Hin') as [Op Alt]. split; [exact Op|].
          destruct Alt as [Alt|[Alt|Alt]]; [left; exact Alt|right; left; apply How; auto|].
          right; left. apply Hlh; auto. rewrite <- Hc. exact Alt.
      + rewrite (Ho u Hu) in *. destruct (ch_push st C u c m Hin) as [Op Alt]. split; [exact Op|].
        destruct Alt as [Alt|[Alt|Alt]]; [left; exact Alt|right; left; apply How; auto|right; right; exact Alt].
    - intros c Hcl. destruct (chg c) eqn:Eg; [apply CL0; auto|].
      destruct (Hch c Eg) as [A [B _]]. rewrite A in Hcl. rewrite B.
      destruct (ch_closed st C c Hcl) as [E|[u Hin]]; [left; exact E|]. right.
      destruct (Nat.eq_dec u t) as [->|Hu].
      + exists t. rewrite Hc in Hin. rewrite Hc'. apply in_app_or in Hin. destruct Hin as [Hin|Hin].
        * specialize (Hpre _ Hin). cbn in Hpre. congruence.
        * apply in_or_app. auto.
      + exists u. rewrite (Ho u Hu). exact Hin.
    - intros u j Hin. destruct (Nat.eq_dec u t) as [->|Hu].
      + rewrite Hc' in Hin. apply in_app_or in Hin. destruct Hin as [Hin|Hin].
        * eapply fresh_chwf. apply Hnew. exact Hin.
        * apply (ch_wf st C t). rewrite Hc. apply in_or_app. auto.
      + rewrite (Ho u Hu) in Hin. apply (ch_wf st C u). exact Hin.
  Qed.
End ChStep.

(** a thread replaces its whole continuation [k] by [k1], which keeps everything but main-only bookkeeping and
    adds only starts of handler calls (normalisation); nothing else changes *)
Lemma ch_replace : forall st st' t k1,
  ChInv st ->
  tcont (thr st' t) = k1 ->
  (forall u, u <> t -> tcont (thr st' u) = tcont (thr st u)) ->
  chs st' = chs st -> gnew st' = gnew st -> gcol st' = gcol st ->
  (forall j, In j k1 -> In j (tcont (thr st t)) \/ (forall k, fresh_ok st k j) /\ (forall m a, j <> IUnlock m a)) ->
  (forall j, In j (tcont (thr st t)) -> main_only j = false -> In j k1) ->
  (forall x, leafhead (tcont (thr st t)) x -> k1 = tcont (thr st t)) ->
  ChInv st'.
Proof.
  intros st st' t k1 C Hc' Ho Hch Hgn Hgc Hin1 Hin2 Hlh.
  assert (Ow : forall h, owed st' h <-> owed st h) by (intro h; unfold owed; rewrite Hgn, Hgc; tauto).
  constructor.
  - intros c. rewrite Hch, Ow. apply (ch_q st C).
  - intros u c m Hin. rewrite Hch, Ow. destruct (Nat.eq_dec u t) as [->|Hu].
    + rewrite Hc' in *. destruct (Hin1 _ Hin) as [Hold|[_ Hn]]; [|exfalso; eapply Hn; reflexivity].
      destruct (ch_push st C t c m Hold) as [Op Alt]. split; [exact Op|].
      destruct Alt as [Alt|[Alt|Alt]]; auto. right; right. rewrite (Hlh _ Alt). exact Alt.
    + rewrite (Ho u Hu) in *. apply (ch_push st C u c m Hin).
  - intros c. rewrite Hch. intro Hcl. destruct (ch_closed st C c Hcl) as [E|[u Hin]]; [left; exact E|]. right.
    destruct (Nat.eq_dec u t) as [->|Hu].
    + exists t. rewrite Hc'. apply Hin2; auto.
    + exists u. rewrite (Ho u Hu). exact Hin.
  - intros u j Hin. destruct (Nat.eq_dec u t) as [->|Hu].
    + rewrite Hc' in Hin. destruct (Hin1 _ Hin) as [Hold|[Hf _]]; [apply (ch_wf st C t); auto|].
      eapply fresh_chwf. apply (Hf []).
    + rewrite (Ho u Hu) in Hin. apply (ch_wf st C u). exact Hin.
Qed.

(** the leaf [fetch_or] of the bit of an open channel's slot credits the channel's handler *)
Lemma leaf_credit : forall st t bm a b who r c,
  CInv (core st) -> SlInv st -> tcont (thr st t) = IClimb (KLeaf bm a b who) :: r ->
  copen (chs st c) = true -> 4096 * bm + 64 * a + b = wbit (cw (chs st c)) ->
  bitmap_join a b (bmbase st bm) = Some (wbit (cw (chs st c))) /\
  slab_get (sl st) (wbit (cw (chs st c))) = Some (HChan c).
Proof.
  intros st t bm a b who r c I S Hc Op E. pose proof (i_slab _ I) as SI.
  pose proof (i_wf _ I t (IClimb (KLeaf bm a b who))) as W. cbn [core c_cont] in W. rewrite Hc in W.
  destruct (W (or_introl eq_refl)) as [Hreg [Ha Hb]].
  pose proof (s_base _ SI bm Hreg) as Hbase. cbn [core c_base] in Hbase.
  destruct (creg_bound _ bm SI Hreg) as [B0 B1].
  split.
  - rewrite Hbase, bitmap_join_spec by lia. f_equal. lia.
  - apply (sl_claim st S). right; left. exists c. auto.
Qed.

Lemma ch_eq : forall st st',
  (forall u, tcont (thr st' u) = tcont (thr st u)) -> chs st' = chs st -> gnew st' = gnew st -> gcol st' = gcol st ->
  ChInv st -> ChInv st'.
Proof.
  intros st st' Hc Hch Hgn Hgc C.
  assert (Ow : forall h, owed st' h <-> owed st h) by (intro h; unfold owed; rewrite Hgn, Hgc; tauto).
  constructor.
  - intros c. rewrite Hch, Ow. apply (ch_q st C).
  - intros u c m. rewrite Hc, Hch, Ow. apply (ch_push st C).
  - intros c. rewrite Hch. intro Hcl. destruct (ch_closed st C c Hcl) as [E|[u Hin]]; [left; exact E|].
    right. exists u. rewrite Hc. exact Hin.
  - intros u j. rewrite Hc. apply (ch_wf st C).
Qed.

Lemma in_unlock_nhold : forall k m a, In (IUnlock m a) k -> (0 < nhold k m)%nat.
Proof.
  induction k as [|i k IH]; intros m a Hin; [destruct Hin|]. rewrite nhold_cons. destruct Hin as [->|Hin].
  - cbn [holdb]. rewrite mtx_eqb_refl. lia.
  - specialize (IH _ _ Hin). lia.
Qed.

(** nobody is about to push on [c] when nobody holds the mutex of [c] *)
Lemma np_free : forall st st' t pre r new c,
  tcont (thr st t) = pre ++ r -> tcont (thr st' t) = new ++ r ->
  (forall u, u <> t -> tcont (thr st' u) = tcont (thr st u)) ->
  (forall u, u <> t -> nhold (tcont (thr st u)) (MCh c) = O) -> nhold r (MCh c) = O ->
  (forall m, ~ In (IUnlock (MCh c) (UChPush c m)) new) ->
  forall u m, ~ In (IUnlock (MCh c) (UChPush c m)) (tcont (thr st' u)).
Proof.
  intros st st' t pre r new c Hc Hc' Ho Hf Hr Hn u m Hin.
  destruct (Nat.eq_dec u t) as [->|Hu].
  - rewrite Hc' in Hin. apply in_app_or in Hin. destruct Hin as [Hin|Hin]; [eapply Hn; eauto|].
    apply in_unlock_nhold in Hin. lia.
  - rewrite (Ho u Hu) in Hin. apply in_unlock_nhold in Hin. rewrite (Hf u Hu) in Hin. lia.
Qed.

Ltac in_cases Hj := cbn in Hj; repeat (destruct Hj as [<-|Hj]); try contradiction.
Ltac ch_pre := let j := fresh "j" in let Hj := fresh "Hj" in intros j Hj; in_cases Hj; exact Logic.I.
Ltac ch_new := let j := fresh "j" in let Hj := fresh "Hj" in intros j Hj; in_cases Hj; cbn; eauto.
Ltac ch_nolh := let E := fresh "E" in intros ? ? ? [? [? [? [? [? [E _]]]]]]; cbn in E; discriminate E.
Ltac ch_owed := let Hw := fresh "Hw" in intros ? ? Hw; revert Hw; unfold owed; cbn; rewrite ?updH_other by discriminate; auto.
Ltac ch_chs := intros; cbn; repeat split; reflexivity.

(** a step that touches no channel record *)
Ltac chn st t pre r new :=
  apply (ch_step st _ t pre r new (fun _ => false));
  [ assumption | eassumption | thr_simpl | thr_simpl | ch_chs | ch_owed | ch_pre | ch_new
  | intros; discriminate | ch_nolh | intros; discriminate | intros; discriminate ].

Lemma HChan_neq : forall c0 c, (c0 =? c) = false -> HChan c0 <> HChan c.
Proof. intros c0 c E F. inversion F; subst. rewrite Z.eqb_refl in E. discriminate. Qed.

Lemma exec_lact_Ch : forall st t m a r st' ev,
  CInv (core st) -> wfi st -> WInv st -> ChInv st ->
  tcont (thr st t) = [ILock m a] ++ r -> m = lact_mtx a ->
  (forall u, nhold (tcont (thr st u)) m = O) ->
  exec_lact st t a r = (st', ev) -> ChInv st'.
Proof.
  intros st t m a r st' ev I Wf W C Hc Hm Hfree H.
  assert (Hr : nhold r m = O).
  { pose proof (Hfree t) as F. rewrite Hc in F. cbn [app] in F. rewrite nhold_cons in F. cbn [holdb] in F. lia. }
  destruct a; cbn [exec_lact] in H.
  - (* LPush *)
    destruct (climb_reserved st bm) as [i|] eqn:Ecl; inversion H; subst; clear H.
    + apply climb_at_climb in Ecl. destruct Ecl as [k ->].
      chn st t [ILock (lact_mtx (LPush bit bm who)) (LPush bit bm who)] r [IClimb k; IUnlock MDL UNone].
    + chn st t [ILock (lact_mtx (LPush bit bm who)) (LPush bit bm who)] r [IUnlock MDL UNone].
  - (* LTake *)
    unfold ghost_handler in H. inversion H; subst; clear H.
    chn st t [ILock (lact_mtx LTake) LTake] r [IUnlock MDL (UDels (dl st))].
  - inversion H; subst; clear H. chn st t [ILock (lact_mtx (LChInit c)) (LChInit c)] r [IUnlock (MCh c) (UChReg c)].
  - (* LChSend *)
    destruct (copen (chs st c)) eqn:Eo.
    + destruct (cq (chs st c)) eqn:Eq.
      * assert (Hw : wfw st (cw (chs st c))).
        { apply (ww_ch st W). destruct Wf as [_ [_ W3]]. apply W3. exact Eo. }
        destruct (climb_start_ok st (cw (chs st c)) (Some (HChan c)) I Hw) as [a [b [E [Ha [Hb Hx]]]]].
        rewrite E in H. inversion H; subst; clear H.
        apply (ch_step st _ t [ILock (lact_mtx (LChSend c m0)) (LChSend c m0)] r
                 [IClimb (KLeaf (wbm (cw (chs st c))) a b (Some (HChan c))); IUnlock (MCh c) (UChPush c m0)] (fun _ => false));
          [ assumption | eassumption | thr_simpl | thr_simpl | ch_chs | ch_owed | ch_pre |
          | intros; discriminate | ch_nolh | intros; discriminate | intros; discriminate ].
        intros j Hj. in_cases Hj; cbn; auto. split; [reflexivity|]. split; [exact Eo|]. right; right.
        exists (wbm (cw (chs st c))), a, b, (Some (HChan c)). eexists. split; [reflexivity|exact Hx].
      * inversion H; subst; clear H.
        apply (ch_step st _ t [ILock (lact_mtx (LChSend c m0)) (LChSend c m0)] r [IUnlock (MCh c) (UChPush c m0)] (fun _ => false));
          [ assumption | eassumption | thr_simpl | thr_simpl | ch_chs | ch_owed | ch_pre |
          | intros; discriminate | ch_nolh | intros; discriminate | intros; discriminate ].
        intros j Hj. in_cases Hj; cbn; auto. split; [reflexivity|]. split; [exact Eo|]. left. rewrite Eq. discriminate.
    + inversion H; subst; clear H.
      chn st t [ILock (lact_mtx (LChSend c m0)) (LChSend c m0)] r [IUnlock (MCh c) (URet (RBool false))].
  - inversion H; subst; clear H.
    chn st t [ILock (lact_mtx (LChClosed c)) (LChClosed c)] r [IUnlock (MCh c) (URet (RBool (negb (copen (chs st c)))))].
  - (* LChClose *)
    destruct (copen (chs st c)) eqn:Eo; inversion H; subst; clear H.
    + match goal with |- ChInv ?S' => set (st' := S') end.
      assert (Hc' : tcont (thr st' t) = [ILock MDL (LPush (wbit (cw (chs st c))) (wbm (cw (chs st c))) (HChan c)); IUnlock (MCh c) (UChClear c)] ++ r)
        by (unfold st'; thr_simpl).
      assert (Ho : forall u, u <> t -> tcont (thr st' u) = tcont (thr st u)) by (unfold st'; thr_simpl).
      apply (ch_step st st' t [ILock (lact_mtx (LChClose c)) (LChClose c)] r _ (fun c0 => c0 =? c) C Hc Hc' Ho).
      * intros c0 E. unfold st'. cbn. unfold updZ. rewrite E. repeat split; reflexivity.
      * intros c0 _ Hw. exact Hw.
      * ch_pre.
      * ch_new.
      * intros c0 E. apply Z.eqb_eq in E. subst c0.
        eapply (np_free st st' t _ r _ c Hc Hc' Ho); auto.
        intros m [E|[E|[]]]; discriminate.
      * ch_nolh.
      * intros c0 E. apply Z.eqb_eq in E. subst c0. unfold st'. cbn. unfold updZ. rewrite Z.eqb_refl. cbn. discriminate.
      * intros c0 E _. apply Z.eqb_eq in E. subst c0. right. exists t. rewrite Hc'. right; left. reflexivity.
    + chn st t [ILock (lact_mtx (LChClose c)) (LChClose c)] r [IUnlock (MCh c) (UChClear c)].
  - (* LChHandler *)
    unfold ghost_handler in H. inversion H; subst; clear H.
    match goal with |- ChInv ?S' => set (st' := S') end.
    assert (Hc' : tcont (thr st' t) = [IUnlock (MCh c) (UFwd c (if copen (chs st c) then cq (chs st c) else []))] ++ r)
      by (unfold st'; destruct del; thr_simpl).
    assert (Ho : forall u, u <> t -> tcont (thr st' u) = tcont (thr st u)) by (unfold st'; destruct del; thr_simpl).
    apply (ch_step st st' t [ILock (lact_mtx (LChHandler c del)) (LChHandler c del)] r _ (fun c0 => c0 =? c) C Hc Hc' Ho).
    + intros c0 E. unfold st'. destruct del; cbn; unfold updZ; rewrite E; repeat split; reflexivity.
    + intros c0 E Hw. pose proof (HChan_neq _ _ E) as N. revert Hw. unfold st', owed. destruct del; cbn; rewrite ?updH_other by exact N; auto.
    + ch_pre.
    + ch_new.
    + intros c0 E. apply Z.eqb_eq in E. subst c0.
      eapply (np_free st st' t _ r _ c Hc Hc' Ho); auto.
      intros m [E|[]]; discriminate.
    + ch_nolh.
    + intros c0 E _ Hq. apply Z.eqb_eq in E. subst c0. exfalso. apply Hq. unfold st'. destruct del; cbn; unfold updZ; rewrite Z.eqb_refl; reflexivity.
    + intros c0 E _. apply Z.eqb_eq in E. subst c0. left. unfold st'. destruct del; cbn; unfold updZ; rewrite Z.eqb_refl; reflexivity.
  - (* LPqHandler *)
    unfold ghost_handler in H. inversion H; subst; clear H.
    destruct del; [chn st t [ILock (lact_mtx (LPqHandler p true)) (LPqHandler p true)] r [IUnlock (MPq p) (UPqFwd p (precvq (pps st p)) (Some (ppanic (pps st p))))]
                  |chn st t [ILock (lact_mtx (LPqHandler p false)) (LPqHandler p false)] r [IUnlock (MPq p) (UPqFwd p (precvq (pps st p)) None)]].
  - destr_all H; inversion H; subst; clear H.
    + chn st t [ILock (lact_mtx (LPqSend p m0)) (LPqSend p m0)] r [IUnlock (MPq p) UNone; INotify p].
    + chn st t [ILock (lact_mtx (LPqSend p m0)) (LPqSend p m0)] r [IUnlock (MPq p) UNone].
  - inversion H; subst; clear H. chn st t [ILock (lact_mtx (LPqCancelSet p)) (LPqCancelSet p)] r [IUnlock (MPq p) UNone; INotify p].
  - destr_all H; inversion H; subst; clear H.
    + chn st t [ILock (lact_mtx (LPqRecv p)) (LPqRecv p)] r [IUnlock (MPq p) (URet RNoneV)].
    + chn st t [ILock (lact_mtx (LPqRecv p)) (LPqRecv p)] r [ICvWait p; ICvReacq p].
    + chn st t [ILock (lact_mtx (LPqRecv p)) (LPqRecv p)] r [IUnlock (MPq p) (URet (RVal z))].
  - inversion H; subst; clear H.
    destruct (precvq (pps st p)).
    + destruct (climb_start st (pw (pps st p)) (Some (HPipe p))) as [i|] eqn:E; cbn [olist app].
      * apply climb_at_climb in E. destruct E as [k ->].
        chn st t [ILock (lact_mtx (LPqLSend p m0)) (LPqLSend p m0)] r [IUnlock (MPq p) (URet (RBool (negb (pcancel (pps st p))))); IClimb k].
      * chn st t [ILock (lact_mtx (LPqLSend p m0)) (LPqLSend p m0)] r [IUnlock (MPq p) (URet (RBool (negb (pcancel (pps st p)))))].
    + chn st t [ILock (lact_mtx (LPqLSend p m0)) (LPqLSend p m0)] r [IUnlock (MPq p) (URet (RBool (negb (pcancel (pps st p)))))].
  - inversion H; subst; clear H. chn st t [ILock (lact_mtx (LPqCancelGet p)) (LPqCancelGet p)] r [IUnlock (MPq p) (URet (RBool (pcancel (pps st p))))].
  - inversion H; subst; clear H. chn st t [ILock (lact_mtx (LPqPanic p)) (LPqPanic p)] r [IUnlock (MPq p) UNone].
Qed.

Lemma exec_uact_Ch : forall st t m a r st' ev,
  ChInv st -> tcont (thr st t) = [IUnlock m a] ++ r ->
  (forall u, u <> t -> nhold (tcont (thr st u)) m = O) -> nhold r m = O ->
  exec_uact st t a r = (st', ev) -> ChInv st'.
Proof.
  intros st t m a r st' ev C Hc Hfree Hr H.
  assert (Hwf : chwf (IUnlock m a)) by (apply (ch_wf st C t); rewrite Hc; left; reflexivity).
  destruct a; cbn [exec_uact] in H; inversion H; subst; clear H.
  - chn st t [IUnlock m UNone] r (@nil instr).
  - chn st t [IUnlock m (URet v)] r (@nil instr).
  - chn st t [IUnlock m (UDels l)] r [IDels l].
  - (* UChReg: only [creg]/[cguard] change *)
    apply (ch_step st _ t [IUnlock m (UChReg c)] r (@nil instr) (fun _ => false));
      [ assumption | eassumption | thr_simpl | thr_simpl | | ch_owed | ch_pre | ch_new
      | intros; discriminate | ch_nolh | intros; discriminate | intros; discriminate ].
    intros c0 _. cbn. unfold updZ. destruct (Z.eqb_spec c0 c); subst; cbn; repeat split; reflexivity.
  - (* UChPush *)
    cbn in Hwf. subst m.
    match goal with |- ChInv ?S' => set (st' := S') end.
    assert (Hc' : tcont (thr st' t) = [] ++ r) by (unfold st'; thr_simpl).
    assert (Ho : forall u, u <> t -> tcont (thr st' u) = tcont (thr st u)) by (unfold st'; thr_simpl).
    destruct (ch_push st C t c m0) as [Op Alt]; [rewrite Hc; left; reflexivity|].
    assert (Ow : owed st (HChan c)).
    { destruct Alt as [Alt|[Alt|[? [? [? [? [? [E _]]]]]]]]; [apply (ch_q st C); auto|exact Alt|rewrite Hc in E; discriminate E]. }
    apply (ch_step st st' t [IUnlock (MCh c) (UChPush c m0)] r [] (fun c0 => c0 =? c) C Hc Hc' Ho).
    + intros c0 E. unfold st'. cbn. unfold updZ. rewrite E. repeat split; reflexivity.
    + intros c0 _ Hw. exact Hw.
    + intros j Hj. in_cases Hj. cbn. apply Z.eqb_refl.
    + intros j [].
    + intros c0 E. apply Z.eqb_eq in E. subst c0.
      eapply (np_free st st' t _ r _ c Hc Hc' Ho); auto.
    + intros c0 E. destruct (Z.eqb_spec c0 c) as [|N]; [discriminate|]. clear E.
      intros _ [? [? [? [? [? [E _]]]]]]. discriminate E.
    + intros c0 E _ _. apply Z.eqb_eq in E. subst c0. exact Ow.
    + intros c0 E Hcl. apply Z.eqb_eq in E. subst c0. exfalso. revert Hcl. unfold st'. cbn. unfold updZ. rewrite Z.eqb_refl. cbn. congruence.
  - (* UChClear *)
    cbn in Hwf. subst m.
    match goal with |- ChInv ?S' => set (st' := S') end.
    assert (Hc' : tcont (thr st' t) = [] ++ r) by (unfold st'; thr_simpl).
    assert (Ho : forall u, u <> t -> tcont (thr st' u) = tcont (thr st u)) by (unfold st'; thr_simpl).
    apply (ch_step st st' t [IUnlock (MCh c) (UChClear c)] r [] (fun c0 => c0 =? c) C Hc Hc' Ho).
    + intros c0 E. unfold st'. cbn. unfold updZ. rewrite E. repeat split; reflexivity.
    + intros c0 _ Hw. exact Hw.
    + intros j Hj. in_cases Hj. cbn. apply Z.eqb_refl.
    + intros j [].
    + intros c0 E. apply Z.eqb_eq in E. subst c0.
      eapply (np_free st st' t _ r _ c Hc Hc' Ho); auto.
    + intros c0 E _ [? [? [? [? [? [E' _]]]]]]. discriminate E'.
    + intros c0 E _ Hq. apply Z.eqb_eq in E. subst c0. exfalso. apply Hq. unfold st'. cbn. unfold updZ. rewrite Z.eqb_refl. reflexivity.
    + intros c0 E _. apply Z.eqb_eq in E. subst c0. left. unfold st'. cbn. unfold updZ. rewrite Z.eqb_refl. reflexivity.
  - chn st t [IUnlock m (UFwd c msgs)] r (@nil instr).
  - chn st t [IUnlock m (UPqFwd p msgs term)] r (@nil instr).
Qed.

Lemma exec_climb_Ch : forall st t k r st' ev,
  CInv (core st) -> SlInv st -> ChInv st -> tcont (thr st t) = [IClimb k] ++ r ->
  exec_climb st t k r = (st', ev) -> ChInv st'.
Proof.
  intros st t k r st' ev I S C Hc H.
  destruct k; cbn [exec_climb] in H; inversion H; subst; clear H.
  - (* leaf *)
    match goal with |- ChInv ?S' => set (st' := S') end.
    assert (Gn : forall h, gnew st h <> None -> gnew st' h <> None).
    { intros h Hn. unfold st'. destruct (bitmap_join a b (bmbase st bm)); [destruct (slab_get (sl st) z)|]; cbn; auto.
      unfold updH. destruct (hkind_eqb h h0); auto. unfold ovjoin. destruct (gnew st h0); discriminate. }
    assert (Gc : gcol st' = gcol st).
    { unfold st'. destruct (bitmap_join a b (bmbase st bm)); [destruct (slab_get (sl st) z)|]; reflexivity. }
    assert (Hch : chs st' = chs st).
    { unfold st'. destruct (bitmap_join a b (bmbase st bm)); [destruct (slab_get (sl st) z)|]; reflexivity. }
    assert (Ho : forall u, u <> t -> tcont (thr st' u) = tcont (thr st u)).
    { unfold st'. destruct (bitmap_join a b (bmbase st bm)); [destruct (slab_get (sl st) z)|]; thr_simpl. }
    assert (Hc' : tcont (thr st' t) = (if leaf st bm a =? 0 then [IClimb (KSum bm a)] else []) ++ r).
    { unfold st'. destruct (bitmap_join a b (bmbase st bm)); [destruct (slab_get (sl st) z)|]; destruct (leaf st bm a =? 0); thr_simpl. }
    apply (ch_step st st' t [IClimb (KLeaf bm a b who)] r _ (fun _ => false) C Hc Hc' Ho).
    + intros c0 _. rewrite Hch. repeat split; reflexivity.
    + intros c0 _ [Hw|Hw]; [left; apply Gn; exact Hw|right; rewrite Gc; exact Hw].
    + ch_pre.
    + intros j Hj. destruct (leaf st bm a =? 0); in_cases Hj. exact Logic.I.
    + intros; discriminate.
    + intros c0 _ Op [bm' [a' [b' [w' [r' [E Hx]]]]]]. cbn in E. inversion E; subst bm' a' b' w' r'.
      destruct (leaf_credit st t bm a b who r c0 I S Hc Op Hx) as [E1 E2].
      left. unfold st'. rewrite E1, E2. cbn. rewrite updH_same. unfold ovjoin. destruct (gnew st (HChan c0)); discriminate.
    + intros; discriminate.
    + intros; discriminate.
  - destruct (summ st bm =? 0); [chn st t [IClimb (KSum bm a)] r [IClimb (KTop bm)]|chn st t [IClimb (KSum bm a)] r (@nil instr)].
  - destruct (top st =? 0); [chn st t [IClimb (KTop bm)] r [IClimb KCb]|chn st t [IClimb (KTop bm)] r (@nil instr)].
  - chn st t [IClimb KCb] r (@nil instr).
Qed.

Lemma ch_mono : forall st st',
  (forall u, tcont (thr st' u) = tcont (thr st u)) -> chs st' = chs st -> (forall h, owed st h -> owed st' h) ->
  ChInv st -> ChInv st'.
Proof.
  intros st st' Hc Hch Ow C.
  constructor.
  - intros c. rewrite Hch. intros A B. apply Ow. apply (ch_q st C); auto.
  - intros u c m. rewrite Hc, Hch. intro Hin. destruct (ch_push st C u c m Hin) as [Op Alt]. split; auto.
    destruct Alt as [Alt|[Alt|Alt]]; auto.
  - intros c. rewrite Hch. intro Hcl. destruct (ch_closed st C c Hcl) as [E|[u Hin]]; [left; exact E|].
    right. exists u. rewrite Hc. exact Hin.
  - intros u j. rewrite Hc. apply (ch_wf st C).
Qed.

Lemma notify_fold_chs : forall us st,
  chs (fold_left (fun s u => upd_th s u (set_twaiting (th s u) false)) us st) = chs st.
Proof.
  induction us as [|v us IH]; intro st; [reflexivity|]. cbn [fold_left]. rewrite IH. reflexivity.
Qed.

Lemma exec_instr_Ch : forall st t i r st' ev,
  CInv (core st) -> wfi st -> WInv st -> SlInv st -> LKInv st -> ChInv st ->
  tcont (thr st t) = i :: r -> (forall m, wants i m -> owner st m = None) ->
  exec_instr st t i r = (st', ev) -> ChInv st'.
Proof.
  intros st t i r st' ev I Wf W S L C Hc En H.
  assert (Hc0 : tcont (thr st t) = [i] ++ r) by exact Hc.
  destruct i; cbn [exec_instr] in H.
  - eapply exec_climb_Ch; eauto.
  - inversion H; subst; clear H. chn st t [ITopSwap] r [IBms (flat_map (bms_of_slot st) (bits_of (top st)))].
  - destruct bms; inversion H; subst; clear H; [exact C|].
    chn st t [IBms (z :: bms)] r [ILeaves z (bits_of (summ st z)); IBms bms].
  - destruct ls; [inversion H; subst; exact C|].
    destruct (collect (bmbase st bm) z (leaf st bm z)) as [bits ok].
    match type of H with context [ghost_collect ?S0 bits] =>
      destruct (ghost_collect_frame bits S0) as [A1 A2]; destruct (ghost_collect_reg bits S0) as [_ [_ A3]];
      pose proof (ghost_collect_owed bits S0) as A4; remember (ghost_collect S0 bits) as s3 eqn:Es3 end.
    cbn zeta in *. inversion H; subst st' ev; clear H.
    match goal with |- ChInv ?S' => set (st' := S') end.
    assert (C1 : tcont (thr st' t) = [ILeaves bm ls] ++ r).
    { unfold st'. cbn -[Nat.eqb]. unfold updN, th. rewrite A2. cbn -[Nat.eqb]. unfold updN, th. rewrite !Nat.eqb_refl. reflexivity. }
    assert (C3 : forall u, u <> t -> tcont (thr st' u) = tcont (thr st u)).
    { intros u Hu. unfold st'. cbn -[Nat.eqb]. unfold updN, th. rewrite A2. cbn -[Nat.eqb]. unfold updN, th.
      destruct (Nat.eqb_spec u t); [congruence|]. reflexivity. }
    apply (ch_step st st' t [ILeaves bm (z :: ls)] r [ILeaves bm ls] (fun _ => false) C Hc0 C1 C3).
    + intros c0 _. unfold st'. cbn. rewrite A3. cbn. repeat split; reflexivity.
    + intros c0 _ Hw. unfold st', owed. cbn. apply A4. unfold owed. cbn. exact Hw.
    + ch_pre.
    + ch_new.
    + intros; discriminate.
    + ch_nolh.
    + intros; discriminate.
    + intros; discriminate.
  - inversion H; subst; exact C.
  - inversion H; subst; exact C.
  - inversion H; subst; exact C.
  - (* lock *)
    match type of H with context [exec_lact ?S0 t ?aa ?rr] => destruct (exec_lact S0 t aa rr) as [s2 e2] eqn:E; set (s1 := S0) in * end.
    inversion H; subst; clear H.
    assert (I1 : CInv (core s1)) by (eapply CInv_ceq; [|exact I]; unfold s1; same_core).
    assert (W1 : wfi s1) by (eapply wfi_eq; [| | |exact Wf]; reflexivity).
    assert (Ww1 : WInv s1) by (unfold s1; ww_refl W).
    assert (C1 : ChInv s1) by (eapply (ch_eq st); [| | | |exact C]; try reflexivity; unfold s1; thr_simpl).
    assert (Hc1 : tcont (thr s1 t) = [ILock m a] ++ r) by (unfold s1; thr_simpl; exact Hc).
    assert (Hm : m = lact_mtx a).
    { apply (lk_wf st L t (ILock m a)). rewrite Hc. left. reflexivity. }
    assert (Hfree : forall u, nhold (tcont (thr s1 u)) m = O).
    { intro u. assert (E1 : tcont (thr s1 u) = tcont (thr st u)) by (unfold s1; thr_simpl). rewrite E1.
      destruct (nhold (tcont (thr st u)) m) eqn:N; [reflexivity|].
      pose proof (lk_own st L u m ltac:(lia)) as O. rewrite (En m eq_refl) in O. discriminate. }
    exact (exec_lact_Ch s1 t m a r st' e2 I1 W1 Ww1 C1 Hc1 Hm Hfree E).
  - (* unlock *)
    destruct (exec_uact st t a r) as [s1 e1] eqn:E. inversion H; subst; clear H.
    assert (Ow : owner st m = Some t).
    { apply (lk_own st L t m). rewrite Hc, nhold_cons. cbn [holdb]. rewrite mtx_eqb_refl. lia. }
    assert (Hfree : forall u, u <> t -> nhold (tcont (thr st u)) m = O).
    { intros u Hu. destruct (nhold (tcont (thr st u)) m) eqn:N; [reflexivity|].
      pose proof (lk_own st L u m ltac:(lia)) as O. congruence. }
    assert (Hr : nhold r m = O).
    { pose proof (lk_nd st L t m) as N. rewrite Hc, nhold_cons in N. cbn [holdb] in N. rewrite mtx_eqb_refl in N. lia. }
    pose proof (exec_uact_Ch st t m a r s1 e1 C Hc0 Hfree Hr E) as C1.
    eapply (ch_eq s1); [| | | |exact C1]; try reflexivity.
  - inversion H; subst; clear H. chn st t [ICvWait p] r (@nil instr).
  - match type of H with context [exec_lact ?S0 t ?aa ?rr] => destruct (exec_lact S0 t aa rr) as [s2 e2] eqn:E; set (s1 := S0) in * end.
    inversion H; subst; clear H.
    assert (C1 : ChInv s1) by (eapply (ch_eq st); [| | | |exact C]; try reflexivity; unfold s1; thr_simpl).
    assert (Hc1 : tcont (thr s1 t) = [ICvReacq p] ++ r) by (unfold s1; thr_simpl; exact Hc).
    clear - C1 Hc1 E. cbn [exec_lact] in E. destr_all E; inversion E; subst; clear E.
    + chn s1 t [ICvReacq p] r [IUnlock (MPq p) (URet RNoneV)].
    + chn s1 t [ICvReacq p] r [ICvWait p; ICvReacq p].
    + chn s1 t [ICvReacq p] r [IUnlock (MPq p) (URet (RVal z))].
  - inversion H; subst st' ev; clear H.
    match goal with |- ChInv (set_cont (fold_left ?f ?us st) t r) =>
      destruct (notify_fold_spec us st) as [A1 [A2 [A3 [A4 [A5 [A6 [A7 [A8 [A9 [A10 [A11 A12]]]]]]]]]]];
      pose proof (notify_fold_chs us st) as B; set (s1 := fold_left f us st) in * end.
    cbn zeta in *.
    assert (C1 : ChInv s1) by (eapply (ch_eq st); [| | | |exact C]; auto).
    assert (Hc1 : tcont (thr s1 t) = [INotify p] ++ r) by (rewrite A10; exact Hc).
    chn s1 t [INotify p] r (@nil instr).
  - (* harness closure of a plain waker *)
    assert (Hp : exists w, h = HPlain w).
    { apply (ch_wf st C t (IYieldH h del)). rewrite Hc. left. reflexivity. }
    destruct Hp as [w ->].
    unfold ghost_handler in H. inversion H; subst; clear H.
    destruct del; [chn st t [IYieldH (HPlain w) true] r (@nil instr)|chn st t [IYieldH (HPlain w) false] r (@nil instr)].
  - inversion H; subst; clear H. chn st t [IJoin] r (@nil instr).
  - inversion H; subst; clear H. chn st t [IIdle] r (@nil instr).
Qed.

Ltac chb st t new :=
  apply (ch_step st _ t (@nil instr) (@nil instr) new (fun _ => false));
  [ assumption | eassumption | thr_simpl | thr_simpl | ch_chs | ch_owed | ch_pre | ch_new
  | intros; discriminate | ch_nolh | intros; discriminate | intros; discriminate ].

Lemma fill_loop_chs : forall n st ev st' ev', fill_loop n st ev = (st', ev') -> chs st' = chs st /\ thr st' = thr st.
Proof.
  induction n as [|n IH]; intros st ev st' ev' H; cbn [fill_loop] in H.
  - inversion H; subst; auto.
  - destruct (wh_add st (HPlain (1000000 + nfill st))) as [[st1 wi]|] eqn:E; [|inversion H; subst; auto].
    destruct (wh_add_core _ _ _ _ E) as [c1 [A [B [C1 [C2 [C3 [C4 [C5 [C6 [C7 C8]]]]]]]]]].
    apply IH in H. cbn in H. destruct H as [H1 H2]. split; congruence.
Qed.

Lemma begin_cmd_Ch : forall st t c st' ev done,
  pristine st -> wfi st -> ChInv st -> tcont (thr st t) = [] -> (t < nthr st)%nat ->
  begin_cmd st t c = (st', ev, done) -> ChInv st'.
Proof.
  intros st t c st' ev done P Wf C Hc Ht H.
  assert (Hc0 : tcont (thr st t) = [] ++ []) by exact Hc.
  assert (Sp : forall s1 p f, (forall u, tcont (thr s1 u) = tcont (thr st u)) -> nthr s1 = nthr st ->
                              forall u, tcont (thr (spawn_thread s1 t p f) u) = tcont (thr st u)).
  { intros s1 p f E1 E2 u. cbn. unfold updN, th. destruct (Nat.eqb_spec u (nthr s1)) as [->|]; [|apply E1].
    cbn. symmetry. destruct P as [_ P]. apply P. lia. }
  destruct c; cbn [begin_cmd] in H.
  - destruct (wreg st w) as [wi|]; [|inversion H; subst; auto].
    destruct (climb_start st wi (Some (HPlain w))) as [i|] eqn:E; inversion H; subst; clear H; [|auto].
    apply climb_at_climb in E. destruct E as [k ->]. chb st t [IClimb k].
  - destruct (wreg st w) as [wi|] eqn:Ew; [|inversion H; subst; auto].
    destruct (wbusy st w); inversion H; subst; clear H.
    + chb st t [ILock MDL (LPush (wbit wi) (wbm wi) (HPlain w))].
    + eapply (ch_eq st); [| | | |exact C]; reflexivity.
  - destruct (Waker.creg (chs st c)); inversion H; subst; clear H; [|auto]. chb st t [ILock (MCh c) (LChSend c m)].
  - destruct (Waker.creg (chs st c)); inversion H; subst; clear H; [|auto]. chb st t [ILock (MCh c) (LChClosed c)].
  - destruct (negb (is_main t) || wused st w || (1000000 <=? w) || (w <? 0)); [inversion H; subst; auto|].
    destruct (wh_add st (HPlain w)) as [[st1 wi]|] eqn:E; inversion H; subst; clear H; [|auto].
    destruct (wh_add_core _ _ _ _ E) as [c1 [A [B [C1 [C2 [C3 [C4 [C5 [C6 [C7 C8]]]]]]]]]].
    destruct (wh_add_ghost _ _ _ _ E) as [G1 G2].
    eapply (ch_eq st); [| | | |exact C]; cbn; auto. intro u. rewrite C1. reflexivity.
  - destruct (negb (is_main t)); [inversion H; subst; auto|].
    destruct (fill_loop (Z.to_nat n) st []) as [st1 ev1] eqn:E. inversion H; subst; clear H.
    destruct (fill_loop_chs _ _ _ _ _ E) as [A B]. destruct (fill_loop_ghost _ _ _ _ _ E) as [G1 G2].
    eapply (ch_eq st); [| | | |exact C]; auto. intro u. rewrite B. reflexivity.
  - destruct (negb (is_main t)); inversion H; subst; clear H; [auto|]. chb st t [ITopSwap; IRun].
  - destruct (negb (is_main t)); [inversion H; subst; auto|].
    destruct (gnotified st); inversion H; subst; clear H; [|auto]. chb st t [ITopSwap; IRun].
  - destruct (negb (is_main t)); inversion H; subst; clear H; [auto|].
    eapply (ch_eq st); [| | | |exact C]; try reflexivity. apply Sp; auto.
  - destruct (negb (is_main t)); inversion H; subst; clear H; [auto|]. chb st t [IJoin].
  - destruct (negb (is_main t)); inversion H; subst; clear H; [auto|]. chb st t [IIdle].
  - (* CCNew *)
    destruct (negb (is_main t) || cexists (chs st c)) eqn:Eg; [inversion H; subst; auto|].
    apply orb_false_iff in Eg. destruct Eg as [_ Eex].
    destruct (wh_add st (HChan c)) as [[st1 wi]|] eqn:E; inversion H; subst; clear H; [|auto].
    destruct (wh_add_core _ _ _ _ E) as [c1 [A [B [C1 [C2 [C3 [C4 [C5 [C6 [C7 C8]]]]]]]]]].
    destruct (wh_add_ghost _ _ _ _ E) as [G1 G2].
    assert (Cl : copen (chs st c) = false).
    { destruct (copen (chs st c)) eqn:Eo; auto. destruct Wf as [_ [_ W3]]. rewrite (W3 c Eo) in Eex. discriminate. }
    match goal with |- ChInv ?S' => set (st' := S') end.
    assert (Hc' : tcont (thr st' t) = [ILock (MCh c) (LChInit c)] ++ []) by (unfold st'; thr_simpl).
    assert (Ho : forall u, u <> t -> tcont (thr st' u) = tcont (thr st u)).
    { intros u Hu. unfold st'. cbn -[Nat.eqb]. unfold updN, th. destruct (Nat.eqb_spec u t); [congruence|]. rewrite C1. reflexivity. }
    apply (ch_step st st' t [] [] _ (fun c0 => c0 =? c) C Hc0 Hc' Ho).
    + intros c0 E0. unfold st'. cbn. unfold updZ. rewrite E0, C7. repeat split; reflexivity.
    + intros c0 _. unfold st', owed. cbn. rewrite G1, G2. auto.
    + intros j [].
    + ch_new.
    + intros c0 E0. apply Z.eqb_eq in E0. subst c0. intros u m Hin.
      destruct (Nat.eq_dec u t) as [->|Hu].
      * rewrite Hc' in Hin. destruct Hin as [Hin|[]]. discriminate.
      * rewrite (Ho u Hu) in Hin. destruct (ch_push st C u c m Hin) as [Op _]. congruence.
    + ch_nolh.
    + intros c0 E0 _ Hq. apply Z.eqb_eq in E0. subst c0. exfalso. apply Hq. unfold st'. cbn. unfold updZ. rewrite Z.eqb_refl. reflexivity.
    + intros c0 E0. apply Z.eqb_eq in E0. subst c0. unfold st'. cbn. unfold updZ. rewrite Z.eqb_refl. cbn. discriminate.
  - (* CCDrop: only [cguard] changes *)
    destruct (negb (is_main t) || negb (cguard (chs st c))); inversion H; subst; clear H; [auto|].
    apply (ch_step st _ t (@nil instr) (@nil instr) [ILock (MCh c) (LChClose c)] (fun _ => false));
      [ assumption | eassumption | thr_simpl | thr_simpl | | ch_owed | ch_pre | ch_new
      | intros; discriminate | ch_nolh | intros; discriminate | intros; discriminate ].
    intros c0 _. cbn. unfold updZ. destruct (Z.eqb_spec c0 c); subst; cbn; repeat split; reflexivity.
  - (* CPNew *)
    destruct (negb (is_main t) || pexists (pps st p)); [inversion H; subst; auto|].
    destruct (wh_add st (HPipe p)) as [[st1 wi]|] eqn:E; inversion H; subst; clear H; [|auto].
    destruct (wh_add_core _ _ _ _ E) as [c1 [A [B [C1 [C2 [C3 [C4 [C5 [C6 [C7 C8]]]]]]]]]].
    destruct (wh_add_ghost _ _ _ _ E) as [G1 G2].
    eapply (ch_eq st); [| | | |exact C]; cbn [chs gnew gcol spawn_thread set_nthr upd_th set_thr set_pipe set_pps]; auto.
    apply Sp; [|exact C2]. intro u. cbn. rewrite C1. reflexivity.
  - destruct (negb (is_main t) || negb (phandle (pps st p))); inversion H; subst; clear H; [auto|]. chb st t [ILock (MPq p) (LPqSend p m)].
  - destruct (negb (is_main t) || negb (phandle (pps st p))); inversion H; subst; clear H; [auto|]. chb st t [ILock (MPq p) (LPqCancelSet p)].
  - destruct (tpipe (th st t) <? 0); inversion H; subst; clear H; [auto|]. chb st t [ILock (MPq (tpipe (th st t))) (LPqRecv (tpipe (th st t)))].
  - destruct (tpipe (th st t) <? 0); inversion H; subst; clear H; [auto|]. chb st t [ILock (MPq (tpipe (th st t))) (LPqLSend (tpipe (th st t)) m)].
  - destruct (tpipe (th st t) <? 0); inversion H; subst; clear H; [auto|]. chb st t [ILock (MPq (tpipe (th st t))) (LPqCancelGet (tpipe (th st t)))].
  - destruct (tpipe (th st t) <? 0); inversion H; subst; clear H; [auto|].
    eapply (ch_eq st); [| | | |exact C]; try reflexivity. thr_simpl.
Qed.

(** ** normalisation *)
Definition simple_fresh (j : instr) : Prop := (forall st k, fresh_ok st k j) /\ (forall m a, j <> IUnlock m a).
Definition NR (k k1 : list instr) : Prop :=
  (forall j, In j k1 -> In j k \/ simple_fresh j) /\
  (forall j, In j k -> main_only j = false -> In j k1) /\
  (forall x, leafhead k x -> k1 = k).

Lemma NR_refl : forall k, NR k k.
Proof. intro k. split; [auto|split; auto]. Qed.
Lemma NR_trans : forall a b c, NR a b -> NR b c -> NR a c.
Proof.
  intros a b c [A1 [A2 A3]] [B1 [B2 B3]]. split; [|split].
  - intros j Hj. destruct (B1 j Hj) as [H|H]; auto.
  - intros j Hj Hm. apply B2; auto.
  - intros x Hx. pose proof (A3 x Hx) as E. subst b. apply (B3 x Hx).
Qed.
Lemma NR_head : forall i r new, main_only i = true -> (forall j, In j new -> simple_fresh j) -> NR (i :: r) (new ++ r).
Proof.
  intros i r new Hm Hn. split; [|split].
  - intros j Hj. apply in_app_or in Hj. destruct Hj as [Hj|Hj]; [right; auto|left; right; auto].
  - intros j [<-|Hj] Hf; [congruence|]. apply in_or_app. auto.
  - intros x [bm [a [b [w [r' [E _]]]]]]. inversion E; subst. discriminate.
Qed.
Lemma hinstrs_fresh : forall h d j, In j (hinstrs h d) -> simple_fresh j.
Proof.
  intros h d j Hj. destruct h; cbn in Hj; destruct Hj as [<-|[]]; (split; [intros; cbn; eauto|intros; discriminate]).
Qed.
Lemma simple_any : forall j, (forall st k, fresh_ok st k j) -> (forall m a, j <> IUnlock m a) -> simple_fresh j.
Proof. intros; split; auto. Qed.

Lemma norm_ch : forall fuel s acc k ev s1 acc1 k1 ev1,
  norm fuel s acc k ev = (s1, acc1, k1, ev1) -> NR k k1.
Proof.
  induction fuel as [|f IH]; intros s acc k ev s1 acc1 k1 ev1 H; cbn [norm] in H.
  - inversion H; subst. apply NR_refl.
  - destruct k as [|i r]; [inversion H; subst; apply NR_refl|].
    destruct i; try (inversion H; subst; apply NR_refl; fail).
    + (* IBms *)
      destruct bms; [|inversion H; subst; apply NR_refl].
      eapply NR_trans; [|eapply IH; exact H]. apply (NR_head (IBms []) r []); [reflexivity|intros j []].
    + (* ILeaves *)
      destruct ls; [|inversion H; subst; apply NR_refl].
      eapply NR_trans; [|eapply IH; exact H]. apply (NR_head (ILeaves bm []) r []); [reflexivity|intros j []].
    + (* IRun *)
      eapply NR_trans; [|eapply IH; exact H]. apply (NR_head IRun r [IHandlers acc]); [reflexivity|].
      intros j [<-|[]]. split; [intros; exact Logic.I|intros; discriminate].
    + (* IHandlers *)
      destruct bits as [|b bs].
      * eapply NR_trans; [|eapply IH; exact H]. apply (NR_head (IHandlers []) r []); [reflexivity|intros j []].
      * destruct (slab_get s b) as [h|].
        -- inversion H; subst.
           replace (hinstrs h false ++ IHandlers bs :: r) with ((hinstrs h false ++ [IHandlers bs]) ++ r)
             by (rewrite <- app_assoc; reflexivity).
           apply NR_head; [reflexivity|]. intros j Hj. apply in_app_or in Hj. destruct Hj as [Hj|[<-|[]]].
           ++ eapply hinstrs_fresh; eauto.
           ++ split; [intros; exact Logic.I|intros; discriminate].
        -- eapply NR_trans; [|eapply IH; exact H]. apply (NR_head (IHandlers (b :: bs)) r [IHandlers bs]); [reflexivity|].
           intros j [<-|[]]. split; [intros; exact Logic.I|intros; discriminate].
    + (* IDels *)
      destruct bits as [|b bs].
      * eapply NR_trans; [|eapply IH; exact H]. apply (NR_head (IDels []) r []); [reflexivity|intros j []].
      * destruct (wh_del s b) as [[h s']|].
        -- inversion H; subst.
           replace (hinstrs h true ++ IDels bs :: r) with ((hinstrs h true ++ [IDels bs]) ++ r)
             by (rewrite <- app_assoc; reflexivity).
           apply NR_head; [reflexivity|]. intros j Hj. apply in_app_or in Hj. destruct Hj as [Hj|[<-|[]]].
           ++ eapply hinstrs_fresh; eauto.
           ++ split; [intros; exact Logic.I|intros; discriminate].
        -- eapply NR_trans; [|eapply IH; exact H]. apply (NR_head (IDels (b :: bs)) r [IDels bs]); [reflexivity|].
           intros j [<-|[]]. split; [intros; exact Logic.I|intros; discriminate].
Qed.

Lemma settle_Ch : forall st t ev done st' ev',
  CInv (core st) -> ChInv st -> settle st t ev done = (st', ev') -> ChInv st'.
Proof.
  intros st t ev done st' ev' I C H. unfold settle in H.
  destruct (norm (2 * (cont_size (tcont (th st t)) + length (tacc (th st t))) + 2) (sl st) (tacc (th st t)) (tcont (th st t)) ev)
    as [[[s1 acc1] k1] ev1] eqn:En.
  cbn zeta in H.
  set (st1 := set_sl (upd_th st t (set_tacc (set_tcont (th st t) k1) acc1)) s1) in *.
  assert (C1 : ChInv st1).
  { destruct (norm_ch _ _ _ _ _ _ _ _ _ En) as [N1 [N2 N3]].
    apply (ch_replace st st1 t k1 C); try reflexivity.
    - unfold st1. thr_simpl.
    - unfold st1. thr_simpl.
    - intros j Hj. destruct (N1 j Hj) as [A|[A B]]; [left; exact A|right]. split; [intro k; apply A|exact B].
    - exact N2.
    - exact N3. }
  assert (I1f : forall i, In i (tfinal (thr st1 t)) -> okfinal_c (core st) i).
  { intros i Hi. apply (i_final _ I t). revert Hi. unfold st1. cbn -[Nat.eqb]. unfold updN, th. rewrite Nat.eqb_refl. cbn. auto. }
  clearbody st1.
  match type of H with (let '(st2, ev2) := ?E in _) = _ => destruct E as [st2 ev2] eqn:E2 end.
  assert (C2 : ChInv st2 /\ tfinal (thr st2 t) = tfinal (thr st1 t)).
  { destruct done as [v|].
    - inversion E2; subst. split; [|thr_simpl]. eapply (ch_eq st1); [| | | |exact C1]; try reflexivity. thr_simpl.
    - destruct k1.
      + destruct (tcur (th st1 t)) as [c|]; inversion E2; subst; [|auto].
        split; [|destruct c; thr_simpl]. eapply (ch_eq st1); [| | | |exact C1]; destruct c; try reflexivity; thr_simpl.
      + inversion E2; subst. auto. }
  destruct C2 as [C2 F2].
  destruct (tcont (th st2 t)) eqn:Ec; [|inversion H; subst; exact C2].
  destruct (tscript (th st2 t)); [|inversion H; subst; exact C2].
  destruct (tcur (th st2 t)); [inversion H; subst; exact C2|].
  destruct (tfinal (th st2 t)) eqn:Ef; inversion H; subst; [exact C2|].
  assert (Hc0 : tcont (thr st2 t) = [] ++ []) by exact Ec.
  apply (ch_step st2 _ t (@nil instr) (@nil instr) (i :: l) (fun _ => false));
    [ assumption | eassumption | thr_simpl | thr_simpl | ch_chs | ch_owed | ch_pre |
    | intros; discriminate | ch_nolh | intros; discriminate | intros; discriminate ].
  { rewrite app_nil_r. reflexivity. }
  intros j Hj. unfold th in Ef. rewrite <- Ef, F2 in Hj. apply I1f in Hj.
  destruct j; cbn in Hj; try contradiction. exact Logic.I.
Qed.

Theorem wstep_Ch : forall st t st' ev,
  MInv st -> WInv st -> SlInv st -> LKInv st -> ChInv st -> wstep st t = (st', ev) -> ChInv st'.
Proof.
  intros st t st' ev [I [P Wf]] W S L C H. unfold wstep in H.
  destruct (enabled st t) eqn:En; cbn [negb] in H; [|inversion H; subst; exact C].
  assert (Ht : (t < nthr st)%nat).
  { unfold enabled in En. apply andb_true_iff in En. destruct En as [En _]. apply Nat.ltb_lt in En. exact En. }
  assert (It : CInv (core (tick st t))) by (eapply CInv_ceq; [|exact I]; unfold tick; same_core).
  assert (Pt : pristine (tick st t)) by (unfold tick; prist st t).
  assert (Wt : wfi (tick st t)) by (eapply wfi_eq; [| | |exact Wf]; reflexivity).
  assert (Wwt : WInv (tick st t)) by (unfold tick; ww_refl W).
  assert (St : SlInv (tick st t)) by (unfold tick; sl_irr st).
  assert (Lt : LKInv (tick st t)) by (unfold tick; lk_same st).
  assert (Ct : ChInv (tick st t)) by (eapply (ch_eq st); [| | | |exact C]; try reflexivity; unfold tick; thr_simpl).
  assert (Es' : tstarted (th (tick st t) t) = tstarted (th st t)) by (unfold tick; thr_simpl).
  assert (Ec' : tcont (th (tick st t) t) = tcont (th st t)) by (unfold tick; thr_simpl).
  assert (Sc' : tscript (th (tick st t) t) = tscript (th st t)) by (unfold tick; thr_simpl).
  assert (Ow : owner (tick st t) = owner st) by reflexivity.
  assert (Htt : (t < nthr (tick st t))%nat) by exact Ht.
  rewrite Es', Ec', Sc' in H.
  destruct (tstarted (th st t)) eqn:Es; cbn [negb] in H.
  - destruct (tcont (th st t)) as [|i r] eqn:Ec.
    + destruct (tscript (th st t)) as [|c0 cs]; [inversion H; subst; exact C|].
      match type of H with context [begin_cmd ?S0 t ?cc] =>
        destruct (begin_cmd S0 t cc) as [[st2 ev0] done] eqn:Eb; set (s1 := S0) in * end.
      assert (I1 : CInv (core s1)) by (eapply CInv_ceq; [|exact It]; unfold s1; same_core).
      assert (P1 : pristine s1) by (unfold s1; prist (tick st t) t).
      assert (W1 : wfi s1) by (eapply wfi_eq; [| | |exact Wt]; reflexivity).
      assert (C1 : ChInv s1) by (eapply (ch_eq (tick st t)); [| | | |exact Ct]; try reflexivity; unfold s1; thr_simpl).
      assert (Hc1 : tcont (thr s1 t) = []).
      { unfold s1. cbn -[Nat.eqb]. unfold updN, th. rewrite Nat.eqb_refl. cbn. unfold th in Ec. first [exact Ec | rewrite Nat.eqb_refl; cbn; exact Ec]. }
      assert (Ht1 : (t < nthr s1)%nat) by exact Htt.
      destruct (begin_cmd_inv s1 t c0 st2 ev0 done I1 P1 W1 Hc1 Ht1 Eb) as [I2 _].
      eapply settle_Ch; [exact I2| |exact H].
      exact (begin_cmd_Ch s1 t c0 st2 ev0 done P1 W1 C1 Hc1 Ht1 Eb).
    + destruct (exec_instr (tick st t) t i r) as [st1 ev1] eqn:Ee.
      assert (Ec1 : tcont (thr (tick st t) t) = i :: r) by (unfold th in Ec', Ec; first [exact Ec'|rewrite Ec'; exact Ec]).
      assert (I1 : CInv (core st1)) by (eapply exec_instr_inv; eauto).
      eapply settle_Ch; [exact I1| |exact H].
      apply (exec_instr_Ch (tick st t) t i r st1 ev1 It Wt Wwt St Lt Ct Ec1); [|exact Ee].
      intros m Hw. rewrite Ow. unfold enabled in En. rewrite Es, Ec in En. cbn [negb] in En.
      apply andb_true_iff in En. destruct En as [_ En].
      destruct i; cbn in Hw; try contradiction; subst; cbn in En.
      * destruct (owner st m); [discriminate|reflexivity].
      * apply andb_true_iff in En. destruct En as [_ En]. destruct (owner st (MPq p)); [discriminate|reflexivity].
  - eapply settle_Ch; [| |exact H].
    + eapply CInv_ceq; [|exact It]. same_core.
    + eapply (ch_eq (tick st t)); [| | | |exact Ct]; try reflexivity. thr_simpl.
Qed.

Lemma Ch_init : forall scr, ChInv (winit scr).
Proof.
  intro scr. constructor; cbn.
  - intros; discriminate.
  - intros t c m [].
  - intros; left; reflexivity.
  - intros t j [].
Qed.

Lemma wrun_all : forall sched st,
  MInv st -> WInv st -> SlInv st -> LKInv st -> ChInv st ->
  let s := fst (wrun st sched) in MInv s /\ WInv s /\ SlInv s /\ LKInv s /\ ChInv s.
Proof.
  induction sched as [|t rest IH]; intros st M W S L C; cbn [wrun]; [cbn; auto|].
  destruct (wstep st t) as [st1 ev] eqn:E.
  specialize (IH st1 (wstep_inv _ _ _ _ M E) (wstep_ww _ _ _ _ M W E) (wstep_Sl _ _ _ _ M S E) (wstep_LK _ _ _ _ M L E)
                 (wstep_Ch _ _ _ _ M W S L C E)).
  destruct (wrun st1 rest) as [st2 tr]. exact IH.
Qed.

Theorem reachable_Ch : forall st, reachable st -> ChInv st.
Proof.
  intros st [scr [sched ->]].
  apply (wrun_all sched (winit scr) (MInv_init scr) (WInv_init scr) (Sl_init scr)); [|apply Ch_init].
  exact (reachable_LK (winit scr) (ex_intro _ scr (ex_intro _ [] eq_refl))).
Qed.

(** ** C13, state form *)

(** while the channel is open, a non-empty queue has a wake-up owed to the channel's handler *)
Theorem chan_queue_owed : forall st c,
  reachable st -> copen (chs st c) = true -> cq (chs st c) <> [] -> owed st (HChan c).
Proof. intros st c R. apply (ch_q st (reachable_Ch st R)). Qed.

(** no accepted message is stranded: in a quiescent state every open channel's queue has been taken by its
    handler, and no sender is left between its decision to push and the push *)
Theorem chan_not_stranded : forall st c,
  reachable st -> quiescent st -> copen (chs st c) = true ->
  cq (chs st c) = [] /\ forall t m, ~ In (IUnlock (MCh c) (UChPush c m)) (tcont (thr st t)).
Proof.
  intros st c R Q Op. pose proof (reachable_Ch st R) as C.
  assert (E : cq (chs st c) = []).
  { destruct (cq (chs st c)) eqn:E; auto. exfalso.
    apply (not_stranded st R Q (HChan c)). apply (ch_q st C); auto. rewrite E. discriminate. }
  split; [exact E|]. intros t m Hin.
  destruct (ch_push st C t c m Hin) as [_ [A|[A|[bm [a [b [w [r [A _]]]]]]]]].
  - congruence.
  - exact (not_stranded st R Q (HChan c) A).
  - destruct Q as [Q _]. apply (Q t (KLeaf bm a b w)). exists r. exact A.
Qed.

(** after the close has completed (nobody is about to clear the queue), the queue is empty: nothing is
    forwarded from a closed channel *)
Theorem chan_closed_empty : forall st c,
  reachable st -> copen (chs st c) = false ->
  (forall t, ~ In (IUnlock (MCh c) (UChClear c)) (tcont (thr st t))) -> cq (chs st c) = [].
Proof.
  intros st c R Cl N. destruct (ch_closed st (reachable_Ch st R) c Cl) as [E|[t Hin]]; [exact E|].
  exfalso. exact (N t Hin).
Qed.
