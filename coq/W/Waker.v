(** * Layer W model: the hierarchical wake bitmap (sync/waker.rs), Channel (sync/channel.rs) and
    PipedThread (sync/thread.rs) as ONE interleaving machine.

    [wstep st t] executes one atomic step of thread [t]: exactly what the real code does between two
    consecutive yield points of the scheduler shim (harness/shim/verif_std.rs): one atomic
    read-modify-write / lock / unlock / condvar wait / notify / poll-waker callback / plain handler
    invocation / command start, followed by the thread-local code up to the next yield point.
    All index arithmetic and the ordering constant come from the GENERATED file Gen/SrcWaker.v.

    No proofs in this file (see WakerInv.v, WakerProofs.v, Chan.v, Pipe.v). *)
From Coq Require Import ZArith List Bool Arith Lia.
From Stk Require Import Lib.U Gen.SrcWaker.
Import ListNotations.
Local Open Scope Z_scope.

Definition tid := nat.

(** ** Vector clocks (ghost; used only for the publication clause of C11) *)
Definition vclock := list nat.
Definition vget (c : vclock) (t : nat) : nat := nth t c O.
Fixpoint vjoin (a b : vclock) : vclock :=
  match a, b with
  | [], _ => b
  | _, [] => a
  | x :: a', y :: b' => Nat.max x y :: vjoin a' b'
  end.
Fixpoint vtick (t : nat) (c : vclock) : vclock :=
  match t, c with
  | O, [] => [1%nat]
  | O, x :: c' => S x :: c'
  | S t', [] => O :: vtick t' []
  | S t', x :: c' => x :: vtick t' c'
  end.
Definition vle (a b : vclock) : Prop := forall t, (vget a t <= vget b t)%nat.
Fixpoint vleb (a b : vclock) : bool :=
  match a, b with
  | [], _ => true
  | x :: a', [] => (x =? 0)%nat && vleb a' []
  | x :: a', y :: b' => (x <=? y)%nat && vleb a' b'
  end.
Definition ovjoin (a : option vclock) (b : vclock) : option vclock :=
  match a with None => Some b | Some x => Some (vjoin x b) end.
Definition oojoin (a b : option vclock) : option vclock :=
  match b with None => a | Some y => ovjoin a y end.
Definition ovleb (a : option vclock) (b : vclock) : bool :=
  match a with None => true | Some x => vleb x b end.

(** ** Identities *)
(** Identity of a waker = the kind of handler stored for it in the slab. *)
Inductive hkind := HPlain (w : Z) | HReserved | HChan (c : Z) | HPipe (p : Z).
Definition hkind_eqb (x y : hkind) : bool :=
  match x, y with
  | HPlain a, HPlain b => a =? b
  | HReserved, HReserved => true
  | HChan a, HChan b => a =? b
  | HPipe a, HPipe b => a =? b
  | _, _ => false
  end.

Inductive word := WTop | WSum (bm : Z) | WLeaf (bm a : Z).
Definition word_eqb (x y : word) : bool :=
  match x, y with
  | WTop, WTop => true
  | WSum a, WSum b => a =? b
  | WLeaf a b, WLeaf c d => (a =? c) && (b =? d)
  | _, _ => false
  end.

Inductive mtx := MDL | MCh (c : Z) | MPq (p : Z).
Definition mtx_eqb (x y : mtx) : bool :=
  match x, y with
  | MDL, MDL => true
  | MCh a, MCh b => a =? b
  | MPq a, MPq b => a =? b
  | _, _ => false
  end.

(** ** Scripts *)
Inductive cmd :=
| CWake (w : Z) | CDropW (w : Z) | CSend (c m : Z) | CClosed (c : Z)          (* any thread *)
| CNew (w : Z) | CFill (n : Z) | CPoll | CPollIf | CSpawn | CJoin | CWaitIdle   (* main *)
| CCNew (c : Z) | CCDrop (c : Z) | CPNew (p : Z) | CPSend (p m : Z) | CPDrop (p : Z)
| CRecv | CLSend (m : Z) | CCancel | CPanic.                                     (* piped worker *)

Inductive retv := RUnit | RBad | RShared | RBool (b : bool) | RVal (v : Z) | RNoneV.

(** ** Micro-instructions: the continuation of a thread inside a command *)
(** [BitMap::set]: where the climb is.  [who] (ghost) = the waker a leaf step belongs to
    ([None] for the reserved bit set by [Waker::drop]). *)
Inductive climb :=
| KLeaf (bm a b : Z) (who : option hkind)
| KSum (bm a : Z)
| KTop (bm : Z)
| KCb.

Inductive lact :=
| LPush (bit bm : Z) (who : hkind)    (* Waker::drop: push the bit on the drop list ([who]: ghost, the dropped waker) *)
| LTake                               (* process_waker_drops: take the drop list *)
| LChInit (c : Z) | LChSend (c m : Z) | LChClosed (c : Z) | LChClose (c : Z) | LChHandler (c : Z) (del : bool)
| LPqHandler (p : Z) (del : bool) | LPqSend (p m : Z) | LPqCancelSet (p : Z)
| LPqRecv (p : Z) | LPqLSend (p m : Z) | LPqCancelGet (p : Z) | LPqPanic (p : Z).

Inductive uact :=
| UNone | URet (v : retv) | UDels (l : list Z)
| UChReg (c : Z) | UChPush (c m : Z) | UChClear (c : Z) | UFwd (c : Z) (msgs : list Z)
| UPqFwd (p : Z) (msgs : list Z) (term : option bool).

Inductive instr :=
| IClimb (k : climb)
| ITopSwap
| IBms (bms : list Z)                 (* bitmaps whose summary word is still to be swapped *)
| ILeaves (bm : Z) (ls : list Z)      (* leaves of [bm] still to be swapped *)
| IRun                                (* local: start calling handlers for the collected bits *)
| IHandlers (bits : list Z)           (* local: collected bits whose handlers are still to be called *)
| IDels (bits : list Z)               (* local: drop-list entries still to be deleted *)
| ILock (m : mtx) (a : lact)
| IUnlock (m : mtx) (a : uact)
| ICvWait (p : Z)
| ICvReacq (p : Z)
| INotify (p : Z)
| IYieldH (h : hkind) (del : bool)    (* a plain handler closure of the harness (its own yield point) *)
| IJoin
| IIdle.                              (* harness: wait until no other thread can run *)

(** ** Events *)
Inductive aop := FetchOr | Swap.
Inductive wevent :=
| EStart
| ECmd (c : cmd)
| ERet (v : retv)
| EAtomic (w : word) (op : aop) (old new : Z) (ord : Z)
| ELock (m : mtx) | EUnlock (m : mtx)
| ECvWait (p : Z) | ECvWake (p : Z) | ENotifyCv (p : Z) (n : Z)
| ECallback
| EHandler (h : hkind) (del : bool)       (* handler of waker [h] starts running *)
| EFwd (c m : Z)
| EFwdRecv (p m : Z)
| ETerm (p : Z) (panicked : bool)
| EJoin
| EIdle
| EExit                                     (* the thread has finished (logged in its last step) *)
| EPub (h : hkind) (ok : bool)            (* ghost: publication check at a handler call *)
| EDel (bit : Z) (h : hkind)              (* ghost: [del] removed the handler of [h] from slot [bit] *)
| EAdd (bit : Z) (h : hkind)              (* ghost: [add] stored the handler of [h] in slot [bit] *)
| EStutter
| EErr.

(** ** The slab (exact key policy of the [slab] crate: LIFO free list, else next index) *)
Inductive sentry := SOcc (h : hkind) | SVac (next : Z).
Record slabt := mkSlab { sent : Z -> sentry; slen : Z; snext : Z }.

Definition updZ {A} (f : Z -> A) (k : Z) (v : A) : Z -> A := fun x => if x =? k then v else f x.

Definition slab_get (s : slabt) (k : Z) : option hkind :=
  if (0 <=? k) && (k <? slen s) then match sent s k with SOcc h => Some h | SVac _ => None end else None.

Definition slab_insert (s : slabt) (h : hkind) : Z * slabt :=
  let key := snext s in
  if key =? slen s then (key, mkSlab (updZ (sent s) key (SOcc h)) (slen s + 1) (key + 1))
  else match sent s key with
       | SVac n => (key, mkSlab (updZ (sent s) key (SOcc h)) (slen s) n)
       | SOcc _ => (key, s)                       (* unreachable!() in the crate *)
       end.

Definition slab_remove (s : slabt) (k : Z) : slabt :=
  mkSlab (updZ (sent s) k (SVac (snext s))) (slen s) k.

Definition slab_set (s : slabt) (k : Z) (h : hkind) : slabt :=
  mkSlab (updZ (sent s) k (SOcc h)) (slen s) (snext s).

(** [WakeHandlers::add]: the loop that re-homes a handler landing on a reserved slot. *)
Fixpoint add_loop (fuel : nat) (s : slabt) (h : hkind) (bit : Z) : option (Z * Z * slabt) :=
  if 4294967296 <=? bit then None            (* u32::try_from(key).expect("Exceeded 2^32 Waker instances") *)
  else
  match waker_base bit with
  | None => None
  | Some base =>
    if base =? bit then
      match fuel with
      | O => None
      | S f => let s1 := slab_set s bit HReserved in
               let '(bit2, s2) := slab_insert s1 h in
               add_loop f s2 h bit2
      end
    else Some (bit, base, s)
  end.

(** [WakeHandlers::del] *)
Definition wh_del (s : slabt) (bit : Z) : option (hkind * slabt) :=
  match waker_del_guard bit with
  | Some true => match slab_get s bit with
                 | Some h => Some (h, slab_remove s bit)
                 | None => None
                 end
  | _ => None
  end.

Record winfo := mkWinfo { wbit : Z; wbm : Z }.

Record chan := mkChan { cexists : bool; creg : bool; cguard : bool; copen : bool; cq : list Z; cw : winfo }.
Record pipe := mkPipe { pexists : bool; phandle : bool; pcancel : bool; ppanic : bool;
                        psendq : list Z; precvq : list Z; pw : winfo }.

Record thread := mkThread {
  tstarted : bool;
  tcont : list instr;
  tscript : list cmd;
  tfinal : list instr;
  tcur : option cmd;
  tret : retv;
  tacc : list Z;
  twaiting : bool;
  tpipe : Z;
  tclk : vclock
}.

Definition set_tstarted (s : thread) (v : bool) : thread :=
  mkThread v (tcont s) (tscript s) (tfinal s) (tcur s) (tret s) (tacc s) (twaiting s) (tpipe s) (tclk s).
Definition set_tcont (s : thread) (v : list instr) : thread :=
  mkThread (tstarted s) v (tscript s) (tfinal s) (tcur s) (tret s) (tacc s) (twaiting s) (tpipe s) (tclk s).
Definition set_tscript (s : thread) (v : list cmd) : thread :=
  mkThread (tstarted s) (tcont s) v (tfinal s) (tcur s) (tret s) (tacc s) (twaiting s) (tpipe s) (tclk s).
Definition set_tfinal (s : thread) (v : list instr) : thread :=
  mkThread (tstarted s) (tcont s) (tscript s) v (tcur s) (tret s) (tacc s) (twaiting s) (tpipe s) (tclk s).
Definition set_tcur (s : thread) (v : option cmd) : thread :=
  mkThread (tstarted s) (tcont s) (tscript s) (tfinal s) v (tret s) (tacc s) (twaiting s) (tpipe s) (tclk s).
Definition set_tret (s : thread) (v : retv) : thread :=
  mkThread (tstarted s) (tcont s) (tscript s) (tfinal s) (tcur s) v (tacc s) (twaiting s) (tpipe s) (tclk s).
Definition set_tacc (s : thread) (v : list Z) : thread :=
  mkThread (tstarted s) (tcont s) (tscript s) (tfinal s) (tcur s) (tret s) v (twaiting s) (tpipe s) (tclk s).
Definition set_twaiting (s : thread) (v : bool) : thread :=
  mkThread (tstarted s) (tcont s) (tscript s) (tfinal s) (tcur s) (tret s) (tacc s) v (tpipe s) (tclk s).
Definition set_tpipe (s : thread) (v : Z) : thread :=
  mkThread (tstarted s) (tcont s) (tscript s) (tfinal s) (tcur s) (tret s) (tacc s) (twaiting s) v (tclk s).
Definition set_tclk (s : thread) (v : vclock) : thread :=
  mkThread (tstarted s) (tcont s) (tscript s) (tfinal s) (tcur s) (tret s) (tacc s) (twaiting s) (tpipe s) v.

Record wstate := mkW {
  top : Z;
  summ : Z -> Z;
  leaf : Z -> Z -> Z;
  owner : mtx -> option tid;
  dl : list Z;
  sl : slabt;
  vlen : Z -> Z;
  bmbase : Z -> Z;
  wreg : Z -> option winfo;
  wused : Z -> bool;
  wbusy : Z -> nat;
  nfill : Z;
  chs : Z -> chan;
  pps : Z -> pipe;
  thr : tid -> thread;
  nthr : nat;
  scripts : tid -> list cmd;
  gnotified : bool;
  ncb : nat;
  gnew : hkind -> option vclock;
  gcol : hkind -> option vclock;
  wclk : word -> vclock;
  mclk : mtx -> vclock;
  gpubok : bool
}.

Definition set_top (s : wstate) (v : Z) : wstate :=
  mkW v (summ s) (leaf s) (owner s) (dl s) (sl s) (vlen s) (bmbase s) (wreg s) (wused s) (wbusy s) (nfill s) (chs s) (pps s) (thr s) (nthr s) (scripts s) (gnotified s) (ncb s) (gnew s) (gcol s) (wclk s) (mclk s) (gpubok s).
Definition set_summ (s : wstate) (v : Z -> Z) : wstate :=
  mkW (top s) v (leaf s) (owner s) (dl s) (sl s) (vlen s) (bmbase s) (wreg s) (wused s) (wbusy s) (nfill s) (chs s) (pps s) (thr s) (nthr s) (scripts s) (gnotified s) (ncb s) (gnew s) (gcol s) (wclk s) (mclk s) (gpubok s).
Definition set_leaf (s : wstate) (v : Z -> Z -> Z) : wstate :=
  mkW (top s) (summ s) v (owner s) (dl s) (sl s) (vlen s) (bmbase s) (wreg s) (wused s) (wbusy s) (nfill s) (chs s) (pps s) (thr s) (nthr s) (scripts s) (gnotified s) (ncb s) (gnew s) (gcol s) (wclk s) (mclk s) (gpubok s).
Definition set_owner (s : wstate) (v : mtx -> option tid) : wstate :=
  mkW (top s) (summ s) (leaf s) v (dl s) (sl s) (vlen s) (bmbase s) (wreg s) (wused s) (wbusy s) (nfill s) (chs s) (pps s) (thr s) (nthr s) (scripts s) (gnotified s) (ncb s) (gnew s) (gcol s) (wclk s) (mclk s) (gpubok s).
Definition set_dl (s : wstate) (v : list Z) : wstate :=
  mkW (top s) (summ s) (leaf s) (owner s) v (sl s) (vlen s) (bmbase s) (wreg s) (wused s) (wbusy s) (nfill s) (chs s) (pps s) (thr s) (nthr s) (scripts s) (gnotified s) (ncb s) (gnew s) (gcol s) (wclk s) (mclk s) (gpubok s).
Definition set_sl (s : wstate) (v : slabt) : wstate :=
  mkW (top s) (summ s) (leaf s) (owner s) (dl s) v (vlen s) (bmbase s) (wreg s) (wused s) (wbusy s) (nfill s) (chs s) (pps s) (thr s) (nthr s) (scripts s) (gnotified s) (ncb s) (gnew s) (gcol s) (wclk s) (mclk s) (gpubok s).
Definition set_vlen (s : wstate) (v : Z -> Z) : wstate :=
  mkW (top s) (summ s) (leaf s) (owner s) (dl s) (sl s) v (bmbase s) (wreg s) (wused s) (wbusy s) (nfill s) (chs s) (pps s) (thr s) (nthr s) (scripts s) (gnotified s) (ncb s) (gnew s) (gcol s) (wclk s) (mclk s) (gpubok s).
Definition set_bmbase (s : wstate) (v : Z -> Z) : wstate :=
  mkW (top s) (summ s) (leaf s) (owner s) (dl s) (sl s) (vlen s) v (wreg s) (wused s) (wbusy s) (nfill s) (chs s) (pps s) (thr s) (nthr s) (scripts s) (gnotified s) (ncb s) (gnew s) (gcol s) (wclk s) (mclk s) (gpubok s).
Definition set_wreg (s : wstate) (v : Z -> option winfo) : wstate :=
  mkW (top s) (summ s) (leaf s) (owner s) (dl s) (sl s) (vlen s) (bmbase s) v (wused s) (wbusy s) (nfill s) (chs s) (pps s) (thr s) (nthr s) (scripts s) (gnotified s) (ncb s) (gnew s) (gcol s) (wclk s) (mclk s) (gpubok s).
Definition set_wused (s : wstate) (v : Z -> bool) : wstate :=
  mkW (top s) (summ s) (leaf s) (owner s) (dl s) (sl s) (vlen s) (bmbase s) (wreg s) v (wbusy s) (nfill s) (chs s) (pps s) (thr s) (nthr s) (scripts s) (gnotified s) (ncb s) (gnew s) (gcol s) (wclk s) (mclk s) (gpubok s).
Definition set_wbusy (s : wstate) (v : Z -> nat) : wstate :=
  mkW (top s) (summ s) (leaf s) (owner s) (dl s) (sl s) (vlen s) (bmbase s) (wreg s) (wused s) v (nfill s) (chs s) (pps s) (thr s) (nthr s) (scripts s) (gnotified s) (ncb s) (gnew s) (gcol s) (wclk s) (mclk s) (gpubok s).
Definition set_nfill (s : wstate) (v : Z) : wstate :=
  mkW (top s) (summ s) (leaf s) (owner s) (dl s) (sl s) (vlen s) (bmbase s) (wreg s) (wused s) (wbusy s) v (chs s) (pps s) (thr s) (nthr s) (scripts s) (gnotified s) (ncb s) (gnew s) (gcol s) (wclk s) (mclk s) (gpubok s).
Definition set_chs (s : wstate) (v : Z -> chan) : wstate :=
  mkW (top s) (summ s) (leaf s) (owner s) (dl s) (sl s) (vlen s) (bmbase s) (wreg s) (wused s) (wbusy s) (nfill s) v (pps s) (thr s) (nthr s) (scripts s) (gnotified s) (ncb s) (gnew s) (gcol s) (wclk s) (mclk s) (gpubok s).
Definition set_pps (s : wstate) (v : Z -> pipe) : wstate :=
  mkW (top s) (summ s) (leaf s) (owner s) (dl s) (sl s) (vlen s) (bmbase s) (wreg s) (wused s) (wbusy s) (nfill s) (chs s) v (thr s) (nthr s) (scripts s) (gnotified s) (ncb s) (gnew s) (gcol s) (wclk s) (mclk s) (gpubok s).
Definition set_thr (s : wstate) (v : tid -> thread) : wstate :=
  mkW (top s) (summ s) (leaf s) (owner s) (dl s) (sl s) (vlen s) (bmbase s) (wreg s) (wused s) (wbusy s) (nfill s) (chs s) (pps s) v (nthr s) (scripts s) (gnotified s) (ncb s) (gnew s) (gcol s) (wclk s) (mclk s) (gpubok s).
Definition set_nthr (s : wstate) (v : nat) : wstate :=
  mkW (top s) (summ s) (leaf s) (owner s) (dl s) (sl s) (vlen s) (bmbase s) (wreg s) (wused s) (wbusy s) (nfill s) (chs s) (pps s) (thr s) v (scripts s) (gnotified s) (ncb s) (gnew s) (gcol s) (wclk s) (mclk s) (gpubok s).
Definition set_scripts (s : wstate) (v : tid -> list cmd) : wstate :=
  mkW (top s) (summ s) (leaf s) (owner s) (dl s) (sl s) (vlen s) (bmbase s) (wreg s) (wused s) (wbusy s) (nfill s) (chs s) (pps s) (thr s) (nthr s) v (gnotified s) (ncb s) (gnew s) (gcol s) (wclk s) (mclk s) (gpubok s).
Definition set_gnotified (s : wstate) (v : bool) : wstate :=
  mkW (top s) (summ s) (leaf s) (owner s) (dl s) (sl s) (vlen s) (bmbase s) (wreg s) (wused s) (wbusy s) (nfill s) (chs s) (pps s) (thr s) (nthr s) (scripts s) v (ncb s) (gnew s) (gcol s) (wclk s) (mclk s) (gpubok s).
Definition set_ncb (s : wstate) (v : nat) : wstate :=
  mkW (top s) (summ s) (leaf s) (owner s) (dl s) (sl s) (vlen s) (bmbase s) (wreg s) (wused s) (wbusy s) (nfill s) (chs s) (pps s) (thr s) (nthr s) (scripts s) (gnotified s) v (gnew s) (gcol s) (wclk s) (mclk s) (gpubok s).
Definition set_gnew (s : wstate) (v : hkind -> option vclock) : wstate :=
  mkW (top s) (summ s) (leaf s) (owner s) (dl s) (sl s) (vlen s) (bmbase s) (wreg s) (wused s) (wbusy s) (nfill s) (chs s) (pps s) (thr s) (nthr s) (scripts s) (gnotified s) (ncb s) v (gcol s) (wclk s) (mclk s) (gpubok s).
Definition set_gcol (s : wstate) (v : hkind -> option vclock) : wstate :=
  mkW (top s) (summ s) (leaf s) (owner s) (dl s) (sl s) (vlen s) (bmbase s) (wreg s) (wused s) (wbusy s) (nfill s) (chs s) (pps s) (thr s) (nthr s) (scripts s) (gnotified s) (ncb s) (gnew s) v (wclk s) (mclk s) (gpubok s).
Definition set_wclk (s : wstate) (v : word -> vclock) : wstate :=
  mkW (top s) (summ s) (leaf s) (owner s) (dl s) (sl s) (vlen s) (bmbase s) (wreg s) (wused s) (wbusy s) (nfill s) (chs s) (pps s) (thr s) (nthr s) (scripts s) (gnotified s) (ncb s) (gnew s) (gcol s) v (mclk s) (gpubok s).
Definition set_mclk (s : wstate) (v : mtx -> vclock) : wstate :=
  mkW (top s) (summ s) (leaf s) (owner s) (dl s) (sl s) (vlen s) (bmbase s) (wreg s) (wused s) (wbusy s) (nfill s) (chs s) (pps s) (thr s) (nthr s) (scripts s) (gnotified s) (ncb s) (gnew s) (gcol s) (wclk s) v (gpubok s).
Definition set_gpubok (s : wstate) (v : bool) : wstate :=
  mkW (top s) (summ s) (leaf s) (owner s) (dl s) (sl s) (vlen s) (bmbase s) (wreg s) (wused s) (wbusy s) (nfill s) (chs s) (pps s) (thr s) (nthr s) (scripts s) (gnotified s) (ncb s) (gnew s) (gcol s) (wclk s) (mclk s) v.

Definition updN {A} (f : nat -> A) (k : nat) (v : A) : nat -> A := fun x => if Nat.eqb x k then v else f x.
Definition updH {A} (f : hkind -> A) (k : hkind) (v : A) : hkind -> A := fun x => if hkind_eqb x k then v else f x.
Definition updW {A} (f : word -> A) (k : word) (v : A) : word -> A := fun x => if word_eqb x k then v else f x.
Definition updM {A} (f : mtx -> A) (k : mtx) (v : A) : mtx -> A := fun x => if mtx_eqb x k then v else f x.

Definition set_chan_f (f : Z -> chan) c g := updZ f c (g (f c)).

(** ** Initial state *)
Definition thread0 (script : list cmd) : thread :=
  mkThread false [] script [] None RUnit [] false (-1) [].
Definition chan0 := mkChan false false false false [] (mkWinfo 0 0).
Definition pipe0 := mkPipe false false false false [] [] (mkWinfo 0 0).

Definition winit (scr : tid -> list cmd) : wstate :=
  mkW 0 (fun _ => 0) (fun _ _ => 0)
      (fun _ => None) []
      (mkSlab (fun _ => SVac 0) 0 0) (fun _ => 0) (fun _ => 0)
      (fun _ => None) (fun _ => false) (fun _ => O) 0
      (fun _ => chan0) (fun _ => pipe0)
      (fun t => set_tstarted (thread0 (scr t)) (Nat.eqb t 0)) 1%nat scr
      false O (fun _ => None) (fun _ => None)
      (fun _ => []) (fun _ => []) true.

(** ** Helpers *)
Definition ordering_acq (o : Z) : bool := (o =? 2) || (o =? 3) || (o =? 4).
Definition ordering_rel (o : Z) : bool := (o =? 1) || (o =? 3) || (o =? 4).
Definition ordering_ok : bool := ordering_acq ORDERING && ordering_rel ORDERING.

Definition bits_of (v : Z) : list Z :=
  filter (fun i => Z.testbit v i) (map Z.of_nat (seq 0 (Z.to_nat USIZE_BITS))).

Definition bms_of_slot (st : wstate) (s : Z) : list Z :=
  map (fun vi => s + USIZE_BITS * Z.of_nat vi) (seq 0 (Z.to_nat (vlen st s))).

(** bits collected from one leaf word: [(a << USIZE_INDEX_BITS) + b + base] for each set bit *)
Definition collect (base a old : Z) : list Z * bool :=
  fold_right (fun b r => match bitmap_join a b base with
                         | Some x => (x :: fst r, snd r)
                         | None => (fst r, false)
                         end) ([], true) (bits_of old).

Fixpoint push_bms (n : nat) (len slot base : Z) (bb : Z -> Z) : Z -> Z :=
  match n with
  | O => bb
  | S k => push_bms k (len + 1) slot base (updZ bb (slot + USIZE_BITS * len) base)
  end.

(** [WakeHandlers::add]: returns the new state, the Waker (bit, bitmap) and the final slot. *)
Definition wh_add (st : wstate) (h : hkind) : option (wstate * winfo) :=
  let '(bit0, s0) := slab_insert (sl st) h in
  match add_loop 2 s0 h bit0 with
  | None => None
  | Some (bit, base, s1) =>
    match waker_vec_index bit, waker_slot bit with
    | Some vi, Some slot =>
      let n := Z.to_nat (vi + 1 - vlen st slot) in
      let st1 := set_sl st s1 in
      let st2 := set_bmbase st1 (push_bms n (vlen st slot) slot base (bmbase st)) in
      let st3 := set_vlen st2 (updZ (vlen st) slot (Z.max (vlen st slot) (vi + 1))) in
      Some (st3, mkWinfo bit (slot + USIZE_BITS * vi))
    | _, _ => None
    end
  end.

(** first instruction(s) of a handler call *)
Definition hinstrs (h : hkind) (del : bool) : list instr :=
  match h with
  | HPlain _ => [IYieldH h del]
  | HReserved => [ILock MDL LTake]
  | HChan c => [ILock (MCh c) (LChHandler c del)]
  | HPipe p => [ILock (MPq p) (LPqHandler p del)]
  end.

(** a bitmap that has been pushed on its vec *)
Definition registered (st : wstate) (bm : Z) : bool :=
  (0 <=? bm) && (bm / USIZE_BITS <? vlen st (bm mod USIZE_BITS)).

(** the leaf step of [BitMap::set(bit)] for the bitmap [bm].  [None] = the index panic of
    [self.tree.child[a]] (a >= USIZE_BITS) / arithmetic overflow; the [registered] test always
    succeeds in the real code (the Waker holds an [Arc] of its bitmap). *)
Definition climb_at (st : wstate) (bit bm : Z) (who : option hkind) : option instr :=
  match bitmap_split bit (bmbase st bm) with
  | Some (a, b) => if (a <? USIZE_BITS) && registered st bm then Some (IClimb (KLeaf bm a b who)) else None
  | None => None
  end.
Definition climb_start (st : wstate) (wi : winfo) (who : option hkind) : option instr :=
  climb_at st (wbit wi) (wbm wi) who.
Definition climb_reserved (st : wstate) (bm : Z) : option instr :=
  climb_at st (bmbase st bm) bm None.
Definition olist {A} (o : option A) : list A := match o with Some x => [x] | None => [] end.
Definition isnone {A} (o : option A) : bool := match o with Some _ => false | None => true end.

(** local code after a yield point: skip what needs no shared operation (thread-local normalisation).
    Only the main thread ever has something to normalise. *)
Fixpoint cont_size (k : list instr) : nat :=
  match k with
  | [] => O
  | IBms l :: r => S (length l + cont_size r)
  | ILeaves _ l :: r => S (length l + cont_size r)
  | IHandlers l :: r => S (length l + cont_size r)
  | IDels l :: r => S (length l + cont_size r)
  | _ :: r => S (cont_size r)
  end.

Fixpoint norm (fuel : nat) (s : slabt) (acc : list Z) (k : list instr) (ev : list wevent)
  : slabt * list Z * list instr * list wevent :=
  match fuel with
  | O => (s, acc, k, ev)
  | S f =>
    match k with
    | IRun :: r => norm f s [] (IHandlers acc :: r) ev
    | IHandlers [] :: r => norm f s acc r ev
    | IHandlers (b :: bs) :: r =>
        match slab_get s b with
        | Some h => (s, acc, hinstrs h false ++ IHandlers bs :: r, ev)
        | None => norm f s acc (IHandlers bs :: r) ev
        end
    | IDels [] :: r => norm f s acc r ev
    | IDels (b :: bs) :: r =>
        match wh_del s b with
        | Some (h, s') => (s', acc, hinstrs h true ++ IDels bs :: r, ev ++ [EDel b h])
        | None => norm f s acc (IDels bs :: r) ev
        end
    | IBms [] :: r => norm f s acc r ev
    | ILeaves _ [] :: r => norm f s acc r ev
    | _ => (s, acc, k, ev)
    end
  end.

Definition th (st : wstate) (t : tid) : thread := thr st t.
Definition upd_th (st : wstate) (t : tid) (x : thread) : wstate := set_thr st (updN (thr st) t x).

Definition finished (st : wstate) (u : tid) : bool :=
  let x := th st u in
  tstarted x && isnone (tcur x) &&
  match tcont x, tscript x, tfinal x with [], [], [] => true | _, _, _ => false end.

Definition instr_enabled0 (st : wstate) (t : tid) (i : instr) : bool :=
  match i with
  | ILock m _ => isnone (owner st m)
  | ICvReacq p => negb (twaiting (th st t)) && isnone (owner st (MPq p))
  | IJoin => forallb (fun u => Nat.eqb u t || finished st u) (seq 0 (nthr st))
  | _ => true
  end.

Definition enabled0 (st : wstate) (t : tid) : bool :=
  (t <? nthr st)%nat &&
  let x := th st t in
  if negb (tstarted x) then true
  else match tcont x with
       | i :: _ => instr_enabled0 st t i
       | [] => match tscript x with [] => false | _ => true end
       end.

Definition instr_enabled (st : wstate) (t : tid) (i : instr) : bool :=
  match i with
  | IIdle => forallb (fun u => Nat.eqb u t || negb (enabled0 st u)) (seq 0 (nthr st))
  | _ => instr_enabled0 st t i
  end.

Definition enabled (st : wstate) (t : tid) : bool :=
  (t <? nthr st)%nat &&
  let x := th st t in
  if negb (tstarted x) then true
  else match tcont x with
       | i :: _ => instr_enabled st t i
       | [] => match tscript x with [] => false | _ => true end
       end.

(** ghost: clocks *)
Definition acq_word (st : wstate) (t : tid) (w : word) : wstate :=
  if ordering_acq ORDERING then upd_th st t (set_tclk (th st t) (vjoin (tclk (th st t)) (wclk st w))) else st.
Definition rel_word (st : wstate) (t : tid) (w : word) : wstate :=
  if ordering_rel ORDERING then set_wclk st (updW (wclk st) w (vjoin (wclk st w) (tclk (th st t)))) else st.
Definition rmw_clk (st : wstate) (t : tid) (w : word) : wstate := rel_word (acq_word st t w) t w.
Definition acq_mtx (st : wstate) (t : tid) (m : mtx) : wstate :=
  upd_th st t (set_tclk (th st t) (vjoin (tclk (th st t)) (mclk st m))).
Definition rel_mtx (st : wstate) (t : tid) (m : mtx) : wstate :=
  set_mclk st (updM (mclk st) m (vjoin (mclk st m) (tclk (th st t)))).

Definition set_cont (st : wstate) (t : tid) (k : list instr) : wstate := upd_th st t (set_tcont (th st t) k).
Definition set_ret (st : wstate) (t : tid) (v : retv) : wstate := upd_th st t (set_tret (th st t) v).

Definition set_chan (st : wstate) (c : Z) (x : chan) : wstate := set_chs st (updZ (chs st) c x).
Definition set_pipe (st : wstate) (p : Z) (x : pipe) : wstate := set_pps st (updZ (pps st) p x).

(** ghost: a handler of [h] starts running on the main thread [t] *)
Definition ghost_handler (st : wstate) (t : tid) (h : hkind) (del : bool) : wstate * list wevent :=
  let ok := ovleb (gcol st h) (tclk (th st t)) in
  let st1 := set_gcol st (updH (gcol st) h None) in
  let st2 := if del then set_gnew st1 (updH (gnew st1) h None) else st1 in
  (set_gpubok st2 (gpubok st2 && ok), [EHandler h del; EPub h ok]).

(** ghost: main collected the bits [bits] from a leaf *)
Definition ghost_collect (st : wstate) (bits : list Z) : wstate :=
  fold_left (fun s b => match slab_get (sl s) b with
                        | Some h => set_gnew (set_gcol s (updH (gcol s) h (oojoin (gcol s h) (gnew s h)))) (updH (gnew s) h None)
                        | None => s
                        end) bits st.

(** ** One step of [BitMap::set] *)
Definition exec_climb (st : wstate) (t : tid) (k : climb) (r : list instr) : wstate * list wevent :=
  match k with
  | KLeaf bm a b who =>
      let old := leaf st bm a in
      let new := Z.lor old (Z.shiftl 1 b) in
      let st1 := rmw_clk st t (WLeaf bm a) in
      let st2 := set_leaf st1 (fun x y => if (x =? bm) && (y =? a) then new else leaf st1 x y) in
      let st3 := match bitmap_join a b (bmbase st bm) with
                 | Some x => match slab_get (sl st) x with
                             | Some h => set_gnew st2 (updH (gnew st2) h (ovjoin (gnew st2 h) (tclk (th st t))))
                             | None => st2
                             end
                 | None => st2
                 end in
      (set_cont st3 t (if old =? 0 then IClimb (KSum bm a) :: r else r),
       [EAtomic (WLeaf bm a) FetchOr old new ORDERING])
  | KSum bm a =>
      let old := summ st bm in
      let new := Z.lor old (Z.shiftl 1 a) in
      let st1 := rmw_clk st t (WSum bm) in
      let st2 := set_summ st1 (updZ (summ st1) bm new) in
      (set_cont st2 t (if old =? 0 then IClimb (KTop bm) :: r else r),
       [EAtomic (WSum bm) FetchOr old new ORDERING])
  | KTop bm =>
      let old := top st in
      let new := Z.lor old (Z.shiftl 1 (bm mod USIZE_BITS)) in
      let st1 := rmw_clk st t WTop in
      let st2 := set_top st1 new in
      (set_cont st2 t (if old =? 0 then IClimb KCb :: r else r),
       [EAtomic WTop FetchOr old new ORDERING])
  | KCb =>
      (set_cont (set_ncb (set_gnotified st true) (S (ncb st))) t r, [ECallback])
  end.

(** ** Lock actions: what the thread does right after acquiring [m], and what follows *)
Definition exec_lact (st : wstate) (t : tid) (a : lact) (r : list instr) : wstate * list wevent :=
  match a with
  | LPush bit bm _ =>
      let st1 := set_dl st (dl st ++ [bit]) in
      (match climb_reserved st bm with
       | Some i => (set_cont st1 t (i :: IUnlock MDL UNone :: r), [])
       | None => (set_cont st1 t (IUnlock MDL UNone :: r), [EErr])
       end)
  | LTake =>
      let '(st1, ev) := ghost_handler st t HReserved false in
      (set_cont (set_dl st1 []) t (IUnlock MDL (UDels (dl st)) :: r), ev)
  | LChInit c =>
      (* [arc.lock().unwrap().waker = Some(waker)]: nobody else can reach the channel before it is registered,
         so the model stores the waker at creation; this step is the lock itself *)
      (set_cont st t (IUnlock (MCh c) (UChReg c) :: r), [])
  | LChSend c m =>
      let x := chs st c in
      if copen x then
        match cq x with
        | [] => match climb_start st (cw x) (Some (HChan c)) with
                | Some i => (set_cont st t (i :: IUnlock (MCh c) (UChPush c m) :: r), [])
                | None => (set_cont st t (IUnlock (MCh c) (UChPush c m) :: r), [EErr])
                end
        | _ => (set_cont st t (IUnlock (MCh c) (UChPush c m) :: r), [])
        end
      else (set_cont st t (IUnlock (MCh c) (URet (RBool false)) :: r), [])
  | LChClosed c =>
      (set_cont st t (IUnlock (MCh c) (URet (RBool (negb (copen (chs st c))))) :: r), [])
  | LChClose c =>
      let x := chs st c in
      if copen x then
        (set_cont (set_chan st c (mkChan (cexists x) (creg x) (cguard x) false (cq x) (cw x))) t
                  (ILock MDL (LPush (wbit (cw x)) (wbm (cw x)) (HChan c)) :: IUnlock (MCh c) (UChClear c) :: r), [])
      else (set_cont st t (IUnlock (MCh c) (UChClear c) :: r), [])
  | LChHandler c del =>
      let x := chs st c in
      let '(st1, ev) := ghost_handler st t (HChan c) del in
      (set_cont (set_chan st1 c (mkChan (cexists x) (creg x) (cguard x) (copen x) [] (cw x))) t
                (IUnlock (MCh c) (UFwd c (if copen x then cq x else [])) :: r), ev)
  | LPqHandler p del =>
      let x := pps st p in
      let '(st1, ev) := ghost_handler st t (HPipe p) del in
      (set_cont (set_pipe st1 p (mkPipe (pexists x) (phandle x) (pcancel x) (if del then false else ppanic x)
                                       (psendq x) [] (pw x))) t
                (IUnlock (MPq p) (UPqFwd p (precvq x) (if del then Some (ppanic x) else None)) :: r), ev)
  | LPqSend p m =>
      let x := pps st p in
      (set_cont (set_pipe st p (mkPipe (pexists x) (phandle x) (pcancel x) (ppanic x) (psendq x ++ [m]) (precvq x) (pw x))) t
                (IUnlock (MPq p) UNone :: (match psendq x with [] => [INotify p] | _ => [] end) ++ r), [])
  | LPqCancelSet p =>
      let x := pps st p in
      (set_cont (set_pipe st p (mkPipe (pexists x) (phandle x) true (ppanic x) (psendq x) (precvq x) (pw x))) t
                (IUnlock (MPq p) UNone :: INotify p :: r), [])
  | LPqRecv p =>
      let x := pps st p in
      if pcancel x then (set_cont st t (IUnlock (MPq p) (URet RNoneV) :: r), [])
      else match psendq x with
           | [] => (set_cont st t (ICvWait p :: ICvReacq p :: r), [])
           | v :: q =>
             (set_cont (set_pipe st p (mkPipe (pexists x) (phandle x) (pcancel x) (ppanic x) q (precvq x) (pw x))) t
                       (IUnlock (MPq p) (URet (RVal v)) :: r), [])
           end
  | LPqLSend p m =>
      let x := pps st p in
      let wake := match precvq x with
                  | [] => olist (climb_start st (pw x) (Some (HPipe p)))
                  | _ => []
                  end in
      (set_cont (set_pipe st p (mkPipe (pexists x) (phandle x) (pcancel x) (ppanic x) (psendq x) (precvq x ++ [m]) (pw x))) t
                (IUnlock (MPq p) (URet (RBool (negb (pcancel x)))) :: wake ++ r), [])
  | LPqCancelGet p =>
      (set_cont st t (IUnlock (MPq p) (URet (RBool (pcancel (pps st p)))) :: r), [])
  | LPqPanic p =>
      let x := pps st p in
      (set_cont (set_pipe st p (mkPipe (pexists x) (phandle x) (pcancel x) true (psendq x) (precvq x) (pw x))) t
                (IUnlock (MPq p) UNone :: r), [])
  end.

(** ** Unlock actions (performed under the lock, just before it is released) *)
Definition exec_uact (st : wstate) (t : tid) (a : uact) (r : list instr) : wstate * list wevent :=
  match a with
  | UNone => (set_cont st t r, [])
  | URet v => (set_cont (set_ret st t v) t r, [])
  | UDels l => (set_cont st t (IDels l :: r), [])
  | UChReg c =>
      let x := chs st c in
      (set_cont (set_chan st c (mkChan (cexists x) true true (copen x) (cq x) (cw x))) t r, [])
  | UChPush c m =>
      let x := chs st c in
      (set_cont (set_ret (set_chan st c (mkChan (cexists x) (creg x) (cguard x) (copen x) (cq x ++ [m]) (cw x))) t (RBool true)) t r, [])
  | UChClear c =>
      let x := chs st c in
      (set_cont (set_chan st c (mkChan (cexists x) (creg x) (cguard x) (copen x) [] (cw x))) t r, [])
  | UFwd c msgs => (set_cont st t r, map (EFwd c) msgs)
  | UPqFwd p msgs term =>
      (set_cont st t r, map (EFwdRecv p) msgs ++ match term with Some b => [ETerm p b] | None => [] end)
  end.

Definition is_main (t : tid) : bool := Nat.eqb t 0.

(** ** Start of a command: the thread-local code up to the first yield point of the command *)
Fixpoint fill_loop (n : nat) (st : wstate) (ev : list wevent) : wstate * list wevent :=
  match n with
  | O => (st, ev)
  | S k =>
    match wh_add st (HPlain (1000000 + nfill st)) with
    | Some (st1, wi) => fill_loop k (set_nfill st1 (nfill st + 1)) (ev ++ [EAdd (wbit wi) (HPlain (1000000 + nfill st))])
    | None => (st, ev ++ [EErr])
    end
  end.

Definition spawn_thread (st : wstate) (t : tid) (pipeid : Z) (final : list instr) : wstate :=
  let u := nthr st in
  let x := mkThread false [] (scripts st u) final None RUnit [] false pipeid (tclk (th st t)) in
  set_nthr (upd_th st u x) (S u).

(** result: new state (continuation of [t] installed), events after [ECmd c], and whether the command
    completed within this step with return value [v] *)
Definition begin_cmd (st : wstate) (t : tid) (c : cmd) : wstate * list wevent * option retv :=
  let bad := (st, [], Some RBad) in
  match c with
  | CWake w =>
      match wreg st w with
      | Some wi =>
        match climb_start st wi (Some (HPlain w)) with
        | Some i => (set_cont (set_wbusy st (updZ (wbusy st) w (S (wbusy st w)))) t [i], [], None)
        | None => (st, [EErr], Some RBad)
        end
      | None => bad
      end
  | CDropW w =>
      match wreg st w with
      | Some wi =>
        let st1 := set_wreg st (updZ (wreg st) w None) in
        match wbusy st w with
        | O => (set_cont st1 t [ILock MDL (LPush (wbit wi) (wbm wi) (HPlain w))], [], None)
        | S _ => (st1, [], Some RShared)
        end
      | None => bad
      end
  | CSend c m =>
      if creg (chs st c) then (set_cont st t [ILock (MCh c) (LChSend c m)], [], None) else bad
  | CClosed c =>
      if creg (chs st c) then (set_cont st t [ILock (MCh c) (LChClosed c)], [], None) else bad
  | CNew w =>
      if negb (is_main t) || wused st w || (1000000 <=? w) || (w <? 0) then bad
      else match wh_add st (HPlain w) with
           | Some (st1, wi) =>
             (set_wused (set_wreg st1 (updZ (wreg st1) w (Some wi))) (updZ (wused st1) w true),
              [EAdd (wbit wi) (HPlain w)], Some RUnit)
           | None => (st, [EErr], Some RBad)
           end
  | CFill n =>
      if negb (is_main t) then bad
      else let '(st1, ev) := fill_loop (Z.to_nat n) st [] in (st1, ev, Some RUnit)
  | CPoll =>
      if negb (is_main t) then bad
      else (set_cont (set_gnotified (upd_th st t (set_tacc (th st t) [])) false) t [ITopSwap; IRun], [], None)
  | CPollIf =>
      (* poll_wake only in response to the poll-waker callback (how an I/O poller drives it) *)
      if negb (is_main t) then bad
      else if gnotified st
           then (set_cont (set_ret (set_gnotified (upd_th st t (set_tacc (th st t) [])) false) t (RBool true)) t [ITopSwap; IRun], [], None)
           else (st, [], Some (RBool false))
  | CSpawn =>
      if negb (is_main t) then bad
      else (spawn_thread st t (-1) [], [], Some RUnit)
  | CJoin =>
      if negb (is_main t) then bad else (set_cont st t [IJoin], [], None)
  | CWaitIdle =>
      if negb (is_main t) then bad else (set_cont st t [IIdle], [], None)
  | CCNew c =>
      if negb (is_main t) || cexists (chs st c) then bad
      else match wh_add st (HChan c) with
           | Some (st1, wi) =>
             (set_cont (set_chan st1 c (mkChan true false false true [] wi)) t [ILock (MCh c) (LChInit c)],
              [EAdd (wbit wi) (HChan c)], None)
           | None => (st, [EErr], Some RBad)
           end
  | CCDrop c =>
      let x := chs st c in
      if negb (is_main t) || negb (cguard x) then bad
      else (set_cont (set_chan st c (mkChan (cexists x) (creg x) false (copen x) (cq x) (cw x))) t
                     [ILock (MCh c) (LChClose c)], [], None)
  | CPNew p =>
      if negb (is_main t) || pexists (pps st p) then bad
      else match wh_add st (HPipe p) with
           | Some (st1, wi) =>
             let st2 := set_pipe st1 p (mkPipe true true false false [] [] wi) in
             (spawn_thread st2 t p [ILock MDL (LPush (wbit wi) (wbm wi) (HPipe p))], [EAdd (wbit wi) (HPipe p)], Some RUnit)
           | None => (st, [EErr], Some RBad)
           end
  | CPSend p m =>
      if negb (is_main t) || negb (phandle (pps st p)) then bad
      else (set_cont st t [ILock (MPq p) (LPqSend p m)], [], None)
  | CPDrop p =>
      let x := pps st p in
      if negb (is_main t) || negb (phandle x) then bad
      else (set_cont (set_pipe st p (mkPipe (pexists x) false (pcancel x) (ppanic x) (psendq x) (precvq x) (pw x))) t
                     [ILock (MPq p) (LPqCancelSet p)], [], None)
  | CRecv =>
      let p := tpipe (th st t) in
      if p <? 0 then bad else (set_cont st t [ILock (MPq p) (LPqRecv p)], [], None)
  | CLSend m =>
      let p := tpipe (th st t) in
      if p <? 0 then bad else (set_cont st t [ILock (MPq p) (LPqLSend p m)], [], None)
  | CCancel =>
      let p := tpipe (th st t) in
      if p <? 0 then bad else (set_cont st t [ILock (MPq p) (LPqCancelGet p)], [], None)
  | CPanic =>
      let p := tpipe (th st t) in
      if p <? 0 then bad
      else let x := th st t in
           (upd_th st t (set_tfinal (set_tscript x []) (ILock (MPq p) (LPqPanic p) :: tfinal x)), [], Some RUnit)
  end.

(** ** One yielding instruction *)
Definition exec_instr (st : wstate) (t : tid) (i : instr) (r : list instr) : wstate * list wevent :=
  match i with
  | IClimb k => exec_climb st t k r
  | ITopSwap =>
      let old := top st in
      let st1 := rmw_clk st t WTop in
      let st2 := set_top st1 0 in
      (set_cont st2 t (IBms (flat_map (bms_of_slot st) (bits_of old)) :: r), [EAtomic WTop Swap old 0 ORDERING])
  | IBms (bm :: bms) =>
      let old := summ st bm in
      let st1 := rmw_clk st t (WSum bm) in
      let st2 := set_summ st1 (updZ (summ st1) bm 0) in
      (set_cont st2 t (ILeaves bm (bits_of old) :: IBms bms :: r), [EAtomic (WSum bm) Swap old 0 ORDERING])
  | ILeaves bm (a :: ls) =>
      let old := leaf st bm a in
      let st1 := rmw_clk st t (WLeaf bm a) in
      let st2 := set_leaf st1 (fun x y => if (x =? bm) && (y =? a) then 0 else leaf st1 x y) in
      let '(bits, ok) := collect (bmbase st bm) a old in
      let st3 := ghost_collect st2 bits in
      let x := th st3 t in
      (set_cont (upd_th st3 t (set_tacc x (tacc x ++ bits))) t (ILeaves bm ls :: r),
       EAtomic (WLeaf bm a) Swap old 0 ORDERING :: (if ok then [] else [EErr]))
  | ILock m a =>
      let st1 := acq_mtx (set_owner st (updM (owner st) m (Some t))) t m in
      let '(st2, ev) := exec_lact st1 t a r in
      (st2, ELock m :: ev)
  | IUnlock m a =>
      let '(st1, ev) := exec_uact st t a r in
      let st2 := rel_mtx (set_owner st1 (updM (owner st1) m None)) t m in
      (st2, EUnlock m :: ev)
  | ICvWait p =>
      let st1 := rel_mtx (set_owner st (updM (owner st) (MPq p) None)) t (MPq p) in
      (upd_th st1 t (set_tcont (set_twaiting (th st1 t) true) r), [ECvWait p])
  | ICvReacq p =>
      let st1 := acq_mtx (set_owner st (updM (owner st) (MPq p) (Some t))) t (MPq p) in
      let '(st2, ev) := exec_lact st1 t (LPqRecv p) r in
      (st2, ECvWake p :: ev)
  | INotify p =>
      let hit u := let x := th st u in
                   twaiting x && match tcont x with ICvReacq q :: _ => q =? p | _ => false end in
      let us := filter hit (seq 0 (nthr st)) in
      let st1 := fold_left (fun s u => upd_th s u (set_twaiting (th s u) false)) us st in
      (set_cont st1 t r, [ENotifyCv p (Z.of_nat (length us))])
  | IYieldH h del =>
      let '(st1, ev) := ghost_handler st t h del in
      (set_cont st1 t r, ev)
  | IJoin =>
      let all := fold_left (fun c u => vjoin c (tclk (th st u))) (seq 0 (nthr st)) (tclk (th st t)) in
      (set_cont (upd_th st t (set_tclk (th st t) all)) t r, [EJoin])
  | IIdle => (set_cont st t r, [EIdle])
  | IBms [] | ILeaves _ [] | IRun | IHandlers _ | IDels _ =>
      (st, [EErr])          (* never at the head of a normalised continuation; the normalisation that follows handles it *)
  end.

(** ** End of a step: normalise; command completion; thread exit sequence *)
Definition settle (st : wstate) (t : tid) (ev : list wevent) (done : option retv) : wstate * list wevent :=
  let x := th st t in
  let '(s1, acc1, k1, ev1) := norm (2 * (cont_size (tcont x) + length (tacc x)) + 2) (sl st) (tacc x) (tcont x) ev in
  let st1 := set_sl (upd_th st t (set_tacc (set_tcont x k1) acc1)) s1 in
  let x1 := th st1 t in
  (* command completion *)
  let '(st2, ev2) :=
    match done, k1, tcur x1 with
    | Some v, _, _ => (upd_th st1 t (set_tcur x1 None), ev1 ++ [ERet v])
    | None, [], Some c =>
        let st' := match c with
                   | CWake w => set_wbusy st1 (updZ (wbusy st1) w (Nat.pred (wbusy st1 w)))
                   | _ => st1
                   end in
        (upd_th st' t (set_tcur (th st' t) None), ev1 ++ [ERet (tret x1)])
    | _, _, _ => (st1, ev1)
    end in
  (* exit sequence of a piped worker: continues without a yield point *)
  let x2 := th st2 t in
  match tcont x2, tscript x2, tcur x2, tfinal x2 with
  | [], [], None, (_ :: _) as f => (upd_th st2 t (set_tfinal (set_tcont x2 f) []), ev2)
  | [], [], None, [] => (st2, if is_main t then ev2 else ev2 ++ [EExit])
  | _, _, _, _ => (st2, ev2)
  end.

Definition tick (st : wstate) (t : tid) : wstate := upd_th st t (set_tclk (th st t) (vtick t (tclk (th st t)))).

Definition wstep (st0 : wstate) (t : tid) : wstate * list wevent :=
  if negb (enabled st0 t) then (st0, [EStutter])
  else
    let st := tick st0 t in
    let x := th st t in
    if negb (tstarted x) then settle (upd_th st t (set_tstarted x true)) t [EStart] None
    else match tcont x with
         | i :: r => let '(st1, ev) := exec_instr st t i r in settle st1 t ev None
         | [] =>
           match tscript x with
           | c :: cs =>
             let st1 := upd_th st t (set_tret (set_tcur (set_tscript x cs) (Some c)) RUnit) in
             let '(st2, ev, done) := begin_cmd st1 t c in
             settle st2 t (ECmd c :: ev) done
           | [] => (st0, [EStutter])
           end
         end.

Fixpoint wrun (st : wstate) (sched : list tid) : wstate * list (tid * list wevent) :=
  match sched with
  | [] => (st, [])
  | t :: rest =>
    let '(st1, ev) := wstep st t in
    let '(st2, tr) := wrun st1 rest in
    (st2, (t, ev) :: tr)
  end.

Definition wtrace (scr : tid -> list cmd) (sched : list tid) : list (tid * list wevent) :=
  snd (wrun (winit scr) sched).
