(** * Layer W: when the ghost "owed" flags change (C11_handler_after_wake).

    [owed st h] becomes true only in a step that contains a leaf [fetch_or] (the first atomic of a
    [wake]), and becomes false only in a step in which a call of the handler of [h] starts. *)
From Coq Require Import ZArith List Bool Arith Lia.
From Stk Require Import Lib.U Gen.SrcWaker W.Waker W.WakerArith W.WakerCore W.WakerSlab W.WakerPres W.WakerRefine W.WakerProofs.
Import ListNotations.
Local Open Scope Z_scope.

Definition is_leaf_or (e : wevent) : Prop :=
  exists bm a old new, e = EAtomic (WLeaf bm a) FetchOr old new ORDERING.

(** the ghost flags change from [st] to [st'] only as allowed, given the events [ev] *)
Definition ghost_ok (st st' : wstate) (ev : list wevent) : Prop :=
  forall h,
    (~ owed st h -> owed st' h -> exists e, In e ev /\ is_leaf_or e) /\
    (owed st h -> ~ owed st' h -> exists d, In (EHandler h d) ev).

Lemma owed_dec : forall st h, owed st h \/ ~ owed st h.
Proof.
  intros st h. unfold owed. destruct (gnew st h); [left; left; discriminate|].
  destruct (gcol st h); [left; right; discriminate|]. right. intros [H|H]; congruence.
Qed.

Lemma ghost_ok_same : forall st st' ev, gnew st' = gnew st -> gcol st' = gcol st -> ghost_ok st st' ev.
Proof.
  intros st st' ev H1 H2 h. unfold owed. rewrite H1, H2. split; intros A B; contradiction.
Qed.

Lemma ghost_ok_trans : forall st st1 st2 ev1 ev2,
  ghost_ok st st1 ev1 -> ghost_ok st1 st2 ev2 -> ghost_ok st st2 (ev1 ++ ev2).
Proof.
  intros st st1 st2 ev1 ev2 G1 G2 h. destruct (G1 h) as [A1 B1]. destruct (G2 h) as [A2 B2]. split.
  - intros N O. destruct (owed_dec st1 h) as [O1|N1].
    + destruct (A1 N O1) as [e [I L]]. exists e. split; auto. apply in_or_app; auto.
    + destruct (A2 N1 O) as [e [I L]]. exists e. split; auto. apply in_or_app; auto.
  - intros O N. destruct (owed_dec st1 h) as [O1|N1].
    + destruct (B2 O1 N) as [d I]. exists d. apply in_or_app; auto.
    + destruct (B1 O N1) as [d I]. exists d. apply in_or_app; auto.
Qed.

Lemma ghost_ok_weaken : forall st st' ev ev', ghost_ok st st' ev -> (forall e, In e ev -> In e ev') -> ghost_ok st st' ev'.
Proof.
  intros st st' ev ev' G Hs h. destruct (G h) as [A B]. split.
  - intros N O. destruct (A N O) as [e [I L]]. exists e. auto.
  - intros O N. destruct (B O N) as [d I]. exists d. auto.
Qed.

Lemma ghost_handler_ok : forall st t h d st' ev,
  ghost_handler st t h d = (st', ev) -> ghost_ok st st' ev.
Proof.
  intros st t h d st' ev H. unfold ghost_handler in H. inversion H; subst; clear H. intro h0.
  destruct (hkind_eqb h0 h) eqn:E.
  - apply hkind_eqb_eq in E. subst h0. split.
    + intros N O. exfalso. apply N. unfold owed in *. destruct d; cbn in O; rewrite ?updH_same in O.
      * destruct O; congruence.
      * destruct O as [O|O]; [left; exact O|congruence].
    + intros _ _. exists d. left. reflexivity.
  - assert (h0 <> h) by (intro; subst; rewrite hkind_eqb_refl in E; discriminate).
    assert (S1 : owed (fst (ghost_handler st t h d)) h0 <-> owed st h0).
    { unfold ghost_handler, owed. destruct d; cbn; rewrite ?updH_other by auto; tauto. }
    unfold ghost_handler in S1. cbn [fst] in S1. split; intros A B; exfalso; tauto.
Qed.

Lemma ghost_collect_owed : forall bits st h, owed (ghost_collect st bits) h <-> owed st h.
Proof.
  unfold ghost_collect.
  induction bits as [|b bits IH]; intros st h; [cbn; tauto|].
  cbn [fold_left]. rewrite IH. destruct (slab_get (sl st) b) as [h0|]; [|tauto].
  unfold owed. cbn. destruct (hkind_eqb h h0) eqn:E.
  - apply hkind_eqb_eq in E. subst. rewrite !updH_same.
    destruct (gcol st h0), (gnew st h0); cbn; split; intros [A|A]; try congruence; auto; try (right; discriminate); try (left; discriminate).
  - assert (h <> h0) by (intro; subst; rewrite hkind_eqb_refl in E; discriminate).
    rewrite !updH_other by auto. tauto.
Qed.

Ltac gsame := apply ghost_ok_same; reflexivity.

Lemma exec_lact_ghost : forall st t a r st' ev, exec_lact st t a r = (st', ev) -> ghost_ok st st' ev.
Proof.
  intros st t a r st' ev H.
  destruct a; cbn [exec_lact] in H;
    try (destr_all H; inversion H; subst; clear H; gsame).
  - (* LTake *)
    destruct (ghost_handler st t HReserved false) as [st1 ev1] eqn:G. inversion H; subst; clear H.
    apply ghost_handler_ok in G. intro h. destruct (G h) as [A B]. split; [exact A|exact B].
  - destruct (ghost_handler st t (HChan c) del) as [st1 ev1] eqn:G. inversion H; subst; clear H.
    apply ghost_handler_ok in G. intro h. destruct (G h) as [A B]. split; [exact A|exact B].
  - destruct (ghost_handler st t (HPipe p) del) as [st1 ev1] eqn:G. inversion H; subst; clear H.
    apply ghost_handler_ok in G. intro h. destruct (G h) as [A B]. split; [exact A|exact B].
Qed.

Lemma exec_uact_ghost : forall st t a r st' ev, exec_uact st t a r = (st', ev) -> ghost_ok st st' ev.
Proof.
  intros st t a r st' ev H. destruct a; cbn [exec_uact] in H; inversion H; subst; clear H; gsame.
Qed.

Lemma exec_climb_ghost : forall st t k r st' ev, exec_climb st t k r = (st', ev) -> ghost_ok st st' ev.
Proof.
  intros st t k r st' ev H. destruct k; cbn [exec_climb] in H; inversion H; subst; clear H; try gsame.
  intro h. split.
  - intros _ _. eexists. split; [left; reflexivity|]. unfold is_leaf_or. eauto.
  - intros O N. exfalso. apply N. unfold owed in *.
    destruct (bitmap_join a b (bmbase st bm)) as [x|]; [|exact O].
    destruct (slab_get (sl st) x) as [h0|]; [|exact O].
    cbn. unfold updH. destruct (hkind_eqb h h0) eqn:E; [|exact O].
    left. unfold ovjoin. destruct (gnew st h0); discriminate.
Qed.

Lemma ghost_ok_iff : forall st st' ev, (forall h, owed st' h <-> owed st h) -> ghost_ok st st' ev.
Proof. intros st st' ev H h. split; intros A B; exfalso; apply H in B || (apply <- H in A); tauto. Qed.

Lemma exec_instr_ghost : forall st t i r st' ev, exec_instr st t i r = (st', ev) -> ghost_ok st st' ev.
Proof.
  intros st t i r st' ev H. destruct i; cbn [exec_instr] in H.
  - eapply exec_climb_ghost; eauto.
  - inversion H; subst; clear H. gsame.
  - destruct bms; inversion H; subst; clear H; gsame.
  - destruct ls; [inversion H; subst; gsame|].
    destruct (collect (bmbase st bm) z (leaf st bm z)) as [bits ok].
    inversion H; subst; clear H. apply ghost_ok_iff. intro h.
    match goal with |- owed (set_cont (upd_th (ghost_collect ?S bits) _ _) _ _) h <-> _ =>
      transitivity (owed (ghost_collect S bits) h); [unfold owed; cbn; tauto|rewrite ghost_collect_owed; unfold owed; cbn; tauto] end.
  - inversion H; subst; gsame.
  - inversion H; subst; gsame.
  - inversion H; subst; gsame.
  - match type of H with context [exec_lact ?S t ?aa ?rr] => destruct (exec_lact S t aa rr) as [s2 e2] eqn:E end.
    inversion H; subst; clear H. apply exec_lact_ghost in E.
    eapply ghost_ok_weaken; [|intros e He; right; exact He].
    intro h. destruct (E h) as [A B]. split; [exact A|exact B].
  - destruct (exec_uact st t a r) as [s1 e1] eqn:E. inversion H; subst; clear H. apply exec_uact_ghost in E.
    eapply ghost_ok_weaken; [|intros e He; right; exact He].
    intro h. destruct (E h) as [A B]. split; [exact A|exact B].
  - inversion H; subst; clear H. gsame.
  - match type of H with context [exec_lact ?S t ?aa ?rr] => destruct (exec_lact S t aa rr) as [s2 e2] eqn:E end.
    inversion H; subst; clear H. apply exec_lact_ghost in E.
    eapply ghost_ok_weaken; [|intros e He; right; exact He].
    intro h. destruct (E h) as [A B]. split; [exact A|exact B].
  - inversion H; subst; clear H. apply ghost_ok_same.
    + match goal with |- gnew (set_cont (fold_left ?f ?us st) t r) = _ => destruct (notify_fold_spec us st) as [_ [_ [_ [_ [_ [_ [_ [A8 _]]]]]]]] end.
      cbn zeta in A8. exact A8.
    + match goal with |- gcol (set_cont (fold_left ?f ?us st) t r) = _ => destruct (notify_fold_spec us st) as [_ [_ [_ [_ [_ [_ [_ [_ [A9 _]]]]]]]]] end.
      cbn zeta in A9. exact A9.
  - destruct (ghost_handler st t h del) as [st1 ev1] eqn:G. inversion H; subst; clear H.
    apply ghost_handler_ok in G. intro h0. destruct (G h0) as [A B]. split; [exact A|exact B].
  - inversion H; subst; clear H. gsame.
  - inversion H; subst; clear H. gsame.
Qed.

Lemma wh_add_ghost : forall st h st1 wi, wh_add st h = Some (st1, wi) -> gnew st1 = gnew st /\ gcol st1 = gcol st.
Proof.
  intros st h st1 wi H. unfold wh_add in H.
  destruct (slab_insert (sl st) h) as [bit0 s0].
  destruct (add_loop 2 s0 h bit0) as [[[bit base] s1]|]; [|discriminate].
  destruct (waker_vec_index bit); [|discriminate]. destruct (waker_slot bit); [|discriminate].
  inversion H; subst. split; reflexivity.
Qed.

Lemma fill_loop_ghost : forall n st ev st' ev', fill_loop n st ev = (st', ev') -> gnew st' = gnew st /\ gcol st' = gcol st.
Proof.
  induction n as [|n IH]; intros st ev st' ev' H; cbn [fill_loop] in H.
  - inversion H; subst; auto.
  - destruct (wh_add st (HPlain (1000000 + nfill st))) as [[st1 wi]|] eqn:E.
    + apply wh_add_ghost in E. destruct E as [E1 E2]. apply IH in H. cbn in H. destruct H. split; congruence.
    + inversion H; subst; auto.
Qed.

Lemma begin_cmd_ghost : forall st t c st' ev done,
  begin_cmd st t c = (st', ev, done) -> gnew st' = gnew st /\ gcol st' = gcol st.
Proof.
  intros st t c st' ev done H.
  destruct c; cbn [begin_cmd] in H;
    try (destr_all H; inversion H; subst; clear H; split; reflexivity).
  - destruct (negb (is_main t) || wused st w || (1000000 <=? w) || (w <? 0)); [inversion H; subst; auto|].
    destruct (wh_add st (HPlain w)) as [[st1 wi]|] eqn:E; inversion H; subst; auto. apply wh_add_ghost in E. exact E.
  - destruct (negb (is_main t)); [inversion H; subst; auto|].
    destruct (fill_loop (Z.to_nat n) st []) as [st1 ev1] eqn:E. inversion H; subst. eapply fill_loop_ghost; eauto.
  - destruct (negb (is_main t) || cexists (chs st c)); [inversion H; subst; auto|].
    destruct (wh_add st (HChan c)) as [[st1 wi]|] eqn:E; inversion H; subst; auto. apply wh_add_ghost in E. exact E.
  - destruct (negb (is_main t) || pexists (pps st p)); [inversion H; subst; auto|].
    destruct (wh_add st (HPipe p)) as [[st1 wi]|] eqn:E; inversion H; subst; auto. apply wh_add_ghost in E. exact E.
Qed.

Lemma norm_events : forall fuel s acc k ev s1 acc1 k1 ev1,
  norm fuel s acc k ev = (s1, acc1, k1, ev1) -> forall e, In e ev -> In e ev1.
Proof.
  induction fuel as [|f IH]; intros s acc k ev s1 acc1 k1 ev1 H e He; cbn [norm] in H.
  - inversion H; subst; auto.
  - destruct k as [|i r]; [inversion H; subst; auto|].
    destruct i as [c| |[|bm bms]|bm [|a ls]| |[|b bs]|[|b bs]| | | | | | | |];
      try (inversion H; subst; auto; fail); try (eapply IH; eauto; fail).
    + destruct (slab_get s b); [inversion H; subst; auto|eapply IH; eauto].
    + destruct (wh_del s b) as [[h s']|]; [inversion H; subst; apply in_or_app; auto|eapply IH; eauto].
Qed.

Lemma settle_ghost : forall st t ev done st' ev',
  settle st t ev done = (st', ev') ->
  gnew st' = gnew st /\ gcol st' = gcol st /\ forall e, In e ev -> In e ev'.
Proof.
  intros st t ev done st' ev' H. unfold settle in H.
  destruct (norm (2 * (cont_size (tcont (th st t)) + length (tacc (th st t))) + 2) (sl st) (tacc (th st t)) (tcont (th st t)) ev)
    as [[[s1 acc1] k1] ev1] eqn:En.
  pose proof (norm_events _ _ _ _ _ _ _ _ _ En) as Hev.
  cbn zeta in H.
  match type of H with (let '(st2, ev2) := ?E in _) = _ => destruct E as [st2 ev2] eqn:E2 end.
  assert (G2 : gnew st2 = gnew st /\ gcol st2 = gcol st /\ forall e, In e ev1 -> In e ev2).
  { destruct done as [v|].
    - inversion E2; subst. repeat split; auto. intros; apply in_or_app; auto.
    - destruct k1.
      + destruct (tcur _) as [c|]; inversion E2; subst.
        * destruct c; repeat split; auto; intros; apply in_or_app; auto.
        * repeat split; auto.
      + inversion E2; subst. repeat split; auto. }
  destruct G2 as [A [B C]].
  destruct (tcont (th st2 t)); [|inversion H; subst; repeat split; auto].
  destruct (tscript (th st2 t)); [|inversion H; subst; repeat split; auto].
  destruct (tcur (th st2 t)); [inversion H; subst; repeat split; auto|].
  destruct (tfinal (th st2 t)); inversion H; subst; repeat split; auto.
  destruct (is_main t); auto. intros; apply in_or_app; auto.
Qed.

Theorem wstep_ghost : forall st t st' ev, wstep st t = (st', ev) -> ghost_ok st st' ev.
Proof.
  intros st t st' ev H. unfold wstep in H.
  destruct (enabled st t); cbn [negb] in H; [|inversion H; subst; gsame].
  assert (T : gnew (tick st t) = gnew st /\ gcol (tick st t) = gcol st) by (split; reflexivity).
  destruct T as [T1 T2].
  set (s0 := tick st t) in *. clearbody s0.
  destruct (tstarted (th s0 t)); cbn [negb] in H.
  - destruct (tcont (th s0 t)) as [|i r].
    + destruct (tscript (th s0 t)) as [|c0 cs]; [inversion H; subst; gsame|].
      match type of H with context [begin_cmd ?S t ?cc] =>
        destruct (begin_cmd S t cc) as [[st2 ev0] done] eqn:Eb end.
      apply begin_cmd_ghost in Eb. cbn in Eb. destruct Eb as [B1 B2].
      apply settle_ghost in H. destruct H as [S1 [S2 _]].
      apply ghost_ok_same; congruence.
    + destruct (exec_instr s0 t i r) as [st1 ev1] eqn:Ee.
      apply exec_instr_ghost in Ee. apply settle_ghost in H. destruct H as [S1 [S2 S3]].
      intro h. destruct (Ee h) as [A B]. unfold owed in *. rewrite S1, S2, <- T1, <- T2. split.
      * intros N O. destruct (A N O) as [e [I L]]. exists e. auto.
      * intros O N. destruct (B O N) as [d I]. exists d. auto.
  - apply settle_ghost in H. destruct H as [S1 [S2 _]]. apply ghost_ok_same; cbn in *; congruence.
Qed.

(** ** C11_handler_after_wake *)
Theorem handler_after_wake : forall st t st' ev h,
  wstep st t = (st', ev) ->
  (~ owed st h -> owed st' h -> exists e, In e ev /\ is_leaf_or e) /\
  (owed st h -> ~ owed st' h -> exists d, In (EHandler h d) ev).
Proof. intros st t st' ev h H. exact (wstep_ghost st t st' ev H h). Qed.
