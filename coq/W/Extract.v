(** Extraction of the Layer W model and monitors for the correspondence check (ExtrOcamlBasic only). *)
From Coq Require Import Extraction ExtrOcamlBasic ZArith List.
From Stk Require Import Lib.U Gen.SrcWaker W.Waker W.Monitors.
Extraction Language OCaml.
Extraction "extracted/w_model.ml" wstep wrun winit enabled finished ordering_ok
  C11_ok C12_ok C13_ok C14_ok flatten Z.of_nat Z.to_nat.
