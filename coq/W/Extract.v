(** Extraction of the Layer W model for the correspondence check (ExtrOcamlBasic only). *)
From Coq Require Import Extraction ExtrOcamlBasic ZArith List.
From Stk Require Import Lib.U Gen.SrcWaker W.Waker.
Extraction Language OCaml.
Extraction "extracted/w_model.ml" wstep wrun winit enabled finished ordering_ok Z.of_nat Z.to_nat.
