(** * Layer W: the channel monitor [C13_ok] holds on every run of the model (C13, trace form).

    [CRel pa st m]: the monitor state [m] after the events of a run prefix agrees with the model state [st] reached
    by that prefix.  For an open channel the accepted messages are exactly: the forwarded ones, then the ones the
    handler has taken and is about to forward, then the queue ([r_open]); acceptance order of one sender follows
    its program order ([r_ord]); nothing is in transit for a closed channel. *)
From Coq Require Import ZArith List Bool Arith Lia.
From Stk Require Import Lib.U Gen.SrcWaker W.Waker W.WakerArith W.WakerCore W.WakerSlab W.WakerPres W.WakerRefine
  W.WakerProofs W.WakerGhost W.WakerLock W.WakerDrop W.WakerSlot W.WakerWf W.Chan W.Pipe W.Monitors W.MonBase.
Import ListNotations.
Local Open Scope Z_scope.

(** ** the monitor's bookkeeping component *)
Lemma m13_b_step : forall m te, m13_b (m13_step m te) = mb_step (m13_b m) te.
Proof.
  intros m [t e]. unfold m13_step. destruct e; try reflexivity.
  - destruct c; reflexivity.
  - destruct (get_tid t (b_cur (m13_b m))) as [c|]; [|reflexivity].
    destruct c; try reflexivity; destruct v; try reflexivity; destruct b; reflexivity.
Qed.
Lemma m13_b_fold : forall tr m, m13_b (fold_left m13_step tr m) = fold_left mb_step tr (m13_b m).
Proof. induction tr as [|te tr IH]; intro m; [reflexivity|]. cbn [fold_left]. rewrite IH, m13_b_step. reflexivity. Qed.

(** events that only touch the bookkeeping component *)
Definition c13_plain (e : wevent) : Prop :=
  match e with ECmd _ | ERet _ | EFwd _ _ => False | _ => True end.
Record m13_same (m m' : m13) : Prop := {
  ms_sends : m13_sends m' = m13_sends m; ms_acc : m13_acc m' = m13_acc m; ms_fwd : m13_fwd m' = m13_fwd m;
  ms_cbegun : m13_cbegun m' = m13_cbegun m; ms_cdone : m13_cdone m' = m13_cdone m;
  ms_late : m13_late m' = m13_late m; ms_bad : m13_bad m' = m13_bad m }.
Lemma m13_same_refl : forall m, m13_same m m.
Proof. intro m. constructor; reflexivity. Qed.
Lemma m13_same_trans : forall a b c, m13_same a b -> m13_same b c -> m13_same a c.
Proof. intros a b c [] []. constructor; congruence. Qed.
Lemma m13_plain_step : forall m t e, c13_plain e -> m13_same m (m13_step m (t, e)).
Proof. intros m t e H. destruct e; cbn in H; try contradiction; constructor; reflexivity. Qed.
Lemma m13_plain_fold : forall t ev m, (forall e, In e ev -> c13_plain e) -> m13_same m (fold_left m13_step (evs t ev) m).
Proof.
  induction ev as [|e ev IH]; intros m H; [apply m13_same_refl|]. cbn [evs map fold_left]. fold (evs t ev).
  eapply m13_same_trans; [apply (m13_plain_step m t e); apply H; left; reflexivity|]. apply IH. intros; apply H; right; auto.
Qed.

(** ** vocabulary *)
Definition sk (s : csend) : Z * Z := (cs_c s, cs_m s).
Definition accs (m : m13) (c : Z) : list Z :=
  rev (flat_map (fun a => if fst (snd a) =? c then [snd (snd a)] else []) (m13_acc m)).
Definition fwds (m : m13) (c : Z) : list Z :=
  rev (flat_map (fun p => if fst p =? c then [snd p] else []) (m13_fwd m)).
Definition ufwd_of (c : Z) (i : instr) : list Z :=
  match i with IUnlock _ (UFwd c' msgs) => if c' =? c then msgs else [] | _ => [] end.
Definition transit (st : wstate) (c : Z) : list Z := flat_map (ufwd_of c) (tcont (thr st main)).
Definition pendl (pa : option (tid * Z * Z)) (c : Z) : list Z :=
  match pa with Some (_, c', x) => if c' =? c then [x] else [] | None => [] end.

Definition is_climb (i : instr) : Prop := exists k, i = IClimb k.
Definition send_shape (c x : Z) (k : list instr) : Prop :=
  k = [ILock (MCh c) (LChSend c x)] \/
  (exists pre, (forall i, In i pre -> is_climb i) /\ k = pre ++ [IUnlock (MCh c) (UChPush c x)]) \/
  k = [IUnlock (MCh c) (URet (RBool false))].

(** the sends of thread [t] begun before the entry [e] of the (newest first) list *)
Definition older (l : list csend) (e e' : csend) : Prop := exists l1 l2, l = l1 ++ e :: l2 /\ In e' l2.

(** ** state-only part: what the threads inside channel commands look like *)
Definition drop_ok (i : instr) : Prop :=
  match i with ILock _ (LPush _ _ _) | IUnlock _ (UChClear _) | IUnlock _ UNone | IClimb _ => True | _ => False end.
Definition no_close (k : list instr) : Prop := forall i, In i k -> drop_ok i.

Record ShInv (st : wstate) : Prop := {
  sh_send : forall t c x, tcur (thr st t) = Some (CSend c x) ->
            (tret (thr st t) = RUnit /\ (tcont (thr st t) = [] \/ send_shape c x (tcont (thr st t)))) \/
            (tcont (thr st t) = [] /\ exists b, tret (thr st t) = RBool b);
  sh_closed : forall t c, tcur (thr st t) = Some (CClosed c) ->
            (tret (thr st t) = RUnit /\
             (tcont (thr st t) = [] \/ tcont (thr st t) = [ILock (MCh c) (LChClosed c)] \/
              exists b, tcont (thr st t) = [IUnlock (MCh c) (URet (RBool b))])) \/
            (tcont (thr st t) = [] /\ exists b, tret (thr st t) = RBool b);
  sh_drop : forall t c, tcur (thr st t) = Some (CCDrop c) ->
            tret (thr st t) = RUnit /\
            (tcont (thr st t) = [] \/
             (t = main /\ cexists (chs st c) = true /\
              (tcont (thr st t) = [ILock (MCh c) (LChClose c)] \/
               (copen (chs st c) = false /\ no_close (tcont (thr st t))))));
  sh_own_ls : forall t m c x, In (ILock m (LChSend c x)) (tcont (thr st t)) -> tcur (thr st t) = Some (CSend c x);
  sh_own_lc : forall t m c, In (ILock m (LChClosed c)) (tcont (thr st t)) -> tcur (thr st t) = Some (CClosed c);
  sh_own_close : forall t m c, In (ILock m (LChClose c)) (tcont (thr st t)) -> tcur (thr st t) = Some (CCDrop c);
  sh_own_push : forall t m c x, In (IUnlock m (UChPush c x)) (tcont (thr st t)) -> tcur (thr st t) = Some (CSend c x);
  sh_own_h : forall t m c d, In (ILock m (LChHandler c d)) (tcont (thr st t)) -> t = main;
  sh_clear : forall t m c, In (IUnlock m (UChClear c)) (tcont (thr st t)) ->
             copen (chs st c) = false /\ cexists (chs st c) = true;
  sh_reg : forall t m c, In (IUnlock m (UChReg c)) (tcont (thr st t)) \/ In (ILock m (LChInit c)) (tcont (thr st t)) ->
           cexists (chs st c) = true;
  sh_ufwd_head : forall t i r0 c, tcont (thr st t) = i :: r0 -> flat_map (ufwd_of c) r0 = [];
  sh_ufwd_main : forall t c, t <> main -> flat_map (ufwd_of c) (tcont (thr st t)) = [];
  sh_ufwd_open : forall t m c msgs, In (IUnlock m (UFwd c msgs)) (tcont (thr st t)) -> msgs <> [] ->
                 copen (chs st c) = true;
  sh_ex : forall c, (cguard (chs st c) = true \/ Waker.creg (chs st c) = true \/ copen (chs st c) = true) ->
          cexists (chs st c) = true }.

(** instructions whose presence some clause of [ShInv] speaks about *)
Definition sh_free (i : instr) : Prop :=
  match i with
  | ILock _ (LChSend _ _) | ILock _ (LChClosed _) | ILock _ (LChClose _) | ILock _ (LChInit _) | ILock _ (LChHandler _ _) => False
  | IUnlock _ (UChPush _ _) | IUnlock _ (UChClear _) | IUnlock _ (UChReg _) | IUnlock _ (UFwd _ _) => False
  | _ => True
  end.
Lemma sh_free_ufwd : forall k c, (forall i, In i k -> sh_free i) -> flat_map (ufwd_of c) k = [].
Proof.
  induction k as [|i k IH]; intros c H; [reflexivity|]. cbn [flat_map]. rewrite IH by (intros; apply H; right; auto).
  specialize (H i (or_introl eq_refl)). destruct i; try reflexivity. destruct a; try reflexivity. contradiction.
Qed.

Definition chs_flags (st st' : wstate) : Prop :=
  forall c, copen (chs st' c) = copen (chs st c) /\ cexists (chs st' c) = cexists (chs st c) /\
            cguard (chs st' c) = cguard (chs st c) /\ Waker.creg (chs st' c) = Waker.creg (chs st c).

(** what a step of thread [t] may add to its continuation *)
Definition sh_fresh (st' : wstate) (t : tid) (j : instr) : Prop :=
  match j with
  | ILock _ (LChSend c x) => tcur (thr st' t) = Some (CSend c x)
  | ILock _ (LChClosed c) => tcur (thr st' t) = Some (CClosed c)
  | ILock _ (LChClose c) => tcur (thr st' t) = Some (CCDrop c)
  | IUnlock _ (UChPush c x) => tcur (thr st' t) = Some (CSend c x)
  | ILock _ (LChHandler _ _) => t = main
  | IUnlock _ (UChClear c) => copen (chs st' c) = false /\ cexists (chs st' c) = true
  | IUnlock _ (UChReg c) | ILock _ (LChInit c) => cexists (chs st' c) = true
  | IUnlock _ (UFwd c msgs) => t = main /\ (msgs <> [] -> copen (chs st' c) = true)
  | _ => True
  end.

(** thread [t] replaces [pre] by [new]; channel flags may change monotonically *)
Section ShFrame.
  Variables (st st' : wstate) (t : tid) (pre r new : list instr).
  Hypothesis S : ShInv st.
  Hypothesis Hex : forall c, cexists (chs st c) = true -> cexists (chs st' c) = true.
  Hypothesis Hcl : forall c, copen (chs st c) = false -> cexists (chs st c) = true -> copen (chs st' c) = false.
  Hypothesis Hop : forall c, copen (chs st c) = true -> copen (chs st' c) = true \/
                   (forall u m msgs, In (IUnlock m (UFwd c msgs)) (tcont (thr st' u)) -> msgs = []).
  Hypothesis Hsex : forall c, (cguard (chs st' c) = true \/ Waker.creg (chs st' c) = true \/ copen (chs st' c) = true) ->
                    cexists (chs st' c) = true.
  Hypothesis Hcur : forall u, tcur (thr st' u) = tcur (thr st u).
  Hypothesis Hret : forall u, u <> t -> tret (thr st' u) = tret (thr st u).
  Hypothesis Ho : forall u, u <> t -> tcont (thr st' u) = tcont (thr st u).
  Hypothesis Hc : tcont (thr st t) = pre ++ r.
  Hypothesis Hc' : tcont (thr st' t) = new ++ r.
  Hypothesis Hnew : forall i, In i new -> sh_fresh st' t i.
  Hypothesis Hnewtl : forall c, flat_map (ufwd_of c) (tl new) = [].
  (* the commands of [t]: the caller shows what becomes of the shape *)
  Hypothesis Hsend : forall c x, tcur (thr st t) = Some (CSend c x) ->
     (tret (thr st' t) = RUnit /\ (new ++ r = [] \/ send_shape c x (new ++ r))) \/
     (new ++ r = [] /\ exists b, tret (thr st' t) = RBool b).
  Hypothesis Hclosed : forall c, tcur (thr st t) = Some (CClosed c) ->
     (tret (thr st' t) = RUnit /\
      (new ++ r = [] \/ new ++ r = [ILock (MCh c) (LChClosed c)] \/ exists b, new ++ r = [IUnlock (MCh c) (URet (RBool b))])) \/
     (new ++ r = [] /\ exists b, tret (thr st' t) = RBool b).
  Hypothesis Hdrop : forall c, tcur (thr st t) = Some (CCDrop c) ->
     tret (thr st' t) = RUnit /\
     (new ++ r = [] \/
      (t = main /\ cexists (chs st' c) = true /\
       (new ++ r = [ILock (MCh c) (LChClose c)] \/ (copen (chs st' c) = false /\ no_close (new ++ r))))).
  Hypothesis Hhead : pre <> [] \/ new = [] \/ r = [].

  Lemma shf_in : forall u i, In i (tcont (thr st' u)) -> In i (tcont (thr st u)) \/ (u = t /\ In i new).
  Proof.
    intros u i Hin. destruct (Nat.eq_dec u t) as [->|Hu]; [|rewrite (Ho u Hu) in Hin; left; exact Hin].
    rewrite Hc' in Hin. rewrite Hc. apply in_app_or in Hin. destruct Hin as [Hin|Hin]; [right; auto|].
    left. apply in_or_app. auto.
  Qed.

  Lemma sh_step : ShInv st'.
  Proof.
    constructor.
    - intros u c x. rewrite Hcur. intro Hu. destruct (Nat.eq_dec u t) as [->|Hn].
      + rewrite Hc'. apply Hsend. exact Hu.
      + rewrite (Hret u Hn), (Ho u Hn). apply (sh_send st S u c x Hu).
    - intros u c. rewrite Hcur. intro Hu. destruct (Nat.eq_dec u t) as [->|Hn].
      + rewrite Hc'. apply Hclosed. exact Hu.
      + rewrite (Hret u Hn), (Ho u Hn). apply (sh_closed st S u c Hu).
    - intros u c. rewrite Hcur. intro Hu. destruct (Nat.eq_dec u t) as [->|Hn].
      + rewrite Hc'. apply Hdrop. exact Hu.
      + rewrite (Hret u Hn), (Ho u Hn). destruct (sh_drop st S u c Hu) as [D1 [D2|[D2 [D3 D4]]]]; (split; [exact D1|]); [left; exact D2|].
        right. split; [exact D2|]. split; [apply Hex; exact D3|]. destruct D4 as [D4|[D4 D5]]; [left; exact D4|right].
        split; [apply Hcl; auto|exact D5].
    - intros u m c x Hin. destruct (shf_in u _ Hin) as [H|[-> H]]; [rewrite Hcur; apply (sh_own_ls st S u m c x H)|exact (Hnew _ H)].
    - intros u m c Hin. destruct (shf_in u _ Hin) as [H|[-> H]]; [rewrite Hcur; apply (sh_own_lc st S u m c H)|exact (Hnew _ H)].
    - intros u m c Hin. destruct (shf_in u _ Hin) as [H|[-> H]]; [rewrite Hcur; apply (sh_own_close st S u m c H)|exact (Hnew _ H)].
    - intros u m c x Hin. destruct (shf_in u _ Hin) as [H|[-> H]]; [rewrite Hcur; apply (sh_own_push st S u m c x H)|exact (Hnew _ H)].
    - intros u m c d Hin. destruct (shf_in u _ Hin) as [H|[-> H]]; [apply (sh_own_h st S u m c d H)|exact (Hnew _ H)].
    - intros u m c Hin. destruct (shf_in u _ Hin) as [H|[-> H]]; [|exact (Hnew _ H)].
      destruct (sh_clear st S u m c H) as [A B]. split; [apply Hcl; auto|apply Hex; auto].
    - intros u m c [Hin|Hin]; (destruct (shf_in u _ Hin) as [H|[-> H]]; [|exact (Hnew _ H)]).
      + apply Hex. apply (sh_reg st S u m c). left. exact H.
      + apply Hex. apply (sh_reg st S u m c). right. exact H.
    - intros u i r0 c Hk. destruct (Nat.eq_dec u t) as [->|Hn]; [|rewrite (Ho u Hn) in Hk; apply (sh_ufwd_head st S u i r0 c Hk)].
      rewrite Hc' in Hk.
      assert (Hr : flat_map (ufwd_of c) r = [] \/ pre = []).
      { destruct pre as [|j pre0]; [right; reflexivity|left]. cbn in Hc.
        pose proof (sh_ufwd_head st S t j (pre0 ++ r) c Hc) as X. rewrite flat_map_app in X. apply app_eq_nil in X. apply X. }
      destruct new as [|j new0].
      + cbn in Hk. destruct Hr as [Hr|Hp].
        * rewrite Hk in Hr. cbn in Hr. apply app_eq_nil in Hr. apply Hr.
        * subst pre. cbn in Hc. rewrite Hk in Hc. apply (sh_ufwd_head st S t i r0 c Hc).
      + cbn in Hk. inversion Hk; subst. rewrite flat_map_app. specialize (Hnewtl c). cbn in Hnewtl. rewrite Hnewtl. cbn.
        destruct Hr as [Hr|Hp]; [exact Hr|]. destruct Hhead as [F|[F|F]]; [congruence|discriminate|rewrite F; reflexivity].
    - intros u c Hu. destruct (Nat.eq_dec u t) as [->|Hn]; [|rewrite (Ho u Hn); apply (sh_ufwd_main st S u c Hu)].
      pose proof (sh_ufwd_main st S t c Hu) as X. rewrite Hc, flat_map_app in X. apply app_eq_nil in X. destruct X as [_ X].
      rewrite Hc', flat_map_app, X, app_nil_r.
      assert (G : forall k, (forall i, In i k -> sh_fresh st' t i) -> flat_map (ufwd_of c) k = []).
      { induction k as [|i k IH]; intro Hk; [reflexivity|]. cbn [flat_map]. rewrite IH by (intros; apply Hk; right; auto).
        specialize (Hk i (or_introl eq_refl)). destruct i; try reflexivity. destruct a; try reflexivity. cbn in Hk. destruct Hk. congruence. }
      apply G. exact Hnew.
    - intros u m c msgs Hin Hne. destruct (shf_in u _ Hin) as [H|[-> H]]; [|apply (Hnew _ H); exact Hne].
      pose proof (sh_ufwd_open st S u m c msgs H Hne) as O. destruct (Hop c O) as [X|X]; [exact X|].
      exfalso. apply Hne. exact (X u m msgs Hin).
    - exact Hsex.
  Qed.
End ShFrame.

Lemma send_head : forall c x i r, send_shape c x (i :: r) ->
  (exists k, i = IClimb k) \/ (i = ILock (MCh c) (LChSend c x) /\ r = []) \/
  (i = IUnlock (MCh c) (UChPush c x) /\ r = []) \/ (i = IUnlock (MCh c) (URet (RBool false)) /\ r = []).
Proof.
  intros c x i r [H|[[pre [Hp H]]|H]].
  - inversion H; subst. right; left. auto.
  - destruct pre as [|j pre]; cbn in H; inversion H; subst.
    + right; right; left. auto.
    + left. apply Hp. left. reflexivity.
  - inversion H; subst. right; right; right. auto.
Qed.
Lemma send_climb_step : forall c x k r new,
  send_shape c x (IClimb k :: r) -> (forall i, In i new -> is_climb i) -> send_shape c x (new ++ r).
Proof.
  intros c x k r new [H|[[pre [Hp H]]|H]] Hn; try discriminate H.
  destruct pre as [|j pre]; cbn in H; inversion H; subst.
  right; left. exists (new ++ pre). split; [|rewrite app_assoc; reflexivity].
  intros i Hi. apply in_app_or in Hi. destruct Hi as [Hi|Hi]; [apply Hn; exact Hi|apply Hp; right; exact Hi].
Qed.

(** the commands of the running thread, when the executed instruction [i] is none of the channel-command instructions *)
Definition sh_plain (i : instr) : Prop :=
  match i with
  | IClimb _ => False
  | ILock _ (LChSend _ _) | ILock _ (LChClosed _) | ILock _ (LChClose _) => False
  | IUnlock _ (UChPush _ _) | IUnlock _ (URet _) => False
  | _ => True
  end.
Lemma sh_plain_cmds : forall st t i r, ShInv st -> tcont (thr st t) = i :: r -> sh_plain i ->
  (forall c x, tcur (thr st t) <> Some (CSend c x)) /\ (forall c, tcur (thr st t) <> Some (CClosed c)).
Proof.
  intros st t i r S Hc Hp. split.
  - intros c x Hu. destruct (sh_send st S t c x Hu) as [[_ [E|Sh]]|[E _]]; try (rewrite Hc in E; discriminate).
    rewrite Hc in Sh. destruct (send_head c x i r Sh) as [[k E]|[[E _]|[[E _]|[E _]]]]; subst i; exact Hp.
  - intros c Hu. destruct (sh_closed st S t c Hu) as [[_ [E|[E|[b E]]]]|[E _]]; rewrite Hc in E; try discriminate E;
      inversion E; subst i; exact Hp.
Qed.

Ltac sh_free_tac := let j := fresh "j" in let Hj := fresh "Hj" in intros j Hj; in_cases Hj; cbn [sh_fresh]; auto; try (thr_simpl; auto; fail).

(** flags unchanged *)
Lemma sh_flags_same : forall st st', chs_flags st st' -> ShInv st ->
  (forall c, cexists (chs st c) = true -> cexists (chs st' c) = true) /\
  (forall c, copen (chs st c) = false -> cexists (chs st c) = true -> copen (chs st' c) = false) /\
  (forall c, copen (chs st c) = true -> copen (chs st' c) = true \/
             (forall u m msgs, In (IUnlock m (UFwd c msgs)) (tcont (thr st' u)) -> msgs = [])) /\
  (forall c, (cguard (chs st' c) = true \/ Waker.creg (chs st' c) = true \/ copen (chs st' c) = true) -> cexists (chs st' c) = true).
Proof.
  intros st st' F S. split; [|split; [|split]]; intro c; destruct (F c) as [A [B [C D]]]; rewrite ?A, ?B, ?C, ?D; auto.
  apply (sh_ex st S c).
Qed.
Ltac sh_flags := let c0 := fresh "c0" in intro c0; cbn; unfold updZ;
  repeat match goal with |- context [?a =? ?b] => destruct (Z.eqb_spec a b); subst end; cbn; repeat split; reflexivity.

Lemma drop_keep : forall st st' t i r new c,
  ShInv st -> tcont (thr st t) = [i] ++ r -> i <> ILock (MCh c) (LChClose c) ->
  tcur (thr st t) = Some (CCDrop c) ->
  cexists (chs st' c) = cexists (chs st c) -> copen (chs st' c) = copen (chs st c) ->
  tret (thr st' t) = tret (thr st t) -> (drop_ok i -> no_close new) ->
  tret (thr st' t) = RUnit /\
  (new ++ r = [] \/
   (t = main /\ cexists (chs st' c) = true /\
    (new ++ r = [ILock (MCh c) (LChClose c)] \/ (copen (chs st' c) = false /\ no_close (new ++ r))))).
Proof.
  intros st st' t i r new c S Hc Hnc Hu E1 E2 E3 Hn.
  destruct (sh_drop st S t c Hu) as [D1 [D2|[D2 [D3 D4]]]].
  - rewrite Hc in D2. discriminate D2.
  - split; [congruence|]. right. split; [exact D2|]. split; [congruence|]. right.
    destruct D4 as [D4|[D4 D5]].
    + exfalso. rewrite Hc in D4. cbn in D4. inversion D4; subst. apply Hnc. reflexivity.
    + split; [congruence|]. intros j Hin. apply in_app_or in Hin. destruct Hin as [Hin|Hin].
      * apply Hn; [|exact Hin]. apply D5. rewrite Hc. left. reflexivity.
      * apply D5. rewrite Hc. right. exact Hin.
Qed.

(** a step by [t] with a [sh_plain] head and uninteresting replacement *)
Ltac shp st t i r new :=
  let Hcmd := fresh "Hcmd" in let F := fresh "F" in
  match goal with S : ShInv st, Hc : tcont (thr st t) = [i] ++ r |- ShInv ?st' =>
    pose proof (sh_plain_cmds st t i r S Hc Logic.I) as Hcmd;
    assert (F : chs_flags st st') by sh_flags;
    destruct (sh_flags_same st st' F S) as [F1 [F2 [F3 F4]]];
    apply (sh_step st st' t [i] r new S F1 F2 F3 F4);
    [ thr_simpl | thr_simpl | thr_simpl | exact Hc | thr_simpl | sh_free_tac | intro; reflexivity
    | let Hu := fresh in intros ? ? Hu; exfalso; exact (proj1 Hcmd _ _ Hu)
    | let Hu := fresh in intros ? Hu; exfalso; exact (proj2 Hcmd _ Hu)
    | let Hu := fresh in let c1 := fresh in intros c1 Hu;
      apply (drop_keep st st' t i r new c1 S Hc); [discriminate|exact Hu|exact (proj1 (proj2 (F c1)))|exact (proj1 (F c1))|thr_simpl|
        let Hd := fresh in let Hj := fresh in intros Hd ? Hj; cbn in Hd; try contradiction; in_cases Hj; exact Logic.I]
    | left; discriminate ]
  end.

Ltac sh_same_flags st st' :=
  let F := fresh "F" in assert (F : chs_flags st st') by sh_flags;
  match goal with S : ShInv st |- _ => destruct (sh_flags_same st st' F S) as [F1 [F2 [F3 F4]]] end.

Lemma exec_lact_Sh : forall st t m a r st' ev,
  ShInv st -> tcont (thr st t) = [ILock m a] ++ r -> exec_lact st t a r = (st', ev) -> ShInv st'.
Proof.
  intros st t m a r st' ev S Hc H.
  destruct a; cbn [exec_lact] in H.
  - destruct (climb_reserved st bm) as [i|] eqn:Ecl; inversion H; subst; clear H.
    + apply climb_at_climb in Ecl. destruct Ecl as [k ->]. shp st t (ILock m (LPush bit bm who)) r [IClimb k; IUnlock MDL UNone].
    + shp st t (ILock m (LPush bit bm who)) r [IUnlock MDL UNone].
  - unfold ghost_handler in H. inversion H; subst; clear H. shp st t (ILock m LTake) r [IUnlock MDL (UDels (dl st))].
  - (* LChInit *)
    inversion H; subst; clear H.
    assert (Ex : cexists (chs st c) = true) by (apply (sh_reg st S t m c); right; rewrite Hc; left; reflexivity).
    shp st t (ILock m (LChInit c)) r [IUnlock (MCh c) (UChReg c)].
  - (* LChSend *)
    assert (Hu : tcur (thr st t) = Some (CSend c m0)) by (apply (sh_own_ls st S t m c m0); rewrite Hc; left; reflexivity).
    assert (Hr : r = [] /\ tret (thr st t) = RUnit).
    { destruct (sh_send st S t c m0 Hu) as [[T [E|Sh]]|[E _]]; try (rewrite Hc in E; discriminate).
      rewrite Hc in Sh. destruct (send_head _ _ _ _ Sh) as [[k E]|[[E E']|[[E _]|[E _]]]]; try discriminate E. auto. }
    destruct Hr as [-> Tr].
    assert (Cl : forall c0, tcur (thr st t) <> Some (CClosed c0)) by congruence.
    assert (Dr : forall c0, tcur (thr st t) <> Some (CCDrop c0)) by congruence.
    destr_all H; repeat match goal with E : climb_start _ _ _ = Some _ |- _ => apply climb_at_climb in E; destruct E as [? ->] end;
      inversion H; subst; clear H;
      match goal with |- ShInv ?s' => sh_same_flags st s' end.
    + apply (sh_step st _ t [ILock m (LChSend c m0)] [] [IClimb x; IUnlock (MCh c) (UChPush c m0)] S F1 F2 F3 F4);
        [thr_simpl|thr_simpl|thr_simpl|exact Hc|thr_simpl|sh_free_tac|intro; reflexivity| | | |left; discriminate].
      * intros c1 x1 Hu1. left. split; [thr_simpl|]. right. rewrite Hu in Hu1. inversion Hu1; subst. right; left.
        exists [IClimb x]. split; [intros i [<-|[]]; eexists; reflexivity|reflexivity].
      * intros c1 Hu1. exfalso. exact (Cl _ Hu1).
      * intros c1 Hu1. exfalso. exact (Dr _ Hu1).
    + apply (sh_step st _ t [ILock m (LChSend c m0)] [] [IUnlock (MCh c) (UChPush c m0)] S F1 F2 F3 F4);
        [thr_simpl|thr_simpl|thr_simpl|exact Hc|thr_simpl|sh_free_tac|intro; reflexivity| | | |left; discriminate].
      * intros c1 x1 Hu1. left. split; [thr_simpl|]. right. rewrite Hu in Hu1. inversion Hu1; subst. right; left.
        exists []. split; [intros i []|reflexivity].
      * intros c1 Hu1. exfalso. exact (Cl _ Hu1).
      * intros c1 Hu1. exfalso. exact (Dr _ Hu1).
    + apply (sh_step st _ t [ILock m (LChSend c m0)] [] [IUnlock (MCh c) (UChPush c m0)] S F1 F2 F3 F4);
        [thr_simpl|thr_simpl|thr_simpl|exact Hc|thr_simpl|sh_free_tac|intro; reflexivity| | | |left; discriminate].
      * intros c1 x1 Hu1. left. split; [thr_simpl|]. right. rewrite Hu in Hu1. inversion Hu1; subst. right; left.
        exists []. split; [intros i []|reflexivity].
      * intros c1 Hu1. exfalso. exact (Cl _ Hu1).
      * intros c1 Hu1. exfalso. exact (Dr _ Hu1).
    + apply (sh_step st _ t [ILock m (LChSend c m0)] [] [IUnlock (MCh c) (URet (RBool false))] S F1 F2 F3 F4);
        [thr_simpl|thr_simpl|thr_simpl|exact Hc|thr_simpl|sh_free_tac|intro; reflexivity| | | |left; discriminate].
      * intros c1 x1 Hu1. left. split; [thr_simpl|]. right. rewrite Hu in Hu1. inversion Hu1; subst. right; right. reflexivity.
      * intros c1 Hu1. exfalso. exact (Cl _ Hu1).
      * intros c1 Hu1. exfalso. exact (Dr _ Hu1).
  - (* LChClosed *)
    assert (Hu : tcur (thr st t) = Some (CClosed c)) by (apply (sh_own_lc st S t m c); rewrite Hc; left; reflexivity).
    assert (Hr : r = [] /\ tret (thr st t) = RUnit).
    { destruct (sh_closed st S t c Hu) as [[T [E|[E|[b E]]]]|[E _]]; rewrite Hc in E; try discriminate E.
      inversion E; subst. auto. }
    destruct Hr as [-> Tr].
    inversion H; subst; clear H.
    match goal with |- ShInv ?s' => sh_same_flags st s' end.
    apply (sh_step st _ t [ILock m (LChClosed c)] [] [IUnlock (MCh c) (URet (RBool (negb (copen (chs st c)))))] S F1 F2 F3 F4);
      [thr_simpl|thr_simpl|thr_simpl|exact Hc|thr_simpl|sh_free_tac|intro; reflexivity| | | |left; discriminate].
    + intros c1 x1 Hu1. congruence.
    + intros c1 Hu1. left. split; [thr_simpl|]. rewrite Hu in Hu1. inversion Hu1; subst. right; right. eexists; reflexivity.
    + intros c1 Hu1. congruence.
  - (* LChClose *)
    assert (Hu : tcur (thr st t) = Some (CCDrop c)) by (apply (sh_own_close st S t m c); rewrite Hc; left; reflexivity).
    destruct (sh_drop st S t c Hu) as [Tr [E|[Tm [Ex Sh]]]]; [rewrite Hc in E; discriminate|].
    assert (Hr : r = []).
    { destruct Sh as [E|[_ Nc]]; [rewrite Hc in E; inversion E; reflexivity|].
      exfalso. exact (Nc (ILock m (LChClose c)) ltac:(rewrite Hc; left; reflexivity)). }
    subst r.
    destruct (copen (chs st c)) eqn:Eo; inversion H; subst; clear H.
    + (* the channel closes *)
      match goal with |- ShInv ?S' => set (st' := S') end.
      assert (Tc : forall u, tcont (thr st' u) = if Nat.eqb u main then [ILock MDL (LPush (wbit (cw (chs st c))) (wbm (cw (chs st c))) (HChan c)); IUnlock (MCh c) (UChClear c)] else tcont (thr st u)).
      { intro u. unfold st'. cbn -[Nat.eqb]. unfold updN, th. destruct (Nat.eqb_spec u main); subst; reflexivity. }
      apply (sh_step st st' main [ILock m (LChClose c)] [] [ILock MDL (LPush (wbit (cw (chs st c))) (wbm (cw (chs st c))) (HChan c)); IUnlock (MCh c) (UChClear c)] S).
      * intros c0. unfold st'. cbn. unfold updZ. destruct (Z.eqb_spec c0 c); subst; cbn; auto.
      * intros c0. unfold st'. cbn. unfold updZ. destruct (Z.eqb_spec c0 c); subst; cbn; auto.
      * intros c0 Ho0. destruct (Z.eq_dec c0 c) as [->|N].
        -- right. intros u m1 msgs Hin. rewrite Tc in Hin. destruct (Nat.eqb_spec u main) as [->|Nu].
           ++ destruct Hin as [Hin|[Hin|[]]]; discriminate Hin.
           ++ destruct msgs; [reflexivity|]. exfalso.
              assert (X : flat_map (ufwd_of c) (tcont (thr st u)) <> []).
              { apply in_split in Hin. destruct Hin as [l1 [l2 ->]]. rewrite flat_map_app. cbn. rewrite Z.eqb_refl.
                intro E. apply app_eq_nil in E. destruct E as [_ E]. discriminate E. }
              apply X. apply (sh_ufwd_main st S u c Nu).
        -- left. unfold st'. cbn. unfold updZ. destruct (Z.eqb_spec c0 c); [congruence|exact Ho0].
      * intros c0. unfold st'. cbn. unfold updZ. destruct (Z.eqb_spec c0 c); subst; cbn; [|apply (sh_ex st S c0)].
        intros _. exact Ex.
      * unfold st'. thr_simpl.
      * unfold st'. thr_simpl.
      * unfold st'. thr_simpl.
      * exact Hc.
      * unfold st'. thr_simpl.
      * intros i Hi. in_cases Hi; cbn; auto. unfold st'. cbn. unfold updZ. rewrite Z.eqb_refl. cbn. auto.
      * intro; reflexivity.
      * intros c1 x1 Hu1. congruence.
      * intros c1 Hu1. congruence.
      * intros c1 Hu1. rewrite Hu in Hu1. inversion Hu1; subst c1. split; [unfold st'; thr_simpl|]. right. split; [reflexivity|].
        split; [unfold st'; cbn; unfold updZ; rewrite Z.eqb_refl; exact Ex|]. right.
        split; [unfold st'; cbn; unfold updZ; rewrite Z.eqb_refl; reflexivity|].
        intros j Hin. in_cases Hin; exact Logic.I.
      * left; discriminate.
    + match goal with |- ShInv ?s' => sh_same_flags st s' end.
      apply (sh_step st _ main [ILock m (LChClose c)] [] [IUnlock (MCh c) (UChClear c)] S F1 F2 F3 F4);
        [thr_simpl|thr_simpl|thr_simpl|exact Hc|thr_simpl| |intro; reflexivity| | | |left; discriminate].
      * intros i Hi. in_cases Hi. cbn. auto.
      * intros c1 x1 Hu1. congruence.
      * intros c1 Hu1. congruence.
      * intros c1 Hu1. rewrite Hu in Hu1. inversion Hu1; subst c1. split; [thr_simpl|]. right. split; [reflexivity|]. split; [exact Ex|].
        right. split; [exact Eo|]. intros j Hin. in_cases Hin; exact Logic.I.
  - (* LChHandler *)
    unfold ghost_handler in H. inversion H; subst; clear H.
    match goal with |- ShInv ?S' => set (st' := S') end.
    destruct (sh_plain_cmds st t (ILock m (LChHandler c del)) r S Hc Logic.I) as [Cs Cc].
    assert (F : chs_flags st st') by (unfold st'; destruct del; sh_flags).
    destruct (sh_flags_same st st' F S) as [F1 [F2 [F3 F4]]].
    assert (Tm : t = main) by (apply (sh_own_h st S t m c del); rewrite Hc; left; reflexivity).
    subst t.
    apply (sh_step st st' main [ILock m (LChHandler c del)] r [IUnlock (MCh c) (UFwd c (if copen (chs st c) then cq (chs st c) else []))] S F1 F2 F3 F4).
    + unfold st'. destruct del; thr_simpl.
    + unfold st'. destruct del; thr_simpl.
    + unfold st'. destruct del; thr_simpl.
    + exact Hc.
    + unfold st'. destruct del; thr_simpl.
    + intros i Hi. in_cases Hi. cbn [sh_fresh]. split; [reflexivity|]. intro Hne. destruct (F c) as [A _]. rewrite A.
      destruct (copen (chs st c)); [reflexivity|congruence].
    + intro; reflexivity.
    + intros c1 x1 Hu1. exfalso. exact (Cs _ _ Hu1).
    + intros c1 Hu1. exfalso. exact (Cc _ Hu1).
    + intros c1 Hu1. apply (drop_keep st st' main (ILock m (LChHandler c del)) r _ c1 S Hc); try discriminate; auto.
      * exact (proj1 (proj2 (F c1))).
      * exact (proj1 (F c1)).
      * unfold st'. destruct del; thr_simpl.
      * intros [].
    + left; discriminate.
  - unfold ghost_handler in H. inversion H; subst; clear H.
    destruct del; [shp st t (ILock m (LPqHandler p true)) r [IUnlock (MPq p) (UPqFwd p (precvq (pps st p)) (Some (ppanic (pps st p))))]
                  |shp st t (ILock m (LPqHandler p false)) r [IUnlock (MPq p) (UPqFwd p (precvq (pps st p)) None)]].
  - destr_all H; inversion H; subst; clear H.
    + shp st t (ILock m (LPqSend p m0)) r [IUnlock (MPq p) UNone; INotify p].
    + shp st t (ILock m (LPqSend p m0)) r [IUnlock (MPq p) UNone].
  - inversion H; subst; clear H. shp st t (ILock m (LPqCancelSet p)) r [IUnlock (MPq p) UNone; INotify p].
  - destr_all H; inversion H; subst; clear H.
    + shp st t (ILock m (LPqRecv p)) r [IUnlock (MPq p) (URet RNoneV)].
    + shp st t (ILock m (LPqRecv p)) r [ICvWait p; ICvReacq p].
    + shp st t (ILock m (LPqRecv p)) r [IUnlock (MPq p) (URet (RVal z))].
  - inversion H; subst; clear H.
    destruct (precvq (pps st p)).
    + destruct (climb_start st (pw (pps st p)) (Some (HPipe p))) as [i|] eqn:E; cbn [olist app].
      * apply climb_at_climb in E. destruct E as [k ->].
        shp st t (ILock m (LPqLSend p m0)) r [IUnlock (MPq p) (URet (RBool (negb (pcancel (pps st p))))); IClimb k].
      * shp st t (ILock m (LPqLSend p m0)) r [IUnlock (MPq p) (URet (RBool (negb (pcancel (pps st p)))))].
    + shp st t (ILock m (LPqLSend p m0)) r [IUnlock (MPq p) (URet (RBool (negb (pcancel (pps st p)))))].
  - inversion H; subst; clear H. shp st t (ILock m (LPqCancelGet p)) r [IUnlock (MPq p) (URet (RBool (pcancel (pps st p))))].
  - inversion H; subst; clear H. shp st t (ILock m (LPqPanic p)) r [IUnlock (MPq p) UNone].
Qed.

Lemma exec_uact_Sh : forall st t m a r st' ev,
  ShInv st -> tcont (thr st t) = [IUnlock m a] ++ r -> exec_uact st t a r = (st', ev) -> ShInv st'.
Proof.
  intros st t m a r st' ev S Hc H.
  destruct a; cbn [exec_uact] in H; inversion H; subst; clear H.
  - shp st t (IUnlock m UNone) r (@nil instr).
  - (* URet: the return value of send / is_closed, or of a piped-thread command *)
    match goal with |- ShInv ?s' => sh_same_flags st s' end.
    apply (sh_step st _ t [IUnlock m (URet v)] r [] S F1 F2 F3 F4);
      [thr_simpl|thr_simpl|thr_simpl|exact Hc|thr_simpl|intros i []|intro; reflexivity| | | |left; discriminate].
    + intros c x Hu. destruct (sh_send st S t c x Hu) as [[T [E|Sh]]|[E _]]; try (rewrite Hc in E; discriminate).
      rewrite Hc in Sh. destruct (send_head _ _ _ _ Sh) as [[k E]|[[E _]|[[E _]|[E Er]]]]; try discriminate E.
      inversion E; subst. right. split; [reflexivity|]. exists false. thr_simpl.
    + intros c Hu. destruct (sh_closed st S t c Hu) as [[T [E|[E|[b E]]]]|[E _]]; rewrite Hc in E; try discriminate E.
      inversion E; subst. right. split; [reflexivity|]. exists b. thr_simpl.
    + intros c Hu. exfalso. destruct (sh_drop st S t c Hu) as [_ [E|[_ [_ [E|[_ E]]]]]]; try (rewrite Hc in E; discriminate E).
      exact (E (IUnlock m (URet v)) ltac:(rewrite Hc; left; reflexivity)).
  - shp st t (IUnlock m (UDels l)) r [IDels l].
  - (* UChReg *)
    assert (Ex : cexists (chs st c) = true) by (apply (sh_reg st S t m c); left; rewrite Hc; left; reflexivity).
    destruct (sh_plain_cmds st t (IUnlock m (UChReg c)) r S Hc Logic.I) as [Cs Cc].
    match goal with |- ShInv ?S' => set (st' := S') end.
    apply (sh_step st st' t [IUnlock m (UChReg c)] r [] S).
    + intros c0. unfold st'. cbn. unfold updZ. destruct (Z.eqb_spec c0 c); subst; cbn; auto.
    + intros c0. unfold st'. cbn. unfold updZ. destruct (Z.eqb_spec c0 c); subst; cbn; auto.
    + intros c0 Ho0. left. unfold st'. cbn. unfold updZ. destruct (Z.eqb_spec c0 c); subst; cbn; auto.
    + intros c0. unfold st'. cbn. unfold updZ. destruct (Z.eqb_spec c0 c); subst; cbn; [intros _; exact Ex|apply (sh_ex st S c0)].
    + unfold st'. thr_simpl.
    + unfold st'. thr_simpl.
    + unfold st'. thr_simpl.
    + exact Hc.
    + unfold st'. thr_simpl.
    + intros i [].
    + intro; reflexivity.
    + intros c1 x1 Hu1. exfalso. exact (Cs _ _ Hu1).
    + intros c1 Hu1. exfalso. exact (Cc _ Hu1).
    + intros c1 Hu1. exfalso. destruct (sh_drop st S t c1 Hu1) as [_ [E|[_ [_ [E|[_ E]]]]]]; try (rewrite Hc in E; discriminate E).
      exact (E (IUnlock m (UChReg c)) ltac:(rewrite Hc; left; reflexivity)).
    + left; discriminate.
  - (* UChPush *)
    assert (Hu : tcur (thr st t) = Some (CSend c m0)) by (apply (sh_own_push st S t m c m0); rewrite Hc; left; reflexivity).
    assert (Hr : r = []).
    { destruct (sh_send st S t c m0 Hu) as [[T [E|Sh]]|[E _]]; try (rewrite Hc in E; discriminate).
      rewrite Hc in Sh. destruct (send_head _ _ _ _ Sh) as [[k E]|[[E _]|[[E E']|[E _]]]]; try discriminate E. exact E'. }
    subst r.
    match goal with |- ShInv ?s' => sh_same_flags st s' end.
    apply (sh_step st _ t [IUnlock m (UChPush c m0)] [] [] S F1 F2 F3 F4);
      [thr_simpl|thr_simpl|thr_simpl|exact Hc|thr_simpl|intros i []|intro; reflexivity| | | |left; discriminate].
    + intros c1 x1 Hu1. right. split; [reflexivity|]. exists true. thr_simpl.
    + intros c1 Hu1. congruence.
    + intros c1 Hu1. congruence.
  - shp st t (IUnlock m (UChClear c)) r (@nil instr).
  - shp st t (IUnlock m (UFwd c msgs)) r (@nil instr).
  - shp st t (IUnlock m (UPqFwd p msgs term)) r (@nil instr).
Qed.

Lemma sh_same : forall st st',
  (forall u, tcont (thr st' u) = tcont (thr st u) /\ tcur (thr st' u) = tcur (thr st u) /\ tret (thr st' u) = tret (thr st u)) ->
  chs st' = chs st -> ShInv st -> ShInv st'.
Proof.
  intros st st' H Hc S.
  assert (K : forall u, tcont (thr st' u) = tcont (thr st u)) by (intro u; apply H).
  assert (C : forall u, tcur (thr st' u) = tcur (thr st u)) by (intro u; apply H).
  assert (T : forall u, tret (thr st' u) = tret (thr st u)) by (intro u; apply H).
  constructor; intros; rewrite ?K, ?C, ?T, ?Hc in *.
  - eapply (sh_send st S); eauto.
  - eapply (sh_closed st S); eauto.
  - eapply (sh_drop st S); eauto.
  - eapply (sh_own_ls st S); eauto.
  - eapply (sh_own_lc st S); eauto.
  - eapply (sh_own_close st S); eauto.
  - eapply (sh_own_push st S); eauto.
  - eapply (sh_own_h st S); eauto.
  - eapply (sh_clear st S); eauto.
  - eapply (sh_reg st S); eauto.
  - eapply (sh_ufwd_head st S); eauto.
  - eapply (sh_ufwd_main st S); eauto.
  - eapply (sh_ufwd_open st S); eauto.
  - eapply (sh_ex st S); eauto.
Qed.

Ltac sh_eq st := apply (sh_same st); [intro; repeat split; thr_simpl|reflexivity|assumption].

Lemma exec_instr_Sh : forall st t i r st' ev,
  ShInv st -> tcont (thr st t) = i :: r -> exec_instr st t i r = (st', ev) -> ShInv st'.
Proof.
  intros st t i r st' ev S Hc H.
  assert (Hc0 : tcont (thr st t) = [i] ++ r) by exact Hc.
  destruct i; cbn [exec_instr] in H.
  - (* a step of BitMap::set *)
    assert (G : forall new s', tcont (thr s' t) = new ++ r -> (forall j, In j new -> is_climb j) ->
                (forall u, tcur (thr s' u) = tcur (thr st u)) -> (forall u, tret (thr s' u) = tret (thr st u)) ->
                (forall u, u <> t -> tcont (thr s' u) = tcont (thr st u)) -> chs s' = chs st -> ShInv s').
    { intros new s' Hc' Hn Cu Tr Ho Ch.
      assert (F : chs_flags st s') by (intro c0; rewrite Ch; repeat split; reflexivity).
      destruct (sh_flags_same st s' F S) as [F1 [F2 [F3 F4]]].
      apply (sh_step st s' t [IClimb k] r new S F1 F2 F3 F4); auto.
      - intros j Hj. destruct (Hn j Hj) as [k' ->]. exact Logic.I.
      - intro c0. destruct new as [|j new0]; [reflexivity|]. cbn [tl].
        assert (X : forall l, (forall j, In j l -> is_climb j) -> flat_map (ufwd_of c0) l = []).
        { induction l as [|a l IH]; intro Hl; [reflexivity|]. cbn [flat_map]. rewrite IH by (intros; apply Hl; right; auto).
          destruct (Hl a (or_introl eq_refl)) as [k' ->]. reflexivity. }
        apply X. intros; apply Hn; right; auto.
      - intros c x Hu. destruct (sh_send st S t c x Hu) as [[T [E|Sh]]|[E _]]; try (rewrite Hc in E; discriminate).
        left. split; [rewrite Tr; exact T|]. right. rewrite Hc in Sh. eapply send_climb_step; eauto.
      - intros c Hu. exfalso. destruct (sh_closed st S t c Hu) as [[T [E|[E|[b E]]]]|[E _]]; rewrite Hc in E; discriminate E.
      - intros c Hu. apply (drop_keep st s' t (IClimb k) r new c S Hc0); auto; try discriminate.
        + rewrite Ch. reflexivity.
        + rewrite Ch. reflexivity.
        + intros _ j Hj. destruct (Hn j Hj) as [k' ->]. exact Logic.I.
      - left; discriminate. }
    destruct k; cbn [exec_climb] in H; inversion H; subst; clear H.
    + destruct (bitmap_join a b (bmbase st bm)) as [x|]; [destruct (slab_get (sl st) x)|];
        (destruct (leaf st bm a =? 0);
         [apply (G [IClimb (KSum bm a)])|apply (G (@nil instr))]; try reflexivity;
         try (intros j Hj; in_cases Hj; eexists; reflexivity); try thr_simpl).
    + destruct (summ st bm =? 0); [apply (G [IClimb (KTop bm)])|apply (G (@nil instr))]; try reflexivity;
        try (intros j Hj; in_cases Hj; eexists; reflexivity); try thr_simpl.
    + destruct (top st =? 0); [apply (G [IClimb KCb])|apply (G (@nil instr))]; try reflexivity;
        try (intros j Hj; in_cases Hj; eexists; reflexivity); try thr_simpl.
    + apply (G (@nil instr)); try reflexivity; try (intros j Hj; cbn in Hj; contradiction); try thr_simpl.
  - inversion H; subst; clear H. shp st t ITopSwap r [IBms (flat_map (bms_of_slot st) (bits_of (top st)))].
  - destruct bms; inversion H; subst; clear H; [exact S|].
    shp st t (IBms (z :: bms)) r [ILeaves z (bits_of (summ st z)); IBms bms].
  - destruct ls; [inversion H; subst; exact S|].
    destruct (collect (bmbase st bm) z (leaf st bm z)) as [bits ok].
    match type of H with context [ghost_collect ?S0 bits] =>
      destruct (ghost_collect_sl bits S0) as [_ [_ [_ [_ [_ [A6 [_ A8]]]]]]]; remember (ghost_collect S0 bits) as s3 eqn:Es3 end.
    cbn zeta in *. inversion H; subst st' ev; clear H.
    match goal with |- ShInv ?S' => set (st' := S') end.
    destruct (sh_plain_cmds st t (ILeaves bm (z :: ls)) r S Hc0 Logic.I) as [Cs Cc].
    assert (Hth : forall u, tcont (thr st' u) = (if Nat.eqb u t then [ILeaves bm ls] ++ r else tcont (thr st u)) /\
                            tcur (thr st' u) = tcur (thr st u) /\ tret (thr st' u) = tret (thr st u)).
    { intro u. unfold st'. cbn -[Nat.eqb]. unfold updN, th. rewrite A8. cbn -[Nat.eqb]. unfold updN, th.
      destruct (Nat.eqb_spec u t); subst; rewrite ?Nat.eqb_refl; cbn; repeat split; reflexivity. }
    assert (F : chs_flags st st') by (intro c0; unfold st'; cbn; rewrite A6; repeat split; reflexivity).
    destruct (sh_flags_same st st' F S) as [F1 [F2 [F3 F4]]].
    apply (sh_step st st' t [ILeaves bm (z :: ls)] r [ILeaves bm ls] S F1 F2 F3 F4).
    + intro u. apply Hth.
    + intros u _. apply Hth.
    + intros u Hu. destruct (Hth u) as [A _]. rewrite A. destruct (Nat.eqb_spec u t); [congruence|reflexivity].
    + exact Hc0.
    + destruct (Hth t) as [A _]. rewrite A, Nat.eqb_refl. reflexivity.
    + sh_free_tac.
    + intro; reflexivity.
    + intros c1 x1 Hu1. exfalso. exact (Cs _ _ Hu1).
    + intros c1 Hu1. exfalso. exact (Cc _ Hu1).
    + intros c1 Hu1. apply (drop_keep st st' t (ILeaves bm (z :: ls)) r _ c1 S Hc0); try discriminate; auto.
      * exact (proj1 (proj2 (F c1))).
      * exact (proj1 (F c1)).
      * apply Hth.
      * intros [].
    + left; discriminate.
  - inversion H; subst; exact S.
  - inversion H; subst; exact S.
  - inversion H; subst; exact S.
  - match type of H with context [exec_lact ?S0 t ?aa ?rr] => destruct (exec_lact S0 t aa rr) as [s2 e2] eqn:E; set (s1 := S0) in * end.
    inversion H; subst; clear H.
    assert (S1 : ShInv s1) by (unfold s1; sh_eq st).
    apply (exec_lact_Sh s1 t m a r st' e2 S1); [unfold s1; thr_simpl|exact E].
  - destruct (exec_uact st t a r) as [s1 e1] eqn:E. inversion H; subst; clear H.
    pose proof (exec_uact_Sh st t m a r s1 e1 S Hc0 E) as S1. sh_eq s1.
  - inversion H; subst; clear H. shp st t (ICvWait p) r (@nil instr).
  - match type of H with context [exec_lact ?S0 t ?aa ?rr] => destruct (exec_lact S0 t aa rr) as [s2 e2] eqn:E; set (s1 := S0) in * end.
    inversion H; subst; clear H.
    assert (S1 : ShInv s1) by (unfold s1; sh_eq st).
    assert (Hc1 : tcont (thr s1 t) = [ICvReacq p] ++ r) by (unfold s1; thr_simpl; exact Hc).
    clear - S1 Hc1 E. cbn [exec_lact] in E. destr_all E; inversion E; subst; clear E.
    + shp s1 t (ICvReacq p) r [IUnlock (MPq p) (URet RNoneV)].
    + shp s1 t (ICvReacq p) r [ICvWait p; ICvReacq p].
    + shp s1 t (ICvReacq p) r [IUnlock (MPq p) (URet (RVal z))].
  - inversion H; subst st' ev; clear H.
    match goal with |- ShInv (set_cont (fold_left ?f ?us st) t r) =>
      destruct (notify_fold_fields us st) as [_ B]; pose proof (notify_fold_chs us st) as Bc;
      assert (D : forall u, tret (thr (fold_left f us st) u) = tret (thr st u));
      [clear; generalize us; intro us0; revert st; induction us0 as [|v us0 IH]; intro st; [intro; reflexivity|];
       cbn [fold_left]; intro u; rewrite IH; cbn; unfold updN, th; destruct (Nat.eqb_spec u v); subst; reflexivity|];
      set (s1 := fold_left f us st) in * end.
    cbn zeta in *.
    assert (S1 : ShInv s1).
    { apply (sh_same st); auto. intro u. destruct (B u) as [X1 [_ [_ [_ [_ X6]]]]]. repeat split; auto. }
    assert (Hc1 : tcont (thr s1 t) = [INotify p] ++ r) by (destruct (B t) as [_ [_ [_ [_ [_ X6]]]]]; rewrite X6; exact Hc).
    shp s1 t (INotify p) r (@nil instr).
  - unfold ghost_handler in H. inversion H; subst; clear H.
    destruct del; [shp st t (IYieldH h true) r (@nil instr)|shp st t (IYieldH h false) r (@nil instr)].
  - inversion H; subst; clear H. shp st t IJoin r (@nil instr).
  - inversion H; subst; clear H. shp st t IIdle r (@nil instr).
Qed.

Lemma sh_spawn : forall s t p f, ShInv s -> pristine s -> ShInv (spawn_thread s t p f).
Proof.
  intros s t p f S [P0 P]. set (s' := spawn_thread s t p f).
  assert (T : forall u, u <> nthr s -> thr s' u = thr s u).
  { intros u Hu. unfold s'. cbn. unfold updN. destruct (Nat.eqb_spec u (nthr s)); [congruence|reflexivity]. }
  assert (Tn : tcont (thr s' (nthr s)) = [] /\ tcur (thr s' (nthr s)) = None).
  { unfold s'. cbn. unfold updN. rewrite Nat.eqb_refl. cbn. auto. }
  destruct Tn as [Tn1 Tn2].
  assert (Hm : main <> nthr s) by (unfold main; lia).
  assert (Ch : chs s' = chs s) by reflexivity.
  constructor; intros; rewrite ?Ch in *;
    try (destruct (Nat.eq_dec t0 (nthr s)) as [->|Hu];
         [rewrite ?Tn1, ?Tn2 in *; try discriminate; try contradiction|rewrite (T t0 Hu) in *]).
  - eapply (sh_send s S); eauto.
  - eapply (sh_closed s S); eauto.
  - eapply (sh_drop s S); eauto.
  - eapply (sh_own_ls s S); eauto.
  - eapply (sh_own_lc s S); eauto.
  - eapply (sh_own_close s S); eauto.
  - eapply (sh_own_push s S); eauto.
  - eapply (sh_own_h s S); eauto.
  - eapply (sh_clear s S); eauto.
  - destruct H; contradiction.
  - eapply (sh_reg s S); eauto.
  - eapply (sh_ufwd_head s S); eauto.
  - reflexivity.
  - eapply (sh_ufwd_main s S); eauto.
  - eapply (sh_ufwd_open s S); eauto.
  - eapply (sh_ex s S); eauto.
Qed.

(** the start of a command whose first instructions are of no interest to [ShInv] *)
Ltac shb st t new :=
  let F := fresh "F" in
  match goal with S : ShInv st, Hc : tcont (thr st t) = [] ++ [] |- ShInv ?st' =>
    assert (F : chs_flags st st') by sh_flags;
    destruct (sh_flags_same st st' F S) as [F1 [F2 [F3 F4]]];
    apply (sh_step st st' t (@nil instr) (@nil instr) new S F1 F2 F3 F4);
    [ thr_simpl | thr_simpl | thr_simpl | exact Hc | thr_simpl | sh_free_tac | intro; reflexivity
    | intros; congruence | intros; congruence | intros; congruence | right; right; reflexivity ]
  end.

Lemma begin_cmd_Sh : forall st t c st' ev done,
  ShInv st -> pristine st -> (t < nthr st)%nat -> tcont (thr st t) = [] ->
  tcur (thr st t) = Some c -> tret (thr st t) = RUnit ->
  begin_cmd st t c = (st', ev, done) -> ShInv st'.
Proof.
  intros st t c st' ev done S P Ht Hc Hcur Hret H.
  assert (Hc0 : tcont (thr st t) = [] ++ []) by exact Hc.
  assert (Add : forall h st1 wi, wh_add st h = Some (st1, wi) -> ShInv st1 /\ pristine st1 /\ thr st1 = thr st /\ chs st1 = chs st).
  { intros h st1 wi E.
    destruct (wh_add_core _ _ _ _ E) as [c1 [A [B [C1 [C2 [C3 [C4 [C5 [C6 [C7 C8]]]]]]]]]].
    split; [|split; [|auto]].
    - apply (sh_same st); auto. intro u. rewrite C1. repeat split; reflexivity.
    - destruct P as [P0 P]. split; [lia|]. intros u Hu. rewrite C1. apply P. lia. }
  destruct c; cbn [begin_cmd] in H.
  - destruct (wreg st w) as [wi|]; [|inversion H; subst; auto].
    destruct (climb_start st wi (Some (HPlain w))) as [i|] eqn:E; inversion H; subst; clear H; [|auto].
    apply climb_at_climb in E. destruct E as [k ->]. shb st t [IClimb k].
  - destruct (wreg st w) as [wi|] eqn:Ew; [|inversion H; subst; auto].
    destruct (wbusy st w); inversion H; subst; clear H.
    + shb st t [ILock MDL (LPush (wbit wi) (wbm wi) (HPlain w))].
    + sh_eq st.
  - (* CSend *)
    destruct (Waker.creg (chs st c)); inversion H; subst; clear H; [|auto].
    match goal with |- ShInv ?s' => sh_same_flags st s' end.
    apply (sh_step st _ t (@nil instr) (@nil instr) [ILock (MCh c) (LChSend c m)] S F1 F2 F3 F4);
      [thr_simpl|thr_simpl|thr_simpl|exact Hc0|thr_simpl|sh_free_tac|intro; reflexivity| |intros; congruence|intros; congruence|right; right; reflexivity].
    intros c1 x1 Hu1. left. split; [thr_simpl|]. right. rewrite Hcur in Hu1. inversion Hu1; subst. left. reflexivity.
  - (* CClosed *)
    destruct (Waker.creg (chs st c)); inversion H; subst; clear H; [|auto].
    match goal with |- ShInv ?s' => sh_same_flags st s' end.
    apply (sh_step st _ t (@nil instr) (@nil instr) [ILock (MCh c) (LChClosed c)] S F1 F2 F3 F4);
      [thr_simpl|thr_simpl|thr_simpl|exact Hc0|thr_simpl|sh_free_tac|intro; reflexivity|intros; congruence| |intros; congruence|right; right; reflexivity].
    intros c1 Hu1. left. split; [thr_simpl|]. rewrite Hcur in Hu1. inversion Hu1; subst. right; left. reflexivity.
  - destruct (negb (is_main t) || wused st w || (1000000 <=? w) || (w <? 0)); [inversion H; subst; auto|].
    destruct (wh_add st (HPlain w)) as [[st1 wi]|] eqn:E; inversion H; subst; clear H; [|auto].
    destruct (Add _ _ _ E) as [S1 _]. sh_eq st1.
  - destruct (negb (is_main t)); [inversion H; subst; auto|].
    destruct (fill_loop (Z.to_nat n) st []) as [st1 ev1] eqn:E. inversion H; subst; clear H.
    destruct (fill_loop_chs _ _ _ _ _ E) as [A B]. apply (sh_same st); auto. intro u. rewrite B. repeat split; reflexivity.
  - destruct (negb (is_main t)); inversion H; subst; clear H; [auto|]. shb st t [ITopSwap; IRun].
  - destruct (negb (is_main t)); [inversion H; subst; auto|].
    destruct (gnotified st); inversion H; subst; clear H; [|auto]. shb st t [ITopSwap; IRun].
  - destruct (negb (is_main t)); inversion H; subst; clear H; [auto|]. apply sh_spawn; auto.
  - destruct (negb (is_main t)); inversion H; subst; clear H; [auto|]. shb st t [IJoin].
  - destruct (negb (is_main t)); inversion H; subst; clear H; [auto|]. shb st t [IIdle].
  - (* CCNew *)
    destruct (negb (is_main t) || cexists (chs st c)) eqn:Eg; [inversion H; subst; auto|].
    apply orb_false_iff in Eg. destruct Eg as [_ Eex].
    destruct (wh_add st (HChan c)) as [[st1 wi]|] eqn:E; inversion H; subst; clear H; [|auto].
    destruct (Add _ _ _ E) as [S1 [P1 [T1 C1]]].
    match goal with |- ShInv ?S' => set (st' := S') end.
    assert (Hc1 : tcont (thr st1 t) = [] ++ []) by (rewrite T1; exact Hc).
    apply (sh_step st1 st' t [] [] [ILock (MCh c) (LChInit c)] S1).
    + intros c0. unfold st'. cbn. unfold updZ. destruct (Z.eqb_spec c0 c); subst; cbn; auto.
    + intros c0. unfold st'. cbn. unfold updZ. rewrite C1. destruct (Z.eqb_spec c0 c); subst; cbn; [congruence|auto].
    + intros c0 Ho0. left. unfold st'. cbn. unfold updZ. destruct (Z.eqb_spec c0 c); subst; cbn; auto.
    + intros c0. unfold st'. cbn. unfold updZ. destruct (Z.eqb_spec c0 c); subst; cbn; [auto|apply (sh_ex st1 S1 c0)].
    + unfold st'. thr_simpl.
    + unfold st'. thr_simpl.
    + unfold st'. thr_simpl.
    + exact Hc1.
    + unfold st'. thr_simpl.
    + intros i Hi. in_cases Hi. cbn. unfold st'. cbn. unfold updZ. rewrite Z.eqb_refl. reflexivity.
    + intro; reflexivity.
    + intros c1 x1 Hu1. rewrite T1 in Hu1. congruence.
    + intros c1 Hu1. rewrite T1 in Hu1. congruence.
    + intros c1 Hu1. rewrite T1 in Hu1. congruence.
    + right; right; reflexivity.
  - (* CCDrop *)
    destruct (negb (is_main t) || negb (cguard (chs st c))) eqn:Eg; inversion H; subst; clear H; [auto|].
    apply orb_false_iff in Eg. destruct Eg as [Em Egd]. apply negb_false_iff in Em, Egd.
    unfold is_main in Em. apply Nat.eqb_eq in Em. subst t.
    assert (Ex : cexists (chs st c) = true) by (apply (sh_ex st S c); auto).
    match goal with |- ShInv ?S' => set (st' := S') end.
    apply (sh_step st st' 0%nat [] [] [ILock (MCh c) (LChClose c)] S).
    + intros c0. unfold st'. cbn. unfold updZ. destruct (Z.eqb_spec c0 c); subst; cbn; auto.
    + intros c0. unfold st'. cbn. unfold updZ. destruct (Z.eqb_spec c0 c); subst; cbn; auto.
    + intros c0 Ho0. left. unfold st'. cbn. unfold updZ. destruct (Z.eqb_spec c0 c); subst; cbn; auto.
    + intros c0. unfold st'. cbn. unfold updZ. destruct (Z.eqb_spec c0 c); subst; cbn; [intros _; exact Ex|apply (sh_ex st S c0)].
    + unfold st'. thr_simpl.
    + unfold st'. thr_simpl.
    + unfold st'. thr_simpl.
    + exact Hc0.
    + unfold st'. thr_simpl.
    + intros i Hi. in_cases Hi. cbn. unfold st'. thr_simpl.
    + intro; reflexivity.
    + intros; congruence.
    + intros; congruence.
    + intros c1 Hu1. rewrite Hcur in Hu1. inversion Hu1; subst c1. split; [unfold st'; thr_simpl|]. right.
      split; [reflexivity|]. split; [unfold st'; cbn; unfold updZ; rewrite Z.eqb_refl; exact Ex|]. left. reflexivity.
    + right; right; reflexivity.
  - destruct (negb (is_main t) || pexists (pps st p)); [inversion H; subst; auto|].
    destruct (wh_add st (HPipe p)) as [[st1 wi]|] eqn:E; inversion H; subst; clear H; [|auto].
    destruct (Add _ _ _ E) as [S1 [P1 _]]. apply sh_spawn; [|exact P1]. sh_eq st1.
  - destruct (negb (is_main t) || negb (phandle (pps st p))); inversion H; subst; clear H; [auto|]. shb st t [ILock (MPq p) (LPqSend p m)].
  - destruct (negb (is_main t) || negb (phandle (pps st p))); inversion H; subst; clear H; [auto|]. shb st t [ILock (MPq p) (LPqCancelSet p)].
  - destruct (tpipe (th st t) <? 0); inversion H; subst; clear H; [auto|]. shb st t [ILock (MPq (tpipe (th st t))) (LPqRecv (tpipe (th st t)))].
  - destruct (tpipe (th st t) <? 0); inversion H; subst; clear H; [auto|]. shb st t [ILock (MPq (tpipe (th st t))) (LPqLSend (tpipe (th st t)) m)].
  - destruct (tpipe (th st t) <? 0); inversion H; subst; clear H; [auto|]. shb st t [ILock (MPq (tpipe (th st t))) (LPqCancelGet (tpipe (th st t)))].
  - destruct (tpipe (th st t) <? 0); inversion H; subst; clear H; [auto|]. sh_eq st.
Qed.

Lemma nrel_cases : forall k k1, nrel k k1 ->
  k1 = k \/ exists i r, k = i :: r /\ main_only i = true /\ forall j, In j k1 -> In j r \/ norm_new j.
Proof.
  induction 1 as [k|i r new k1 Hm Hn Hr IH]; [left; reflexivity|]. right. exists i, r. split; [reflexivity|]. split; [exact Hm|].
  intros j Hj. destruct IH as [->|[i' [r' [E [_ IH]]]]].
  - apply in_app_or in Hj. destruct Hj as [Hj|Hj]; [right; auto|left; exact Hj].
  - destruct (IH j Hj) as [X|X]; [|right; exact X].
    assert (Y : In j (new ++ r)) by (rewrite E; right; exact X).
    apply in_app_or in Y. destruct Y as [Y|Y]; [right; auto|left; exact Y].
Qed.

Lemma norm_new_ufwd : forall j c, norm_new j -> ufwd_of c j = [].
Proof.
  intros j c H. apply norm_new_cases in H. destruct H as [[w [d ->]]|[[m [a ->]]|[[l ->]|[l ->]]]]; reflexivity.
Qed.

Lemma norm_new_cases2 : forall j, norm_new j ->
  (exists w d, j = IYieldH (HPlain w) d) \/ j = ILock MDL LTake \/ (exists c d, j = ILock (MCh c) (LChHandler c d)) \/
  (exists p d, j = ILock (MPq p) (LPqHandler p d)) \/ (exists l, j = IHandlers l) \/ (exists l, j = IDels l).
Proof.
  intros j [[h [d Hj]]|[H|H]]; auto 10.
  destruct h; cbn in Hj; destruct Hj as [<-|[]]; eauto 10.
Qed.

Lemma flat_map_nil : forall A B (f : A -> list B) l, flat_map f l = [] <-> forall x, In x l -> f x = [].
Proof.
  intros A B f l. induction l as [|a l IH]; cbn; [split; [intros _ x []|reflexivity]|].
  split.
  - intro H. apply app_eq_nil in H. destruct H as [H1 H2]. intros x [<-|Hx]; [exact H1|]. apply IH; auto.
  - intro H. rewrite (H a (or_introl eq_refl)). cbn. apply IH. intros x Hx. apply H. right. exact Hx.
Qed.

(** normalisation of the continuation of the main thread *)
Lemma sh_replace_main : forall st st' k1,
  ShInv st -> tcont (thr st' main) = k1 -> nrel (tcont (thr st main)) k1 ->
  (forall u, u <> main -> tcont (thr st' u) = tcont (thr st u)) ->
  (forall u, tcur (thr st' u) = tcur (thr st u) /\ tret (thr st' u) = tret (thr st u)) -> chs st' = chs st ->
  ShInv st'.
Proof.
  intros st st' k1 S Hc' N Ho Hf Hch.
  destruct (nrel_cases _ _ N) as [E|[i [r [Ek [Hmo Hin]]]]].
  { apply (sh_same st); auto. intro u. destruct (Hf u) as [A B]. split; [|auto].
    destruct (Nat.eq_dec u main) as [->|Hu]; [rewrite Hc'; exact E|apply Ho; exact Hu]. }
  assert (Cur : forall u, tcur (thr st' u) = tcur (thr st u)) by (intro u; apply Hf).
  assert (Ret : forall u, tret (thr st' u) = tret (thr st u)) by (intro u; apply Hf).
  assert (NoS : forall c x, tcur (thr st main) <> Some (CSend c x)).
  { intros c x Hu. destruct (sh_send st S main c x Hu) as [[_ [E|Sh]]|[E _]]; try (rewrite Ek in E; discriminate).
    rewrite Ek in Sh. destruct (send_head _ _ _ _ Sh) as [[k E]|[[E _]|[[E _]|[E _]]]]; subst i; discriminate Hmo. }
  assert (NoC : forall c, tcur (thr st main) <> Some (CClosed c)).
  { intros c Hu. destruct (sh_closed st S main c Hu) as [[_ [E|[E|[b E]]]]|[E _]]; rewrite Ek in E; try discriminate E;
      inversion E; subst i; discriminate Hmo. }
  assert (NoD : forall c, tcur (thr st main) <> Some (CCDrop c)).
  { intros c Hu. destruct (sh_drop st S main c Hu) as [_ [E|[_ [_ [E|[_ E]]]]]]; try (rewrite Ek in E; discriminate E).
    - rewrite Ek in E. inversion E; subst i. discriminate Hmo.
    - pose proof (E i ltac:(rewrite Ek; left; reflexivity)) as D. destruct i; cbn in D; try contradiction; try discriminate Hmo.
      + destruct a; cbn in D; try contradiction. discriminate Hmo.
      + destruct a; cbn in D; try contradiction; discriminate Hmo. }
  assert (Old : forall j, In j k1 -> In j (tcont (thr st main)) \/ norm_new j).
  { intros j Hj. destruct (Hin j Hj) as [X|X]; [left; rewrite Ek; right; exact X|right; exact X]. }
  assert (Uf : forall c j, In j k1 -> ufwd_of c j = []).
  { intros c j Hj. destruct (Hin j Hj) as [X|X]; [|apply norm_new_ufwd; exact X].
    pose proof (sh_ufwd_head st S main i r c Ek) as Y. apply (proj1 (flat_map_nil _ _ _ _) Y). exact X. }
  assert (In' : forall u j, In j (tcont (thr st' u)) -> In j (tcont (thr st u)) \/ (u = main /\ norm_new j)).
  { intros u j Hj. destruct (Nat.eq_dec u main) as [->|Hu]; [|rewrite (Ho u Hu) in Hj; left; exact Hj].
    rewrite Hc' in Hj. destruct (Old j Hj) as [X|X]; auto. }
  constructor.
  - intros u c x. rewrite Cur, Ret. intro Hu. destruct (Nat.eq_dec u main) as [->|Hn]; [exfalso; exact (NoS _ _ Hu)|].
    rewrite (Ho u Hn). apply (sh_send st S u c x Hu).
  - intros u c. rewrite Cur, Ret. intro Hu. destruct (Nat.eq_dec u main) as [->|Hn]; [exfalso; exact (NoC _ Hu)|].
    rewrite (Ho u Hn). apply (sh_closed st S u c Hu).
  - intros u c. rewrite Cur, Ret, Hch. intro Hu. destruct (Nat.eq_dec u main) as [->|Hn]; [exfalso; exact (NoD _ Hu)|].
    rewrite (Ho u Hn). apply (sh_drop st S u c Hu).
  - intros u m c x Hj. rewrite Cur. destruct (In' u _ Hj) as [X|[_ X]]; [apply (sh_own_ls st S u m c x X)|].
    apply norm_new_cases2 in X. destruct X as [[? [? X]]|[X|[[? [? X]]|[[? [? X]]|[[? X]|[? X]]]]]]; discriminate X.
  - intros u m c Hj. rewrite Cur. destruct (In' u _ Hj) as [X|[_ X]]; [apply (sh_own_lc st S u m c X)|].
    apply norm_new_cases2 in X. destruct X as [[? [? X]]|[X|[[? [? X]]|[[? [? X]]|[[? X]|[? X]]]]]]; discriminate X.
  - intros u m c Hj. rewrite Cur. destruct (In' u _ Hj) as [X|[_ X]]; [apply (sh_own_close st S u m c X)|].
    apply norm_new_cases2 in X. destruct X as [[? [? X]]|[X|[[? [? X]]|[[? [? X]]|[[? X]|[? X]]]]]]; discriminate X.
  - intros u m c x Hj. rewrite Cur. destruct (In' u _ Hj) as [X|[_ X]]; [apply (sh_own_push st S u m c x X)|].
    apply norm_new_cases2 in X. destruct X as [[? [? X]]|[X|[[? [? X]]|[[? [? X]]|[[? X]|[? X]]]]]]; discriminate X.
  - intros u m c d Hj. destruct (In' u _ Hj) as [X|[E _]]; [apply (sh_own_h st S u m c d X)|exact E].
  - intros u m c Hj. rewrite Hch. destruct (In' u _ Hj) as [X|[_ X]]; [apply (sh_clear st S u m c X)|].
    apply norm_new_cases2 in X. destruct X as [[? [? X]]|[X|[[? [? X]]|[[? [? X]]|[[? X]|[? X]]]]]]; discriminate X.
  - intros u m c Hj. rewrite Hch. apply (sh_reg st S u m c).
    destruct Hj as [Hj|Hj]; (destruct (In' u _ Hj) as [X|[_ X]]; [auto|]);
      apply norm_new_cases2 in X; destruct X as [[? [? X]]|[X|[[? [? X]]|[[? [? X]]|[[? X]|[? X]]]]]]; discriminate X.
  - intros u j r0 c Hk. destruct (Nat.eq_dec u main) as [->|Hn]; [|rewrite (Ho u Hn) in Hk; apply (sh_ufwd_head st S u j r0 c Hk)].
    rewrite Hc' in Hk. apply flat_map_nil. intros y Hy. apply Uf. rewrite Hk. right. exact Hy.
  - intros u c Hn. rewrite (Ho u Hn). apply (sh_ufwd_main st S u c Hn).
  - intros u m c msgs Hj Hne. rewrite Hch. destruct (In' u _ Hj) as [X|[_ X]]; [apply (sh_ufwd_open st S u m c msgs X Hne)|].
    apply norm_new_cases2 in X. destruct X as [[? [? X]]|[X|[[? [? X]]|[[? [? X]]|[[? X]|[? X]]]]]]; discriminate X.
  - intro c. rewrite Hch. apply (sh_ex st S c).
Qed.

Lemma sh_done : forall s1 s t,
  ShInv s1 -> tcont (thr s1 t) = [] -> (forall u, u <> t -> thr s u = thr s1 u) -> thr s t = set_tcur (thr s1 t) None ->
  chs s = chs s1 -> ShInv s.
Proof.
  intros s1 s t S Hc Ho Ht Hch.
  assert (Kt : tcont (thr s t) = []) by (rewrite Ht; cbn; exact Hc).
  assert (Ct : tcur (thr s t) = None) by (rewrite Ht; reflexivity).
  constructor; intros; rewrite ?Hch in *;
    try (destruct (Nat.eq_dec t0 t) as [->|Hu];
         [rewrite ?Kt, ?Ct in *; try discriminate; try contradiction|rewrite (Ho t0 Hu) in *]).
  - eapply (sh_send s1 S); eauto.
  - eapply (sh_closed s1 S); eauto.
  - eapply (sh_drop s1 S); eauto.
  - eapply (sh_own_ls s1 S); eauto.
  - eapply (sh_own_lc s1 S); eauto.
  - eapply (sh_own_close s1 S); eauto.
  - eapply (sh_own_push s1 S); eauto.
  - eapply (sh_own_h s1 S); eauto.
  - eapply (sh_clear s1 S); eauto.
  - destruct H; contradiction.
  - eapply (sh_reg s1 S); eauto.
  - eapply (sh_ufwd_head s1 S); eauto.
  - reflexivity.
  - eapply (sh_ufwd_main s1 S); eauto.
  - eapply (sh_ufwd_open s1 S); eauto.
  - eapply (sh_ex s1 S); eauto.
Qed.

Lemma settle_Sh : forall st t ev done st' ev',
  ShInv st -> CInv (core st) -> (forall j, In j (tfinal (thr st t)) -> finok j) -> (done <> None -> tcont (thr st t) = []) ->
  settle st t ev done = (st', ev') -> ShInv st'.
Proof.
  intros st t ev done st' ev' S I Q Hd H. unfold settle in H.
  destruct (norm (2 * (cont_size (tcont (th st t)) + length (tacc (th st t))) + 2) (sl st) (tacc (th st t)) (tcont (th st t)) ev)
    as [[[s1 acc1] k1] ev1] eqn:En.
  cbn zeta in H.
  pose proof (norm_nrel _ _ _ _ _ _ _ _ _ En) as N.
  assert (S1 : ShInv (set_sl (upd_th st t (set_tacc (set_tcont (th st t) k1) acc1)) s1)).
  { destruct (Nat.eq_dec t main) as [->|Hn].
    - apply (sh_replace_main st _ k1 S); try reflexivity; try exact N; thr_simpl; split; reflexivity.
    - rewrite norm_id in En; [|intros j Hj; apply (i_mainonly _ I t Hn); exact Hj].
      injection En as _ _ E3 _. subst k1. apply (sh_same st); auto. intro u. repeat split; thr_simpl. }
  assert (T1 : tcont (thr (set_sl (upd_th st t (set_tacc (set_tcont (th st t) k1) acc1)) s1) t) = k1) by thr_simpl.
  assert (Fq : tfinal (thr (set_sl (upd_th st t (set_tacc (set_tcont (th st t) k1) acc1)) s1) t) = tfinal (thr st t)) by thr_simpl.
  assert (Hd1 : done <> None -> k1 = []).
  { intro D. unfold th in N. rewrite (Hd D) in N. apply nrel_nil. exact N. }
  set (st1 := set_sl (upd_th st t (set_tacc (set_tcont (th st t) k1) acc1)) s1) in *. clearbody st1.
  match type of H with (let '(st2, ev2) := ?E in _) = _ => destruct E as [st2 ev2] eqn:E2 end.
  assert (S2 : ShInv st2 /\ tfinal (thr st2 t) = tfinal (thr st t)).
  { destruct done as [v|].
    - inversion E2; subst st2 ev2. split; [|rewrite <- Fq; thr_simpl].
      apply (sh_done st1 _ t S1); [rewrite T1; apply Hd1; discriminate|thr_simpl|cbn; unfold updN, th; rewrite Nat.eqb_refl; reflexivity|reflexivity].
    - destruct k1.
      + destruct (tcur (th st1 t)) as [c|]; inversion E2; subst st2 ev2; [|auto].
        split; [|rewrite <- Fq; destruct c; thr_simpl].
        apply (sh_done st1 _ t S1); [exact T1|destruct c; thr_simpl|destruct c; cbn; unfold updN, th; rewrite Nat.eqb_refl; reflexivity|destruct c; reflexivity].
      + inversion E2; subst st2 ev2. auto. }
  destruct S2 as [S2 Ft2].
  destruct (tcont (th st2 t)) eqn:Ec; [|inversion H; subst; exact S2].
  destruct (tscript (th st2 t)) eqn:Es; [|inversion H; subst; exact S2].
  destruct (tcur (th st2 t)) eqn:Eu; [inversion H; subst; exact S2|].
  destruct (tfinal (th st2 t)) eqn:Ef; inversion H; subst; [exact S2|].
  unfold th in *.
  assert (Hc0 : tcont (thr st2 t) = [] ++ []) by exact Ec.
  match goal with |- ShInv ?s' => sh_same_flags st2 s' end.
  apply (sh_step st2 _ t (@nil instr) (@nil instr) (i :: l) S2 F1 F2 F3 F4);
    [thr_simpl|thr_simpl|thr_simpl|exact Hc0|cbn -[Nat.eqb]; unfold updN, th; rewrite Nat.eqb_refl; cbn; rewrite app_nil_r; reflexivity
    | | |intros; congruence|intros; congruence|intros; congruence|right; right; reflexivity].
  - intros j Hj. rewrite <- Ef, Ft2 in Hj. apply Q in Hj. destruct j; cbn in Hj; try contradiction.
    destruct a; cbn in Hj; try contradiction; exact Logic.I.
  - intro c. apply flat_map_nil. intros y Hy. assert (Hy' : In y (tfinal (thr st t))) by (rewrite <- Ft2, Ef; right; exact Hy).
    apply Q in Hy'. destruct y; cbn in Hy'; try contradiction. reflexivity.
Qed.

Lemma sh_install : forall s0 s t c,
  ShInv s0 -> tcont (thr s0 t) = [] ->
  (forall u, u <> t -> thr s u = thr s0 u) ->
  tcont (thr s t) = [] -> tcur (thr s t) = Some c -> tret (thr s t) = RUnit -> chs s = chs s0 -> ShInv s.
Proof.
  intros s0 s t c S Hc Ho Kt Ct Rt Hch.
  constructor; intros; rewrite ?Hch in *;
    try (destruct (Nat.eq_dec t0 t) as [->|Hu];
         [rewrite ?Kt, ?Rt in *; try contradiction|rewrite (Ho t0 Hu) in *]).
  - left. auto.
  - eapply (sh_send s0 S); eauto.
  - left. auto.
  - eapply (sh_closed s0 S); eauto.
  - split; auto.
  - eapply (sh_drop s0 S); eauto.
  - eapply (sh_own_ls s0 S); eauto.
  - eapply (sh_own_lc s0 S); eauto.
  - eapply (sh_own_close s0 S); eauto.
  - eapply (sh_own_push s0 S); eauto.
  - eapply (sh_own_h s0 S); eauto.
  - eapply (sh_clear s0 S); eauto.
  - destruct H; contradiction.
  - eapply (sh_reg s0 S); eauto.
  - discriminate.
  - eapply (sh_ufwd_head s0 S); eauto.
  - reflexivity.
  - eapply (sh_ufwd_main s0 S); eauto.
  - eapply (sh_ufwd_open s0 S); eauto.
  - eapply (sh_ex s0 S); eauto.
Qed.

Theorem wstep_Sh : forall st t st' ev,
  MInv st -> PqInv st -> YInv st -> ShInv st -> wstep st t = (st', ev) -> ShInv st'.
Proof.
  intros st t st' ev [I [P Wf]] Q Y S H. unfold wstep in H.
  destruct (enabled st t) eqn:En; cbn [negb] in H; [|inversion H; subst; exact S].
  assert (Ht : (t < nthr st)%nat).
  { unfold enabled in En. apply andb_true_iff in En. destruct En as [En _]. apply Nat.ltb_lt in En. exact En. }
  assert (It : CInv (core (tick st t))) by (eapply CInv_ceq; [|exact I]; unfold tick; same_core).
  assert (Pt : pristine (tick st t)) by (unfold tick; prist st t).
  assert (Wt : wfi (tick st t)) by (eapply wfi_eq; [| | |exact Wf]; reflexivity).
  assert (Qt : PqInv (tick st t)).
  { apply (pq_same st); auto; try reflexivity. intro u. unfold tick. repeat split; thr_simpl. }
  assert (Yt : YInv (tick st t)).
  { intro u. unfold tick. cbn -[Nat.eqb]. unfold updN, th. destruct (Nat.eqb_spec u t); subst; cbn; apply Y. }
  assert (St : ShInv (tick st t)) by (unfold tick; sh_eq st).
  assert (Htt : (t < nthr (tick st t))%nat) by exact Ht.
  set (s0 := tick st t) in *. clearbody s0. clear En.
  destruct (tstarted (th s0 t)) eqn:Es0; cbn [negb] in H.
  - destruct (tcont (th s0 t)) as [|i r] eqn:Ec.
    + destruct (tscript (th s0 t)) as [|c0 cs] eqn:Es; [inversion H; subst; exact S|].
      match type of H with context [begin_cmd ?S0 t ?cc] =>
        destruct (begin_cmd S0 t cc) as [[st2 ev0] done] eqn:Eb; set (s1 := S0) in * end.
      assert (I1 : CInv (core s1)) by (eapply CInv_ceq; [|exact It]; unfold s1; same_core).
      assert (P1 : pristine s1) by (unfold s1; prist s0 t).
      assert (W1 : wfi s1) by (eapply wfi_eq; [| | |exact Wt]; reflexivity).
      assert (Hc1 : tcont (thr s1 t) = []) by (unfold s1; thr_simpl; exact Ec).
      assert (Hcur1 : tcur (thr s1 t) = Some c0) by (unfold s1; thr_simpl).
      assert (Hret1 : tret (thr s1 t) = RUnit) by (unfold s1; thr_simpl).
      assert (S1 : ShInv s1).
      { apply (sh_install s0 s1 t c0 St Ec); auto. unfold s1. thr_simpl. }
      pose proof (begin_cmd_Sh s1 t c0 st2 ev0 done S1 P1 Htt Hc1 Hcur1 Hret1 Eb) as S2.
      destruct (begin_cmd_inv s1 t c0 st2 ev0 done I1 P1 W1 Hc1 Htt Eb) as [I2 _].
      assert (Hcur1' : tcur (thr s1 t) <> None) by congruence.
      assert (Q1 : PqInv s1).
      { unfold th in Ec, Es. apply (pq_idle s0 s1 t [] Qt Ec); try reflexivity.
        - exact Hc1.
        - unfold s1. thr_simpl.
        - unfold s1. thr_simpl.
        - unfold s1. cbn -[Nat.eqb]. unfold updN, th. rewrite Nat.eqb_refl. cbn. intros _ H0 _.
          apply (pk s0 Qt t Htt H0). right. rewrite Es. discriminate.
        - intros j [].
        - unfold s1. cbn -[Nat.eqb]. unfold updN, th. rewrite Nat.eqb_refl. cbn. apply (pf s0 Qt t). }
      pose proof (begin_cmd_Pq s1 t c0 st2 ev0 done I1 P1 Q1 Hc1 Htt Hcur1' Eb) as Q2.
      eapply settle_Sh; [exact S2|exact I2|apply (pf st2 Q2 t)| |exact H].
      intro D. destruct done as [v|]; [|congruence]. rewrite (begin_cmd_done s1 t c0 st2 ev0 v Htt Eb). exact Hc1.
    + destruct (exec_instr s0 t i r) as [st1 ev1] eqn:Ee.
      assert (I1 : CInv (core st1)) by (eapply exec_instr_inv; eauto).
      pose proof (exec_instr_Sh s0 t i r st1 ev1 St Ec Ee) as S1.
      destruct (exec_instr_tf _ _ _ _ _ _ Ee) as [_ [Hf _]].
      eapply settle_Sh; [exact S1|exact I1| |intro D; exfalso; apply D; reflexivity|exact H].
      destruct (Hf t) as [_ [_ [F _]]]. rewrite F. apply (pf s0 Qt t).
  - eapply settle_Sh; [| | |intro D; exfalso; apply D; reflexivity|exact H].
    + sh_eq s0.
    + eapply CInv_ceq; [|exact It]. same_core.
    + cbn -[Nat.eqb]. unfold updN, th. rewrite Nat.eqb_refl. cbn. apply (pf s0 Qt t).
Qed.

Lemma Sh_init : forall scr, ShInv (winit scr).
Proof.
  intro scr. constructor; cbn; intros; try discriminate; try contradiction; try reflexivity.
  - destruct H; contradiction.
  - destruct H as [H|[H|H]]; discriminate.
Qed.

Lemma wrun_Sh : forall sched st,
  MInv st -> WInv st -> SlInv st -> LKInv st -> ChInv st -> PqInv st -> YInv st -> ShInv st -> ShInv (fst (wrun st sched)).
Proof.
  induction sched as [|t rest IH]; intros st M W S L C Q Y Sh; cbn [wrun]; auto.
  destruct (wstep st t) as [st1 ev] eqn:E.
  specialize (IH st1 (wstep_inv _ _ _ _ M E) (wstep_ww _ _ _ _ M W E) (wstep_Sl _ _ _ _ M S E) (wstep_LK _ _ _ _ M L E)
                 (wstep_Ch _ _ _ _ M W S L C E) (wstep_Pq _ _ _ _ M W S C Q E) (wstep_Y _ _ _ _ M Y E) (wstep_Sh _ _ _ _ M Q Y Sh E)).
  destruct (wrun st1 rest) as [st2 tr]. exact IH.
Qed.

Theorem reachable_Sh : forall st, reachable st -> ShInv st.
Proof.
  intros st [scr [sched ->]].
  apply wrun_Sh; [apply MInv_init|apply WInv_init|apply Sl_init| |apply Ch_init|apply Pq_init|apply Y_init|apply Sh_init].
  exact (reachable_LK (winit scr) (ex_intro _ scr (ex_intro _ [] eq_refl))).
Qed.

(** ** the monitor relation *)
(** what the current step has done and the monitor has not seen yet (between the components of one step) *)
Inductive pend := PNone | PAcc (t : tid) (c x : Z) | PBadDrop (t : tid) (c : Z).
Definition pendm (p : pend) (c : Z) : list Z :=
  match p with PAcc _ c' x => if c' =? c then [x] else [] | _ => [] end.
Definition begun_of (p : pend) (m : m13) : list Z :=
  match p with PBadDrop _ _ => tl (m13_cbegun m) | _ => m13_cbegun m end.

Record CRel (p : pend) (st : wstate) (m : m13) : Prop := {
  r_bad : m13_bad m = false;
  r_open : forall c, copen (chs st c) = true -> accs m c ++ pendm p c = fwds m c ++ transit st c ++ cq (chs st c);
  r_done : forall c, memZ c (m13_cdone m) = true -> copen (chs st c) = false /\ cexists (chs st c) = true;
  r_begun : forall c, cexists (chs st c) = true -> copen (chs st c) = false -> memZ c (begun_of p m) = true;
  r_ex_acc : forall t c x, In (t, (c, x)) (m13_acc m) -> cexists (chs st c) = true;
  r_ex_fwd : forall c x, In (c, x) (m13_fwd m) -> cexists (chs st c) = true;
  r_acc_sent : forall t c x, In (t, (c, x)) (m13_acc m) -> exists l, In (mkCS t c x l) (m13_sends m);
  r_acc_nd : NoDup (map snd (m13_acc m));
  r_late_dom : forall t l, get_tid t (m13_late m) = Some l ->
               exists c, (exists x, tcur (thr st t) = Some (CSend c x)) \/ tcur (thr st t) = Some (CClosed c);
  r_late_nd : NoDup (map fst (m13_late m));
  r_send : forall t c x, tcur (thr st t) = Some (CSend c x) ->
           (exists l l1 l2, m13_sends m = l1 ++ mkCS t c x l :: l2 /\ (forall s, In s l1 -> cs_tid s <> t) /\
                            get_tid t (m13_late m) = Some l /\
                            (l = true -> copen (chs st c) = false /\ cexists (chs st c) = true)) /\
           ~ In (t, (c, x)) (m13_acc m) /\
           (tret (thr st t) = RBool true -> p = PAcc t c x);
  r_pacc : forall t c x, p = PAcc t c x ->
           tcur (thr st t) = Some (CSend c x) /\ tcont (thr st t) = [] /\ tret (thr st t) = RBool true /\
           copen (chs st c) = true;
  r_closedcmd : forall t c, tcur (thr st t) = Some (CClosed c) ->
           exists l, get_tid t (m13_late m) = Some l /\
                     (l = true -> copen (chs st c) = false /\ cexists (chs st c) = true) /\
                     (forall b, ((exists m', In (IUnlock m' (URet (RBool b))) (tcont (thr st t))) \/ tret (thr st t) = RBool b) ->
                                l = true -> b = true);
  r_dropcmd : forall t c, tcur (thr st t) = Some (CCDrop c) ->
           (p = PBadDrop t c /\ exists old, m13_cbegun m = c :: old) \/
           (p <> PBadDrop t c /\ memZ c (begun_of p m) = true /\ cexists (chs st c) = true /\
            ((exists m', In (ILock m' (LChClose c)) (tcont (thr st t))) \/ copen (chs st c) = false));
  r_pbad : forall t c, p = PBadDrop t c -> tcur (thr st t) = Some (CCDrop c) /\ tcont (thr st t) = [];
  r_ord : forall a1 t c x a2, m13_acc m = a1 ++ (t, (c, x)) :: a2 ->
          forall l l1 l2, m13_sends m = l1 ++ mkCS t c x l :: l2 ->
          forall e, In e l2 -> cs_tid e = t -> In (t, (cs_c e, cs_m e)) (m13_acc m) -> In (t, (cs_c e, cs_m e)) a2 }.

Section CFrame.
  Variables (st st' : wstate) (m m' : m13).
  Hypothesis R : CRel PNone st m.
  Hypothesis M1 : m13_sends m' = m13_sends m.
  Hypothesis M2 : m13_acc m' = m13_acc m.
  Hypothesis M4 : m13_cbegun m' = m13_cbegun m.
  Hypothesis M5 : m13_cdone m' = m13_cdone m.
  Hypothesis M6 : m13_late m' = m13_late m.
  Hypothesis M7 : m13_bad m' = false.
  Hypothesis Hex : forall c, cexists (chs st' c) = cexists (chs st c).
  Hypothesis Hop : forall c, copen (chs st' c) = true ->
                   copen (chs st c) = true /\
                   fwds m' c ++ transit st' c ++ cq (chs st' c) = fwds m c ++ transit st c ++ cq (chs st c).
  Hypothesis Hfx : forall c x, In (c, x) (m13_fwd m') -> cexists (chs st' c) = true.
  Hypothesis Hcl : forall c, copen (chs st c) = false -> copen (chs st' c) = false.
  Hypothesis Hbg : forall c, copen (chs st c) = true -> copen (chs st' c) = false -> memZ c (m13_cbegun m) = true.
  Hypothesis Hcur : forall u, tcur (thr st' u) = tcur (thr st u).
  Hypothesis Hrs : forall u c x, tcur (thr st u) = Some (CSend c x) -> tret (thr st' u) = RBool true -> tret (thr st u) = RBool true.
  Hypothesis Hrc : forall u c b, tcur (thr st u) = Some (CClosed c) -> tret (thr st' u) = RBool b ->
                   tret (thr st u) = RBool b \/ exists m0, In (IUnlock m0 (URet (RBool b))) (tcont (thr st u)).
  Hypothesis Hclose : forall u m0 c, tcur (thr st u) = Some (CCDrop c) -> In (ILock m0 (LChClose c)) (tcont (thr st u)) ->
                      (exists m1, In (ILock m1 (LChClose c)) (tcont (thr st' u))) \/ copen (chs st' c) = false.
  Hypothesis Huret : forall u c m0 b, tcur (thr st u) = Some (CClosed c) -> In (IUnlock m0 (URet (RBool b))) (tcont (thr st' u)) ->
                     (exists m1, In (IUnlock m1 (URet (RBool b))) (tcont (thr st u))) \/ b = negb (copen (chs st c)).

  Lemma cr_frame : CRel PNone st' m'.
  Proof.
    assert (Ac : forall c, accs m' c = accs m c) by (intro c; unfold accs; rewrite M2; reflexivity).
    assert (Cl2 : forall c, copen (chs st c) = false /\ cexists (chs st c) = true -> copen (chs st' c) = false /\ cexists (chs st' c) = true).
    { intros c [A B]. split; [apply Hcl; exact A|rewrite Hex; exact B]. }
    constructor.
    - exact M7.
    - intros c Ho. destruct (Hop c Ho) as [A B]. rewrite Ac. pose proof (r_open _ st m R c A) as E.
      rewrite E. symmetry. exact B.
    - intros c. rewrite M5. intro H. apply Cl2. apply (r_done _ st m R c H).
    - intros c. rewrite Hex. cbn [begun_of]. rewrite M4. intros E1 E2.
      destruct (copen (chs st c)) eqn:Eo; [apply Hbg; auto|apply (r_begun _ st m R c E1 Eo)].
    - intros u c x. rewrite M2, Hex. apply (r_ex_acc _ st m R).
    - exact Hfx.
    - intros u c x. rewrite M1, M2. apply (r_acc_sent _ st m R).
    - rewrite M2. apply (r_acc_nd _ st m R).
    - intros u l. rewrite M6. intro H. destruct (r_late_dom _ st m R u l H) as [c X]. exists c. rewrite Hcur. exact X.
    - rewrite M6. apply (r_late_nd _ st m R).
    - intros u c x. rewrite Hcur, M1, M2, M6. intro Hu.
      destruct (r_send _ st m R u c x Hu) as [[l [l1 [l2 [S1 [S2 [S3 S4]]]]]] [S5 S6]].
      split; [exists l, l1, l2; split; [exact S1|split; [exact S2|split; [exact S3|intro Hl; apply Cl2; apply S4; exact Hl]]]|].
      split; [exact S5|]. intro Ht. apply S6. eapply Hrs; eauto.
    - intros u c x H. discriminate H.
    - intros u c. rewrite Hcur, M6. intro Hu.
      destruct (r_closedcmd _ st m R u c Hu) as [l [L1 [L2 L3]]]. exists l. split; [exact L1|]. split; [intro Hl; apply Cl2; apply L2; exact Hl|].
      intros b [[m0 Hin]|Hr] Hl.
      + destruct (Huret u c m0 b Hu Hin) as [[m1 X]|X]; [apply (L3 b); [left; exists m1; exact X|exact Hl]|].
        destruct (L2 Hl) as [Y _]. rewrite Y in X. exact X.
      + destruct (Hrc u c b Hu Hr) as [X|[m0 X]]; apply (L3 b); auto. left. exists m0. exact X.
    - intros u c. rewrite Hcur, Hex. cbn [begun_of]. rewrite M4. intro Hu.
      destruct (r_dropcmd _ st m R u c Hu) as [[D _]|[D1 [D2 [D3 D4]]]]; [discriminate D|]. right.
      split; [discriminate|]. split; [exact D2|]. split; [exact D3|].
      destruct D4 as [[m0 D4]|D4]; [apply (Hclose u m0 c Hu D4)|right; apply Hcl; exact D4].
    - intros u c H. discriminate H.
    - rewrite M1, M2. apply (r_ord _ st m R).
  Qed.
End CFrame.

Lemma cr_frame_s : forall st st' m m',
  CRel PNone st m -> m13_same m m' ->
  (forall c, cexists (chs st' c) = cexists (chs st c)) ->
  (forall c, copen (chs st' c) = true ->
             copen (chs st c) = true /\ transit st' c ++ cq (chs st' c) = transit st c ++ cq (chs st c)) ->
  (forall c, copen (chs st c) = false -> copen (chs st' c) = false) ->
  (forall c, copen (chs st c) = true -> copen (chs st' c) = false -> memZ c (m13_cbegun m) = true) ->
  (forall u, tcur (thr st' u) = tcur (thr st u)) ->
  (forall u c x, tcur (thr st u) = Some (CSend c x) -> tret (thr st' u) = RBool true -> tret (thr st u) = RBool true) ->
  (forall u c b, tcur (thr st u) = Some (CClosed c) -> tret (thr st' u) = RBool b ->
                 tret (thr st u) = RBool b \/ exists m0, In (IUnlock m0 (URet (RBool b))) (tcont (thr st u))) ->
  (forall u m0 c, tcur (thr st u) = Some (CCDrop c) -> In (ILock m0 (LChClose c)) (tcont (thr st u)) ->
                  (exists m1, In (ILock m1 (LChClose c)) (tcont (thr st' u))) \/ copen (chs st' c) = false) ->
  (forall u c m0 b, tcur (thr st u) = Some (CClosed c) -> In (IUnlock m0 (URet (RBool b))) (tcont (thr st' u)) ->
                    (exists m1, In (IUnlock m1 (URet (RBool b))) (tcont (thr st u))) \/ b = negb (copen (chs st c))) ->
  CRel PNone st' m'.
Proof.
  intros st st' m m' R [M1 M2 M3 M4 M5 M6 M7] Hex Hop Hcl Hbg Hcur Hrs Hrc Hclose Huret.
  apply (cr_frame st st' m m' R M1 M2 M4 M5 M6); auto.
  - rewrite M7. apply (r_bad _ st m R).
  - intros c Ho. destruct (Hop c Ho) as [A B]. split; [exact A|]. unfold fwds. rewrite M3. f_equal. exact B.
  - intros c x. rewrite M3, Hex. apply (r_ex_fwd _ st m R).
Qed.

(** a step of [t] that replaces the head [i] by [new], touches no channel record and emits only plain events *)
Definition cr_quiet (j : instr) : Prop :=
  (forall c, ufwd_of c j = []) /\ (forall m c, j <> ILock m (LChClose c)).

Lemma cr_triv : forall st st' m t pre r new ev,
  CRel PNone st m ->
  (forall u, tcur (thr st' u) = tcur (thr st u)) ->
  (forall u, (exists c x, tcur (thr st u) = Some (CSend c x)) \/ (exists c, tcur (thr st u) = Some (CClosed c)) -> tret (thr st' u) = tret (thr st u)) ->
  (forall u, u <> t -> tcont (thr st' u) = tcont (thr st u)) ->
  tcont (thr st t) = pre ++ r -> tcont (thr st' t) = new ++ r ->
  (forall c, copen (chs st' c) = copen (chs st c) /\ cq (chs st' c) = cq (chs st c) /\ cexists (chs st' c) = cexists (chs st c)) ->
  (forall e, In e ev -> c13_plain e) ->
  (forall i, In i pre -> cr_quiet i) ->
  (forall j, In j new -> cr_quiet j) ->
  (forall c m0 b, tcur (thr st t) = Some (CClosed c) -> In (IUnlock m0 (URet (RBool b))) new -> b = negb (copen (chs st c))) ->
  CRel PNone st' (fold_left m13_step (evs t ev) m).
Proof.
  intros st st' m t pre r new ev R Hcur Hret Ho Hc Hc' Hch Hev Hpre Hnew Hcc.
  assert (Tr : forall c, transit st' c = transit st c).
  { intro c. unfold transit. destruct (Nat.eq_dec main t) as [E|E]; [|rewrite (Ho main E); reflexivity].
    rewrite E, Hc, Hc', !flat_map_app.
    replace (flat_map (ufwd_of c) new) with (@nil Z) by (symmetry; apply flat_map_nil; intros j Hj; apply (Hnew j Hj)).
    replace (flat_map (ufwd_of c) pre) with (@nil Z) by (symmetry; apply flat_map_nil; intros j Hj; apply (Hpre j Hj)).
    reflexivity. }
  apply (cr_frame_s st st' m _ R (m13_plain_fold t ev m Hev)).
  - intro c. apply Hch.
  - intros c Ho'. destruct (Hch c) as [A [B _]]. rewrite A in Ho'. split; [exact Ho'|]. rewrite Tr, B. reflexivity.
  - intros c. destruct (Hch c) as [A _]. rewrite A. auto.
  - intros c E1 E2. destruct (Hch c) as [A _]. congruence.
  - exact Hcur.
  - intros u c x Hu. rewrite Hret by (left; eauto). auto.
  - intros u c b Hu. rewrite Hret by (right; eauto). auto.
  - intros u m0 c _ Hin. left. exists m0. destruct (Nat.eq_dec u t) as [->|Hu]; [|rewrite (Ho u Hu); exact Hin].
    rewrite Hc in Hin. rewrite Hc'. apply in_app_or in Hin. destruct Hin as [Hin|Hin]; [exfalso; eapply (proj2 (Hpre _ Hin)); eauto|].
    apply in_or_app. auto.
  - intros u c m0 b Hu0 Hin. destruct (Nat.eq_dec u t) as [->|Hu]; [|left; exists m0; rewrite (Ho u Hu) in Hin; exact Hin].
    rewrite Hc' in Hin. apply in_app_or in Hin. destruct Hin as [Hin|Hin]; [right; eapply Hcc; eauto|].
    left. exists m0. rewrite Hc. apply in_or_app. right. exact Hin.
Qed.

Lemma cr_msame : forall p st m m', CRel p st m -> m13_same m m' -> CRel p st m'.
Proof.
  intros p st m m' R [M1 M2 M3 M4 M5 M6 M7].
  assert (Ac : forall c, accs m' c = accs m c) by (intro c; unfold accs; rewrite M2; reflexivity).
  assert (Fc : forall c, fwds m' c = fwds m c) by (intro c; unfold fwds; rewrite M3; reflexivity).
  assert (Bg : begun_of p m' = begun_of p m) by (unfold begun_of; rewrite M4; reflexivity).
  constructor; intros; rewrite ?M1, ?M2, ?M3, ?M4, ?M5, ?M6, ?M7, ?Ac, ?Fc, ?Bg in *.
  - apply (r_bad p st m R).
  - apply (r_open p st m R); auto.
  - apply (r_done p st m R); auto.
  - apply (r_begun p st m R); auto.
  - eapply (r_ex_acc p st m R); eauto.
  - eapply (r_ex_fwd p st m R); eauto.
  - eapply (r_acc_sent p st m R); eauto.
  - apply (r_acc_nd p st m R).
  - eapply (r_late_dom p st m R); eauto.
  - apply (r_late_nd p st m R).
  - eapply (r_send p st m R); eauto.
  - eapply (r_pacc p st m R); eauto.
  - eapply (r_closedcmd p st m R); eauto.
  - eapply (r_dropcmd p st m R); eauto.
  - eapply (r_pbad p st m R); eauto.
  - eapply (r_ord p st m R); eauto.
Qed.

Lemma closed_head_lock : forall st t m a r c, ShInv st -> tcont (thr st t) = ILock m a :: r ->
  tcur (thr st t) = Some (CClosed c) -> a = LChClosed c.
Proof.
  intros st t m a r c S Hc Hu. destruct (sh_closed st S t c Hu) as [[_ [E|[E|[b E]]]]|[E _]]; rewrite Hc in E; try discriminate E.
  inversion E; reflexivity.
Qed.

Ltac cr_chs := let c0 := fresh "c0" in intro c0; cbn; unfold updZ;
  repeat match goal with |- context [?a =? ?b] => destruct (Z.eqb_spec a b); subst end; cbn; repeat split; reflexivity.
Ltac cr_pl := let e := fresh "e" in let He := fresh "He" in
  intros e He; cbn in He; repeat (destruct He as [<-|He]); try contradiction; exact Logic.I.
Ltac cr_new := let j := fresh "j" in let Hj := fresh "Hj" in
  intros j Hj; in_cases Hj; (split; [intro; reflexivity|intros; discriminate]).
Ltac crt st t i r new :=
  apply (cr_triv st _ _ t [i] r new);
  [ assumption | thr_simpl | (let u := fresh in intros u _; thr_simpl) | thr_simpl | eassumption | thr_simpl | cr_chs | cr_pl | cr_new | cr_new
  | let Hu := fresh in intros ? ? ? Hu ?; exfalso;
    match goal with Hcc : forall c, tcur (thr st t) <> Some (CClosed c) |- _ => exact (Hcc _ Hu) end ].

Ltac thr_impl := cbn -[Nat.eqb]; unfold updN, th; cbn -[Nat.eqb];
  repeat match goal with |- context [Nat.eqb ?a ?b] => destruct (Nat.eqb_spec a b); subst end; cbn -[Nat.eqb]; auto; try congruence.

Lemma exec_lact_C : forall st m13s t m a r st' ev,
  ShInv st -> CRel PNone st m13s -> tcont (thr st t) = ILock m a :: r ->
  exec_lact st t a r = (st', ev) -> CRel PNone st' (fold_left m13_step (evs t ev) m13s).
Proof.
  intros st ms t m a r st' ev S R Hc H.
  assert (Hcc : forall a', a = a' -> (forall c, a' <> LChClosed c) -> forall c, tcur (thr st t) <> Some (CClosed c)).
  { intros a' -> Hn c Hu. apply (Hn c). eapply closed_head_lock; eauto. }
  destruct a; cbn [exec_lact] in H.
  - pose proof (Hcc _ eq_refl ltac:(intros; discriminate)) as Hcc'.
    destruct (climb_reserved st bm) as [i|] eqn:Ecl; inversion H; subst; clear H.
    + apply climb_at_climb in Ecl. destruct Ecl as [k ->]. crt st t (ILock m (LPush bit bm who)) r [IClimb k; IUnlock MDL UNone].
    + crt st t (ILock m (LPush bit bm who)) r [IUnlock MDL UNone].
  - pose proof (Hcc _ eq_refl ltac:(intros; discriminate)) as Hcc'.
    unfold ghost_handler in H. inversion H; subst; clear H. crt st t (ILock m LTake) r [IUnlock MDL (UDels (dl st))].
  - pose proof (Hcc _ eq_refl ltac:(intros; discriminate)) as Hcc'.
    inversion H; subst; clear H. crt st t (ILock m (LChInit c)) r [IUnlock (MCh c) (UChReg c)].
  - pose proof (Hcc _ eq_refl ltac:(intros; discriminate)) as Hcc'.
    destr_all H; repeat match goal with E : climb_start _ _ _ = Some _ |- _ => apply climb_at_climb in E; destruct E as [? ->] end;
      inversion H; subst; clear H.
    + crt st t (ILock m (LChSend c m0)) r [IClimb x; IUnlock (MCh c) (UChPush c m0)].
    + crt st t (ILock m (LChSend c m0)) r [IUnlock (MCh c) (UChPush c m0)].
    + crt st t (ILock m (LChSend c m0)) r [IUnlock (MCh c) (UChPush c m0)].
    + crt st t (ILock m (LChSend c m0)) r [IUnlock (MCh c) (URet (RBool false))].
  - (* LChClosed *)
    inversion H; subst; clear H.
    apply (cr_triv st _ _ t [ILock m (LChClosed c)] r [IUnlock (MCh c) (URet (RBool (negb (copen (chs st c)))))]);
      [assumption|thr_simpl|thr_simpl|thr_simpl|eassumption|thr_simpl|cr_chs|cr_pl|cr_new|cr_new|].
    intros c1 m1 b1 Hu1 [E|[]]. inversion E; subst b1.
    assert (Hu : tcur (thr st t) = Some (CClosed c)) by (apply (sh_own_lc st S t m c); rewrite Hc; left; reflexivity).
    congruence.
  - (* LChClose *)
    assert (Hu : tcur (thr st t) = Some (CCDrop c)) by (apply (sh_own_close st S t m c); rewrite Hc; left; reflexivity).
    assert (Hr : r = [] /\ t = main).
    { destruct (sh_drop st S t c Hu) as [_ [E|[Tm [_ [E|[_ Nc]]]]]]; try (rewrite Hc in E; discriminate E).
      - rewrite Hc in E. inversion E. auto.
      - exfalso. exact (Nc (ILock m (LChClose c)) ltac:(rewrite Hc; left; reflexivity)). }
    destruct Hr as [-> ->].
    destruct (r_dropcmd _ st ms R main c Hu) as [[D _]|[_ [Dm [Dx _]]]]; [discriminate D|].
    destruct (copen (chs st c)) eqn:Eo; inversion H; subst; clear H.
    + match goal with |- CRel _ ?S' _ => set (st' := S') end. cbn [evs map fold_left].
      assert (Tr : forall c0, transit st' c0 = [] /\ transit st c0 = []).
      { intro c0. unfold transit, st'. cbn -[Nat.eqb]. unfold updN, th. cbn. rewrite Hc. cbn. auto. }
      apply (cr_frame_s st st' ms ms R (m13_same_refl ms)).
      * intro c0. unfold st'. cbn. unfold updZ. destruct (Z.eqb_spec c0 c); subst; reflexivity.
      * intros c0. unfold st'. cbn. unfold updZ. destruct (Z.eqb_spec c0 c); subst; cbn; [discriminate|].
        intro Ho'. split; [exact Ho'|]. rewrite (proj2 (Tr c0)). reflexivity.
      * intros c0. unfold st'. cbn. unfold updZ. destruct (Z.eqb_spec c0 c); subst; cbn; auto.
      * intros c0 E1. unfold st'. cbn. unfold updZ. destruct (Z.eqb_spec c0 c); subst; cbn; [intros _; exact Dm|congruence].
      * unfold st'. thr_simpl.
      * intros u c1 x1 _. unfold st'. thr_impl.
      * intros u c1 b1 _. unfold st'. thr_impl.
      * intros u m0 c1 Hu1 Hin. destruct (Nat.eq_dec u main) as [->|Nu].
        -- right. rewrite Hu in Hu1. inversion Hu1; subst c1. unfold st'. cbn. unfold updZ. rewrite Z.eqb_refl. reflexivity.
        -- left. exists m0. unfold st'. cbn -[Nat.eqb]. unfold updN, th. destruct (Nat.eqb_spec u main); [congruence|exact Hin].
      * intros u c1 m0 b1 Hu1 Hin. left. exists m0. destruct (Nat.eq_dec u main) as [->|Nu]; [congruence|].
        revert Hin. unfold st'. cbn -[Nat.eqb]. unfold updN, th. destruct (Nat.eqb_spec u main); [congruence|auto].
    + assert (Hcc' : forall c1, tcur (thr st main) <> Some (CClosed c1)) by congruence.
      apply (cr_frame_s st _ ms _ R (m13_same_refl ms)).
      * intro c0. reflexivity.
      * intros c0 Ho'. split; [exact Ho'|]. unfold transit. cbn -[Nat.eqb]. unfold updN, th. cbn. rewrite Hc. reflexivity.
      * auto.
      * intros c0 E1 E2. cbn in E2. congruence.
      * thr_simpl.
      * intros u c1 x1 _. thr_impl.
      * intros u c1 b1 _. thr_impl.
      * intros u m0 c1 Hu1 Hin. destruct (Nat.eq_dec u main) as [->|Nu].
        -- right. rewrite Hu in Hu1. inversion Hu1; subst c1. exact Eo.
        -- left. exists m0. cbn -[Nat.eqb]. unfold updN, th. destruct (Nat.eqb_spec u main); [congruence|exact Hin].
      * intros u c1 m0 b1 Hu1 Hin. left. exists m0. destruct (Nat.eq_dec u main) as [->|Nu]; [exfalso; exact (Hcc' _ Hu1)|].
        revert Hin. cbn -[Nat.eqb]. unfold updN, th. destruct (Nat.eqb_spec u main); [congruence|auto].
  - (* LChHandler *)
    assert (Tm : t = main) by (apply (sh_own_h st S t m c del); rewrite Hc; left; reflexivity). subst t.
    destruct (sh_plain_cmds st main (ILock m (LChHandler c del)) r S Hc Logic.I) as [Cs Cc].
    pose proof (fun c0 => sh_ufwd_head st S main _ r c0 Hc) as Tr0.
    unfold ghost_handler in H. inversion H; subst; clear H.
    match goal with |- CRel _ ?S' _ => set (st' := S') end.
    assert (Ev : m13_same ms (fold_left m13_step (evs main [EHandler (HChan c) del; EPub (HChan c) (ovleb (gcol st (HChan c)) (tclk (th st main)))]) ms))
      by (apply m13_plain_fold; cr_pl).
    assert (Tc : tcont (thr st' main) = [IUnlock (MCh c) (UFwd c (if copen (chs st c) then cq (chs st c) else []))] ++ r)
      by (unfold st'; destruct del; thr_simpl).
    assert (To : forall u, u <> main -> tcont (thr st' u) = tcont (thr st u)) by (unfold st'; destruct del; thr_simpl).
    assert (Chs : forall c0, chs st' c0 = if c0 =? c then mkChan (cexists (chs st c)) (Waker.creg (chs st c)) (cguard (chs st c)) (copen (chs st c)) [] (cw (chs st c)) else chs st c0).
    { intro c0. unfold st'. destruct del; cbn; unfold updZ; destruct (Z.eqb_spec c0 c); subst; reflexivity. }
    apply (cr_frame_s st st' ms _ R Ev).
    + intro c0. rewrite Chs. destruct (Z.eqb_spec c0 c); subst; reflexivity.
    + intros c0. rewrite Chs. unfold transit. rewrite Tc, Hc. cbn [app flat_map ufwd_of]. rewrite (Tr0 c0), !app_nil_r.
      destruct (Z.eqb_spec c0 c) as [->|N].
      * cbn. rewrite Z.eqb_refl. intro Ho'. rewrite Ho'. split; [reflexivity|]. rewrite app_nil_r. reflexivity.
      * intro Ho'. split; [exact Ho'|]. destruct (Z.eqb_spec c c0); [congruence|reflexivity].
    + intros c0. rewrite Chs. destruct (Z.eqb_spec c0 c); subst; auto.
    + intros c0 E1. rewrite Chs. destruct (Z.eqb_spec c0 c); subst; cbn; congruence.
    + unfold st'. destruct del; thr_simpl.
    + intros u c1 x1 _. unfold st'. destruct del; thr_impl.
    + intros u c1 b1 _. unfold st'. destruct del; thr_impl.
    + intros u m0 c1 Hu1 Hin. left. exists m0. destruct (Nat.eq_dec u main) as [->|Nu]; [|rewrite (To u Nu); exact Hin].
      rewrite Tc. rewrite Hc in Hin. destruct Hin as [Hin|Hin]; [discriminate Hin|]. right. exact Hin.
    + intros u c1 m0 b1 Hu1 Hin. left. exists m0. destruct (Nat.eq_dec u main) as [->|Nu]; [exfalso; exact (Cc _ Hu1)|].
      rewrite (To u Nu) in Hin. exact Hin.
  - pose proof (Hcc _ eq_refl ltac:(intros; discriminate)) as Hcc'.
    unfold ghost_handler in H. inversion H; subst; clear H.
    destruct del; [crt st t (ILock m (LPqHandler p true)) r [IUnlock (MPq p) (UPqFwd p (precvq (pps st p)) (Some (ppanic (pps st p))))]
                  |crt st t (ILock m (LPqHandler p false)) r [IUnlock (MPq p) (UPqFwd p (precvq (pps st p)) None)]].
  - pose proof (Hcc _ eq_refl ltac:(intros; discriminate)) as Hcc'.
    destr_all H; inversion H; subst; clear H.
    + crt st t (ILock m (LPqSend p m0)) r [IUnlock (MPq p) UNone; INotify p].
    + crt st t (ILock m (LPqSend p m0)) r [IUnlock (MPq p) UNone].
  - pose proof (Hcc _ eq_refl ltac:(intros; discriminate)) as Hcc'.
    inversion H; subst; clear H. crt st t (ILock m (LPqCancelSet p)) r [IUnlock (MPq p) UNone; INotify p].
  - pose proof (Hcc _ eq_refl ltac:(intros; discriminate)) as Hcc'.
    destr_all H; inversion H; subst; clear H.
    + crt st t (ILock m (LPqRecv p)) r [IUnlock (MPq p) (URet RNoneV)].
    + crt st t (ILock m (LPqRecv p)) r [ICvWait p; ICvReacq p].
    + crt st t (ILock m (LPqRecv p)) r [IUnlock (MPq p) (URet (RVal z))].
  - pose proof (Hcc _ eq_refl ltac:(intros; discriminate)) as Hcc'.
    inversion H; subst; clear H.
    destruct (precvq (pps st p)).
    + destruct (climb_start st (pw (pps st p)) (Some (HPipe p))) as [i|] eqn:E; cbn [olist app].
      * apply climb_at_climb in E. destruct E as [k ->].
        crt st t (ILock m (LPqLSend p m0)) r [IUnlock (MPq p) (URet (RBool (negb (pcancel (pps st p))))); IClimb k].
      * crt st t (ILock m (LPqLSend p m0)) r [IUnlock (MPq p) (URet (RBool (negb (pcancel (pps st p)))))].
    + crt st t (ILock m (LPqLSend p m0)) r [IUnlock (MPq p) (URet (RBool (negb (pcancel (pps st p)))))].
  - pose proof (Hcc _ eq_refl ltac:(intros; discriminate)) as Hcc'.
    inversion H; subst; clear H. crt st t (ILock m (LPqCancelGet p)) r [IUnlock (MPq p) (URet (RBool (pcancel (pps st p))))].
  - pose proof (Hcc _ eq_refl ltac:(intros; discriminate)) as Hcc'.
    inversion H; subst; clear H. crt st t (ILock m (LPqPanic p)) r [IUnlock (MPq p) UNone].
Qed.

(** ** lists of the monitor *)
Definition accf (c : Z) (a : tid * (Z * Z)) : list Z := if fst (snd a) =? c then [snd (snd a)] else [].
Definition fwdf (c : Z) (p : Z * Z) : list Z := if fst p =? c then [snd p] else [].
Lemma accs_eq : forall m c, accs m c = rev (flat_map (accf c) (m13_acc m)).
Proof. reflexivity. Qed.
Lemma fwds_eq : forall m c, fwds m c = rev (flat_map (fwdf c) (m13_fwd m)).
Proof. reflexivity. Qed.

Lemma pairZ_eqb_eq : forall x y, pairZ_eqb x y = true <-> x = y.
Proof.
  intros [a b] [a' b']. unfold pairZ_eqb. cbn. rewrite andb_true_iff, !Z.eqb_eq. split; [intros [-> ->]; reflexivity|intro E; inversion E; auto].
Qed.
Lemma mem_pair_In : forall x l, mem_pair x l = true <-> In x l.
Proof.
  intros x l. unfold mem_pair. rewrite existsb_exists. split.
  - intros [y [Hy E]]. apply pairZ_eqb_eq in E. subst. exact Hy.
  - intro H. exists x. split; [exact H|apply pairZ_eqb_eq; reflexivity].
Qed.
Lemma mem_acc_In : forall t x l, mem_acc t x l = true <-> In (t, x) l.
Proof.
  intros t x l. unfold mem_acc. rewrite existsb_exists. split.
  - intros [[u y] [Hy E]]. cbn in E. apply andb_true_iff in E. destruct E as [E1 E2]. apply Nat.eqb_eq in E1. apply pairZ_eqb_eq in E2. subst. exact Hy.
  - intro H. exists (t, x). split; [exact H|]. cbn. rewrite Nat.eqb_refl. apply pairZ_eqb_eq. reflexivity.
Qed.
Lemma in_fm_acc : forall c x l, In x (flat_map (accf c) l) <-> exists t, In (t, (c, x)) l.
Proof.
  intros c x l. rewrite in_flat_map. split.
  - intros [[t [c' y]] [Ha Hx]]. unfold accf in Hx. cbn in Hx. destruct (Z.eqb_spec c' c); [|destruct Hx]. destruct Hx as [<-|[]]. subst. eauto.
  - intros [t H]. exists (t, (c, x)). split; [exact H|]. unfold accf. cbn. rewrite Z.eqb_refl. left. reflexivity.
Qed.
Lemma in_fm_fwd : forall c x l, In x (flat_map (fwdf c) l) <-> In (c, x) l.
Proof.
  intros c x l. rewrite in_flat_map. split.
  - intros [[c' y] [Ha Hx]]. unfold fwdf in Hx. cbn in Hx. destruct (Z.eqb_spec c' c); [|destruct Hx]. destruct Hx as [<-|[]]. subst. exact Ha.
  - intro H. exists (c, x). split; [exact H|]. unfold fwdf. cbn. rewrite Z.eqb_refl. left. reflexivity.
Qed.
Lemma nodup_fm_acc : forall c l, NoDup (map snd l) -> NoDup (flat_map (accf c) l).
Proof.
  induction l as [|[t [c' y]] l IH]; intro H; [constructor|]. cbn [map snd] in H. inversion H; subst.
  cbn [flat_map]. unfold accf at 1. cbn. destruct (Z.eqb_spec c' c) as [->|N]; [|apply IH; assumption].
  cbn. constructor; [|apply IH; assumption]. intro Hin. apply in_fm_acc in Hin. destruct Hin as [t' Hin].
  apply H2. change (c, y) with (snd (t', (c, y))). apply in_map. exact Hin.
Qed.
Lemma nodup_split_unique : forall A (a a' b b' : list A) x,
  NoDup (a ++ x :: b) -> a ++ x :: b = a' ++ x :: b' -> a = a' /\ b = b'.
Proof.
  intros A a. induction a as [|y a IH]; intros a' b b' x Hn E.
  - destruct a' as [|y' a']; cbn in E.
    + injection E as E. auto.
    + exfalso. injection E as E1 E2. subst y'. cbn in Hn. inversion Hn as [|? ? Hni _]. apply Hni. rewrite E2.
      apply in_or_app. right. left. reflexivity.
  - destruct a' as [|y' a']; cbn in E.
    + exfalso. injection E as E1 E2. subst y. cbn in Hn. inversion Hn as [|? ? Hni _]. apply Hni.
      apply in_or_app. right. left. reflexivity.
    + injection E as E1 E2. subst y'. cbn in Hn. inversion Hn as [|? ? _ Hn'].
      destruct (IH a' b b' x Hn' E2) as [X Y]. split; [f_equal; exact X|exact Y].
Qed.
Lemma sends_before_spec : forall c x l l1 s l2,
  NoDup (map sk l) -> l = l1 ++ s :: l2 -> sk s = (c, x) -> sends_before c x l = Some (cs_tid s, l2).
Proof.
  intros c x l l1. revert l. induction l1 as [|e l1 IH]; intros l s l2 Hn E Hk; subst l.
  - cbn. unfold sk in Hk. inversion Hk; subst. rewrite !Z.eqb_refl. reflexivity.
  - cbn [app sends_before]. cbn [app map] in Hn. inversion Hn; subst.
    destruct ((cs_c e =? c) && (cs_m e =? x)) eqn:Eb.
    + exfalso. apply andb_true_iff in Eb. destruct Eb as [E1 E2]. apply Z.eqb_eq in E1, E2. apply H1.
      rewrite map_app. apply in_or_app. right. left. unfold sk at 2. rewrite Hk. unfold sk. subst. reflexivity.
    + apply IH; auto.
Qed.

(** the handler forwards the taken messages: the monitor accepts each of them *)
Definition order_ok (m : m13) (c : Z) (s : tid) (e : csend) : bool :=
  negb (Nat.eqb (cs_tid e) s) || negb (cs_c e =? c) || negb (mem_acc s (c, cs_m e) (m13_acc m)) || mem_pair (c, cs_m e) (m13_fwd m).
Lemma m13_fwd_step : forall ms t c x,
  m13_step ms (t, EFwd c x) =
  mkM13 (mb_step (m13_b ms) (t, EFwd c x)) (m13_sends ms) (m13_acc ms) ((c, x) :: m13_fwd ms) (m13_cbegun ms) (m13_cdone ms)
        (m13_late ms)
        (m13_bad ms || mem_pair (c, x) (m13_fwd ms) || memZ c (m13_cdone ms) ||
         match sends_before c x (m13_sends ms) with
         | None => true
         | Some (s, earlier) => negb (forallb (order_ok ms c s) earlier)
         end).
Proof. reflexivity. Qed.

Lemma fm_acc_split : forall c a1 s x a2,
  rev (flat_map (accf c) (a1 ++ (s, (c, x)) :: a2)) = rev (flat_map (accf c) a2) ++ x :: rev (flat_map (accf c) a1).
Proof.
  intros. rewrite flat_map_app. cbn [flat_map]. unfold accf at 2. cbn. rewrite Z.eqb_refl. cbn.
  rewrite rev_app_distr. cbn. rewrite <- app_assoc. reflexivity.
Qed.

Lemma fwd_batch : forall c post ms0 rest,
  m13_bad ms0 = false -> memZ c (m13_cdone ms0) = false ->
  NoDup (map sk (m13_sends ms0)) -> NoDup (map snd (m13_acc ms0)) ->
  (forall t c x, In (t, (c, x)) (m13_acc ms0) -> exists l, In (mkCS t c x l) (m13_sends ms0)) ->
  (forall a1 t c x a2, m13_acc ms0 = a1 ++ (t, (c, x)) :: a2 ->
     forall l l1 l2, m13_sends ms0 = l1 ++ mkCS t c x l :: l2 ->
     forall e, In e l2 -> cs_tid e = t -> In (t, (cs_c e, cs_m e)) (m13_acc ms0) -> In (t, (cs_c e, cs_m e)) a2) ->
  accs ms0 c = fwds ms0 c ++ post ++ rest ->
  let ms1 := fold_left m13_step (evs main (map (EFwd c) post)) ms0 in
  m13_bad ms1 = false /\ m13_fwd ms1 = rev (map (fun x => (c, x)) post) ++ m13_fwd ms0 /\
  m13_sends ms1 = m13_sends ms0 /\ m13_acc ms1 = m13_acc ms0 /\ m13_cbegun ms1 = m13_cbegun ms0 /\
  m13_cdone ms1 = m13_cdone ms0 /\ m13_late ms1 = m13_late ms0.
Proof.
  intros c post. induction post as [|x post IH]; intros ms0 rest Hb Hd Hns Hna Hsent Hord Heq; cbn zeta.
  - cbn. repeat split; auto.
  - cbn [map evs fold_left]. fold (evs main (map (EFwd c) post)).
    set (ms' := m13_step ms0 (main, EFwd c x)).
    assert (Nacc : NoDup (accs ms0 c)) by (rewrite accs_eq; apply NoDup_rev; apply nodup_fm_acc; exact Hna).
    assert (Hx : In x (accs ms0 c)) by (rewrite Heq; apply in_or_app; right; left; reflexivity).
    rewrite accs_eq, <- in_rev in Hx. apply in_fm_acc in Hx. destruct Hx as [s Hs].
    destruct (Hsent s c x Hs) as [l Hl]. apply in_split in Hl. destruct Hl as [l1 [l2 El]].
    apply in_split in Hs. destruct Hs as [a1 [a2 Ea]].
    assert (Heq' : accs ms0 c = fwds ms0 c ++ x :: (post ++ rest)) by (rewrite Heq; reflexivity).
    assert (Dup : mem_pair (c, x) (m13_fwd ms0) = false).
    { destruct (mem_pair (c, x) (m13_fwd ms0)) eqn:E; [|reflexivity]. exfalso. apply mem_pair_In in E.
      apply in_fm_fwd in E. rewrite in_rev in E. rewrite <- fwds_eq in E.
      rewrite Heq' in Nacc. apply NoDup_remove_2 in Nacc. apply Nacc. apply in_or_app. left. exact E. }
    assert (Pre : rev (flat_map (accf c) a2) = fwds ms0 c).
    { pose proof (accs_eq ms0 c) as A. rewrite Ea, fm_acc_split in A. rewrite A in Nacc, Heq'.
      destruct (nodup_split_unique _ _ _ _ _ _ Nacc Heq') as [X _]. exact X. }
    assert (Ord : match sends_before c x (m13_sends ms0) with
                  | None => true
                  | Some (s0, earlier) => negb (forallb (order_ok ms0 c s0) earlier)
                  end = false).
    { rewrite (sends_before_spec c x _ l1 (mkCS s c x l) l2 Hns El eq_refl). cbn [cs_tid].
      apply negb_false_iff. apply forallb_forall. intros e He. unfold order_ok.
      destruct (Nat.eqb_spec (cs_tid e) s) as [Et|]; [|reflexivity]. cbn [negb orb].
      destruct (Z.eqb_spec (cs_c e) c) as [Ec|]; [|reflexivity]. cbn [negb orb].
      destruct (mem_acc s (c, cs_m e) (m13_acc ms0)) eqn:Em; [|reflexivity]. cbn [negb orb].
      apply mem_acc_In in Em. apply mem_pair_In. apply in_fm_fwd. rewrite in_rev, <- fwds_eq, <- Pre, <- in_rev.
      apply in_fm_acc. exists s. rewrite <- Ec.
      apply (Hord a1 s c x a2 Ea l l1 l2 El e He Et). rewrite Ec. exact Em. }
    assert (F' : m13_bad ms' = false /\ m13_fwd ms' = (c, x) :: m13_fwd ms0 /\ m13_sends ms' = m13_sends ms0 /\
                 m13_acc ms' = m13_acc ms0 /\ m13_cbegun ms' = m13_cbegun ms0 /\ m13_cdone ms' = m13_cdone ms0 /\
                 m13_late ms' = m13_late ms0).
    { unfold ms'. rewrite m13_fwd_step. cbn [m13_bad m13_fwd m13_sends m13_acc m13_cbegun m13_cdone m13_late].
      rewrite Hb, Dup, Hd, Ord. repeat split; reflexivity. }
    destruct F' as [B1 [B2 [B3 [B4 [B5 [B6 B7]]]]]].
    destruct (IH ms' rest) as [C1 [C2 [C3 [C4 [C5 [C6 C7]]]]]].
    + exact B1.
    + rewrite B6. exact Hd.
    + rewrite B3. exact Hns.
    + rewrite B4. exact Hna.
    + intros t0 c0 x0. rewrite B3, B4. apply Hsent.
    + intros a1' t0 c0 x0 a2'. rewrite B3, B4. apply Hord.
    + rewrite accs_eq, B4, <- accs_eq, fwds_eq, B2. cbn [flat_map]. unfold fwdf at 1. cbn. rewrite Z.eqb_refl. cbn.
      rewrite <- fwds_eq, Heq, <- !app_assoc. reflexivity.
    + cbn zeta in *. split; [exact C1|]. split; [rewrite C2, B2; cbn [map rev]; rewrite <- app_assoc; reflexivity|].
      repeat split; congruence.
Qed.

(** the push of an accepted message: the monitor will see the acceptance at the end of this step *)
Lemma cr_push : forall st st' ms t c x,
  CRel PNone st ms -> tcur (thr st t) = Some (CSend c x) -> copen (chs st c) = true ->
  (forall u, tcur (thr st' u) = tcur (thr st u)) -> (forall u, u <> t -> thr st' u = thr st u) ->
  tcont (thr st' t) = [] -> tret (thr st' t) = RBool true ->
  (forall c0, copen (chs st' c0) = copen (chs st c0) /\ cexists (chs st' c0) = cexists (chs st c0) /\
              cq (chs st' c0) = if c0 =? c then cq (chs st c) ++ [x] else cq (chs st c0)) ->
  (forall c0, transit st' c0 = transit st c0) ->
  CRel (PAcc t c x) st' ms.
Proof.
  intros st st' ms t c x R Hu Ho Hcur Hoth Hk Hr Hch Htr.
  assert (Fl : forall c0, copen (chs st' c0) = copen (chs st c0) /\ cexists (chs st' c0) = cexists (chs st c0)).
  { intro c0. destruct (Hch c0) as [A [B _]]. auto. }
  constructor.
  - apply (r_bad _ st ms R).
  - intros c0. destruct (Hch c0) as [A [_ D]]. rewrite A, D, Htr. intro Ho0. pose proof (r_open _ st ms R c0 Ho0) as E.
    cbn [pendm] in *. rewrite app_nil_r in E. rewrite (Z.eqb_sym c c0). destruct (Z.eqb_spec c0 c) as [->|N].
    + rewrite E, <- !app_assoc. reflexivity.
    + rewrite app_nil_r. exact E.
  - intros c0. destruct (Fl c0) as [A B]. rewrite A, B. apply (r_done _ st ms R).
  - intros c0. destruct (Fl c0) as [A B]. rewrite A, B. apply (r_begun _ st ms R).
  - intros u c0 x0. destruct (Fl c0) as [_ B]. rewrite B. apply (r_ex_acc _ st ms R).
  - intros c0 x0. destruct (Fl c0) as [_ B]. rewrite B. apply (r_ex_fwd _ st ms R).
  - apply (r_acc_sent _ st ms R).
  - apply (r_acc_nd _ st ms R).
  - intros u l H. destruct (r_late_dom _ st ms R u l H) as [c0 X]. exists c0. rewrite Hcur. exact X.
  - apply (r_late_nd _ st ms R).
  - intros u c1 x1. rewrite Hcur. destruct (Fl c1) as [A B]. rewrite A, B. intro Hu1.
    destruct (r_send _ st ms R u c1 x1 Hu1) as [S1 [S2 S3]]. split; [exact S1|]. split; [exact S2|].
    destruct (Nat.eq_dec u t) as [->|Nu]; [intros _; congruence|].
    rewrite (Hoth u Nu). intro Ht. discriminate (S3 Ht).
  - intros u c1 x1 E. inversion E; subst u c1 x1. rewrite Hcur. destruct (Fl c) as [A _]. rewrite A. auto.
  - intros u c1. rewrite Hcur. destruct (Fl c1) as [A B]. rewrite A, B. intro Hu1.
    assert (Nu : u <> t) by (intro E; subst u; congruence). rewrite (Hoth u Nu). apply (r_closedcmd _ st ms R u c1 Hu1).
  - intros u c1. rewrite Hcur. destruct (Fl c1) as [A B]. rewrite A, B. intro Hu1.
    assert (Nu : u <> t) by (intro E; subst u; congruence). rewrite (Hoth u Nu).
    destruct (r_dropcmd _ st ms R u c1 Hu1) as [[D _]|[_ D]]; [discriminate D|]. right. split; [discriminate|exact D].
  - intros u c1 E. discriminate E.
  - apply (r_ord _ st ms R).
Qed.

Lemma fm_fwd_map : forall c c0 msgs, flat_map (fwdf c0) (map (fun x => (c, x)) msgs) = if c =? c0 then msgs else [].
Proof.
  intros c c0 msgs. induction msgs as [|x msgs IH]; [destruct (c =? c0); reflexivity|].
  cbn [map flat_map]. rewrite IH. unfold fwdf. cbn. destruct (c =? c0); reflexivity.
Qed.
Lemma flat_map_rev : forall A B (f : A -> list B) l, (forall a, length (f a) <= 1)%nat -> flat_map f (rev l) = rev (flat_map f l).
Proof.
  intros A B f l Hf. induction l as [|a l IH]; [reflexivity|]. cbn [rev flat_map]. rewrite flat_map_app, IH, rev_app_distr. cbn [flat_map].
  rewrite app_nil_r. f_equal. specialize (Hf a). destruct (f a) as [|b [|b' k]]; cbn in *; try reflexivity. lia.
Qed.
Lemma fm_fwd_batch : forall c c0 msgs,
  rev (flat_map (fwdf c0) (rev (map (fun x => (c, x)) msgs))) = if c =? c0 then msgs else [].
Proof.
  intros c c0 msgs. rewrite flat_map_rev, rev_involutive; [apply fm_fwd_map|].
  intros [a b]. unfold fwdf. cbn. destruct (a =? c0); cbn; lia.
Qed.

Lemma closed_head_unlock : forall st t m a r c, ShInv st -> tcont (thr st t) = IUnlock m a :: r ->
  tcur (thr st t) = Some (CClosed c) -> exists b, a = URet (RBool b).
Proof.
  intros st t m a r c S Hc Hu. destruct (sh_closed st S t c Hu) as [[_ [E|[E|[b E]]]]|[E _]]; rewrite Hc in E; try discriminate E.
  inversion E. eauto.
Qed.

Lemma closed_head_unlock_not : forall st t m a r, ShInv st -> tcont (thr st t) = IUnlock m a :: r ->
  (forall b, a <> URet (RBool b)) -> (forall c, tcur (thr st t) <> Some (CClosed c)) /\ True.
Proof.
  intros st t m a r S Hc Hn. split; [|exact Logic.I]. intros c Hu. destruct (closed_head_unlock st t m a r c S Hc Hu) as [b E]. exact (Hn b E).
Qed.

Lemma exec_uact_C : forall st ms t m a r st' ev,
  ShInv st -> ChInv st -> CRel PNone st ms -> tcont (thr st t) = IUnlock m a :: r ->
  NoDup (map sk (m13_sends ms)) ->
  exec_uact st t a r = (st', ev) ->
  exists p', CRel p' st' (fold_left m13_step (evs t ev) ms) /\ (p' = PNone \/ exists c x, p' = PAcc t c x).
Proof.
  intros st ms t m a r st' ev S C R Hc Nd H.
  assert (Hcc : forall a', a = a' -> (forall b, a' <> URet (RBool b)) -> forall c, tcur (thr st t) <> Some (CClosed c)).
  { intros a' -> Hn c Hu. destruct (closed_head_unlock st t m _ r c S Hc Hu) as [b E]. exact (Hn b E). }
  destruct a; cbn [exec_uact] in H; inversion H; subst; clear H.
  - pose proof (Hcc _ eq_refl ltac:(intros; discriminate)) as Hcc'. exists PNone. split; [|auto].
    crt st t (IUnlock m UNone) r (@nil instr).
  - (* URet *)
    exists PNone. split; [|auto]. cbn [evs map fold_left].
    apply (cr_frame_s st _ ms ms R (m13_same_refl ms)).
    + intro c0. reflexivity.
    + intros c0 Ho'. split; [exact Ho'|]. unfold transit. cbn -[Nat.eqb]. unfold updN, th.
      destruct (Nat.eqb_spec main t) as [E|E]; cbn; [|reflexivity]. subst t. rewrite Hc. reflexivity.
    + auto.
    + intros c0 E1 E2. cbn in E2. congruence.
    + thr_simpl.
    + intros u c1 x1 Hu1. cbn -[Nat.eqb]. unfold updN, th. destruct (Nat.eqb_spec u t) as [->|Nu]; rewrite ?Nat.eqb_refl; cbn; [|auto].
      intro Ev. exfalso.
      destruct (sh_send st S t c1 x1 Hu1) as [[T [E|Sh]]|[E _]]; try (rewrite Hc in E; discriminate).
      rewrite Hc in Sh. destruct (send_head _ _ _ _ Sh) as [[k E]|[[E _]|[[E _]|[E _]]]]; try discriminate E.
      inversion E; congruence.
    + intros u c1 b1 Hu1. cbn -[Nat.eqb]. unfold updN, th. destruct (Nat.eqb_spec u t) as [->|Nu]; rewrite ?Nat.eqb_refl; cbn; [|auto].
      intro Ev. right. exists m. rewrite Hc. left. rewrite Ev. reflexivity.
    + intros u m0 c1 Hu1 Hin. left. exists m0. cbn -[Nat.eqb]. unfold updN, th. destruct (Nat.eqb_spec u t) as [->|Nu]; rewrite ?Nat.eqb_refl; cbn; [|exact Hin].
      rewrite Hc in Hin. destruct Hin as [Hin|Hin]; [discriminate Hin|exact Hin].
    + intros u c1 m0 b1 Hu1 Hin. left. exists m0. revert Hin. cbn -[Nat.eqb]. unfold updN, th.
      destruct (Nat.eqb_spec u t) as [->|Nu]; rewrite ?Nat.eqb_refl; cbn; [|auto]. intro Hin. rewrite Hc. right. exact Hin.
  - pose proof (Hcc _ eq_refl ltac:(intros; discriminate)) as Hcc'. exists PNone. split; [|auto].
    crt st t (IUnlock m (UDels l)) r [IDels l].
  - pose proof (Hcc _ eq_refl ltac:(intros; discriminate)) as Hcc'. exists PNone. split; [|auto].
    crt st t (IUnlock m (UChReg c)) r (@nil instr).
  - (* UChPush *)
    assert (Hu : tcur (thr st t) = Some (CSend c m0)) by (apply (sh_own_push st S t m c m0); rewrite Hc; left; reflexivity).
    assert (Hr : r = []).
    { destruct (sh_send st S t c m0 Hu) as [[T [E|Sh]]|[E _]]; try (rewrite Hc in E; discriminate).
      rewrite Hc in Sh. destruct (send_head _ _ _ _ Sh) as [[k E]|[[E _]|[[E E']|[E _]]]]; try discriminate E. exact E'. }
    subst r.
    assert (Hm : m = MCh c) by (apply (ch_wf st C t (IUnlock m (UChPush c m0))); rewrite Hc; left; reflexivity). subst m.
    destruct (ch_push st C t c m0) as [Op _]; [rewrite Hc; left; reflexivity|].
    exists (PAcc t c m0). split; [|right; eauto]. cbn [evs map fold_left].
    apply (cr_push st _ ms t c m0 R Hu Op).
    + thr_simpl.
    + thr_simpl.
    + thr_simpl.
    + thr_simpl.
    + intro c0. cbn. unfold updZ. destruct (Z.eqb_spec c0 c); subst; cbn; auto.
    + intro c0. unfold transit. cbn -[Nat.eqb]. unfold updN, th. destruct (Nat.eqb_spec main t) as [E|E]; cbn; [|reflexivity].
      subst t. rewrite Hc. reflexivity.
  - (* UChClear *)
    pose proof (Hcc _ eq_refl ltac:(intros; discriminate)) as Hcc'. exists PNone. split; [|auto].
    destruct (sh_clear st S t m c) as [Cl _]; [rewrite Hc; left; reflexivity|].
    cbn [evs map fold_left].
    apply (cr_frame_s st _ ms ms R (m13_same_refl ms)).
    + intro c0. cbn. unfold updZ. destruct (Z.eqb_spec c0 c); subst; reflexivity.
    + intros c0. cbn. unfold updZ. destruct (Z.eqb_spec c0 c) as [->|N]; cbn; [congruence|].
      intro Ho'. split; [exact Ho'|]. unfold transit. cbn -[Nat.eqb]. unfold updN, th.
      destruct (Nat.eqb_spec main t) as [E|E]; cbn; [|reflexivity]. subst t. rewrite Hc. reflexivity.
    + intros c0. cbn. unfold updZ. destruct (Z.eqb_spec c0 c); subst; cbn; auto.
    + intros c0 E1. cbn. unfold updZ. destruct (Z.eqb_spec c0 c); subst; cbn; congruence.
    + thr_simpl.
    + intros u c1 x1 _. thr_impl.
    + intros u c1 b1 _. thr_impl.
    + intros u m0 c1 Hu1 Hin. left. exists m0. cbn -[Nat.eqb]. unfold updN, th. destruct (Nat.eqb_spec u t) as [->|Nu]; rewrite ?Nat.eqb_refl; cbn; [|exact Hin].
      rewrite Hc in Hin. destruct Hin as [Hin|Hin]; [discriminate Hin|exact Hin].
    + intros u c1 m0 b1 Hu1 Hin. left. exists m0. revert Hin. cbn -[Nat.eqb]. unfold updN, th.
      destruct (Nat.eqb_spec u t) as [->|Nu]; rewrite ?Nat.eqb_refl; cbn; [|auto]. intro Hin. rewrite Hc. right. exact Hin.
  - (* UFwd: the handler hands the taken messages to the Fwd *)
    exists PNone. split; [|auto].
    assert (Tr0 : forall c0, flat_map (ufwd_of c0) r = []) by (intro c0; apply (sh_ufwd_head st S t _ r c0 Hc)).
    destruct msgs as [|x0 msgs0].
    + (* nothing taken *)
      destruct (closed_head_unlock_not st t m (UFwd c []) r S Hc ltac:(intros; discriminate)) as [Hcc' _].
      apply (cr_triv st _ _ t [IUnlock m (UFwd c [])] r (@nil instr));
        [assumption|thr_simpl|thr_simpl|thr_simpl|eassumption|thr_simpl|cr_chs|intros e []|
         intros j [<-|[]]; split; [intro c0; cbn; destruct (c =? c0); reflexivity|intros; discriminate]|intros j []|].
      intros c1 m1 b1 Hu1 []. 
    + assert (Tm : t = main).
      { destruct (Nat.eq_dec t main) as [E|N]; [exact E|]. exfalso. pose proof (sh_ufwd_main st S t c N) as X.
        rewrite Hc in X. cbn in X. rewrite Z.eqb_refl in X. discriminate X. }
      subst t. set (msgs := x0 :: msgs0) in *.
      assert (Op : copen (chs st c) = true) by (apply (sh_ufwd_open st S main m c msgs); [rewrite Hc; left; reflexivity|discriminate]).
      assert (Nd0 : memZ c (m13_cdone ms) = false).
      { destruct (memZ c (m13_cdone ms)) eqn:E; [|reflexivity]. destruct (r_done _ st ms R c E) as [X _]. congruence. }
      assert (Trc : transit st c = msgs) by (unfold transit; rewrite Hc; cbn; rewrite Z.eqb_refl, (Tr0 c), app_nil_r; reflexivity).
      pose proof (r_open _ st ms R c Op) as Eo. cbn [pendm] in Eo. rewrite app_nil_r, Trc in Eo.
      destruct (fwd_batch c msgs ms (cq (chs st c)) (r_bad _ st ms R) Nd0 Nd (r_acc_nd _ st ms R) (r_acc_sent _ st ms R) (r_ord _ st ms R) Eo)
        as [C1 [C2 [C3 [C4 [C5 [C6 C7]]]]]].
      cbn zeta in *. set (ms1 := fold_left m13_step (evs main (map (EFwd c) msgs)) ms) in *.
      destruct (closed_head_unlock_not st main m (UFwd c msgs) r S Hc ltac:(intros; discriminate)) as [Hcc' _].
      assert (Fw : forall c0, fwds ms1 c0 = fwds ms c0 ++ (if c =? c0 then msgs else [])).
      { intro c0. rewrite !fwds_eq, C2, flat_map_app, rev_app_distr, fm_fwd_batch. reflexivity. }
      assert (Tr' : forall c0, transit (set_cont st main r) c0 = []).
      { intro c0. unfold transit. cbn. unfold updN, th. cbn. apply Tr0. }
      assert (Tr1 : forall c0, transit st c0 = if c =? c0 then msgs else []).
      { intro c0. unfold transit. rewrite Hc. cbn. rewrite (Tr0 c0), app_nil_r. reflexivity. }
      apply (cr_frame st (set_cont st main r) ms ms1 R C3 C4 C5 C6 C7 C1).
      * intro c0. reflexivity.
      * intros c0 Ho'. split; [exact Ho'|]. rewrite Fw, Tr', Tr1. cbn [app]. rewrite <- app_assoc. reflexivity.
      * intros c0 y Hin. rewrite C2 in Hin. apply in_app_or in Hin. destruct Hin as [Hin|Hin]; [|apply (r_ex_fwd _ st ms R c0 y Hin)].
        rewrite <- in_rev in Hin. apply in_map_iff in Hin. destruct Hin as [z [E _]]. inversion E; subst.
        apply (sh_ex st S c0). auto.
      * auto.
      * intros c0 E1 E2. cbn in E2. congruence.
      * thr_simpl.
      * intros u c1 x1 _. thr_impl.
      * intros u c1 b1 _. thr_impl.
      * intros u m0 c1 Hu1 Hin. left. exists m0. cbn -[Nat.eqb]. unfold updN, th. destruct (Nat.eqb_spec u main) as [->|Nu]; cbn; [|exact Hin].
        rewrite Hc in Hin. destruct Hin as [Hin|Hin]; [discriminate Hin|exact Hin].
      * intros u c1 m0 b1 Hu1 Hin. left. exists m0. revert Hin. cbn -[Nat.eqb]. unfold updN, th.
        destruct (Nat.eqb_spec u main) as [->|Nu]; cbn; [|auto]. intro Hin. rewrite Hc. right. exact Hin.
  - pose proof (Hcc _ eq_refl ltac:(intros; discriminate)) as Hcc'. exists PNone. split; [|auto].
    apply (cr_triv st _ _ t [IUnlock m (UPqFwd p msgs term)] r (@nil instr));
      [assumption|thr_simpl|thr_simpl|thr_simpl|eassumption|thr_simpl|cr_chs| |cr_new|intros j []|].
    + intros e He. apply in_app_or in He. destruct He as [He|He].
      * apply in_map_iff in He. destruct He as [z [<- _]]. exact Logic.I.
      * destruct term; [destruct He as [<-|[]]; exact Logic.I|destruct He].
    + intros c1 m1 b1 Hu1 [].
Qed.

(** a state change outside of what the relation reads *)
Lemma cr_steq : forall p st st' m,
  chs st' = chs st ->
  (forall u, tcur (thr st' u) = tcur (thr st u) /\ tcont (thr st' u) = tcont (thr st u) /\
             (tcur (thr st u) <> None -> tret (thr st' u) = tret (thr st u))) ->
  CRel p st m -> CRel p st' m.
Proof.
  intros p st st' m Hch Hf R.
  assert (Cu : forall u, tcur (thr st' u) = tcur (thr st u)) by (intro u; apply Hf).
  assert (Co : forall u, tcont (thr st' u) = tcont (thr st u)) by (intro u; apply Hf).
  assert (Re : forall u c, tcur (thr st u) = Some c -> tret (thr st' u) = tret (thr st u)) by (intros u c E; apply Hf; congruence).
  assert (Tr : forall c, transit st' c = transit st c) by (intro c; unfold transit; rewrite Co; reflexivity).
  constructor; intros; rewrite ?Hch, ?Tr, ?Cu, ?Co in *.
  - apply (r_bad p st m R).
  - apply (r_open p st m R); auto.
  - apply (r_done p st m R); auto.
  - apply (r_begun p st m R); auto.
  - eapply (r_ex_acc p st m R); eauto.
  - eapply (r_ex_fwd p st m R); eauto.
  - eapply (r_acc_sent p st m R); eauto.
  - apply (r_acc_nd p st m R).
  - eapply (r_late_dom p st m R); eauto.
  - apply (r_late_nd p st m R).
  - rewrite (Re _ _ H). eapply (r_send p st m R); eauto.
  - destruct (r_pacc p st m R t c x H) as [A [B [C D]]]. rewrite (Re _ _ A). auto.
  - rewrite (Re _ _ H). eapply (r_closedcmd p st m R); eauto.
  - eapply (r_dropcmd p st m R); eauto.
  - eapply (r_pbad p st m R); eauto.
  - eapply (r_ord p st m R); eauto.
Qed.

(** threads that have not been spawned have no command *)
Definition UInv (st : wstate) : Prop := forall u, (nthr st <= u)%nat -> tcur (thr st u) = None.

Theorem wstep_U : forall st t st' ev, MInv st -> UInv st -> wstep st t = (st', ev) -> UInv st'.
Proof.
  intros st t st' ev [I [P Wf]] U H. unfold wstep in H.
  destruct (enabled st t) eqn:En; cbn [negb] in H; [|inversion H; subst; exact U].
  assert (Ht : (t < nthr st)%nat).
  { unfold enabled in En. apply andb_true_iff in En. destruct En as [En _]. apply Nat.ltb_lt in En. exact En. }
  assert (Pt : pristine (tick st t)) by (unfold tick; prist st t).
  assert (Ut : UInv (tick st t)).
  { intros u Hu. unfold tick. cbn -[Nat.eqb]. unfold updN, th. destruct (Nat.eqb_spec u t); [cbn in Hu; lia|]. apply U. exact Hu. }
  assert (Htt : (t < nthr (tick st t))%nat) by exact Ht.
  set (s0 := tick st t) in *. clearbody s0. clear En.
  assert (Fin : forall s ev0 done, (nthr st' = nthr s -> True) -> (forall u, (nthr s <= u)%nat -> tcur (thr s u) = None) -> (t < nthr s)%nat ->
                                   settle s t ev0 done = (st', ev) -> UInv st').
  { intros s ev0 done _ Us Hts Hs. destruct (settle_Y _ _ _ _ _ _ Hs) as [_ B]. intros u Hu.
    assert (Hn : nthr st' = nthr s).
    { clear - Hs. unfold settle in Hs.
      destruct (norm _ _ _ _ _) as [[[s1 acc1] k1] ev1]. cbn zeta in Hs.
      match type of Hs with (let '(st2, ev2) := ?E in _) = _ => destruct E as [st2 ev2] eqn:E2 end.
      assert (N2 : nthr st2 = nthr s).
      { destruct done; [inversion E2; reflexivity|]. destruct k1; [|inversion E2; reflexivity].
        destruct (tcur _) as [c|]; inversion E2; [destruct c|]; reflexivity. }
      destruct (tcont (th st2 t)); [|inversion Hs; subst; exact N2].
      destruct (tscript (th st2 t)); [|inversion Hs; subst; exact N2].
      destruct (tcur (th st2 t)); [inversion Hs; subst; exact N2|].
      destruct (tfinal (th st2 t)); inversion Hs; subst; exact N2. }
    rewrite Hn in Hu. rewrite (B u) by lia. apply Us. exact Hu. }
  destruct (tstarted (th s0 t)) eqn:Es0; cbn [negb] in H.
  - destruct (tcont (th s0 t)) as [|i r] eqn:Ec.
    + destruct (tscript (th s0 t)) as [|c0 cs] eqn:Es; [inversion H; subst; exact U|].
      match type of H with context [begin_cmd ?S0 t ?cc] =>
        destruct (begin_cmd S0 t cc) as [[st2 ev0] done] eqn:Eb; set (s1 := S0) in * end.
      assert (P1 : pristine s1) by (unfold s1; prist s0 t).
      destruct (begin_cmd_sum s1 t c0 st2 ev0 done P1 Htt Eb) as [_ [_ [Ho [Hn _]]]].
      change (nthr s1) with (nthr s0) in *.
      apply (Fin st2 (ECmd c0 :: ev0) done); auto.
      * intros u Hu. destruct Hn as [Hn|[Hn [Hn1 _]]].
        -- rewrite Hn in Hu. rewrite (Ho u) by (try lia; right; exact Hn). unfold s1. cbn -[Nat.eqb]. unfold updN, th.
           destruct (Nat.eqb_spec u t); [lia|]. apply Ut. exact Hu.
        -- rewrite Hn in Hu. rewrite (Ho u) by (try lia; left; lia). unfold s1. cbn -[Nat.eqb]. unfold updN, th.
           destruct (Nat.eqb_spec u t); [lia|]. apply Ut. lia.
      * destruct Hn as [Hn|[Hn _]]; lia.
    + destruct (exec_instr s0 t i r) as [st1 ev1] eqn:Ee.
      destruct (exec_instr_tf _ _ _ _ _ _ Ee) as [Hn [Hf _]].
      apply (Fin st1 ev1 None); auto; [|lia]. intros u Hu. destruct (Hf u) as [A _]. rewrite A. apply Ut. lia.
  - apply (Fin (upd_th s0 t (set_tstarted (th s0 t) true)) [EStart] None); auto.
    intros u Hu. cbn -[Nat.eqb]. unfold updN, th. destruct (Nat.eqb_spec u t); [cbn in Hu; lia|]. apply Ut. exact Hu.
Qed.

Lemma U_init : forall scr, UInv (winit scr).
Proof. intros scr u Hu. reflexivity. Qed.

Lemma wrun_U : forall sched st, MInv st -> UInv st -> UInv (fst (wrun st sched)).
Proof.
  induction sched as [|t rest IH]; intros st M X; cbn [wrun]; auto.
  destruct (wstep st t) as [st1 ev] eqn:E.
  specialize (IH st1 (wstep_inv _ _ _ _ M E) (wstep_U _ _ _ _ M X E)).
  destruct (wrun st1 rest) as [st2 tr]. exact IH.
Qed.

Lemma cr_spawn : forall p s m t p0 f, CRel p s m -> pristine s -> UInv s -> CRel p (spawn_thread s t p0 f) m.
Proof.
  intros p s m t p0 f R [P0 P] U. apply (cr_steq p s); [reflexivity| |exact R].
  intro u. cbn. unfold updN, th. destruct (Nat.eqb_spec u (nthr s)) as [->|N]; cbn; [|auto].
  rewrite (U (nthr s) (le_n _)). destruct (P (nthr s) (le_n _)) as [E _]. rewrite E. split; [reflexivity|]. split; [reflexivity|congruence].
Qed.

Lemma not_closed_head : forall st t i r, ShInv st -> tcont (thr st t) = i :: r ->
  (forall m a, i <> ILock m a) -> (forall m a, i <> IUnlock m a) -> forall c, tcur (thr st t) <> Some (CClosed c).
Proof.
  intros st t i r S Hc H1 H2 c Hu. destruct (sh_closed st S t c Hu) as [[_ [E|[E|[b E]]]]|[E _]]; rewrite Hc in E; try discriminate E.
  - inversion E. eapply H1; eauto.
  - inversion E. eapply H2; eauto.
Qed.

Lemma exec_instr_C : forall st ms t i r st' ev,
  ShInv st -> ChInv st -> CRel PNone st ms -> NoDup (map sk (m13_sends ms)) ->
  tcont (thr st t) = i :: r -> exec_instr st t i r = (st', ev) ->
  exists p', CRel p' st' (fold_left m13_step (evs t ev) ms) /\ (p' = PNone \/ exists c x, p' = PAcc t c x).
Proof.
  intros st ms t i r st' ev S C R Nd Hc H.
  destruct i; cbn [exec_instr] in H.
  - (* climb *)
    pose proof (not_closed_head st t _ r S Hc ltac:(intros; discriminate) ltac:(intros; discriminate)) as Hcc'.
    exists PNone. split; [|auto].
    destruct k; cbn [exec_climb] in H; inversion H; subst; clear H.
    + destruct (bitmap_join a b (bmbase st bm)) as [x|]; [destruct (slab_get (sl st) x)|];
        (destruct (leaf st bm a =? 0);
         [crt st t (IClimb (KLeaf bm a b who)) r [IClimb (KSum bm a)]|crt st t (IClimb (KLeaf bm a b who)) r (@nil instr)]).
    + destruct (summ st bm =? 0); [crt st t (IClimb (KSum bm a)) r [IClimb (KTop bm)]|crt st t (IClimb (KSum bm a)) r (@nil instr)].
    + destruct (top st =? 0); [crt st t (IClimb (KTop bm)) r [IClimb KCb]|crt st t (IClimb (KTop bm)) r (@nil instr)].
    + crt st t (IClimb KCb) r (@nil instr).
  - pose proof (not_closed_head st t _ r S Hc ltac:(intros; discriminate) ltac:(intros; discriminate)) as Hcc'.
    exists PNone. split; [|auto]. inversion H; subst; clear H.
    crt st t ITopSwap r [IBms (flat_map (bms_of_slot st) (bits_of (top st)))].
  - pose proof (not_closed_head st t _ r S Hc ltac:(intros; discriminate) ltac:(intros; discriminate)) as Hcc'.
    exists PNone. split; [|auto].
    destruct bms; inversion H; subst; clear H; [eapply cr_msame; [exact R|apply m13_plain_fold; cr_pl]|].
    crt st t (IBms (z :: bms)) r [ILeaves z (bits_of (summ st z)); IBms bms].
  - pose proof (not_closed_head st t _ r S Hc ltac:(intros; discriminate) ltac:(intros; discriminate)) as Hcc'.
    exists PNone. split; [|auto].
    destruct ls; [inversion H; subst; eapply cr_msame; [exact R|apply m13_plain_fold; cr_pl]|].
    destruct (collect (bmbase st bm) z (leaf st bm z)) as [bits ok].
    match type of H with context [ghost_collect ?S0 bits] =>
      destruct (ghost_collect_sl bits S0) as [_ [_ [_ [_ [_ [A6 [_ A8]]]]]]]; remember (ghost_collect S0 bits) as s3 eqn:Es3 end.
    cbn zeta in *. inversion H; subst st' ev; clear H.
    match goal with |- CRel _ ?S' _ => set (st' := S') end.
    assert (Hth : forall u, tcont (thr st' u) = (if Nat.eqb u t then [ILeaves bm ls] ++ r else tcont (thr st u)) /\
                            tcur (thr st' u) = tcur (thr st u) /\ tret (thr st' u) = tret (thr st u)).
    { intro u. unfold st'. cbn -[Nat.eqb]. unfold updN, th. rewrite A8. cbn -[Nat.eqb]. unfold updN, th.
      destruct (Nat.eqb_spec u t); subst; rewrite ?Nat.eqb_refl; cbn; repeat split; reflexivity. }
    apply (cr_triv st st' _ t [ILeaves bm (z :: ls)] r [ILeaves bm ls]); auto.
    + intro u. apply Hth.
    + intros u _. apply Hth.
    + intros u Hu. destruct (Hth u) as [A _]. rewrite A. destruct (Nat.eqb_spec u t); [congruence|reflexivity].
    + destruct (Hth t) as [A _]. rewrite A, Nat.eqb_refl. reflexivity.
    + intro c0. unfold st'. cbn. rewrite A6. cbn. repeat split; reflexivity.
    + destruct ok; cr_pl.
    + cr_new.
    + cr_new.
    + intros c1 m1 b1 Hu1 _. exfalso. exact (Hcc' _ Hu1).
  - exists PNone. split; [|auto]. inversion H; subst. eapply cr_msame; [exact R|apply m13_plain_fold; cr_pl].
  - exists PNone. split; [|auto]. inversion H; subst. eapply cr_msame; [exact R|apply m13_plain_fold; cr_pl].
  - exists PNone. split; [|auto]. inversion H; subst. eapply cr_msame; [exact R|apply m13_plain_fold; cr_pl].
  - (* lock *)
    match type of H with context [exec_lact ?S0 t ?aa ?rr] => destruct (exec_lact S0 t aa rr) as [s2 e2] eqn:E; set (s1 := S0) in * end.
    inversion H; subst; clear H. exists PNone. split; [|auto].
    change (evs t (ELock m :: e2)) with ((t, ELock m) :: evs t e2). cbn [fold_left].
    assert (S1 : ShInv s1) by (unfold s1; sh_eq st).
    assert (R1 : CRel PNone s1 (m13_step ms (t, ELock m))).
    { apply (cr_msame _ _ ms); [|apply m13_plain_step; exact Logic.I]. apply (cr_steq _ st); auto. intro u. unfold s1. split; [thr_simpl|split; [thr_simpl|intros _; thr_simpl]]. }
    apply (exec_lact_C s1 _ t m a r st' e2 S1 R1); [unfold s1; thr_simpl|exact E].
  - (* unlock *)
    destruct (exec_uact st t a r) as [s1 e1] eqn:E. inversion H; subst; clear H.
    change (evs t (EUnlock m :: e1)) with ((t, EUnlock m) :: evs t e1). cbn [fold_left].
    assert (R0 : CRel PNone st (m13_step ms (t, EUnlock m))) by (apply (cr_msame _ _ ms); [exact R|apply m13_plain_step; exact Logic.I]).
    destruct (exec_uact_C st _ t m a r s1 e1 S C R0 Hc) as [p' [R1 Hp]]; [exact Nd|exact E|].
    exists p'. split; [|exact Hp]. apply (cr_steq _ s1); auto.
  - pose proof (not_closed_head st t _ r S Hc ltac:(intros; discriminate) ltac:(intros; discriminate)) as Hcc'.
    exists PNone. split; [|auto]. inversion H; subst; clear H. crt st t (ICvWait p) r (@nil instr).
  - match type of H with context [exec_lact ?S0 t ?aa ?rr] => destruct (exec_lact S0 t aa rr) as [s2 e2] eqn:E; set (s1 := S0) in * end.
    inversion H; subst; clear H. exists PNone. split; [|auto].
    change (evs t (ECvWake p :: e2)) with ((t, ECvWake p) :: evs t e2). cbn [fold_left].
    assert (S1 : ShInv s1) by (unfold s1; sh_eq st).
    assert (R1 : CRel PNone s1 (m13_step ms (t, ECvWake p))).
    { apply (cr_msame _ _ ms); [|apply m13_plain_step; exact Logic.I]. apply (cr_steq _ st); auto. intro u. unfold s1. split; [thr_simpl|split; [thr_simpl|intros _; thr_simpl]]. }
    assert (Hc1 : tcont (thr s1 t) = ICvReacq p :: r) by (unfold s1; thr_simpl; exact Hc).
    pose proof (not_closed_head s1 t _ r S1 Hc1 ltac:(intros; discriminate) ltac:(intros; discriminate)) as Hcc'.
    clear - R1 Hc1 E Hcc'. cbn [exec_lact] in E. destr_all E; inversion E; subst; clear E.
    + crt s1 t (ICvReacq p) r [IUnlock (MPq p) (URet RNoneV)].
    + crt s1 t (ICvReacq p) r [ICvWait p; ICvReacq p].
    + crt s1 t (ICvReacq p) r [IUnlock (MPq p) (URet (RVal z))].
  - pose proof (not_closed_head st t _ r S Hc ltac:(intros; discriminate) ltac:(intros; discriminate)) as Hcc'.
    exists PNone. split; [|auto].
    inversion H; subst st' ev; clear H.
    match goal with |- CRel _ (set_cont (fold_left ?f ?us st) t r) _ =>
      destruct (notify_fold_fields us st) as [_ B]; pose proof (notify_fold_chs us st) as Bc;
      assert (D : forall u, tret (thr (fold_left f us st) u) = tret (thr st u));
      [clear; generalize us; intro us0; revert st; induction us0 as [|v us0 IH]; intro st; [intro; reflexivity|];
       cbn [fold_left]; intro u; rewrite IH; cbn; unfold updN, th; destruct (Nat.eqb_spec u v); subst; reflexivity|];
      set (s1 := fold_left f us st) in * end.
    cbn zeta in *.
    assert (R1 : CRel PNone s1 ms).
    { apply (cr_steq _ st); auto. intro u. destruct (B u) as [X1 [_ [_ [_ [_ X6]]]]]. split; [exact X1|split; [exact X6|intros _; apply D]]. }
    assert (Hc1 : tcont (thr s1 t) = INotify p :: r) by (destruct (B t) as [_ [_ [_ [_ [_ X6]]]]]; rewrite X6; exact Hc).
    assert (Hcc1 : forall c, tcur (thr s1 t) <> Some (CClosed c)) by (intro c; destruct (B t) as [X1 _]; rewrite X1; apply Hcc').
    clear Hcc'. crt s1 t (INotify p) r (@nil instr).
  - pose proof (not_closed_head st t _ r S Hc ltac:(intros; discriminate) ltac:(intros; discriminate)) as Hcc'.
    exists PNone. split; [|auto]. unfold ghost_handler in H. inversion H; subst; clear H.
    destruct del; [crt st t (IYieldH h true) r (@nil instr)|crt st t (IYieldH h false) r (@nil instr)].
  - pose proof (not_closed_head st t _ r S Hc ltac:(intros; discriminate) ltac:(intros; discriminate)) as Hcc'.
    exists PNone. split; [|auto]. inversion H; subst; clear H. crt st t IJoin r (@nil instr).
  - pose proof (not_closed_head st t _ r S Hc ltac:(intros; discriminate) ltac:(intros; discriminate)) as Hcc'.
    exists PNone. split; [|auto]. inversion H; subst; clear H. crt st t IIdle r (@nil instr).
Qed.

(** ** the start of a command: the monitor sees [ECmd c] *)
Lemma nodup_key_eq : forall l e e', NoDup (map sk l) -> In e l -> In e' l -> sk e = sk e' -> e = e'.
Proof.
  induction l as [|a l IH]; intros e e' Hn He He' Hk; [destruct He|]. cbn in Hn. inversion Hn as [|? ? Hni Hn']; subst.
  destruct He as [->|He], He' as [->|He']; auto.
  - exfalso. apply Hni. rewrite Hk. apply in_map. exact He'.
  - exfalso. apply Hni. rewrite <- Hk. apply in_map. exact He.
Qed.

Lemma get_tid_app_other : forall A u (ex l : list (tid * A)), (forall e, In e ex -> fst e <> u) -> get_tid u (ex ++ l) = get_tid u l.
Proof.
  induction ex as [|[v x] ex IH]; intros l H; [reflexivity|]. cbn. destruct (Nat.eqb_spec v u) as [E|E].
  - exfalso. apply (H (v, x)); [left; reflexivity|exact E].
  - apply IH. intros e He. apply H. right. exact He.
Qed.

Section CInstall.
  Variables (s0 s1 : wstate) (m m' : m13) (t : tid) (c : cmd) (p' : pend).
  Variables (ex_s : list csend) (ex_l : list (tid * bool)).
  Hypothesis R : CRel PNone s0 m.
  Hypothesis Hcur0 : tcur (thr s0 t) = None.
  Hypothesis Ho : forall u, u <> t -> thr s1 u = thr s0 u.
  Hypothesis Ht : tcur (thr s1 t) = Some c /\ tret (thr s1 t) = RUnit /\ tcont (thr s1 t) = tcont (thr s0 t).
  Hypothesis Hch : chs s1 = chs s0.
  Hypothesis M1 : m13_sends m' = ex_s ++ m13_sends m.
  Hypothesis M2 : m13_acc m' = m13_acc m.
  Hypothesis M3 : m13_fwd m' = m13_fwd m.
  Hypothesis M5 : m13_cdone m' = m13_cdone m.
  Hypothesis M6 : m13_late m' = ex_l ++ m13_late m.
  Hypothesis M7 : m13_bad m' = m13_bad m.
  Hypothesis Hbg : begun_of p' m' = m13_cbegun m.
  Hypothesis Hexs : forall s, In s ex_s -> cs_tid s = t.
  Hypothesis Hexl : forall e, In e ex_l -> fst e = t.
  Hypothesis Nd : NoDup (map sk (m13_sends m')).
  Hypothesis Hp : p' = PNone \/ exists c0, p' = PBadDrop t c0.
  (* the clauses about the new command of [t] *)
  Hypothesis Hlate : forall l, get_tid t (m13_late m') = Some l ->
                     exists c0, (exists x, c = CSend c0 x) \/ c = CClosed c0.
  Hypothesis Hlnd : NoDup (map fst (m13_late m')).
  Hypothesis Hsend : forall c0 x, c = CSend c0 x ->
     exists l, ex_s = [mkCS t c0 x l] /\ get_tid t (m13_late m') = Some l /\
               (l = true -> copen (chs s0 c0) = false /\ cexists (chs s0 c0) = true).
  Hypothesis Hclosed : forall c0, c = CClosed c0 ->
     exists l, get_tid t (m13_late m') = Some l /\ (l = true -> copen (chs s0 c0) = false /\ cexists (chs s0 c0) = true).
  Hypothesis Hdrop : forall c0, c = CCDrop c0 -> p' = PBadDrop t c0 /\ exists old, m13_cbegun m' = c0 :: old.
  Hypothesis Hnodrop : forall c0, p' = PBadDrop t c0 -> c = CCDrop c0.
  Hypothesis Hk : tcont (thr s0 t) = [].

  Lemma cr_install_gen : CRel p' s1 m'.
  Proof.
    assert (Cu : forall u, u <> t -> tcur (thr s1 u) = tcur (thr s0 u)) by (intros u Hu; rewrite (Ho u Hu); reflexivity).
    assert (Tr : forall c0, transit s1 c0 = transit s0 c0).
    { intro c0. unfold transit. destruct (Nat.eq_dec main t) as [E|E]; [rewrite E; destruct Ht as [_ [_ K]]; rewrite K; reflexivity|rewrite (Ho main E); reflexivity]. }
    assert (Ac : forall c0, accs m' c0 = accs m c0) by (intro c0; unfold accs; rewrite M2; reflexivity).
    assert (Fc : forall c0, fwds m' c0 = fwds m c0) by (intro c0; unfold fwds; rewrite M3; reflexivity).
    assert (Pm : forall c0, pendm p' c0 = []) by (intro c0; destruct Hp as [->|[c1 ->]]; reflexivity).
    assert (Glate : forall u, u <> t -> get_tid u (m13_late m') = get_tid u (m13_late m)).
    { intros u Hu. rewrite M6. apply get_tid_app_other. intros e He. rewrite (Hexl e He). auto. }
    assert (NotAcc : forall c0 x, c = CSend c0 x -> ~ In (t, (c0, x)) (m13_acc m)).
    { intros c0 x Ec Hin. destruct (Hsend c0 x Ec) as [l [Es _]]. destruct (r_acc_sent _ s0 m R t c0 x Hin) as [l' Hl'].
      rewrite M1, Es in Nd. cbn in Nd. inversion Nd as [|? ? Hni _]. apply Hni. change (sk (mkCS t c0 x l)) with (sk (mkCS t c0 x l')). apply in_map. exact Hl'. }
    constructor.
    - rewrite M7. apply (r_bad _ s0 m R).
    - intros c0. rewrite Hch, Ac, Fc, Tr, Pm. intro Ho0. pose proof (r_open _ s0 m R c0 Ho0) as E. cbn [pendm] in E. exact E.
    - intros c0. rewrite M5, Hch. apply (r_done _ s0 m R).
    - intros c0. rewrite Hch, Hbg. apply (r_begun _ s0 m R).
    - intros u c0 x. rewrite M2, Hch. apply (r_ex_acc _ s0 m R).
    - intros c0 x. rewrite M3, Hch. apply (r_ex_fwd _ s0 m R).
    - intros u c0 x. rewrite M2, M1. intro H. destruct (r_acc_sent _ s0 m R u c0 x H) as [l Hl]. exists l. apply in_or_app. auto.
    - rewrite M2. apply (r_acc_nd _ s0 m R).
    - intros u l Hl. destruct (Nat.eq_dec u t) as [->|Hu].
      + destruct (Hlate l Hl) as [c0 [[x E]|E]]; exists c0; destruct Ht as [K _]; rewrite K, E; eauto.
      + rewrite (Glate u Hu) in Hl. destruct (r_late_dom _ s0 m R u l Hl) as [c0 X]. exists c0. rewrite (Cu u Hu). exact X.
    - exact Hlnd.
    - intros u c0 x Hu. rewrite Hch, M2. destruct (Nat.eq_dec u t) as [->|Nu].
      + destruct Ht as [K [K2 _]]. rewrite K in Hu. inversion Hu as [Ec].
        destruct (Hsend c0 x Ec) as [l [Es [El Ed]]]. split; [|split; [apply NotAcc; exact Ec|rewrite K2; discriminate]].
        exists l, [], (m13_sends m). rewrite M1, Es. split; [reflexivity|]. split; [intros s []|]. split; [exact El|exact Ed].
      + rewrite (Cu u Nu) in Hu. rewrite (Ho u Nu). destruct (r_send _ s0 m R u c0 x Hu) as [[l [l1 [l2 [S1 [S2 [S3 S4]]]]]] [S5 S6]].
        split; [|split; [exact S5|]].
        * exists l, (ex_s ++ l1), l2. rewrite M1, S1, app_assoc. split; [reflexivity|]. split; [|split; [rewrite (Glate u Nu); exact S3|exact S4]].
          intros s Hs. apply in_app_or in Hs. destruct Hs as [Hs|Hs]; [rewrite (Hexs s Hs); auto|apply S2; exact Hs].
        * intro Hr. specialize (S6 Hr). discriminate S6.
    - intros u c0 x E. destruct Hp as [->|[c1 ->]]; discriminate E.
    - intros u c0 Hu. rewrite Hch. destruct (Nat.eq_dec u t) as [->|Nu].
      + destruct Ht as [K [K2 K3]]. rewrite K in Hu. inversion Hu as [Ec].
        destruct (Hclosed c0 Ec) as [l [El Ed]]. exists l. split; [exact El|]. split; [exact Ed|].
        intros b [[m0 Hin]|Hr]; [rewrite K3, Hk in Hin; destruct Hin|rewrite K2 in Hr; discriminate Hr].
      + rewrite (Cu u Nu) in Hu. rewrite (Ho u Nu), (Glate u Nu). apply (r_closedcmd _ s0 m R u c0 Hu).
    - intros u c0 Hu. rewrite Hch, Hbg. destruct (Nat.eq_dec u t) as [->|Nu].
      + destruct Ht as [K _]. rewrite K in Hu. inversion Hu as [Ec]. left. apply Hdrop. exact Ec.
      + rewrite (Cu u Nu) in Hu. rewrite (Ho u Nu). destruct (r_dropcmd _ s0 m R u c0 Hu) as [[D _]|[_ [D2 D3]]]; [discriminate D|].
        right. split; [|split; [exact D2|exact D3]]. destruct Hp as [->|[c1 ->]]; [discriminate|]. intro E. inversion E. congruence.
    - intros u c0 E. destruct Hp as [->|[c1 ->]]; [discriminate E|]. inversion E; subst u c1.
      destruct Ht as [K [_ K3]]. rewrite K, K3, (Hnodrop c0 eq_refl). auto.
    - intros a1 u c0 x a2. rewrite M2, M1. intros Ea l l1 l2 El e He Et Hin.
      (* where is the entry of the accepted send (u, c0, x)? not among the fresh entries *)
      assert (Hacc : In (u, (c0, x)) (m13_acc m)) by (rewrite Ea; apply in_or_app; right; left; reflexivity).
      destruct (r_acc_sent _ s0 m R u c0 x Hacc) as [lo Hlo].
      assert (Hnew : In (mkCS u c0 x l) (m13_sends m')) by (rewrite M1, El; apply in_or_app; right; left; reflexivity).
      assert (Hold : In (mkCS u c0 x lo) (m13_sends m')) by (rewrite M1; apply in_or_app; right; exact Hlo).
      pose proof (nodup_key_eq _ _ _ Nd Hnew Hold eq_refl) as Ee. inversion Ee; subst lo.
      apply in_split in Hlo. destruct Hlo as [k1 [k2 Ek]].
      assert (Esplit : l1 = ex_s ++ k1 /\ l2 = k2).
      { assert (E2 : l1 ++ mkCS u c0 x l :: l2 = (ex_s ++ k1) ++ mkCS u c0 x l :: k2) by (rewrite <- El, Ek, app_assoc; reflexivity).
        assert (Nd2 : NoDup (l1 ++ mkCS u c0 x l :: l2)) by (rewrite <- El; rewrite <- M1; eapply NoDup_map_inv; exact Nd).
        apply (nodup_split_unique _ _ _ _ _ _ Nd2 E2). }
      destruct Esplit as [_ ->].
      apply (r_ord _ s0 m R a1 u c0 x a2 Ea l k1 k2 Ek e He Et Hin).
  Qed.
End CInstall.

Lemma get_tid_some_in : forall A t (l : list (tid * A)), In t (map fst l) -> exists x, get_tid t l = Some x.
Proof.
  induction l as [|[u x] l IH]; intro H; [destruct H|]. cbn. destruct (Nat.eqb_spec u t); [eauto|].
  destruct H as [H|H]; [cbn in H; congruence|apply IH; exact H].
Qed.

Definition pend_install (t : tid) (c : cmd) : pend := match c with CCDrop c0 => PBadDrop t c0 | _ => PNone end.

Lemma cr_install : forall s0 s1 ms t c,
  CRel PNone s0 ms -> tcur (thr s0 t) = None -> tcont (thr s0 t) = [] ->
  (forall u, u <> t -> thr s1 u = thr s0 u) ->
  tcur (thr s1 t) = Some c -> tret (thr s1 t) = RUnit -> tcont (thr s1 t) = [] -> chs s1 = chs s0 ->
  NoDup (map sk (m13_sends (m13_step ms (t, ECmd c)))) ->
  CRel (pend_install t c) s1 (m13_step ms (t, ECmd c)).
Proof.
  intros s0 s1 ms t c R Hcur0 Hk0 Ho Hcur1 Hret1 Hk1 Hch Nd.
  assert (Lnone : ~ In t (map fst (m13_late ms))).
  { intro Hin. destruct (get_tid_some_in _ _ _ Hin) as [l Hl]. destruct (r_late_dom _ s0 ms R t l Hl) as [c0 [[x E]|E]]; congruence. }
  assert (Ht : tcur (thr s1 t) = Some c /\ tret (thr s1 t) = RUnit /\ tcont (thr s1 t) = tcont (thr s0 t)) by (rewrite Hk0; auto).
  assert (Done : forall c0, memZ c0 (m13_cdone ms) = true -> copen (chs s0 c0) = false /\ cexists (chs s0 c0) = true) by (apply (r_done _ s0 ms R)).
  assert (Gn : get_tid t (m13_late ms) = None) by (apply get_tid_none; exact Lnone).
  pose proof (r_late_nd _ s0 ms R) as Lnd.
  destruct c as [w|w|c0 x|c0|w|n| | | | | |c0|c0|p0|p0 x|p0| |x| | ];
    try (apply (cr_install_gen s0 s1 ms _ t _ PNone [] [] R Hcur0 Ho Ht Hch); try reflexivity; auto;
         try (intros ? []; fail); try (intros; discriminate); try (intros l Hl; cbn in Hl; congruence); fail).
  - (* CSend *)
    cbn [pend_install].
    apply (cr_install_gen s0 s1 ms _ t _ PNone [mkCS t c0 x (memZ c0 (m13_cdone ms))] [(t, memZ c0 (m13_cdone ms))] R Hcur0 Ho Ht Hch);
      try reflexivity; auto.
    + intros s [<-|[]]. reflexivity.
    + intros e [<-|[]]. reflexivity.
    + intros l Hl. exists c0. left. eauto.
    + cbn. constructor; [exact Lnone|exact Lnd].
    + intros c1 x1 E. inversion E; subst c1 x1. exists (memZ c0 (m13_cdone ms)). split; [reflexivity|]. split; [cbn; rewrite Nat.eqb_refl; reflexivity|].
      intro El. apply Done. exact El.
    + intros; discriminate.
    + intros; discriminate.
    + intros; discriminate.
  - (* CClosed *)
    cbn [pend_install].
    apply (cr_install_gen s0 s1 ms _ t _ PNone [] [(t, memZ c0 (m13_cdone ms))] R Hcur0 Ho Ht Hch); try reflexivity; auto.
    + intros s [].
    + intros e [<-|[]]. reflexivity.
    + intros l Hl. exists c0. right. reflexivity.
    + cbn. constructor; [exact Lnone|exact Lnd].
    + intros; discriminate.
    + intros c1 E. inversion E; subst c1. exists (memZ c0 (m13_cdone ms)). split; [cbn; rewrite Nat.eqb_refl; reflexivity|].
      intro El. apply Done. exact El.
    + intros; discriminate.
    + intros; discriminate.
  - (* CCDrop *)
    cbn [pend_install].
    apply (cr_install_gen s0 s1 ms _ t _ (PBadDrop t c0) [] [] R Hcur0 Ho Ht Hch); try reflexivity; eauto.
    + intros s [].
    + intros e [].
    + intros l Hl. cbn in Hl. congruence.
    + intros; discriminate.
    + intros; discriminate.
    + intros c1 E. inversion E; subst c1. split; [reflexivity|]. cbn. eauto.
    + intros c1 E. inversion E. reflexivity.
Qed.

Lemma accs_nil : forall p st m c, CRel p st m -> cexists (chs st c) = false -> accs m c = [] /\ fwds m c = [].
Proof.
  intros p st m c R Ex. split.
  - rewrite accs_eq. replace (flat_map (accf c) (m13_acc m)) with (@nil Z); [reflexivity|]. symmetry. apply flat_map_nil.
    intros [u [c' x]] Hin. unfold accf. cbn. destruct (Z.eqb_spec c' c) as [->|]; [|reflexivity].
    rewrite (r_ex_acc p st m R u c x Hin) in Ex. discriminate.
  - rewrite fwds_eq. replace (flat_map (fwdf c) (m13_fwd m)) with (@nil Z); [reflexivity|]. symmetry. apply flat_map_nil.
    intros [c' x] Hin. unfold fwdf. cbn. destruct (Z.eqb_spec c' c) as [->|]; [|reflexivity].
    rewrite (r_ex_fwd p st m R c x Hin) in Ex. discriminate.
Qed.

(** Channel::new *)
Lemma cr_cnew : forall st m t c0 wi,
  CRel PNone st m -> cexists (chs st c0) = false -> tcont (thr st t) = [] -> t = main ->
  (forall c x, tcur (thr st t) <> Some (CSend c x)) -> (forall c, tcur (thr st t) <> Some (CClosed c)) ->
  (forall c, tcur (thr st t) <> Some (CCDrop c)) ->
  CRel PNone (set_cont (set_chan st c0 (mkChan true false false true [] wi)) t [ILock (MCh c0) (LChInit c0)]) m.
Proof.
  intros st m t c0 wi R Ex Hk Tm N1 N2 N3.
  set (st' := set_cont (set_chan st c0 (mkChan true false false true [] wi)) t [ILock (MCh c0) (LChInit c0)]).
  assert (Ch : forall c, chs st' c = if c =? c0 then mkChan true false false true [] wi else chs st c).
  { intro c. unfold st'. cbn. unfold updZ. reflexivity. }
  assert (Cu : forall u, tcur (thr st' u) = tcur (thr st u)) by (unfold st'; thr_simpl).
  assert (Re : forall u, tret (thr st' u) = tret (thr st u)) by (unfold st'; thr_simpl).
  assert (Co : forall u, u <> t -> tcont (thr st' u) = tcont (thr st u)) by (unfold st'; thr_simpl).
  assert (Tr : forall c, transit st' c = transit st c).
  { intro c. unfold transit. destruct (Nat.eq_dec main t) as [E|E]; [|rewrite (Co main E); reflexivity].
    rewrite E, Hk. unfold st'. cbn. unfold updN, th. rewrite Nat.eqb_refl. reflexivity. }
  assert (Old : forall c, c <> c0 -> chs st' c = chs st c) by (intros c N; rewrite Ch; destruct (Z.eqb_spec c c0); [congruence|reflexivity]).
  assert (Exm : forall c, cexists (chs st c) = true -> c <> c0) by (intros c E1 E2; subst; congruence).
  assert (Keep : forall c, copen (chs st c) = false /\ cexists (chs st c) = true -> copen (chs st' c) = false /\ cexists (chs st' c) = true).
  { intros c [A B]. rewrite (Old c (Exm c B)). auto. }
  constructor.
  - apply (r_bad _ st m R).
  - intros c. rewrite Ch, Tr. destruct (Z.eqb_spec c c0) as [->|N]; cbn.
    + intros _. destruct (accs_nil _ st m c0 R Ex) as [A B]. rewrite A, B.
      assert (T0 : transit st c0 = []) by (unfold transit; rewrite <- Tm, Hk; reflexivity).
      rewrite T0. reflexivity.
    + apply (r_open _ st m R c).
  - intros c H. apply Keep. apply (r_done _ st m R c H).
  - intros c. rewrite Ch. destruct (Z.eqb_spec c c0) as [->|N]; cbn; [discriminate|]. apply (r_begun _ st m R c).
  - intros u c x H. pose proof (r_ex_acc _ st m R u c x H) as E. rewrite (Old c (Exm c E)). exact E.
  - intros c x H. pose proof (r_ex_fwd _ st m R c x H) as E. rewrite (Old c (Exm c E)). exact E.
  - apply (r_acc_sent _ st m R).
  - apply (r_acc_nd _ st m R).
  - intros u l H. destruct (r_late_dom _ st m R u l H) as [c X]. exists c. rewrite Cu. exact X.
  - apply (r_late_nd _ st m R).
  - intros u c x. rewrite Cu, Re. intro Hu. destruct (r_send _ st m R u c x Hu) as [[l [l1 [l2 [S1 [S2 [S3 S4]]]]]] [S5 S6]].
    split; [exists l, l1, l2; split; [exact S1|split; [exact S2|split; [exact S3|intro Hl; apply Keep; apply S4; exact Hl]]]|auto].
  - intros u c x H. discriminate H.
  - intros u c. rewrite Cu, Re. intro Hu. assert (Nu : u <> t) by (intro E; subst u; exact (N2 _ Hu)). rewrite (Co u Nu).
    destruct (r_closedcmd _ st m R u c Hu) as [l [L1 [L2 L3]]]. exists l. split; [exact L1|]. split; [intro Hl; apply Keep; apply L2; exact Hl|exact L3].
  - intros u c. rewrite Cu. intro Hu. assert (Nu : u <> t) by (intro E; subst u; exact (N3 _ Hu)). rewrite (Co u Nu).
    destruct (r_dropcmd _ st m R u c Hu) as [[D _]|[D1 [D2 [D3 D4]]]]; [discriminate D|]. right.
    rewrite (Old c (Exm c D3)). auto.
  - intros u c H. discriminate H.
  - apply (r_ord _ st m R).
Qed.

Lemma memZ_cons : forall c a l, memZ c l = true -> memZ c (a :: l) = true.
Proof. intros c a l H. unfold memZ in *. cbn. rewrite H. apply orb_true_r. Qed.

(** the drop of the guard goes ahead *)
Lemma cr_undrop : forall st m t c0,
  CRel (PBadDrop t c0) st m -> cexists (chs st c0) = true -> t = main ->
  let x := chs st c0 in
  CRel PNone (set_cont (set_chan st c0 (mkChan (cexists x) (Waker.creg x) false (copen x) (cq x) (cw x))) t [ILock (MCh c0) (LChClose c0)]) m.
Proof.
  intros st m t c0 R Ex Tm x.
  destruct (r_pbad _ st m R t c0 eq_refl) as [Hu Hk].
  destruct (r_dropcmd _ st m R t c0 Hu) as [[_ [old Eold]]|[D _]]; [|congruence].
  set (st' := set_cont (set_chan st c0 (mkChan (cexists x) (Waker.creg x) false (copen x) (cq x) (cw x))) t [ILock (MCh c0) (LChClose c0)]).
  assert (Ch : forall c, copen (chs st' c) = copen (chs st c) /\ cq (chs st' c) = cq (chs st c) /\ cexists (chs st' c) = cexists (chs st c)).
  { intro c. unfold st', x. cbn. unfold updZ. destruct (Z.eqb_spec c c0); subst; cbn; auto. }
  assert (Cu : forall u, tcur (thr st' u) = tcur (thr st u)) by (unfold st'; thr_simpl).
  assert (Re : forall u, tret (thr st' u) = tret (thr st u)) by (unfold st'; thr_simpl).
  assert (Co : forall u, u <> t -> tcont (thr st' u) = tcont (thr st u)) by (unfold st'; thr_simpl).
  assert (Ct : tcont (thr st' t) = [ILock (MCh c0) (LChClose c0)]) by (unfold st'; thr_simpl).
  assert (Tr : forall c, transit st' c = transit st c).
  { intro c. unfold transit. rewrite <- Tm, Ct, Hk. reflexivity. }
  assert (Bg : forall c, memZ c (begun_of (PBadDrop t c0) m) = true -> memZ c (m13_cbegun m) = true).
  { intros c H. cbn [begun_of] in H. rewrite Eold in *. cbn [tl] in H. apply memZ_cons. exact H. }
  assert (Keep : forall c, copen (chs st c) = false /\ cexists (chs st c) = true -> copen (chs st' c) = false /\ cexists (chs st' c) = true).
  { intros c [A B]. destruct (Ch c) as [X [_ Z]]. rewrite X, Z. auto. }
  constructor.
  - apply (r_bad _ st m R).
  - intros c. destruct (Ch c) as [A [B _]]. rewrite A, B, Tr. intro Ho. pose proof (r_open _ st m R c Ho) as E. cbn [pendm] in *. exact E.
  - intros c H. apply Keep. apply (r_done _ st m R c H).
  - intros c. destruct (Ch c) as [A [_ C]]. rewrite A, C. intros E1 E2. cbn [begun_of]. apply Bg. apply (r_begun _ st m R c E1 E2).
  - intros u c y. destruct (Ch c) as [_ [_ C]]. rewrite C. apply (r_ex_acc _ st m R).
  - intros c y. destruct (Ch c) as [_ [_ C]]. rewrite C. apply (r_ex_fwd _ st m R).
  - apply (r_acc_sent _ st m R).
  - apply (r_acc_nd _ st m R).
  - intros u l H. destruct (r_late_dom _ st m R u l H) as [c X]. exists c. rewrite Cu. exact X.
  - apply (r_late_nd _ st m R).
  - intros u c y. rewrite Cu, Re. intro Hu1. destruct (r_send _ st m R u c y Hu1) as [[l [l1 [l2 [S1 [S2 [S3 S4]]]]]] [S5 S6]].
    split; [exists l, l1, l2; split; [exact S1|split; [exact S2|split; [exact S3|intro Hl; apply Keep; apply S4; exact Hl]]]|].
    split; [exact S5|]. intro Hr. discriminate (S6 Hr).
  - intros u c y H. discriminate H.
  - intros u c. rewrite Cu, Re. intro Hu1. assert (Nu : u <> t) by (intro E; subst u; congruence). rewrite (Co u Nu).
    destruct (r_closedcmd _ st m R u c Hu1) as [l [L1 [L2 L3]]]. exists l. split; [exact L1|]. split; [intro Hl; apply Keep; apply L2; exact Hl|exact L3].
  - intros u c. rewrite Cu. intro Hu1. right. split; [discriminate|]. destruct (Ch c) as [A [_ C]]. rewrite A, C.
    destruct (Nat.eq_dec u t) as [->|Nu].
    + rewrite Hu in Hu1. inversion Hu1; subst c. split; [cbn [begun_of]; rewrite Eold; cbn; rewrite Z.eqb_refl; reflexivity|].
      split; [exact Ex|]. left. exists (MCh c0). rewrite Ct. left. reflexivity.
    + rewrite (Co u Nu). destruct (r_dropcmd _ st m R u c Hu1) as [[D _]|[_ [D2 [D3 D4]]]]; [inversion D; congruence|].
      split; [apply Bg; exact D2|]. split; [exact D3|exact D4].
  - intros u c H. discriminate H.
  - apply (r_ord _ st m R).
Qed.

Definition pend_begin (t : tid) (c : cmd) (done : option retv) : pend :=
  match c, done with CCDrop c0, Some _ => PBadDrop t c0 | _, _ => PNone end.

Ltac crb st t new :=
  apply (cr_triv st _ _ t (@nil instr) (@nil instr) new);
  [ assumption | thr_simpl
  | (let u := fresh in let Hu := fresh in intros u Hu; destruct (Nat.eq_dec u t) as [->|]; [destruct Hu as [[? [? Hu]]|[? Hu]]; first [congruence|thr_simpl]|thr_simpl])
  | thr_simpl | eassumption | thr_simpl | cr_chs | cr_pl | intros ? [] | cr_new
  | let Hu := fresh in let Hin := fresh in intros ? ? ? Hu Hin;
    first [congruence | cbn in Hin; repeat (destruct Hin as [Hin|Hin]; [discriminate Hin|]); contradiction] ].

Lemma begin_cmd_C : forall st ms t c st' ev done,
  ShInv st -> pristine st -> UInv st -> CRel (pend_install t c) st ms -> (t < nthr st)%nat ->
  tcont (thr st t) = [] -> tcur (thr st t) = Some c ->
  begin_cmd st t c = (st', ev, done) ->
  CRel (pend_begin t c done) st' (fold_left m13_step (evs t ev) ms).
Proof.
  intros st ms t c st' ev done S P U R Ht Hc Hcur H.
  assert (Hc0 : tcont (thr st t) = [] ++ []) by exact Hc.
  assert (Same : forall p0 e0, (forall e, In e e0 -> c13_plain e) -> CRel p0 st ms -> CRel p0 st (fold_left m13_step (evs t e0) ms)).
  { intros p0 e0 He R0. eapply cr_msame; [exact R0|apply m13_plain_fold; exact He]. }
  assert (Add : forall p0 h st1 wi, wh_add st h = Some (st1, wi) -> CRel p0 st ms ->
                CRel p0 st1 ms /\ pristine st1 /\ UInv st1 /\ thr st1 = thr st /\ chs st1 = chs st).
  { intros p0 h st1 wi E R0.
    destruct (wh_add_core _ _ _ _ E) as [c1 [A [B [C1 [C2 [C3 [C4 [C5 [C6 [C7 C8]]]]]]]]]].
    split; [|split; [|split; [|auto]]].
    - apply (cr_steq _ st); auto. intro u. rewrite C1. auto.
    - destruct P as [P0 P]. split; [lia|]. intros u Hu. rewrite C1. apply P. lia.
    - intros u Hu. rewrite C1. apply U. lia. }
  destruct c as [w|w|c0 x|c0|w|n| | | | | |c0|c0|p0|p0 x|p0| |x| | ]; cbn [begin_cmd pend_install pend_begin] in *.
  - destruct (wreg st w) as [wi|]; [|inversion H; subst; apply Same; [intros e []|exact R]].
    destruct (climb_start st wi (Some (HPlain w))) as [i|] eqn:E; inversion H; subst; clear H; [|apply Same; [cr_pl|exact R]].
    apply climb_at_climb in E. destruct E as [k ->]. crb st t [IClimb k].
  - destruct (wreg st w) as [wi|] eqn:Ew; [|inversion H; subst; apply Same; [intros e []|exact R]].
    destruct (wbusy st w); inversion H; subst; clear H.
    + crb st t [ILock MDL (LPush (wbit wi) (wbm wi) (HPlain w))].
    + cbn. apply (cr_steq _ st); auto.
  - destruct (Waker.creg (chs st c0)); inversion H; subst; clear H; [|apply Same; [intros e []|exact R]].
    crb st t [ILock (MCh c0) (LChSend c0 x)].
  - destruct (Waker.creg (chs st c0)); inversion H; subst; clear H; [|apply Same; [intros e []|exact R]].
    crb st t [ILock (MCh c0) (LChClosed c0)].
  - destruct (negb (is_main t) || wused st w || (1000000 <=? w) || (w <? 0)); [inversion H; subst; apply Same; [intros e []|exact R]|].
    destruct (wh_add st (HPlain w)) as [[st1 wi]|] eqn:E; inversion H; subst; clear H; [|apply Same; [cr_pl|exact R]].
    destruct (Add _ _ _ _ E R) as [R1 _]. eapply cr_msame; [|apply m13_plain_fold; cr_pl].
    apply (cr_steq _ st1); auto.
  - destruct (negb (is_main t)); [inversion H; subst; apply Same; [intros e []|exact R]|].
    destruct (fill_loop (Z.to_nat n) st []) as [st1 ev1] eqn:E. inversion H; subst; clear H.
    destruct (fill_loop_chs _ _ _ _ _ E) as [A B]. destruct (fill_loop_ghostev _ _ _ _ _ E ltac:(intros e0 [])) as [G1 _].
    eapply cr_msame; [|apply m13_plain_fold; intros e He; destruct (G1 e He) as [X Y]; destruct e; cbn in *; try contradiction; try discriminate; exact Logic.I].
    apply (cr_steq _ st); auto. intro u. rewrite B. auto.
  - destruct (negb (is_main t)); inversion H; subst; clear H; [apply Same; [intros e []|exact R]|]. crb st t [ITopSwap; IRun].
  - destruct (negb (is_main t)); [inversion H; subst; apply Same; [intros e []|exact R]|].
    destruct (gnotified st); inversion H; subst; clear H; [|apply Same; [intros e []|exact R]]. crb st t [ITopSwap; IRun].
  - destruct (negb (is_main t)); inversion H; subst; clear H; [apply Same; [intros e []|exact R]|].
    cbn. apply cr_spawn; auto.
  - destruct (negb (is_main t)); inversion H; subst; clear H; [apply Same; [intros e []|exact R]|]. crb st t [IJoin].
  - destruct (negb (is_main t)); inversion H; subst; clear H; [apply Same; [intros e []|exact R]|]. crb st t [IIdle].
  - (* CCNew *)
    destruct (negb (is_main t) || cexists (chs st c0)) eqn:Eg; [inversion H; subst; apply Same; [intros e []|exact R]|].
    apply orb_false_iff in Eg. destruct Eg as [Em Eex]. apply negb_false_iff in Em. unfold is_main in Em. apply Nat.eqb_eq in Em.
    destruct (wh_add st (HChan c0)) as [[st1 wi]|] eqn:E; inversion H; subst; clear H; [|apply Same; [cr_pl|exact R]].
    destruct (Add _ _ _ _ E R) as [R1 [_ [_ [T1 C1]]]].
    eapply cr_msame; [|apply m13_plain_fold; cr_pl].
    apply cr_cnew; auto; try (rewrite T1; congruence). rewrite C1. exact Eex.
  - (* CCDrop *)
    destruct (negb (is_main t) || negb (cguard (chs st c0))) eqn:Eg; inversion H; subst; clear H; [apply Same; [intros e []|exact R]|].
    apply orb_false_iff in Eg. destruct Eg as [Em Egd]. apply negb_false_iff in Em, Egd. unfold is_main in Em. apply Nat.eqb_eq in Em.
    cbn. apply cr_undrop; auto. apply (sh_ex st S c0). auto.
  - destruct (negb (is_main t) || pexists (pps st p0)); [inversion H; subst; apply Same; [intros e []|exact R]|].
    destruct (wh_add st (HPipe p0)) as [[st1 wi]|] eqn:E; inversion H; subst; clear H; [|apply Same; [cr_pl|exact R]].
    destruct (Add _ _ _ _ E R) as [R1 [P1 [U1 _]]].
    eapply cr_msame; [|apply m13_plain_fold; cr_pl].
    apply cr_spawn; auto. apply (cr_steq _ st1); auto.
  - destruct (negb (is_main t) || negb (phandle (pps st p0))); inversion H; subst; clear H; [apply Same; [intros e []|exact R]|]. crb st t [ILock (MPq p0) (LPqSend p0 x)].
  - destruct (negb (is_main t) || negb (phandle (pps st p0))); inversion H; subst; clear H; [apply Same; [intros e []|exact R]|]. crb st t [ILock (MPq p0) (LPqCancelSet p0)].
  - destruct (tpipe (th st t) <? 0); inversion H; subst; clear H; [apply Same; [intros e []|exact R]|]. crb st t [ILock (MPq (tpipe (th st t))) (LPqRecv (tpipe (th st t)))].
  - destruct (tpipe (th st t) <? 0); inversion H; subst; clear H; [apply Same; [intros e []|exact R]|]. crb st t [ILock (MPq (tpipe (th st t))) (LPqLSend (tpipe (th st t)) x)].
  - destruct (tpipe (th st t) <? 0); inversion H; subst; clear H; [apply Same; [intros e []|exact R]|]. crb st t [ILock (MPq (tpipe (th st t))) (LPqCancelGet (tpipe (th st t)))].
  - destruct (tpipe (th st t) <? 0); inversion H; subst; clear H; [apply Same; [intros e []|exact R]|].
    cbn. apply (cr_steq _ st); auto. intro u. split; [thr_simpl|split; [thr_simpl|intros _; thr_simpl]].
Qed.

(** ** the end of a command: the monitor sees [ERet v] *)
Lemma rm_tid_absent : forall A t (l : list (tid * A)), get_tid t l = None -> rm_tid t l = l.
Proof.
  induction l as [|[u x] l IH]; intro H; [reflexivity|]. cbn in *. destruct (Nat.eqb_spec u t); [discriminate|]. rewrite IH; auto.
Qed.

Section CDone.
  Variables (p : pend) (st st2 : wstate) (m m' : m13) (t : tid) (ex_a : list (tid * (Z * Z))) (ex_d : list Z).
  Hypothesis R : CRel p st m.
  Hypothesis Hp : p = PNone \/ (exists c x, p = PAcc t c x) \/ (exists c, p = PBadDrop t c).
  Hypothesis Ho : forall u, u <> t -> thr st2 u = thr st u.
  Hypothesis Ht : tcur (thr st2 t) = None /\ tcont (thr st2 t) = tcont (thr st t).
  Hypothesis Hk : tcont (thr st t) = [].
  Hypothesis Hch : chs st2 = chs st.
  Hypothesis M1 : m13_sends m' = m13_sends m.
  Hypothesis M2 : m13_acc m' = ex_a ++ m13_acc m.
  Hypothesis M3 : m13_fwd m' = m13_fwd m.
  Hypothesis M5 : m13_cdone m' = ex_d ++ m13_cdone m.
  Hypothesis M6 : m13_late m' = rm_tid t (m13_late m).
  Hypothesis M7 : m13_bad m' = false.
  Hypothesis Hacc : forall c, copen (chs st c) = true -> accs m' c = accs m c ++ pendm p c.
  Hypothesis Hdn : forall c, In c ex_d -> copen (chs st c) = false /\ cexists (chs st c) = true.
  Hypothesis Hbg : forall c, memZ c (begun_of p m) = true -> memZ c (m13_cbegun m') = true.
  Hypothesis Hexa : forall u c x, In (u, (c, x)) ex_a -> u = t /\ cexists (chs st c) = true /\ exists l, In (mkCS t c x l) (m13_sends m).
  Hypothesis Hand : NoDup (map snd (m13_acc m')).
  Hypothesis Hord : forall u c x a2, ex_a = [(u, (c, x))] -> a2 = m13_acc m ->
          forall l l1 l2, m13_sends m = l1 ++ mkCS u c x l :: l2 ->
          forall e, In e l2 -> cs_tid e = u -> In (u, (cs_c e, cs_m e)) (m13_acc m') -> In (u, (cs_c e, cs_m e)) a2.
  Hypothesis Hexa1 : ex_a = [] \/ exists a, ex_a = [a].
  Hypothesis Hordold : forall a1 u c x a2, m13_acc m = a1 ++ (u, (c, x)) :: a2 ->
          forall l l1 l2, m13_sends m = l1 ++ mkCS u c x l :: l2 ->
          forall e, In e l2 -> cs_tid e = u -> In (u, (cs_c e, cs_m e)) ex_a -> False.

  Lemma cr_done_gen : CRel PNone st2 m'.
  Proof.
    assert (Cu : forall u, u <> t -> tcur (thr st2 u) = tcur (thr st u)) by (intros u Hu; rewrite (Ho u Hu); reflexivity).
    assert (Tr : forall c, transit st2 c = transit st c).
    { intro c. unfold transit. destruct (Nat.eq_dec main t) as [E|E]; [rewrite E; destruct Ht as [_ K]; rewrite K; reflexivity|rewrite (Ho main E); reflexivity]. }
    assert (Fc : forall c, fwds m' c = fwds m c) by (intro c; unfold fwds; rewrite M3; reflexivity).
    assert (Glate : forall u, u <> t -> get_tid u (m13_late m') = get_tid u (m13_late m)) by (intros u Hu; rewrite M6; apply get_tid_rm_other; exact Hu).
    assert (NotT : forall u c, tcur (thr st2 u) = Some c -> u <> t) by (intros u c Hu E; subst u; destruct Ht as [K _]; congruence).
    assert (NoPacc : forall u c x, u <> t -> p <> PAcc u c x).
    { intros u c x Nu E. destruct Hp as [->|[[c1 [x1 ->]]|[c1 ->]]]; try discriminate E. inversion E. congruence. }
    constructor.
    - exact M7.
    - intros c. rewrite Hch, Fc, Tr. intro Ho0. rewrite (Hacc c Ho0), app_nil_r. apply (r_open p st m R c Ho0).
    - intros c. rewrite M5, Hch. unfold memZ. rewrite existsb_app. intro H. apply orb_true_iff in H. destruct H as [H|H].
      + apply existsb_exists in H. destruct H as [y [Hy E]]. apply Z.eqb_eq in E. subst y. apply Hdn. exact Hy.
      + apply (r_done p st m R c H).
    - intros c. rewrite Hch. cbn [begun_of]. intros E1 E2. apply Hbg. apply (r_begun p st m R c E1 E2).
    - intros u c x. rewrite M2, Hch. intro H. apply in_app_or in H. destruct H as [H|H]; [apply (Hexa u c x H)|apply (r_ex_acc p st m R u c x H)].
    - intros c x. rewrite M3, Hch. apply (r_ex_fwd p st m R).
    - intros u c x. rewrite M2, M1. intro H. apply in_app_or in H. destruct H as [H|H]; [|apply (r_acc_sent p st m R u c x H)].
      destruct (Hexa u c x H) as [-> [_ X]]. exact X.
    - exact Hand.
    - intros u l Hl. destruct (Nat.eq_dec u t) as [->|Hu].
      + rewrite M6, (get_tid_rm_same _ t _ (r_late_nd p st m R)) in Hl. discriminate Hl.
      + rewrite (Glate u Hu) in Hl. destruct (r_late_dom p st m R u l Hl) as [c X]. exists c. rewrite (Cu u Hu). exact X.
    - rewrite M6. apply rm_tid_nd. apply (r_late_nd p st m R).
    - intros u c x Hu. pose proof (NotT u _ Hu) as Nu. rewrite (Cu u Nu) in Hu. rewrite (Ho u Nu), Hch, M1, M2, (Glate u Nu).
      destruct (r_send p st m R u c x Hu) as [S1 [S2 S3]]. split; [exact S1|]. split.
      + intro H. apply in_app_or in H. destruct H as [H|H]; [destruct (Hexa u c x H) as [E _]; congruence|exact (S2 H)].
      + intro Hr. exfalso. exact (NoPacc u c x Nu (S3 Hr)).
    - intros u c x H. discriminate H.
    - intros u c Hu. pose proof (NotT u _ Hu) as Nu. rewrite (Cu u Nu) in Hu. rewrite (Ho u Nu), Hch, (Glate u Nu).
      apply (r_closedcmd p st m R u c Hu).
    - intros u c Hu. pose proof (NotT u _ Hu) as Nu. rewrite (Cu u Nu) in Hu. rewrite (Ho u Nu), Hch. cbn [begun_of].
      destruct (r_dropcmd p st m R u c Hu) as [[D _]|[_ [D2 D3]]].
      + exfalso. destruct Hp as [->|[[c1 [x1 ->]]|[c1 ->]]]; try discriminate D. inversion D. congruence.
      + right. split; [discriminate|]. split; [apply Hbg; exact D2|exact D3].
    - intros u c H. discriminate H.
    - destruct Hexa1 as [E0|[a E0]].
      + intros a1 u c x a2. rewrite M2, M1, E0. cbn [app]. apply (r_ord p st m R).
      + intros a1 u c x a2. rewrite M2, M1, E0. cbn [app]. intros Ea l l1 l2 El e He Et Hin.
        destruct a1 as [|a0 a1'].
        * cbn in Ea. inversion Ea; subst a a2. apply (Hord u c x (m13_acc m) E0 eq_refl l l1 l2 El e He Et).
          rewrite M2, E0. exact Hin.
        * cbn in Ea. injection Ea as Ea0 Ea'. subst a0.
          destruct Hin as [Hin|Hin].
          -- exfalso. apply (Hordold a1' u c x a2 Ea' l l1 l2 El e He Et). rewrite E0. left. exact Hin.
          -- apply (r_ord p st m R a1' u c x a2 Ea' l l1 l2 El e He Et Hin).
  Qed.
End CDone.

Definition chan_cmd (c : cmd) : Prop := match c with CSend _ _ | CClosed _ | CCDrop _ => True | _ => False end.

Lemma accs_cons_acc : forall m m' t c x c1,
  m13_acc m' = [(t, (c, x))] ++ m13_acc m -> accs m' c1 = accs m c1 ++ (if c =? c1 then [x] else []).
Proof.
  intros m m' t c x c1 E. rewrite !accs_eq, E. cbn [app flat_map]. unfold accf at 1. cbn [fst snd].
  rewrite rev_app_distr. destruct (c =? c1); cbn; [reflexivity|rewrite app_nil_r; reflexivity].
Qed.

Lemma retv_true_dec : forall v : retv, {v = RBool true} + {v <> RBool true}.
Proof. intro v. destruct v as [| | |b|z|]; try (right; discriminate). destruct b; [left; reflexivity|right; discriminate]. Qed.

Lemma cr_ret : forall p st m t c v st2,
  ShInv st -> CRel p st m -> NoDup (map sk (m13_sends m)) ->
  tcur (thr st t) = Some c -> tcont (thr st t) = [] -> get_tid t (b_cur (m13_b m)) = Some c ->
  ((v = tret (thr st t) /\ (p = PNone \/ exists c0 x, p = PAcc t c0 x)) \/
   ((chan_cmd c -> v = RBad) /\ p = pend_begin t c (Some v) /\ tret (thr st t) = RUnit)) ->
  (forall u, u <> t -> thr st2 u = thr st u) -> tcur (thr st2 t) = None -> tcont (thr st2 t) = [] -> chs st2 = chs st ->
  CRel PNone st2 (m13_step m (t, ERet v)).
Proof.
  intros p st m t c v st2 S R Nd Hu Hk Hg Hv Ho Hcur2 Hk2 Hch.
  assert (Ht2 : tcur (thr st2 t) = None /\ tcont (thr st2 t) = tcont (thr st t)) by (rewrite Hk; auto).
  assert (Hp : p = PNone \/ (exists c0 x, p = PAcc t c0 x) \/ (exists c0, p = PBadDrop t c0)).
  { destruct Hv as [[_ [X|X]]|[_ [X _]]]; auto. rewrite X. unfold pend_begin. destruct c; eauto. }
  assert (NoAcc : (forall c0 x, c <> CSend c0 x) -> forall c1, pendm p c1 = []).
  { intros N c1. destruct p as [|u c0 x|u c0]; try reflexivity. destruct (r_pacc _ st m R u c0 x eq_refl) as [A _].
    destruct Hp as [X|[[c2 [x2 X]]|[c2 X]]]; try discriminate X. inversion X; subst. rewrite Hu in A. inversion A. exfalso. eapply N; eauto. }
  assert (NoBad : (forall c0, c <> CCDrop c0) -> begun_of p m = m13_cbegun m).
  { intros N. destruct p as [|u c0 x|u c0]; try reflexivity. destruct (r_pbad _ st m R u c0 eq_refl) as [A _].
    destruct Hp as [X|[[c2 [x2 X]]|[c2 X]]]; try discriminate X. inversion X; subst. rewrite Hu in A. inversion A. exfalso. eapply N; eauto. }
  assert (Bad0 : m13_bad m = false) by (apply (r_bad _ st m R)).
  (* completions that accept nothing *)
  assert (Gen0 : forall ex_d,
                  (forall c1, pendm p c1 = []) ->
                  m13_sends (m13_step m (t, ERet v)) = m13_sends m -> m13_acc (m13_step m (t, ERet v)) = m13_acc m ->
                  m13_fwd (m13_step m (t, ERet v)) = m13_fwd m ->
                  m13_cdone (m13_step m (t, ERet v)) = ex_d ++ m13_cdone m ->
                  m13_late (m13_step m (t, ERet v)) = rm_tid t (m13_late m) ->
                  m13_bad (m13_step m (t, ERet v)) = false ->
                  (forall c1, In c1 ex_d -> copen (chs st c1) = false /\ cexists (chs st c1) = true) ->
                  (forall c1, memZ c1 (begun_of p m) = true -> memZ c1 (m13_cbegun (m13_step m (t, ERet v))) = true) ->
                  CRel PNone st2 (m13_step m (t, ERet v))).
  { intros ex_d Pm E1 E2 E3 E5 E6 E7 Hdn Hbg.
    apply (cr_done_gen p st st2 m _ t [] ex_d R Hp Ho Ht2 Hch E1 E2 E3 E5 E6 E7); auto.
    - intros c1 _. rewrite accs_eq, E2, <- accs_eq, Pm, app_nil_r. reflexivity.
    - intros u c1 x1 [].
    - rewrite E2. apply (r_acc_nd _ st m R).
    - intros; discriminate. }
  assert (Other : (forall c0 x, c <> CSend c0 x) -> (forall c0, c <> CClosed c0) -> (forall c0, c <> CCDrop c0) ->
                  m13_sends (m13_step m (t, ERet v)) = m13_sends m /\ m13_acc (m13_step m (t, ERet v)) = m13_acc m /\
                  m13_fwd (m13_step m (t, ERet v)) = m13_fwd m /\ m13_cbegun (m13_step m (t, ERet v)) = m13_cbegun m /\
                  m13_cdone (m13_step m (t, ERet v)) = m13_cdone m /\ m13_late (m13_step m (t, ERet v)) = rm_tid t (m13_late m) /\
                  m13_bad (m13_step m (t, ERet v)) = m13_bad m ->
                  CRel PNone st2 (m13_step m (t, ERet v))).
  { intros N1 N2 N3 [E1 [E2 [E3 [E4 [E5 [E6 E7]]]]]].
    apply (Gen0 []); auto; try congruence.
    - intros c1 [].
    - intros c1. rewrite (NoBad N3), E4. auto. }
  destruct c as [w|w|c0 x|c0|w|n| | | | | |c0|c0|p0|p0 x|p0| |x| | ];
    try (apply Other; try (intros; discriminate); unfold m13_step; rewrite Hg; repeat split; reflexivity).
  - (* CSend *)
    destruct (r_send _ st m R t c0 x Hu) as [[l [l1 [l2 [S1 [S2 [S3 S4]]]]]] [S5 S6]].
    assert (NB : begun_of p m = m13_cbegun m) by (apply NoBad; intros; discriminate).
    assert (Et : In (mkCS t c0 x l) (m13_sends m)) by (rewrite S1; apply in_or_app; right; left; reflexivity).
    destruct (retv_true_dec v) as [Ev|Ev].
    + (* accepted *)
      subst v.
      assert (Pa : p = PAcc t c0 x).
      { destruct Hv as [[Ev _]|[Ev _]]; [apply S6; auto|exfalso; specialize (Ev Logic.I); discriminate Ev]. }
      destruct (r_pacc _ st m R t c0 x Pa) as [_ [_ [_ Op]]].
      assert (Lf : l = false) by (destruct l; [destruct (S4 eq_refl); congruence|reflexivity]).
      assert (Flds : m13_sends (m13_step m (t, ERet (RBool true))) = m13_sends m /\
                     m13_acc (m13_step m (t, ERet (RBool true))) = [(t, (c0, x))] ++ m13_acc m /\
                     m13_fwd (m13_step m (t, ERet (RBool true))) = m13_fwd m /\
                     m13_cbegun (m13_step m (t, ERet (RBool true))) = m13_cbegun m /\
                     m13_cdone (m13_step m (t, ERet (RBool true))) = [] ++ m13_cdone m /\
                     m13_late (m13_step m (t, ERet (RBool true))) = rm_tid t (m13_late m) /\
                     m13_bad (m13_step m (t, ERet (RBool true))) = false).
      { unfold m13_step. rewrite Hg, S3, Lf. cbn. rewrite Bad0. repeat split; reflexivity. }
      destruct Flds as [E1 [E2 [E3 [E4 [E5 [E6 E7]]]]]].
      assert (Uniq : forall u l', In (mkCS u c0 x l') (m13_sends m) -> u = t /\ l' = l).
      { intros u l' Hin. pose proof (nodup_key_eq _ _ _ Nd Hin Et eq_refl) as E. inversion E. auto. }
      assert (NdS : NoDup (m13_sends m)) by (eapply NoDup_map_inv; exact Nd).
      apply (cr_done_gen p st st2 m _ t [(t, (c0, x))] [] R Hp Ho Ht2 Hch E1 E2 E3 E5 E6 E7); auto.
      * intros c1 _. rewrite (accs_cons_acc m _ t c0 x c1 E2), Pa. reflexivity.
      * intros c1 [].
      * intros c1. rewrite NB, E4. auto.
      * intros u c1 x1 [E|[]]. inversion E; subst u c1 x1. split; [reflexivity|]. split; [apply (sh_ex st S c0); auto|eauto].
      * rewrite E2. cbn. constructor; [|apply (r_acc_nd _ st m R)].
        intro Hin. apply in_map_iff in Hin. destruct Hin as [[u [c1 x1]] [E Hin]]. cbn in E. inversion E; subst c1 x1.
        destruct (r_acc_sent _ st m R u c0 x Hin) as [l' Hl']. destruct (Uniq u l' Hl') as [-> _]. exact (S5 Hin).
      * intros u c1 x1 a2 E Ea2 l' k1 k2 El e He Et' Hin. injection E as Eu Ec0 Ex0. subst u c1 x1 a2.
        rewrite E2 in Hin. cbn in Hin. destruct Hin as [Hin|Hin]; [|exact Hin]. exfalso.
        injection Hin as Ec Ex.
        assert (He' : In e (m13_sends m)) by (rewrite El; apply in_or_app; right; right; exact He).
        assert (Ee : e = mkCS t c0 x l') .
        { apply (nodup_key_eq _ _ _ Nd He'); [rewrite El; apply in_or_app; right; left; reflexivity|]. unfold sk. cbn. rewrite Ec, Ex. reflexivity. }
        rewrite El in NdS. apply NoDup_remove_2 in NdS. apply NdS. apply in_or_app. right. rewrite <- Ee. exact He.
      * right. eexists; reflexivity.
      * intros a1 u c1 x1 a2 Ea l' k1 k2 El e He Et' [Hin|[]]. injection Hin as Eu Ec Ex. rewrite <- Eu in El. clear Ea Et' Eu.
        (* the current send of t is its newest entry, so it cannot be older than another entry of t *)
        assert (He' : In e (m13_sends m)) by (rewrite El; apply in_or_app; right; right; exact He).
        assert (Ee : e = mkCS t c0 x l) by (apply (nodup_key_eq _ _ _ Nd He' Et); unfold sk; cbn; rewrite <- Ec, <- Ex; reflexivity).
        rewrite Ee in He.
        apply in_split in He. destruct He as [k3 [k4 Ek2]].
        assert (Spl' : (k1 ++ mkCS t c1 x1 l' :: k3) ++ mkCS t c0 x l :: k4 = l1 ++ mkCS t c0 x l :: l2)
          by (rewrite <- app_assoc; cbn; rewrite <- Ek2, <- El, S1; reflexivity).
        assert (NdS' : NoDup ((k1 ++ mkCS t c1 x1 l' :: k3) ++ mkCS t c0 x l :: k4)) by (rewrite Spl', <- S1; exact NdS).
        destruct (nodup_split_unique _ _ _ _ _ _ NdS' Spl') as [X _].
        apply (S2 (mkCS t c1 x1 l')); [rewrite <- X; apply in_or_app; right; left; reflexivity|reflexivity].
    + (* refused *)
      assert (Pn : forall c1, pendm p c1 = []).
      { intro c1. destruct p as [|u c2 x2|u c2]; try reflexivity. exfalso.
        destruct Hp as [X|[[c3 [x3 X]]|[c3 X]]]; try discriminate X. inversion X; subst u c3 x3.
        destruct (r_pacc _ st m R t c2 x2 eq_refl) as [A [_ [B _]]].
        destruct Hv as [[Ev0 _]|[_ [Ev0 _]]]; [apply Ev; rewrite Ev0; exact B|unfold pend_begin in Ev0; discriminate Ev0]. }
      apply (Gen0 []); auto.
      * unfold m13_step. rewrite Hg. destruct v as [| | |b|z|]; try reflexivity. destruct b; [exfalso; apply Ev; reflexivity|reflexivity].
      * unfold m13_step. rewrite Hg. destruct v as [| | |b|z|]; try reflexivity. destruct b; [exfalso; apply Ev; reflexivity|reflexivity].
      * unfold m13_step. rewrite Hg. destruct v as [| | |b|z|]; try reflexivity. destruct b; [exfalso; apply Ev; reflexivity|reflexivity].
      * unfold m13_step. rewrite Hg. destruct v as [| | |b|z|]; try reflexivity. destruct b; [exfalso; apply Ev; reflexivity|reflexivity].
      * unfold m13_step. rewrite Hg. destruct v as [| | |b|z|]; try reflexivity. destruct b; [exfalso; apply Ev; reflexivity|reflexivity].
      * unfold m13_step. rewrite Hg. destruct v as [| | |b|z|]; try (cbn; exact Bad0). destruct b; [exfalso; apply Ev; reflexivity|cbn; exact Bad0].
      * intros c1 [].
      * intros c1. rewrite NB. unfold m13_step. rewrite Hg. destruct v as [| | |b|z|]; try (cbn; auto; fail). destruct b; [exfalso; apply Ev; reflexivity|cbn; auto].
  - (* CClosed *)
    assert (NB : begun_of p m = m13_cbegun m) by (apply NoBad; intros; discriminate).
    assert (Pn : forall c1, pendm p c1 = []) by (apply NoAcc; intros; discriminate).
    destruct (r_closedcmd _ st m R t c0 Hu) as [l [L1 [L2 L3]]].
    apply (Gen0 []); auto.
    + unfold m13_step. rewrite Hg. destruct v as [| | |b|z|]; reflexivity.
    + unfold m13_step. rewrite Hg. destruct v as [| | |b|z|]; reflexivity.
    + unfold m13_step. rewrite Hg. destruct v as [| | |b|z|]; reflexivity.
    + unfold m13_step. rewrite Hg. destruct v as [| | |b|z|]; reflexivity.
    + unfold m13_step. rewrite Hg. destruct v as [| | |b|z|]; reflexivity.
    + unfold m13_step. rewrite Hg, L1. destruct v as [| | |b|z|]; try (cbn; exact Bad0). cbn. rewrite Bad0. cbn.
      destruct l; [|reflexivity]. cbn.
      destruct Hv as [[Ev _]|[Ev _]]; [|specialize (Ev Logic.I); discriminate Ev].
      rewrite (L3 b); [reflexivity|right; congruence|reflexivity].
    + intros c1 [].
    + intros c1. rewrite NB. unfold m13_step. rewrite Hg. destruct v as [| | |b|z|]; cbn; auto.
  - (* CCDrop *)
    assert (Pn : forall c1, pendm p c1 = []) by (apply NoAcc; intros; discriminate).
    destruct (sh_drop st S t c0 Hu) as [Tr _].
    destruct (r_dropcmd _ st m R t c0 Hu) as [[Dp [old Eold]]|[Dp [D2 [D3 D4]]]].
    + (* the drop was refused *)
      assert (Ev : v = RBad).
      { destruct Hv as [[_ [X|[c1 [x1 X]]]]|[Ev _]]; [rewrite Dp in X; discriminate X|rewrite Dp in X; discriminate X|apply Ev; exact Logic.I]. }
      subst v. apply (Gen0 []); auto; try (unfold m13_step; rewrite Hg; reflexivity).
      * unfold m13_step. rewrite Hg. cbn. exact Bad0.
      * intros c1 [].
      * intros c1. rewrite Dp. cbn [begun_of]. unfold m13_step. rewrite Hg. cbn [m13_cbegun]. rewrite Eold. cbn. rewrite Z.eqb_refl. auto.
    + (* the close has been carried out *)
      assert (Ev : v = RUnit).
      { destruct Hv as [[X _]|[_ [X _]]]; [congruence|]. exfalso. apply Dp. rewrite X. unfold pend_begin. reflexivity. }
      subst v.
      assert (Cl : copen (chs st c0) = false).
      { destruct D4 as [[m0 Hin]|X]; [rewrite Hk in Hin; destruct Hin|exact X]. }
      assert (NB : begun_of p m = m13_cbegun m).
      { destruct p as [|u c2 x2|u c2]; try reflexivity. exfalso.
        destruct Hp as [X|[[c3 [x3 X]]|[c3 X]]]; try discriminate X. inversion X; subst u c3.
        destruct (r_pbad _ st m R t c2 eq_refl) as [A _]. rewrite Hu in A. inversion A; subst c2. apply Dp. reflexivity. }
      apply (Gen0 [c0]); auto; try (unfold m13_step; rewrite Hg; reflexivity).
      * unfold m13_step. rewrite Hg. cbn. exact Bad0.
      * intros c1 [<-|[]]. auto.
      * intros c1. rewrite NB. unfold m13_step. rewrite Hg. cbn. auto.
Qed.

(** ** the end of a step *)
Lemma cr_replace_main : forall st st' m k1,
  ShInv st -> CRel PNone st m -> tcont (thr st' main) = k1 -> nrel (tcont (thr st main)) k1 ->
  (forall u, u <> main -> tcont (thr st' u) = tcont (thr st u)) ->
  (forall u, tcur (thr st' u) = tcur (thr st u) /\ tret (thr st' u) = tret (thr st u)) -> chs st' = chs st ->
  CRel PNone st' m.
Proof.
  intros st st' m k1 S R Hc' N Ho Hf Hch.
  destruct (nrel_cases _ _ N) as [E|[i [r [Ek [Hmo Hin]]]]].
  { apply (cr_steq _ st); auto. intro u. destruct (Hf u) as [A B]. split; [exact A|]. split; [|intros _; exact B].
    destruct (Nat.eq_dec u main) as [->|Hu]; [rewrite Hc'; exact E|apply Ho; exact Hu]. }
  assert (NoC : forall c, tcur (thr st main) <> Some (CClosed c)).
  { intros c Hu. destruct (sh_closed st S main c Hu) as [[_ [E|[E|[b E]]]]|[E _]]; rewrite Ek in E; try discriminate E;
      inversion E; subst i; discriminate Hmo. }
  assert (NoD : forall c, tcur (thr st main) <> Some (CCDrop c)).
  { intros c Hu. destruct (sh_drop st S main c Hu) as [_ [E|[_ [_ [E|[_ E]]]]]]; try (rewrite Ek in E; discriminate E).
    - rewrite Ek in E. inversion E; subst i. discriminate Hmo.
    - pose proof (E i ltac:(rewrite Ek; left; reflexivity)) as D. destruct i; cbn in D; try contradiction; try discriminate Hmo.
      + destruct a; cbn in D; try contradiction. discriminate Hmo.
      + destruct a; cbn in D; try contradiction; discriminate Hmo. }
  assert (T0 : forall c, transit st c = []).
  { intro c. unfold transit. rewrite Ek. cbn [flat_map]. rewrite (sh_ufwd_head st S main i r c Ek), app_nil_r.
    destruct i; try reflexivity. destruct a; try reflexivity; discriminate Hmo. }
  assert (T1 : forall c, transit st' c = []).
  { intro c. unfold transit. rewrite Hc'. apply flat_map_nil. intros j Hj. destruct (Hin j Hj) as [X|X]; [|apply norm_new_ufwd; exact X].
    pose proof (sh_ufwd_head st S main i r c Ek) as Y. apply (proj1 (flat_map_nil _ _ _ _) Y). exact X. }
  apply (cr_frame_s st st' m m R (m13_same_refl m)).
  - intro c. rewrite Hch. reflexivity.
  - intros c. rewrite Hch, T0, T1. auto.
  - intros c. rewrite Hch. auto.
  - intros c E1 E2. rewrite Hch in E2. congruence.
  - intro u. apply Hf.
  - intros u c x _. destruct (Hf u) as [_ B]. rewrite B. auto.
  - intros u c b _. destruct (Hf u) as [_ B]. rewrite B. auto.
  - intros u m0 c Hu Hj. left. exists m0. destruct (Nat.eq_dec u main) as [->|Nu]; [exfalso; exact (NoD _ Hu)|rewrite (Ho u Nu); exact Hj].
  - intros u c m0 b Hu Hj. left. exists m0. destruct (Nat.eq_dec u main) as [->|Nu]; [exfalso; exact (NoC _ Hu)|rewrite (Ho u Nu) in Hj; exact Hj].
Qed.

Lemma settle_C : forall st ms t ev done st' ev' p,
  ShInv st -> CInv (core st) -> CRel p st ms -> NoDup (map sk (m13_sends ms)) -> BRel st (m13_b ms) -> (t < nthr st)%nat ->
  (forall j, In j (tfinal (thr st t)) -> finok j) ->
  (done = None -> p = PNone \/ exists c x, p = PAcc t c x) ->
  (forall v, done = Some v ->
     tcont (thr st t) = [] /\ exists c, tcur (thr st t) = Some c /\ (chan_cmd c -> v = RBad) /\
                                  p = pend_begin t c (Some v) /\ tret (thr st t) = RUnit) ->
  settle st t ev done = (st', ev') ->
  exists tail, ev' = ev ++ tail /\ CRel PNone st' (fold_left m13_step (evs t tail) ms).
Proof.
  intros st ms t ev done st' ev' p S I R Nd B Ht Hfin HdN HdS H. unfold settle in H.
  destruct (norm (2 * (cont_size (tcont (th st t)) + length (tacc (th st t))) + 2) (sl st) (tacc (th st t)) (tcont (th st t)) ev)
    as [[[s1 acc1] k1] ev1] eqn:En.
  cbn zeta in H.
  destruct (norm_dels _ _ _ _ _ _ _ _ _ En) as [dels [Edels Hdels]].
  pose proof (norm_nrel _ _ _ _ _ _ _ _ _ En) as N.
  assert (Pd : forall e, In e dels -> c13_plain e) by (intros e He; destruct (Hdels e He) as [x [h ->]]; exact Logic.I).
  assert (Pd' : forall e, In e dels -> plain e) by (intros e He; destruct (Hdels e He) as [x [h ->]]; exact Logic.I).
  set (m1 := fold_left m13_step (evs t dels) ms).
  assert (Sm : m13_same ms m1) by (apply m13_plain_fold; exact Pd).
  assert (Nd1 : NoDup (map sk (m13_sends m1))) by (destruct Sm as [X _ _ _ _ _ _]; rewrite X; exact Nd).
  assert (Gt1 : get_tid t (b_cur (m13_b m1)) = tcur (thr st t)).
  { unfold m1. rewrite m13_b_fold. destruct (mb_fold_plain t dels (m13_b ms) Pd') as [A1 _]. cbn zeta in A1. rewrite A1.
    apply (br_cur st _ B t Ht). }
  set (st1 := set_sl (upd_th st t (set_tacc (set_tcont (th st t) k1) acc1)) s1) in *.
  assert (T1 : tcont (thr st1 t) = k1) by (unfold st1; cbn -[Nat.eqb]; unfold updN, th; rewrite Nat.eqb_refl; reflexivity).
  assert (Th1 : forall u, tcur (thr st1 u) = tcur (thr st u) /\ tret (thr st1 u) = tret (thr st u) /\ tfinal (thr st1 u) = tfinal (thr st u)).
  { intro u. unfold st1. cbn -[Nat.eqb]. unfold updN, th. destruct (Nat.eqb_spec u t) as [E|E]; [rewrite E|]; auto. }
  assert (To1 : forall u, u <> t -> tcont (thr st1 u) = tcont (thr st u)).
  { intros u Hu. unfold st1. cbn -[Nat.eqb]. unfold updN, th. destruct (Nat.eqb_spec u t); [congruence|reflexivity]. }
  assert (R1 : CRel p st1 m1).
  { apply (cr_msame _ _ ms); [|exact Sm].
    destruct (tcont (thr st t)) as [|i0 r0] eqn:Ek.
    - unfold th in N. rewrite Ek in N. apply nrel_nil in N.
      apply (cr_steq _ st); [reflexivity| |exact R]. intro u. destruct (Th1 u) as [A [B0 _]]. split; [exact A|]. split; [|intros _; exact B0].
      destruct (Nat.eq_dec u t) as [->|Hu]; [rewrite T1, Ek; exact N|apply To1; exact Hu].
    - assert (Pn : p = PNone).
      { destruct p as [|u c x|u c]; [reflexivity| |].
        - destruct done as [v|]; [destruct (HdS v eq_refl) as [X _]; first [discriminate X|rewrite Ek in X; discriminate X]|].
          destruct (HdN eq_refl) as [X|[c1 [x1 X]]]; [discriminate X|]. inversion X; subst u c1 x1.
          destruct (r_pacc _ st ms R t c x eq_refl) as [_ [X2 _]]. first [discriminate X2|rewrite Ek in X2; discriminate X2].
        - destruct done as [v|]; [destruct (HdS v eq_refl) as [X _]; first [discriminate X|rewrite Ek in X; discriminate X]|].
          destruct (HdN eq_refl) as [X|[c1 [x1 X]]]; discriminate X. }
      subst p. destruct (Nat.eq_dec t main) as [->|Hn].
      + apply (cr_replace_main st st1 ms k1 S R T1); [unfold th in N; exact N|exact To1|intro u; destruct (Th1 u) as [A [B0 _]]; auto|reflexivity].
      + rewrite norm_id in En; [|intros j Hj; apply (i_mainonly _ I t Hn); exact Hj].
        injection En as _ _ E3 _. apply (cr_steq _ st); [reflexivity| |exact R]. intro u. destruct (Th1 u) as [A [B0 _]]. split; [exact A|]. split; [|intros _; exact B0].
        destruct (Nat.eq_dec u t) as [->|Hu]; [rewrite T1; symmetry; exact E3|apply To1; exact Hu]. }
  assert (S1 : ShInv st1).
  { destruct (Nat.eq_dec t main) as [->|Hn].
    - apply (sh_replace_main st st1 k1 S T1); [unfold th in N; exact N|exact To1|intro u; destruct (Th1 u) as [A [B0 _]]; auto|reflexivity].
    - rewrite norm_id in En; [|intros j Hj; apply (i_mainonly _ I t Hn); exact Hj].
      injection En as _ _ E3 _. apply (sh_same st); auto. intro u. destruct (Th1 u) as [A [B0 _]]. split; [|auto].
      destruct (Nat.eq_dec u t) as [->|Hu]; [rewrite T1; symmetry; exact E3|apply To1; exact Hu]. }
  assert (Hk1 : done <> None -> k1 = []).
  { intro D. destruct done as [v|]; [|congruence]. destruct (HdS v eq_refl) as [X _]. unfold th in N. rewrite X in N. apply nrel_nil. exact N. }
  clearbody st1.
  match type of H with (let '(st2, ev2) := ?E in _) = _ => destruct E as [st2 ev2] eqn:E2 end.
  assert (R2 : exists tl2, ev2 = ev1 ++ tl2 /\ CRel PNone st2 (fold_left m13_step (evs t tl2) m1) /\
                           tfinal (thr st2 t) = tfinal (thr st t) /\ (forall e, In e tl2 -> exists v, e = ERet v)).
  { destruct done as [v|].
    - inversion E2; subst st2 ev2. exists [ERet v]. split; [reflexivity|]. split; [|split; [rewrite <- (proj2 (proj2 (Th1 t))); thr_simpl|intros e [<-|[]]; eauto]].
      destruct (HdS v eq_refl) as [_ [c [Hu [Hv [Hp Hr]]]]]. cbn [evs map fold_left].
      apply (cr_ret p st1 m1 t c v _ S1 R1 Nd1).
      + rewrite (proj1 (Th1 t)). exact Hu.
      + rewrite T1. apply Hk1. discriminate.
      + rewrite Gt1. exact Hu.
      + right. split; [exact Hv|]. split; [exact Hp|]. rewrite (proj1 (proj2 (Th1 t))). exact Hr.
      + thr_simpl.
      + thr_simpl.
      + cbn. unfold updN, th. rewrite Nat.eqb_refl. cbn. rewrite T1. apply Hk1. discriminate.
      + reflexivity.
    - destruct k1.
      + destruct (tcur (th st1 t)) as [c|] eqn:Ec.
        * inversion E2; subst st2 ev2. exists [ERet (tret (th st1 t))]. split; [reflexivity|].
          split; [|split; [rewrite <- (proj2 (proj2 (Th1 t))); destruct c; thr_simpl|intros e [<-|[]]; eauto]].
          cbn [evs map fold_left]. unfold th in Ec.
          apply (cr_ret p st1 m1 t c _ _ S1 R1 Nd1 Ec T1).
          -- rewrite Gt1, <- (proj1 (Th1 t)). exact Ec.
          -- left. split; [reflexivity|]. apply HdN. reflexivity.
          -- destruct c; thr_simpl.
          -- destruct c; thr_simpl.
          -- destruct c; cbn; unfold updN, th; rewrite Nat.eqb_refl; cbn; exact T1.
          -- destruct c; reflexivity.
        * inversion E2; subst st2 ev2. exists []. rewrite app_nil_r. split; [reflexivity|]. cbn.
          assert (Pn : p = PNone).
          { destruct (HdN eq_refl) as [X|[c1 [x1 X]]]; [exact X|]. destruct (r_pacc _ st1 m1 R1 t c1 x1 X) as [A _]. unfold th in Ec. congruence. }
          subst p. split; [exact R1|]. split; [apply Th1|intros e []].
      + inversion E2; subst st2 ev2. exists []. rewrite app_nil_r. split; [reflexivity|]. cbn.
        assert (Pn : p = PNone).
        { destruct (HdN eq_refl) as [X|[c1 [x1 X]]]; [exact X|]. destruct (r_pacc _ st1 m1 R1 t c1 x1 X) as [_ [A _]]. rewrite T1 in A. discriminate A. }
        subst p. split; [exact R1|]. split; [apply Th1|intros e []]. }
  destruct R2 as [tl2 [E2' [R2 [F2 Hret2]]]].
  set (m2 := fold_left m13_step (evs t tl2) m1) in *.
  assert (Fin : exists tl3, ev' = ev2 ++ tl3 /\ CRel PNone st' (fold_left m13_step (evs t tl3) m2)).
  { destruct (tcont (th st2 t)) eqn:Ec; [|inversion H; subst; exists []; rewrite app_nil_r; auto].
    destruct (tscript (th st2 t)) eqn:Es; [|inversion H; subst; exists []; rewrite app_nil_r; auto].
    destruct (tcur (th st2 t)) eqn:Eu; [inversion H; subst; exists []; rewrite app_nil_r; auto|].
    destruct (tfinal (th st2 t)) eqn:Ef; inversion H; subst st' ev'; clear H.
    - destruct (is_main t); [exists []; rewrite app_nil_r; auto|].
      exists [EExit]. split; [reflexivity|]. eapply cr_msame; [exact R2|apply m13_plain_fold; cr_pl].
    - exists []. rewrite app_nil_r. split; [reflexivity|]. cbn [evs map fold_left]. unfold th in *.
      assert (Hc0 : tcont (thr st2 t) = [] ++ []) by exact Ec.
      assert (Hq : forall j, In j (i :: l) -> cr_quiet j).
      { intros j Hj. rewrite <- Ef, F2 in Hj. apply Hfin in Hj. destruct j; cbn in Hj; try contradiction.
        destruct a; cbn in Hj; try contradiction; (split; [intro; reflexivity|intros; discriminate]). }
      replace m2 with (fold_left m13_step (evs t []) m2) by reflexivity.
      apply (cr_triv st2 _ m2 t (@nil instr) (@nil instr) (i :: l));
        [assumption|thr_simpl|intros u _; thr_simpl|thr_simpl|exact Hc0
        |cbn -[Nat.eqb]; unfold updN, th; rewrite Nat.eqb_refl; cbn; rewrite app_nil_r; reflexivity
        |cr_chs|intros e []|intros j []|exact Hq|].
      intros c m0 b Hu _. congruence. }
  destruct Fin as [tl3 [E3 R3]].
  exists (dels ++ tl2 ++ tl3). split.
  - rewrite E3, E2', Edels. rewrite <- !app_assoc. reflexivity.
  - rewrite !evs_app, !fold_left_app. exact R3.
Qed.

Lemma begin_cmd_chan_done : forall st t c st' ev v,
  begin_cmd st t c = (st', ev, Some v) -> chan_cmd c -> v = RBad.
Proof.
  intros st t c st' ev v H Hc. destruct c; cbn in Hc; try contradiction; cbn [begin_cmd] in H; destr_all H; inversion H; reflexivity.
Qed.

Lemma begin_cmd_done_tret : forall st t c st' ev v,
  (t < nthr st)%nat -> begin_cmd st t c = (st', ev, Some v) -> tret (thr st' t) = tret (thr st t).
Proof.
  intros st t c st' ev v Ht H.
  assert (Sp : forall s1 p f, thr s1 = thr st -> nthr s1 = nthr st -> tret (thr (spawn_thread s1 t p f) t) = tret (thr st t)).
  { intros s1 p f E1 E2. cbn. unfold updN, th. destruct (Nat.eqb_spec t (nthr s1)); [lia|]. rewrite E1. reflexivity. }
  destruct c; cbn [begin_cmd] in H; destr_all H; inversion H; subst; clear H; try reflexivity;
    repeat match goal with
           | E : wh_add _ _ = Some _ |- _ => destruct (wh_add_core _ _ _ _ E) as [? [? [? [C1 [C2 _]]]]]; clear E
           | E : fill_loop _ _ _ = _ |- _ => destruct (fill_loop_pps _ _ _ _ _ E) as [_ C1]; clear E
           end;
    try (cbn; rewrite C1; reflexivity); try (apply Sp; auto; fail); try thr_simpl.
Qed.

Lemma sends_suffix : forall tr m, exists ex, m13_sends (fold_left m13_step tr m) = ex ++ m13_sends m.
Proof.
  induction tr as [|[t e] tr IH]; intro m; [exists []; reflexivity|]. cbn [fold_left].
  destruct (IH (m13_step m (t, e))) as [ex E].
  assert (S1 : exists ex1, m13_sends (m13_step m (t, e)) = ex1 ++ m13_sends m).
  { destruct e; try (exists []; reflexivity).
    - destruct c; try (exists []; reflexivity). eexists [_]. reflexivity.
    - exists []. unfold m13_step. destruct (get_tid t (b_cur (m13_b m))) as [c|]; [|reflexivity].
      destruct c; try reflexivity; destruct v; try reflexivity; destruct b; reflexivity. }
  destruct S1 as [ex1 E1]. exists (ex ++ ex1). rewrite E, E1, app_assoc. reflexivity.
Qed.

Lemma nodup_suffix : forall tr m, NoDup (map sk (m13_sends (fold_left m13_step tr m))) -> NoDup (map sk (m13_sends m)).
Proof.
  intros tr m H. destruct (sends_suffix tr m) as [ex E]. rewrite E, map_app in H.
  induction (map sk ex) as [|a l IH]; [exact H|]. cbn in H. inversion H; subst. apply IH. assumption.
Qed.

(** ** one step, a whole run *)
Record AllInv (st : wstate) : Prop := {
  a_m : MInv st; a_w : WInv st; a_sl : SlInv st; a_lk : LKInv st; a_ch : ChInv st; a_pq : PqInv st;
  a_x : XInv st; a_y : YInv st; a_u : UInv st; a_sh : ShInv st }.

Lemma wstep_All : forall st t st' ev, AllInv st -> wstep st t = (st', ev) -> AllInv st'.
Proof.
  intros st t st' ev [M W Sl L C Q X Y U Sh] E. constructor.
  - exact (wstep_inv _ _ _ _ M E).
  - exact (wstep_ww _ _ _ _ M W E).
  - exact (wstep_Sl _ _ _ _ M Sl E).
  - exact (wstep_LK _ _ _ _ M L E).
  - exact (wstep_Ch _ _ _ _ M W Sl L C E).
  - exact (wstep_Pq _ _ _ _ M W Sl C Q E).
  - exact (wstep_X _ _ _ _ M X E).
  - exact (wstep_Y _ _ _ _ M Y E).
  - exact (wstep_U _ _ _ _ M U E).
  - exact (wstep_Sh _ _ _ _ M Q Y Sh E).
Qed.

Lemma All_init : forall scr, AllInv (winit scr).
Proof.
  intro scr. constructor.
  - apply MInv_init.
  - apply WInv_init.
  - apply Sl_init.
  - exact (reachable_LK (winit scr) (ex_intro _ scr (ex_intro _ [] eq_refl))).
  - apply Ch_init.
  - apply Pq_init.
  - apply X_init.
  - apply Y_init.
  - apply U_init.
  - apply Sh_init.
Qed.

Lemma settle_B_events : forall st t ev done st' ev', settle st t ev done = (st', ev') -> exists tail, ev' = ev ++ tail.
Proof.
  intros st t ev done st' ev' H. unfold settle in H.
  destruct (norm _ _ _ _ ev) as [[[s1 acc1] k1] ev1] eqn:En. cbn zeta in H.
  destruct (norm_dels _ _ _ _ _ _ _ _ _ En) as [dels [Ed _]].
  match type of H with (let '(st2, ev2) := ?E in _) = _ => destruct E as [st2 ev2] eqn:E2 end.
  assert (X : exists t2, ev2 = ev ++ t2).
  { destruct done as [v|]; [inversion E2; subst; exists (dels ++ [ERet v]); rewrite app_assoc; reflexivity|].
    destruct k1; [|inversion E2; subst; eauto].
    destruct (tcur _); inversion E2; subst; [|eauto]. eexists (dels ++ [_]). rewrite app_assoc. reflexivity. }
  destruct X as [t2 ->].
  destruct (tcont (th st2 t)); [|inversion H; subst; eauto].
  destruct (tscript (th st2 t)); [|inversion H; subst; eauto].
  destruct (tcur (th st2 t)); [inversion H; subst; eauto|].
  destruct (tfinal (th st2 t)); inversion H; subst; [|eauto].
  destruct (is_main t); [eauto|]. exists (t2 ++ [EExit]). rewrite app_assoc. reflexivity.
Qed.

Theorem wstep_C : forall st ms t st' ev,
  AllInv st -> BRel st (m13_b ms) -> CRel PNone st ms -> wstep st t = (st', ev) ->
  NoDup (map sk (m13_sends (fold_left m13_step (evs t ev) ms))) ->
  CRel PNone st' (fold_left m13_step (evs t ev) ms).
Proof.
  intros st ms t st' ev A B R H Nd.
  destruct A as [[I [P Wf]] W Sl L C Q X Y U S].
  unfold wstep in H.
  destruct (enabled st t) eqn:En; cbn [negb] in H; [|inversion H; subst; eapply cr_msame; [exact R|apply m13_plain_fold; cr_pl]].
  assert (Ht : (t < nthr st)%nat).
  { unfold enabled in En. apply andb_true_iff in En. destruct En as [En _]. apply Nat.ltb_lt in En. exact En. }
  assert (It : CInv (core (tick st t))) by (eapply CInv_ceq; [|exact I]; unfold tick; same_core).
  assert (Pt : pristine (tick st t)) by (unfold tick; prist st t).
  assert (Wt : wfi (tick st t)) by (eapply wfi_eq; [| | |exact Wf]; reflexivity).
  assert (Qt : PqInv (tick st t)) by (apply (pq_same st); auto; try reflexivity; intro u; unfold tick; repeat split; thr_simpl).
  assert (Xt : XInv (tick st t)) by (apply (x_same st); auto; unfold tick; xs).
  assert (Yt : YInv (tick st t)).
  { intro u. unfold tick. cbn -[Nat.eqb]. unfold updN, th. destruct (Nat.eqb_spec u t); subst; cbn; apply Y. }
  assert (Ut : UInv (tick st t)).
  { intros u Hu. unfold tick. cbn -[Nat.eqb]. unfold updN, th. destruct (Nat.eqb_spec u t); [cbn in Hu; lia|]. apply U. exact Hu. }
  assert (St : ShInv (tick st t)) by (unfold tick; sh_eq st).
  assert (Ct : ChInv (tick st t)) by (eapply (ch_eq st); [| | | |exact C]; try reflexivity; unfold tick; thr_simpl).
  assert (Bt : BRel (tick st t) (m13_b ms)) by (apply (br_same st); auto; intro u; unfold tick; split; thr_simpl).
  assert (Rt : CRel PNone (tick st t) ms).
  { apply (cr_steq _ st); auto. intro u. unfold tick. split; [thr_simpl|split; [thr_simpl|intros _; thr_simpl]]. }
  assert (Htt : (t < nthr (tick st t))%nat) by exact Ht.
  set (s0 := tick st t) in *. clearbody s0. clear En.
  destruct (tstarted (th s0 t)) eqn:Es0; cbn [negb] in H.
  - destruct (tcont (th s0 t)) as [|i r] eqn:Ec.
    + destruct (tscript (th s0 t)) as [|c0 cs] eqn:Es; [inversion H; subst; eapply cr_msame; [exact R|apply m13_plain_fold; cr_pl]|].
      match type of H with context [begin_cmd ?S0 t ?cc] =>
        destruct (begin_cmd S0 t cc) as [[st2 ev0] done] eqn:Eb; set (s1 := S0) in * end.
      assert (Hcur0 : tcur (thr s0 t) = None).
      { destruct (tcur (thr s0 t)) eqn:E; auto. exfalso. apply (Yt t); [congruence|exact Ec]. }
      assert (I1 : CInv (core s1)) by (eapply CInv_ceq; [|exact It]; unfold s1; same_core).
      assert (P1 : pristine s1) by (unfold s1; prist s0 t).
      assert (W1 : wfi s1) by (eapply wfi_eq; [| | |exact Wt]; reflexivity).
      assert (Hc1 : tcont (thr s1 t) = []) by (unfold s1; thr_simpl; exact Ec).
      assert (Hcur1 : tcur (thr s1 t) = Some c0) by (unfold s1; thr_simpl).
      assert (Hret1 : tret (thr s1 t) = RUnit) by (unfold s1; thr_simpl).
      assert (Hs1 : tstarted (thr s1 t) = true) by (unfold s1; thr_simpl; exact Es0).
      assert (S1 : ShInv s1) by (apply (sh_install s0 s1 t c0 St Ec); auto; unfold s1; thr_simpl).
      assert (U1 : UInv s1).
      { intros u Hu. unfold s1. cbn -[Nat.eqb]. unfold updN, th. destruct (Nat.eqb_spec u t); [cbn in Hu; lia|]. apply Ut. exact Hu. }
      destruct (settle_B_events _ _ _ _ _ _ H) as [tail Et].
      assert (Hcur1' : tcur (thr s1 t) <> None) by congruence.
      assert (Q1 : PqInv s1).
      { unfold th in Ec, Es. apply (pq_idle s0 s1 t [] Qt Ec); try reflexivity.
        - exact Hc1.
        - unfold s1. thr_simpl.
        - unfold s1. thr_simpl.
        - unfold s1. cbn -[Nat.eqb]. unfold updN, th. rewrite Nat.eqb_refl. cbn. intros _ H0 _.
          apply (pk s0 Qt t Htt H0). right. rewrite Es. discriminate.
        - intros j [].
        - unfold s1. cbn -[Nat.eqb]. unfold updN, th. rewrite Nat.eqb_refl. cbn. apply (pf s0 Qt t). }
      pose proof (begin_cmd_Pq s1 t c0 st2 ev0 done I1 P1 Q1 Hc1 Htt Hcur1' Eb) as Q2.
      pose proof (begin_cmd_Sh s1 t c0 st2 ev0 done S1 P1 Htt Hc1 Hcur1 Hret1 Eb) as S2.
      destruct (begin_cmd_inv s1 t c0 st2 ev0 done I1 P1 W1 Hc1 Htt Eb) as [I2 _].
      pose proof (begin_B s0 (m13_b ms) t c0 cs st2 ev0 done Bt Pt Htt Hcur0 Ec Eb) as B2.
      destruct (begin_cmd_sum s1 t c0 st2 ev0 done P1 Htt Eb) as [_ [Ht2 [_ [Hn _]]]].
      assert (Ht2' : (t < nthr st2)%nat) by (change (nthr s1) with (nthr s0) in Hn; destruct Hn as [Hn|[Hn _]]; lia).
      rewrite Et in Nd. rewrite evs_app, fold_left_app in Nd.
      pose proof (nodup_suffix _ _ Nd) as Nd2.
      change (evs t (ECmd c0 :: ev0)) with ((t, ECmd c0) :: evs t ev0) in Nd2. cbn [fold_left] in Nd2.
      pose proof (nodup_suffix _ _ Nd2) as Nd1.
      assert (R1 : CRel (pend_install t c0) s1 (m13_step ms (t, ECmd c0))).
      { apply (cr_install s0 s1 ms t c0 Rt Hcur0 Ec); auto. unfold s1. thr_simpl. }
      pose proof (begin_cmd_C s1 _ t c0 st2 ev0 done S1 P1 U1 R1 Htt Hc1 Hcur1 Eb) as R2.
      destruct (settle_C st2 _ t (ECmd c0 :: ev0) done st' ev (pend_begin t c0 done) S2 I2 R2) as [tail' [Et' Rf]]; auto.
      * rewrite m13_b_fold. change (evs t (ECmd c0 :: ev0)) with ((t, ECmd c0) :: evs t ev0) in B2. cbn [fold_left] in B2.
        rewrite m13_b_step. exact B2.
      * apply (pf st2 Q2 t).
      * intro D. subst done. left. unfold pend_begin. destruct c0; reflexivity.
      * intros v D. subst done. split; [rewrite (begin_cmd_done s1 t c0 st2 ev0 v Htt Eb); exact Hc1|].
        exists c0. split; [rewrite Ht2; exact Hcur1|]. split; [intro Hcc; eapply begin_cmd_chan_done; eauto|]. split; [reflexivity|].
        rewrite (begin_cmd_done_tret s1 t c0 st2 ev0 v Htt Eb). exact Hret1.
      * rewrite Et', evs_app, fold_left_app. change (evs t (ECmd c0 :: ev0)) with ((t, ECmd c0) :: evs t ev0). cbn [fold_left]. exact Rf.
    + destruct (exec_instr s0 t i r) as [st1 ev1] eqn:Ee.
      destruct (settle_B_events _ _ _ _ _ _ H) as [tail Et].
      rewrite Et in Nd. rewrite evs_app, fold_left_app in Nd. pose proof (nodup_suffix _ _ Nd) as Nd1.
      pose proof (nodup_suffix _ _ Nd1) as Nd0.
      destruct (exec_instr_C s0 ms t i r st1 ev1 St Ct Rt Nd0 Ec Ee) as [p' [R1 Hp]].
      assert (I1 : CInv (core st1)) by (eapply exec_instr_inv; eauto).
      pose proof (exec_instr_Sh s0 t i r st1 ev1 St Ec Ee) as S1.
      pose proof (exec_instr_B s0 (m13_b ms) t i r st1 ev1 Bt Ec Htt Ee) as B1.
      destruct (exec_instr_tf _ _ _ _ _ _ Ee) as [Hn1 [Hf _]].
      destruct (settle_C st1 _ t ev1 None st' ev p' S1 I1 R1) as [tail' [Et' Rf]]; auto.
      * rewrite m13_b_fold. exact B1.
      * lia.
      * destruct (Hf t) as [_ [_ [F _]]]. rewrite F. apply (pf s0 Qt t).
      * intros v D. discriminate D.
      * rewrite Et', evs_app, fold_left_app. exact Rf.
  - set (s1 := upd_th s0 t (set_tstarted (th s0 t) true)) in *.
    destruct (settle_B_events _ _ _ _ _ _ H) as [tail Et].
    rewrite Et in Nd. rewrite evs_app, fold_left_app in Nd. pose proof (nodup_suffix _ _ Nd) as Nd1.
    assert (S1 : ShInv s1) by (unfold s1; sh_eq s0).
    assert (I1 : CInv (core s1)) by (eapply CInv_ceq; [|exact It]; unfold s1; same_core).
    assert (B1 : BRel s1 (m13_b ms)) by (apply (br_same s0); auto; intro u; unfold s1; split; thr_simpl).
    assert (R1 : CRel PNone s1 (m13_step ms (t, EStart))).
    { apply (cr_msame _ _ ms); [|apply m13_plain_step; exact Logic.I]. apply (cr_steq _ s0); auto. intro u. unfold s1. split; [thr_simpl|split; [thr_simpl|intros _; thr_simpl]]. }
    destruct (settle_C s1 _ t [EStart] None st' ev PNone S1 I1 R1) as [tail' [Et' Rf]]; auto;
      try (intros v D; discriminate D);
      try (unfold s1; cbn -[Nat.eqb]; unfold updN, th; rewrite Nat.eqb_refl; cbn; apply (pf s0 Qt t)).
    rewrite Et'. change (evs t ([EStart] ++ tail')) with ((t, EStart) :: evs t tail'). cbn [fold_left]. exact Rf.
Qed.

Definition m13_0 : m13 := mkM13 mb0 [] [] [] [] [] [] false.

Lemma C_init : forall scr, CRel PNone (winit scr) m13_0.
Proof.
  intro scr. constructor; cbn; intros; try discriminate; try contradiction; try reflexivity; try (constructor; fail).
  all: try (destruct a1; discriminate).
Qed.

Theorem wrun_C : forall sched st ms,
  AllInv st -> BRel st (m13_b ms) -> CRel PNone st ms ->
  NoDup (map sk (m13_sends (fold_left m13_step (flatten (snd (wrun st sched))) ms))) ->
  AllInv (fst (wrun st sched)) /\
  BRel (fst (wrun st sched)) (m13_b (fold_left m13_step (flatten (snd (wrun st sched))) ms)) /\
  CRel PNone (fst (wrun st sched)) (fold_left m13_step (flatten (snd (wrun st sched))) ms).
Proof.
  induction sched as [|t rest IH]; intros st ms A B R Nd; [cbn; auto|].
  cbn [wrun] in *.
  destruct (wstep st t) as [st1 ev] eqn:E.
  destruct (wrun st1 rest) as [st2 tr] eqn:Er. cbn [fst snd] in *.
  rewrite flatten_cons, fold_left_app in *.
  pose proof (nodup_suffix _ _ Nd) as Nd1.
  pose proof (wstep_C st ms t st1 ev A B R E Nd1) as R1.
  pose proof (wstep_All st t st1 ev A E) as A1.
  assert (B1 : BRel st1 (m13_b (fold_left m13_step (evs t ev) ms))).
  { rewrite m13_b_fold. destruct A as [M _ _ _ _ _ X Y _ _]. exact (wstep_B st _ t st1 ev M X Y B E). }
  specialize (IH st1 _ A1 B1 R1). rewrite Er in IH. cbn [fst snd] in IH. apply IH. exact Nd.
Qed.

(** the (channel, message) pairs of the sends begun in a trace *)
Definition send_keys (tr : otrace) : list (Z * Z) :=
  flat_map (fun te => match snd te with ECmd (CSend c x) => [(c, x)] | _ => [] end) tr.

Lemma sends_keys : forall tr m, map sk (m13_sends (fold_left m13_step tr m)) = rev (send_keys tr) ++ map sk (m13_sends m).
Proof.
  induction tr as [|[t e] tr IH]; intro m; [reflexivity|]. cbn [fold_left send_keys flat_map]. fold (send_keys tr). rewrite IH.
  assert (S1 : map sk (m13_sends (m13_step m (t, e))) = rev (match e with ECmd (CSend c x) => [(c, x)] | _ => [] end) ++ map sk (m13_sends m)).
  { destruct e; try reflexivity.
    - destruct c; reflexivity.
    - unfold m13_step. destruct (get_tid t (b_cur (m13_b m))) as [c|]; [|reflexivity].
      destruct c; try reflexivity; destruct v; try reflexivity; destruct b; reflexivity. }
  rewrite S1. cbn [snd]. rewrite rev_app_distr, <- app_assoc. reflexivity.
Qed.

(** C13, trace form: the channel monitor holds on every run of the model whose send commands carry pairwise
    distinct (channel, message) pairs (the monitor identifies a message by this pair). *)
Theorem C13_monitor : forall scr sched,
  NoDup (send_keys (flatten (wtrace scr sched))) ->
  C13_ok (flatten (wtrace scr sched)) false = true.
Proof.
  intros scr sched Hnd. unfold wtrace in *.
  assert (Nd : NoDup (map sk (m13_sends (fold_left m13_step (flatten (snd (wrun (winit scr) sched))) m13_0)))).
  { rewrite sends_keys. cbn. rewrite app_nil_r. apply NoDup_rev. exact Hnd. }
  destruct (wrun_C sched (winit scr) m13_0 (All_init scr) (mb0_rel scr) (C_init scr) Nd) as [A [B R]].
  set (st := fst (wrun (winit scr) sched)) in *.
  set (m := fold_left m13_step (flatten (snd (wrun (winit scr) sched))) m13_0) in *.
  unfold C13_ok. fold m13_0. fold m. cbn zeta.
  rewrite (r_bad _ st m R). cbn [negb andb].
  destruct (mb_quiescent (m13_b m)) eqn:Eq; [|reflexivity]. cbn [negb andb].
  assert (Rs : reachable st) by (exists scr, sched; reflexivity).
  destruct A as [[I [P Wf]] _ _ _ C _ X _ _ _].
  pose proof (mbq_quiescent st _ B X P Eq) as Q.
  apply forallb_forall. intros [u [c x]] Hin. cbn [snd fst].
  pose proof (r_ex_acc _ st m R u c x Hin) as Ex.
  destruct (copen (chs st c)) eqn:Eo.
  - destruct (chan_not_stranded st c Rs Q Eo) as [Eq0 _].
    pose proof (r_open _ st m R c Eo) as Er. cbn [pendm] in Er. rewrite app_nil_r, Eq0, app_nil_r in Er.
    assert (T0 : transit st c = []) by (unfold transit; destruct Q as [_ [Qm _]]; unfold mcont in Qm; rewrite Qm; reflexivity).
    rewrite T0, app_nil_r in Er.
    apply orb_true_iff. left. apply mem_pair_In. apply in_fm_fwd. rewrite in_rev, <- fwds_eq, <- Er, accs_eq, <- in_rev.
    apply in_fm_acc. eauto.
  - apply orb_true_iff. right. apply (r_begun _ st m R c Ex Eo).
Qed.
