(** Glue between Layer R and Layer T: witnesses.  The hypotheses of [glue_fixed_timers_proved] are
    satisfiable by a non-trivial history, and each clause of the domain is necessary (the two
    machines differ when it is dropped).  Everything here is a [vm_compute] on the two executable
    machines: tests, not theorems. *)
From Coq Require Import ZArith List Bool Lia.
From Stk Require Import Lib.U Gen.SrcTimers T.Model T.Spec T.Inv T.InvProofs T.Rel T.Witness
  Glue.TimersAbs Glue.TimersAbsProofs.
Import ListNotations.
Local Open Scope Z_scope.

Definition ms : Z := 1000000.

(** a millisecond-aligned history: two groups of three timers firing in ONE run -- three clamped to
    Core::now = 2 ms (an expiry in the past, one before t0, one equal to now), then three with expiry
    3 ms of which one was created at another Core::now (a tie the C19 monitor does not decide) and one
    through `after`; a timer 20000 s ahead; deletion of a pending timer, of the same timer again, with
    the Default key, of a fired timer; a run that goes backwards; now *)
Definition glue_ops : list top :=
  [ OAdd (5 * ms) 1; OAdd (3 * ms) 2; OAfter (3 * ms) 3; ORun (2 * ms); OAdd (3 * ms) 4; OAdd (1 * ms) 5;
    OAdd (-7 * ms) 6; OAdd (2 * ms) 7; OAdd (20000000 * ms) 8; OAdd (9 * ms) 9;
    ODel 9 2147483657 550; ODel 9 2147483657 550; ODel (-1) 0 0; ONow;
    ORun (4 * ms); ORun (1 * ms); ORun (6 * ms); ODel 0 2147483649 306; ORun (20000001 * ms); ONow ].

Lemma glue_ops_domain : ms_aligned glue_ops.
Proof.
  split; [|apply adom_b_sound; vm_compute; reflexivity].
  split; [vm_compute; reflexivity|split; [unfold glue_ops, ms; bounds_tac|split; [reflexivity|split; [cbn; nodup_tac|vm_compute; reflexivity]]]].
Qed.

Lemma glue_ops_outputs :
  fst (arun ainit glue_ops) =
  [ AKey; AKey; AKey; AFired []; AKey; AKey; AKey; AKey; AKey; AKey;
    ABool true; ABool false; ABool false; ANs 2000000;
    AFired [5; 6; 7; 2; 3; 4]; AFired []; AFired [1]; ABool false; AFired [8]; ANs 20000001000000 ] /\
  map (option_map obs) (fst (trun t_init glue_ops)) = map Some (fst (arun ainit glue_ops)).
Proof. vm_compute. split; reflexivity. Qed.

(** the generator's parity discipline (even run instants, odd timer instants) *)
Definition parity_ops : list top :=
  [ OAdd (5 * ms) 1; OAdd (3 * ms) 2; OAfter (3 * ms) 3; ORun (2 * ms); OAfter (1 * ms) 4; OAdd (1 * ms) 5;
    ORun (4 * ms); ONow; ORun (6 * ms) ].
Lemma parity_ops_domain : good parity_ops /\ pdom ainit parity_ops.
Proof.
  split.
  - split; [vm_compute; reflexivity|split; [unfold parity_ops, ms; bounds_tac|split; [reflexivity|split; [cbn; nodup_tac|vm_compute; reflexivity]]]].
  - vm_compute. repeat split; intros; discriminate.
Qed.
Lemma parity_ops_outputs :
  fst (arun ainit parity_ops) = [ AKey; AKey; AKey; AFired []; AKey; AKey; AFired [5; 2; 3; 4]; ANs 4000000; AFired [1] ].
Proof. vm_compute. reflexivity. Qed.

(** ** the boundary: a run at EXACTLY the expiry of a pending timer.
    The code fires a timer when ceil_tick(expiry) <= floor_tick(run instant), ticks of 2^14 ns;
    1 ms = 2^6 * 15625 ns, so a whole millisecond is a whole tick only at ms 0, 256, 512, 768 of a second. *)
Definition boundary_ops : list top := [ OAdd (5 * ms) 1; ORun (5 * ms); ORun (6 * ms) ].

(** Layer T's model (= the real crate): not in the run at 5 ms, in the next one *)
Lemma boundary_not_fired :
  fst (trun t_init boundary_ops) = [ Some (RKey 2147483649 306); Some (RFired []); Some (RFired [1]) ].
Proof. vm_compute. reflexivity. Qed.
(** Layer R's rule `expiry <= instant`: in the run at 5 ms *)
Lemma boundary_abstract_fires :
  fst (arun ainit boundary_ops) = [ AKey; AFired [1]; AFired [] ].
Proof. vm_compute. reflexivity. Qed.
(** the history is good and aligned; only the clause "no advancing run at the expiry of a pending timer" fails *)
Lemma boundary_outside_domain : good boundary_ops /\ adom_b ainit boundary_ops = false /\
  adom_b ainit [ OAdd (5 * ms) 1 ] = true.
Proof.
  split; [|split; vm_compute; reflexivity].
  split; [vm_compute; reflexivity|split; [unfold boundary_ops, ms; bounds_tac|split; [reflexivity|split; [cbn; nodup_tac|vm_compute; reflexivity]]]].
Qed.
(** at a tick-aligned millisecond (256 ms) both machines fire the timer in the run at its expiry *)
Lemma boundary_tick_aligned :
  map (option_map obs) (fst (trun t_init [ OAdd (256 * ms) 1; ORun (256 * ms); ORun (257 * ms) ])) =
  [ Some AKey; Some (AFired [1]); Some (AFired []) ] /\
  fst (arun ainit [ OAdd (256 * ms) 1; ORun (256 * ms); ORun (257 * ms) ]) = [ AKey; AFired [1]; AFired [] ].
Proof. vm_compute. split; reflexivity. Qed.

(** ** alignment is necessary.  Sub-millisecond instants: the expiry 5.00001 ms has passed at
    5.00002 ms, but both lie in the same tick: the code does not fire yet *)
Definition unaligned_ops : list top := [ OAdd (5 * ms + 10) 1; ORun (5 * ms + 20); ORun (6 * ms) ].
Lemma unaligned_differs :
  map (option_map obs) (fst (trun t_init unaligned_ops)) = [ Some AKey; Some (AFired []); Some (AFired [1]) ] /\
  fst (arun ainit unaligned_ops) = [ AKey; AFired [1]; AFired [] ] /\
  good unaligned_ops /\ adom_b ainit unaligned_ops = false.
Proof.
  split; [vm_compute; reflexivity|split; [vm_compute; reflexivity|split; [|vm_compute; reflexivity]]].
  split; [vm_compute; reflexivity|split; [unfold unaligned_ops, ms; bounds_tac|split; [reflexivity|split; [cbn; nodup_tac|vm_compute; reflexivity]]]].
Qed.

(** ... and the ORDER: two expiries inside one tick run in creation order in the code, in expiry
    order in the abstract rule *)
Definition unaligned_order_ops : list top := [ OAdd (5 * ms + 10) 1; OAdd (5 * ms + 5) 2; ORun (6 * ms) ].
Lemma unaligned_order_differs :
  map (option_map obs) (fst (trun t_init unaligned_order_ops)) = [ Some AKey; Some AKey; Some (AFired [1; 2]) ] /\
  fst (arun ainit unaligned_order_ops) = [ AKey; AKey; AFired [2; 1] ] /\
  good unaligned_order_ops /\ adom_b ainit unaligned_order_ops = false.
Proof.
  split; [vm_compute; reflexivity|split; [vm_compute; reflexivity|split; [|vm_compute; reflexivity]]].
  split; [vm_compute; reflexivity|split; [unfold unaligned_order_ops, ms; bounds_tac|split; [reflexivity|split; [cbn; nodup_tac|vm_compute; reflexivity]]]].
Qed.

(** ** "less than 32767 s ahead" is necessary: at 32767 s ahead and beyond Timers::add stores the
    timer in a var slot; two such timers with expiries that the abstract rule orders by expiry may
    run in slot order (known finding F6 is the same mechanism just below the limit) *)
Definition far_ops : list top :=
  [ OAdd (32768000 * ms) 1; OAdd (32767000 * ms) 2; ORun (32769000 * ms) ].
Lemma far_differs :
  map (option_map obs) (fst (trun t_init far_ops)) = [ Some AKey; Some AKey; Some (AFired [1; 2]) ] /\
  fst (arun ainit far_ops) = [ AKey; AKey; AFired [2; 1] ] /\
  good far_ops /\ adom_b ainit far_ops = false.
Proof.
  split; [vm_compute; reflexivity|split; [vm_compute; reflexivity|split; [|vm_compute; reflexivity]]].
  split; [vm_compute; reflexivity|split; [unfold far_ops, ms; bounds_tac|split; [reflexivity|split; [cbn; nodup_tac|vm_compute; reflexivity]]]].
Qed.
