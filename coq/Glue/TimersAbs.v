(** Glue between Layer R and Layer T: the ABSTRACT timer machine that Layer R uses
    (coq/R/Rt.v: [timer_add], [ti_due], [ti_sort], [fire], [ATimerDel]) restated over the operation type
    [top] of Layer T (coq/T/Model.v), restricted to FIXED timers, and the domain of histories on
    which it is claimed to be what the faithful tick / wrap-around model of Layer T does.
    Definitions only; the proofs are in Glue/TimersAbsProofs.v.

    Layer R (Rt.v)                          here
      timers s ++ [TI i TFixed t ord ci]      [a_add]     ord = max t now, i = creation index
      ti_due t x := e <=? t                   [ai_due]
      ti_le / ti_insert / ti_sort             [ai_le] / [ai_insert] / [ai_sort]   key = (ord, creation index)
      fire: filter due, sort, keep the rest   [astep] on [ORun]
      MRunMain: if t >? now then now := t     [astep] on [ORun]
      ATimerDel: ti_find / ti_remove          [astep] on [ODel]  (true iff the timer is pending)

    Instants are nanoseconds since the instant given to Stakker::new, as in Layer T (Layer R counts
    whole milliseconds from the base instant of the case; 1 ms = 1_000_000 ns). *)
From Coq Require Import ZArith List Bool.
From Stk Require Import T.Model T.Spec T.Rel.
Import ListNotations.
Local Open Scope Z_scope.

(** ** the abstract machine *)
Record aitem := mkAI {
  ai_exp : Z;       (* the expiry that was asked for (ns) *)
  ai_ord : Z;       (* clamped expiry: max expiry (Core::now at creation) -- Rt.v's [ord] *)
  ai_idx : Z;       (* index of the creating operation in the history -- creation order *)
  ai_cb : Z         (* callback id *)
}.

Record astate := mkA {
  a_now : Z;                 (* Core::now, ns *)
  a_pend : list aitem;       (* pending timers in creation order (Rt.v appends) *)
  a_count : Z                (* index of the next operation *)
}.
Definition ainit : astate := mkA 0 [] 0.

(** order of firing inside one run: clamped expiry, then creation (Rt.v [ti_le]) *)
Definition ai_le (x y : aitem) : bool :=
  (ai_ord x <? ai_ord y) || ((ai_ord x =? ai_ord y) && (ai_idx x <=? ai_idx y)).
Fixpoint ai_insert (x : aitem) (l : list aitem) : list aitem :=
  match l with
  | [] => [x]
  | y :: r => if ai_le x y then x :: l else y :: ai_insert x r
  end.
Definition ai_sort (l : list aitem) : list aitem := fold_right ai_insert [] l.

(** Rt.v [ti_due]: expiry <= run instant *)
Definition ai_due (ns : Z) (x : aitem) : bool := ai_exp x <=? ns.

(** what Layer R observes of a timer operation: no keys (Layer R names timers by variables) *)
Inductive aout :=
| AKey                      (* a timer was created *)
| ABool (b : bool)          (* timer_del *)
| AFired (l : list Z)       (* callbacks queued by a run, in order *)
| ANs (d : Z)               (* Core::now *)
| AOther.                   (* operations outside the fragment *)

Definition a_bump (a : astate) : astate := mkA (a_now a) (a_pend a) (a_count a + 1).
Definition a_add (a : astate) (e cb : Z) : astate :=
  mkA (a_now a) (a_pend a ++ [mkAI e (Z.max e (a_now a)) (a_count a) cb]) (a_count a + 1).

Definition astep (a : astate) (o : top) : astate * aout :=
  match o with
  | OAdd ns cb => (a_add a ns cb, AKey)
  | OAfter dur cb => (a_add a (a_now a + dur) cb, AKey)
  | ODel kref _ _ =>
      (mkA (a_now a) (filter (fun x => negb (ai_idx x =? kref)) (a_pend a)) (a_count a + 1),
       ABool (existsb (fun x => ai_idx x =? kref) (a_pend a)))
  | ORun ns =>
      if ns >? a_now a then
        (mkA ns (filter (fun x => negb (ai_due ns x)) (a_pend a)) (a_count a + 1),
         AFired (map ai_cb (ai_sort (filter (ai_due ns) (a_pend a)))))
      else (a_bump a, AFired [])
  | ONow => (a_bump a, ANs (a_now a))
  | _ => (a_bump a, AOther)
  end.

Fixpoint arun (a : astate) (ops : list top) : list aout * astate :=
  match ops with
  | [] => ([], a)
  | o :: r => let '(a1, out) := astep a o in let '(l, af) := arun a1 r in (out :: l, af)
  end.

(** the observable part of an output of the Layer T model *)
Definition obs (o : tout) : aout :=
  match o with
  | RKey _ _ => AKey
  | RBool b => ABool b
  | RFired l => AFired l
  | RNs d => ANs d
  | _ => AOther
  end.

(** ** the domain *)
Definition MS : Z := 1000000.                        (* 1 ms in ns *)
Definition aligned (x : Z) : Prop := x mod MS = 0.

(** admissible operation in abstract state [a]:
    - only fixed-timer operations, run and now;
    - every instant / duration is a whole number of milliseconds;
    - a timer is created less than 32767 s (= [NEAR], the limit of the fixed path of Timers::add) ahead of
      Core::now -- Layer R's generator stays below 30000 s;
    - a run that advances time is not at EXACTLY the expiry of a pending timer (see
      [boundary_not_fired] / [boundary_abstract_fires] in Glue/TimersAbsWitness.v: the code compares
      ceil(expiry) with floor(now) in 2^14 ns ticks, so such a timer fires in that run only when the
      instant happens to be tick-aligned, i.e. at ms 0, 256, 512, 768 of a second). *)
Definition aop_ok (a : astate) (o : top) : Prop :=
  match o with
  | OAdd ns _ => aligned ns /\ ns < a_now a + NEAR
  | OAfter dur _ => aligned dur /\ 0 <= dur < NEAR
  | ODel _ _ _ => True
  | ORun ns => aligned ns /\ (a_now a < ns -> forall x, In x (a_pend a) -> ai_exp x <> ns)
  | ONow => True
  | _ => False
  end.

Fixpoint adom (a : astate) (ops : list top) : Prop :=
  match ops with
  | [] => True
  | o :: r => aop_ok a o /\ adom (fst (astep a o)) r
  end.

(** the same domain as a boolean (reflected by [adom_b_sound], Glue/TimersAbsProofs.v; used by the Examples) *)
Definition aop_ok_b (a : astate) (o : top) : bool :=
  match o with
  | OAdd ns _ => (ns mod MS =? 0) && (ns <? a_now a + NEAR)
  | OAfter dur _ => (dur mod MS =? 0) && (0 <=? dur) && (dur <? NEAR)
  | ODel _ _ _ => true
  | ORun ns => (ns mod MS =? 0) && (negb (a_now a <? ns) || forallb (fun x => negb (ai_exp x =? ns)) (a_pend a))
  | ONow => true
  | _ => false
  end.
Fixpoint adom_b (a : astate) (ops : list top) : bool :=
  match ops with
  | [] => true
  | o :: r => aop_ok_b a o && adom_b (fst (astep a o)) r
  end.

(** the histories of the glue theorem: [good] is Layer T's class (fewer than 2^31 - 2 operations,
    instants below 2^61 ns, distinct callback ids, no verification-hook pokes, a key operation uses the
    key returned by the operation it names) *)
Definition ms_aligned (ops : list top) : Prop := good ops /\ adom ainit ops.

(** ** the static discipline of Layer R's generator (tools/checks/layer_r.py, class Gen): run instants
    are EVEN milliseconds, timer instants and `after` durations are ODD milliseconds.  It implies the
    run-instant clause of the domain ([parity_adom] in Glue/TimersAbsProofs.v). *)
Definition even_ms (x : Z) : Prop := x mod (2 * MS) = 0.
Definition odd_ms (x : Z) : Prop := x mod (2 * MS) = MS.

Definition pop_ok (a : astate) (o : top) : Prop :=
  match o with
  | OAdd ns _ => odd_ms ns /\ ns < a_now a + NEAR
  | OAfter dur _ => odd_ms dur /\ 0 <= dur < NEAR
  | ODel _ _ _ => True
  | ORun ns => even_ms ns
  | ONow => True
  | _ => False
  end.
Fixpoint pdom (a : astate) (ops : list top) : Prop :=
  match ops with
  | [] => True
  | o :: r => pop_ok a o /\ pdom (fst (astep a o)) r
  end.
