(** Glue between Layer R and Layer T: the abstract machine of Glue/TimersAbs.v IS the timer part of
    coq/R/Rt.v, definition by definition (Layer R counts milliseconds, the glue nanoseconds; timers
    are named by the counter [tnext], closures by their uid).  [enc] maps a timer item of Rt.v to an
    item of the abstract machine; under [enc]
      [ti_le] = [ai_le], [ti_sort] = [ai_sort], [ti_due] = [ai_due],
      [fire] (the advance inside MRunMain) = the [ORun] case of [astep],
      [timer_add] on a fixed timer = [a_add] (append, ord = max expiry now),
      [ti_remove] of a pending timer = the [ODel] filter. *)
From Coq Require Import ZArith NArith List Bool Lia.
From Stk Require Import T.Model Glue.TimersAbs R.Syntax R.Rt.
Import ListNotations.
Local Open Scope Z_scope.

Definition ti_exp (x : titem) : Z := match x with TI _ _ e _ _ => e end.
Definition enc (x : titem) : aitem :=
  mkAI (ti_exp x * MS) (ti_key x * MS) (Z.of_N (ti_tid x)) (Z.of_N (ci_uid (ti_ci x))).

Lemma ti_le_enc x y : ti_le x y = ai_le (enc x) (enc y).
Proof.
  unfold ti_le, ai_le, enc. cbn [ai_ord ai_idx]. apply eq_true_iff_eq.
  rewrite !orb_true_iff, !andb_true_iff, !Z.ltb_lt, !Z.eqb_eq, N.leb_le, Z.leb_le. unfold MS. lia.
Qed.

Lemma ti_insert_enc x l : map enc (ti_insert x l) = ai_insert (enc x) (map enc l).
Proof.
  induction l as [|y l IH]; [reflexivity|]. cbn [ti_insert ai_insert map]. rewrite <- ti_le_enc.
  destruct (ti_le x y); cbn [map]; [reflexivity|rewrite IH; reflexivity].
Qed.

Lemma ti_sort_enc l : map enc (ti_sort l) = ai_sort (map enc l).
Proof.
  induction l as [|y l IH]; [reflexivity|]. change (ti_sort (y :: l)) with (ti_insert y (ti_sort l)).
  change (ai_sort (map enc (y :: l))) with (ai_insert (enc y) (ai_sort (map enc l))). rewrite ti_insert_enc, IH. reflexivity.
Qed.

Lemma ti_due_enc t x : ti_due t x = ai_due (t * MS) (enc x).
Proof.
  unfold ti_due, ai_due, enc. destruct x as [i k e o ci]. cbn [ai_exp ti_exp]. apply eq_true_iff_eq.
  rewrite !Z.leb_le. unfold MS. lia.
Qed.

Lemma filter_enc (f : titem -> bool) (g : aitem -> bool) l : (forall x, f x = g (enc x)) ->
  map enc (filter f l) = filter g (map enc l).
Proof.
  intros H. induction l as [|y l IH]; [reflexivity|]. cbn [filter map]. rewrite <- H. destruct (f y); cbn [map]; rewrite IH; reflexivity.
Qed.

Lemma enc_cb l : map ai_cb (map enc l) = map (fun c => Z.of_N (ci_uid c)) (map ti_ci l).
Proof. rewrite !map_map. reflexivity. Qed.

(** Rt.v's [fire t] (inside MRunMain, after [now := t]) is the advancing [ORun] of the abstract machine *)
Theorem fire_is_astep_run t s cnt : now s < t ->
  let a := mkA (now s * MS) (map enc (timers s)) cnt in
  let '(fired, s') := fire t (set_now s t) in
  astep a (ORun (t * MS)) =
    (mkA (t * MS) (map enc (timers s')) (cnt + 1), AFired (map (fun c => Z.of_N (ci_uid c)) fired)).
Proof.
  intros Hlt. cbn zeta. unfold fire. cbn [astep a_now a_pend a_count].
  assert (E : (t * MS >? now s * MS) = true) by (apply Z.gtb_lt; unfold MS; lia). rewrite E.
  assert (Et : timers (set_now s t) = timers s) by reflexivity. rewrite Et.
  f_equal.
  - f_equal. destruct (ambiguous (filter (ti_due t) (timers s))); cbn [timers set_timers emit set_tr];
      apply (eq_sym (filter_enc _ _ _ (fun x => f_equal negb (ti_due_enc t x)))).
  - f_equal. rewrite <- enc_cb, ti_sort_enc. f_equal. f_equal. symmetry. apply filter_enc. apply ti_due_enc.
Qed.

(** a run that does not advance fires nothing (MRunMain: `if t >? now s`) -- same test *)
Lemma run_test t s : (t >? now s) = (t * MS >? now s * MS).
Proof. apply eq_true_iff_eq. rewrite !Z.gtb_lt. unfold MS. lia. Qed.

(** Rt.v's [timer_add] of a fixed timer is [a_add] *)
Theorem timer_add_is_a_add s v t ci :
  map enc (timers (timer_add s TFixed v t ci)) =
  a_pend (a_add (mkA (now s * MS) (map enc (timers s)) (Z.of_N (tnext s))) (t * MS) (Z.of_N (ci_uid ci))) /\
  tnext (timer_add s TFixed v t ci) = (tnext s + 1)%N.
Proof.
  split; [|reflexivity]. unfold timer_add, a_add. cbn [a_pend a_now a_count timers set_tvars set_tnext set_timers emit set_tr].
  rewrite map_app. cbn [map]. f_equal. unfold enc. cbn [ti_exp ti_key ti_tid ti_ci]. f_equal.
  destruct ci. cbn [ci_setq ci_uid]. f_equal. unfold MS. lia.
Qed.

(** Rt.v's [ti_remove] (ATimerDel on a pending timer) is the [ODel] filter, timer ids being distinct *)
Lemma ti_remove_enc l i : NoDup (map ti_tid l) ->
  map enc (ti_remove l i) = filter (fun x => negb (ai_idx x =? Z.of_N i)) (map enc l).
Proof.
  induction l as [|y l IH]; cbn [map]; intros N; [reflexivity|]. inversion N as [|? ? Hy N']; subst.
  cbn [ti_remove filter]. unfold enc at 2. cbn [ai_idx].
  destruct (N.eqb_spec (ti_tid y) i) as [E|E].
  - subst i. rewrite Z.eqb_refl. cbn [negb]. symmetry. rewrite <- (filter_enc (fun x => negb (N.eqb (ti_tid x) (ti_tid y)))).
    + f_equal. clear - Hy. induction l as [|z l IH]; [reflexivity|]. cbn [filter map In] in *.
      destruct (N.eqb_spec (ti_tid z) (ti_tid y)) as [E|E]; [exfalso; apply Hy; left; assumption|].
      cbn [negb]. rewrite IH; [reflexivity|]. intros H. apply Hy. right. assumption.
    + intros x. unfold enc. cbn [ai_idx]. f_equal. apply eq_true_iff_eq. rewrite N.eqb_eq, Z.eqb_eq. lia.
  - destruct (Z.eqb_spec (Z.of_N (ti_tid y)) (Z.of_N i)) as [E'|E']; [lia|]. cbn [negb map]. rewrite IH by assumption. reflexivity.
Qed.

Lemma ti_find_enc l i : (match ti_find l i with Some _ => true | None => false end) =
  existsb (fun x => ai_idx x =? Z.of_N i) (map enc l).
Proof.
  induction l as [|y l IH]; [reflexivity|]. cbn [ti_find map existsb]. unfold enc at 1. cbn [ai_idx].
  destruct (N.eqb_spec (ti_tid y) i) as [E|E].
  - subst i. rewrite Z.eqb_refl. reflexivity.
  - destruct (Z.eqb_spec (Z.of_N (ti_tid y)) (Z.of_N i)) as [E'|E']; [lia|]. exact IH.
Qed.
