(** Glue Layer R / Layer Q, part 3: `mem::swap` of two queues.

    core.rs never executes the queue closures are pushed onto: `Stakker::run` first exchanges the deferrer's
    queue with the (empty) local `alt_main` (`swap_queue`), resp. `lazy_queue` with `alt_lazy` (`mem::swap`),
    and executes the local one; running closures keep pushing onto the deferrer's / the lazy queue.  Rt.v
    folds the pair into one list field ([mainq], [lazyq]: "take the list, leave []", QueuesAbs.v
    [swap_execute_is_take]).  Here the swap is an operation of its own, for lists and for the byte-level
    model alike: a state is a list of PLACES (struct fields / locals) each holding a queue value, a swap
    exchanges the contents of two places.  With places, the scripts of running closures are static, as in
    the crate: `defer` always pushes onto the place of the deferrer queue, `lazy!` onto the place of
    `lazy_queue`, and the place being executed is always a local -- so Layer Q's restriction "no push onto
    the queue being executed" is exactly the borrow discipline of core.rs.

    [xrun] extends [Sys.run] by the swap (no swap: [xrun_noswap], it IS [Sys.run]); the refinement and the
    error classification are re-derived from Layer Q's one-step lemmas [step_sim] / [push_err] (the swap
    preserves the simulation trivially: it moves queue values, it does not touch them). *)
From Coq Require Import ZArith NArith List Bool Lia.
From Stk Require Import Lib.U Q.Flat Q.Boxed Q.Sys Q.FlatProofs Q.SysProofs Q.FlatSafety R.Syntax R.Rt Glue.QueuesAbs.
Import ListNotations.
Local Open Scope Z_scope.

(** exchange the contents of places [i] and [j] *)
Definition swap_nth {A} (l : list A) (i j : nat) : option (list A) :=
  match nth_error l i, nth_error l j with
  | Some a, Some b => Some (set_nth (set_nth l i b) j a)
  | _, _ => None
  end.

(** ** Layer Q side: operation sequences with swaps, generic in the queue implementation *)
Inductive qxop : Type :=
| QOp (o : op)
| QSwap (i j : nat).

Fixpoint xrun {S : Type} (I : qimpl S) (prog : entry -> list pushreq) (st : list S) (ops : list qxop)
  : res (list Sys.ev * list S) :=
  match ops with
  | [] => Ok ([], st)
  | QOp o :: ops' =>
    '(evs, st') <-! Sys.step I prog st o ;;
    '(evs', st'') <-! xrun I prog st' ops' ;;
    Ok (evs ++ evs', st'')
  | QSwap i j :: ops' =>
    match swap_nth st i j with
    | None => Err EBadQueue
    | Some st' => xrun I prog st' ops'
    end
  end.

Lemma xrun_noswap {S} (I : qimpl S) prog ops : forall st, xrun I prog st (map QOp ops) = Sys.run I prog st ops.
Proof.
  induction ops as [|o ops IH]; intros st; cbn [xrun Sys.run map]; [reflexivity|].
  destruct (Sys.step I prog st o) as [[evs st']|e]; cbn [rbind]; [|reflexivity]. rewrite IH. reflexivity.
Qed.

Definition qxop_wf (o : qxop) : Prop := match o with QOp o => op_wf o | QSwap _ _ => True end.

Lemma swap_sim fs bs i j fs' : sim fs bs -> swap_nth fs i j = Some fs' ->
  exists bs', swap_nth bs i j = Some bs' /\ sim fs' bs'.
Proof.
  intros Hs. unfold swap_nth.
  destruct (nth_error fs i) as [a|] eqn:Ei; [|discriminate].
  destruct (nth_error fs j) as [b|] eqn:Ej; [|discriminate].
  destruct (sim_nth _ _ _ _ Hs Ei) as (la & -> & Ha). destruct (sim_nth _ _ _ _ Hs Ej) as (lb & -> & Hb).
  intros H. injection H as <-. eexists. split; [reflexivity|].
  apply sim_set_nth; [apply sim_set_nth|]; assumption.
Qed.

Lemma swap_none fs bs i j : sim fs bs -> swap_nth fs i j = None -> swap_nth bs i j = None.
Proof.
  intros Hs. unfold swap_nth.
  destruct (nth_error fs i) as [a|] eqn:Ei.
  - destruct (nth_error fs j) as [b|] eqn:Ej; [discriminate|]. intros _.
    rewrite (sim_nth_none _ _ _ Hs Ej). destruct (nth_error bs i); reflexivity.
  - intros _. rewrite (sim_nth_none _ _ _ Hs Ei). reflexivity.
Qed.

Section XSim.
  Variable prog : entry -> list pushreq.
  Hypothesis Hprog : prog_wf prog.

  Lemma xrun_sim ops : forall fs bs evs fs', sim fs bs -> Forall qxop_wf ops ->
    xrun flat_impl prog fs ops = Ok (evs, fs') ->
    exists bs', xrun boxed_impl prog bs ops = Ok (evs, bs') /\ sim fs' bs'.
  Proof.
    induction ops as [|[o|i j] ops IH]; intros fs bs evs fs' Hs Hw; cbn [xrun].
    - intros H. injection H as <- <-. eauto.
    - inversion Hw as [|? ? Ho Hops]; subst. cbn [qxop_wf] in Ho.
      destruct (Sys.step flat_impl prog fs o) as [[evs1 fs1]|] eqn:E1; cbn [rbind]; [|discriminate].
      destruct (step_sim _ Hprog _ _ _ _ _ Hs Ho E1) as (bs1 & -> & Hs1). cbn [rbind].
      destruct (xrun flat_impl prog fs1 ops) as [[evs2 fs2]|] eqn:E2; cbn [rbind]; [|discriminate].
      destruct (IH _ _ _ _ Hs1 Hops E2) as (bs2 & -> & Hs2). cbn [rbind].
      intros H. injection H as <- <-. eauto.
    - inversion Hw as [|? ? _ Hops]; subst.
      destruct (swap_nth fs i j) as [fs1|] eqn:E1; [|discriminate].
      destruct (swap_sim _ _ _ _ _ Hs E1) as (bs1 & -> & Hs1). apply IH; assumption.
  Qed.

  Lemma xrun_err2 ops : forall fs bs er, sim fs bs -> Forall qxop_wf ops ->
    xrun flat_impl prog fs ops = Err er -> benign er \/ xrun boxed_impl prog bs ops = Err er.
  Proof.
    induction ops as [|[o|i j] ops IH]; intros fs bs er Hs Hw; cbn [xrun]; [discriminate| |].
    - inversion Hw as [|? ? Ho Hops]; subst. cbn [qxop_wf] in Ho.
      destruct (Sys.step flat_impl prog fs o) as [[evs1 fs1]|er1] eqn:E1; cbn [rbind].
      + destruct (step_sim _ Hprog _ _ _ _ _ Hs Ho E1) as (bs1 & -> & Hs1). cbn [rbind].
        destruct (xrun flat_impl prog fs1 ops) as [[evs2 fs2]|er2] eqn:E2; cbn [rbind]; [discriminate|].
        intros H. injection H as <-. destruct (IH _ _ _ Hs1 Hops E2) as [H| ->]; [left; exact H|right; reflexivity].
      + intros H. injection H as <-.
        destruct (step_err2 _ Hprog _ _ _ _ Hs Ho E1) as [H| ->]; [left; exact H|right; reflexivity].
    - inversion Hw as [|? ? _ Hops]; subst.
      destruct (swap_nth fs i j) as [fs1|] eqn:E1.
      + destruct (swap_sim _ _ _ _ _ Hs E1) as (bs1 & -> & Hs1). apply IH; assumption.
      + intros H. injection H as <-. right. rewrite (swap_none _ _ _ _ Hs E1). reflexivity.
  Qed.
End XSim.

Lemma sim_final fs bs : sim fs bs ->
  bs = map abs fs /\ Forall (fun q => fq_drop q = Ok (abs q) /\ fq_is_empty q = bq_is_empty (abs q)) fs.
Proof.
  intros Hs. split; [apply sim_abs; assumption|].
  induction Hs as [|q l fs bs H _ IH]; constructor; [|assumption].
  rewrite (abs_inv _ _ H). split; [apply drop_spec|apply is_empty_spec]; assumption.
Qed.

(** ** Layer R side: the list machine with swaps *)
Inductive rxop : Type :=
| XOp (o : rop)
| XSwap (i j : nat).     (* swap_queue(&mut alt_main) / mem::swap(&mut self.lazy_queue, &mut alt_lazy) *)

Fixpoint lxrun (rprog : N -> list rpush) (st : list (list citem)) (ops : list rxop)
  : option (list rev * list (list citem)) :=
  match ops with
  | [] => Some ([], st)
  | XOp o :: ops' =>
    match l_step rprog st o with
    | None => None
    | Some (evs, st') =>
      match lxrun rprog st' ops' with
      | None => None
      | Some (evs', st'') => Some (evs ++ evs', st'')
      end
    end
  | XSwap i j :: ops' =>
    match swap_nth st i j with
    | None => None
    | Some st' => lxrun rprog st' ops'
    end
  end.

Lemma lxrun_noswap rprog ops : forall st, lxrun rprog st (map XOp ops) = lrun rprog st ops.
Proof.
  induction ops as [|o ops IH]; intros st; cbn [lxrun lrun map]; [reflexivity|].
  destruct (l_step rprog st o) as [[evs st']|]; [|reflexivity]. rewrite IH. reflexivity.
Qed.

(** on lists the swap of two places is [rq_swap] of their contents *)
Lemma swap_nth_is_rq_swap (st : list (list citem)) i j a b st' :
  nth_error st i = Some a -> nth_error st j = Some b -> swap_nth st i j = Some st' ->
  st' = set_nth (set_nth st i (fst (rq_swap a b))) j (snd (rq_swap a b)).
Proof. unfold swap_nth. intros -> ->. intros H. injection H as <-. reflexivity. Qed.

Definition cxop (L : layout) (o : rxop) : qxop :=
  match o with XOp o => QOp (cop L o) | XSwap i j => QSwap i j end.
Definition rxop_wf (o : rxop) : Prop := match o with XOp o => rop_wf o | XSwap _ _ => True end.

Lemma cxops_wf L ops : lay_wf L -> Forall rxop_wf ops -> Forall qxop_wf (map (cxop L) ops).
Proof.
  intros HL H. induction H as [|o ops Ho _ IH]; cbn [map]; constructor; [|assumption].
  destruct o as [o|i j]; cbn [cxop qxop_wf rxop_wf] in *; [|exact I].
  destruct o; cbn [cop op_wf rop_wf] in *; try exact I. apply cpush_wf; assumption.
Qed.

Lemma swap_nth_map {A B} (f : A -> B) (l : list A) i j :
  swap_nth (map f l) i j = option_map (map f) (swap_nth l i j).
Proof.
  unfold swap_nth. rewrite !nth_error_map_.
  destruct (nth_error l i) as [a|]; cbn [option_map]; [|reflexivity].
  destruct (nth_error l j) as [b|]; cbn [option_map]; [|reflexivity].
  rewrite !set_nth_map. reflexivity.
Qed.

Lemma bx_run L rprog ops : forall st evs st', lxrun rprog st ops = Some (evs, st') ->
  xrun boxed_impl (cprog L rprog) (encs L st) (map (cxop L) ops) = Ok (map (cev L) evs, encs L st').
Proof.
  induction ops as [|[o|i j] ops IH]; intros st evs st'; cbn [lxrun xrun map cxop].
  - intros H. injection H as <- <-. reflexivity.
  - destruct (l_step rprog st o) as [[evs1 st1]|] eqn:E1; [|discriminate].
    destruct (lxrun rprog st1 ops) as [[evs2 st2]|] eqn:E2; [|discriminate].
    intros H. injection H as <- <-.
    rewrite (b_step _ _ _ _ _ _ E1). cbn [rbind]. rewrite (IH _ _ _ E2). cbn [rbind]. rewrite map_app. reflexivity.
  - destruct (swap_nth st i j) as [st1|] eqn:E1; [|discriminate]. intros H.
    unfold encs at 1. rewrite swap_nth_map, E1. cbn [option_map]. apply IH. exact H.
Qed.

(** ** The composition theorem with swaps: statement as [glue_queue_ops_proved], over places. *)
Theorem glue_queue_ops_swap_proved L rprog n ops revs st' :
  lay_wf L -> rprog_wf rprog -> Forall rxop_wf ops ->
  lxrun rprog (repeat rq_new n) ops = Some (revs, st') ->
  match xrun flat_impl (cprog L rprog) (Sys.init flat_impl n) (map (cxop L) ops) with
  | Ok (evs, fs) =>
      evs = map (cev L) revs /\ map abs fs = encs L st' /\
      Forall (fun q => fq_drop q = Ok (abs q) /\ fq_is_empty q = bq_is_empty (abs q)) fs
  | Err e => e = EOverflow \/ e = ELayout
  end.
Proof.
  intros HL HP HW HR.
  pose proof (bx_run L rprog ops _ _ _ HR) as HB. rewrite <- init_encs in HB.
  pose proof (cprog_wf L rprog HL HP) as Hp. pose proof (cxops_wf L ops HL HW) as Hw.
  destruct (xrun flat_impl (cprog L rprog) (Sys.init flat_impl n) (map (cxop L) ops)) as [[evs fs]|e] eqn:EF.
  - destruct (xrun_sim _ Hp _ _ _ _ _ (init_sim n) Hw EF) as (bs & HB' & Hs).
    rewrite HB in HB'. injection HB' as <- <-. destruct (sim_final _ _ Hs) as [Ha Hf]. auto.
  - destruct (xrun_err2 _ Hp _ _ _ _ (init_sim n) Hw EF) as [H'|H']; [exact H'|].
    rewrite HB in H'. discriminate.
Qed.
