(** Glue Layer R / Layer Q: non-vacuity witnesses (vm_compute on both machines). *)
From Coq Require Import ZArith NArith List Bool Lia.
From Stk Require Import Lib.U Q.Flat Q.Boxed Q.Sys Q.FlatProofs Q.SysProofs Q.FlatSafety R.Syntax R.Rt
  Glue.QueuesAbs Glue.QueuesAbsSwap.
Import ListNotations.
Local Open Scope Z_scope.

(** closure instance [u] as a queue item of Rt.v; capture classes (size class, alignment class) per instance *)
Definition it (u : N) : citem := CI u u (KPlain []) [] None.
Definition ex_cls (u : N) : N * N :=
  match u with
  | 1 => (4, 6)   (* 100 bytes, align 64 *)
  | 2 => (7, 7)   (* 4096 bytes, align 128 *)
  | 3 => (0, 4)   (* zero-sized, align 16 *)
  | 4 => (6, 2)   (* 2000 bytes, align 4 *)
  | 5 => (1, 0)   (* 1 byte, align 1 *)
  | 6 => (3, 3)   (* 24 bytes, align 8 *)
  | 7 => (5, 5)   (* 500 bytes, align 32 *)
  | _ => (0, 0)
  end%N.
Definition exL : layout := class_layout ex_cls Z.of_N.
Definition rp (q : nat) (u : N) (b : Z) : rpush := {| rp_queue := q; rp_item := it u; rp_base := b |}.

Lemma exL_wf : lay_wf exL.
Proof. apply class_layout_wf. Qed.

Ltac wf_ops :=
  repeat (apply Forall_cons;
    [ first [ exact I | (vm_compute; split; [discriminate|reflexivity]) ] | ]); apply Forall_nil.

(* ------------------------------------------------------------------ *)
(** ** One queue: four pushes with two buffer growths (1024 -> 2048 -> 8192 bytes, both old buffers
    chained), is_empty, execute, is_empty, recreate, three pushes, drop of the non-empty queue, is_empty. *)
Definition ex1_ops : list rop :=
  [ RPush (rp 0 1 4096); RPush (rp 0 3 4096); RPush (rp 0 4 8200); RPush (rp 0 2 65544);
    RIsEmpty 0; RExecute 0; RIsEmpty 0; RRecreate 0;
    RPush (rp 0 5 1048584); RPush (rp 0 6 0); RPush (rp 0 7 0); RDrop 0; RIsEmpty 0 ].
Definition ex1_revs : list rev :=
  [ RvEmpty false; RvRun (it 1); RvRun (it 3); RvRun (it 4); RvRun (it 2); RvEmpty true;
    RvDrop (it 5); RvDrop (it 6); RvDrop (it 7); RvEmpty true ].

Lemma ex1_wf : Forall rop_wf ex1_ops.
Proof. unfold ex1_ops. wf_ops. Qed.

(** Layer R's list machine performs the sequence ... *)
Lemma ex1_list : lrun (fun _ => []) [rq_new] ex1_ops = Some (ex1_revs, [rq_new]).
Proof. vm_compute. reflexivity. Qed.

(** ... and the flat byte-level model completes it with the same events (the [Ok] branch of the theorem is inhabited) *)
Lemma ex1_flat : exists fs,
  Sys.run flat_impl (fun _ => []) (Sys.init flat_impl 1) (map (cop exL) ex1_ops) = Ok (map (cev exL) ex1_revs, fs) /\
  map fq_geometry fs = [ (0, 0, 0) ].
Proof. eexists. split; vm_compute; reflexivity. Qed.

(** after the four pushes the current buffer (8192 bytes at 65544) is chained to the 2048-byte buffer at 8200,
    itself chained to the first 1024-byte buffer at 4096; after the execute the same allocation is kept with
    len 0; the recreate releases it (geometry (0,0,0)) -- invisible for lists *)
Definition ex1_geometry (k : nat) : option (list ((Z * Z * Z) * list (Z * Z * Z))) :=
  match Sys.run flat_impl (fun _ => []) (Sys.init flat_impl 1) (map (cop exL) (firstn k ex1_ops)) with
  | Ok (_, fs) => Some (map (fun f => (fq_geometry f, map (fun h => (hv_base h, hv_len h, hv_cap h)) (fq_chain f))) fs)
  | Err _ => None
  end.
Lemma ex1_growth_chain :
  ex1_geometry 4 = Some [ ((65544, 4216, 8192), [ (8200, 2040, 2048); (4096, 176, 1024) ]) ] /\
  ex1_geometry 7 = Some [ ((65544, 0, 8192), []) ] /\
  ex1_geometry 8 = Some [ ((0, 0, 0), []) ] /\
  lrun (fun _ => []) [rq_new] (firstn 7 ex1_ops) = lrun (fun _ => []) [rq_new] (firstn 8 ex1_ops).
Proof. repeat split; vm_compute; reflexivity. Qed.

(* ------------------------------------------------------------------ *)
(** ** The places of core.rs: 0 = deferrer queue, 1 = alt_main, 2 = lazy_queue, 3 = alt_lazy, 4 = the local of
    Stakker::drop.  The sequence below is what `Stakker::run` + two submissions + `Stakker::drop` do for the
    Layer R program [ex2_prog]; the scripts are static: `defer` pushes onto place 0, `lazy!` onto place 2. *)
Definition ex2_prog : list top :=
  [ TNew 0;
    TDo [ ADefer (Clo 1 4 6 [] [ ADefer (Clo 2 0 4 [] [ ADefer (Clo 5 1 0 [] []) ]); ALazy (Clo 3 6 2 [] []) ]);
          ADefer (Clo 4 7 7 [] []) ];
    TRun 2 false;
    TDo [ ADefer (Clo 6 3 3 [] []); ALazy (Clo 7 5 5 [] []) ] ].

(** what the running instances do: uid 1 defers uid 3 and lazies uid 4; uid 3 defers uid 5 *)
Definition ex2_rprog (u : N) : list rpush :=
  match u with
  | 1 => [ rp 0 3 2097160; rp 2 4 3145736 ]
  | 3 => [ rp 0 5 4194312 ]
  | _ => []
  end%N.

Definition ex2_ops : list rxop :=
  [ (* TDo: two defers *)
    XOp (RPush (rp 0 1 4096)); XOp (RPush (rp 0 2 8200));
    (* Stakker::run: swap_queue; execute *)
    XSwap 0 1; XOp (RExecute 1);
    (* loop *)
    XSwap 0 1; XOp (RIsEmpty 1); XOp (RExecute 1);
    XSwap 0 1; XOp (RIsEmpty 1); XOp (RExecute 1);
    XSwap 0 1; XOp (RIsEmpty 1); XSwap 2 3; XOp (RIsEmpty 3); XOp (RExecute 3);
    XSwap 0 1; XOp (RIsEmpty 1); XSwap 2 3; XOp (RIsEmpty 3);
    (* TDo: a defer and a lazy that will never run *)
    XOp (RPush (rp 0 6 5242888)); XOp (RPush (rp 2 7 6291464));
    (* Stakker::drop: fresh local, swap, is_empty, drop; again; then the fields *)
    XSwap 0 4; XOp (RIsEmpty 4); XOp (RDrop 4);
    XSwap 0 4; XOp (RIsEmpty 4);
    XOp (RDrop 2); XOp (RDrop 1); XOp (RDrop 3) ].

Definition ex2_revs : list rev :=
  [ RvRun (it 1); RvRun (it 2);
    RvEmpty false; RvRun (it 3);
    RvEmpty false; RvRun (it 5);
    RvEmpty true; RvEmpty false; RvRun (it 4);
    RvEmpty true; RvEmpty true;
    RvEmpty false; RvDrop (it 6); RvEmpty true; RvDrop (it 7) ].

Lemma ex2_wf : Forall rxop_wf ex2_ops /\ rprog_wf ex2_rprog.
Proof.
  split; [unfold ex2_ops; wf_ops|].
  intros u. unfold ex2_rprog.
  destruct u as [|[[[|[]|]|[[]|[]|]|]|[[]|[]|]|]]; wf_ops.
Qed.

Lemma ex2_list : lxrun ex2_rprog (repeat rq_new 5) ex2_ops = Some (ex2_revs, repeat rq_new 5).
Proof. vm_compute. reflexivity. Qed.

Lemma ex2_flat : exists fs,
  xrun flat_impl (cprog exL ex2_rprog) (Sys.init flat_impl 5) (map (cxop exL) ex2_ops) = Ok (map (cev exL) ex2_revs, fs) /\
  map fq_is_empty fs = [ true; true; true; true; true ].
Proof. eexists. split; vm_compute; reflexivity. Qed.

(** the same closure instances, run / dropped in the same order, in the trace of the Layer R machine itself *)
Definition obs_rt (t : list Syntax.ev) : list (bool * N) :=
  flat_map (fun e => match e with
                     | ERun u _ _ => [ (true, u) ]
                     | EDrop u _ false => [ (false, u) ]
                     | _ => []
                     end) t.
Definition obs_l (l : list rev) : list (bool * N) :=
  flat_map (fun e => match e with
                     | RvRun c => [ (true, ci_uid c) ]
                     | RvDrop c => [ (false, ci_uid c) ]
                     | RvEmpty _ => []
                     end) l.

Lemma ex2_rt_machine : exists t, Rt.exec DGlobal 300 ex2_prog = Done t /\ obs_rt t = obs_l ex2_revs.
Proof. eexists. split; vm_compute; reflexivity. Qed.

(* ------------------------------------------------------------------ *)
(** ** What the list machine rejects is what Layer Q rejects: a running closure pushing onto the place being
    executed (not expressible in the crate: the place is mutably borrowed), recreate of a non-empty queue
    (core.rs recreates only at exhaustion) *)
Lemma ex3_nested_self :
  lrun (fun u => if (u =? 1)%N then [ rp 0 2 8200 ] else []) [rq_new] [ RPush (rp 0 1 4096); RExecute 0 ] = None /\
  Sys.run flat_impl (cprog exL (fun u => if (u =? 1)%N then [ rp 0 2 8200 ] else [])) (Sys.init flat_impl 1)
    (map (cop exL) [ RPush (rp 0 1 4096); RExecute 0 ]) = Err ENestedSelf.
Proof. split; vm_compute; reflexivity. Qed.

Lemma ex3_recreate_nonempty : lrun (fun _ => []) [rq_new] [ RPush (rp 0 1 4096); RRecreate 0 ] = None.
Proof. vm_compute. reflexivity. Qed.
