(** Glue between Layer R and Layer Q: the list treatment of the FnOnceQueues in coq/R/Rt.v IS the
    `boxed` semantics (coq/Q/Boxed.v) that Layer Q proves the flat byte-buffer queue refines (C17).

    Rt.v keeps every FnOnceQueue of the crate -- the deferrer's main queue (field [mainq]; physically the
    pair deferrer queue / alt_main of core.rs, exchanged by `swap_queue`), the lazy queue ([lazyq];
    lazy_queue / alt_lazy), the held queue of every Prep actor ([SPrep held]) -- as a [list citem] and
    manipulates it with five list idioms written inline in the handlers:
      append          [q ++ [c]]                       FnOnceQueue::push / push_box
      take            [map MRunItem q] + [set_.. []]   swap_queue + FnOnceQueue::execute
      drop            [map MDropItem q] + [set_.. []]  drop(queue)
      emptiness       [match q with [] ..], [is_nil]   FnOnceQueue::is_empty
      fresh           [[]]                             FnOnceQueue::new()
    Part 1 names these idioms ([rq_push] ...), proves that the handlers of Rt.v use exactly them, and that
    under the encoding [encq] they are [bq_push] / [bq_execute] / [bq_drop] / [bq_is_empty] / [bq_new].
    Part 2 is the list machine over operation sequences ([lrun], the mirror of [Sys.run]) and the
    composition theorem with C17: the SAME sequence run on the flat byte-level model gives the same
    executed closures in the same order, the same dropped closures, the same emptiness answers.
    Part 3 adds `mem::swap` of two queues (core.rs exchanges the deferrer queue with alt_main before
    every execute) as an operation of both machines. *)
From Coq Require Import ZArith NArith List Bool Lia.
From Stk Require Import Lib.U Q.Flat Q.Boxed Q.Sys Q.FlatProofs Q.SysProofs Q.FlatSafety Props.C17 R.Syntax R.Rt.
Import ListNotations.
Local Open Scope Z_scope.

(* ================================================================== *)
(** * Part 1: the queue primitives of Rt.v *)

Notation rq := (list citem) (only parsing).
Definition rq_new : rq := [].
Definition rq_push (q : rq) (c : citem) : rq := q ++ [c].
Definition rq_execute (q : rq) : list citem * rq := (q, []).
Definition rq_drop (q : rq) : list citem := q.
Definition rq_is_empty (q : rq) : bool := is_nil q.
(** mem::swap(&mut a, &mut b) *)
Definition rq_swap (a b : rq) : rq * rq := (b, a).

(** ** The encoding of a closure item of Rt.v as a Layer Q entry.
    Rt.v does not record the size / alignment class of a closure instance at all (the [size] / [align]
    fields of [Clo] are read by the Rust interpreter only): the machine is independent of the layout.
    So the layout is a PARAMETER here: any size, any power-of-two alignment, any captured bytes, fixed per
    closure instance (uid).  The identity seen by the queue is the uid. *)
Record layout : Type := { l_size : N -> Z; l_log : N -> Z; l_bytes : N -> list Z }.
Definition lay_wf (L : layout) : Prop :=
  forall u, 0 <= l_size L u /\ 0 <= l_log L u /\ Z.of_nat (length (l_bytes L u)) = l_size L u.

Definition encq (L : layout) (c : citem) : entry :=
  let u := ci_uid c in
  {| e_id := Z.of_N u; e_size := l_size L u; e_align := 2 ^ l_log L u; e_data := l_bytes L u |}.

Lemma encq_wf L c : lay_wf L -> entry_wf (encq L c).
Proof.
  intros H. destruct (H (ci_uid c)) as (Hs & Hk & Hl). unfold entry_wf, encq. cbn [e_size e_align e_data].
  split; [assumption|]. split; [eauto|assumption].
Qed.

(** the queue position the item was handed to is not part of what the queue stores *)
Lemma encq_setq L c q : encq L (ci_setq c q) = encq L c.
Proof. destruct c. reflexivity. Qed.

(** push_box (used by Timers::advance for the fired timers): a closure whose layout is the fat pointer *)
Lemma box_wrap_encq L c : l_size L (ci_uid c) = 16 -> l_log L (ci_uid c) = 3 -> box_wrap (encq L c) = encq L c.
Proof. intros Hs Hk. unfold box_wrap, encq. cbn [e_id e_size e_align e_data]. rewrite Hs, Hk. reflexivity. Qed.

(** The capture classes of the Layer R generator (harness/r/src/pads.rs: SIZES, ALIGNS, EXTRA): an instance. *)
Definition size_of_class (k : N) : Z :=
  if (k <? 8)%N then nth (N.to_nat k) [0; 1; 8; 24; 100; 500; 2000; 4096] 0
  else if (k <? 72)%N then 2 ^ (10 + Z.of_N (k - 8) / 16) - 8 * (Z.of_N (k - 8) mod 16 + 1)
  else 0.
Definition log_of_class (sz al : N) : Z := if (sz <? 8)%N then Z.of_N (N.min al 7) else 3.
Definition class_layout (cls : N -> N * N) (fill : N -> Z) : layout :=
  {| l_size := fun u => size_of_class (fst (cls u));
     l_log := fun u => log_of_class (fst (cls u)) (snd (cls u));
     l_bytes := fun u => repeat (fill u) (Z.to_nat (size_of_class (fst (cls u)))) |}.

Lemma size_of_class_nonneg k : 0 <= size_of_class k.
Proof.
  unfold size_of_class. destruct (N.ltb_spec k 8) as [H|H].
  - assert (E : (N.to_nat k < 8)%nat) by lia. revert E. generalize (N.to_nat k). intros n E.
    do 8 (destruct n as [|n]; [cbn; lia|]). lia.
  - destruct (N.ltb_spec k 72) as [H2|H2]; [|lia].
    assert (0 <= Z.of_N (k - 8) / 16 < 4) by (split; [apply Z.div_pos; lia|apply Z.div_lt_upper_bound; lia]).
    assert (0 <= Z.of_N (k - 8) mod 16 < 16) by (apply Z.mod_pos_bound; lia).
    assert (2 ^ 10 <= 2 ^ (10 + Z.of_N (k - 8) / 16)) by (apply Z.pow_le_mono_r; lia).
    change (2 ^ 10) with 1024 in *. lia.
Qed.

Lemma class_layout_wf cls fill : lay_wf (class_layout cls fill).
Proof.
  intros u. cbn [class_layout l_size l_log l_bytes]. pose proof (size_of_class_nonneg (fst (cls u))).
  split; [assumption|]. split.
  - unfold log_of_class. destruct (fst (cls u) <? 8)%N; lia.
  - rewrite repeat_length. lia.
Qed.

(** ** Under [encq] the list idioms are the operations of coq/Q/Boxed.v *)
Lemma enc_push L q c : map (encq L) (rq_push q c) = bq_push (map (encq L) q) (encq L c).
Proof. unfold rq_push, bq_push. rewrite map_app. reflexivity. Qed.
Lemma enc_execute L q :
  bq_execute (map (encq L) q) = (map (encq L) (fst (rq_execute q)), map (encq L) (snd (rq_execute q))).
Proof. reflexivity. Qed.
Lemma enc_drop L q : bq_drop (map (encq L) q) = map (encq L) (rq_drop q).
Proof. reflexivity. Qed.
Lemma enc_is_empty L q : bq_is_empty (map (encq L) q) = rq_is_empty q.
Proof. destruct q; reflexivity. Qed.
Lemma enc_new L : map (encq L) rq_new = bq_new.
Proof. reflexivity. Qed.

(** ** The handlers of Rt.v use exactly these idioms *)

(** append: Core::defer / Deferrer::defer / call! on a Ready actor ([push_main], [submit _ QMain]),
    lazy! ([submit _ QLazy]), a call to a Prep actor appended to its held queue ([run_item]) *)
Lemma rt_push_main s c : mainq (push_main s c) = rq_push (mainq s) c.
Proof. reflexivity. Qed.
Lemma rt_submit_main s c : mainq (submit s QMain c) = rq_push (mainq s) (ci_setq c QMain) /\ lazyq (submit s QMain c) = lazyq s.
Proof. split; reflexivity. Qed.
Lemma rt_submit_lazy s c : lazyq (submit s QLazy c) = rq_push (lazyq s) (ci_setq c QLazy) /\ mainq (submit s QLazy c) = mainq s.
Proof. split; reflexivity. Qed.
Lemma rt_hold s uid cid a body arg caps sq x held :
  aget (actors s) a = Some x -> a_state x = SPrep held ->
  run_item (CI uid cid (KMeth a body arg) caps sq) s =
    ([], upd_actor s a (with_state x (SPrep (rq_push held (CI uid cid (KMeth a body arg) caps sq))))).
Proof. intros E1 E2. cbn [run_item]. rewrite E1, E2. reflexivity. Qed.

(** Timers::advance(now, &mut alt_main): the fired timer closures are pushed, one by one, behind the batch *)
Lemma fold_push l : forall q, fold_left rq_push l q = q ++ l.
Proof.
  induction l as [|c l IH]; intros q; cbn [fold_left]; [rewrite app_nil_r; reflexivity|].
  rewrite IH. unfold rq_push. rewrite <- app_assoc. reflexivity.
Qed.

(** take = swap_queue(&mut alt) + alt.execute(): on lists, with the alt queue empty (it always is
    between executes: execute leaves it empty), the deferrer queue becomes [], the batch is the old content *)
Lemma swap_execute_is_take (q : rq) :
  let '(dq, alt) := rq_swap q rq_new in
  let '(batch, alt') := rq_execute alt in
  (batch, dq, alt') = (fst (rq_execute q), snd (rq_execute q), rq_new).
Proof. reflexivity. Qed.

(** Stakker::run, first execute (MRunMain): no time advance / time advance *)
Lemma rt_run_main_noadv t s : (t >? now s) = false ->
  Rt.handle (MRunMain t) s = (map MRunItem (fst (rq_execute (mainq s))), set_mainq s (snd (rq_execute (mainq s)))).
Proof. intros E. cbn [Rt.handle]. change (now (set_mainq s [])) with (now s). rewrite E. reflexivity. Qed.
Lemma rt_run_main_adv t s : (t >? now s) = true ->
  let '(fired, s2) := fire t (set_now (set_mainq s (snd (rq_execute (mainq s)))) t) in
  Rt.handle (MRunMain t) s = (map MRunItem (fold_left rq_push fired (fst (rq_execute (mainq s)))), s2) /\
  mainq s2 = rq_new.
Proof.
  intros E. cbn [Rt.handle rq_execute fst snd]. change (now (set_mainq s [])) with (now s). rewrite E.
  unfold fire. rewrite fold_push. split; [reflexivity|].
  destruct (ambiguous _); reflexivity.
Qed.

(** the loop of Stakker::run (MLoop): is_empty tests, execute of the main / lazy queue; at exhaustion both
    queues are empty, which is why Rt.v has nothing to do for "recreate the queues" but to move the deadline *)
Lemma rt_loop_main t s : rq_is_empty (mainq s) = false ->
  Rt.handle (MLoop t) s = (map MRunItem (fst (rq_execute (mainq s))) ++ [MLoop t], set_mainq s (snd (rq_execute (mainq s)))).
Proof. intros E. cbn [Rt.handle]. destruct (mainq s); [discriminate|reflexivity]. Qed.
Lemma rt_loop_lazy t s : rq_is_empty (mainq s) = true -> rq_is_empty (lazyq s) = false ->
  Rt.handle (MLoop t) s = (map MRunItem (fst (rq_execute (lazyq s))) ++ [MLoop t], set_lazyq s (snd (rq_execute (lazyq s)))).
Proof.
  intros E1 E2. cbn [Rt.handle]. destruct (mainq s); [|discriminate]. destruct (lazyq s); [discriminate|reflexivity].
Qed.
Lemma rt_loop_end t s : rq_is_empty (mainq s) = true -> rq_is_empty (lazyq s) = true ->
  fst (Rt.handle (MLoop t) s) = [] /\
  mainq (snd (Rt.handle (MLoop t) s)) = rq_new /\ lazyq (snd (Rt.handle (MLoop t) s)) = rq_new.
Proof.
  intros E1 E2. cbn [Rt.handle]. destruct (mainq s) eqn:Em; [|discriminate]. destruct (lazyq s) eqn:El; [|discriminate].
  cbn [fst snd]. destruct (t >? recreate s); cbn; rewrite ?Em, ?El; auto.
Qed.

(** Prep -> Ready (to_ready: `prep.queue.execute(s)`, then the emptied queue is dropped with `prep`) *)
Lemma rt_to_ready s a x held : aget (actors s) a = Some x -> a_state x = SPrep held ->
  fst (Rt.handle (MToReady a) s) = map MRunItem (fst (rq_execute held)).
Proof. intros E1 E2. cbn [Rt.handle]. rewrite E1, E2. reflexivity. Qed.

(** drops: Stakker::drop rounds (MDrain: swap with a fresh queue, drop the old one), the lazy queue as the
    first field dropped (MDropFields), the held queue of a Prep actor that dies ([state_drops]),
    Core::new dropping what the previous instance left in the global deferrer queue (MNew) *)
Lemma rt_drain i s : (i >=? Gen.SrcCore.TEARDOWN_ROUNDS) = false -> rq_is_empty (mainq s) = false ->
  Rt.handle (MDrain i) s = (map MDropItem (rq_drop (mainq s)) ++ [MDrain (i + 1)], set_mainq s rq_new).
Proof. intros E1 E2. cbn [Rt.handle]. rewrite E1. destruct (mainq s); [discriminate|reflexivity]. Qed.
Lemma rt_drain_empty i s : (i >=? Gen.SrcCore.TEARDOWN_ROUNDS) = false -> rq_is_empty (mainq s) = true ->
  Rt.handle (MDrain i) s = ([MDropFields], s).
Proof. intros E1 E2. cbn [Rt.handle]. rewrite E1. destruct (mainq s); [reflexivity|discriminate]. Qed.
Lemma rt_drop_fields s : exists rest s1,
  Rt.handle MDropFields s = (map MDropItem (rq_drop (lazyq s)) ++ rest, s1) /\ lazyq s1 = rq_new.
Proof.
  cbn [Rt.handle]. destruct (ambiguous (timers s)); eexists; eexists; (split; [rewrite map_app, <- app_assoc; reflexivity|reflexivity]).
Qed.
Lemma rt_state_drops a held s : state_drops a (SPrep held) s = (map MDropItem (rq_drop held), s).
Proof. reflexivity. Qed.
Lemma rt_new_drops t s : dk s = DGlobal ->
  fst (Rt.handle (MNew t) s) = map MDropItem (rq_drop (mainq s)) /\ mainq (snd (Rt.handle (MNew t) s)) = rq_new.
Proof. intros E. cbn [Rt.handle]. rewrite E. split; reflexivity. Qed.

(** ** The ties, handler of Rt.v -> operation of Boxed.v *)
Theorem rt_push_is_bq_push L s c :
  map (encq L) (mainq (push_main s c)) = bq_push (map (encq L) (mainq s)) (encq L c) /\
  map (encq L) (mainq (submit s QMain c)) = bq_push (map (encq L) (mainq s)) (encq L c) /\
  map (encq L) (lazyq (submit s QLazy c)) = bq_push (map (encq L) (lazyq s)) (encq L c).
Proof.
  rewrite rt_push_main. destruct (rt_submit_main s c) as [-> _]. destruct (rt_submit_lazy s c) as [-> _].
  rewrite !enc_push, !encq_setq. auto.
Qed.

Theorem rt_hold_is_bq_push L s uid cid a body arg caps sq x held :
  aget (actors s) a = Some x -> a_state x = SPrep held ->
  let ci := CI uid cid (KMeth a body arg) caps sq in
  exists held', run_item ci s = ([], upd_actor s a (with_state x (SPrep held'))) /\
    map (encq L) held' = bq_push (map (encq L) held) (encq L ci).
Proof. intros E1 E2 ci. eexists. split; [apply rt_hold; eassumption|apply enc_push]. Qed.

Theorem rt_execute_is_bq_execute L t s : rq_is_empty (mainq s) = false ->
  let '(es, q') := bq_execute (map (encq L) (mainq s)) in
  exists items, Rt.handle (MLoop t) s = (map MRunItem items ++ [MLoop t], set_mainq s (snd (rq_execute (mainq s)))) /\
    map (encq L) items = es /\ map (encq L) (mainq (set_mainq s (snd (rq_execute (mainq s))))) = q'.
Proof. intros E. rewrite enc_execute. eexists. split; [apply rt_loop_main; assumption|split; reflexivity]. Qed.

Theorem rt_execute_lazy_is_bq_execute L t s : rq_is_empty (mainq s) = true -> rq_is_empty (lazyq s) = false ->
  let '(es, q') := bq_execute (map (encq L) (lazyq s)) in
  exists items, Rt.handle (MLoop t) s = (map MRunItem items ++ [MLoop t], set_lazyq s (snd (rq_execute (lazyq s)))) /\
    map (encq L) items = es /\ map (encq L) (lazyq (set_lazyq s (snd (rq_execute (lazyq s))))) = q'.
Proof. intros E1 E2. rewrite enc_execute. eexists. split; [apply rt_loop_lazy; assumption|split; reflexivity]. Qed.

Theorem rt_drop_is_bq_drop L i s : (i >=? Gen.SrcCore.TEARDOWN_ROUNDS) = false -> rq_is_empty (mainq s) = false ->
  exists items, Rt.handle (MDrain i) s = (map MDropItem items ++ [MDrain (i + 1)], set_mainq s rq_new) /\
    map (encq L) items = bq_drop (map (encq L) (mainq s)) /\ map (encq L) (mainq (set_mainq s rq_new)) = bq_new.
Proof. intros E1 E2. eexists. split; [apply rt_drain; assumption|split; reflexivity]. Qed.

Theorem rt_is_empty_is_bq_is_empty L s :
  rq_is_empty (mainq s) = bq_is_empty (map (encq L) (mainq s)) /\
  rq_is_empty (lazyq s) = bq_is_empty (map (encq L) (lazyq s)).
Proof. rewrite !enc_is_empty. auto. Qed.

(* ================================================================== *)
(** * Part 2: operation sequences *)

(** One push: target queue, the closure item, the address the allocator would answer if this push
    allocates a buffer (an input of the flat model only; lists ignore it). *)
Record rpush : Type := { rp_queue : nat; rp_item : citem; rp_base : Z }.

Inductive rop : Type :=
| RPush (p : rpush)
| RExecute (q : nat)      (* the whole list is taken and run in order; the queue is left empty *)
| RIsEmpty (q : nat)
| RDrop (q : nat)         (* all items dropped in order; a fresh empty queue takes its place *)
| RRecreate (q : nat).    (* `queue = FnOnceQueue::new()` of an EMPTY queue (core.rs 149-155): nothing for lists *)

Inductive rev : Type :=
| RvRun (c : citem)
| RvDrop (c : citem)
| RvEmpty (b : bool).

(** The list machine: the mirror of [Sys.run] over [list rq], built from the primitives of Part 1.
    [rprog u] = the pushes the closure instance [u] performs when it runs (onto OTHER queues: the queue
    being executed is out of reach, in Rt.v because the batch lives in the continuation and the state
    field already holds the other queue of the swap pair).  [None] = the sequence is not one the machine
    performs: queue index out of range, a push onto the queue being executed, recreate of a non-empty queue. *)
Section LRun.
  Variable rprog : N -> list rpush.

  Definition l_push (st : list rq) (p : rpush) : option (list rq) :=
    match nth_error st (rp_queue p) with
    | None => None
    | Some q => Some (set_nth st (rp_queue p) (rq_push q (rp_item p)))
    end.

  Fixpoint l_script (i : nat) (st : list rq) (ps : list rpush) : option (list rq) :=
    match ps with
    | [] => Some st
    | p :: ps' =>
      if Nat.eqb (rp_queue p) i then None else
      match l_push st p with None => None | Some st' => l_script i st' ps' end
    end.

  Fixpoint l_items (i : nat) (st : list rq) (cs : list citem) : option (list rq) :=
    match cs with
    | [] => Some st
    | c :: cs' =>
      match l_script i st (rprog (ci_uid c)) with None => None | Some st' => l_items i st' cs' end
    end.

  Definition l_step (st : list rq) (o : rop) : option (list rev * list rq) :=
    match o with
    | RPush p => match l_push st p with Some st' => Some ([], st') | None => None end
    | RExecute i =>
      match nth_error st i with
      | None => None
      | Some q =>
        match l_items i (set_nth st i (snd (rq_execute q))) (fst (rq_execute q)) with
        | Some st' => Some (map RvRun (fst (rq_execute q)), st')
        | None => None
        end
      end
    | RIsEmpty i =>
      match nth_error st i with
      | None => None
      | Some q => Some ([RvEmpty (rq_is_empty q)], st)
      end
    | RDrop i =>
      match nth_error st i with
      | None => None
      | Some q => Some (map RvDrop (rq_drop q), set_nth st i rq_new)
      end
    | RRecreate i =>
      match nth_error st i with
      | Some [] => Some ([], st)
      | _ => None
      end
    end.

  Fixpoint lrun (st : list rq) (ops : list rop) : option (list rev * list rq) :=
    match ops with
    | [] => Some ([], st)
    | o :: ops' =>
      match l_step st o with
      | None => None
      | Some (evs, st') =>
        match lrun st' ops' with
        | None => None
        | Some (evs', st'') => Some (evs ++ evs', st'')
        end
      end
    end.
End LRun.

(** ** Translation to Layer Q's operation sequences *)
Definition cpush (L : layout) (p : rpush) : pushreq :=
  {| p_queue := rp_queue p; p_boxed := false; p_entry := encq L (rp_item p); p_base := rp_base p |}.
Definition cop (L : layout) (o : rop) : op :=
  match o with
  | RPush p => OPush (cpush L p)
  | RExecute i => OExecute i
  | RIsEmpty i => OIsEmpty i
  | RDrop i => ODrop i
  | RRecreate i => ODrop i
  end.
Definition cev (L : layout) (e : rev) : Sys.ev :=
  match e with
  | RvRun c => EvRun (encq L c)
  | RvDrop c => EvDrop (encq L c)
  | RvEmpty b => EvEmpty b
  end.
(** what a closure does as a function of the entry READ BACK from the queue: the script of its id *)
Definition cprog (L : layout) (rprog : N -> list rpush) (e : entry) : list pushreq :=
  map (cpush L) (rprog (Z.to_N (e_id e))).
Definition encs (L : layout) (st : list rq) : list bq := map (map (encq L)) st.

Definition rpush_wf (p : rpush) : Prop := base_ok (rp_base p).
Definition rop_wf (o : rop) : Prop := match o with RPush p => rpush_wf p | _ => True end.
Definition rprog_wf (rprog : N -> list rpush) : Prop := forall u, Forall rpush_wf (rprog u).

Lemma cpush_wf L p : lay_wf L -> rpush_wf p -> pushreq_wf (cpush L p).
Proof. intros HL Hp. split; [exact Hp|]. unfold pushed_entry. cbn [cpush p_boxed p_entry]. apply encq_wf. assumption. Qed.

Lemma cprog_wf L rprog : lay_wf L -> rprog_wf rprog -> prog_wf (cprog L rprog).
Proof.
  intros HL HP e. unfold cprog. specialize (HP (Z.to_N (e_id e))).
  induction HP as [|p ps Hp _ IH]; cbn [map]; constructor; [apply cpush_wf; assumption|assumption].
Qed.

Lemma cops_wf L ops : lay_wf L -> Forall rop_wf ops -> Forall op_wf (map (cop L) ops).
Proof.
  intros HL H. induction H as [|o ops Ho _ IH]; cbn [map]; constructor; [|assumption].
  destruct o; cbn [cop op_wf rop_wf] in *; try exact I. apply cpush_wf; assumption.
Qed.

Lemma cprog_encq L rprog c : cprog L rprog (encq L c) = map (cpush L) (rprog (ci_uid c)).
Proof. unfold cprog, encq. cbn [e_id]. rewrite N2Z.id. reflexivity. Qed.

(** ** The list machine is the boxed run (total, by computation) *)
Lemma nth_error_map_ {A B} (f : A -> B) l : forall i, nth_error (map f l) i = option_map f (nth_error l i).
Proof. induction l as [|x l IH]; intros [|i]; cbn [map nth_error option_map]; auto. Qed.

Lemma set_nth_map {A B} (f : A -> B) l : forall i x, set_nth (map f l) i (f x) = map f (set_nth l i x).
Proof. induction l as [|y l IH]; intros [|i] x; cbn [set_nth map]; try reflexivity. rewrite IH. reflexivity. Qed.

Lemma set_nth_same {A} (l : list A) : forall i x, nth_error l i = Some x -> set_nth l i x = l.
Proof.
  induction l as [|y l IH]; intros [|i] x; cbn [set_nth nth_error]; try discriminate.
  - intros H. injection H as ->. reflexivity.
  - intros H. rewrite IH by assumption. reflexivity.
Qed.

Lemma init_encs L n : Sys.init boxed_impl n = encs L (repeat rq_new n).
Proof. unfold Sys.init, encs. cbn [q_new boxed_impl]. induction n; cbn [repeat map]; [reflexivity|]. rewrite <- IHn. reflexivity. Qed.

Section BoxedRun.
  Variable L : layout.
  Variable rprog : N -> list rpush.

  Lemma b_push st p st' : l_push st p = Some st' ->
    do_push boxed_impl (encs L st) (cpush L p) = Ok (encs L st').
  Proof.
    unfold l_push, do_push, encs. cbn [cpush p_queue p_boxed p_entry p_base].
    rewrite nth_error_map_. destruct (nth_error st (rp_queue p)) as [q|]; [|discriminate].
    intros H. injection H as <-. cbn [option_map q_push boxed_impl rbind].
    rewrite <- enc_push. rewrite set_nth_map. reflexivity.
  Qed.

  Lemma b_script i ps : forall st st', l_script i st ps = Some st' ->
    do_script boxed_impl i (encs L st) (map (cpush L) ps) = Ok (encs L st').
  Proof.
    induction ps as [|p ps IH]; intros st st'; cbn [l_script do_script map].
    - intros H. injection H as <-. reflexivity.
    - change (p_queue (cpush L p)) with (rp_queue p). destruct (Nat.eqb (rp_queue p) i); [discriminate|].
      destruct (l_push st p) as [st1|] eqn:E1; [|discriminate].
      rewrite (b_push _ _ _ E1). cbn [rbind]. apply IH.
  Qed.

  Lemma b_items i cs : forall st st', l_items rprog i st cs = Some st' ->
    run_entries boxed_impl (cprog L rprog) i (encs L st) (map (encq L) cs) = Ok (encs L st').
  Proof.
    induction cs as [|c cs IH]; intros st st'; cbn [l_items run_entries map].
    - intros H. injection H as <-. reflexivity.
    - destruct (l_script i st (rprog (ci_uid c))) as [st1|] eqn:E1; [|discriminate].
      rewrite cprog_encq, (b_script _ _ _ _ E1). cbn [rbind]. apply IH.
  Qed.

  Lemma map_cev_run cs : map (cev L) (map RvRun cs) = map EvRun (map (encq L) cs).
  Proof. rewrite !map_map. reflexivity. Qed.
  Lemma map_cev_drop cs : map (cev L) (map RvDrop cs) = map EvDrop (map (encq L) cs).
  Proof. rewrite !map_map. reflexivity. Qed.

  Lemma b_step st o evs st' : l_step rprog st o = Some (evs, st') ->
    Sys.step boxed_impl (cprog L rprog) (encs L st) (cop L o) = Ok (map (cev L) evs, encs L st').
  Proof.
    destruct o as [p|i|i|i|i]; cbn [l_step Sys.step cop].
    - destruct (l_push st p) as [st1|] eqn:E1; [|discriminate]. intros H. injection H as <- <-.
      rewrite (b_push _ _ _ E1). reflexivity.
    - unfold encs. rewrite nth_error_map_. destruct (nth_error st i) as [q|]; [|discriminate].
      cbn [option_map q_execute boxed_impl rbind rq_execute fst snd bq_execute].
      destruct (l_items rprog i (set_nth st i []) q) as [st1|] eqn:E1; [|discriminate].
      intros H. injection H as <- <-.
      change (@nil entry) with (map (encq L) []). rewrite set_nth_map.
      pose proof (b_items _ _ _ _ E1) as Hb. unfold encs in Hb. unfold bq in *. rewrite Hb.
      cbn [rbind]. rewrite map_cev_run. reflexivity.
    - unfold encs. rewrite nth_error_map_. destruct (nth_error st i) as [q|]; [|discriminate].
      intros H. injection H as <- <-. cbn [option_map q_is_empty boxed_impl map cev]. rewrite enc_is_empty. reflexivity.
    - unfold encs. rewrite nth_error_map_. destruct (nth_error st i) as [q|]; [|discriminate].
      intros H. injection H as <- <-. cbn [option_map q_drop q_new boxed_impl rbind].
      rewrite enc_drop, map_cev_drop. change bq_new with (map (encq L) rq_new). rewrite set_nth_map. reflexivity.
    - unfold encs. rewrite nth_error_map_. destruct (nth_error st i) as [[|c q]|] eqn:En; try discriminate.
      intros H. injection H as <- <-. cbn [option_map q_drop q_new boxed_impl rbind map bq_drop].
      change bq_new with (map (encq L) rq_new). rewrite set_nth_map. unfold rq_new. rewrite (set_nth_same _ _ _ En). reflexivity.
  Qed.

  Lemma b_run ops : forall st evs st', lrun rprog st ops = Some (evs, st') ->
    Sys.run boxed_impl (cprog L rprog) (encs L st) (map (cop L) ops) = Ok (map (cev L) evs, encs L st').
  Proof.
    induction ops as [|o ops IH]; intros st evs st'; cbn [lrun Sys.run map].
    - intros H. injection H as <- <-. reflexivity.
    - destruct (l_step rprog st o) as [[evs1 st1]|] eqn:E1; [|discriminate].
      destruct (lrun rprog st1 ops) as [[evs2 st2]|] eqn:E2; [|discriminate].
      intros H. injection H as <- <-.
      rewrite (b_step _ _ _ _ E1). cbn [rbind]. rewrite (IH _ _ _ E2). cbn [rbind]. rewrite map_app. reflexivity.
  Qed.
End BoxedRun.

(** ** A failing flat run fails for an address-space reason, or the boxed run fails identically
    (sharpens [flat_no_bug]: the two API-misuse errors are mirrored by the boxed run) *)
Section ErrSim.
  Variable prog : entry -> list pushreq.
  Hypothesis Hprog : prog_wf prog.

  Lemma do_push_err2 fs bs p er : sim fs bs -> pushreq_wf p ->
    do_push flat_impl fs p = Err er -> benign er \/ do_push boxed_impl bs p = Err er.
  Proof.
    intros Hs (Hb & He). unfold do_push. fold (pushed_entry p).
    destruct (nth_error fs (p_queue p)) as [q|] eqn:En.
    2:{ intros H. injection H as <-. right. rewrite (sim_nth_none _ _ _ Hs En). reflexivity. }
    destruct (sim_nth _ _ _ _ Hs En) as (l & _ & Hq).
    cbn [q_push flat_impl rbind].
    destruct (fq_push q _ _) as [q'|er'] eqn:Ep; cbn [rbind]; [discriminate|].
    intros H. injection H as <-. left. eapply push_err; eassumption.
  Qed.

  Lemma do_script_err2 i ps : forall fs bs er, sim fs bs -> Forall pushreq_wf ps ->
    do_script flat_impl i fs ps = Err er -> benign er \/ do_script boxed_impl i bs ps = Err er.
  Proof.
    induction ps as [|p ps IH]; intros fs bs er Hs Hw; cbn [do_script]; [discriminate|].
    inversion Hw as [|? ? Hp Hps]; subst.
    destruct (Nat.eqb (p_queue p) i); [intros H; injection H as <-; right; reflexivity|].
    destruct (do_push flat_impl fs p) as [fs1|er1] eqn:E1; cbn [rbind].
    - destruct (do_push_sim _ _ _ _ Hs Hp E1) as (bs1 & -> & Hs1). cbn [rbind]. eapply IH; eassumption.
    - intros H. injection H as <-. destruct (do_push_err2 _ _ _ _ Hs Hp E1) as [H| ->]; [left; exact H|right; reflexivity].
  Qed.

  Lemma run_entries_err2 i es : forall fs bs er, sim fs bs ->
    run_entries flat_impl prog i fs es = Err er -> benign er \/ run_entries boxed_impl prog i bs es = Err er.
  Proof.
    induction es as [|e es IH]; intros fs bs er Hs; cbn [run_entries]; [discriminate|].
    destruct (do_script flat_impl i fs (prog e)) as [fs1|er1] eqn:E1; cbn [rbind].
    - destruct (do_script_sim _ _ _ _ _ Hs (Hprog e) E1) as (bs1 & -> & Hs1). cbn [rbind]. eapply IH; eassumption.
    - intros H. injection H as <-.
      destruct (do_script_err2 _ _ _ _ _ Hs (Hprog e) E1) as [H| ->]; [left; exact H|right; reflexivity].
  Qed.

  Lemma step_err2 fs bs o er : sim fs bs -> op_wf o ->
    Sys.step flat_impl prog fs o = Err er -> benign er \/ Sys.step boxed_impl prog bs o = Err er.
  Proof.
    intros Hs Hw. destruct o as [p|i|i|i]; cbn [Sys.step op_wf] in *.
    - destruct (do_push flat_impl fs p) as [fs1|er1] eqn:E1; cbn [rbind]; [discriminate|].
      intros H. injection H as <-. destruct (do_push_err2 _ _ _ _ Hs Hw E1) as [H| ->]; [left; exact H|right; reflexivity].
    - destruct (nth_error fs i) as [q|] eqn:En.
      2:{ intros H. injection H as <-. right. rewrite (sim_nth_none _ _ _ Hs En). reflexivity. }
      destruct (sim_nth _ _ _ _ Hs En) as (l & -> & Hq).
      cbn [q_execute flat_impl boxed_impl rbind bq_execute].
      destruct (execute_spec _ _ Hq) as (q' & -> & Hq' & _). cbn [rbind].
      destruct (run_entries flat_impl prog i _ l) as [fs1|er1] eqn:E1; cbn [rbind]; [discriminate|].
      intros H. injection H as <-.
      destruct (run_entries_err2 _ _ _ (set_nth bs i []) _ (sim_set_nth _ _ i _ _ Hs Hq') E1) as [H| ->];
        [left; exact H|right; reflexivity].
    - destruct (nth_error fs i) as [q|] eqn:En; [discriminate|].
      intros H. injection H as <-. right. rewrite (sim_nth_none _ _ _ Hs En). reflexivity.
    - destruct (nth_error fs i) as [q|] eqn:En.
      2:{ intros H. injection H as <-. right. rewrite (sim_nth_none _ _ _ Hs En). reflexivity. }
      destruct (sim_nth _ _ _ _ Hs En) as (l & _ & Hq).
      cbn [q_drop flat_impl rbind]. rewrite (drop_spec _ _ Hq). cbn [rbind]. discriminate.
  Qed.

  Lemma run_err2 ops : forall fs bs er, sim fs bs -> Forall op_wf ops ->
    Sys.run flat_impl prog fs ops = Err er -> benign er \/ Sys.run boxed_impl prog bs ops = Err er.
  Proof.
    induction ops as [|o ops IH]; intros fs bs er Hs Hw; cbn [Sys.run]; [discriminate|].
    inversion Hw as [|? ? Ho Hops]; subst.
    destruct (Sys.step flat_impl prog fs o) as [[evs1 fs1]|er1] eqn:E1; cbn [rbind].
    - destruct (step_sim _ Hprog _ _ _ _ _ Hs Ho E1) as (bs1 & -> & Hs1). cbn [rbind].
      destruct (Sys.run flat_impl prog fs1 ops) as [[evs2 fs2]|er2] eqn:E2; cbn [rbind]; [discriminate|].
      intros H. injection H as <-. destruct (IH _ _ _ Hs1 Hops E2) as [H| ->]; [left; exact H|right; reflexivity].
    - intros H. injection H as <-. destruct (step_err2 _ _ _ _ Hs Ho E1) as [H| ->]; [left; exact H|right; reflexivity].
  Qed.
End ErrSim.

(** ** The composition theorem.
    For every layout [L] (any sizes, power-of-two alignments, captured bytes per closure instance), every
    behaviour [rprog] of running closures (their pushes onto other queues, any 8-aligned allocator answers),
    every number [n] of queues and every operation sequence [ops] (push / execute / is_empty / drop /
    recreate, any 8-aligned allocator answers) that the list machine of Layer R performs from empty queues
    with events [revs] and final lists [st']: the SAME sequence on the flat byte-level model of
    src/queue/flat.rs either
    - completes, with exactly the events of the list machine (the same closure instances run in the same
      order -- [encq] carries the uid --, the same instances dropped un-run in the same order, the same
      is_empty answers), in a state whose queues hold exactly Layer R's lists, each flat queue delivering
      exactly its list on a later drop/execute and answering is_empty as the list does; or
    - stops because the address space is exhausted ([EOverflow] / [ELayout]: needs a buffer beyond 2^59
      bytes, see [flat_push_total]); never an assertion, a debug assertion, an out-of-bounds or misaligned
      access, a clobbered cell -- and never the API-misuse errors, because the list machine accepted [ops].
    Composition of [b_run] (lists = boxed run, by computation) with C17's [flat_refines_boxed] and
    [flat_no_bug_error]. *)
Theorem glue_queue_ops_proved L rprog n ops revs st' :
  lay_wf L -> rprog_wf rprog -> Forall rop_wf ops ->
  lrun rprog (repeat rq_new n) ops = Some (revs, st') ->
  match Sys.run flat_impl (cprog L rprog) (Sys.init flat_impl n) (map (cop L) ops) with
  | Ok (evs, fs) =>
      evs = map (cev L) revs /\ map abs fs = encs L st' /\
      Forall (fun q => fq_drop q = Ok (abs q) /\ fq_is_empty q = bq_is_empty (abs q)) fs
  | Err e => e = EOverflow \/ e = ELayout
  end.
Proof.
  intros HL HP HW HR.
  pose proof (b_run L rprog ops _ _ _ HR) as HB. rewrite <- init_encs in HB.
  pose proof (cprog_wf L rprog HL HP) as Hp. pose proof (cops_wf L ops HL HW) as Hw.
  destruct (Sys.run flat_impl (cprog L rprog) (Sys.init flat_impl n) (map (cop L) ops)) as [[evs fs]|e] eqn:EF.
  - destruct (flat_refines_boxed _ _ _ _ _ Hp Hw EF) as [HB' HF]. rewrite HB in HB'. injection HB' as <- <-.
    auto.
  - destruct (flat_no_bug_error _ _ _ _ Hp Hw EF) as [H|H]; [exact H|].
    destruct (run_err2 _ Hp _ _ _ _ (init_sim n) Hw EF) as [H'|H']; [exact H'|].
    rewrite HB in H'. discriminate.
Qed.

(** One queue, no nested pushes: the reading "push* / execute / drop / is_empty / recreate in any order". *)
Corollary glue_one_queue_proved L ops revs q' :
  lay_wf L -> Forall rop_wf ops ->
  lrun (fun _ => []) [rq_new] ops = Some (revs, [q']) ->
  match Sys.run flat_impl (fun _ => []) (Sys.init flat_impl 1) (map (cop L) ops) with
  | Ok (evs, fs) =>
      evs = map (cev L) revs /\
      exists f, fs = [f] /\ fq_drop f = Ok (map (encq L) q') /\ fq_is_empty f = rq_is_empty q'
  | Err e => e = EOverflow \/ e = ELayout
  end.
Proof.
  intros HL HW HR.
  pose proof (glue_queue_ops_proved L (fun _ => []) 1 ops revs [q'] HL (fun _ => Forall_nil _) HW HR) as H.
  change (cprog L (fun _ => [])) with (fun _ : entry => @nil pushreq) in H.
  destruct (Sys.run flat_impl (fun _ => []) (Sys.init flat_impl 1) (map (cop L) ops)) as [[evs fs]|e]; [|exact H].
  destruct H as (He & Ha & Hf). split; [exact He|].
  destruct fs as [|f [|f2 fs]]; cbn [map encs] in Ha; try discriminate.
  injection Ha as Ha. inversion Hf as [|? ? [Hd Hi] _]; subst.
  exists f. split; [reflexivity|]. rewrite Hd, Hi, Ha, enc_is_empty. auto.
Qed.
