(** Glue between Layer R and Layer T: proof that the abstract fixed-timer machine of
    Glue/TimersAbs.v (Layer R's rule) and the faithful model of Layer T (T/Model.v) produce the same
    observable results on every millisecond-aligned history ([glue_fixed_timers_proved]).

    Method: Layer T's own invariant [Inv3] (TInv + Rel between model state and specification state,
    T/RelOps.v) is carried along the history by [step_ok]; the specification state [sstate] is related
    to the abstract state ([RA]: the abstract pending list is the list of Pending timers of the
    specification, in creation order) under a side invariant [SP] (all timers fixed, aligned, created
    less than 32767 s ahead, and "a pending timer whose expiry is not in the future any more was
    created with its expiry already in the past").  Results of timer_del and now come from the
    monitor bits v10 / the model; the SET of timers fired by a run comes from v07 (no early) and v08
    (nothing due stays pending) with the alignment; their ORDER is NOT a consequence of the C19
    monitor (which is silent about equal deadlines with different (instant, now) pairs): it comes
    from the loop invariant of [advance] (T/RelRun.v [QA]: the fired timers are in the order of their
    queue keys (tick, slot)), re-exported here as [run_adv_strong], and from [r_fix_mono] (slots of
    fixed timers grow with creation). *)
From Coq Require Import ZArith List Bool Lia Sorting.Sorted.
From Stk Require Import Lib.U Gen.SrcTimers T.Bits T.Model T.Spec T.Quant T.Ticks T.Inv T.QueueLemmas
  T.VarLemmas T.InvProofs T.Rel T.RelArith T.SpecLemmas T.RelMoves T.RelOps T.RelRun T.Main Glue.TimersAbs.
Import ListNotations.
Local Open Scope Z_scope.
Ltac Zify.zify_post_hook ::= Z.div_mod_to_equations.

(** ** lists *)
Lemma filter_rev' {A} (f : A -> bool) l : filter f (rev l) = rev (filter f l).
Proof.
  induction l as [|a l IH]; [reflexivity|]. cbn [rev filter]. rewrite filter_app, IH. cbn [filter].
  destruct (f a); cbn [rev]; [reflexivity|apply app_nil_r].
Qed.

Lemma filter_map_comm {A B} (f : B -> bool) (g : A -> B) l : filter f (map g l) = map g (filter (fun x => f (g x)) l).
Proof. induction l as [|a l IH]; [reflexivity|]. cbn [map filter]. destruct (f (g a)); cbn [map]; rewrite IH; reflexivity. Qed.

Lemma filter_filter {A} (f g : A -> bool) l : filter f (filter g l) = filter (fun x => g x && f x) l.
Proof.
  induction l as [|a l IH]; [reflexivity|]. cbn [filter]. destruct (g a); cbn [filter andb]; [destruct (f a)|]; rewrite IH; reflexivity.
Qed.

Lemma filter_all {A} (f : A -> bool) l : (forall x, In x l -> f x = true) -> filter f l = l.
Proof.
  induction l as [|a l IH]; intros H; [reflexivity|]. cbn [filter]. rewrite (H a (or_introl eq_refl)).
  rewrite IH; [reflexivity|]. intros x Hx. apply H. right. assumption.
Qed.

Lemma existsb_rev {A} (f : A -> bool) l : existsb f (rev l) = existsb f l.
Proof.
  apply eq_true_iff_eq. rewrite !existsb_exists. split; intros (x & Hx & E); exists x; (split; [|assumption]).
  - apply in_rev. assumption.
  - apply in_rev in Hx. assumption.
Qed.

Lemma FOP_SS {A} (R : A -> A -> Prop) l : ForallOrdPairs R l -> StronglySorted R l.
Proof. induction 1; constructor; assumption. Qed.

Lemma SS_map {A B} (f : A -> B) (R : A -> A -> Prop) (S : B -> B -> Prop) l :
  (forall x y, In x l -> In y l -> R x y -> S (f x) (f y)) -> StronglySorted R l -> StronglySorted S (map f l).
Proof.
  intros H St. induction St as [|a l St IH Fa]; cbn [map]; constructor.
  - apply IH. intros x y Hx Hy. apply H; right; assumption.
  - rewrite Forall_forall in *. intros y Hy. apply in_map_iff in Hy. destruct Hy as (x & <- & Hx).
    apply H; [left; reflexivity|right; assumption|apply Fa; assumption].
Qed.

(** two lists strictly sorted by the same asymmetric relation and with the same elements are equal *)
Lemma sorted_unique {A} (R : A -> A -> Prop) : (forall x y, R x y -> R y x -> False) ->
  forall l1 l2, StronglySorted R l1 -> StronglySorted R l2 -> (forall x, In x l1 <-> In x l2) -> l1 = l2.
Proof.
  intros Asym. induction l1 as [|x l1 IH]; intros [|y l2] S1 S2 Hm.
  - reflexivity.
  - exfalso. apply (proj2 (Hm y)). left. reflexivity.
  - exfalso. apply (proj1 (Hm x)). left. reflexivity.
  - inversion S1 as [|? ? S1' F1]; subst. inversion S2 as [|? ? S2' F2]; subst. rewrite Forall_forall in F1, F2.
    assert (E : x = y).
    { destruct (proj1 (Hm x) (or_introl eq_refl)) as [E|Hx]; [auto|].
      destruct (proj2 (Hm y) (or_introl eq_refl)) as [E|Hy]; [auto|].
      exfalso. exact (Asym x y (F1 y Hy) (F2 x Hx)). }
    subst y. f_equal. apply IH; try assumption. intros z. split; intros Hz.
    + destruct (proj1 (Hm z) (or_intror Hz)) as [E|H]; [|assumption]. subst z. exfalso. exact (Asym x x (F1 x Hz) (F1 x Hz)).
    + destruct (proj2 (Hm z) (or_intror Hz)) as [E|H]; [|assumption]. subst z. exfalso. exact (Asym x x (F2 x Hz) (F2 x Hz)).
Qed.

(** ** the abstract sort *)
Definition ale (x y : aitem) : Prop := ai_le x y = true.
Definition alt (x y : aitem) : Prop := ai_ord x < ai_ord y \/ (ai_ord x = ai_ord y /\ ai_idx x < ai_idx y).

Lemma ale_total x y : ai_le x y = false -> ale y x.
Proof. unfold ale, ai_le. intros H. lia. Qed.
Lemma ale_trans x y z : ale x y -> ale y z -> ale x z.
Proof. unfold ale, ai_le. lia. Qed.
Lemma alt_asym x y : alt x y -> alt y x -> False.
Proof. unfold alt. lia. Qed.
Lemma ale_alt x y : ale x y -> ai_idx x <> ai_idx y -> alt x y.
Proof. unfold ale, ai_le, alt. lia. Qed.

Lemma ai_insert_In x l z : In z (ai_insert x l) <-> z = x \/ In z l.
Proof.
  induction l as [|y l IH]; cbn [ai_insert In]; [intuition|].
  destruct (ai_le x y); cbn [In]; [intuition|]. rewrite IH. intuition.
Qed.

Lemma ai_sort_In l z : In z (ai_sort l) <-> In z l.
Proof.
  induction l as [|y l IH]; [reflexivity|]. change (ai_sort (y :: l)) with (ai_insert y (ai_sort l)).
  rewrite ai_insert_In, IH. cbn [In]. intuition.
Qed.

Lemma ai_insert_sorted x l : StronglySorted ale l -> StronglySorted ale (ai_insert x l).
Proof.
  induction 1 as [|y l St IH Fy]; cbn [ai_insert].
  - constructor; constructor.
  - destruct (ai_le x y) eqn:E.
    + constructor; [constructor; assumption|]. constructor; [exact E|].
      rewrite Forall_forall in *. intros z Hz. eapply ale_trans; [exact E|auto].
    + constructor; [assumption|]. rewrite Forall_forall in *. intros z Hz. apply ai_insert_In in Hz.
      destruct Hz as [->|Hz]; [apply ale_total; assumption|auto].
Qed.

Lemma ai_sort_sorted l : StronglySorted ale (ai_sort l).
Proof. induction l as [|y l IH]; [constructor|]. change (ai_sort (y :: l)) with (ai_insert y (ai_sort l)). apply ai_insert_sorted. exact IH. Qed.

Lemma ai_insert_nodup x l : NoDup (map ai_idx l) -> ~ In (ai_idx x) (map ai_idx l) -> NoDup (map ai_idx (ai_insert x l)).
Proof.
  induction l as [|y l IH]; cbn [ai_insert map]; intros N Hn.
  - constructor; [intros []|constructor].
  - destruct (ai_le x y); cbn [map].
    + constructor; assumption.
    + inversion N as [|? ? Hy N']; subst. constructor.
      * intros Hin. apply in_map_iff in Hin. destruct Hin as (z & Ez & Hz). apply ai_insert_In in Hz.
        destruct Hz as [->|Hz]; [apply Hn; left; symmetry; assumption|apply Hy; rewrite <- Ez; apply in_map; assumption].
      * apply IH; [assumption|]. intros Hin. apply Hn. right. assumption.
Qed.

Lemma ai_sort_nodup l : NoDup (map ai_idx l) -> NoDup (map ai_idx (ai_sort l)).
Proof.
  induction l as [|y l IH]; cbn [map]; intros N; [constructor|]. inversion N as [|? ? Hy N']; subst.
  change (ai_sort (y :: l)) with (ai_insert y (ai_sort l)). apply ai_insert_nodup; [auto|].
  intros Hin. apply Hy. apply in_map_iff in Hin. destruct Hin as (z & Ez & Hz). apply (proj1 (ai_sort_In l z)) in Hz.
  rewrite <- Ez. apply in_map. assumption.
Qed.

Lemma ale_strict l : StronglySorted ale l -> NoDup (map ai_idx l) -> StronglySorted alt l.
Proof.
  induction 1 as [|y l St IH Fy]; cbn [map]; intros N; constructor; inversion N as [|? ? Hy N']; subst; [auto|].
  rewrite Forall_forall in *. intros z Hz. apply ale_alt; [auto|]. intros E. apply Hy. rewrite E. apply in_map. assumption.
Qed.

Lemma ai_sort_strict l : NoDup (map ai_idx l) -> StronglySorted alt (ai_sort l).
Proof. intros N. apply ale_strict; [apply ai_sort_sorted|apply ai_sort_nodup; assumption]. Qed.

(** ** quantisation on millisecond-aligned instants *)
Definition Btz (eff tset : Z) : Z := Z.max (ceil_ns eff) (floor_ns tset + 1).

Lemma aligned_gap x y : aligned x -> aligned y -> x < y -> x + MS <= y.
Proof. unfold aligned, MS. lia. Qed.

(** a strictly earlier clamped expiry has a strictly earlier queue key *)
Lemma Btz_lt ea ta eb tb : 0 <= ta -> 0 <= tb -> Z.max ea ta + 2 * STEP <= Z.max eb tb -> Btz ea ta < Btz eb tb.
Proof.
  intros Ha Hb H. unfold Btz.
  pose proof (two_steps (Z.max ea ta) (Z.max eb tb) ltac:(lia) H) as T.
  pose proof (ceil_mono ea (Z.max ea ta) ltac:(lia)). pose proof (floor_le_ceil (Z.max ea ta)).
  pose proof (floor_mono ta (Z.max ea ta) ltac:(lia)).
  pose proof (floor_le_ceil eb).
  destruct (Z.max_spec eb tb) as [[_ E]|[_ E]]; rewrite E in *; lia.
Qed.

Lemma Btz_future e t : 0 <= t -> t + STEP <= e -> Btz e t = ceil_ns e.
Proof.
  intros Ht H. unfold Btz. pose proof (step_floor_lt_floor t e H Ht). pose proof (floor_le_ceil e). lia.
Qed.
Lemma Btz_clamped e t : e <= t -> Btz e t = floor_ns t + 1.
Proof. intros H. unfold Btz. pose proof (ceil_mono e t H). pose proof (floor_le_ceil t). lia. Qed.

(** ** the monitor's [fire_all] *)
Lemma v_and_ok_inv a b : v_and a b = v_ok -> a = v_ok /\ b = v_ok.
Proof.
  destruct a as [a1 a2 a3 a4 a5 a6], b as [b1 b2 b3 b4 b5 b6]. unfold v_and, v_ok. cbn [v07 v08 v09 v10 v15 v19].
  intros H. injection H as H1 H2 H3 H4 H5 H6.
  apply andb_prop in H1, H2, H3, H4, H5, H6.
  destruct H1 as [-> ->], H2 as [-> ->], H3 as [-> ->], H4 as [-> ->], H5 as [-> ->], H6 as [-> ->]. split; reflexivity.
Qed.

Lemma fire_all_vok cn ids : forall l v fi l' fi', fire_all cn ids l v fi = (l', v_ok, fi') -> v = v_ok.
Proof.
  induction ids as [|id ids IH]; intros l v fi l' fi' H; cbn [fire_all] in H.
  - injection H as _ E _. exact E.
  - destruct (find_id id l) as [t|]; apply IH in H; apply v_and_ok_inv in H; tauto.
Qed.

(** a run whose verdict is clean: the fired ids are the ids of the recorded timers, each with an
    effective expiry at or before the new Core::now *)
Lemma fire_all_ok_spec cn ids : forall l fi0 l' fi', fire_all cn ids l v_ok fi0 = (l', v_ok, fi') ->
  exists fi, fi' = fi0 ++ fi /\ map ti_id fi = ids /\ forall t, In t fi -> ti_eff t <= cn.
Proof.
  induction ids as [|id ids IH]; intros l fi0 l' fi' H; cbn [fire_all] in H.
  - injection H as _ <-. exists []. rewrite app_nil_r. split; [reflexivity|split; [reflexivity|intros t []]].
  - destruct (find_id id l) as [t|] eqn:Ef.
    + pose proof (fire_all_vok _ _ _ _ _ _ _ H) as Hv. apply v_and_ok_inv in Hv. destruct Hv as [_ Hv].
      destruct (find_id_split _ _ _ Ef) as (_ & _ & _ & Hid & _).
      destruct (ti_stat t); try discriminate Hv. rewrite Hv in H. change (v_and v_ok v_ok) with v_ok in H.
      injection Hv as Hle. apply Z.leb_le in Hle.
      destruct (IH _ _ _ _ H) as (fi & -> & Em & Hf). exists (t :: fi). rewrite <- app_assoc. split; [reflexivity|].
      split; [cbn [map]; rewrite Hid, Em; reflexivity|]. intros x [<-|Hx]; auto.
    + apply fire_all_vok in H. discriminate H.
Qed.

Lemma update_id_pending id l : NoDup (map ti_id l) ->
  pending (update_id id (set_stat Fired) l) = filter (fun x => negb (ti_id x =? id)) (pending l).
Proof.
  induction l as [|a l IH]; cbn [map update_id]; intros N; [reflexivity|]. inversion N as [|? ? Ha N']; subst.
  destruct (Z.eqb_spec (ti_id a) id) as [E|E].
  - rewrite pending_cons_dead by (cbn; discriminate).
    assert (Hr : filter (fun x => negb (ti_id x =? id)) (pending l) = pending l).
    { apply filter_all. intros x Hx. apply pending_In in Hx. destruct Hx as [Hx _].
      destruct (Z.eqb_spec (ti_id x) id) as [E'|E']; [|reflexivity]. exfalso. apply Ha. rewrite E, <- E'. apply in_map. assumption. }
    unfold pending at 2. cbn [filter]. fold (pending l). destruct (is_pending (ti_stat a)); cbn [filter].
    + destruct (Z.eqb_spec (ti_id a) id); [|contradiction]. cbn [negb]. symmetry. exact Hr.
    + symmetry. exact Hr.
  - unfold pending at 1 2. cbn [filter]. fold (pending l). fold (pending (update_id id (set_stat Fired) l)).
    destruct (is_pending (ti_stat a)); cbn [filter].
    + destruct (Z.eqb_spec (ti_id a) id); [contradiction|]. cbn [negb]. rewrite IH by assumption. reflexivity.
    + apply IH. assumption.
Qed.

Lemma fire_all_pending cn ids : forall l v fi l' v' fi', NoDup (map ti_id l) -> fire_all cn ids l v fi = (l', v', fi') ->
  pending l' = filter (fun t => negb (existsb (Z.eqb (ti_id t)) ids)) (pending l).
Proof.
  induction ids as [|id ids IH]; intros l v fi l' v' fi' N H; cbn [fire_all] in H.
  - injection H as <- _ _. symmetry. apply filter_all. reflexivity.
  - destruct (find_id id l) as [t|] eqn:Ef.
    + apply IH in H; [|rewrite update_id_ids; assumption]. rewrite H, update_id_pending, filter_filter by assumption.
      apply filter_ext. intros x. cbn [existsb]. rewrite negb_orb. reflexivity.
    + apply IH in H; [|assumption]. rewrite H. apply filter_ext_in. intros x Hx. apply pending_In in Hx. destruct Hx as [Hx _].
      cbn [existsb]. destruct (Z.eqb_spec (ti_id x) id) as [E|E]; [|reflexivity]. exfalso. exact (find_id_None _ _ Ef x Hx E).
Qed.

(** ** the advancing run, with the order of the fired timers exposed
    (the first half of the proof of [step_ORun_adv], T/RelRun.v, keeping the loop invariant's
    [ForallOrdPairs Rfix fi]: the fired timers are in the order of their queue keys) *)
Lemma run_adv_strong bf s sp n ns : Inv3 bf s sp n -> n < HMAX -> cnow s < ns -> ns < 2 ^ 61 ->
  exists s' f' l' fi, tstep s (ORun ns) = Some (s', RFired f') /\
    fire_all ns f' (s_timers sp) v_ok [] = (l', v_ok, fi) /\ ForallOrdPairs Rfix fi /\
    (forall a, In a fi -> In a (s_timers sp) /\ is_pend a).
Proof.
  intros V Hn Hadv Hnsb. pose proof V as [I C R Hc]. destruct (rl_cnow _ _ _ R) as [Ecn Hcr].
  pose proof (TInv_PH s I) as P. destruct (now_facts _ _ _ P) as [Hnow Hlow].
  destruct (floor_range ns ltac:(unfold TMAX; lia)) as [Hf Hfl].
  set (target := floor_ns ns) in *.
  assert (Hle : now s <= target) by (rewrite (i_now s I); apply floor_mono; lia).
  set (linit := s_timers sp).
  set (prog := exists e1 q, queue s = e1 :: q /\ Tof (now s) (e_wt e1) <= target).
  pose proof (rl_h _ _ _ R) as RH. fold linit in RH.
  destruct (advance_loop_rule (QA bf n ns linit s (Phi s linit) prog target) target)
    with (fuel := advance_fuel (set_cnow s ns) target) (s := set_cnow s ns) (fired := @nil Z)
    as (s' & f' & E & Q' & G').
  - intros s0 f0 Q0 L0. eapply qa_step; eauto; try lia.
  - split; [destruct P; constructor; sproj; assumption|].
    split; [apply counters_CH in C; destruct C as (C1 & C2 & C3); split; [exact C1|split; [exact C2|exact C3]]|].
    split; [reflexivity|split; [exact Hle|split; [sproj; lia|]]].
    exists linit, []. split; [reflexivity|]. split.
    { eapply relh_same; [exact RH| | | |]; sproj; try reflexivity; try lia. }
    split; [constructor|split; [intros a b []|split; [auto|split; [intros a []|]]]].
    rewrite (Phi_same_var s) by (intros j; reflexivity). split; [lia|]. intros _. left. split; reflexivity.
  - intros L. apply advance_fuel_enough; sproj; lia.
  - destruct Q' as (P' & C' & K' & N' & Ni' & l' & fi & Efire & R' & Hfop & Hord & Hsub1 & Hsub2 & Hphi & Hpr).
    exists s', f', l', fi. split; [|split; [exact Efire|split; [exact Hfop|exact Hsub2]]].
    cbn [tstep]. destruct (Z.gtb_spec ns (cnow s)) as [_|?]; [|lia]. unfold advance.
    rewrite (t_floor_spec ns ltac:(unfold TMAX; lia)). cbn [obind]. fold target. rewrite E. reflexivity.
Qed.

(** ** order of the queue keys = order of the clamped expiries, on aligned instants *)
Lemma Btz_mono_dl ea ta eb tb cn :
  aligned ea -> aligned ta -> aligned eb -> aligned tb -> 0 <= ta <= cn -> 0 <= tb <= cn ->
  (ea <= cn -> ea <= ta) -> (eb <= cn -> eb <= tb) ->
  (Z.max ea ta < Z.max eb tb -> Btz ea ta < Btz eb tb) /\ (Z.max ea ta = Z.max eb tb -> Btz ea ta = Btz eb tb).
Proof.
  intros A1 A2 A3 A4 Ha Hb Ca Cb. split.
  - intros H. apply Btz_lt; try lia. unfold aligned, MS, STEP in *. lia.
  - intros H. destruct (Z.lt_ge_cases ta ea) as [Fa|Fa]; destruct (Z.lt_ge_cases tb eb) as [Fb|Fb].
    + rewrite !Btz_future by (unfold aligned, MS, STEP in *; lia). f_equal. lia.
    + exfalso. lia.
    + exfalso. lia.
    + rewrite !Btz_clamped by lia. f_equal. f_equal. lia.
Qed.

Definition to_ai (t : tinfo) : aitem := mkAI (ti_eff t) (deadline t) (ti_n t) (ti_id t).

Lemma tlt_alt cn a b :
  aligned (ti_eff a) -> aligned (ti_tset a) -> aligned (ti_eff b) -> aligned (ti_tset b) ->
  0 <= ti_tset a <= cn -> 0 <= ti_tset b <= cn ->
  (ti_eff a <= cn -> ti_eff a <= ti_tset a) -> (ti_eff b <= cn -> ti_eff b <= ti_tset b) ->
  (ti_slot a < ti_slot b -> ti_n a < ti_n b) ->
  tlt a b -> alt (to_ai a) (to_ai b).
Proof.
  intros A1 A2 A3 A4 Ha Hb Ca Cb Hs H. unfold tlt in H. unfold alt, to_ai, deadline. cbn [ai_ord ai_idx].
  change (Bt a) with (Btz (ti_eff a) (ti_tset a)) in H. change (Bt b) with (Btz (ti_eff b) (ti_tset b)) in H.
  destruct (Btz_mono_dl _ _ _ _ cn A1 A2 A3 A4 Ha Hb Ca Cb) as [L1 E1].
  destruct (Btz_mono_dl _ _ _ _ cn A3 A4 A1 A2 Hb Ha Cb Ca) as [L2 E2].
  set (da := Z.max (ti_eff a) (ti_tset a)) in *. set (db := Z.max (ti_eff b) (ti_tset b)) in *.
  clearbody da db. tri da db; lia.
Qed.

(** ** the side invariant on the specification state and its relation to the abstract state *)
Definition t_dom (cn : Z) (t : tinfo) : Prop :=
  ti_kind t = KFixed /\ aligned (ti_eff t) /\ aligned (ti_tset t) /\ ti_eff t < ti_tset t + NEAR /\
  (is_pend t -> ti_eff t <= cn -> ti_eff t <= ti_tset t).

Record SP (sp : sstate) : Prop := mkSP {
  sp_now : aligned (s_cnow sp);
  sp_t : forall t, In t (s_timers sp) -> t_dom (s_cnow sp) t }.

Definition RA (sp : sstate) (a : astate) : Prop :=
  a_now a = s_cnow sp /\ a_count a = s_count sp /\ a_pend a = rev (map to_ai (pending (s_timers sp))).

(** ** what one monitor step does to the specification state *)
Lemma ms_add sp ns cb slot g :
  fst (mon_step sp (OAdd ns cb) (Some (RKey slot g))) =
  mkS (s_cnow sp) (mkTI cb KFixed ns (s_cnow sp) Pending slot g (s_count sp) ns (s_cnow sp) :: s_timers sp) (s_count sp + 1) None 0 0.
Proof. reflexivity. Qed.
Lemma ms_after sp dur cb slot g :
  fst (mon_step sp (OAfter dur cb) (Some (RKey slot g))) =
  mkS (s_cnow sp) (mkTI cb KFixed (s_cnow sp + dur) (s_cnow sp) Pending slot g (s_count sp) (s_cnow sp + dur) (s_cnow sp) :: s_timers sp) (s_count sp + 1) None 0 0.
Proof. reflexivity. Qed.
Lemma ms_del sp kref sl g b :
  mon_step sp (ODel kref sl g) (Some (RBool b)) =
  (mkS (s_cnow sp) (if key_pending KFixed kref (s_timers sp) then update KFixed kref (set_stat Deleted) (s_timers sp) else s_timers sp)
       (s_count sp + 1) None 0 0,
   mkV true true true (Bool.eqb (key_pending KFixed kref (s_timers sp)) b) true true).
Proof. reflexivity. Qed.
Lemma ms_now sp v :
  fst (mon_step sp ONow (Some (RNs v))) = mkS (s_cnow sp) (s_timers sp) (s_count sp + 1) (s_last_ne sp) (s_drain sp) (s_budget sp).
Proof. reflexivity. Qed.
Lemma ms_run sp ns ids l1 v1 fi :
  fire_all (Z.max (s_cnow sp) ns) ids (s_timers sp) v_ok [] = (l1, v1, fi) ->
  let r := mon_step sp (ORun ns) (Some (RFired ids)) in
  s_cnow (fst r) = Z.max (s_cnow sp) ns /\ s_timers (fst r) = l1 /\ s_count (fst r) = s_count sp + 1 /\
  (v08 (snd r) = true -> s_cnow sp < ns -> existsb (due (Z.max (s_cnow sp) ns)) l1 = false).
Proof.
  intros H. unfold mon_step, mon_step0. rewrite H. cbn [fst snd s_cnow s_timers s_count].
  split; [reflexivity|split; [reflexivity|split; [reflexivity|]]].
  intros Hv Hgt. apply (proj2 (Z.gtb_lt _ _)) in Hgt. rewrite Hgt in Hv. unfold v_and in Hv. cbn [v08] in Hv.
  apply andb_prop in Hv. destruct Hv as [_ Hv]. apply negb_true_iff in Hv. exact Hv.
Qed.

(** ** list facts about the specification state on fixed timers *)
Lemma kp_existsb kref l : (forall t, In t l -> ti_kind t = KFixed) -> NoDup (map ti_n l) ->
  key_pending KFixed kref l = existsb (fun t => ti_n t =? kref) (pending l).
Proof.
  unfold key_pending. induction l as [|a l IH]; intros Hk N; [reflexivity|]. cbn [lookup map] in *.
  inversion N as [|? ? Ha N']; subst. rewrite (Hk a (or_introl eq_refl)). cbn [kind_eqb andb].
  unfold pending. cbn [filter]. fold (pending l).
  destruct (Z.eqb_spec (ti_n a) kref) as [E|E].
  - destruct (is_pending (ti_stat a)) eqn:Ep.
    + cbn [existsb]. rewrite (proj2 (Z.eqb_eq _ _) E). reflexivity.
    + destruct (existsb (fun t => ti_n t =? kref) (pending l)) eqn:Ex; [|reflexivity]. exfalso.
      apply existsb_exists in Ex. destruct Ex as (x & Hx & Ex). apply pending_In in Hx. apply Z.eqb_eq in Ex.
      apply Ha. rewrite E, <- Ex. apply in_map. tauto.
  - rewrite IH by (auto; intros t Ht; apply Hk; right; assumption).
    destruct (is_pending (ti_stat a)); [|reflexivity]. cbn [existsb]. rewrite (proj2 (Z.eqb_neq _ _) E). reflexivity.
Qed.

Lemma pending_update_del kref l : (forall t, In t l -> ti_kind t = KFixed) -> NoDup (map ti_n l) ->
  pending (update KFixed kref (set_stat Deleted) l) = filter (fun t => negb (ti_n t =? kref)) (pending l).
Proof.
  induction l as [|a l IH]; intros Hk N; [reflexivity|]. cbn [update map] in *.
  inversion N as [|? ? Ha N']; subst. rewrite (Hk a (or_introl eq_refl)). cbn [kind_eqb andb].
  assert (Hk' : forall t, In t l -> ti_kind t = KFixed) by (intros t Ht; apply Hk; right; assumption).
  destruct (Z.eqb_spec (ti_n a) kref) as [E|E].
  - rewrite pending_cons_dead by (cbn; discriminate).
    assert (Hr : filter (fun t => negb (ti_n t =? kref)) (pending l) = pending l).
    { apply filter_all. intros x Hx. apply pending_In in Hx. destruct Hx as [Hx _].
      destruct (Z.eqb_spec (ti_n x) kref) as [E'|E']; [|reflexivity]. exfalso. apply Ha. rewrite E, <- E'. apply in_map. assumption. }
    unfold pending at 2. cbn [filter]. fold (pending l). destruct (is_pending (ti_stat a)); cbn [filter].
    + rewrite (proj2 (Z.eqb_eq _ _) E). cbn [negb]. symmetry. exact Hr.
    + symmetry. exact Hr.
  - unfold pending at 1 2. cbn [filter]. fold (pending l). fold (pending (update KFixed kref (set_stat Deleted) l)).
    destruct (is_pending (ti_stat a)); cbn [filter].
    + rewrite (proj2 (Z.eqb_neq _ _) E). cbn [negb]. rewrite IH by assumption. reflexivity.
    + apply IH; assumption.
Qed.

Lemma update_In k kref f l x : In x (update k kref f l) -> In x l \/ exists t, In t l /\ x = f t.
Proof.
  induction l as [|a l IH]; cbn [update]; intros H; [destruct H|].
  destruct (kind_eqb (ti_kind a) k && (ti_n a =? kref)).
  - destruct H as [<-|H]; [right; exists a; split; [left|]; reflexivity|left; right; assumption].
  - destruct H as [<-|H]; [left; left; reflexivity|]. destruct (IH H) as [H1|(t & Ht & ->)]; [left; right; assumption|].
    right. exists t. split; [right; assumption|reflexivity].
Qed.

Lemma update_id_In id l x : In x (update_id id (set_stat Fired) l) -> In x l \/ exists t, In t l /\ x = set_stat Fired t.
Proof.
  induction l as [|a l IH]; cbn [update_id]; intros H; [destruct H|].
  destruct (ti_id a =? id).
  - destruct H as [<-|H]; [right; exists a; split; [left|]; reflexivity|left; right; assumption].
  - destruct H as [<-|H]; [left; left; reflexivity|]. destruct (IH H) as [H1|(t & Ht & ->)]; [left; right; assumption|].
    right. exists t. split; [right; assumption|reflexivity].
Qed.

Lemma fire_all_In cn ids : forall l v fi l' v' fi' x, fire_all cn ids l v fi = (l', v', fi') -> In x l' ->
  In x l \/ exists t, In t l /\ x = set_stat Fired t.
Proof.
  induction ids as [|id ids IH]; intros l v fi l' v' fi' x H Hx; cbn [fire_all] in H.
  - injection H as <- _ _. left. assumption.
  - destruct (find_id id l) as [t|]; [|eauto].
    destruct (IH _ _ _ _ _ _ x H Hx) as [H1|(t1 & Ht1 & ->)].
    + apply update_id_In in H1. exact H1.
    + apply update_id_In in Ht1. destruct Ht1 as [H1|(t2 & Ht2 & ->)]; right; [exists t1|exists t2]; split; auto.
Qed.

Lemma NoDup_map_filter {A B} (f : A -> B) (g : A -> bool) l : NoDup (map f l) -> NoDup (map f (filter g l)).
Proof.
  induction l as [|a l IH]; cbn [map filter]; intros N; [constructor|]. inversion N as [|? ? Ha N']; subst.
  destruct (g a); cbn [map]; [constructor|]; auto.
  intros Hin. apply Ha. apply in_map_iff in Hin. destruct Hin as (x & E & Hx). apply filter_In in Hx.
  rewrite <- E. apply in_map. tauto.
Qed.

Lemma t_dom_dead cn cn' t st : st <> Pending -> t_dom cn t -> t_dom cn' (set_stat st t).
Proof.
  intros Hst (K & A1 & A2 & Hn & _). unfold t_dom, is_pend. cbn [set_stat ti_kind ti_eff ti_tset ti_stat].
  split; [assumption|split; [assumption|split; [assumption|split; [assumption|]]]]. intros E. contradiction.
Qed.

(** ** one operation *)
Definition op_pre0 (sp : sstate) (o : top) : Prop :=
  op_bounds o /\ (forall cb, In cb (op_cbs o) -> forall t, In t (s_timers sp) -> ti_id t <> cb) /\
  op_key_ok o (ktbl (s_timers sp)) = true.

Definition gstep (s : tstate) (sp : sstate) (n : Z) (a : astate) (o : top) : Prop :=
  exists s' out, tstep s o = Some (s', out) /\ obs out = snd (astep a o) /\
    Inv3 true s' (fst (mon_step sp o (Some out))) (n + 1) /\ SP (fst (mon_step sp o (Some out))) /\
    RA (fst (mon_step sp o (Some out))) (fst (astep a o)).

Lemma NEAR_aligned : aligned NEAR.
Proof. reflexivity. Qed.

Lemma pre_full s sp n a o : Inv3 true s sp n -> SP sp -> RA sp a -> op_pre0 sp o -> aop_ok a o -> op_pre true s sp o.
Proof.
  intros [I C R Hn] [Hal Ht] (En & Ec & Ep) (Hb & Hf & Hk) Ha. destruct (rl_cnow _ _ _ R) as [Ecn Hcr].
  split; [assumption|split; [destruct o; cbn [aop_ok] in Ha; try exact Logic.I; contradiction|split; [assumption|split; [assumption|]]]].
  intros _. pose proof NEAR_aligned as HN. destruct o; cbn [op_band_ok]; try reflexivity; cbn [aop_ok] in Ha.
  - destruct Ha as [A L]. rewrite En, Ecn in L. rewrite Ecn in Hal. apply negb_true_iff, andb_false_iff. left. apply Z.leb_gt.
    unfold aligned, MS, STEP in *. unfold NEAR in *. lia.
  - destruct Ha as [A L]. rewrite Ecn in Hal. apply negb_true_iff, andb_false_iff. left. apply Z.leb_gt.
    unfold aligned, MS, STEP in *. unfold NEAR in *. lia.
Qed.

Lemma step_ok' s sp n o : Inv3 true s sp n -> n < HMAX -> op_pre true s sp o ->
  exists s' out, tstep s o = Some (s', out) /\ Inv3 true s' (fst (mon_step sp o (Some out))) (n + 1) /\
                 vgood true (snd (mon_step sp o (Some out))).
Proof.
  intros V Hn Hp. destruct (step_ok true s sp n o V Hn Hp) as (s' & out & Es & H). exists s', out.
  destruct (mon_step sp o (Some out)) as [sp' v]. cbn [fst snd]. tauto.
Qed.

Lemma key_out_inv r s' out : key_out r = Some (s', out) -> exists slot g, out = RKey slot g.
Proof. unfold key_out. destruct r as [[[s1 sl] g]|]; cbn; intros H; [injection H as _ <-; eauto|discriminate]. Qed.
Lemma bool_out_inv r s' out : bool_out r = Some (s', out) -> exists b, out = RBool b.
Proof. unfold bool_out. destruct r as [[s1 b]|]; cbn; intros H; [injection H as _ <-; eauto|discriminate]. Qed.

(** creation *)
Lemma sp_ra_add sp a e cb slot g : SP sp -> RA sp a -> aligned e -> e < s_cnow sp + NEAR ->
  let sp' := mkS (s_cnow sp) (mkTI cb KFixed e (s_cnow sp) Pending slot g (s_count sp) e (s_cnow sp) :: s_timers sp) (s_count sp + 1) None 0 0 in
  SP sp' /\ RA sp' (a_add a e cb).
Proof.
  intros [Hal Ht] (En & Ec & Ep) Ae Le. cbn zeta. split.
  - constructor; cbn [s_cnow s_timers]; [assumption|]. intros t [<-|Hin]; [|apply Ht; assumption].
    unfold t_dom. cbn [ti_kind ti_eff ti_tset]. split; [reflexivity|split; [assumption|split; [assumption|split; [assumption|]]]]. intros _ H. exact H.
  - unfold RA, a_add. cbn [a_now a_pend a_count s_cnow s_count s_timers].
    split; [assumption|split; [rewrite Ec; reflexivity|]].
    rewrite pending_cons_pend by reflexivity. cbn [map rev]. rewrite Ep. f_equal.
    unfold to_ai, deadline. cbn [ti_eff ti_tset ti_n ti_id]. rewrite En, Ec. reflexivity.
Qed.

Lemma g_add s sp n a ns cb : Inv3 true s sp n -> n < HMAX -> SP sp -> RA sp a -> op_pre0 sp (OAdd ns cb) ->
  aop_ok a (OAdd ns cb) -> gstep s sp n a (OAdd ns cb).
Proof.
  intros V Hn S Ra Hp Ha. pose proof (pre_full _ _ _ _ _ V S Ra Hp Ha) as Hpre.
  destruct (step_ok' _ _ _ _ V Hn Hpre) as (s' & out & Es & V' & _).
  pose proof Es as Es0. cbn [tstep] in Es0. destruct (key_out_inv _ _ _ Es0) as (slot & g & ->).
  exists s', (RKey slot g). split; [assumption|split; [reflexivity|]]. split; [assumption|].
  rewrite ms_add. cbn [astep fst]. destruct Ha as [A L]. destruct Ra as (En & Ra'). rewrite En in L.
  apply sp_ra_add; try assumption. split; assumption.
Qed.

Lemma g_after s sp n a dur cb : Inv3 true s sp n -> n < HMAX -> SP sp -> RA sp a -> op_pre0 sp (OAfter dur cb) ->
  aop_ok a (OAfter dur cb) -> gstep s sp n a (OAfter dur cb).
Proof.
  intros V Hn S Ra Hp Ha. pose proof (pre_full _ _ _ _ _ V S Ra Hp Ha) as Hpre.
  destruct (step_ok' _ _ _ _ V Hn Hpre) as (s' & out & Es & V' & _).
  pose proof Es as Es0. cbn [tstep] in Es0. destruct (key_out_inv _ _ _ Es0) as (slot & g & ->).
  exists s', (RKey slot g). split; [assumption|split; [reflexivity|]]. split; [assumption|].
  rewrite ms_after. cbn [astep fst]. destruct Ha as [A L]. pose proof Ra as (En & _). rewrite En.
  pose proof (sp_now _ S) as Hal.
  apply sp_ra_add; try assumption; unfold aligned, MS in *; lia.
Qed.

(** deletion *)
Lemma existsb_to_ai k l : existsb (fun x => ai_idx x =? k) (map to_ai l) = existsb (fun t => ti_n t =? k) l.
Proof. induction l as [|x l IH]; [reflexivity|]. cbn [map existsb]. rewrite IH. reflexivity. Qed.
Lemma g_del s sp n a kref sl g : Inv3 true s sp n -> n < HMAX -> SP sp -> RA sp a -> op_pre0 sp (ODel kref sl g) ->
  gstep s sp n a (ODel kref sl g).
Proof.
  intros V Hn S Ra Hp. pose proof (pre_full _ _ _ _ _ V S Ra Hp Logic.I) as Hpre.
  destruct (step_ok' _ _ _ _ V Hn Hpre) as (s' & out & Es & V' & Hv).
  pose proof Es as Es0. cbn [tstep] in Es0. destruct (bool_out_inv _ _ _ Es0) as (b & ->).
  rewrite ms_del in *. cbn [fst snd] in *.
  destruct Hv as (_ & _ & _ & H10 & _). cbn [v10] in H10. apply eqb_prop in H10.
  pose proof V as [I C R Hc]. pose proof (rl_h _ _ _ R) as RH. destruct S as [Hal Ht].
  assert (Hk : forall t, In t (s_timers sp) -> ti_kind t = KFixed) by (intros t Hin; apply (Ht t Hin)).
  pose proof (r_ns _ _ _ _ _ RH) as Nn. destruct Ra as (En & Ec & Ep).
  pose proof (kp_existsb kref _ Hk Nn) as Ekp.
  exists s', (RBool b). rewrite ms_del. cbn [fst]. split; [assumption|split; [|split; [assumption|split]]].
  - cbn [obs astep snd]. f_equal. rewrite <- H10, Ekp, Ep, existsb_rev, existsb_to_ai. reflexivity.
  - constructor; cbn [s_cnow s_timers]; [assumption|]. intros t Hin.
    destruct (key_pending KFixed kref (s_timers sp)); [|auto].
    apply update_In in Hin. destruct Hin as [Hin|(t0 & Hin & ->)]; [auto|].
    apply t_dom_dead with (cn := s_cnow sp); [discriminate|auto].
  - unfold RA. cbn [astep fst a_now a_pend a_count s_cnow s_count s_timers].
    split; [assumption|split; [rewrite Ec; reflexivity|]].
    rewrite Ep, filter_rev', filter_map_comm. f_equal. f_equal. cbn [to_ai ai_idx].
    destruct (key_pending KFixed kref (s_timers sp)) eqn:Ek.
    + rewrite pending_update_del by assumption. reflexivity.
    + rewrite filter_all; [reflexivity|]. intros x Hx. destruct (Z.eqb_spec (ti_n x) kref) as [E|E]; [|reflexivity].
      exfalso. symmetry in Ekp. assert (Ht' : existsb (fun t => ti_n t =? kref) (pending (s_timers sp)) = true).
      { apply existsb_exists. exists x. split; [assumption|apply Z.eqb_eq; assumption]. }
      congruence.
Qed.

(** now *)
Lemma g_now s sp n a : Inv3 true s sp n -> n < HMAX -> SP sp -> RA sp a -> gstep s sp n a ONow.
Proof.
  intros V Hn S Ra.
  assert (Hp : op_pre0 sp ONow) by (split; [exact Logic.I|split; [intros cb []|reflexivity]]).
  pose proof (pre_full _ _ _ _ _ V S Ra Hp Logic.I) as Hpre.
  destruct (step_ok' _ _ _ _ V Hn Hpre) as (s' & out & Es & V' & _).
  pose proof Es as Es0. cbn [tstep] in Es0. injection Es0 as <- <-.
  destruct V as [I C R Hc]. destruct (rl_cnow _ _ _ R) as [Ecn _]. destruct Ra as (En & Ec & Ep).
  exists s, (RNs (cnow s)). split; [assumption|split; [cbn [obs astep snd]; rewrite En, Ecn; reflexivity|]].
  split; [assumption|]. rewrite ms_now. destruct S as [Hal Ht]. split.
  - constructor; cbn [s_cnow s_timers]; assumption.
  - unfold RA. cbn [astep fst a_bump a_now a_pend a_count s_cnow s_count s_timers]. rewrite Ec. auto.
Qed.

(** run without advance *)
Lemma g_run_idle s sp n a ns : Inv3 true s sp n -> n < HMAX -> SP sp -> RA sp a -> op_pre0 sp (ORun ns) ->
  aop_ok a (ORun ns) -> ns <= cnow s -> gstep s sp n a (ORun ns).
Proof.
  intros V Hn S Ra Hp Ha Hle. pose proof (pre_full _ _ _ _ _ V S Ra Hp Ha) as Hpre.
  destruct (step_ok' _ _ _ _ V Hn Hpre) as (s' & out & Es & V' & _).
  pose proof Es as Es0. cbn [tstep] in Es0. destruct (Z.gtb_spec ns (cnow s)) as [?|_]; [lia|]. injection Es0 as <- <-.
  pose proof V as [I C R Hc]. destruct (rl_cnow _ _ _ R) as [Ecn _]. destruct Ra as (En & Ec & Ep).
  assert (Ef : fire_all (Z.max (s_cnow sp) ns) [] (s_timers sp) v_ok [] = (s_timers sp, v_ok, [])) by reflexivity.
  destruct (ms_run sp ns [] _ _ _ Ef) as (M1 & M2 & M3 & _).
  assert (Emax : Z.max (s_cnow sp) ns = s_cnow sp) by lia.
  assert (Hng : (ns >? a_now a) = false) by (rewrite Z.gtb_ltb; apply Z.ltb_ge; lia).
  exists s, (RFired []). split; [assumption|split; [cbn [obs astep]; rewrite Hng; reflexivity|]].
  split; [assumption|]. destruct S as [Hal Ht]. split.
  - constructor; rewrite M1, ?M2, Emax; assumption.
  - unfold RA. cbn [astep]. rewrite Hng. cbn [fst a_bump a_now a_pend a_count]. rewrite M1, M2, M3, Emax, Ec. auto.
Qed.

Lemma to_ai_cb l : map ai_cb (map to_ai l) = map ti_id l.
Proof. rewrite map_map. apply map_ext. reflexivity. Qed.
Lemma to_ai_idx l : map ai_idx (map to_ai l) = map ti_n l.
Proof. rewrite map_map. apply map_ext. reflexivity. Qed.

(** the advancing run *)
Lemma g_run_adv s sp n a ns : Inv3 true s sp n -> n < HMAX -> SP sp -> RA sp a -> op_pre0 sp (ORun ns) ->
  aop_ok a (ORun ns) -> cnow s < ns -> gstep s sp n a (ORun ns).
Proof.
  intros V Hn S Ra Hp Ha Hadv. pose proof (pre_full _ _ _ _ _ V S Ra Hp Ha) as Hpre.
  destruct Hp as (Hb & _). cbn [op_bounds] in Hb.
  destruct (run_adv_strong true s sp n ns V Hn Hadv Hb) as (s' & f' & l' & fi & Es & Efire & Hfop & Hsub).
  destruct (step_ok' _ _ _ _ V Hn Hpre) as (s'' & out & Es' & V' & Hv).
  rewrite Es in Es'. injection Es' as <- <-.
  pose proof V as [I C R Hc]. destruct (rl_cnow _ _ _ R) as [Ecn Hcr]. pose proof (rl_h _ _ _ R) as RH.
  destruct Ra as (En & Ec & Ep). destruct S as [Hal Ht]. destruct Ha as [Ans Hne].
  assert (Emax : Z.max (s_cnow sp) ns = ns) by lia.
  set (linit := s_timers sp) in *. set (P := pending linit) in *.
  rewrite <- Emax in Efire at 1.
  destruct (ms_run sp ns f' _ _ _ Efire) as (M1 & M2 & M3 & M4). rewrite Emax in *.
  destruct Hv as (_ & H08 & _). specialize (M4 H08 ltac:(lia)).
  destruct (fire_all_ok_spec _ _ _ _ _ _ Efire) as (fi1 & Efi & Eids & Heff). cbn [app] in Efi. subst fi1.
  pose proof (r_ids _ _ _ _ _ RH) as Nid. pose proof (r_ns _ _ _ _ _ RH) as Nn.
  pose proof (fire_all_pending _ _ _ _ _ _ _ _ Nid Efire) as Epl. fold P in Epl.
  (* every pending timer: in the fired list iff its expiry has been reached *)
  assert (Hin_fi : forall t, In t P -> existsb (Z.eqb (ti_id t)) f' = true -> In t fi).
  { intros t HtP Hex. apply existsb_exists in Hex. destruct Hex as (id & Hid & E). apply Z.eqb_eq in E.
    rewrite <- Eids in Hid. apply in_map_iff in Hid. destruct Hid as (t' & Et' & Ht').
    apply pending_In in HtP. destruct HtP as [HtP _]. destruct (Hsub t' Ht') as [Ht'l _].
    assert (t' = t) by (apply (NoDup_map_inj ti_id linit t' t Nid Ht'l HtP); congruence). subst t'. assumption. }
  assert (K : forall t, In t P -> existsb (Z.eqb (ti_id t)) f' = (ti_eff t <=? ns)).
  { intros t HtP. destruct (existsb (Z.eqb (ti_id t)) f') eqn:Hex.
    - symmetry. apply Z.leb_le. apply Heff. apply Hin_fi; assumption.
    - symmetry. apply Z.leb_gt. destruct (Z.lt_ge_cases ns (ti_eff t)) as [L|L]; [assumption|]. exfalso.
      assert (HtP' : In t (pending l')) by (rewrite Epl; apply filter_In; split; [assumption|rewrite Hex; reflexivity]).
      apply pending_In in HtP'. destruct HtP' as [Htl' Hpd].
      assert (Hdue : existsb (due ns) l' = true); [|congruence].
      apply existsb_exists. exists t. split; [assumption|]. unfold due. rewrite Hpd. cbn [is_pending andb].
      apply Z.leb_le. apply pending_In in HtP. destruct HtP as [Htl _].
      destruct (Ht t Htl) as (_ & A1 & A2 & _). pose proof (r_tset _ _ _ _ _ RH t Htl) as Hts.
      assert (Hnx : ti_eff t <> ns).
      { apply (Hne ltac:(lia) (to_ai t)). rewrite Ep. apply -> in_rev. apply in_map. apply pending_In. split; assumption. }
      unfold deadline, STEP. rewrite Ecn in Hal. unfold aligned, MS in *. lia. }
  assert (Efilt : filter (fun t => negb (existsb (Z.eqb (ti_id t)) f')) P = filter (fun t => negb (ti_eff t <=? ns)) P).
  { apply filter_ext_in. intros t HtP. rewrite K by assumption. reflexivity. }
  rewrite Efilt in Epl.
  exists s', (RFired f'). split; [assumption|split; [|split; [assumption|split]]].
  - (* the fired callbacks, in order *)
    cbn [obs astep]. destruct (Z.gtb_spec ns (a_now a)) as [_|?]; [|lia]. cbn [snd]. f_equal.
    rewrite <- Eids, <- to_ai_cb. f_equal. rewrite Ep, filter_rev', filter_map_comm.
    change (fun x => ai_due ns (to_ai x)) with (fun t => ti_eff t <=? ns).
    set (Q := filter (fun t => ti_eff t <=? ns) P).
    apply (sorted_unique alt alt_asym).
    + (* Layer T's order: queue keys *)
      apply SS_map with (R := Rfix); [|apply FOP_SS; assumption].
      intros x y Hx Hy Hr. destruct (Hsub x Hx) as [Hxl Hxp]. destruct (Hsub y Hy) as [Hyl Hyp].
      destruct (Ht x Hxl) as (Kx & Ax1 & Ax2 & Nx & Cx). destruct (Ht y Hyl) as (Ky & Ay1 & Ay2 & Ny & Cy).
      destruct (r_fixed_eff _ _ _ _ _ RH x Hxl Kx) as [Ex1 Ex2]. destruct (r_fixed_eff _ _ _ _ _ RH y Hyl Ky) as [Ey1 Ey2].
      assert (Fx : FIX <= ti_slot x) by (apply (r_band _ _ _ _ _ RH eq_refl x Hxl Kx); lia).
      assert (Fy : FIX <= ti_slot y) by (apply (r_band _ _ _ _ _ RH eq_refl y Hyl Ky); lia).
      pose proof (r_tset _ _ _ _ _ RH x Hxl) as Tx. pose proof (r_tset _ _ _ _ _ RH y Hyl) as Ty.
      apply (tlt_alt (cnow s)); try assumption; try (rewrite <- Ecn; auto).
      * intros Hs. tri (ti_n x) (ti_n y); [assumption| |].
        -- assert (x = y) by (apply (NoDup_map_inj ti_n linit x y Nn Hxl Hyl); assumption). subst y. lia.
        -- pose proof (r_fix_mono _ _ _ _ _ RH y x Hyl Hxl Fy Fx ltac:(lia)). lia.
      * exact (Hr Fx Fy).
    + (* Layer R's order: sort by (clamped expiry, creation) *)
      apply ai_sort_strict. rewrite map_rev, to_ai_idx. apply NoDup_rev.
      apply NoDup_map_filter. apply NoDup_map_filter. assumption.
    + intros x. rewrite ai_sort_In, <- in_rev, !in_map_iff. split; intros (t & <- & Hin); exists t; (split; [reflexivity|]).
      * apply filter_In. destruct (Hsub t Hin) as [Htl Hpd]. split; [apply pending_In; split; assumption|].
        apply Z.leb_le. apply Heff. assumption.
      * apply filter_In in Hin. destruct Hin as [HtP Hle]. apply Hin_fi; [assumption|]. rewrite K by assumption. assumption.
  - (* the side invariant *)
    constructor; rewrite M1, ?M2; [assumption|]. intros x Hx.
    destruct (fire_all_In _ _ _ _ _ _ _ _ x Efire Hx) as [Hxl|(t & Htl & ->)].
    + destruct (Ht x Hxl) as (Kx & A1 & A2 & Nx & Cx). split; [assumption|split; [assumption|split; [assumption|split; [assumption|]]]].
      intros Hpd Hle. exfalso.
      assert (HxP : In x (pending l')) by (apply pending_In; split; assumption).
      rewrite Epl in HxP. apply filter_In in HxP. destruct HxP as [_ Hgt]. apply negb_true_iff, Z.leb_gt in Hgt. lia.
    + apply t_dom_dead with (cn := s_cnow sp); [discriminate|auto].
  - (* the abstract state *)
    unfold RA. cbn [astep]. destruct (Z.gtb_spec ns (a_now a)) as [_|?]; [|lia].
    cbn [fst a_now a_pend a_count]. rewrite M1, M2, M3, Ec. split; [reflexivity|split; [reflexivity|]].
    rewrite Ep, filter_rev', filter_map_comm, Epl. reflexivity.
Qed.

Lemma g_step s sp n a o : Inv3 true s sp n -> n < HMAX -> SP sp -> RA sp a -> op_pre0 sp o -> aop_ok a o ->
  gstep s sp n a o.
Proof.
  intros V Hn S Ra Hp Ha. destruct o; cbn [aop_ok] in Ha; try contradiction.
  - apply g_add; assumption.
  - apply g_after; assumption.
  - apply g_del; assumption.
  - destruct (Z.lt_ge_cases (cnow s) ns); [apply g_run_adv|apply g_run_idle]; assumption.
  - apply g_now; assumption.
Qed.

(** ** all operations of a history *)
Lemma trun_cons s o r s1 out : tstep s o = Some (s1, out) -> fst (trun s (o :: r)) = Some out :: fst (trun s1 r).
Proof. intros E. cbn [trun]. rewrite E. destruct (trun s1 r). reflexivity. Qed.
Lemma arun_cons a o r : fst (arun a (o :: r)) = snd (astep a o) :: fst (arun (fst (astep a o)) r).
Proof. cbn [arun]. destruct (astep a o) as [a1 out]. cbn [fst snd]. destruct (arun a1 r). reflexivity. Qed.

Lemma glue_run : forall ops s sp n a,
  Inv3 true s sp n -> SP sp -> RA sp a -> n + Z.of_nat (length ops) <= HMAX ->
  Forall op_bounds ops -> NoDup (ops_cbs ops) ->
  (forall t, In t (s_timers sp) -> ~ In (ti_id t) (ops_cbs ops)) ->
  wellkeyed_from n (ktbl (s_timers sp)) (hist s ops) = true ->
  adom a ops ->
  map (option_map obs) (fst (trun s ops)) = map Some (fst (arun a ops)).
Proof.
  induction ops as [|o r IH]; intros s sp n a V S Ra Hlen Hb Hnd Hfr Hwk Hd; [reflexivity|].
  cbn [length] in Hlen. inversion Hb as [|? ? Hbo Hbr]; subst.
  cbn [ops_cbs flat_map] in Hnd, Hfr. fold (ops_cbs r) in Hnd, Hfr.
  cbn [adom] in Hd. destruct Hd as [Ha Hd].
  assert (Hhead : exists x rest, hist s (o :: r) = (o, x) :: rest).
  { unfold hist. cbn [trun]. destruct (tstep s o) as [[s1 out]|]; [destruct (trun s1 r) as [l sf]|]; cbn [fst combine]; eauto. }
  destruct Hhead as (x & rest & Eh).
  assert (Hpre : op_pre0 sp o).
  { split; [assumption|split].
    - intros cb Hcb t Ht E. apply (Hfr t Ht). rewrite E. apply in_or_app. left. assumption.
    - rewrite Eh in Hwk. cbn [wellkeyed_from] in Hwk. apply andb_prop in Hwk. tauto. }
  destruct (g_step s sp n a o V ltac:(lia) S Ra Hpre Ha) as (s' & out & Es & Eo & V' & S' & Ra').
  rewrite (trun_cons _ _ _ _ _ Es), arun_cons. cbn [map option_map]. rewrite Eo. f_equal.
  rewrite (hist_cons _ _ _ _ _ Es) in Hwk.
  pose proof (mon_step_ktbl sp o (Some out)) as Hk. pose proof (mon_step_ids sp o (Some out)) as Hi.
  set (sp' := fst (mon_step sp o (Some out))) in *.
  pose proof V as [_ _ _ Hn].
  apply (IH s' sp' (n + 1)); try assumption; try lia.
  - apply NoDup_app_r in Hnd. assumption.
  - intros t Ht Hin. destruct (Hi (ti_id t) (in_map ti_id _ _ Ht)) as [H1|H1].
    + clear - Hnd H1 Hin. induction (op_cbs o) as [|c l IHl]; [destruct H1|]. cbn [app] in Hnd. inversion Hnd as [|? ? Hn Hnd']; subst.
      destruct H1 as [->|H1]; [apply Hn; apply in_or_app; right; assumption|auto].
    + apply in_map_iff in H1. destruct H1 as (t0 & E0 & Ht0). apply (Hfr t0 Ht0). rewrite E0. apply in_or_app. right. assumption.
  - cbn [wellkeyed_from] in Hwk. apply andb_prop in Hwk. destruct Hwk as [_ Hwk]. rewrite Hk, Hn. exact Hwk.
Qed.

Lemma SP_init : SP s_init.
Proof. constructor; [reflexivity|intros t []]. Qed.
Lemma RA_init : RA s_init ainit.
Proof. repeat split. Qed.

(** ** the glue theorem: on millisecond-aligned histories of fixed timers the faithful tick /
    wrap-around model of Layer T and the abstract rule of Layer R produce the same observable
    results -- fired callbacks of every run INCLUDING THEIR ORDER, results of timer_del, Core::now --
    and the model never panics *)
Theorem glue_fixed_timers_proved : forall ops, ms_aligned ops ->
  map (option_map obs) (fst (trun t_init ops)) = map Some (fst (arun ainit ops)).
Proof.
  intros ops [(Hlen & Hb & _ & Hnd & Hwk) Hd]. unfold wellkeyed in Hwk. rewrite model_history_hist in Hwk.
  apply (glue_run ops t_init s_init 0 ainit); try assumption; try lia.
  - apply Inv3_init.
  - apply SP_init.
  - apply RA_init.
  - intros t [].
Qed.

(** ** the generator's parity discipline implies the domain *)
Definition par_inv (a : astate) : Prop := even_ms (a_now a) /\ forall x, In x (a_pend a) -> odd_ms (ai_exp x).

Lemma par_step a o : par_inv a -> pop_ok a o -> aop_ok a o /\ par_inv (fst (astep a o)).
Proof.
  intros [He Ho] Hp. destruct o; cbn [pop_ok] in Hp; try contradiction; cbn [aop_ok astep fst].
  - destruct Hp as [O L]. split; [split; [unfold odd_ms, aligned, MS in *; lia|assumption]|].
    split; cbn [a_add a_now a_pend]; [assumption|]. intros x Hx. apply in_app_or in Hx. destruct Hx as [Hx|[<-|[]]]; [auto|exact O].
  - destruct Hp as [O L]. split; [split; [unfold odd_ms, aligned, MS in *; lia|assumption]|].
    split; cbn [a_add a_now a_pend]; [assumption|]. intros x Hx. apply in_app_or in Hx. destruct Hx as [Hx|[<-|[]]]; [auto|].
    cbn [ai_exp]. unfold odd_ms, even_ms, MS in *. lia.
  - split; [exact I|]. split; cbn [a_now a_pend]; [assumption|]. intros x Hx. apply filter_In in Hx. apply Ho. tauto.
  - split.
    + split; [unfold even_ms, aligned, MS in *; lia|]. intros _ x Hx E. specialize (Ho x Hx). unfold odd_ms, even_ms, MS in *. lia.
    + destruct (ns >? a_now a); cbn [fst a_bump a_now a_pend]; split; try assumption.
      intros x Hx. apply filter_In in Hx. apply Ho. tauto.
  - split; [exact I|]. split; assumption.
Qed.

Lemma parity_adom : forall ops a, par_inv a -> pdom a ops -> adom a ops.
Proof.
  induction ops as [|o r IH]; intros a Hi Hd; [exact I|]. cbn [pdom adom] in *. destruct Hd as [Hp Hd].
  destruct (par_step a o Hi Hp) as [Ha Hi']. split; [assumption|]. apply IH; assumption.
Qed.

Theorem glue_parity_proved : forall ops, good ops -> pdom ainit ops ->
  map (option_map obs) (fst (trun t_init ops)) = map Some (fst (arun ainit ops)).
Proof.
  intros ops Hg Hd. apply glue_fixed_timers_proved. split; [assumption|]. apply parity_adom; [|assumption].
  split; [reflexivity|intros x []].
Qed.

(** ** the boolean domain check is sound *)
Lemma aop_ok_b_sound a o : aop_ok_b a o = true -> aop_ok a o.
Proof.
  destruct o; cbn [aop_ok_b aop_ok]; intros H; try discriminate; try exact I.
  - apply andb_prop in H. destruct H as [H1 H2]. apply Z.eqb_eq in H1. apply Z.ltb_lt in H2. split; assumption.
  - apply andb_prop in H. destruct H as [H H3]. apply andb_prop in H. destruct H as [H1 H2].
    apply Z.eqb_eq in H1. apply Z.leb_le in H2. apply Z.ltb_lt in H3. split; [assumption|lia].
  - apply andb_prop in H. destruct H as [H1 H2]. apply Z.eqb_eq in H1. split; [assumption|].
    intros L x Hx. apply orb_prop in H2. destruct H2 as [H2|H2].
    + apply negb_true_iff, Z.ltb_ge in H2. lia.
    + rewrite forallb_forall in H2. specialize (H2 x Hx). apply negb_true_iff, Z.eqb_neq in H2. assumption.
Qed.

Lemma adom_b_sound : forall ops a, adom_b a ops = true -> adom a ops.
Proof.
  induction ops as [|o r IH]; intros a H; [exact I|]. cbn [adom_b adom] in *. apply andb_prop in H. destruct H as [H1 H2].
  split; [apply aop_ok_b_sound; assumption|apply IH; assumption].
Qed.
