(** Layer Q: executable model of /repo/src/queue/flat.rs (FnOnceQueue over hvec::HVec).

    The arithmetic that decides the layout ([push_req], [align_ptr], [expand_size], [INITIAL_ALLOCATION],
    [CHAIN_ITEM_SIZE]) is NOT written here: it is the code generated from the Rust source by tools/rs2v.py
    (coq/Gen/SrcFlat.v), so an edit of the source changes this model.

    Memory model: one block per allocation (the allocator is the environment: it returns pairwise disjoint
    blocks; the base ADDRESS of every block is an input of the operation that allocates, because alignment
    in flat.rs is done on absolute addresses).  A block maps absolute addresses to cells.

    Every panic site of flat.rs (arithmetic overflow in a debug build, [Layout] failure, the [assert!] of
    [expand_storage], the debug assertions) and every way the unsafe code could go wrong (access outside
    [base, base+cap), reading a cell that does not hold what the read expects) is an explicit [Err] value.
    No proofs in this file. *)
From Coq Require Import ZArith List Bool FMapPositive.
From Stk Require Import Lib.U Gen.SrcFlat.
Import ListNotations.
Local Open Scope Z_scope.

(* ------------------------------------------------------------------ *)
(** * Errors and the result monad *)

Inductive err : Set :=
| EOverflow       (* checked arithmetic of the generated code returned None (debug-build overflow panic) *)
| ELayout         (* Layout::from_size_align(size, 8).unwrap() fails in HVec::with_size *)
| EAssertExpand   (* assert!(hv.cap() - hv.len() >= req) at the end of expand_storage *)
| ENoSpace        (* debug: "HVec::push: not enough space after expand" *)
| ENestedExpand   (* pushing the chain item into the fresh buffer would itself need an expansion *)
| EDebugAssert    (* one of the debug_assert!s of HVec::push / Drain fails *)
| EBounds         (* ghost check: an access outside [base, base+cap) of the block *)
| EBadCell        (* ghost check: a read finds a cell that is not what a read of that type expects *)
| EBadChain       (* ghost check: the old-buffer words read back do not name the owned old buffer *)
| EFuel           (* the drain walk ran out of fuel (never happens, see FlatProofs) *)
| ENestedSelf     (* system level: a running closure pushes onto the queue being executed *)
| EBadQueue.      (* system level: queue index out of range *)

Inductive res (A : Type) : Type :=
| Ok (a : A)
| Err (e : err).
Arguments Ok {A} a.
Arguments Err {A} e.

Definition rbind {A B} (r : res A) (f : A -> res B) : res B :=
  match r with Ok a => f a | Err e => Err e end.
Notation "x <-! e ;; k" := (rbind e (fun x => k)) (at level 61, e at next level, right associativity).
Notation "' p <-! e ;; k" := (rbind e (fun x => match x with p => k end))
  (at level 61, p pattern, e at next level, right associativity).

(** An arithmetic [None] of the generated code is the overflow panic. *)
Definition olift {A} (o : option A) : res A :=
  match o with Some a => Ok a | None => Err EOverflow end.

(* ------------------------------------------------------------------ *)
(** * Closures as seen by the queue *)

(** A closure instance: an identity, the layout of its type (what the vtable says) and its captured bytes. *)
Record entry : Type := { e_id : Z; e_size : Z; e_align : Z; e_data : list Z }.

(** What a VP (vtable pointer) word stands for.  [VChain] is the vtable of the closure
    [move |s| old_queue.execute(s)] built by expand_storage. *)
Inductive vkind : Type := VUser (id : Z) | VChain.
Record vtab : Type := { vt_kind : vkind; vt_size : Z; vt_align : Z }.

(** Memory cells.  A pointer-sized word occupies 8 cells: its head and 7 [CTail]s. *)
Inductive cell : Type :=
| CVp (v : vtab)      (* first byte of a vtable-pointer word *)
| CWord (w : Z)       (* first byte of a usize word (fields of the chained HVec) *)
| CTail               (* bytes 1..7 of a word *)
| CByte (b : Z)       (* one byte of captured closure data *)
| CUninit.

(* ------------------------------------------------------------------ *)
(** * Block memory *)

Definition zkey (z : Z) : positive :=
  match z with Z0 => 1%positive | Zpos p => xO p | Zneg p => xI p end.

Definition mem := PositiveMap.t cell.
Definition mem_empty : mem := PositiveMap.empty cell.
Definition rd (m : mem) (a : Z) : cell :=
  match PositiveMap.find (zkey a) m with Some c => c | None => CUninit end.
Definition wr (m : mem) (a : Z) (c : cell) : mem := PositiveMap.add (zkey a) c m.

Fixpoint rd_list (m : mem) (a : Z) (n : nat) : list cell :=
  match n with O => [] | S n' => rd m a :: rd_list m (a + 1) n' end.
Fixpoint wr_list (m : mem) (a : Z) (cs : list cell) : mem :=
  match cs with [] => m | c :: cs' => wr_list (wr m a c) (a + 1) cs' end.

Definition tails : list cell := [CTail; CTail; CTail; CTail; CTail; CTail; CTail].
Definition vp_cells (v : vtab) : list cell := CVp v :: tails.
Definition word_cells (w : Z) : list cell := CWord w :: tails.

Definition is_tail (c : cell) : bool := match c with CTail => true | _ => false end.
Definition dec_vp (cs : list cell) : option vtab :=
  match cs with CVp v :: tl => if forallb is_tail tl then Some v else None | _ => None end.
Definition dec_word (cs : list cell) : option Z :=
  match cs with CWord w :: tl => if forallb is_tail tl then Some w else None | _ => None end.
Fixpoint dec_bytes (cs : list cell) : option (list Z) :=
  match cs with
  | [] => Some []
  | CByte b :: tl => match dec_bytes tl with Some bs => Some (b :: bs) | None => None end
  | _ => None
  end.

(* ------------------------------------------------------------------ *)
(** * hvec::HVec *)

Record hvec : Type := { hv_base : Z; hv_len : Z; hv_cap : Z; hv_mem : mem }.

(** HVec::new(): null pointer, no allocation. *)
Definition hv_new : hvec := {| hv_base := 0; hv_len := 0; hv_cap := 0; hv_mem := mem_empty |}.

(** isize::MAX - 7: the largest size Layout::from_size_align(size, 8) accepts. *)
Definition LAYOUT_MAX : Z := 9223372036854775800.

(** HVec::with_size(size); [base] is the address the allocator returns. *)
Definition hv_with_size (size base : Z) : res hvec :=
  if size >? LAYOUT_MAX then Err ELayout
  else Ok {| hv_base := base; hv_len := 0; hv_cap := size; hv_mem := mem_empty |}.

(** Ghost predicate: the [n] bytes at [a] lie inside the block of [h]. *)
Definition in_bounds (h : hvec) (a n : Z) : bool :=
  (hv_base h <=? a) && (a + n <=? hv_base h + hv_cap h).

(** Ghost predicate exported to other layers: an access of [n] bytes at [a] with alignment [al]
    is inside the block and aligned. *)
Definition flat_access_ok (h : hvec) (a n al : Z) : bool :=
  in_bounds h a n && (0 <? al) && (a mod al =? 0).

(** The unsafe block of HVec::push (after the space check): write VP, align, write T, re-align. *)
Definition hv_write (h : hvec) (vt : vtab) (cs : list cell) : res hvec :=
  let base := hv_base h in
  let p := base + hv_len h in                                  (* self.ptr.add(self.len) *)
  if negb (p mod 8 =? 0) then Err EDebugAssert else            (* debug_assert_eq!(0, p % align_of::<VP>()) *)
  if negb (in_bounds h p 8) then Err EBounds else
  let m1 := wr_list (hv_mem h) p (vp_cells vt) in              (* (p as *mut VP).write(v1) *)
  let p1 := p + 8 in                                           (* p.add(size_of::<VP>()) *)
  p2 <-! olift (align_ptr p1 (vt_align vt)) ;;                 (* align(p, align_of::<T>()) *)
  r <-! olift (cmod p2 (vt_align vt)) ;;
  if negb (r =? 0) then Err EDebugAssert else                  (* debug_assert_eq!(0, p % align_of::<T>()) *)
  if negb (in_bounds h p2 (vt_size vt)) then Err EBounds else
  let m2 := wr_list m1 p2 cs in                                (* (p as *mut T).write(v2) *)
  let p3 := p2 + vt_size vt in                                 (* p.add(size_of::<T>()) *)
  p4 <-! olift (align_ptr p3 8) ;;                             (* align(p, align_of::<VP>()) *)
  len' <-! olift (csub p4 base) ;;                             (* (p as usize) - (self.ptr as usize) *)
  if len' >? hv_cap h then Err EDebugAssert else               (* debug_assert!(self.len <= self.cap) *)
  Ok {| hv_base := base; hv_len := len'; hv_cap := hv_cap h; hv_mem := m2 |}.

(* ------------------------------------------------------------------ *)
(** * FnOnceQueue *)

(** [fq_cur] is the storage HVec.  [fq_chain] are the older buffers, newest first: each is owned by the
    chain closure stored as the first item of the next newer buffer. *)
Record fq : Type := { fq_cur : hvec; fq_chain : list hvec }.

Definition fq_new : fq := {| fq_cur := hv_new; fq_chain := [] |}.

Definition CHAIN_PAYLOAD : Z := CHAIN_ITEM_SIZE - 8.   (* size_of::<FnOnceQueue<()>>() = 24 *)
Definition chain_vt : vtab := {| vt_kind := VChain; vt_size := CHAIN_PAYLOAD; vt_align := 8 |}.
Definition chain_cells (old : hvec) : list cell :=
  word_cells (hv_base old) ++ word_cells (hv_len old) ++ word_cells (hv_cap old).

Definition user_vt (e : entry) : vtab := {| vt_kind := VUser (e_id e); vt_size := e_size e; vt_align := e_align e |}.
Definition user_cells (e : entry) : list cell := map CByte (e_data e).

(** FnOnceQueue::expand_storage(hv, req); [newbase] is what the allocator returns for the new buffer. *)
Definition expand_storage (q : fq) (req newbase : Z) : res fq :=
  let hv := fq_cur q in
  let push_old := negb (hv_len hv =? 0) in                     (* let push_old = hv.len() != 0; *)
  req2 <-! olift (if push_old then cadd64 req CHAIN_ITEM_SIZE else Some req) ;;
  size <-! olift (expand_size (hv_cap hv) req2) ;;
  new <-! hv_with_size size newbase ;;
  q1 <-! (if push_old then
            (* Self::push_aux(hv, move |s| old_queue.execute(s)) : HVec::push of the chain closure *)
            creq <-! olift (push_req CHAIN_PAYLOAD 8) ;;
            avail <-! olift (csub (hv_cap new) (hv_len new)) ;;
            if creq >? avail then Err ENestedExpand else
            new' <-! hv_write new chain_vt (chain_cells hv) ;;
            Ok {| fq_cur := new'; fq_chain := hv :: fq_chain q |}
          else
            (* the old (empty) HVec is dropped: its block is freed, nothing is forgotten *)
            Ok {| fq_cur := new; fq_chain := [] |}) ;;
  avail <-! olift (csub (hv_cap (fq_cur q1)) (hv_len (fq_cur q1))) ;;
  if avail <? req then Err EAssertExpand else Ok q1.           (* assert!(hv.cap() - hv.len() >= req) *)

(** HVec::push(vtable, item, expand_storage) for a value of layout [vt] whose bytes are [cs]. *)
Definition fq_push_raw (q : fq) (vt : vtab) (cs : list cell) (newbase : Z) : res fq :=
  req <-! olift (push_req (vt_size vt) (vt_align vt)) ;;
  avail <-! olift (csub (hv_cap (fq_cur q)) (hv_len (fq_cur q))) ;;
  q1 <-! (if req >? avail then                                 (* if req > self.cap - self.len *)
            q1 <-! expand_storage q req newbase ;;
            avail1 <-! olift (csub (hv_cap (fq_cur q1)) (hv_len (fq_cur q1))) ;;
            if req >? avail1 then Err ENoSpace else Ok q1      (* #[cfg(debug_assertions)] panic *)
          else Ok q) ;;
  h' <-! hv_write (fq_cur q1) vt cs ;;
  Ok {| fq_cur := h'; fq_chain := fq_chain q1 |}.

(** FnOnceQueue::push(closure) *)
Definition fq_push (q : fq) (e : entry) (newbase : Z) : res fq :=
  fq_push_raw q (user_vt e) (user_cells e) newbase.

(** FnOnceQueue::is_empty *)
Definition fq_is_empty (q : fq) : bool := hv_len (fq_cur q) =? 0.

(** Geometry reported by the verification hook verif_geometry(): (base, len, cap). *)
Definition fq_geometry (q : fq) : Z * Z * Z := (hv_base (fq_cur q), hv_len (fq_cur q), hv_cap (fq_cur q)).

(** Drain::next_vp + Drain::next_unchecked + the callback, iterated ([drain_for_each]).
    The walk knows only what it reads: the vtable word gives (size, align), nothing else.
    [on_chain b l c] is what running/dropping the chain closure whose captured HVec is {b,l,c} does. *)
Fixpoint walk (on_chain : Z -> Z -> Z -> res (list entry)) (h : hvec) (fuel : nat) (pos endp : Z)
  : res (list entry) :=
  match fuel with
  | O => Err EFuel
  | S fuel' =>
    if pos <? endp then                                        (* next_vp: if self.pos < self.end *)
      if negb (in_bounds h pos 8) then Err EBounds else
      match dec_vp (rd_list (hv_mem h) pos 8) with             (* *(p as *mut VP) *)
      | None => Err EBadCell
      | Some vt =>
        let pos1 := pos + 8 in                                 (* self.pos = p.add(size_of::<VP>()) *)
        if pos1 >? endp then Err EDebugAssert else             (* debug_assert!(self.pos <= self.end) *)
        if negb (pos mod 8 =? 0) then Err EDebugAssert else    (* debug_assert_eq!(0, p % align_of::<VP>()) *)
        (* next_unchecked(Layout{size, align}) *)
        dp <-! olift (align_ptr pos1 (vt_align vt)) ;;         (* align(self.pos, layout.align()) *)
        pos2 <-! olift (align_ptr (dp + vt_size vt) 8) ;;      (* align(p.add(layout.size()), 8) *)
        if pos2 >? endp then Err EDebugAssert else             (* debug_assert!(self.pos <= self.end) *)
        r <-! olift (cmod dp (vt_align vt)) ;;
        if negb (r =? 0) then Err EDebugAssert else            (* debug_assert_eq!(0, p % layout.align()) *)
        if negb (in_bounds h dp (vt_size vt)) then Err EBounds else
        (* apply(ptr): call() does ptr::read(&self.cb) and runs it; drop() does drop_in_place *)
        mine <-! match vt_kind vt with
                 | VUser id =>
                   match dec_bytes (rd_list (hv_mem h) dp (Z.to_nat (vt_size vt))) with
                   | None => Err EBadCell
                   | Some bs => Ok [ {| e_id := id; e_size := vt_size vt; e_align := vt_align vt; e_data := bs |} ]
                   end
                 | VChain =>
                   match dec_word (rd_list (hv_mem h) dp 8),
                         dec_word (rd_list (hv_mem h) (dp + 8) 8),
                         dec_word (rd_list (hv_mem h) (dp + 16) 8) with
                   | Some b, Some l, Some c => on_chain b l c
                   | _, _, _ => Err EBadCell
                   end
                 end ;;
        rest <-! walk on_chain h fuel' pos2 endp ;;
        Ok (mine ++ rest)
      end
    else Ok []
  end.

(** drain_for_each over the HVec [h] whose older buffers are [chain].  Every item takes at least 8
    bytes, so [len] steps always suffice (proved). *)
Fixpoint drain_hv (chain : list hvec) (h : hvec) : res (list entry) :=
  walk (fun b l c =>
          match chain with
          | [] => Err EBadChain
          | old :: rest =>
            if (hv_base old =? b) && (hv_len old =? l) && (hv_cap old =? c)
            then drain_hv rest old       (* old_queue.execute(s) / drop(old_queue) *)
            else Err EBadChain
          end)
       h (S (Z.to_nat (hv_len h))) (hv_base h) (hv_base h + hv_len h).

(** HVec::drain(): len = 0, same allocation. *)
Definition hv_reset (h : hvec) : hvec :=
  {| hv_base := hv_base h; hv_len := 0; hv_cap := hv_cap h; hv_mem := hv_mem h |}.

(** FnOnceQueue::execute: the closures run, in this order; the queue keeps its allocation with len = 0.
    All older buffers have been executed and freed by their chain closures. *)
Definition fq_execute (q : fq) : res (list entry * fq) :=
  es <-! drain_hv (fq_chain q) (fq_cur q) ;;
  Ok (es, {| fq_cur := hv_reset (fq_cur q); fq_chain := [] |}).

(** Drop for FnOnceQueue: the closures dropped un-run, in this order; the allocation is freed. *)
Definition fq_drop (q : fq) : res (list entry) :=
  drain_hv (fq_chain q) (fq_cur q).
