(** Layer Q: safety of the flat queue (facts reused by C16 and C01).

    - the only errors a flat-queue operation can ever return are the two "address space exhausted"
      ones ([EOverflow], [ELayout]); in particular the assertion of expand_storage, the debug
      assertions, the bounds/aliasing ghost checks never fail ([push_err], [flat_no_bug]);
    - under explicit size hypotheses there is no error at all ([push_total]);
    - every VP/data region of a represented block is inside the block, aligned, and regions of
      distinct items are disjoint ([accesses_ok]);
    - execution order = push order ([exec_order_eq]). *)
From Coq Require Import ZArith List Bool Lia.
From Stk Require Import Lib.U Gen.SrcFlat Q.Monitor Q.Arith Q.Flat Q.Boxed Q.Sys Q.MemProofs Q.FlatProofs Q.SysProofs.
Import ListNotations.
Local Open Scope Z_scope.
Ltac Zify.zify_post_hook ::= Z.div_mod_to_equations.
Local Arguments wr_list : simpl never.
Local Arguments rd_list : simpl never.
Local Arguments vp_cells : simpl never.
Local Arguments word_cells : simpl never.

Definition benign (e : err) : Prop := e = EOverflow \/ e = ELayout.

(** 2^61 *)
Definition SMALL : Z := 2305843009213693952.

Lemma req_spec_bounds size a : 0 <= size -> 0 < a ->
  0 <= req_spec size a <= Z.max 8 a + size + 7.
Proof.
  intros. unfold req_spec.
  pose proof (up_ge (Z.max 8 a + size) 8 ltac:(lia)).
  pose proof (up_lt (Z.max 8 a + size) 8 ltac:(lia)). lia.
Qed.

(** [hv_write] after a successful space check: it can only fail by leaving the address space *)
Lemma hv_write_cases h vt cs : hv_wf h -> vt_wf vt cs ->
  hv_len h + req_spec (vt_size vt) (vt_align vt) <= hv_cap h ->
  forall er, hv_write h vt cs = Err er -> er = EOverflow /\ ~ hv_base h + hv_cap h < W64.
Proof.
  intros Hwf Hvt Hreq er Herr. split.
  - pose proof Hwf as (Hb0 & Hb8 & Hlen & Hl8 & Hcapok). pose proof Hvt as ((k & Hk & Ha) & Hs & Hcs).
    set (p := hv_base h + hv_len h).
    assert (Ep8 : p mod 8 = 0). { subst p. rewrite Zplus_mod, Hb8, Hl8. reflexivity. }
    pose proof (item_geometry p vt cs Hvt) as (G1 & G2 & G3 & G4).
    pose proof (vt_wf_align_pos _ _ Hvt) as Hapos.
    pose proof (consumption_le_req p (vt_size vt) k Hk Hs Ep8) as Hc. rewrite <- Ha in Hc.
    fold (data_addr p vt) in Hc. fold (next_addr p vt) in Hc.
    revert Herr. unfold hv_write. fold p. rewrite Ep8. cbn [Z.eqb negb].
    unfold in_bounds.
    replace ((hv_base h <=? p) && (p + 8 <=? hv_base h + hv_cap h)) with true
      by (symmetry; apply andb_true_iff; split; apply Z.leb_le; pose proof (req_spec_bounds (vt_size vt) (vt_align vt)); lia).
    cbn [negb].
    destruct (align_ptr (p + 8) (vt_align vt)) as [p2|] eqn:E2; cbn [olift rbind]; [|congruence].
    rewrite Ha in E2. apply align_ptr_some in E2; [|assumption|lia]. rewrite <- Ha in E2.
    destruct E2 as [-> Hp2]. fold (data_addr p vt).
    unfold cmod. replace (vt_align vt =? 0) with false by (symmetry; apply Z.eqb_neq; lia).
    cbn [olift rbind]. rewrite G4. cbn [Z.eqb negb].
    replace ((hv_base h <=? data_addr p vt) && (data_addr p vt + vt_size vt <=? hv_base h + hv_cap h)) with true
      by (symmetry; apply andb_true_iff; split; apply Z.leb_le; lia).
    cbn [negb].
    destruct (align_ptr (data_addr p vt + vt_size vt) 8) as [p4|] eqn:E4; cbn [olift rbind]; [|congruence].
    apply align_ptr_some8 in E4; [|lia]. destruct E4 as [-> Hp4]. fold (next_addr p vt).
    unfold csub. replace (hv_base h <=? next_addr p vt) with true by (symmetry; apply Z.leb_le; lia).
    cbn [olift rbind].
    replace (next_addr p vt - hv_base h >? hv_cap h) with false
      by (symmetry; rewrite Z.gtb_ltb; apply Z.ltb_ge; lia).
    discriminate.
  - intros Hsp. destruct (hv_write_total h vt cs Hwf Hvt Hreq Hsp) as [h' E]. congruence.
Qed.

Lemma hv_with_size_err size b er : hv_with_size size b = Err er -> er = ELayout /\ LAYOUT_MAX < size.
Proof.
  unfold hv_with_size. destruct (size >? LAYOUT_MAX) eqn:E; [|discriminate].
  intros H. injection H as <-. rewrite Z.gtb_ltb in E. apply Z.ltb_lt in E. auto.
Qed.

Definition expand_small (q : fq) (req nb : Z) : Prop :=
  hv_cap (fq_cur q) <= SMALL /\ req <= SMALL /\ nb <= 2 * SMALL.

(** expand_storage: its assertion never fails; it can only fail by exhausting the address space *)
Lemma expand_err q ents req nb er : fq_inv q ents -> base_ok nb -> 0 <= req ->
  expand_storage q req nb = Err er -> benign er /\ ~ expand_small q req nb.
Proof.
  intros Hinv (Hnb0 & Hnb8) Hreq. unfold expand_storage, expand_small, SMALL.
  pose proof init_alloc_bounds as HI.
  pose proof (chain_inv_wf _ _ _ Hinv) as (Hb0 & Hb8 & Hlen & Hl8 & Hcapok).
  destruct (hv_len (fq_cur q) =? 0) eqn:E0; cbn [negb].
  - apply Z.eqb_eq in E0. cbn [olift rbind].
    destruct (expand_size _ _) as [size|] eqn:Es; cbn [olift rbind].
    2:{ intros H. injection H as <-. split; [left; reflexivity|]. intros (S1 & S2 & S3).
        destruct (expand_size_total (hv_cap (fq_cur q)) req) as [s Hs]; [lia|lia|unfold W64; lia|congruence]. }
    apply expand_size_some in Es; [|lia|lia]. destruct Es as (j & Hj & -> & Hia & Hc1 & Hc2 & Hc3 & _).
    pose proof (pow2_pos j Hj) as Hjpos.
    destruct (hv_with_size _ _) as [new|] eqn:En; cbn [rbind].
    2:{ intros H. injection H as <-. apply hv_with_size_err in En. destruct En as [-> Hl].
        split; [right; reflexivity|]. unfold LAYOUT_MAX in Hl. lia. }
    apply hv_with_size_ok in En. destruct En as [-> _]. cbn [fq_cur hv_cap hv_len hv_base].
    unfold csub. replace (0 <=? 2 ^ j) with true by (symmetry; apply Z.leb_le; lia). cbn [olift rbind].
    replace (2 ^ j - 0 <? req) with false by (symmetry; apply Z.ltb_ge; lia). discriminate.
  - apply Z.eqb_neq in E0.
    unfold cadd64 at 1. change CHAIN_ITEM_SIZE with 32 in *.
    destruct (req + 32 <? _) eqn:Eo; cbn [olift rbind].
    2:{ intros H. injection H as <-. split; [left; reflexivity|]. apply Z.ltb_ge in Eo. lia. }
    destruct (expand_size _ _) as [size|] eqn:Es; cbn [olift rbind].
    2:{ intros H. injection H as <-. split; [left; reflexivity|]. intros (S1 & S2 & S3).
        destruct (expand_size_total (hv_cap (fq_cur q)) (req + 32)) as [s Hs]; [lia|lia|unfold W64; lia|congruence]. }
    apply expand_size_some in Es; [|lia|lia]. destruct Es as (j & Hj & -> & Hia & Hc1 & Hc2 & Hc3 & _).
    pose proof (pow2_pos j Hj) as Hjpos.
    destruct (hv_with_size _ _) as [new|] eqn:En; cbn [rbind].
    2:{ intros H. injection H as <-. apply hv_with_size_err in En. destruct En as [-> Hl].
        split; [right; reflexivity|]. unfold LAYOUT_MAX in Hl. lia. }
    apply hv_with_size_ok in En. destruct En as [-> _].
    change (push_req CHAIN_PAYLOAD 8) with (push_req (CHAIN_ITEM_SIZE - 8) 8). rewrite chain_req.
    cbn [olift rbind hv_cap hv_len]. change CHAIN_ITEM_SIZE with 32.
    unfold csub at 1. replace (0 <=? 2 ^ j) with true by (symmetry; apply Z.leb_le; lia). cbn [olift rbind].
    replace (32 >? 2 ^ j - 0) with false by (symmetry; rewrite Z.gtb_ltb; apply Z.ltb_ge; lia).
    set (new := {| hv_base := nb; hv_len := 0; hv_cap := 2 ^ j; hv_mem := mem_empty |}).
    assert (Hwfn : hv_wf new).
    { unfold hv_wf, cap_ok, new. cbn [hv_base hv_len hv_cap]. repeat split; try lia; auto. right. eauto. }
    destruct (hv_write new chain_vt (chain_cells (fq_cur q))) as [new'|] eqn:Ew; cbn [rbind].
    2:{ intros H. injection H as <-.
        apply (hv_write_cases new _ _ Hwfn (enc_chain_wf _)) in Ew.
        - destruct Ew as [-> Hn]. split; [left; reflexivity|].
          unfold new in Hn. cbn [hv_base hv_cap] in Hn. unfold W64 in Hn. lia.
        - unfold new, chain_vt. cbn [hv_len hv_cap vt_size vt_align]. vm_compute (req_spec CHAIN_PAYLOAD 8). lia. }
    destruct (hv_write_ok _ _ _ _ Hwfn (enc_chain_wf _) Ew) as (Eb & Ecap & El & Hwf' & Hr1 & _ & _).
    unfold new in Eb, Ecap, El. cbn [hv_base hv_len hv_cap] in Eb, Ecap, El. rewrite Z.add_0_r in El.
    assert (Hn32 : next_addr nb chain_vt = nb + 32).
    { unfold next_addr, data_addr, chain_vt. cbn [vt_align vt_size]. change CHAIN_PAYLOAD with 24.
      rewrite (up_id (nb + 8) 8) by lia. rewrite up_id by lia. lia. }
    cbn [fq_cur]. unfold csub. rewrite Ecap.
    replace (hv_len new' <=? 2 ^ j) with true by (symmetry; apply Z.leb_le; lia). cbn [olift rbind].
    replace (2 ^ j - hv_len new' <? req) with false by (symmetry; apply Z.ltb_ge; lia). discriminate.
Qed.

Definition push_small (q : fq) (e : entry) (nb : Z) : Prop :=
  hv_cap (fq_cur q) <= SMALL /\ hv_base (fq_cur q) + hv_cap (fq_cur q) < W64 /\
  e_size e <= SMALL / 2 /\ e_align e <= SMALL / 4 /\ nb <= 2 * SMALL.

(** push: never a failed assertion, never an out-of-bounds or misaligned access, never a clobbered
    cell; the only possible errors are the address-space ones, and those need absurd sizes *)
Lemma push_err q ents e nb er : fq_inv q ents -> entry_wf e -> base_ok nb ->
  fq_push q e nb = Err er -> benign er /\ ~ push_small q e nb.
Proof.
  intros Hinv He Hnb. unfold fq_push, fq_push_raw, push_small, SMALL.
  pose proof init_alloc_bounds as HI.
  pose proof He as (Hs & (k & Hk & Ha) & Hl).
  pose proof (chain_inv_wf _ _ _ Hinv) as Hwf. pose proof Hwf as (Hb0 & Hb8 & Hlen & Hl8 & Hcapok).
  pose proof (enc_user_wf e He) as Hvt.
  pose proof (req_spec_bounds (e_size e) (e_align e) Hs ltac:(rewrite Ha; apply pow2_pos; assumption)) as Hrb.
  cbn [user_vt vt_size vt_align].
  destruct (push_req _ _) as [req|] eqn:Er; cbn [olift rbind].
  2:{ intros H. injection H as <-. split; [left; reflexivity|]. intros (S1 & S2 & S3 & S4 & S5).
      rewrite Ha in Er. rewrite push_req_total in Er; [discriminate|assumption|assumption|].
      rewrite <- Ha. unfold W64. lia. }
  rewrite Ha in Er. apply push_req_some in Er; [|assumption|assumption]. destruct Er as [-> Hrlt].
  rewrite <- Ha in *.
  unfold csub at 1. replace (hv_len (fq_cur q) <=? hv_cap (fq_cur q)) with true by (symmetry; apply Z.leb_le; lia).
  cbn [olift rbind].
  destruct (_ >? _) eqn:Egt.
  - destruct (expand_storage q _ nb) as [q1|] eqn:Ex; cbn [rbind].
    2:{ intros H. injection H as <-.
        destruct (expand_err _ _ _ _ _ Hinv Hnb (proj1 Hrb) Ex) as [Hben Hsm]. split; [assumption|].
        intros (S1 & S2 & S3 & S4 & S5). apply Hsm. unfold expand_small, SMALL. lia. }
    destruct (expand_spec _ _ _ _ _ Hinv Hnb (proj1 Hrb) Ex) as (Hinv1 & Hfit & Hbase & _ & _ & _ & Hcapb).
    pose proof (chain_inv_wf _ _ _ Hinv1) as Hwf1. pose proof Hwf1 as (_ & _ & Hlen1 & _).
    unfold csub. replace (hv_len (fq_cur q1) <=? hv_cap (fq_cur q1)) with true by (symmetry; apply Z.leb_le; lia).
    cbn [olift rbind].
    replace (_ >? hv_cap (fq_cur q1) - hv_len (fq_cur q1)) with false
      by (symmetry; rewrite Z.gtb_ltb; apply Z.ltb_ge; lia).
    cbn [rbind].
    destruct (hv_write _ _ _) as [h'|] eqn:Ew; cbn [rbind]; [discriminate|].
    intros H. injection H as <-.
    apply (hv_write_cases _ _ _ Hwf1 Hvt) in Ew; [|cbn [user_vt vt_size vt_align]; lia].
    destruct Ew as [-> Hn]. split; [left; reflexivity|].
    intros (S1 & S2 & S3 & S4 & S5). apply Hn. rewrite Hbase. unfold W64. lia.
  - rewrite Z.gtb_ltb in Egt. apply Z.ltb_ge in Egt. cbn [rbind].
    destruct (hv_write _ _ _) as [h'|] eqn:Ew; cbn [rbind]; [discriminate|].
    intros H. injection H as <-.
    apply (hv_write_cases _ _ _ Hwf Hvt) in Ew; [|cbn [user_vt vt_size vt_align]; lia].
    destruct Ew as [-> Hn]. split; [left; reflexivity|]. tauto.
Qed.

(** Totality under explicit size hypotheses: a push onto a reachable queue whose capacity is at most
    2^61, of a closure of size <= 2^60 and alignment <= 2^59, with allocator answers <= 2^62, succeeds
    (no arithmetic overflow, no Layout failure), and the new buffer again lies in the address space. *)
Lemma push_total q ents e nb : fq_inv q ents -> entry_wf e -> base_ok nb -> push_small q e nb ->
  exists q', fq_push q e nb = Ok q' /\ fq_inv q' (ents ++ [e]) /\
    hv_base (fq_cur q') + hv_cap (fq_cur q') < W64.
Proof.
  intros Hinv He Hnb Hsm.
  destruct (fq_push q e nb) as [q'|er] eqn:E.
  - exists q'. split; [reflexivity|]. split; [eapply push_spec; eassumption|].
    (* the buffer is either the old one or a fresh one of bounded size at nb *)
    revert E. unfold fq_push, fq_push_raw. destruct Hsm as (S1 & S2 & S3 & S4 & S5). unfold SMALL in *.
    pose proof init_alloc_bounds as HI.
    pose proof He as (Hs & (k & Hk & Ha) & Hl).
    pose proof (req_spec_bounds (e_size e) (e_align e) Hs ltac:(rewrite Ha; apply pow2_pos; assumption)) as Hrb.
    pose proof (chain_inv_wf _ _ _ Hinv) as Hwf.
    pose proof (enc_user_wf e He) as Hvt.
    cbn [user_vt vt_size vt_align].
    destruct (push_req _ _) as [req|] eqn:Er; cbn [olift rbind]; [|discriminate].
    rewrite Ha in Er. apply push_req_some in Er; [|assumption|assumption]. destruct Er as [-> Hrlt].
    rewrite <- Ha in *.
    destruct (csub _ _) as [avail|]; cbn [olift rbind]; [|discriminate].
    destruct (_ >? avail).
    + destruct (expand_storage q _ nb) as [q1|] eqn:Ex; cbn [rbind]; [|discriminate].
      destruct (expand_spec _ _ _ _ _ Hinv Hnb (proj1 Hrb) Ex) as (Hinv1 & Hfit & Hbase & _ & _ & _ & Hcapb).
      destruct (csub _ _) as [avail1|]; cbn [olift rbind]; [|discriminate].
      destruct (_ >? avail1); [discriminate|]. cbn [rbind].
      destruct (hv_write _ _ _) as [h'|] eqn:Ew; cbn [rbind]; [|discriminate].
      intros H. injection H as <-. cbn [fq_cur].
      destruct (hv_write_ok _ _ _ _ (chain_inv_wf _ _ _ Hinv1) Hvt Ew) as (Eb & Ec & _).
      rewrite Eb, Ec, Hbase. unfold W64. lia.
    + cbn [rbind]. destruct (hv_write _ _ _) as [h'|] eqn:Ew; cbn [rbind]; [|discriminate].
      intros H. injection H as <-. cbn [fq_cur].
      destruct (hv_write_ok _ _ _ _ Hwf Hvt Ew) as (Eb & Ec & _).
      rewrite Eb, Ec. assumption.
  - destruct (push_err _ _ _ _ _ Hinv He Hnb E) as [_ Hn]. contradiction.
Qed.

(* ------------------------------------------------------------------ *)
(** * Operation sequences never hit a bug-class error *)

Definition sys_err_ok (e : err) : Prop := benign e \/ e = ENestedSelf \/ e = EBadQueue.

Section NoBug.
  Variable prog : entry -> list pushreq.
  Hypothesis Hprog : prog_wf prog.

  Lemma do_push_err fs bs p er : sim fs bs -> pushreq_wf p ->
    do_push flat_impl fs p = Err er -> sys_err_ok er.
  Proof.
    intros Hs (Hb & He). unfold do_push. fold (pushed_entry p).
    destruct (nth_error fs (p_queue p)) as [q|] eqn:En.
    2:{ intros H. injection H as <-. right; right; reflexivity. }
    destruct (sim_nth _ _ _ _ Hs En) as (l & _ & Hq).
    cbn [q_push flat_impl rbind].
    destruct (fq_push q _ _) as [q'|er'] eqn:Ep; cbn [rbind]; [discriminate|].
    intros H. injection H as <-. left. eapply push_err; eassumption.
  Qed.

  Lemma do_script_err i ps : forall fs bs er, sim fs bs -> Forall pushreq_wf ps ->
    do_script flat_impl i fs ps = Err er -> sys_err_ok er.
  Proof.
    induction ps as [|p ps IH]; intros fs bs er Hs Hw; cbn [do_script]; [discriminate|].
    inversion Hw as [|? ? Hp Hps]; subst.
    destruct (Nat.eqb (p_queue p) i).
    { intros H. injection H as <-. right; left; reflexivity. }
    destruct (do_push flat_impl fs p) as [fs1|er1] eqn:E1; cbn [rbind].
    - destruct (do_push_sim _ _ _ _ Hs Hp E1) as (bs1 & _ & Hs1). eapply IH; eassumption.
    - intros H. injection H as <-. eapply do_push_err; eassumption.
  Qed.

  Lemma run_entries_err i es : forall fs bs er, sim fs bs ->
    run_entries flat_impl prog i fs es = Err er -> sys_err_ok er.
  Proof.
    induction es as [|e es IH]; intros fs bs er Hs; cbn [run_entries]; [discriminate|].
    destruct (do_script flat_impl i fs (prog e)) as [fs1|er1] eqn:E1; cbn [rbind].
    - destruct (do_script_sim _ _ _ _ _ Hs (Hprog e) E1) as (bs1 & _ & Hs1). eapply IH; eassumption.
    - intros H. injection H as <-. eapply do_script_err; [eassumption|apply Hprog|eassumption].
  Qed.

  Lemma step_err fs bs o er : sim fs bs -> op_wf o ->
    step flat_impl prog fs o = Err er -> sys_err_ok er.
  Proof.
    intros Hs Hw. destruct o as [p|i|i|i]; cbn [step op_wf] in *.
    - destruct (do_push flat_impl fs p) as [fs1|er1] eqn:E1; cbn [rbind]; [discriminate|].
      intros H. injection H as <-. eapply do_push_err; eassumption.
    - destruct (nth_error fs i) as [q|] eqn:En.
      2:{ intros H. injection H as <-. right; right; reflexivity. }
      destruct (sim_nth _ _ _ _ Hs En) as (l & _ & Hq).
      cbn [q_execute flat_impl rbind].
      destruct (execute_spec _ _ Hq) as (q' & -> & Hq' & _). cbn [rbind].
      destruct (run_entries flat_impl prog i _ l) as [fs1|er1] eqn:E1; cbn [rbind]; [discriminate|].
      intros H. injection H as <-.
      eapply run_entries_err; [|eassumption].
      apply (sim_set_nth _ _ i _ _ Hs Hq').
    - destruct (nth_error fs i) as [q|] eqn:En; [discriminate|].
      intros H. injection H as <-. right; right; reflexivity.
    - destruct (nth_error fs i) as [q|] eqn:En.
      2:{ intros H. injection H as <-. right; right; reflexivity. }
      destruct (sim_nth _ _ _ _ Hs En) as (l & _ & Hq).
      cbn [q_drop flat_impl rbind]. rewrite (drop_spec _ _ Hq). cbn [rbind]. discriminate.
  Qed.

  Lemma run_err ops : forall fs bs er, sim fs bs -> Forall op_wf ops ->
    run flat_impl prog fs ops = Err er -> sys_err_ok er.
  Proof.
    induction ops as [|o ops IH]; intros fs bs er Hs Hw; cbn [run]; [discriminate|].
    inversion Hw as [|? ? Ho Hops]; subst.
    destruct (step flat_impl prog fs o) as [[evs1 fs1]|er1] eqn:E1; cbn [rbind].
    - destruct (step_sim _ Hprog _ _ _ _ _ Hs Ho E1) as (bs1 & _ & Hs1).
      destruct (run flat_impl prog fs1 ops) as [[evs2 fs2]|er2] eqn:E2; cbn [rbind]; [discriminate|].
      intros H. injection H as <-. eapply IH; eassumption.
    - intros H. injection H as <-. eapply step_err; eassumption.
  Qed.
End NoBug.

(** For every operation sequence (any sizes, alignments, placements): if the flat queue does not
    complete it, the reason is arithmetic overflow / Layout failure (address space exhausted: needs a
    capacity or closure beyond 2^59 bytes, see [push_total]) or a misuse of the harness-level API
    (bad queue index, push onto the queue being executed).  Never the assertion of expand_storage,
    never a debug assertion, never an access outside the buffer, never a cell read back that is not
    what was written there. *)
Theorem flat_no_bug prog n ops er :
  prog_wf prog -> Forall op_wf ops ->
  run flat_impl prog (init flat_impl n) ops = Err er -> sys_err_ok er.
Proof. intros Hp Hw. apply (run_err prog Hp ops _ _ er (init_sim n) Hw). Qed.

(* ------------------------------------------------------------------ *)
(** * Regions of a represented block *)

(** the (address, length, alignment) of the accesses to the items of a block, in address order *)
Fixpoint accesses (pos : Z) (items : list bitem) : list (Z * Z * Z) :=
  match items with
  | [] => []
  | (vt, _) :: rest =>
      (pos, 8, 8) :: (data_addr pos vt, vt_size vt, vt_align vt) :: accesses (next_addr pos vt) rest
  end.

(** consecutive regions do not overlap and stay within [lo, hi) *)
Fixpoint ordered (lo : Z) (l : list (Z * Z * Z)) (hi : Z) : Prop :=
  match l with
  | [] => lo <= hi
  | (a, n, _) :: rest => lo <= a /\ 0 <= n /\ ordered (a + n) rest hi
  end.

Lemma accesses_ordered m items : forall pos endp,
  repr m pos items endp -> ordered pos (accesses pos items) endp.
Proof.
  induction items as [|[vt cs] rest IH]; intros pos endp Hr; cbn [repr accesses ordered] in *.
  - lia.
  - destruct Hr as (Hwf & _ & _ & _ & _ & Hr).
    pose proof (item_geometry pos vt cs Hwf) as (G1 & G2 & _ & _). destruct Hwf as (_ & Hs & _).
    split; [lia|]. split; [lia|]. split; [lia|]. split; [lia|].
    apply IH in Hr.
    destruct (accesses (next_addr pos vt) rest) as [|[[a n] al] l]; cbn [ordered] in *; [lia|].
    destruct Hr as (H1 & H2 & H3). split; [lia|]. split; [assumption|assumption].
Qed.

Lemma ordered_in lo l hi a n al : ordered lo l hi -> In (a, n, al) l -> lo <= a /\ a + n <= hi /\ 0 <= n.
Proof.
  revert lo. induction l as [|[[a0 n0] al0] l IH]; intros lo Ho Hin; cbn [ordered In] in *; [contradiction|].
  destruct Ho as (H1 & H2 & H3). destruct Hin as [E|Hin].
  - injection E as -> -> ->. split; [assumption|]. split; [|assumption].
    clear - H3 H2. revert H3. generalize (a + n). induction l as [|[[a1 n1] al1] l IH]; intros z H; cbn [ordered] in H; [lia|].
    destruct H as (? & ? & H). apply IH in H. lia.
  - apply IH with (lo := a0 + n0) in Hin; [|assumption]. lia.
Qed.

(** two distinct positions of an ordered list are disjoint regions *)
Lemma ordered_disjoint l : forall lo hi i j a n al a' n' al', ordered lo l hi -> (i < j)%nat ->
  nth_error l i = Some (a, n, al) -> nth_error l j = Some (a', n', al') -> a + n <= a'.
Proof.
  induction l as [|[[a0 n0] al0] l IH]; intros lo hi i j a n al a' n' al' Ho Hij Hi Hj.
  - destruct i; discriminate.
  - cbn [ordered] in Ho. destruct Ho as (H1 & H2 & H3).
    destruct j as [|j]; [lia|]. cbn [nth_error] in Hj. destruct i as [|i]; cbn [nth_error] in Hi.
    + injection Hi as -> -> ->. apply nth_error_In in Hj.
      destruct (ordered_in _ _ _ _ _ _ H3 Hj). lia.
    + eapply IH; [exact H3| |exact Hi|exact Hj]. lia.
Qed.

(** Every access to an item of a reachable buffer -- the VP word and the closure bytes -- lies within
    [base, base+len) and hence within the allocation, is aligned as its type requires, and the regions
    of distinct accesses are pairwise disjoint. *)
Theorem accesses_ok h items : hv_wf h ->
  repr (hv_mem h) (hv_base h) items (hv_base h + hv_len h) ->
  let acc := accesses (hv_base h) items in
  Forall (fun '(a, n, al) => flat_access_ok h a n al = true /\ a + n <= hv_base h + hv_len h) acc /\
  (forall i j a n al a' n' al', (i < j)%nat ->
     nth_error acc i = Some (a, n, al) -> nth_error acc j = Some (a', n', al') -> a + n <= a').
Proof.
  intros (Hb0 & Hb8 & Hlen & Hl8 & Hcapok) Hr acc.
  pose proof (accesses_ordered _ _ _ _ Hr) as Ho. fold acc in Ho.
  split; [|intros; eapply ordered_disjoint; eassumption].
  (* alignment of each access *)
  assert (Hal : Forall (fun '(a, n, al) => 0 < al /\ a mod al = 0) acc).
  { subst acc. clear Ho. revert Hr. generalize (hv_base h + hv_len h) as endp.
    generalize (hv_base h) as pos.
    induction items as [|[vt cs] rest IH]; intros pos endp Hr; cbn [repr accesses] in *; [constructor|].
    destruct Hr as (Hwf & Hp8 & _ & _ & _ & Hr).
    pose proof (item_geometry pos vt cs Hwf) as (_ & _ & _ & G4). pose proof (vt_wf_align_pos _ _ Hwf).
    constructor; [split; [lia|assumption]|]. constructor; [split; assumption|]. eapply IH; eassumption. }
  apply Forall_forall. intros [[a n] al] Hin.
  rewrite Forall_forall in Hal. specialize (Hal _ Hin). cbn beta iota in Hal. destruct Hal as [Hal0 Hal1].
  destruct (ordered_in _ _ _ _ _ _ Ho Hin) as (Hlo & Hhi & Hn).
  split; [|assumption].
  unfold flat_access_ok, in_bounds. rewrite Hal1.
  replace (hv_base h <=? a) with true by (symmetry; apply Z.leb_le; lia).
  replace (a + n <=? hv_base h + hv_cap h) with true by (symmetry; apply Z.leb_le; lia).
  replace (0 <? al) with true by (symmetry; apply Z.ltb_lt; lia). reflexivity.
Qed.

(** the current buffer of any reachable queue satisfies the hypotheses of [accesses_ok] *)
Lemma fq_inv_repr q ents : fq_inv q ents ->
  hv_wf (fq_cur q) /\ exists items,
    repr (hv_mem (fq_cur q)) (hv_base (fq_cur q)) items (hv_base (fq_cur q) + hv_len (fq_cur q)).
Proof.
  unfold fq_inv. destruct (fq_chain q) as [|old rest]; cbn [chain_inv].
  - intros (Hwf & Hr & _). eauto.
  - intros (Hwf & olds & us & _ & _ & _ & Hr & _). eauto.
Qed.

(* ------------------------------------------------------------------ *)
(** * Execution order = push order *)

Fixpoint push_all (q : fq) (l : list (entry * Z)) : res fq :=
  match l with
  | [] => Ok q
  | (e, nb) :: l' => q' <-! fq_push q e nb ;; push_all q' l'
  end.

Lemma push_all_inv l : forall q ents q', fq_inv q ents ->
  Forall (fun '(e, nb) => entry_wf e /\ base_ok nb) l ->
  push_all q l = Ok q' -> fq_inv q' (ents ++ map fst l).
Proof.
  induction l as [|[e nb] l IH]; intros q ents q' Hinv Hw; cbn [push_all map].
  - intros H. injection H as <-. rewrite app_nil_r. assumption.
  - inversion Hw as [|? ? Hh Hl]; subst. cbn beta iota in Hh. destruct Hh as [He Hb].
    destruct (fq_push q e nb) as [q1|] eqn:E1; cbn [rbind]; [|discriminate].
    intros H. cbn [fst]. replace (ents ++ e :: map fst l) with ((ents ++ [e]) ++ map fst l)
      by (rewrite <- app_assoc; reflexivity).
    eapply IH; [|exact Hl|exact H]. eapply push_spec; eassumption.
Qed.

(** For any push sequence -- any sizes, power-of-two alignments, buffer placements, any number of
    expansions -- executing the flat queue runs exactly the pushed closures, in push order (the
    chained older buffers first), with the bytes that were pushed; and leaves the queue empty. *)
Theorem exec_order_eq l q :
  Forall (fun '(e, nb) => entry_wf e /\ base_ok nb) l ->
  push_all fq_new l = Ok q ->
  exists q', fq_execute q = Ok (map fst l, q') /\ fq_is_empty q' = true.
Proof.
  intros Hw Hp.
  pose proof (push_all_inv l fq_new [] q fq_inv_new Hw Hp) as Hinv. cbn [app] in Hinv.
  destruct (execute_spec _ _ Hinv) as (q' & E & Hinv' & _ & _ & Hl).
  exists q'. split; [assumption|]. unfold fq_is_empty. rewrite Hl. reflexivity.
Qed.
