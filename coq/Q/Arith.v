(** Layer Q: arithmetic facts about the GENERATED layout functions of flat.rs (coq/Gen/SrcFlat.v):
    the mask expression of [align]/[align_off] is "round up to the next multiple", [push_req] is an
    upper bound of what a push consumes, [expand_size] is the next power of two >= 1 KiB. *)
From Coq Require Import ZArith List Bool Lia.
From Stk Require Import Lib.U Gen.SrcFlat Q.Monitor.
Local Open Scope Z_scope.
Ltac Zify.zify_post_hook ::= Z.div_mod_to_equations.

Definition W64 : Z := 18446744073709551616.
Lemma W64_eq : W64 = 2 ^ 64. Proof. reflexivity. Qed.

(** * [up p a]: the least multiple of [a] that is >= [p] *)

Lemma up_mod p a : 0 < a -> (up p a) mod a = 0.
Proof.
  intros Ha. unfold up.
  rewrite Zplus_mod, Zmod_mod, <- Zplus_mod, Z.add_opp_diag_r. apply Zmod_0_l.
Qed.

Lemma up_ge p a : 0 < a -> p <= up p a.
Proof. intros. unfold up. pose proof (Z.mod_pos_bound (- p) a H). lia. Qed.

Lemma up_lt p a : 0 < a -> up p a < p + a.
Proof. intros. unfold up. pose proof (Z.mod_pos_bound (- p) a H). lia. Qed.

Lemma up_least p a m : 0 < a -> m mod a = 0 -> p <= m -> up p a <= m.
Proof.
  intros Ha Hm Hp.
  pose proof (up_mod p a Ha). pose proof (up_lt p a Ha).
  apply Z.mod_divide in Hm; [|lia]. apply Z.mod_divide in H; [|lia].
  destruct Hm as [x Hx]. destruct H as [y Hy].
  assert (y <= x); [|nia]. nia.
Qed.

Lemma up_id p a : 0 < a -> p mod a = 0 -> up p a = p.
Proof.
  intros Ha Hp. pose proof (up_least p a p Ha Hp). pose proof (up_ge p a Ha). lia.
Qed.

Lemma up_unique p a m : 0 < a -> m mod a = 0 -> p <= m < p + a -> up p a = m.
Proof.
  intros Ha Hm Hp.
  pose proof (up_mod p a Ha). pose proof (up_lt p a Ha). pose proof (up_ge p a Ha).
  apply Z.mod_divide in Hm; [|lia]. apply Z.mod_divide in H; [|lia].
  destruct Hm as [x Hx]. destruct H as [y Hy]. subst m.
  assert (y = x) by nia. subst. lia.
Qed.

Lemma up_add_multiple p q a : 0 < a -> q mod a = 0 -> up (q + p) a = q + up p a.
Proof.
  intros Ha Hq. apply up_unique; auto.
  - rewrite Zplus_mod, Hq, up_mod by auto. reflexivity.
  - pose proof (up_lt p a Ha). pose proof (up_ge p a Ha). lia.
Qed.

Lemma up_mono p q a : 0 < a -> p <= q -> up p a <= up q a.
Proof.
  intros Ha Hpq. apply up_least; auto using up_mod.
  pose proof (up_ge q a Ha). lia.
Qed.

(** * Powers of two *)

Lemma pow2_pos k : 0 <= k -> 0 < 2 ^ k.
Proof. intros. apply Z.pow_pos_nonneg; lia. Qed.

(** a power of two either divides 8 or is a multiple of 8 *)
Lemma pow2_vs_8 k : 0 <= k -> (k < 3 /\ 8 mod 2 ^ k = 0 /\ 2 ^ k <= 4) \/ (3 <= k /\ (2 ^ k) mod 8 = 0 /\ 8 <= 2 ^ k).
Proof.
  intros Hk. destruct (Z_lt_le_dec k 3) as [H|H].
  - left. assert (k = 0 \/ k = 1 \/ k = 2) as [->|[->| ->]] by lia; cbn; lia.
  - right. replace k with (3 + (k - 3)) by lia. rewrite Z.pow_add_r by lia.
    change (2 ^ 3) with 8. pose proof (pow2_pos (k - 3)). split; [lia|]. split; [|nia].
    rewrite Z.mul_comm. apply Z_mod_mult.
Qed.

(** * The generated mask expression *)

Lemma land_pow2m1 y k : 0 <= k -> Z.land (2 ^ k - 1) y = y mod 2 ^ k.
Proof.
  intros Hk. rewrite Z.land_comm. rewrite <- Z.land_ones by assumption.
  f_equal. rewrite Z.ones_equiv. lia.
Qed.

(** the increment computed by [align]/[align_off] *)
Lemma mask_inc p k : 0 <= k -> 1 <= p < W64 ->
  Z.land (2 ^ k - 1) (lnot64 ((p - 1) mod W64)) = (W64 - p) mod 2 ^ k.
Proof.
  intros Hk Hp. rewrite land_pow2m1 by assumption. f_equal.
  unfold lnot64. rewrite Z.mod_small by lia. unfold W64. lia.
Qed.

Lemma mask_inc_le64 p k : 0 <= k <= 64 -> 1 <= p < W64 ->
  (W64 - p) mod 2 ^ k = (- p) mod 2 ^ k.
Proof.
  intros Hk Hp.
  assert (W64 = 2 ^ (64 - k) * 2 ^ k) as ->.
  { rewrite <- Z.pow_add_r by lia. rewrite W64_eq. f_equal. lia. }
  replace (2 ^ (64 - k) * 2 ^ k - p) with (- p + 2 ^ (64 - k) * 2 ^ k) by lia.
  apply Z_mod_plus_full.
Qed.

Lemma mask_inc_gt64 p k : 64 < k -> 1 <= p < W64 ->
  (W64 - p) mod 2 ^ k = W64 - p /\ W64 < 2 ^ k.
Proof.
  intros Hk Hp.
  assert (W64 < 2 ^ k). { rewrite W64_eq. apply Z.pow_lt_mono_r; lia. }
  split; [apply Z.mod_small; lia|assumption].
Qed.

(** Full characterisation of the generated [align_ptr] (hvec::align on the ADDRESS) at any power of two
    and any address 1 <= p < 2^64: the least multiple of the alignment that is >= p, or the overflow panic
    when that does not fit in a usize. *)
Lemma align_ptr_spec k p : 0 <= k -> 1 <= p < W64 ->
  align_ptr p (2 ^ k) = if up p (2 ^ k) <? W64 then Some (up p (2 ^ k)) else None.
Proof.
  intros Hk Hp. unfold align_ptr, csub, cadd64, obind.
  pose proof (pow2_pos k Hk) as Hpos.
  replace (1 <=? 2 ^ k) with true by (symmetry; apply Z.leb_le; lia).
  change 18446744073709551616 with W64.
  rewrite mask_inc by assumption.
  destruct (Z_le_gt_dec k 64) as [Hle|Hgt].
  - rewrite mask_inc_le64 by lia. fold (up p (2 ^ k)).
    destruct (up p (2 ^ k) <? W64); reflexivity.
  - destruct (mask_inc_gt64 p k) as [E Hlt]; [lia|assumption|]. rewrite E.
    replace (p + (W64 - p)) with W64 by lia. rewrite Z.ltb_irrefl.
    assert (up p (2 ^ k) = 2 ^ k) as ->.
    { apply up_unique; [assumption|apply Z_mod_same_full|lia]. }
    replace (2 ^ k <? W64) with false by (symmetry; apply Z.ltb_ge; lia). reflexivity.
Qed.

Lemma align_ptr_none_big a p : 1 <= a -> W64 <= p -> align_ptr p a = None.
Proof.
  intros Ha Hp. unfold align_ptr, csub, cadd64, obind.
  replace (1 <=? a) with true by (symmetry; apply Z.leb_le; lia).
  set (inc := Z.land _ _).
  assert (0 <= inc). { subst inc. apply Z.land_nonneg. left. lia. }
  change 18446744073709551616 with W64.
  replace (p + inc <? W64) with false by (symmetry; apply Z.ltb_ge; lia). reflexivity.
Qed.

(** The two directions used by the proofs. *)
Lemma align_ptr_some k p r : 0 <= k -> 1 <= p -> align_ptr p (2 ^ k) = Some r ->
  r = up p (2 ^ k) /\ r < W64.
Proof.
  intros Hk Hp H.
  destruct (Z_lt_le_dec p W64) as [Hlt|Hge].
  - rewrite align_ptr_spec in H by lia.
    destruct (up p (2 ^ k) <? W64) eqn:E; [|discriminate].
    injection H as <-. apply Z.ltb_lt in E. auto.
  - rewrite align_ptr_none_big in H; [discriminate| |assumption].
    pose proof (pow2_pos k Hk). lia.
Qed.

Lemma align_ptr_total k p : 0 <= k -> 1 <= p -> up p (2 ^ k) < W64 ->
  align_ptr p (2 ^ k) = Some (up p (2 ^ k)).
Proof.
  intros Hk Hp H. pose proof (up_ge p (2 ^ k) (pow2_pos k Hk)).
  rewrite align_ptr_spec by lia.
  replace (up p (2 ^ k) <? W64) with true by (symmetry; apply Z.ltb_lt; lia). reflexivity.
Qed.

(** [align_off] has the same body *)
Lemma align_off_eq off a : align_off off a = align_ptr off a.
Proof. reflexivity. Qed.

(** * [push_req]: closed form *)

Lemma up8_pow2 k : 0 <= k -> up 8 (2 ^ k) = Z.max 8 (2 ^ k).
Proof.
  intros Hk. pose proof (pow2_pos k Hk).
  destruct (pow2_vs_8 k Hk) as [(_ & H8 & Hle)|(_ & H8 & Hge)].
  - rewrite up_id by assumption. lia.
  - rewrite Z.max_r by lia. apply up_unique; [assumption|apply Z_mod_same_full|lia].
Qed.

Lemma push_req_some size k r : 0 <= k -> 0 <= size -> push_req size (2 ^ k) = Some r ->
  r = req_spec size (2 ^ k) /\ r < W64.
Proof.
  intros Hk Hs. unfold push_req, req_spec. cbv zeta.
  change align_off with align_ptr.
  destruct (align_ptr 8 (2 ^ k)) as [r1|] eqn:E1; [|discriminate]. cbn [obind].
  apply align_ptr_some in E1; [|assumption|lia]. destruct E1 as [-> _].
  rewrite up8_pow2 by assumption.
  unfold cadd64. destruct (_ <? _) eqn:E2; [|discriminate]. cbn [obind].
  destruct (align_ptr _ 8) as [r3|] eqn:E3; [|discriminate]. cbn [obind].
  change 8 with (2 ^ 3) in E3 at 2. apply align_ptr_some in E3; [|lia|lia].
  intros H. injection H as <-. exact E3.
Qed.

Lemma push_req_total size k : 0 <= k -> 0 <= size -> req_spec size (2 ^ k) < W64 ->
  push_req size (2 ^ k) = Some (req_spec size (2 ^ k)).
Proof.
  intros Hk Hs Hlt. unfold push_req, req_spec in *. cbv zeta. change align_off with align_ptr.
  pose proof (up_ge (Z.max 8 (2 ^ k) + size) 8 ltac:(lia)).
  rewrite align_ptr_total; [|assumption|lia|rewrite up8_pow2 by assumption; lia].
  cbn [obind]. rewrite up8_pow2 by assumption.
  unfold cadd64. change 18446744073709551616 with W64.
  replace (_ <? W64) with true by (symmetry; apply Z.ltb_lt; lia). cbn [obind].
  change 8 with (2 ^ 3) at 2. rewrite align_ptr_total; [reflexivity|lia|lia|exact Hlt].
Qed.

(** [req] bounds what a push consumes: starting at an 8-aligned address [p], the VP word, the padding to
    [a], [size] bytes and the padding to 8 end at most [req] bytes after [p]. *)
Lemma consumption_le_req p size k : 0 <= k -> 0 <= size -> p mod 8 = 0 ->
  up (up (p + 8) (2 ^ k) + size) 8 <= p + req_spec size (2 ^ k).
Proof.
  intros Hk Hs Hp. unfold req_spec.
  rewrite <- up_add_multiple by (auto; lia).
  apply up_mono; [lia|].
  pose proof (pow2_pos k Hk).
  assert (up (p + 8) (2 ^ k) <= p + Z.max 8 (2 ^ k)); [|lia].
  destruct (pow2_vs_8 k Hk) as [(_ & H8 & Hle)|(_ & H8 & Hge)].
  - (* a divides 8: p+8 is already aligned *)
    rewrite up_id; [lia|lia|].
    apply Z.mod_divide in H8; [|lia]. destruct H8 as [x Hx].
    apply Z.mod_divide in Hp; [|lia]. destruct Hp as [y Hy].
    apply Z.mod_divide; [lia|]. exists (y * x + x).
    transitivity (y * (x * 2 ^ k) + x * 2 ^ k); [rewrite <- Hx; lia|ring].
  - (* a is a multiple of 8: the gap is a multiple of 8 below a *)
    rewrite Z.max_r by lia.
    pose proof (up_mod (p + 8) (2 ^ k) H) as Hm. pose proof (up_lt (p + 8) (2 ^ k) H) as Hl.
    set (u := up (p + 8) (2 ^ k)) in *.
    apply Z.mod_divide in H8; [|lia]. destruct H8 as [x Hx].
    apply Z.mod_divide in Hp; [|lia]. destruct Hp as [y Hy].
    apply Z.mod_divide in Hm; [|lia]. destruct Hm as [z Hz].
    (* u = 8 * (z*x), p = 8*y: u < 8y + 8 + 8x -> u <= 8y + 8x *)
    assert (z * x < y + 1 + x) by nia. nia.
Qed.

(** * [expand_size] *)

Lemma log2_up_pow2_bounds n : 1 < n -> n <= 2 ^ Z.log2_up n < 2 * n.
Proof.
  intros Hn. pose proof (Z.log2_up_spec n Hn) as [Hlo Hhi]. split; [assumption|].
  assert (0 < Z.log2_up n) by (apply Z.log2_up_pos; lia).
  replace (Z.log2_up n) with (Z.succ (Z.pred (Z.log2_up n))) by lia.
  rewrite Z.pow_succ_r by lia. lia.
Qed.

(** the only facts about the generated constant that the proofs use *)
Lemma init_alloc_bounds : 32 < INITIAL_ALLOCATION <= 4294967296.
Proof. unfold INITIAL_ALLOCATION. lia. Qed.

(** The new allocation is a power of two, at least INITIAL_ALLOCATION, strictly larger than both the old
    capacity and the requirement, and at most twice the largest of those. *)
Lemma expand_size_some cap req2 s : 0 <= cap -> 0 <= req2 -> expand_size cap req2 = Some s ->
  exists j, 0 <= j /\ s = 2 ^ j /\ INITIAL_ALLOCATION <= s /\ cap < s /\ req2 < s /\
    s <= Z.max (2 * INITIAL_ALLOCATION) (2 * Z.max cap req2) /\ s < W64.
Proof.
  intros Hc Hr. unfold expand_size, cadd64, next_pow2_64, obind.
  pose proof init_alloc_bounds as HI.
  destruct (_ <? _) eqn:E1; [|discriminate].
  set (n := Z.max (Z.max cap req2 + 1) INITIAL_ALLOCATION).
  replace (n <=? 1) with false by (symmetry; apply Z.leb_gt; lia).
  destruct (2 ^ Z.log2_up n <? _) eqn:E2; [|discriminate].
  intros H. injection H as <-. apply Z.ltb_lt in E2.
  pose proof (log2_up_pow2_bounds n ltac:(lia)) as [Hlo Hhi].
  exists (Z.log2_up n). split; [apply Z.log2_up_nonneg|].
  split; [reflexivity|]. split; [lia|]. split; [lia|]. split; [lia|]. split; [|exact E2].
  destruct (Z_le_gt_dec n INITIAL_ALLOCATION) as [Hn|Hn].
  - assert (n = INITIAL_ALLOCATION) by lia. lia.
  - assert (n = Z.max cap req2 + 1) by lia.
    pose proof (Z.log2_up_spec n ltac:(lia)) as [Hlo' _].
    assert (0 < Z.log2_up n) by (apply Z.log2_up_pos; lia).
    replace (Z.log2_up n) with (Z.succ (Z.pred (Z.log2_up n))) at 1 by lia.
    rewrite Z.pow_succ_r by lia. lia.
Qed.

Lemma expand_size_total cap req2 : 0 <= cap -> 0 <= req2 ->
  2 * Z.max INITIAL_ALLOCATION (Z.max cap req2) < W64 ->
  exists s, expand_size cap req2 = Some s.
Proof.
  intros Hc Hr Hb. unfold expand_size, cadd64, next_pow2_64, obind.
  pose proof init_alloc_bounds as HI.
  change 18446744073709551616 with W64.
  replace (Z.max cap req2 + 1 <? W64) with true by (symmetry; apply Z.ltb_lt; lia).
  set (n := Z.max (Z.max cap req2 + 1) INITIAL_ALLOCATION).
  replace (n <=? 1) with false by (symmetry; apply Z.leb_gt; lia).
  pose proof (log2_up_pow2_bounds n ltac:(lia)) as [Hlo Hhi].
  assert (2 ^ Z.log2_up n < W64).
  { destruct (Z_le_gt_dec n INITIAL_ALLOCATION) as [Hn|Hn].
    - assert (n = INITIAL_ALLOCATION) by lia. lia.
    - assert (n = Z.max cap req2 + 1) by lia.
      pose proof (Z.log2_up_spec n ltac:(lia)) as [Hlo' _].
      assert (0 < Z.log2_up n) by (apply Z.log2_up_pos; lia).
      assert (2 ^ Z.log2_up n <= 2 * Z.max cap req2); [|lia].
      replace (Z.log2_up n) with (Z.succ (Z.pred (Z.log2_up n))) at 1 by lia.
      rewrite Z.pow_succ_r by lia. lia. }
  replace (2 ^ Z.log2_up n <? W64) with true by (symmetry; apply Z.ltb_lt; lia). eauto.
Qed.

(** the chain item: the generated constant and requirement *)
Lemma chain_req : push_req (CHAIN_ITEM_SIZE - 8) 8 = Some CHAIN_ITEM_SIZE.
Proof. vm_compute. reflexivity. Qed.

(** the alignment-to-VP instances *)
Lemma align_ptr_some8 p r : 1 <= p -> align_ptr p 8 = Some r -> r = up p 8 /\ r < W64.
Proof. intros Hp H. change 8 with (2 ^ 3) in H. apply align_ptr_some in H; [exact H|lia|assumption]. Qed.

Lemma align_ptr_total8 p : 1 <= p -> up p 8 < W64 -> align_ptr p 8 = Some (up p 8).
Proof. intros Hp H. change 8 with (2 ^ 3). apply align_ptr_total; [lia|assumption|exact H]. Qed.

(** packaged statements used by Props/C17.v *)
Lemma up_is_least p a : 0 < a ->
  up p a mod a = 0 /\ p <= up p a /\ forall m, m mod a = 0 -> p <= m -> up p a <= m.
Proof. intros H. split; [apply up_mod; assumption|]. split; [apply up_ge; assumption|]. intros m. apply up_least; assumption. Qed.

Lemma req_bounds p size k r : 0 <= k -> 0 <= size -> p mod 8 = 0 -> push_req size (2 ^ k) = Some r ->
  up (up (p + 8) (2 ^ k) + size) 8 <= p + r.
Proof.
  intros Hk Hs Hp H. apply push_req_some in H; [|assumption|assumption]. destruct H as [-> _].
  apply consumption_le_req; assumption.
Qed.
